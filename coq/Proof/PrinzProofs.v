(* C12: theorems about the Prinz coordinate updates as generated from the source (Gen/PrinzGen.v),
   instantiated over the real numbers, and about the loop skeleton of Model/Prinz.v. *)
From Coq Require Import List ZArith Reals Lra Lia Bool Arith.
From EV Require Import Prinz PrinzGen.
Import ListNotations.
Open Scope R_scope.

(* ------------------------------------------------------------------ both implementations *)
Lemma py_pyx_same_updates : forall (K : Type) (o : Ops K),
  (forall C_ii Crs_i Xrs_i X_ii, py_diag o C_ii Crs_i Xrs_i X_ii = pyx_diag o C_ii Crs_i Xrs_i X_ii) /\
  (forall C_ij C_ji Crs_i Crs_j Xrs_i Xrs_j X_ij X_ji,
     py_offdiag o C_ij C_ji Crs_i Crs_j Xrs_i Xrs_j X_ij X_ji =
     pyx_offdiag o C_ij C_ji Crs_i Crs_j Xrs_i Xrs_j X_ij X_ji).
Proof. intros K o. split; intros; reflexivity. Qed.

Lemma py_pyx_same_sweep : forall (K : Type) (o : Ops K) C Crs n s,
  py_sweep o C Crs n s = pyx_sweep o C Crs n s.
Proof. intros. reflexivity. Qed.

(* ------------------------------------------------------------------ the real instance *)
Definition Rltb (a b : R) : bool := if Rlt_dec a b then true else false.
Definition Reqb (a b : R) : bool := if Req_EM_T a b then true else false.
Definition ROps : Ops R := mkOps R Rplus Rminus Rmult Rdiv Ropp IZR sqrt Rltb Reqb.

Lemma Rltb_true a b : a < b -> Rltb a b = true.
Proof. intros H. unfold Rltb. destruct (Rlt_dec a b); [reflexivity | contradiction]. Qed.
Lemma Rltb_false a b : ~ a < b -> Rltb a b = false.
Proof. intros H. unfold Rltb. destruct (Rlt_dec a b); [contradiction | reflexivity]. Qed.
Lemma Reqb_true a b : a = b -> Reqb a b = true.
Proof. intros H. unfold Reqb. destruct (Req_EM_T a b); [reflexivity | contradiction]. Qed.
Lemma Reqb_false a b : a <> b -> Reqb a b = false.
Proof. intros H. unfold Reqb. destruct (Req_EM_T a b); [contradiction | reflexivity]. Qed.

(* ---- the quantities of the pairwise update, written as the code writes them *)
Definition qa (cij cji ci cj : R) : R := (ci - cij) + (cj - cji).
Definition qb (cij cji ci cj xi xj xij : R) : R :=
  ci * (xj - xij) + cj * (xi - xij) - (cij + cji) * (xi + xj - 2 * xij).
Definition qc (cij cji xi xj xij : R) : R := - (cij + cji) * (xi - xij) * (xj - xij).
Definition root (a b c : R) : R := (- b + sqrt (b * b - 4 * a * c)) / (2 * a).
Definition newv (cij cji ci cj xi xj xij xji : R) : R :=
  let a := qa cij cji ci cj in
  if Req_EM_T a 0 then xji
  else root a (qb cij cji ci cj xi xj xij) (qc cij cji xi xj xij).

(* the generated pairwise update, whenever c <= 0 (so that the clamp `if c > 0: c = 0` is idle) *)
Lemma py_offdiag_spec cij cji ci cj xi xj xij xji :
  qc cij cji xi xj xij <= 0 ->
  py_offdiag ROps cij cji ci cj xi xj xij xji =
    let v := newv cij cji ci cj xi xj xij xji in (v, v, xi + (v - xij), xj + (v - xji)).
Proof.
  intros Hc. unfold py_offdiag, newv, root, qa, qb, qc in *. cbn [ROps kadd ksub kmul kdiv kopp kofZ ksqrt kltb keqb].
  rewrite (Rltb_false 0 _) by lra.
  unfold Reqb. destruct (Req_EM_T (ci - cij + (cj - cji)) 0) as [Ha | Ha]; reflexivity.
Qed.

(* in general the clamp replaces c by min(c, 0) *)
Lemma py_offdiag_clamped cij cji ci cj xi xj xij xji :
  0 < qc cij cji xi xj xij -> qa cij cji ci cj <> 0 ->
  fst (fst (fst (py_offdiag ROps cij cji ci cj xi xj xij xji))) =
    root (qa cij cji ci cj) (qb cij cji ci cj xi xj xij) 0.
Proof.
  intros Hc Ha. unfold py_offdiag, root, qa, qb, qc in *. cbn [ROps kadd ksub kmul kdiv kopp kofZ ksqrt kltb keqb].
  rewrite (Rltb_true 0 _) by lra.
  rewrite Reqb_false by exact Ha. reflexivity.
Qed.

Lemma py_diag_spec cii ci xi xii :
  py_diag ROps cii ci xi xii =
    let x' := if Rlt_dec 0 (ci - cii) then cii * (xi - xii) / (ci - cii) else xii in
    (x', xi + (x' - xii)).
Proof.
  unfold py_diag. cbn [ROps kadd ksub kmul kdiv kopp kofZ ksqrt kltb keqb]. unfold Rltb.
  destruct (Rlt_dec 0 (ci - cii)); reflexivity.
Qed.

(* ------------------------------------------------------------------ the root of the quadratic *)
Lemma quad_root a b c :
  0 < a -> c <= 0 ->
  let v := root a b c in a * v * v + b * v + c = 0 /\ 0 <= v.
Proof.
  intros Ha Hc v.
  assert (HD : 0 <= b * b - 4 * a * c) by nra.
  pose proof (sqrt_sqrt _ HD) as Hss. pose proof (sqrt_pos (b * b - 4 * a * c)) as Hs0.
  set (s := sqrt (b * b - 4 * a * c)) in *.
  assert (Hv : 2 * a * v = - b + s) by (unfold v, root; fold s; field; lra).
  split.
  - apply (Rmult_eq_reg_l (4 * a)); [| lra].
    replace (4 * a * (a * v * v + b * v + c))
      with ((2 * a * v) * (2 * a * v) + 2 * b * (2 * a * v) + 4 * a * c) by ring.
    rewrite Hv. replace ((- b + s) * (- b + s) + 2 * b * (- b + s) + 4 * a * c)
      with (s * s - (b * b - 4 * a * c)) by ring. rewrite Hss. ring.
  - assert (Hn : 0 <= - b + s) by nra.
    assert (H2 : 0 <= 2 * a * v) by lra. nra.
Qed.

Lemma quad_root_pos a b c : 0 < a -> c < 0 -> 0 < root a b c.
Proof.
  intros Ha Hc.
  assert (HD : 0 <= b * b - 4 * a * c) by nra.
  pose proof (sqrt_sqrt _ HD) as Hss. pose proof (sqrt_pos (b * b - 4 * a * c)) as Hs0.
  set (s := sqrt (b * b - 4 * a * c)) in *.
  assert (Hv : 2 * a * root a b c = - b + s) by (unfold root; fold s; field; lra).
  assert (Hn : 0 < - b + s) by nra.
  nra.
Qed.

(* the non-negative root is unique: any w >= 0 solving the quadratic is the code's value (c < 0) *)
Lemma quad_root_unique a b c w :
  0 < a -> c < 0 -> 0 <= w -> a * w * w + b * w + c = 0 -> w = root a b c.
Proof.
  intros Ha Hc Hw Hq.
  destruct (quad_root a b c Ha (Rlt_le _ _ Hc)) as [Hr Hv0].
  pose proof (quad_root_pos a b c Ha Hc) as Hvp.
  set (v := root a b c) in *.
  (* a (w - v)(w + v) + b (w - v) = 0, and a (w + v) + b > 0 because a v + b = -c / v > 0 *)
  assert (H1 : (w - v) * (a * (w + v) + b) = 0) by nra.
  assert (H2 : 0 < a * v + b) by nra.
  assert (H3 : 0 < a * (w + v) + b) by nra.
  apply Rmult_integral in H1. destruct H1 as [H1 | H1]; lra.
Qed.

(* ------------------------------------------------------------------ each update is a stationary
   point of the log-likelihood in its own coordinate.
   log L(X) = sum_kl c_kl ln (x_kl / x_k), x_k = sum_l x_kl, X symmetric.  With every entry other than
   x_ij = x_ji = v fixed, and r_i = x_i - x_ij, r_j = x_j - x_ij the rest of rows i and j, the part of
   log L that depends on v is  ell_off (c_ij + c_ji) c_i c_j r_i r_j v;  for a diagonal entry
   x_ii = u with r = x_i - x_ii it is  ell_diag c_ii c_i r u. *)
Lemma dlog_shift r v : 0 < r + v -> derivable_pt_lim (fun u => ln (r + u)) v (/ (r + v)).
Proof.
  intros H.
  replace (/ (r + v)) with (/ (r + v) * (0 + 1)) by ring.
  apply (derivable_pt_lim_comp (fun u => r + u) ln).
  - apply (derivable_pt_lim_plus (fun _ => r) id); [apply derivable_pt_lim_const | apply derivable_pt_lim_id].
  - apply derivable_pt_lim_ln. exact H.
Qed.
Definition ell_off (s ci cj ri rj : R) (v : R) : R := s * ln v - ci * ln (ri + v) - cj * ln (rj + v).
Definition dell_off (s ci cj ri rj v : R) : R := s / v - ci / (ri + v) - cj / (rj + v).
Lemma ell_off_derivative s ci cj ri rj v : 0 < v -> 0 < ri + v -> 0 < rj + v ->
  derivable_pt_lim (ell_off s ci cj ri rj) v (dell_off s ci cj ri rj v).
Proof.
  intros Hv Hi Hj. unfold ell_off, dell_off.
  apply (derivable_pt_lim_minus (fun u => s * ln u - ci * ln (ri + u)) (fun u => cj * ln (rj + u))).
  - apply (derivable_pt_lim_minus (fun u => s * ln u) (fun u => ci * ln (ri + u))).
    + unfold Rdiv. apply (derivable_pt_lim_scal ln s). apply derivable_pt_lim_ln. exact Hv.
    + unfold Rdiv. apply (derivable_pt_lim_scal (fun u => ln (ri + u)) ci). apply dlog_shift. exact Hi.
  - unfold Rdiv. apply (derivable_pt_lim_scal (fun u => ln (rj + u)) cj). apply dlog_shift. exact Hj.
Qed.

(* the code's quadratic is -v (r_i + v)(r_j + v) times that derivative *)
Lemma offdiag_quadratic_is_derivative cij cji ci cj xi xj xij :
  let ri := xi - xij in let rj := xj - xij in
  forall v, v <> 0 -> ri + v <> 0 -> rj + v <> 0 ->
  qa cij cji ci cj * v * v + qb cij cji ci cj xi xj xij * v + qc cij cji xi xj xij =
  - (v * (ri + v) * (rj + v)) * dell_off (cij + cji) ci cj ri rj v.
Proof. intros ri rj v H1 H2 H3. unfold qa, qb, qc, dell_off, ri, rj in *. field. repeat split; assumption. Qed.

(* offdiag_is_stationary: the value the code stores is a zero of d/dv log L (row sums moving with v,
   as the code moves them), whenever it is positive *)
Lemma offdiag_is_stationary cij cji ci cj xi xj xij xji :
  0 <= cij + cji -> 0 <= xi - xij -> 0 <= xj - xij -> qa cij cji ci cj > 0 ->
  let ri := xi - xij in let rj := xj - xij in
  let v := fst (fst (fst (py_offdiag ROps cij cji ci cj xi xj xij xji))) in
  0 <= v /\
  (0 < v -> derivable_pt_lim (ell_off (cij + cji) ci cj ri rj) v 0) /\
  (0 < cij + cji -> 0 < ri -> 0 < rj -> 0 < v).
Proof.
  intros Hs Hri Hrj Ha ri rj v.
  assert (Hc : qc cij cji xi xj xij <= 0).
  { unfold qc. assert (0 <= (cij + cji) * (xi - xij) * (xj - xij)) by (apply Rmult_le_pos; [apply Rmult_le_pos|]; assumption). lra. }
  assert (Hv : v = root (qa cij cji ci cj) (qb cij cji ci cj xi xj xij) (qc cij cji xi xj xij)).
  { unfold v. rewrite py_offdiag_spec by exact Hc. cbn [fst]. unfold newv.
    destruct (Req_EM_T (qa cij cji ci cj) 0); [lra | reflexivity]. }
  destruct (quad_root _ (qb cij cji ci cj xi xj xij) _ Ha Hc) as [Hq Hv0]. rewrite <- Hv in Hq, Hv0.
  split; [exact Hv0 | split].
  - intros Hvp.
    assert (H1 : 0 < ri + v) by (unfold ri; lra). assert (H2 : 0 < rj + v) by (unfold rj; lra).
    pose proof (ell_off_derivative (cij + cji) ci cj ri rj v Hvp H1 H2) as Hd.
    assert (Hz : dell_off (cij + cji) ci cj ri rj v = 0).
    { pose proof (offdiag_quadratic_is_derivative cij cji ci cj xi xj xij v) as Hid. cbv zeta in Hid.
      fold ri rj in Hid.
      assert (Hid' := Hid (Rgt_not_eq _ _ Hvp) (Rgt_not_eq _ _ H1) (Rgt_not_eq _ _ H2)).
      rewrite Hq in Hid'.
      assert (Hp : 0 < v * (ri + v) * (rj + v)) by (apply Rmult_lt_0_compat; [apply Rmult_lt_0_compat|]; assumption).
      set (P := v * (ri + v) * (rj + v)) in *. set (D := dell_off (cij + cji) ci cj ri rj v) in *.
      assert (HPD : P * D = 0) by (replace (- P * D) with (- (P * D)) in Hid' by ring; lra).
      apply Rmult_integral in HPD. destruct HPD as [HPD | HPD]; [lra | exact HPD]. }
    rewrite Hz in Hd. exact Hd.
  - intros Hsp Hrip Hrjp. rewrite Hv. apply quad_root_pos; [exact Ha |].
    unfold qc. assert (0 < (cij + cji) * (xi - xij) * (xj - xij)) by (apply Rmult_lt_0_compat; [apply Rmult_lt_0_compat|]; assumption). lra.
Qed.

(* ... and it is the only one: any other w > 0 at which the derivative vanishes is the stored value *)
Lemma offdiag_stationary_unique cij cji ci cj xi xj xij xji w :
  0 < cij + cji -> 0 < xi - xij -> 0 < xj - xij -> qa cij cji ci cj > 0 ->
  0 < w -> dell_off (cij + cji) ci cj (xi - xij) (xj - xij) w = 0 ->
  w = fst (fst (fst (py_offdiag ROps cij cji ci cj xi xj xij xji))).
Proof.
  intros Hs Hri Hrj Ha Hw Hd.
  assert (Hc : qc cij cji xi xj xij < 0).
  { unfold qc. assert (0 < (cij + cji) * (xi - xij) * (xj - xij)) by (apply Rmult_lt_0_compat; [apply Rmult_lt_0_compat|]; assumption). lra. }
  rewrite py_offdiag_spec by lra. cbn [fst]. unfold newv.
  destruct (Req_EM_T (qa cij cji ci cj) 0) as [E | _]; [lra |].
  apply quad_root_unique; [exact Ha | exact Hc | lra |].
  pose proof (offdiag_quadratic_is_derivative cij cji ci cj xi xj xij w) as Hid. cbv zeta in Hid.
  rewrite Hid; [rewrite Hd; ring | lra | lra | lra].
Qed.

Definition ell_diag (cii ci r : R) (u : R) : R := cii * ln u - ci * ln (r + u).
Definition dell_diag (cii ci r u : R) : R := cii / u - ci / (r + u).
Lemma ell_diag_derivative cii ci r u : 0 < u -> 0 < r + u ->
  derivable_pt_lim (ell_diag cii ci r) u (dell_diag cii ci r u).
Proof.
  intros Hu Hr. unfold ell_diag, dell_diag.
  apply (derivable_pt_lim_minus (fun u => cii * ln u) (fun u => ci * ln (r + u))).
  - unfold Rdiv. apply (derivable_pt_lim_scal ln cii). apply derivable_pt_lim_ln. exact Hu.
  - unfold Rdiv. apply (derivable_pt_lim_scal (fun u => ln (r + u)) ci). apply dlog_shift. exact Hr.
Qed.

Lemma diag_is_stationary cii ci xi xii :
  0 <= cii -> 0 <= xi - xii -> 0 < ci - cii ->
  let r := xi - xii in
  let u := fst (py_diag ROps cii ci xi xii) in
  0 <= u /\ u * (ci - cii) = cii * r /\
  (0 < u -> derivable_pt_lim (ell_diag cii ci r) u 0).
Proof.
  intros Hc Hr Hd r u.
  assert (Hu : u = cii * (xi - xii) / (ci - cii)).
  { unfold u. rewrite py_diag_spec. cbn [fst]. destruct (Rlt_dec 0 (ci - cii)); [reflexivity | contradiction]. }
  assert (He : u * (ci - cii) = cii * r) by (rewrite Hu; unfold r; field; lra).
  assert (H0 : 0 <= u).
  { rewrite Hu. unfold Rdiv. apply Rmult_le_pos; [apply Rmult_le_pos; assumption |]. left. apply Rinv_0_lt_compat. exact Hd. }
  split; [exact H0 | split; [exact He |]].
  intros Hup. assert (Hru : 0 < r + u) by (unfold r; lra).
  pose proof (ell_diag_derivative cii ci r u Hup Hru) as Hder.
  assert (Hz : dell_diag cii ci r u = 0).
  { unfold dell_diag. assert (cii * (r + u) = ci * u) by lra.
    apply (Rmult_eq_reg_l (u * (r + u))); [| apply Rgt_not_eq; apply Rmult_lt_0_compat; assumption].
    rewrite Rmult_0_r. field_simplify; [| lra]. lra. }
  rewrite Hz in Hder. exact Hder.
Qed.
