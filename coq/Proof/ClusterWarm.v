(* Warm starts: on any consistent state, the per-label centre finder (find_cluster_centers)
   recovers exactly the centre list -- this is how kcenters(init_centers=...) and
   kmedoids(assignments=, distances=) obtain their centre indices. *)
From Coq Require Import List ZArith QArith Bool Arith Lia Lqa.
From EV Require Import Cluster ClusterBase ClusterInv Partition PartitionProofs.
Import ListNotations.
Close Scope Z_scope.

Lemma filter_all {A} (p : A -> bool) l : (forall x, In x l -> p x = true) -> filter p l = l.
Proof.
  induction l as [|x l IH]; intros H; [reflexivity|]. cbn [filter].
  rewrite (H x (or_introl eq_refl)). f_equal. apply IH. intros y Hy. apply H. right. exact Hy.
Qed.

Lemma max_list_spec (l : list nat) :
  (forall x, In x l -> (x <= fold_right Nat.max 0%nat l)%nat) /\
  (l <> [] -> In (fold_right Nat.max 0%nat l) l).
Proof.
  induction l as [|a l [IH1 IH2]]; [split; [intros x []|congruence]|]. cbn [fold_right]. split.
  - intros x [<-|Hx]; [lia|]. specialize (IH1 x Hx). lia.
  - intros _. destruct l as [|b l'].
    + cbn. left. lia.
    + destruct (Nat.max_spec a (fold_right Nat.max 0%nat (b :: l'))) as [[_ E]|[_ E]]; rewrite E.
      * right. apply IH2. discriminate.
      * left. reflexivity.
Qed.

Lemma map_ctr_seq (cs : list nat) : map (ctr cs) (seq 0 (length cs)) = cs.
Proof.
  apply (nth_ext _ _ 0%nat 0%nat).
  - rewrite map_length, seq_length. reflexivity.
  - intros i Hi. rewrite map_length, seq_length in Hi.
    rewrite (nth_indep _ _ (ctr cs 0)) by (rewrite map_length, seq_length; exact Hi).
    rewrite map_nth, seq_nth by exact Hi. reflexivity.
Qed.

Lemma flat_map_singletons {A B} (g : A -> list B) (h : A -> B) l :
  (forall j, In j l -> g j = [h j]) -> flat_map g l = map h l.
Proof.
  induction l as [|a l IH]; intros H; [reflexivity|]. cbn [flat_map map].
  rewrite (H a (or_introl eq_refl)). cbn [app]. f_equal. apply IH. intros j Hj. apply H. right. exact Hj.
Qed.

Section Warm.
  Variable D : nat -> nat -> Q.
  Hypothesis D_self : forall f, D f f == 0.
  Hypothesis D_pos : forall c f, c <> f -> 0 < D c f.

  (* the frame with a given id, in a state whose ids are 0..n-1 *)
  Lemma frame_exists n s f : Inv D n s -> (f < n)%nat -> exists x, In x (snd s) /\ fid x = f.
  Proof.
    intros [_ [_ [_ [Hfid _]]]] Hf.
    assert (Hin : In f (map fid (snd s))) by (rewrite Hfid; apply in_seq; lia).
    apply in_map_iff in Hin. destruct Hin as [x [E Hx]]. exists x. auto.
  Qed.

  Lemma center_frame n s j : Inv D n s -> (j < length (fst s))%nat ->
    exists x, In x (snd s) /\ fid x = ctr (fst s) j /\ lab x = j /\ dist x == 0.
  Proof.
    intros HI Hj. pose proof HI as [_ [Hlt [_ [_ [_ Hce]]]]].
    destruct (frame_exists n s (ctr (fst s) j) HI) as [x [Hx Ef]]; [apply Hlt, ctr_in, Hj|].
    rewrite Forall_forall in Hce. destruct (Hce x Hx j Hj (eq_sym Ef)) as [Hl H0].
    exists x. auto.
  Qed.

  Lemma labels_present_all n s : Inv D n s -> labels_present (snd s) = seq 0 (length (fst s)).
  Proof.
    intros HI. pose proof HI as [_ [_ [Hne [_ [Hfr _]]]]]. rewrite Forall_forall in Hfr.
    set (k := length (fst s)). assert (Hk : (0 < k)%nat) by (unfold k; destruct (fst s); [congruence|cbn; lia]).
    unfold labels_present.
    destruct (max_list_spec (map lab (snd s))) as [M1 M2].
    set (m := fold_right Nat.max 0%nat (map lab (snd s))) in *.
    assert (Hm : S m = k).
    { destruct (center_frame n s (k - 1) HI ltac:(unfold k; lia)) as [x [Hx [_ [Hl _]]]].
      assert (Hge : (k - 1 <= m)%nat) by (apply M1; apply in_map_iff; exists x; auto).
      assert (Hlt : (m < k)%nat).
      { assert (Hnn : map lab (snd s) <> []) by (intros E; assert (In (lab x) (map lab (snd s))) by (apply in_map; exact Hx); rewrite E in H; exact H).
        specialize (M2 Hnn). apply in_map_iff in M2. destruct M2 as [y [Ey Hy]].
        destruct (Hfr y Hy) as [Hly _]. fold m in Ey. unfold k. lia. }
      lia. }
    rewrite Hm. apply filter_all. intros c Hc. apply in_seq in Hc.
    destruct (center_frame n s c HI ltac:(unfold k in *; lia)) as [x [Hx [_ [Hl _]]]].
    apply existsb_exists. exists x. split; [exact Hx|]. apply Nat.eqb_eq. exact Hl.
  Qed.

  Theorem find_centers_of_consistent_state n s : Inv D n s -> find_cluster_centers (snd s) = fst s.
  Proof.
    intros HI. unfold find_cluster_centers. rewrite (labels_present_all n s HI).
    rewrite <- (map_ctr_seq (fst s)) at 2.
    apply flat_map_singletons. intros j Hj. apply in_seq in Hj.
    destruct (center_frame n s j HI ltac:(lia)) as [x [Hx [Ef [Hl H0]]]].
    pose proof (find_centers_min j (snd s)) as F.
    destruct (argmin_label j None (snd s)) as [b|].
    - destruct F as [Hb [Hlb Hmin]]. f_equal.
      pose proof HI as [_ [_ [_ [_ [Hfr _]]]]]. rewrite Forall_forall in Hfr.
      destruct (Hfr b Hb) as [_ [Hd _]]. rewrite Hlb in Hd.
      specialize (Hmin x Hx Hl).
      pose proof (D_nonneg D D_self D_pos (ctr (fst s) j) (fid b)) as Hnn. rewrite <- Hd in Hnn.
      destruct (Nat.eq_dec (ctr (fst s) j) (fid b)) as [Ec|Nc]; [congruence|].
      pose proof (D_pos _ _ Nc) as Hp. rewrite <- Hd in Hp. lra.
    - exfalso. apply (F x Hx). exact Hl.
  Qed.

  (* kcenters(init_centers = frames cs): the centre indices it derives are cs, in order *)
  Corollary warm_start_center_indices n cs :
    cs <> [] -> NoDup cs -> (forall c, In c cs -> (c < n)%nat) ->
    find_cluster_centers (snd (nearest_state D cs n)) = cs.
  Proof.
    intros H1 H2 H3.
    apply (find_centers_of_consistent_state n (nearest_state D cs n)).
    apply nearest_state_inv; assumption.
  Qed.
End Warm.
