(* C16, part 1: the configuration dataflow regenerated from enspara/msm/msm.py and
   enspara/msm/timescales.py (Gen/MsmCfgGen.v) against the function pipeline, and what the
   estimator inherits from the models of C03 / C11 / C04. *)
From Coq Require Import List ZArith QArith Bool Arith Lia.
From EV Require Import MsmBase MsmCfgGen Msm.
From EV Require Counts Trim Builders TrimProofs CountsProofs BuildersProofs.
Import ListNotations.

(* ---- constructor *)
Theorem init_keeps_args : forall lag m trim sl maxn,
  let s := init lag m trim sl maxn in
  a_lag_time s = lag /\ a_method s = resolve_method m /\ a_trim s = trim /\
  a_sliding_window s = sl /\ a_max_n_states s = maxn.
Proof. intros. repeat split; reflexivity. Qed.

Theorem init_defaults :
  init_default_trim = false /\ init_default_sliding_window = true /\ init_default_max_n_states = None.
Proof. repeat split; reflexivity. Qed.

Theorem method_by_name_or_function : forall lag n trim sl maxn,
  init lag (ByName n) trim sl maxn = init lag (ByCallable (builders_getattr n)) trim sl maxn.
Proof. reflexivity. Qed.

(* ---- fit: every attribute reaches the call that consumes it *)
Lemma notrim_is_identity_mapping C : Trim.msm_fit false C coo = Some (identity_mapping C).
Proof. reflexivity. Qed.

Theorem fit_uses_cfg : forall X self a,
  msm_fit X self a =
  pipeline X (a_lag_time self) (a_sliding_window self) (a_max_n_states self) (a_trim self) (a_method self) a.
Proof.
  intros X self a. unfold msm_fit, MsmCfgGen.fit, pipeline.
  destruct (counts_fn a (a_lag_time self) (a_max_n_states self) (a_sliding_window self)) as [C|]; [|reflexivity].
  destruct (a_trim self).
  - rewrite TrimProofs.msm_fit_trim. unfold trim_fn.
    destruct (Trim.trim_disconnected 1 C true coo) as [r|]; reflexivity.
  - rewrite notrim_is_identity_mapping. reflexivity.
Qed.

Theorem fit_eq_pipeline : forall X lag m trim sl maxn a,
  msm_estimator X lag m trim sl maxn a = pipeline X lag sl maxn trim (resolve_method m) a.
Proof. intros. unfold msm_estimator. rewrite fit_uses_cfg. reflexivity. Qed.

(* the configuration that D11 lost: two estimators that differ only in the window flag are
   the two different pipelines *)
Theorem fit_respects_sliding_window : forall X lag m trim maxn a,
  msm_estimator X lag m trim false maxn a = pipeline X lag false maxn trim (resolve_method m) a /\
  msm_estimator X lag m trim true maxn a = pipeline X lag true maxn trim (resolve_method m) a.
Proof. intros. split; apply fit_eq_pipeline. Qed.

(* ---- config / load *)
Theorem config_roundtrip : forall lag m trim sl maxn,
  load_init (config (init lag m trim sl maxn)) = Some (init lag m trim sl maxn).
Proof. reflexivity. Qed.

Theorem loaded_estimator_refits_identically : forall X lag m trim sl maxn a s',
  load_init (config (init lag m trim sl maxn)) = Some s' ->
  msm_fit X s' a = msm_estimator X lag m trim sl maxn a.
Proof. intros X lag m trim sl maxn a s' H. rewrite config_roundtrip in H. injection H as <-. reflexivity. Qed.

(* ---- implied timescales: the matrix handed to the eigen-solver is the pipeline's *)
Theorem imp_uses_pipeline : forall X b a lag ns sl trim,
  imp_tprobs X b a lag ns sl trim =
  option_map (fun r : fit_result => snd (fst (snd r))) (pipeline X lag sl (Some ns) trim b a).
Proof.
  intros. unfold imp_tprobs, MsmCfgGen.imp_pipeline, pipeline.
  destruct (counts_fn a lag (Some ns) sl) as [C|]; [|reflexivity].
  destruct trim.
  - rewrite TrimProofs.msm_fit_trim. unfold trim_fn.
    destruct (Trim.trim_disconnected 1 C true coo) as [r|]; cbn [option_map snd]; [|reflexivity].
    destruct (call_builder X b (Trim.tr_counts r)); reflexivity.
  - rewrite notrim_is_identity_mapping. cbn [identity_mapping Trim.tr_counts].
    destruct (call_builder X b C); reflexivity.
Qed.

Theorem imp_n_eigs_counts_stationary : forall t, imp_n_eigs t = (t + 1)%Z.
Proof. reflexivity. Qed.

(* ---- inherited from C11: the state mapping *)
Theorem mapping_identity_when_untrimmed : forall X lag sl maxn b a r res,
  pipeline X lag sl maxn false b a = Some (r, res) ->
  exists C, counts_fn a lag maxn sl = Some C /\
    Trim.tr_keep r = seq 0 (length C) /\
    Trim.tr_to_original r = combine (seq 0 (length C)) (seq 0 (length C)) /\
    Trim.tr_to_mapped r = combine (seq 0 (length C)) (seq 0 (length C)) /\
    call_builder X b C = Some res.
Proof.
  intros X lag sl maxn b a r res H. unfold pipeline in H.
  destruct (counts_fn a lag maxn sl) as [C|]; [|discriminate]. exists C. split; [reflexivity|].
  destruct (TrimProofs.msm_fit_notrim C coo) as [r0 [E [Ec [Eo Em]]]].
  rewrite E in H. rewrite Ec in H.
  destruct (call_builder X b C) as [res0|] eqn:Hb; [|discriminate].
  injection H as <- <-.
  rewrite notrim_is_identity_mapping in E. injection E as <-.
  repeat split; assumption || reflexivity.
Qed.

Theorem trimmed_fit_is_trim_disconnected : forall X lag sl maxn b a,
  pipeline X lag sl maxn true b a =
  match counts_fn a lag maxn sl with
  | None => None
  | Some C =>
      match Trim.trim_disconnected 1 C true coo with
      | None => None
      | Some r => option_map (fun res => (r, res)) (call_builder X b (Trim.tr_counts r))
      end
  end.
Proof.
  intros. unfold pipeline. destruct (counts_fn a lag maxn sl) as [C|]; [|reflexivity].
  rewrite TrimProofs.msm_fit_trim. destruct (Trim.trim_disconnected 1 C true coo) as [r|]; [|reflexivity].
  destruct (call_builder X b (Trim.tr_counts r)); reflexivity.
Qed.

(* ---- inherited from C03: the counts the builder receives, untrimmed *)
Theorem fit_counts_entry : forall a lag maxn sl C (i j : nat),
  counts_fn a lag maxn sl = Some C ->
  (i < Z.to_nat (Counts.n_states maxn a))%nat -> (j < Z.to_nat (Counts.n_states maxn a))%nat ->
  (1 <= lag)%Z /\
  Trim.entry C i j = Z.of_nat (Counts.count_pair (Counts.all_pairs sl lag a) (Z.of_nat i) (Z.of_nat j)).
Proof.
  intros a lag maxn sl C i j H Hi Hj. unfold counts_fn in H.
  destruct (lag <? 1)%Z eqn:Hl; [discriminate|]. apply Z.ltb_ge in Hl. split; [lia|].
  destruct (Counts.counts_matrix sl lag maxn a) as [M|] eqn:HM; [|discriminate].
  cbn [option_map] in H. injection H as <-.
  pose proof (CountsProofs.counts_entry sl lag maxn a M i j HM Hi Hj) as E.
  pose proof (CountsProofs.counts_shape sl lag maxn a M HM) as [HL HR].
  unfold Trim.entry.
  assert (Hi' : (i < length M)%nat) by lia.
  rewrite (nth_indep _ [] (map Z.of_nat []) ) by (rewrite map_length; exact Hi').
  rewrite map_nth.
  assert (Hj' : (j < length (nth i M []))%nat).
  { rewrite (HR (nth i M [])); [exact Hj|]. apply nth_In. exact Hi'. }
  rewrite (nth_indep _ 0%Z (Z.of_nat 0)) by (rewrite map_length; exact Hj').
  rewrite map_nth. rewrite E. reflexivity.
Qed.

Theorem fit_rejects_bad_lag : forall X lag m trim sl maxn a,
  (lag < 1)%Z -> msm_estimator X lag m trim sl maxn a = None.
Proof.
  intros. rewrite fit_eq_pipeline. unfold pipeline, counts_fn.
  destruct (lag <? 1)%Z eqn:E; [reflexivity|]. apply Z.ltb_ge in E. lia.
Qed.
