(* C05 -- the definitions regenerated from enspara/ra/ra.py (Gen/RaGen.v, skeletons in Base/RaBase.v) equal
   the hand-written ones of Model/Ragged.v, and the read path assembled from them (Model/RaggedGen.v:get_g)
   equals get_c, hence refines list-of-rows reads. *)
From Coq Require Import List ZArith Bool Lia.
From EV Require Import PySlice PySliceLemmas RaBase RaGen Ragged RaggedGen RaggedProofs RaggedWhere.
Import ListNotations.

(* ---------------------------------------------------------------- the translated scalar tests, one by one *)
Lemma gen_hn_row_neg_spec r : gen_hn_row_neg r = (r <? 0)%Z.
Proof. reflexivity. Qed.
Lemma gen_hn_row_wrap_spec r n : gen_hn_row_wrap r n = (r + n)%Z.
Proof. reflexivity. Qed.
Lemma gen_hn_row_bad_spec r : gen_hn_row_bad r = (r <? 0)%Z.
Proof. reflexivity. Qed.
Lemma gen_hn_col_neg_spec c : gen_hn_col_neg c = (c <? 0)%Z.
Proof. reflexivity. Qed.
Lemma gen_hn_col_wrap_spec c l : gen_hn_col_wrap c l = (c + l)%Z.
Proof. reflexivity. Qed.
Lemma gen_hn_col_bad_spec c : gen_hn_col_bad c = (c <? 0)%Z.
Proof. reflexivity. Qed.
Lemma gen_c2_oob_spec l c : gen_c2_oob l c = (l <=? c)%Z.
Proof. reflexivity. Qed.
Lemma gen_c2_flat_spec st c : gen_c2_flat st c = (st + c)%Z.
Proof. reflexivity. Qed.
Lemma gen_c1_test_spec st ii : gen_c1_test st ii = (st <=? ii)%Z.
Proof. reflexivity. Qed.
Lemma gen_c1_col_spec ii st : gen_c1_col ii st = (ii - st)%Z.
Proof. reflexivity. Qed.

Lemma gen_scalar_tests (x y : Z) :
  gen_hn_row_neg x = (x <? 0)%Z /\ gen_hn_row_wrap x y = (x + y)%Z /\ gen_hn_row_bad x = (x <? 0)%Z /\
  gen_hn_col_neg x = (x <? 0)%Z /\ gen_hn_col_wrap x y = (x + y)%Z /\ gen_hn_col_bad x = (x <? 0)%Z /\
  gen_c2_oob x y = (x <=? y)%Z /\ gen_c2_flat x y = (x + y)%Z /\
  gen_c1_test x y = (x <=? y)%Z /\ gen_c1_col x y = (x - y)%Z.
Proof. repeat split. Qed.

(* ---------------------------------------------------------------- NumPy integer indexing *)
Lemma np_index_get_item {A} (l : list A) i : np_index l i = get_item l i.
Proof.
  unfold np_index, get_item, norm_index.
  destruct ((0 <=? i)%Z && (i <? Z.of_nat (length l))%Z); [reflexivity|].
  destruct ((- Z.of_nat (length l) <=? i)%Z && (i <? 0)%Z); reflexivity.
Qed.

Lemma np_index_nat {A} (l : list A) n : np_index l (Z.of_nat n) = nth_error l n.
Proof.
  unfold np_index.
  destruct (Z.leb_spec 0 (Z.of_nat n)) as [_|H]; [|lia].
  destruct (Z.ltb_spec (Z.of_nat n) (Z.of_nat (length l))) as [H|H]; cbn [andb].
  - rewrite Nat2Z.id. reflexivity.
  - destruct (Z.ltb_spec (Z.of_nat n) 0) as [H0|_]; [lia|]. rewrite andb_false_r.
    symmetry. apply nth_error_None. lia.
Qed.

Lemma np_index_nonneg {A} (l : list A) i :
  (0 <= i)%Z -> np_index l i = nth_error l (Z.to_nat i).
Proof. intros H. rewrite <- (Z2Nat.id i) at 1 by exact H. apply np_index_nat. Qed.

Lemma np_index_nil {A} i : np_index (@nil A) i = None.
Proof.
  unfold np_index. cbn [length]. change (Z.of_nat 0) with 0%Z. change (- 0)%Z with 0%Z.
  destruct (Z.leb_spec 0 i) as [H|H], (Z.ltb_spec i 0) as [H'|H']; cbn [andb]; try reflexivity; lia.
Qed.

(* ---------------------------------------------------------------- _slice_to_list *)
(* with a length (the only way the read path calls it): Python's own slice.indices / range *)
Lemma gen_slice_to_list_spec (sl : pslice) (n : nat) :
  gen_slice_to_list sl (py_int (Z.of_nat n)) = if sl_ok sl then PyOk (sl_indices n sl) else PyRaise.
Proof.
  destruct sl as [[s e] k]. unfold gen_slice_to_list, py_int. cbn [is_none negb].
  unfold py_slice_indices. cbn [sl_step sl_start sl_stop fst snd].
  destruct (Z.ltb_spec (Z.of_nat n) 0) as [H|_]; [lia|].
  unfold sl_ok, sl_indices, slice_indices.
  destruct k as [k|]; cbn [step_of].
  - destruct (k =? 0)%Z; cbn [negb py_bind]; [reflexivity|].
    destruct (adjust (Z.of_nat n) s e k) as [a b]. reflexivity.
  - cbn [Z.eqb py_bind]. destruct (adjust (Z.of_nat n) s e 1) as [a b]. reflexivity.
Qed.

(* without a length (legacy branch, not used by the read path): plain range(start or 0, stop, step or 1);
   a negative bound or a missing stop raises *)
Lemma gen_slice_to_list_nolength (s e k : option Z) :
  gen_slice_to_list (s, e, k) py_none =
  match e with
  | None => PyRaise
  | Some e' =>
    if (match s with Some x => x <? 0 | None => false end)%Z then PyRaise
    else if (e' <? 0)%Z then PyRaise
    else if (step_of k =? 0)%Z then PyRaise
    else PyOk (zrange (match s with Some x => x | None => 0%Z end) e' (step_of k))
  end.
Proof.
  unfold gen_slice_to_list, py_none.
  cbn [is_none negb sl_start sl_stop sl_step fst snd].
  destruct s as [s|]; destruct e as [e|]; destruct k as [k|];
    cbn [is_none andb py_bind py_lt py_lift2 py_int py_add step_of];
    repeat match goal with
           | |- context [(?a <? ?b)%Z] => destruct (a <? b)%Z; cbn [is_none andb py_bind py_lt py_lift2 py_int py_add py_range]
           end;
    try reflexivity.
Qed.

(* ---------------------------------------------------------------- starts *)
Lemma cumsum_from_starts (s : nat) (ls : list nat) :
  ls <> [] ->
  Z.of_nat s :: removelast (cumsum_from (Z.of_nat s) (map Z.of_nat ls)) = map Z.of_nat (starts_from s ls).
Proof.
  revert s. induction ls as [|l r IH]; intros s Hne; [congruence|].
  destruct r as [|l' r'].
  - reflexivity.
  - change (map Z.of_nat (starts_from s (l :: l' :: r')))
      with (Z.of_nat s :: map Z.of_nat (starts_from (s + l) (l' :: r'))).
    f_equal. rewrite <- (IH (s + l)%nat) by discriminate.
    cbn [map cumsum_from]. rewrite Nat2Z.inj_add. reflexivity.
Qed.

Lemma gen_starts_spec (ls : list nat) :
  ls <> [] -> gen_starts (map Z.of_nat ls) = map Z.of_nat (starts_of ls).
Proof.
  intros H. unfold gen_starts, np_cumsum, starts_of. cbn [app]. exact (cumsum_from_starts 0 ls H).
Qed.

Lemma gen_starts_length (ls : list nat) : ls <> [] -> length (gen_starts (map Z.of_nat ls)) = length ls.
Proof.
  intros H. rewrite (gen_starts_spec ls H), map_length. unfold starts_of. apply starts_from_length.
Qed.

(* ---------------------------------------------------------------- _handle_negative_indices + _convert_from_2d *)
Lemma gen_conv2d_spec (ls : list nat) (r c : Z) :
  gen_conv2d (map Z.of_nat ls) (gen_starts (map Z.of_nat ls)) r c = option_map Z.of_nat (conv2d ls r c).
Proof.
  unfold gen_conv2d, conv2d_skel, conv2d.
  unfold gen_hn_row_neg, gen_hn_row_wrap, gen_hn_row_bad, gen_hn_col_neg, gen_hn_col_wrap, gen_hn_col_bad,
    gen_c2_oob, gen_c2_flat.
  destruct ls as [|l0 lr] eqn:Els.
  - (* no rows: lengths[..] raises whatever the row *)
    cbn [map]. rewrite !np_index_nil.
    destruct (r <? 0)%Z; cbn [andb length Z.of_nat];
      repeat match goal with |- context [(?a <? ?b)%Z] => destruct (a <? b)%Z end;
      cbn [andb option_map]; try reflexivity;
      destruct (Z.to_nat _); reflexivity.
  - rewrite <- Els. assert (Hne : ls <> []) by (rewrite Els; discriminate).
    rewrite (gen_starts_length ls Hne), (gen_starts_spec ls Hne).
    set (n := Z.of_nat (length ls)).
    set (r1 := if (r <? 0)%Z then (r + n)%Z else r).
    assert (Hbad : ((r <? 0)%Z && (r1 <? 0)%Z) = (r1 <? 0)%Z).
    { subst r1. destruct (Z.ltb_spec r 0) as [H|H]; cbn [andb]; [reflexivity|].
      symmetry. apply Z.ltb_ge. exact H. }
    rewrite Hbad. destruct (Z.ltb_spec r1 0) as [Hr1|Hr1]; [reflexivity|].
    rewrite !(np_index_nonneg _ r1 Hr1), !nth_error_map.
    destruct (nth_error ls (Z.to_nat r1)) as [l|] eqn:En; cbn [option_map].
    + assert (Hlt : (Z.to_nat r1 < length ls)%nat) by (apply nth_error_Some; congruence).
      assert (Est : nth_error (starts_of ls) (Z.to_nat r1) = Some (nth (Z.to_nat r1) (starts_of ls) 0%nat)).
      { apply nth_error_nth'. unfold starts_of. rewrite starts_from_length. exact Hlt. }
      rewrite Est. cbn [option_map].
      destruct (Z.ltb_spec c 0) as [Hc|Hc].
      * destruct (Z.ltb_spec (c + Z.of_nat l) 0) as [Hc1|Hc1]; [reflexivity|].
        destruct (Z.leb_spec (Z.of_nat l) (c + Z.of_nat l)) as [Ho|Ho]; [reflexivity|].
        cbn [option_map]. f_equal. lia.
      * destruct (Z.ltb_spec c 0) as [Hc'|_]; [lia|].
        destruct (Z.leb_spec (Z.of_nat l) c) as [Ho|Ho]; [reflexivity|].
        cbn [option_map]. f_equal. lia.
    + destruct (c <? 0)%Z; reflexivity.
Qed.

(* ---------------------------------------------------------------- map_opt transport *)
Lemma map_opt_b_eq {A B} (f : A -> option B) l : map_opt_b f l = map_opt f l.
Proof. induction l as [|x l IH]; cbn [map_opt_b map_opt]; [reflexivity|]. rewrite IH. reflexivity. Qed.

Lemma map_opt_option_map {A B C} (f : A -> option C) (h : A -> option B) (g : B -> C) l :
  (forall x, f x = option_map g (h x)) -> map_opt f l = option_map (map g) (map_opt h l).
Proof.
  intros H. induction l as [|x l IH]; cbn [map_opt]; [reflexivity|].
  rewrite H, IH. destruct (h x); cbn [option_map]; [|reflexivity].
  destruct (map_opt h l); reflexivity.
Qed.

Lemma gather_g_spec {A} (s : conc A) pairs : gather_g s pairs = gather s pairs.
Proof.
  unfold gather_g, gather, zstarts, zlens.
  rewrite (map_opt_option_map _ (fun p => conv2d (lens s) (fst p) (snd p)) Z.of_nat)
    by (intros p; apply gen_conv2d_spec).
  destruct (map_opt (fun p => conv2d (lens s) (fst p) (snd p)) pairs) as [fl|]; cbn [option_map]; [|reflexivity].
  rewrite map_opt_map. apply map_opt_ext. intros n _. apply np_index_nat.
Qed.

(* ---------------------------------------------------------------- _convert_from_1d / where *)
Lemma last_where_le (ii j : nat) (sts : list nat) (acc : option nat) :
  last_where_from (fun st => (st <=? Z.of_nat ii)%Z) (Z.of_nat j) (map Z.of_nat sts) (option_map Z.of_nat acc)
  = option_map Z.of_nat (last_le_from j sts ii acc).
Proof.
  revert j acc. induction sts as [|x r IH]; intros j acc; cbn [map last_where_from last_le_from]; [reflexivity|].
  replace (Z.of_nat j + 1)%Z with (Z.of_nat (S j)) by lia.
  replace (if (Z.of_nat x <=? Z.of_nat ii)%Z then Some (Z.of_nat j) else option_map Z.of_nat acc)
    with (option_map Z.of_nat (if Nat.leb x ii then Some j else acc)).
  - apply IH.
  - destruct (Nat.leb_spec x ii), (Z.leb_spec (Z.of_nat x) (Z.of_nat ii)); try reflexivity; lia.
Qed.

Lemma last_le_from_inv (ii : nat) sts j acc r :
  last_le_from j sts ii acc = Some r ->
  acc = Some r \/ ((j <= r < j + length sts)%nat /\ (nth (r - j) sts 0 <= ii)%nat).
Proof.
  revert j acc. induction sts as [|x rest IH]; intros j acc H; cbn [last_le_from] in H.
  - left. exact H.
  - apply IH in H. destruct H as [H|[Hr Hn]].
    + destruct (Nat.leb_spec x ii) as [Hx|Hx].
      * right. injection H as <-. cbn [length]. split; [lia|]. rewrite Nat.sub_diag. exact Hx.
      * left. exact H.
    + right. cbn [length]. split; [lia|].
      replace (r - j)%nat with (S (r - S j)) by lia. exact Hn.
Qed.

Lemma gen_conv1d_spec (sts : list nat) (ii : nat) :
  gen_conv1d (map Z.of_nat sts) (Z.of_nat ii) = option_map zpair (conv1d sts ii).
Proof.
  unfold gen_conv1d, conv1d_skel, conv1d, gen_c1_test, gen_c1_col.
  pose proof (last_where_le ii 0 sts None) as H. cbn [option_map Z.of_nat] in H.
  change (fun st : Z => (st <=? Z.of_nat ii)%Z) with (fun st : Z => Z.leb st (Z.of_nat ii)) in H.
  rewrite H. destruct (last_le_from 0 sts ii None) as [r|] eqn:E; cbn [option_map]; [|reflexivity].
  apply last_le_from_inv in E. destruct E as [E|[Hr Hn]]; [discriminate|].
  rewrite Nat.sub_0_r in Hn.
  rewrite np_index_nat, nth_error_map, (nth_error_nth' sts 0%nat) by lia.
  cbn [option_map]. unfold zpair. cbn [fst snd]. f_equal. f_equal. lia.
Qed.

Lemma where_g_spec (m : list (list bool)) : where_g m = option_map (map zpair) (where_c m).
Proof.
  unfold where_g, where_c, zstarts, zlens.
  destruct m as [|row0 m'] eqn:Em.
  - reflexivity.
  - rewrite <- Em.
    assert (Hne : lens (ctor_nested m) <> []) by (rewrite Em; discriminate).
    rewrite (gen_starts_spec _ Hne).
    apply map_opt_option_map. intros ii. apply gen_conv1d_spec.
Qed.

(* ---------------------------------------------------------------- pair generators *)
Lemma gen_iis_from_slices_spec (ls : list nat) (rows : list Z) (sl : pslice) :
  sl_ok sl = true -> gen_iis_from_slices (map Z.of_nat ls) rows sl = iis_from_slices ls rows sl.
Proof.
  intros Hok. unfold gen_iis_from_slices, iis_from_slices_skel, iis_from_slices.
  rewrite map_opt_b_eq.
  rewrite (map_opt_ext _ (fun r => match get_item ls r with
                                   | None => None
                                   | Some l => Some (map (fun c => (r, c)) (sl_indices l sl))
                                   end)); [reflexivity|].
  intros r _. rewrite np_index_get_item. unfold get_item. rewrite map_length.
  destruct (norm_index (length ls) r) as [j|]; [|reflexivity].
  rewrite nth_error_map. destruct (nth_error ls j) as [l|]; cbn [option_map]; [|reflexivity].
  destruct sl as [[s e] k]. unfold py_slice_indices, py_int, sl_indices, slice_indices.
  cbn [sl_step sl_start sl_stop fst snd].
  destruct (Z.ltb_spec (Z.of_nat l) 0) as [H|_]; [lia|].
  unfold sl_ok in Hok.
  assert (Hk : (step_of k =? 0)%Z = false).
  { destruct k as [k|]; cbn [step_of]; [|reflexivity]. apply negb_true_iff. exact Hok. }
  rewrite Hk. destruct (adjust (Z.of_nat l) s e (step_of k)) as [a b]. reflexivity.
Qed.

Lemma gen_iis_from_list_spec rows cs : gen_iis_from_list rows cs = iis_from_list rows cs.
Proof. reflexivity. Qed.

Lemma slice_rows_g_spec n rsl : slice_rows_g n rsl = if sl_ok rsl then Some (sl_indices n rsl) else None.
Proof. unfold slice_rows_g. rewrite gen_slice_to_list_spec. destruct (sl_ok rsl); reflexivity. Qed.

(* ---------------------------------------------------------------- the assembled read *)
(* the pairing of the two index vectors read off _convert_from_2d (np.broadcast_arrays) is the model's *)
Lemma gen_c2_pairs_spec (rs cs : list Z) : gen_c2_pairs rs cs = bpairs rs cs.
Proof. reflexivity. Qed.

Lemma get_g_eq {A} (s : conc A) (i : idx) : col_step_ok i = true -> get_g s i = get_c s i.
Proof.
  intros Hok. destruct i; cbn [get_g get_c col_step_ok] in *; try reflexivity.
  - rewrite gather_g_spec. reflexivity.
  - rewrite gen_c2_pairs_spec. destruct (bpairs rs cs) as [ps|]; [|reflexivity]. rewrite gather_g_spec. reflexivity.
  - rewrite gather_g_spec. reflexivity.
  - rewrite gather_g_spec. reflexivity.
  - rewrite slice_rows_g_spec, Hok, andb_true_r. destruct (sl_ok rsl); [|reflexivity].
    unfold zlens. rewrite (gen_iis_from_slices_spec _ _ _ Hok).
    destruct (iis_from_slices (lens s) (sl_indices (length (lens s)) rsl) csl) as [[iis nl]|]; [|reflexivity].
    rewrite gather_g_spec. reflexivity.
  - rewrite Hok. unfold zlens. rewrite (gen_iis_from_slices_spec _ _ _ Hok).
    destruct (iis_from_slices (lens s) rs csl) as [[iis nl]|]; [|reflexivity].
    rewrite gather_g_spec. reflexivity.
  - rewrite slice_rows_g_spec. destruct (sl_ok rsl); [|reflexivity].
    rewrite gen_iis_from_list_spec.
    destruct (iis_from_list (sl_indices (length (lens s)) rsl) [c]) as [iis nl].
    rewrite gather_g_spec. reflexivity.
  - rewrite slice_rows_g_spec. destruct (sl_ok rsl); [|reflexivity].
    rewrite gen_iis_from_list_spec.
    destruct (iis_from_list (sl_indices (length (lens s)) rsl) cs) as [iis nl].
    rewrite gather_g_spec. reflexivity.
  - rewrite where_g_spec. destruct (where_c m) as [ps|]; cbn [option_map]; [|reflexivity].
    rewrite gather_g_spec. reflexivity.
Qed.

(* a zero column step with at least one selected row raises on the generated side too *)
Lemma gen_iis_from_slices_zero_step (ls : list nat) r rows s e :
  gen_iis_from_slices (map Z.of_nat ls) (r :: rows) (s, e, Some 0%Z) = None.
Proof.
  unfold gen_iis_from_slices, iis_from_slices_skel. cbn [map_opt_b].
  destruct (np_index (map Z.of_nat ls) r) as [l|]; [|reflexivity].
  unfold py_slice_indices, py_int. cbn [sl_step snd step_of Z.eqb].
  destruct (l <? 0)%Z; reflexivity.
Qed.

(* every read form, assembled from the regenerated definitions, refines the list-of-rows read *)
Lemma get_g_refines {A} (s : conc A) (i : idx) :
  wf s -> col_step_ok i = true -> (forall m, i = Mask m -> forall row, In row m -> row <> []) ->
  get_g s i = get_s (abs s) i.
Proof.
  intros Hwf Hok Hm. rewrite (get_g_eq s i Hok). apply get_refines; [exact Hwf|].
  intros m E. apply where_c_spec. exact (Hm m E).
Qed.

(* the error clause on the generated side: a column outside the row raises, never a neighbour's datum *)
Lemma gen_elem_oob_is_error {A} (s : conc A) r c :
  (forall l, get_item (lens s) r = Some l -> (Z.of_nat l <= c \/ c < - Z.of_nat l)%Z) ->
  get_g s (Elem r c) = Err.
Proof.
  intros H. rewrite (get_g_eq s (Elem r c) eq_refl). apply elem_oob_is_error. exact H.
Qed.
