(* C18: kl_divergence on 2-D arguments as regenerated from entropy.py (Gen/EntropyGen.v: axis_sum = 1)
   computes, row by row, exactly what the 1-D text computes. *)
From Coq Require Import List ZArith QArith Qreals Bool Arith Reals Lia Lra.
From EV Require Import JointCounts Info InfoPyBase EntropyGen InfoProofs EntropyGenProofs.
Import ListNotations.
Local Open Scope nat_scope.

Definition regularR (P : list (list R)) : Prop := forall r, In r P -> length r = dim1 P.

Definition kl_row (base : R) (p q : list R) : xr :=
  x_div (x_sum (map (fun a_ => if x_isnan a_ then XFin 0 else a_)
                    (zip2 x_mul (map XFin p) (map x_log (zip2 x_div (map XFin p) (map XFin q))))))
        (x_log (XFin base)).

Lemma gen_kl_row p q base :
  length p = length q -> existsb (fun a_ => Rlt_b a_ 0) p = false -> existsb (fun a_ => Rlt_b a_ 0) q = false ->
  gen_kl_divergence p q base = Some (kl_row base p q).
Proof.
  intros Hl Hp Hq. unfold gen_kl_divergence, kl_row. rewrite Hl, Nat.eqb_refl, Hp, Hq. reflexivity.
Qed.

Lemma kl_2d_rows base : forall P Qd,
  map (fun a_ => x_div a_ (x_log (XFin base)))
    (map x_sum (map (map (fun a_ => if x_isnan a_ then XFin 0 else a_))
       (zip2 (zip2 x_mul) (map (map XFin) P)
             (map (map x_log) (zip2 (zip2 x_div) (map (map XFin) P) (map (map XFin) Qd))))))
  = zip2 (kl_row base) P Qd.
Proof.
  induction P as [|p P IH]; intros [|q Qd]; simpl; try reflexivity.
  f_equal. apply IH.
Qed.

Lemma existsb_concat_false {A} (f : A -> bool) (L : list (list A)) r :
  existsb f (concat L) = false -> In r L -> existsb f r = false.
Proof.
  intros H Hr. destruct (existsb f r) eqn:E; [|reflexivity].
  apply existsb_exists in E. destruct E as (x & Hx & Hfx).
  assert (Ht : existsb f (concat L) = true).
  { apply existsb_exists. exists x. split; [|exact Hfx]. apply in_concat. exists r. split; assumption. }
  congruence.
Qed.

Theorem gen_kl_divergence_2d_rows : forall P Qd base ds,
  regularR P -> regularR Qd -> gen_kl_divergence_2d P Qd base = Some ds ->
  length P = length Qd /\ length ds = length P /\
  Forall2 (fun d pq => gen_kl_divergence (fst pq) (snd pq) base = Some d) ds (combine P Qd).
Proof.
  intros P Qd base ds HP HQ E. unfold gen_kl_divergence_2d in E.
  destruct ((length P =? length Qd) && (dim1 P =? dim1 Qd)) eqn:Es; cbn [negb] in E; [|discriminate].
  apply andb_true_iff in Es. destruct Es as (El & Ed). apply Nat.eqb_eq in El. apply Nat.eqb_eq in Ed.
  destruct (existsb (fun a_ => Rlt_b a_ 0) (concat P)) eqn:Ep; [discriminate|].
  destruct (existsb (fun a_ => Rlt_b a_ 0) (concat Qd)) eqn:Eq; [discriminate|].
  cbv zeta in E. rewrite kl_2d_rows in E. inversion E as [E']. clear E E'.
  split; [exact El|].
  assert (Hrows : forall p q, In (p, q) (combine P Qd) ->
            gen_kl_divergence p q base = Some (kl_row base p q)).
  { intros p q Hin. pose proof (in_combine_l _ _ _ _ Hin) as Hp. pose proof (in_combine_r _ _ _ _ Hin) as Hq.
    apply gen_kl_row.
    - rewrite (HP p Hp), (HQ q Hq). exact Ed.
    - exact (existsb_concat_false _ _ _ Ep Hp).
    - exact (existsb_concat_false _ _ _ Eq Hq). }
  clear HP HQ Ep Eq Ed. revert Qd El Hrows.
  induction P as [|p P IH]; intros [|q Qd] El Hrows; simpl in *; try discriminate.
  - split; [reflexivity|constructor].
  - destruct (IH Qd) as (Hlen & Hall).
    + lia.
    + intros p' q' Hin. apply Hrows. right. exact Hin.
    + split; [simpl; f_equal; exact Hlen|]. constructor; [|exact Hall].
      simpl. apply Hrows. left. reflexivity.
Qed.

Theorem gen_kl_divergence_2d_rejects : forall P Qd base,
  gen_kl_divergence_2d P Qd base = None <->
  (length P <> length Qd \/ dim1 P <> dim1 Qd \/
   exists x, In x (concat P ++ concat Qd) /\ (x < 0)%R).
Proof.
  intros P Qd base. unfold gen_kl_divergence_2d.
  destruct (Nat.eqb_spec (length P) (length Qd)) as [El|El]; simpl.
  2:{ split; [intros _; left; exact El|reflexivity]. }
  destruct (Nat.eqb_spec (dim1 P) (dim1 Qd)) as [Ed|Ed]; simpl.
  2:{ split; [intros _; right; left; exact Ed|reflexivity]. }
  destruct (existsb (fun a_ => Rlt_b a_ 0) (concat P)) eqn:Ep.
  { split; [|reflexivity]. intros _. right. right. apply existsb_exists in Ep. destruct Ep as (x & Hx & Hn).
    exists x. split; [apply in_or_app; left; exact Hx|]. unfold Rlt_b in Hn. destruct (Rlt_dec x 0); [assumption|discriminate]. }
  destruct (existsb (fun a_ => Rlt_b a_ 0) (concat Qd)) eqn:Eq.
  { split; [|reflexivity]. intros _. right. right. apply existsb_exists in Eq. destruct Eq as (x & Hx & Hn).
    exists x. split; [apply in_or_app; right; exact Hx|]. unfold Rlt_b in Hn. destruct (Rlt_dec x 0); [assumption|discriminate]. }
  split; [discriminate|]. intros [H|[H|(x & Hx & Hn)]]; [contradiction|contradiction|].
  exfalso. apply in_app_or in Hx. destruct Hx as [Hx|Hx].
  - assert (Ht : existsb (fun a_ => Rlt_b a_ 0) (concat P) = true).
    { apply existsb_exists. exists x. split; [exact Hx|]. unfold Rlt_b. destruct (Rlt_dec x 0); [reflexivity|contradiction]. }
    congruence.
  - assert (Ht : existsb (fun a_ => Rlt_b a_ 0) (concat Qd) = true).
    { apply existsb_exists. exists x. split; [exact Hx|]. unfold Rlt_b. destruct (Rlt_dec x 0); [reflexivity|contradiction]. }
    congruence.
Qed.

Print Assumptions gen_kl_divergence_2d_rows.
Print Assumptions gen_kl_divergence_2d_rejects.
