(* The comparison tests regenerated from kcenters.py / util.py / kmedoids.py, plugged into the
   code-shaped skeletons, give exactly the model of Model/Cluster.v. *)
From Coq Require Import List ZArith QArith Bool Arith Lia Lqa.
From EV Require Import KcGuardBase ClusterGen Cluster ClusterSkel ClusterBase.
Import ListNotations.

Lemma cmp_q_lt_is a b : cmp_q_lt a b = Qlt_b a b.
Proof. reflexivity. Qed.
Lemma cmp_q_gt_is a b : cmp_q_gt a b = Qlt_b b a.
Proof. reflexivity. Qed.
Lemma cmp_q_le_is a b : cmp_q_le a b = negb (Qlt_b b a).
Proof. unfold cmp_q_le, Qlt_b. rewrite negb_involutive. reflexivity. Qed.

Theorem gen_kc_update_is_model D c k x :
  kc_update_skel D gen_kc_improves c k x = kc_update D c k x.
Proof. reflexivity. Qed.

Theorem gen_kc_update_ti_is_model D ctrs c k x :
  kc_update_ti_skel D gen_ti_recompute gen_kc_improves ctrs c k x = kc_update_ti D ctrs c k x.
Proof. reflexivity. Qed.

Theorem gen_nearest_is_model D f cs : forall i bi bd,
  nearest_from_skel D gen_nearest_improves f i bi bd cs = nearest_from D f i bi bd cs.
Proof. induction cs as [|c r IH]; intros i bi bd; cbn; [reflexivity|]. rewrite !IH. reflexivity. Qed.

(* the three masks are exhaustive and the order of the writes does not matter for them *)
Theorem gen_pam_frame_is_model D cid p cs' x :
  pam_frame_skel D gen_dst_dn gen_up_other gen_up_this cid p cs' x = Some (pam_frame D cid p cs' x).
Proof.
  unfold pam_frame_skel, pam_frame, gen_dst_dn, gen_up_other, gen_up_this.
  rewrite cmp_q_gt_is, cmp_q_le_is.
  destruct (Qlt_b (D p (fid x)) (dist x)) eqn:E; cbn [negb andb].
  - reflexivity.
  - destruct (Nat.eqb (lab x) cid); reflexivity.
Qed.

Theorem gen_accept_is_model a b : gen_accept a b = Qlt_b a b.
Proof. reflexivity. Qed.
