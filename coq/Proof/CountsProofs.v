(* C03 proofs: the generated slices of _transitions_helper yield exactly the lagged pairs. *)
From Coq Require Import List ZArith Lia Bool Permutation Arith.
From EV Require Import PySlice PySliceLemmas CountsGen Counts.
Import ListNotations.
Open Scope Z_scope.

(* step used by the code: 1 under the sliding window, lag otherwise *)
Definition wstep (sliding : bool) (lag : Z) : Z := if sliding then 1 else lag.

(* number of pairs taken from a trajectory of n assigned frames *)
Definition npairs (sliding : bool) (lag : Z) (n : nat) : nat :=
  range_len 0 (Z.max (Z.of_nat n - lag) 0) (wstep sliding lag).

(* SPEC: pair number k starts at frame k*step and ends lag frames later *)
Definition spec_pairs (sliding : bool) (lag : Z) (a : list Z) : list (Z * Z) :=
  map (fun k => (nth (Z.to_nat (Z.of_nat k * wstep sliding lag)) a 0,
                 nth (Z.to_nat (Z.of_nat k * wstep sliding lag + lag)) a 0))
      (seq 0 (npairs sliding lag (length a))).

Lemma range_len_shift n lag st :
  1 <= lag -> 0 < st ->
  range_len (Z.min lag n) n st = range_len 0 (Z.max (n - lag) 0) st.
Proof.
  intros Hl Hs. unfold range_len. destruct (0 <? st) eqn:E; [|lia].
  f_equal. f_equal. lia.
Qed.

Lemma gen_pairs_spec_stripped sliding lag (a : list Z) :
  1 <= lag ->
  combine (gen_start_states a lag sliding) (gen_end_states a lag sliding) = spec_pairs sliding lag a.
Proof.
  intros Hl. unfold gen_start_states, gen_end_states, spec_pairs, npairs.
  set (n := Z.of_nat (length a)).
  assert (Hst : 0 < wstep sliding lag) by (unfold wstep; destruct sliding; lia).
  assert (HS : (if sliding then slice_list a None (Some (- lag)) (Some 1)
                else slice_list a None (Some (- lag)) (Some lag)) =
               slice_list a None (Some (- lag)) (Some (wstep sliding lag)))
    by (destruct sliding; reflexivity).
  assert (HE : (if sliding then slice_list a (Some lag) None (Some 1)
                else slice_list a (Some lag) None (Some lag)) =
               slice_list a (Some lag) None (Some (wstep sliding lag)))
    by (destruct sliding; reflexivity).
  rewrite HS, HE. clear HS HE.
  rewrite (slice_list_pos a 0 None (Some (- lag)) (Some (wstep sliding lag)) 0 (Z.max (n - lag) 0)).
  2: exact Hst.
  2: { unfold adjust, step_of. fold n.
       destruct (wstep sliding lag <? 0) eqn:E; [lia|].
       destruct (- lag <? 0) eqn:E2; [|lia]. f_equal. lia. }
  2: lia.
  2: fold n; lia.
  rewrite (slice_list_pos a 0 (Some lag) None (Some (wstep sliding lag)) (Z.min lag n) n).
  2: exact Hst.
  2: { unfold adjust, step_of. fold n.
       destruct (wstep sliding lag <? 0) eqn:E; [lia|].
       destruct (lag <? 0) eqn:E2; [lia|]. reflexivity. }
  2: lia.
  2: fold n; lia.
  cbn [step_of]. rewrite (range_len_shift n lag (wstep sliding lag)) by lia.
  rewrite combine_map. apply map_ext_in. intros k Hk. apply in_seq in Hk.
  f_equal.
  destruct (Z.le_gt_cases lag n) as [Hle|Hgt].
  - rewrite Z.min_l by lia. f_equal. lia.
  - (* lag > n: no pairs *) exfalso.
    unfold range_len in Hk. destruct (0 <? wstep sliding lag) eqn:E; [|lia].
    rewrite Z.max_r in Hk by lia.
    replace ((0 - 0 + wstep sliding lag - 1) / wstep sliding lag) with 0 in Hk
      by (symmetry; apply Z.div_small; lia).
    cbn in Hk. lia.
Qed.

(* every pair index is a legal position: its end frame exists *)
Lemma npairs_in_range sliding lag n k :
  1 <= lag -> (k < npairs sliding lag n)%nat ->
  0 <= Z.of_nat k * wstep sliding lag /\ Z.of_nat k * wstep sliding lag + lag < Z.of_nat n.
Proof.
  intros Hl Hk. unfold npairs, range_len in Hk.
  assert (Hst : 0 < wstep sliding lag) by (unfold wstep; destruct sliding; lia).
  destruct (0 <? wstep sliding lag) eqn:E; [|lia].
  set (st := wstep sliding lag) in *. set (m := Z.max (Z.of_nat n - lag) 0) in *.
  assert (Hq : Z.of_nat k <= (m - 0 + st - 1) / st - 1) by lia.
  assert (Hm : st * ((m - 0 + st - 1) / st) <= m - 0 + st - 1) by (apply Z.mul_div_le; lia).
  assert (Hm0 : 0 < m) by (destruct (Z.eq_dec m 0) as [->|]; [|lia];
    replace ((0 - 0 + st - 1) / st) with 0 in Hq by (symmetry; apply Z.div_small; lia); lia).
  split; nia.
Qed.

(* sliding window: exactly max(0, n - lag) pairs, one per frame position *)
Lemma npairs_sliding lag n : 1 <= lag -> npairs true lag n = Z.to_nat (Z.of_nat n - lag).
Proof.
  intros Hl. unfold npairs, range_len, wstep. cbn [Z.ltb Z.compare].
  rewrite Z.div_1_r. lia.
Qed.

(* strided window: positions are exactly the multiples of lag whose end frame exists *)
Lemma npairs_strided_iff lag n k :
  1 <= lag -> ((k < npairs false lag n)%nat <-> Z.of_nat k * lag + lag < Z.of_nat n).
Proof.
  intros Hl. split.
  - intros H. apply (npairs_in_range false lag n k Hl H).
  - intros H. unfold npairs, range_len, wstep.
    destruct (0 <? lag) eqn:E; [|lia].
    rewrite Z.max_l by nia.
    assert (Hd : Z.of_nat k + 1 <= (Z.of_nat n - lag - 0 + lag - 1) / lag)
      by (apply Z.div_le_lower_bound; lia).
    lia.
Qed.

(* ------------------------------------------------------------------ whole-model lemmas *)
Lemma traj_pairs_spec sliding lag t :
  1 <= lag -> traj_pairs sliding lag t = spec_pairs sliding lag (strip t).
Proof. intros H. unfold traj_pairs. apply gen_pairs_spec_stripped. exact H. Qed.

Lemma all_pairs_spec sliding lag trjs :
  1 <= lag -> all_pairs sliding lag trjs = flat_map (fun t => spec_pairs sliding lag (strip t)) trjs.
Proof.
  intros H. unfold all_pairs. apply flat_map_ext. intros t. apply traj_pairs_spec. exact H.
Qed.

Lemma count_pair_app ps qs i j :
  count_pair (ps ++ qs) i j = (count_pair ps i j + count_pair qs i j)%nat.
Proof. unfold count_pair. rewrite filter_app, app_length. reflexivity. Qed.

Lemma all_pairs_app sliding lag A B :
  all_pairs sliding lag (A ++ B) = all_pairs sliding lag A ++ all_pairs sliding lag B.
Proof. unfold all_pairs. apply flat_map_app. Qed.

Lemma counts_additive sliding lag A B i j :
  count_pair (all_pairs sliding lag (A ++ B)) i j =
  (count_pair (all_pairs sliding lag A) i j + count_pair (all_pairs sliding lag B) i j)%nat.
Proof. rewrite all_pairs_app. apply count_pair_app. Qed.

Lemma count_pair_perm ps qs i j : Permutation ps qs -> count_pair ps i j = count_pair qs i j.
Proof.
  intros H. unfold count_pair. induction H as [|x l l' H IH|x y l|l l' l'' H1 IH1 H2 IH2].
  - reflexivity.
  - cbn [filter]. destruct ((fst x =? i) && (snd x =? j)); cbn [length]; lia.
  - cbn [filter]. destruct ((fst x =? i) && (snd x =? j)); destruct ((fst y =? i) && (snd y =? j));
      cbn [length]; lia.
  - lia.
Qed.

Lemma counts_perm sliding lag A B i j :
  Permutation A B -> count_pair (all_pairs sliding lag A) i j = count_pair (all_pairs sliding lag B) i j.
Proof.
  intros H. apply count_pair_perm. unfold all_pairs. apply Permutation_flat_map. exact H.
Qed.

Lemma strip_padding t k : strip (t ++ repeat (-1) k) = strip t.
Proof.
  unfold strip. rewrite filter_app.
  assert (E : filter gen_keep (repeat (-1) k) = []).
  { induction k as [|k IH]; cbn; [reflexivity|exact IH]. }
  rewrite E. apply app_nil_r.
Qed.

Lemma traj_pairs_padded sliding lag t k :
  traj_pairs sliding lag (t ++ repeat (-1) k) = traj_pairs sliding lag t.
Proof. unfold traj_pairs. rewrite strip_padding. reflexivity. Qed.

Lemma all_pairs_padded sliding lag trjs (pad : list Z -> nat) :
  all_pairs sliding lag (map (fun t => t ++ repeat (-1) (pad t)) trjs) = all_pairs sliding lag trjs.
Proof.
  unfold all_pairs. induction trjs as [|t r IH]; [reflexivity|].
  cbn [map flat_map]. rewrite traj_pairs_padded, IH. reflexivity.
Qed.

Lemma spec_pairs_length sliding lag a : length (spec_pairs sliding lag a) = npairs sliding lag (length a).
Proof. unfold spec_pairs. rewrite map_length, seq_length. reflexivity. Qed.

Lemma flat_map_length {A B} (f : A -> list B) l :
  length (flat_map f l) = fold_right (fun x acc => (length (f x) + acc)%nat) 0%nat l.
Proof. induction l as [|x l IH]; cbn; [reflexivity|]. rewrite app_length, IH. reflexivity. Qed.

(* total number of pairs under the sliding window = sum over trajectories of max(0, len - lag) *)
Lemma total_pairs_sliding lag trjs :
  1 <= lag ->
  length (all_pairs true lag trjs) =
  fold_right (fun t acc => (Z.to_nat (Z.of_nat (length (strip t)) - lag) + acc)%nat) 0%nat trjs.
Proof.
  intros H. rewrite all_pairs_spec by exact H. rewrite flat_map_length.
  induction trjs as [|t r IH]; cbn [fold_right]; [reflexivity|].
  rewrite spec_pairs_length, npairs_sliding, IH by exact H. reflexivity.
Qed.

(* ------------------------------------------------------------------ matrix shape, entries, total *)
Lemma zseq_length n : length (zseq n) = Z.to_nat n.
Proof. unfold zseq. rewrite map_length, seq_length. reflexivity. Qed.

Lemma nth_zseq n k : (k < Z.to_nat n)%nat -> nth k (zseq n) 0 = Z.of_nat k.
Proof.
  intros H. unfold zseq.
  rewrite (nth_indep _ 0 (Z.of_nat 0%nat)) by (rewrite map_length, seq_length; exact H).
  rewrite map_nth, seq_nth by exact H. reflexivity.
Qed.

Lemma counts_shape sliding lag maxn trjs M :
  counts_matrix sliding lag maxn trjs = Some M ->
  length M = Z.to_nat (n_states maxn trjs) /\
  forall row, In row M -> length row = Z.to_nat (n_states maxn trjs).
Proof.
  unfold counts_matrix. destruct (forallb _ _); [|discriminate]. intros E. injection E as <-.
  split.
  - rewrite map_length. apply zseq_length.
  - intros row Hin. apply in_map_iff in Hin. destruct Hin as [i [<- _]].
    rewrite map_length. apply zseq_length.
Qed.

Lemma nth_map_lt {A B} (f : A -> B) (l : list A) (k : nat) (d : B) (d' : A) :
  (k < length l)%nat -> nth k (map f l) d = f (nth k l d').
Proof.
  revert k. induction l as [|x l IH]; intros k H; cbn in *; [lia|].
  destruct k; [reflexivity|]. apply IH. lia.
Qed.

Lemma counts_entry sliding lag maxn trjs M (i j : nat) :
  counts_matrix sliding lag maxn trjs = Some M ->
  (i < Z.to_nat (n_states maxn trjs))%nat -> (j < Z.to_nat (n_states maxn trjs))%nat ->
  nth j (nth i M []) 0%nat = count_pair (all_pairs sliding lag trjs) (Z.of_nat i) (Z.of_nat j).
Proof.
  unfold counts_matrix. destruct (forallb _ _); [|discriminate]. intros E Hi Hj. injection E as <-.
  set (n := n_states maxn trjs) in *. set (ps := all_pairs sliding lag trjs).
  rewrite (nth_map_lt _ _ i [] 0) by (rewrite zseq_length; exact Hi).
  rewrite (nth_map_lt _ _ j 0%nat 0) by (rewrite zseq_length; exact Hj).
  rewrite !nth_zseq by assumption. reflexivity.
Qed.

(* a pair counted in a cell is a pair of the spec, and the cell is the pair's states *)
Lemma count_pair_spec_positions sliding lag a i j :
  count_pair (spec_pairs sliding lag a) i j =
  length (filter (fun k => (nth (Z.to_nat (Z.of_nat k * wstep sliding lag)) a 0 =? i) &&
                           (nth (Z.to_nat (Z.of_nat k * wstep sliding lag + lag)) a 0 =? j))
                 (seq 0 (npairs sliding lag (length a)))).
Proof.
  unfold count_pair, spec_pairs.
  induction (seq 0 (npairs sliding lag (length a))) as [|k l IH]; [reflexivity|].
  cbn [map filter fst snd].
  destruct ((nth (Z.to_nat (Z.of_nat k * wstep sliding lag)) a 0 =? i) &&
            (nth (Z.to_nat (Z.of_nat k * wstep sliding lag + lag)) a 0 =? j));
    cbn [length]; rewrite IH; reflexivity.
Qed.

Definition nsum (l : list nat) : nat := fold_right Nat.add 0%nat l.

Lemma nsum_indicator (x : Z) (l : list Z) :
  NoDup l -> nsum (map (fun i => if x =? i then 1%nat else 0%nat) l) = if in_dec Z.eq_dec x l then 1%nat else 0%nat.
Proof.
  induction l as [|y l IH]; intros ND; [reflexivity|].
  inversion ND as [|? ? Hnot ND']; subst. cbn [map nsum fold_right]. fold (nsum (map (fun i => if x =? i then 1%nat else 0%nat) l)).
  rewrite IH by exact ND'.
  destruct (in_dec Z.eq_dec x (y :: l)) as [Hin|Hnin]; destruct (in_dec Z.eq_dec x l) as [Hin'|Hnin'];
    destruct (Z.eqb_spec x y) as [->|Hne]; cbn in *; try lia; try tauto.
  - destruct Hin as [H|H]; [congruence|tauto].
Qed.

Lemma zseq_NoDup n : NoDup (zseq n).
Proof.
  unfold zseq. apply FinFun.Injective_map_NoDup; [|apply seq_NoDup].
  intros a b H. lia.
Qed.

Lemma in_zseq n x : In x (zseq n) <-> 0 <= x < n.
Proof.
  unfold zseq. rewrite in_map_iff. split.
  - intros [k [<- Hk]]. apply in_seq in Hk. lia.
  - intros H. exists (Z.to_nat x). split; [lia|]. apply in_seq. lia.
Qed.

Definition matrix_total (M : list (list nat)) : nat := nsum (map nsum M).

Lemma count_pair_cons p ps i j :
  count_pair (p :: ps) i j = Nat.add (if fst p =? i then if snd p =? j then 1%nat else 0%nat else 0%nat) (count_pair ps i j).
Proof.
  unfold count_pair. cbn [filter]. destruct (fst p =? i); destruct (snd p =? j); reflexivity.
Qed.

Lemma nsum_map_add {A} (f g : A -> nat) l :
  nsum (map (fun x => (f x + g x)%nat) l) = (nsum (map f l) + nsum (map g l))%nat.
Proof. induction l as [|x l IH]; cbn; [reflexivity|]. unfold nsum in *. cbn. lia. Qed.

Lemma nsum_map_ext {A} (f g : A -> nat) l : (forall x, In x l -> f x = g x) -> nsum (map f l) = nsum (map g l).
Proof. intros H. f_equal. apply map_ext_in. exact H. Qed.

Lemma nsum_zero {A} (l : list A) : nsum (map (fun _ => 0%nat) l) = 0%nat.
Proof. induction l; cbn; [reflexivity|assumption]. Qed.

Lemma total_cells n ps :
  (forall p, In p ps -> 0 <= fst p < n /\ 0 <= snd p < n) ->
  nsum (map (fun i => nsum (map (fun j => count_pair ps i j) (zseq n))) (zseq n)) = length ps.
Proof.
  induction ps as [|p ps IH]; intros H.
  - unfold count_pair. cbn [filter length].
    rewrite (nsum_map_ext _ (fun _ => 0%nat)); [apply nsum_zero|].
    intros i _. apply nsum_zero.
  - rewrite (nsum_map_ext _ (fun i => Nat.add (nsum (map (fun j => if fst p =? i then if snd p =? j then 1%nat else 0%nat else 0%nat) (zseq n)))
                                       (nsum (map (fun j => count_pair ps i j) (zseq n))))).
    2: { intros i _. rewrite <- nsum_map_add. apply nsum_map_ext. intros j _. apply count_pair_cons. }
    rewrite nsum_map_add, IH by (intros q Hq; apply H; right; exact Hq).
    cbn [length].
    destruct (H p (or_introl eq_refl)) as [Hf Hs].
    rewrite (nsum_map_ext _ (fun i => if fst p =? i then 1%nat else 0%nat)).
    2: { intros i _. destruct (fst p =? i); [|apply nsum_zero].
         rewrite nsum_indicator by apply zseq_NoDup.
         destruct (in_dec Z.eq_dec (snd p) (zseq n)) as [|Hn]; [reflexivity|].
         exfalso. apply Hn. apply in_zseq. exact Hs. }
    rewrite nsum_indicator by apply zseq_NoDup.
    destruct (in_dec Z.eq_dec (fst p) (zseq n)) as [|Hn]; [reflexivity|].
    exfalso. apply Hn. apply in_zseq. exact Hf.
Qed.

Lemma counts_total sliding lag maxn trjs M :
  counts_matrix sliding lag maxn trjs = Some M ->
  matrix_total M = length (all_pairs sliding lag trjs).
Proof.
  unfold counts_matrix. destruct (forallb _ _) eqn:F; [|discriminate]. intros E. injection E as <-.
  unfold matrix_total. rewrite map_map. apply total_cells.
  intros p Hp. rewrite forallb_forall in F. specialize (F p Hp).
  repeat (apply andb_prop in F; destruct F as [F ?]). lia.
Qed.

(* the two stacked rows always have the same length (np.row_stack cannot fail) *)
Lemma gen_lengths_equal sliding lag (a : list Z) :
  1 <= lag -> length (gen_start_states a lag sliding) = length (gen_end_states a lag sliding).
Proof.
  intros Hl. unfold gen_start_states, gen_end_states.
  set (n := Z.of_nat (length a)).
  assert (Hst : 0 < wstep sliding lag) by (unfold wstep; destruct sliding; lia).
  assert (HS : (if sliding then slice_list a None (Some (- lag)) (Some 1)
                else slice_list a None (Some (- lag)) (Some lag)) =
               slice_list a None (Some (- lag)) (Some (wstep sliding lag)))
    by (destruct sliding; reflexivity).
  assert (HE : (if sliding then slice_list a (Some lag) None (Some 1)
                else slice_list a (Some lag) None (Some lag)) =
               slice_list a (Some lag) None (Some (wstep sliding lag)))
    by (destruct sliding; reflexivity).
  rewrite HS, HE. clear HS HE.
  rewrite (slice_list_pos a 0 None (Some (- lag)) (Some (wstep sliding lag)) 0 (Z.max (n - lag) 0)).
  2: exact Hst.
  2: { unfold adjust, step_of. fold n.
       destruct (wstep sliding lag <? 0) eqn:E; [lia|].
       destruct (- lag <? 0) eqn:E2; [|lia]. f_equal. lia. }
  2: lia.
  2: fold n; lia.
  rewrite (slice_list_pos a 0 (Some lag) None (Some (wstep sliding lag)) (Z.min lag n) n).
  2: exact Hst.
  2: { unfold adjust, step_of. fold n.
       destruct (wstep sliding lag <? 0) eqn:E; [lia|].
       destruct (lag <? 0) eqn:E2; [lia|]. reflexivity. }
  2: lia.
  2: fold n; lia.
  rewrite !map_length, !seq_length. cbn [step_of]. symmetry. apply range_len_shift; lia.
Qed.


(* ---- the pieces regenerated from assigns_to_counts are what the property says *)
Lemma gen_keep_spec x : gen_keep x = negb (x =? -1).
Proof. reflexivity. Qed.
Lemma gen_infer_spec m : gen_infer_n_states m = m + 1.
Proof. reflexivity. Qed.
Lemma gen_lag_invalid_spec lag : gen_lag_invalid lag = true <-> lag < 1.
Proof. unfold gen_lag_invalid. apply Z.ltb_lt. Qed.

Lemma strip_spec t : strip t = filter (fun x => negb (x =? -1)) t.
Proof. reflexivity. Qed.

Lemma assigns_to_counts_spec sliding lag maxn trjs :
  assigns_to_counts sliding lag maxn trjs = if lag <? 1 then None else counts_matrix sliding lag maxn trjs.
Proof. reflexivity. Qed.
