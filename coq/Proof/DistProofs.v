(* Proof/DistProofs.v -- proofs about Model/Dist.v (distance kernels, property C13). *)
From Coq Require Import List ZArith Lia Permutation Bool Arith.
From EV Require Import PFor DistBase DistValidGen Dist.
Import ListNotations.
Open Scope Z_scope.

(* ------------------------------------------------------------------ list helpers *)
Lemma mapi_from_const : forall (A : Type) (g : nat -> A) (l : list A) k,
    mapi_from k (fun i _ => g i) l = map g (seq k (length l)).
Proof.
  intros A g l; induction l as [|a t IH]; intros k; simpl; [reflexivity|].
  rewrite IH; reflexivity.
Qed.

Lemma mapi_from_map_seq : forall (A : Type) (g : nat -> A -> A) (h : nat -> A) n k,
    mapi_from k g (map h (seq k n)) = map (fun i => g i (h i)) (seq k n).
Proof.
  intros A g h n; induction n as [|n IH]; intros k; simpl; [reflexivity|].
  rewrite IH; reflexivity.
Qed.

Lemma mapi_from_ext : forall (A : Type) (g h : nat -> A -> A) (l : list A) k,
    (forall i a, g i a = h i a) -> mapi_from k g l = mapi_from k h l.
Proof.
  intros A g h l; induction l as [|a t IH]; intros k E; [reflexivity|].
  change (g k a :: mapi_from (S k) g t = h k a :: mapi_from (S k) h t).
  rewrite E, (IH (S k) E). reflexivity.
Qed.

(* ------------------------------------------------------------------ the kernels, any arithmetic *)
Section Generic.
  Context {A : Type}.
  Variable zero : A.
  Variable step : Z -> Z -> A -> A.

  Lemma apply_all_acc_prog : forall X y m i a,
      apply_all (acc_prog step X y m i) a =
      fold_left (fun a j => step (get2 X i j) (get1 y j) a) (seq 0 m) a.
  Proof.
    intros X y m i. unfold acc_prog, apply_all. generalize (seq 0 m) as js.
    induction js as [|j js IH]; intros a; simpl; [reflexivity|]. apply IH.
  Qed.

  Lemma zero_phase_seq : forall n (out : list A),
      length out = n ->
      run_ops (sched_ops (zero_prog zero) (seq 0 n)) out = map (fun _ => zero) (seq 0 n).
  Proof.
    intros n out Hn. rewrite (@pfor_seq_spec A _ n out Hn). unfold mapi.
    change (fun (i : nat) (a : A) => apply_all (zero_prog zero i) a) with (fun (i : nat) (_ : A) => zero).
    rewrite (mapi_from_const A (fun _ : nat => zero)). rewrite Hn. reflexivity.
  Qed.

  (* sequential meaning of the two-loop kernels: cell i ends up holding row_value i *)
  Lemma two_loops_seq : forall X y m n (out : list A),
      length out = n ->
      kernel_two_loops zero step X y m (seq 0 n) (seq 0 n) out =
      map (row_value zero step X y m) (seq 0 n).
  Proof.
    intros X y m n out Hn. unfold kernel_two_loops.
    rewrite (zero_phase_seq n out Hn).
    rewrite (@pfor_seq_spec A _ n); [|rewrite map_length, seq_length; reflexivity].
    unfold mapi. rewrite mapi_from_map_seq.
    apply map_ext; intros i. rewrite apply_all_acc_prog. reflexivity.
  Qed.

  Lemma one_loop_seq : forall X y m n (out : list A),
      length out = n ->
      kernel_one_loop zero step X y m (seq 0 n) out = map (row_value zero step X y m) (seq 0 n).
  Proof.
    intros X y m n out Hn. unfold kernel_one_loop.
    rewrite (@pfor_seq_spec A _ n out Hn). unfold mapi.
    assert (E : forall i a, apply_all (ham_prog zero step X y m i) a = row_value zero step X y m i).
    { intros i a. unfold ham_prog. rewrite apply_all_app. simpl.
      rewrite apply_all_acc_prog. reflexivity. }
    transitivity (mapi_from 0 (fun i (_ : A) => row_value zero step X y m i) out).
    - apply mapi_from_ext. exact E.
    - rewrite mapi_from_const, Hn. reflexivity.
  Qed.

  (* THREAD COUNT / SCHEDULE, iteration granularity: any order of the iterations in each loop *)
  Theorem two_loops_schedule_indep : forall X y m n s1 s2 (out : list A),
      length out = n -> Permutation s1 (seq 0 n) -> Permutation s2 (seq 0 n) ->
      kernel_two_loops zero step X y m s1 s2 out = map (row_value zero step X y m) (seq 0 n).
  Proof.
    intros X y m n s1 s2 out Hn H1 H2. rewrite <- (two_loops_seq X y m n out Hn).
    unfold kernel_two_loops.
    rewrite (@pfor_schedule_indep A (zero_prog zero) _ _ out H1).
    rewrite (@pfor_schedule_indep A (acc_prog step X y m) _ _ _ H2). reflexivity.
  Qed.

  Theorem one_loop_schedule_indep : forall X y m n s (out : list A),
      length out = n -> Permutation s (seq 0 n) ->
      kernel_one_loop zero step X y m s out = map (row_value zero step X y m) (seq 0 n).
  Proof.
    intros X y m n s out Hn H1. rewrite <- (one_loop_seq X y m n out Hn).
    unfold kernel_one_loop. apply pfor_schedule_indep. exact H1.
  Qed.

  (* THREAD COUNT / SCHEDULE, micro-operation granularity: each loop's iterations are split into
     any number of chunks (threads) and the threads' read-modify-write streams interleave
     arbitrarily; the barrier at the end of a prange separates the two loops *)
  Theorem two_loops_interleaving_indep : forall X y m n ch1 ch2 l1 l2 (out : list A),
      length out = n ->
      Permutation (concat ch1) (seq 0 n) -> Interleave (map (sched_ops (zero_prog zero)) ch1) l1 ->
      Permutation (concat ch2) (seq 0 n) -> Interleave (map (sched_ops (acc_prog step X y m)) ch2) l2 ->
      run_ops l2 (run_ops l1 out) = map (row_value zero step X y m) (seq 0 n).
  Proof.
    intros X y m n ch1 ch2 l1 l2 out Hn P1 I1 P2 I2.
    rewrite (@pfor_interleaving_indep A _ _ _ _ out P1 I1).
    rewrite (@pfor_interleaving_indep A _ _ _ _ _ P2 I2).
    apply (two_loops_seq X y m n out Hn).
  Qed.

  Theorem one_loop_interleaving_indep : forall X y m n ch l (out : list A),
      length out = n ->
      Permutation (concat ch) (seq 0 n) -> Interleave (map (sched_ops (ham_prog zero step X y m)) ch) l ->
      run_ops l out = map (row_value zero step X y m) (seq 0 n).
  Proof.
    intros X y m n ch l out Hn P1 I1.
    rewrite (@pfor_interleaving_indep A _ _ _ _ out P1 I1).
    apply (one_loop_seq X y m n out Hn).
  Qed.

  (* the initial contents of the output buffer are irrelevant *)
  Lemma row_value_ext : forall X X' y y' m i,
      (forall j, (j < m)%nat -> get2 X i j = get2 X' i j) ->
      (forall j, (j < m)%nat -> get1 y j = get1 y' j) ->
      row_value zero step X y m i = row_value zero step X' y' m i.
  Proof.
    intros X X' y y' m i HX Hy. unfold row_value.
    assert (G : forall js a, (forall j, In j js -> (j < m)%nat) ->
                fold_left (fun a j => step (get2 X i j) (get1 y j) a) js a =
                fold_left (fun a j => step (get2 X' i j) (get1 y' j) a) js a).
    { induction js as [|j js IH]; intros a Hjs; simpl; [reflexivity|].
      rewrite HX, Hy by (apply Hjs; left; reflexivity).
      apply IH. intros j' Hj'. apply Hjs; right; exact Hj'. }
    apply G. intros j Hj. apply in_seq in Hj. lia.
  Qed.
End Generic.

(* ------------------------------------------------------------------ validation (translated code) *)
(* normal form of the translated _prepare_for_2d_to_1d_distance: the checks in the order the
   code performs them.  Proved by case analysis against Gen/DistValidGen.v, i.e. against what the
   .pyx says now. *)
Lemma prepare_normal_form : forall X y out,
    gen_prepare X y out =
    if negb (rank X =? 2) then VErr DataInvalid else
    if negb (rank y =? 1) then VErr DataInvalid else
    match shape_at X 1, shape_at y 0 with
    | Some u, Some v =>
        if negb (u =? v) then VErr DataInvalid else
        match out with
        | None => match shape_at X 0 with Some n => VAlloc n | None => VErr IndexErr end
        | Some o =>
            if negb (is_f64 o) then VErr DataInvalid else
            match shape_at o 0, shape_at X 0 with
            | Some a, Some b =>
                if negb (a =? b) then VErr DataInvalid
                else if negb (rank o =? 1) then VErr DataInvalid else VUse
            | _, _ => VErr IndexErr
            end
        end
    | _, _ => VErr IndexErr
    end.
Proof.
  intros X y out. unfold gen_prepare, gen_check_is_2d, gen_check_is_1d, check_then, ne_at, alloc_at.
  destruct (negb (rank X =? 2)); [reflexivity|].
  destruct (negb (rank y =? 1)); [reflexivity|].
  destruct (shape_at X 1); [|reflexivity].
  destruct (shape_at y 0); [|reflexivity].
  destruct (negb (z =? z0)); [reflexivity|].
  destruct out as [o|]; [|reflexivity].
  destruct (negb (is_f64 o)); [reflexivity|].
  destruct (shape_at o 0); [|reflexivity].
  destruct (shape_at X 0); [|reflexivity].
  destruct (negb (z1 =? z2)); [reflexivity|].
  destruct (negb (rank o =? 1)); reflexivity.
Qed.

Definition accepted (X y : aobj) (out : option aobj) : Prop :=
  rank X = 2 /\ rank y = 1 /\
  (exists w, shape_at X 1 = Some w /\ shape_at y 0 = Some w) /\
  match out with
  | None => True
  | Some o => is_f64 o = true /\ rank o = 1 /\
              exists n, shape_at o 0 = Some n /\ shape_at X 0 = Some n
  end.

Lemma rank2_shape_at : forall X, rank X = 2 -> exists a b, shape X = [a; b].
Proof.
  intros X H. unfold rank in H. destruct (shape X) as [|a [|b [|c t]]]; simpl in H; try lia.
  exists a, b; reflexivity.
Qed.

Lemma rank1_shape_at : forall X, rank X = 1 -> exists a, shape X = [a].
Proof.
  intros X H. unfold rank in H. destruct (shape X) as [|a [|b t]]; simpl in H; try lia.
  exists a; reflexivity.
Qed.

(* VALIDATION, both directions: the call is accepted iff X is 2-D, y is 1-D, widths agree and a
   supplied out is a float64 vector with one cell per row *)
Theorem prepare_accepts_iff : forall X y out,
    (forall e, gen_prepare X y out <> VErr e) <-> accepted X y out.
Proof.
  intros X y out. rewrite prepare_normal_form. unfold accepted. split.
  - intros H.
    destruct (rank X =? 2) eqn:EX; simpl in H; [|exfalso; eapply H; reflexivity].
    destruct (rank y =? 1) eqn:Ey; simpl in H; [|exfalso; eapply H; reflexivity].
    apply Z.eqb_eq in EX, Ey.
    destruct (shape_at X 1) as [u|] eqn:E1; [|exfalso; eapply H; reflexivity].
    destruct (shape_at y 0) as [v|] eqn:E2; [|exfalso; eapply H; reflexivity].
    destruct (u =? v) eqn:Euv; simpl in H; [|exfalso; eapply H; reflexivity].
    apply Z.eqb_eq in Euv; subst v.
    split; [exact EX|]. split; [exact Ey|]. split; [exists u; split; reflexivity|].
    destruct out as [o|]; [|exact I].
    destruct (is_f64 o) eqn:Ef; simpl in H; [|exfalso; eapply H; reflexivity].
    destruct (shape_at o 0) as [a|] eqn:Ea; [|exfalso; eapply H; reflexivity].
    destruct (shape_at X 0) as [b|] eqn:Eb; [|exfalso; eapply H; reflexivity].
    destruct (a =? b) eqn:Eab; simpl in H; [|exfalso; eapply H; reflexivity].
    destruct (rank o =? 1) eqn:Er; simpl in H; [|exfalso; eapply H; reflexivity].
    apply Z.eqb_eq in Eab, Er. subst b.
    split; [reflexivity|]. split; [exact Er|]. exists a; split; reflexivity.
  - intros [HX [Hy [[w [H1 H2]] Ho]]] e.
    apply Z.eqb_eq in HX, Hy. rewrite HX, Hy, H1, H2, Z.eqb_refl. simpl.
    destruct out as [o|].
    + destruct Ho as [Hf [Hr [n [Ha Hb]]]]. apply Z.eqb_eq in Hr.
      rewrite Hf, Ha, Hb, Z.eqb_refl, Hr. simpl. discriminate.
    + apply Z.eqb_eq in HX. destruct (rank2_shape_at X HX) as [a [b Es]].
      unfold shape_at. rewrite Es. simpl. discriminate.
Qed.

(* VALIDATION, the error clauses one by one *)
Theorem rejects_wrong_rank_X : forall X y out, rank X <> 2 -> gen_prepare X y out = VErr DataInvalid.
Proof.
  intros X y out H. rewrite prepare_normal_form.
  apply Z.eqb_neq in H. rewrite H. reflexivity.
Qed.

Theorem rejects_wrong_rank_y : forall X y out, rank y <> 1 -> exists e, gen_prepare X y out = VErr e.
Proof.
  intros X y out H. rewrite prepare_normal_form.
  apply Z.eqb_neq in H. rewrite H. destruct (negb (rank X =? 2)); eexists; reflexivity.
Qed.

Theorem rejects_width_mismatch : forall X y out u v,
    shape_at X 1 = Some u -> shape_at y 0 = Some v -> u <> v -> exists e, gen_prepare X y out = VErr e.
Proof.
  intros X y out u v H1 H2 H. rewrite prepare_normal_form, H1, H2.
  apply Z.eqb_neq in H. rewrite H. simpl.
  destruct (negb (rank X =? 2)); [eexists; reflexivity|].
  destruct (negb (rank y =? 1)); eexists; reflexivity.
Qed.

Theorem rejects_bad_out : forall X y o,
    is_f64 o = false \/ rank o <> 1 \/ shape_at o 0 <> shape_at X 0 ->
    exists e, gen_prepare X y (Some o) = VErr e.
Proof.
  intros X y o H.
  destruct (gen_prepare X y (Some o)) as [e|n|] eqn:E; [exists e; reflexivity| |].
  - exfalso. rewrite prepare_normal_form in E.
    destruct (negb (rank X =? 2)); [discriminate|]. destruct (negb (rank y =? 1)); [discriminate|].
    destruct (shape_at X 1); [|discriminate]. destruct (shape_at y 0); [|discriminate].
    destruct (negb (z =? z0)); [discriminate|]. destruct (negb (is_f64 o)); [discriminate|].
    destruct (shape_at o 0); [|discriminate]. destruct (shape_at X 0); [|discriminate].
    destruct (negb (z1 =? z2)); [discriminate|]. destruct (negb (rank o =? 1)); discriminate.
  - exfalso.
    assert (A : accepted X y (Some o)).
    { apply prepare_accepts_iff. intros e. rewrite E. discriminate. }
    destruct A as [_ [_ [_ [Hf [Hr [n [Ha Hb]]]]]]].
    destruct H as [H|[H|H]].
    + congruence.
    + contradiction.
    + apply H. congruence.
Qed.

(* ------------------------------------------------------------------ what an accepted call computes *)
(* the caller's out object really has as many cells as its shape says (NumPy invariant) *)
Definition out_wf {A : Type} (out : option (aobj * list A)) : Prop :=
  match out with
  | None => True
  | Some (o, c) => length c = Z.to_nat (nth 0 (shape o) 0)
  end.

Definition cells_of {A : Type} (zero : A) (r : vres) (out : option (aobj * list A)) : list A :=
  match r, out with
  | VAlloc n, _ => repeat zero (Z.to_nat n)
  | _, Some (_, c) => c
  | _, None => []
  end.

Lemma shape_at_nth : forall a k v, shape_at a (Z.of_nat k) = Some v -> nth k (shape a) 0 = v.
Proof.
  intros a k v H. unfold shape_at in H.
  destruct (Z.of_nat k <? 0) eqn:E; [discriminate|].
  rewrite Nat2Z.id in H. apply nth_error_nth. exact H.
Qed.

(* after an accepted validation the loop bounds of the kernels are the dimensions of X *)
Lemma accepted_dims : forall (A : Type) (zero : A) X y (out : option (aobj * list A)) r,
    gen_prepare (obj X) (obj y) (option_map fst out) = r ->
    (forall e, r <> VErr e) -> out_wf out ->
    length (cells_of zero r out) = dim X 0 /\ dim y 0 = dim X 1.
Proof.
  intros A zero X y out r E Hne Hwf.
  assert (Hacc : accepted (obj X) (obj y) (option_map fst out)).
  { apply prepare_accepts_iff. rewrite E. exact Hne. }
  destruct Hacc as [HX [Hy [[w [H1 H2]] Ho]]].
  apply (shape_at_nth (obj X) 1%nat) in H1. apply (shape_at_nth (obj y) 0%nat) in H2.
  simpl in H1, H2. split.
  - rewrite prepare_normal_form in E.
    apply Z.eqb_eq in HX, Hy. rewrite HX, Hy in E. simpl in E.
    destruct (shape_at (obj X) 1); [|subst r; exfalso; eapply Hne; reflexivity].
    destruct (shape_at (obj y) 0); [|subst r; exfalso; eapply Hne; reflexivity].
    destruct (negb (z =? z0)); [subst r; exfalso; eapply Hne; reflexivity|].
    destruct out as [[o c]|]; simpl in *.
    + destruct Ho as [Hf [Hr [n [Ha Hb]]]].
      rewrite Hf, Ha, Hb, Z.eqb_refl in E. apply Z.eqb_eq in Hr. rewrite Hr in E. simpl in E.
      subst r. simpl. rewrite Hwf.
      apply (shape_at_nth o 0%nat) in Ha. apply (shape_at_nth (obj X) 0%nat) in Hb. simpl in Hb.
      unfold dim. rewrite Ha, Hb. reflexivity.
    + destruct (shape_at (obj X) 0) as [n|] eqn:En; [|subst r; exfalso; eapply Hne; reflexivity].
      subst r. simpl. rewrite repeat_length.
      apply (shape_at_nth (obj X) 0%nat) in En. simpl in En. unfold dim. rewrite En. reflexivity.
  - unfold dim. rewrite H1, H2. reflexivity.
Qed.

Lemma distance_ok_inv : forall (A : Type) (zero : A) step mt X y out sched (cells : list A),
    distance_sched zero step mt X y out sched = DOk cells ->
    exists r, gen_prepare (obj X) (obj y) (option_map fst out) = r /\ (forall e, r <> VErr e) /\
              dtype_eqb (dt X) (dt y) && supports mt (dt X) = true /\
              cells = run_kernel zero step mt X y (fst (sched (length (cells_of zero r out))))
                                 (snd (sched (length (cells_of zero r out)))) (cells_of zero r out).
Proof.
  intros A zero step mt X y out sched cells H. unfold distance_sched in H.
  destruct (gen_prepare (obj X) (obj y) (option_map fst out)) as [e|n|] eqn:E; [discriminate| |].
  - destruct (dtype_eqb (dt X) (dt y) && supports mt (dt X)) eqn:D; simpl in H; [|discriminate].
    exists (VAlloc n). split; [reflexivity|]. split; [intros e; discriminate|]. split; [reflexivity|].
    inversion H. reflexivity.
  - destruct (dtype_eqb (dt X) (dt y) && supports mt (dt X)) eqn:D; simpl in H; [|discriminate].
    exists VUse. split; [reflexivity|]. split; [intros e; discriminate|]. split; [reflexivity|].
    inversion H. reflexivity.
Qed.

(* KERNEL SPEC, generic arithmetic, any admissible schedule: an accepted call leaves in cell i
   (of the fresh or the caller's buffer) the fold of `step` along row i of X against y. *)
Theorem distance_sched_value : forall (A : Type) (zero : A) step mt X y out sched (cells : list A),
    out_wf out ->
    (forall n, Permutation (fst (sched n)) (seq 0 n) /\ Permutation (snd (sched n)) (seq 0 n)) ->
    distance_sched zero step mt X y out sched = DOk cells ->
    cells = map (row_value zero (step mt) X y (dim X 1)) (seq 0 (dim X 0)).
Proof.
  intros A zero step mt X y out sched cells Hwf Hs H.
  destruct (distance_ok_inv _ _ _ _ _ _ _ _ _ H) as [r [E [Hne [_ Hc]]]].
  destruct (accepted_dims _ zero X y out _ E Hne Hwf) as [Hn Hm].
  subst cells. unfold run_kernel. rewrite Hm.
  destruct (Hs (length (cells_of zero r out))) as [P1 P2]. rewrite Hn in *.
  destruct mt.
  - apply two_loops_schedule_indep; assumption.
  - apply two_loops_schedule_indep; assumption.
  - apply one_loop_schedule_indep; assumption.
Qed.

(* ideal arithmetic: the fold is the norm *)
Lemma step_ideal_shift : forall mt a b acc, step_ideal mt a b acc = acc + step_ideal mt a b 0.
Proof. intros [] a b acc; simpl; lia. Qed.

Lemma row_value_ideal : forall mt X y m i,
    row_value 0 (step_ideal mt) X y m i =
    spec_row mt (map (get2 X i) (seq 0 m)) (map (get1 y) (seq 0 m)).
Proof.
  intros mt X y m i. unfold row_value, spec_row.
  assert (G : forall js acc,
             fold_left (fun a j => step_ideal mt (get2 X i j) (get1 y j) a) js acc =
             acc + zsum (map (fun p => step_ideal mt (fst p) (snd p) 0)
                             (combine (map (get2 X i) js) (map (get1 y) js)))).
  { induction js as [|j js IH]; intros acc; simpl; [lia|].
    rewrite IH, (step_ideal_shift mt _ _ acc). lia. }
  rewrite G. lia.
Qed.

(* KERNEL SPEC (property clause 1): per row x of the logical matrix, the squared 2-norm, the
   1-norm of x - y, resp. the number of differing coordinates -- whatever the layout of X, y
   (only [rows X] and [vec y] appear on the right), with or without caller-supplied buffer. *)
Theorem distance_ideal_spec : forall mt X y out cells,
    out_wf out ->
    distance_ideal mt X y out = DOk cells ->
    cells = spec mt (rows X) (vec y).
Proof.
  intros mt X y out cells Hwf H.
  pose proof H as H0. unfold distance_ideal, distance in H0.
  destruct (distance_ok_inv _ _ _ _ _ _ _ _ _ H0) as [r [E [Hne _]]].
  destruct (accepted_dims _ 0 X y out _ E Hne Hwf) as [_ Hm].
  unfold distance_ideal, distance in H.
  apply distance_sched_value in H; [|exact Hwf|intros n; split; apply Permutation_refl].
  subst cells. unfold spec, rows, vec. rewrite map_map.
  apply map_ext; intros i. rewrite row_value_ideal, Hm. reflexivity.
Qed.

(* SCHEDULE INDEPENDENCE at the level of a whole call *)
Theorem distance_schedule_indep : forall (A : Type) (zero : A) step mt X y out sched (cells : list A),
    out_wf out ->
    (forall n, Permutation (fst (sched n)) (seq 0 n) /\ Permutation (snd (sched n)) (seq 0 n)) ->
    distance_sched zero step mt X y out sched = DOk cells ->
    distance zero step mt X y out = DOk cells.
Proof.
  intros A zero step mt X y out sched cells Hwf Hs H.
  pose proof (distance_sched_value _ _ _ _ _ _ _ _ _ Hwf Hs H) as Hv.
  unfold distance.
  destruct (distance_ok_inv _ _ _ _ _ _ _ _ _ H) as [r [E [Hne [D _]]]].
  unfold distance_sched in *. rewrite E in *.
  destruct r as [e|n|]; [exfalso; eapply Hne; reflexivity| |]; rewrite D in *; simpl in *.
  - f_equal. rewrite Hv.
    destruct (accepted_dims _ zero X y out _ E Hne Hwf) as [Hn Hm]. simpl in Hn.
    unfold run_kernel. rewrite Hm. rewrite <- Hn.
    destruct mt; [apply two_loops_seq|apply two_loops_seq|apply one_loop_seq]; reflexivity.
  - f_equal. rewrite Hv.
    destruct (accepted_dims _ zero X y out _ E Hne Hwf) as [Hn Hm]. simpl in Hn.
    unfold run_kernel. rewrite Hm. rewrite <- Hn.
    destruct mt; [apply two_loops_seq|apply two_loops_seq|apply one_loop_seq]; reflexivity.
Qed.

(* LAYOUT INDEPENDENCE: two array objects denoting the same logical matrix / vector (C-ordered,
   Fortran-ordered, strided or reversed views ...) give the same distances *)
Theorem layout_indep : forall mt X X' y y' out out' cells cells',
    out_wf out -> out_wf out' ->
    rows X = rows X' -> vec y = vec y' ->
    distance_ideal mt X y out = DOk cells -> distance_ideal mt X' y' out' = DOk cells' ->
    cells = cells'.
Proof.
  intros mt X X' y y' out out' cells cells' W W' HX Hy H H'.
  rewrite (distance_ideal_spec _ _ _ _ _ W H), (distance_ideal_spec _ _ _ _ _ W' H'), HX, Hy.
  reflexivity.
Qed.

(* the standard layouts denote what they should *)
Lemma get2_c_array : forall d n m flat i j,
    get2 (c_array d n m flat) i j = nth (i * m + j) flat 0.
Proof.
  intros. unfold get2, addr2, stride, c_array; simpl. f_equal. lia.
Qed.

Lemma get2_f_array : forall d n m flat i j,
    get2 (f_array d n m flat) i j = nth (j * n + i) flat 0.
Proof.
  intros. unfold get2, addr2, stride, f_array; simpl. f_equal. lia.
Qed.

Lemma get2_transpose2 : forall a i j, get2 (transpose2 a) i j = get2 a j i.
Proof.
  intros. unfold get2, addr2, transpose2; simpl. unfold stride; simpl. f_equal. f_equal. ring.
Qed.

Lemma get2_slice2 : forall a r0 rs nr c0 cs nc i j,
    0 <= r0 + Z.of_nat i * rs -> 0 <= c0 + Z.of_nat j * cs ->
    get2 (slice2 a r0 rs nr c0 cs nc) i j =
    get2 a (Z.to_nat (r0 + Z.of_nat i * rs)) (Z.to_nat (c0 + Z.of_nat j * cs)).
Proof.
  intros a r0 rs nr c0 cs nc i j Hr Hc. unfold get2, addr2, slice2; simpl. unfold stride; simpl.
  rewrite !Z2Nat.id by assumption. f_equal. f_equal. ring.
Qed.

(* OUT BUFFER: the caller's buffer ends up holding exactly what a fresh buffer would, whatever it
   contained before *)
Theorem out_buffer_holds_result : forall mt X y o (c : list Z) cells,
    out_wf (Some (o, c)) ->
    distance_ideal mt X y (Some (o, c)) = DOk cells ->
    distance_ideal mt X y None = DOk cells /\ length cells = length c.
Proof.
  intros mt X y o c cells Hwf H.
  pose proof (distance_ideal_spec _ _ _ _ _ Hwf H) as Hs.
  pose proof H as H0. unfold distance_ideal, distance in H0.
  destruct (distance_ok_inv _ _ _ _ _ _ _ _ _ H0) as [r [E [Hne [D Hc]]]].
  destruct (accepted_dims _ 0 X y _ _ E Hne Hwf) as [Hn Hm].
  assert (Hacc : accepted (obj X) (obj y) (Some o)).
  { apply prepare_accepts_iff. simpl in E. rewrite E. exact Hne. }
  destruct Hacc as [HX [Hy [Hw _]]].
  assert (Hacc' : accepted (obj X) (obj y) None) by (repeat split; assumption).
  destruct (gen_prepare (obj X) (obj y) None) as [e|n|] eqn:E'.
  - exfalso. pose proof (proj2 (prepare_accepts_iff _ _ _) Hacc') as Hno. eapply Hno. exact E'.
  - split.
    + assert (W : @out_wf Z None) by exact I.
      destruct (distance_ideal mt X y None) as [e|cells'] eqn:Hd.
      * exfalso. unfold distance_ideal, distance, distance_sched in Hd. simpl in Hd.
        rewrite E', D in Hd. simpl in Hd. discriminate.
      * rewrite (distance_ideal_spec _ _ _ _ _ W Hd), Hs. reflexivity.
    + rewrite Hc. unfold run_kernel.
      assert (L : length (cells_of 0 r (Some (o, c))) = length c).
      { destruct r as [e| |]; [exfalso; eapply Hne; reflexivity| |reflexivity].
        exfalso. simpl in E. rewrite prepare_normal_form in E.
        destruct (negb (rank (obj X) =? 2)); [discriminate|].
        destruct (negb (rank (obj y) =? 1)); [discriminate|].
        destruct (shape_at (obj X) 1); [|discriminate]. destruct (shape_at (obj y) 0); [|discriminate].
        destruct (negb (z =? z0)); [discriminate|]. destruct (negb (is_f64 o)); [discriminate|].
        destruct (shape_at o 0); [|discriminate]. destruct (shape_at (obj X) 0); [|discriminate].
        destruct (negb (z1 =? z2)); [discriminate|]. destruct (negb (rank o =? 1)); discriminate. }
      destruct mt; unfold kernel_two_loops, kernel_one_loop; rewrite ?run_ops_length; exact L.
  - exfalso. rewrite prepare_normal_form in E'.
    destruct (negb (rank (obj X) =? 2)); [discriminate|].
    destruct (negb (rank (obj y) =? 1)); [discriminate|].
    destruct (shape_at (obj X) 1); [|discriminate]. destruct (shape_at (obj y) 0); [|discriminate].
    destruct (negb (z =? z0)); [discriminate|].
    destruct (shape_at (obj X) 0); discriminate.
Qed.

(* IN BOUNDS: once the (translated) validation and the dtype dispatch have accepted, every
   X[i, j], y[j], out[i] the loops touch (i < len(out), j < len(y)) lies inside its buffer. *)
Theorem valid_implies_in_bounds : forall (A : Type) (zero : A) step mt X y out sched (cells : list A),
    out_wf out -> view_ok2 X -> view_ok1 y ->
    distance_sched zero step mt X y out sched = DOk cells ->
    exists r, gen_prepare (obj X) (obj y) (option_map fst out) = r /\
    forall i j, (i < length (cells_of zero r out))%nat -> (j < dim y 0)%nat ->
      0 <= addr2 X i j < Z.of_nat (length (buf X)) /\
      0 <= addr1 y j < Z.of_nat (length (buf y)) /\
      (i < length (cells_of zero r out))%nat.
Proof.
  intros A zero step mt X y out sched cells Hwf VX Vy H.
  destruct (distance_ok_inv _ _ _ _ _ _ _ _ _ H) as [r [E [Hne _]]].
  exists r. split; [exact E|]. intros i j Hi Hj.
  destruct (accepted_dims _ zero X y out _ E Hne Hwf) as [Hn Hm].
  split; [|split].
  - apply VX; [rewrite <- Hn; exact Hi|rewrite <- Hm; exact Hj].
  - apply Vy. exact Hj.
  - exact Hi.
Qed.

Lemma view_ok2b_sound_c : forall d n m flat,
    length flat = (n * m)%nat -> view_ok2 (c_array d n m flat).
Proof.
  intros d n m flat L i j Hi Hj. unfold dim, c_array in *; simpl in *.
  rewrite Nat2Z.id in Hi, Hj. unfold addr2, stride; simpl. rewrite L. nia.
Qed.

(* ------------------------------------------------------------------ double arithmetic is exact *)
Definition term_bound (mt : metric) (Bv : Z) : Z :=
  match mt with Euclid => (2 * Bv) * (2 * Bv) | Manhattan => 2 * Bv | Hamming => 1 end.

Lemma dbl_some : forall z, Z.abs z <= B53 -> dbl z = Some z.
Proof. intros z H. unfold dbl. apply Z.leb_le in H. rewrite H. reflexivity. Qed.

Lemma B53_val : B53 = 9007199254740992.
Proof. reflexivity. Qed.

Lemma step_mach_exact : forall mt Bv a b s,
    0 <= Bv -> 2 * Bv <= B53 -> Z.abs a <= Bv -> Z.abs b <= Bv ->
    0 <= s -> s + term_bound mt Bv <= B53 ->
    step_mach mt a b (Some s) = Some (step_ideal mt a b s) /\
    s <= step_ideal mt a b s <= s + term_bound mt Bv.
Proof.
  intros mt Bv a b s HB H2B Ha Hb Hs Hsum.
  assert (Hd : Z.abs (a - b) <= 2 * Bv) by lia.
  destruct mt; unfold step_mach, step_ideal, term_bound in *.
  - unfold mdiff. rewrite (dbl_some a), (dbl_some b), (dbl_some (a - b)) by lia.
    assert (Hq : 0 <= (a - b) * (a - b) <= (2 * Bv) * (2 * Bv)) by nia.
    rewrite (dbl_some ((a - b) * (a - b))) by lia.
    rewrite dbl_some by lia. split; [reflexivity|lia].
  - unfold mdiff. rewrite (dbl_some a), (dbl_some b), (dbl_some (a - b)) by lia.
    rewrite dbl_some by lia. split; [reflexivity|lia].
  - destruct (b =? a); rewrite dbl_some by lia; split; try reflexivity; lia.
Qed.

(* EXACTNESS IN DOUBLE (the repaired code): if all values are bounded by Bv <= 2^52 and
   m * (per-term bound) <= 2^53, no operation of a row leaves the range where double arithmetic
   is exact, and the machine result is the ideal one. *)
Theorem row_value_mach_exact : forall mt Bv X y m i,
    0 <= Bv -> 2 * Bv <= B53 -> Z.of_nat m * term_bound mt Bv <= B53 ->
    (forall j, (j < m)%nat -> Z.abs (get2 X i j) <= Bv /\ Z.abs (get1 y j) <= Bv) ->
    row_value (Some 0) (step_mach mt) X y m i = Some (row_value 0 (step_ideal mt) X y m i).
Proof.
  intros mt Bv X y m i HB H2B Hm Hv. unfold row_value.
  assert (HT : 0 <= term_bound mt Bv) by (destruct mt; unfold term_bound; nia).
  assert (G : forall js s,
             (forall j, In j js -> (j < m)%nat) -> 0 <= s ->
             s + Z.of_nat (length js) * term_bound mt Bv <= B53 ->
             fold_left (fun a j => step_mach mt (get2 X i j) (get1 y j) a) js (Some s) =
             Some (fold_left (fun a j => step_ideal mt (get2 X i j) (get1 y j) a) js s)).
  { induction js as [|j js IH]; intros s Hjs Hs Hsum; [reflexivity|].
    simpl fold_left. simpl length in Hsum. rewrite Nat2Z.inj_succ in Hsum.
    destruct (Hv j (Hjs j (or_introl eq_refl))) as [Ha Hb].
    destruct (step_mach_exact mt Bv _ _ s HB H2B Ha Hb Hs) as [E R]; [nia|].
    rewrite E. apply IH.
    - intros j' Hj'. apply Hjs; right; exact Hj'.
    - lia.
    - nia. }
  apply G.
  - intros j Hj. apply in_seq in Hj. lia.
  - lia.
  - rewrite seq_length. lia.
Qed.

(* ------------------------------------------------------------------ defect D9 (before the repair) *)
(* with the difference taken in the element type the kernel specification is FALSE for int32 and
   int64 inputs; the witnesses were replayed on the real code (2.0 and nan). *)
Definition in_range (d : dtype) (z : Z) : Prop :=
  match d with
  | I32 => - 2 ^ 31 <= z < 2 ^ 31
  | I64 => - 2 ^ 63 <= z < 2 ^ 63
  | _ => False
  end.

Theorem old_kernel_spec_refuted_int32 :
  exists a b, in_range I32 a /\ in_range I32 b /\
              step_old I32 Euclid a b 0 <> step_ideal Euclid a b 0 /\
              step_old I32 Manhattan a b 0 <> step_ideal Manhattan a b 0 /\
              step_old I32 Euclid a b 0 = 4.
Proof.
  exists 2147483647, (-2147483647). unfold in_range.
  split; [lia|]. split; [lia|]. vm_compute. repeat split; discriminate.
Qed.

Theorem old_kernel_spec_refuted_int64 :
  exists a b, in_range I64 a /\ in_range I64 b /\
              step_old I64 Euclid a b 0 < 0.
Proof.
  exists 4000000000, 0. unfold in_range. split; [lia|]. split; [lia|]. vm_compute. reflexivity.
Qed.

(* the small integer types were never affected: C promotes them to int before subtracting *)
Theorem old_kernel_exact_small_ints : forall mt a b acc,
    - 2 ^ 15 <= a < 2 ^ 15 -> - 2 ^ 15 <= b < 2 ^ 15 ->
    step_old I16 mt a b acc = step_ideal mt a b acc.
Proof.
  intros mt a b acc Ha Hb.
  assert (W : wrap 32 (a - b) = a - b).
  { unfold wrap. change (2 ^ (32 - 1)) with 2147483648. change (2 ^ 32) with 4294967296.
    change (2 ^ 15) with 32768 in *.
    rewrite Z.mod_small by lia. lia. }
  destruct mt; simpl; unfold old_diff; rewrite ?W; reflexivity.
Qed.
