(* C10: compute_batches respects the frame budget: a batch of two or more trajectories stays
   strictly below batch_size. *)
From Coq Require Import List ZArith Lia Arith.
From EV Require Import PySlice PartitionBase PartitionGen Cluster ClusterBase Partition PartitionProofs.
Import ListNotations.
Open Scope Z_scope.

Definition batch_frames (all : list Z) (b : list nat) : Z := zsum (map (fun i => nth i all 0) b).
Definition batch_ok (bs : Z) (all : list Z) (b : list nat) : Prop :=
  batch_frames all b < bs \/ (length b <= 1)%nat.

Lemma batch_frames_snoc all b i : batch_frames all (b ++ [i]) = batch_frames all b + nth i all 0.
Proof. unfold batch_frames. rewrite map_app, zsum_app. cbn. lia. Qed.

Lemma cb_loop_budget bs all : forall lens i cur_sz cur done,
  lens = skipn i all ->
  cur_sz = batch_frames all cur -> batch_ok bs all cur -> Forall (batch_ok bs all) done ->
  Forall (batch_ok bs all) (cb_loop bs lens i cur_sz cur done).
Proof.
  induction lens as [|l r IH]; intros i cur_sz cur done Hl Hsz Hcur Hdone; cbn [cb_loop].
  - apply Forall_app. split; [exact Hdone|constructor; [exact Hcur|constructor]].
  - assert (Hn : nth i all 0 = l).
    { rewrite <- (Nat.add_0_r i). rewrite <- nth_skipn_add. rewrite <- Hl. reflexivity. }
    assert (Hr : r = skipn (S i) all).
    { replace (S i) with (i + 1)%nat by lia. rewrite <- skipn_add. rewrite <- Hl. reflexivity. }
    destruct (cur_sz + l <? bs) eqn:E.
    + apply IH; [exact Hr| |left|exact Hdone].
      * rewrite batch_frames_snoc, Hn, Hsz. reflexivity.
      * rewrite batch_frames_snoc, Hn, <- Hsz. apply Z.ltb_lt. exact E.
    + apply IH; [exact Hr| |right; cbn; lia|].
      * unfold batch_frames. cbn. rewrite Hn. lia.
      * apply Forall_app. split; [exact Hdone|constructor; [exact Hcur|constructor]].
Qed.

Theorem compute_batches_budget lens bs : Forall (batch_ok bs lens) (compute_batches lens bs).
Proof.
  unfold compute_batches. apply cb_loop_budget; [reflexivity|reflexivity| |constructor].
  right. cbn. lia.
Qed.
