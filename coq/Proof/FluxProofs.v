(* C08: proofs about the reactive-flux model (Model/Flux.v). *)
From Coq Require Import List Arith QArith Qabs Bool Lia Lqa.
From EV Require Import Flux.
Import ListNotations.
Open Scope Q_scope.

(* ================================================================= sums *)
Lemma sumn_ext : forall n f g, (forall j, (j < n)%nat -> f j == g j) -> sumn f n == sumn g n.
Proof.
  induction n as [|n IH]; intros f g H; simpl.
  - reflexivity.
  - rewrite (IH f g), (H n); [reflexivity| lia |intros; apply H; lia].
Qed.

Lemma sumn_scale : forall n c f, sumn (fun j => c * f j) n == c * sumn f n.
Proof. induction n as [|n IH]; intros; simpl; [ring| rewrite IH; ring]. Qed.

Lemma sumn_plus : forall n f g, sumn (fun j => f j + g j) n == sumn f n + sumn g n.
Proof. induction n as [|n IH]; intros; simpl; [ring| rewrite IH; ring]. Qed.

Lemma sumn_minus : forall n f g, sumn (fun j => f j - g j) n == sumn f n - sumn g n.
Proof. induction n as [|n IH]; intros; simpl; [ring| rewrite IH; ring]. Qed.

Lemma sumn_zero : forall n f, (forall j, (j < n)%nat -> f j == 0) -> sumn f n == 0.
Proof.
  induction n as [|n IH]; intros f H; simpl; [reflexivity|].
  rewrite IH, (H n); [ring| lia| intros; apply H; lia].
Qed.

Lemma sumn_nonneg : forall n f, (forall j, (j < n)%nat -> 0 <= f j) -> 0 <= sumn f n.
Proof.
  induction n as [|n IH]; intros f H; simpl; [lra|].
  assert (0 <= sumn f n) by (apply IH; intros; apply H; lia).
  assert (0 <= f n) by (apply H; lia). lra.
Qed.

(* a sum with term i struck out *)
Lemma sumn_skip : forall n i g, (i < n)%nat ->
  sumn (fun j => if (i =? j)%nat then 0 else g j) n == sumn g n - g i.
Proof.
  induction n as [|n IH]; intros i g Hi; [lia|]. simpl.
  destruct (Nat.eq_dec i n) as [->|Hne].
  - rewrite Nat.eqb_refl.
    rewrite (sumn_ext n (fun j => if (n =? j)%nat then 0 else g j) g).
    + ring.
    + intros j Hj. destruct (Nat.eqb_spec n j); [lia|reflexivity].
  - destruct (Nat.eqb_spec i n); [lia|]. rewrite IH by lia. ring.
Qed.

Lemma sumn_skip' : forall n i g, (i < n)%nat ->
  sumn (fun j => if (j =? i)%nat then 0 else g j) n == sumn g n - g i.
Proof.
  intros n i g Hi. rewrite <- (sumn_skip n i g Hi). apply sumn_ext. intros j _.
  rewrite Nat.eqb_sym. reflexivity.
Qed.

Lemma sumn_swap : forall m n (a : nat -> nat -> Q),
  sumn (fun i => sumn (fun j => a i j) n) m == sumn (fun j => sumn (fun i => a i j) m) n.
Proof.
  induction m as [|m IH]; intros n a; simpl.
  - symmetry. apply sumn_zero. intros; reflexivity.
  - rewrite IH. rewrite <- sumn_plus. apply sumn_ext. intros; reflexivity.
Qed.

Lemma suml_ext : forall l f g, (forall i, In i l -> f i == g i) -> suml f l == suml g l.
Proof.
  induction l as [|a l IH]; intros f g H; simpl; [reflexivity|].
  rewrite (H a), (IH f g); [reflexivity| intros; apply H; right; assumption | left; reflexivity].
Qed.

Lemma suml_app : forall l1 l2 f, suml f (l1 ++ l2) == suml f l1 + suml f l2.
Proof. induction l1 as [|a l IH]; intros; simpl; [ring| rewrite IH; ring]. Qed.

(* a function supported on a duplicate-free index list: the full sum is the sum over the list *)
Lemma sumn_support : forall l n g, NoDup l -> (forall x, In x l -> (x < n)%nat) ->
  (forall i, (i < n)%nat -> ~ In i l -> g i == 0) -> sumn g n == suml g l.
Proof.
  induction l as [|a l IH]; intros n g Hnd Hlt Hz; simpl.
  - apply sumn_zero. intros j Hj. apply Hz; [assumption| intros []].
  - inversion Hnd as [|? ? Hnotin Hnd']; subst.
    set (g' := fun i => if (a =? i)%nat then 0 else g i).
    assert (Hs : sumn g' n == sumn g n - g a) by (apply sumn_skip; apply Hlt; left; reflexivity).
    assert (H1 : sumn g' n == suml g' l).
    { apply IH; [assumption| intros; apply Hlt; right; assumption|].
      intros i Hi Hni. unfold g'. destruct (Nat.eqb_spec a i) as [->|Hne]; [reflexivity|].
      apply Hz; [assumption|]. intros [E|E]; [congruence| contradiction]. }
    assert (H2 : suml g' l == suml g l).
    { apply suml_ext. intros i Hi. unfold g'.
      destruct (Nat.eqb_spec a i) as [->|Hne]; [contradiction| reflexivity]. }
    rewrite <- H2, <- H1, Hs. ring.
Qed.

(* ================================================================= list access *)
Lemma map2_length : forall {A B C} (f : A -> B -> C) a b,
  length a = length b -> length (map2 f a b) = length a.
Proof.
  induction a as [|x a IH]; intros [|y b] H; simpl in *; try reflexivity; try discriminate.
  f_equal. apply IH. congruence.
Qed.

Lemma nth_map2 : forall {A B C} (f : A -> B -> C) a b i da db dc,
  (i < length a)%nat -> (i < length b)%nat ->
  nth i (map2 f a b) dc = f (nth i a da) (nth i b db).
Proof.
  induction a as [|x a IH]; intros [|y b] i da db dc Ha Hb; simpl in *; try lia.
  destruct i as [|i]; [reflexivity|]. apply IH; lia.
Qed.

Lemma mapi_from_length : forall {A B} (f : nat -> A -> B) l k, length (mapi_from k f l) = length l.
Proof. induction l as [|x l IH]; intros; simpl; [reflexivity| f_equal; apply IH]. Qed.

Lemma nth_mapi_from : forall {A B} (f : nat -> A -> B) l k i da db,
  (i < length l)%nat -> nth i (mapi_from k f l) db = f (k + i)%nat (nth i l da).
Proof.
  induction l as [|x l IH]; intros k i da db Hi; simpl in *; [lia|].
  destruct i as [|i].
  - rewrite Nat.add_0_r. reflexivity.
  - rewrite (IH (S k) i da db) by lia. f_equal. lia.
Qed.

Lemma nth_mapi : forall {A B} (f : nat -> A -> B) l i da db,
  (i < length l)%nat -> nth i (mapi f l) db = f i (nth i l da).
Proof. intros. unfold mapi. rewrite (nth_mapi_from f l 0 i da db) by assumption. reflexivity. Qed.

Lemma nth_map_in : forall {A B} (f : A -> B) l i da db,
  (i < length l)%nat -> nth i (map f l) db = f (nth i l da).
Proof.
  induction l as [|x l IH]; intros i da db Hi; simpl in *; [lia|].
  destruct i; [reflexivity| apply IH; lia].
Qed.

Lemma square_spec : forall n M, square n M = true ->
  length M = n /\ forall i, (i < n)%nat -> length (nth i M []) = n.
Proof.
  intros n M H. unfold square in H. apply andb_true_iff in H as [H1 H2].
  apply Nat.eqb_eq in H1. split; [assumption|].
  intros i Hi. rewrite forallb_forall in H2.
  apply Nat.eqb_eq. apply H2. apply nth_In. lia.
Qed.

Lemma shapes_ok_spec : forall T pi q, shapes_ok T pi q = true ->
  let n := length pi in
  (1 <= n)%nat /\ length T = n /\ (forall i, (i < n)%nat -> length (nth i T []) = n) /\ length q = n.
Proof.
  intros T pi q H n. unfold shapes_ok in H. fold n in H.
  apply andb_true_iff in H as [H H3]. apply andb_true_iff in H as [H1 H2].
  apply Nat.leb_le in H1. apply Nat.eqb_eq in H3. apply square_spec in H2 as [H2 H2'].
  repeat split; assumption.
Qed.

(* ================================================================= entries of the three results *)
(* the flux the property defines *)
Definition flux_spec (T : list (list Q)) (pi q : list Q) (i j : nat) : Q :=
  if (i =? j)%nat then 0 else vnth pi i * (1 - vnth q i) * ent T i j * vnth q j.

Definition pos_part (x : Q) : Q := if Qltb x 0 then 0 else x.

Lemma Qltb_spec : forall x y, Qltb x y = true <-> x < y.
Proof.
  intros x y. unfold Qltb. rewrite negb_true_iff. split; intro H.
  - destruct (Qlt_le_dec x y) as [L|L]; [assumption|].
    apply Qle_bool_iff in L. congruence.
  - destruct (Qle_bool y x) eqn:E; [|reflexivity]. apply Qle_bool_iff in E. lra.
Qed.

Lemma pos_part_nonneg : forall x, 0 <= pos_part x.
Proof.
  intro x. unfold pos_part. destruct (Qltb x 0) eqn:E; [lra|].
  destruct (Qlt_le_dec x 0) as [L|L]; [|assumption].
  apply Qltb_spec in L. congruence.
Qed.

Lemma pos_part_cases : forall x, (x < 0 /\ pos_part x = 0) \/ (0 <= x /\ pos_part x = x).
Proof.
  intro x. unfold pos_part. destruct (Qltb x 0) eqn:E.
  - left. split; [apply Qltb_spec; assumption| reflexivity].
  - right. split; [|reflexivity]. destruct (Qlt_le_dec x 0) as [L|L]; [|assumption].
    apply Qltb_spec in L. congruence.
Qed.

Lemma pos_part_compat : forall x y, x == y -> pos_part x == pos_part y.
Proof.
  intros x y H. destruct (pos_part_cases x) as [[A ->]|[A ->]], (pos_part_cases y) as [[B ->]|[B ->]]; lra.
Qed.

Lemma reactive_fluxes_shape : forall T pi q F, reactive_fluxes T pi q = Some F ->
  length F = length pi /\ forall i, (i < length pi)%nat -> length (nth i F []) = length pi.
Proof.
  intros T pi q F H. unfold reactive_fluxes in H.
  destruct (shapes_ok T pi q) eqn:S; [|discriminate]. injection H as <-.
  apply shapes_ok_spec in S. cbv zeta in S. destruct S as (Hn & HT & Hrow & Hq).
  remember (length pi) as n eqn:En.
  assert (Hw : length (vmul pi (reverse_committors q)) = n).
  { unfold vmul. rewrite map2_length; unfold reverse_committors; rewrite ?map_length; congruence. }
  assert (L1 : length (scale_rows (vmul pi (reverse_committors q)) T) = n).
  { unfold scale_rows. rewrite map2_length; congruence. }
  unfold zero_diag, mapi. rewrite mapi_from_length. unfold scale_cols at 1. rewrite map_length.
  split; [assumption|].
  intros i Hi.
  rewrite (nth_mapi_from _ _ 0 i [] []) by (unfold scale_cols; rewrite map_length; lia).
  rewrite mapi_from_length. unfold scale_cols.
  rewrite (nth_map_in _ _ i [] []) by lia.
  rewrite map2_length.
  - unfold scale_rows. rewrite (nth_map2 _ _ _ i [] 0 []) by lia. rewrite map_length. apply Hrow; assumption.
  - unfold scale_rows. rewrite (nth_map2 _ _ _ i [] 0 []) by lia. rewrite map_length. rewrite Hrow by assumption. congruence.
Qed.

(* Clause 1: flux = pi_i q-_i T_ij q+_j off the diagonal, 0 on it *)
Lemma reactive_fluxes_entry : forall T pi q F, reactive_fluxes T pi q = Some F ->
  forall i j, (i < length pi)%nat -> (j < length pi)%nat -> ent F i j == flux_spec T pi q i j.
Proof.
  intros T pi q F H i j Hi Hj. unfold reactive_fluxes in H.
  destruct (shapes_ok T pi q) eqn:S; [|discriminate]. injection H as <-.
  apply shapes_ok_spec in S. cbv zeta in S. destruct S as (Hn & HT & Hrow & Hq).
  remember (length pi) as n eqn:En.
  assert (Hw : length (vmul pi (reverse_committors q)) = n).
  { unfold vmul. rewrite map2_length; unfold reverse_committors; rewrite ?map_length; congruence. }
  assert (L1 : length (scale_rows (vmul pi (reverse_committors q)) T) = n).
  { unfold scale_rows. rewrite map2_length; congruence. }
  assert (Lr : length (nth i (scale_rows (vmul pi (reverse_committors q)) T) []) = n).
  { unfold scale_rows. rewrite (nth_map2 _ _ _ i [] 0 []) by lia. rewrite map_length. apply Hrow; assumption. }
  unfold ent, zero_diag.
  rewrite (nth_mapi _ _ i [] []) by (unfold scale_cols; rewrite map_length; lia).
  unfold scale_cols at 1. rewrite (nth_map_in _ _ i [] []) by lia.
  rewrite (nth_mapi _ _ j 0 0) by (rewrite map2_length; lia).
  unfold flux_spec. destruct (i =? j)%nat; [reflexivity|].
  rewrite (nth_map2 _ _ _ j 0 0 0) by lia.
  unfold scale_rows. rewrite (nth_map2 _ _ _ i [] 0 []) by lia.
  rewrite (nth_map_in _ _ j 0 0) by (rewrite Hrow; lia).
  unfold vmul. rewrite (nth_map2 _ _ _ i 0 0 0) by (unfold reverse_committors; rewrite ?map_length; lia).
  unfold reverse_committors. rewrite (nth_map_in _ _ i 0 0) by lia.
  unfold vnth, ent. ring.
Qed.

Lemma net_fluxes_some : forall T pi q N, net_fluxes T pi q = Some N ->
  exists F, reactive_fluxes T pi q = Some F /\ N = clip_neg (msub F (transpose (length pi) F)).
Proof.
  intros T pi q N H. unfold net_fluxes in H.
  destruct (reactive_fluxes T pi q) as [F|]; [|discriminate]. injection H as <-. eauto.
Qed.

Lemma ent_transpose : forall n M i j, (i < n)%nat -> (j < n)%nat -> ent (transpose n M) i j = ent M j i.
Proof.
  intros n M i j Hi Hj. unfold transpose. unfold ent at 1.
  rewrite (nth_map_in _ _ i 0%nat []) by (rewrite seq_length; lia).
  rewrite (nth_map_in _ _ j 0%nat 0) by (rewrite seq_length; lia).
  rewrite !seq_nth by lia. reflexivity.
Qed.

(* Clause 2a: net flux = positive part of flux minus its transpose *)
Lemma net_fluxes_entry : forall T pi q F N,
  reactive_fluxes T pi q = Some F -> net_fluxes T pi q = Some N ->
  forall i j, (i < length pi)%nat -> (j < length pi)%nat ->
  ent N i j = pos_part (ent F i j - ent F j i).
Proof.
  intros T pi q F N HF HN i j Hi Hj.
  apply net_fluxes_some in HN as (F' & HF' & ->). rewrite HF in HF'. injection HF' as <-.
  destruct (reactive_fluxes_shape _ _ _ _ HF) as [LF LrF].
  set (n := length pi) in *.
  assert (LT : length (transpose n F) = n) by (unfold transpose; rewrite map_length, seq_length; reflexivity).
  assert (LrT : length (nth i (transpose n F) []) = n).
  { unfold transpose. rewrite (nth_map_in _ _ i 0%nat []) by (rewrite seq_length; lia).
    rewrite map_length, seq_length. reflexivity. }
  unfold ent at 1. unfold clip_neg.
  rewrite (nth_map_in _ _ i [] []) by (unfold msub; rewrite map2_length; lia).
  unfold msub. rewrite (nth_map2 _ _ _ i [] [] []) by lia.
  rewrite (nth_map_in _ _ j 0 0) by (rewrite map2_length; rewrite LrF; lia).
  rewrite (nth_map2 _ _ _ j 0 0 0) by (rewrite ?LrF; lia).
  fold (ent F i j). fold (ent (transpose n F) i j). rewrite ent_transpose by assumption.
  reflexivity.
Qed.

(* the sparse branch (maximum(0)) computes the same matrix as the dense one (where(net < 0) := 0) *)
Lemma qmax0_pos_part : forall x, qmax0 x = pos_part x.
Proof. intro x. unfold qmax0, pos_part, Qltb. destruct (Qle_bool 0 x); reflexivity. Qed.

Lemma net_fluxes_sparse_eq : forall T pi q, net_fluxes_sparse T pi q = net_fluxes T pi q.
Proof.
  intros T pi q. unfold net_fluxes_sparse, net_fluxes. destruct (reactive_fluxes T pi q) as [F|]; [|reflexivity].
  f_equal. unfold clip_neg. apply map_ext. intro row. apply map_ext. intro x. apply qmax0_pos_part.
Qed.

(* ================================================================= function-level flux algebra *)
Section Algebra.
  Variable n : nat.
  Variable T : list (list Q).
  Variables pi q : list Q.
  Variables src snk : list nat.

  Definition stochastic : Prop :=
    (forall i, (i < n)%nat -> sumn (fun j => ent T i j) n == 1) /\
    (forall i j, (i < n)%nat -> (j < n)%nat -> 0 <= ent T i j).

  Definition reversible : Prop :=
    (forall i j, (i < n)%nat -> (j < n)%nat -> vnth pi i * ent T i j == vnth pi j * ent T j i) /\
    (forall i, (i < n)%nat -> 0 <= vnth pi i).

  (* the committor equations (the conclusion of C07's committor_system_sound and committor_bounds) *)
  Definition committor_eqs : Prop :=
    (forall i, (i < n)%nat -> In i src -> vnth q i == 0) /\
    (forall i, (i < n)%nat -> In i snk -> vnth q i == 1) /\
    (forall i, (i < n)%nat -> ~ In i src -> ~ In i snk ->
       vnth q i == sumn (fun j => ent T i j * vnth q j) n) /\
    (forall i, (i < n)%nat -> 0 <= vnth q i <= 1).

  Definition sets_ok : Prop :=
    src <> [] /\ snk <> [] /\ NoDup (src ++ snk) /\ (forall i, In i (src ++ snk) -> (i < n)%nat).

  Definition intermediate (i : nat) : Prop := (i < n)%nat /\ ~ In i src /\ ~ In i snk.

  Let f := flux_spec T pi q.

  Lemma flux_spec_nonneg : stochastic -> reversible -> committor_eqs ->
    forall i j, (i < n)%nat -> (j < n)%nat -> 0 <= f i j.
  Proof.
    intros [_ HT] [_ Hpi] (_ & _ & _ & Hq) i j Hi Hj. unfold f, flux_spec.
    destruct (i =? j)%nat; [lra|].
    specialize (HT i j Hi Hj). specialize (Hpi i Hi).
    pose proof (Hq i Hi) as [Hq0 Hq1]. pose proof (Hq j Hj) as [Hq0' _].
    assert (0 <= 1 - vnth q i) by lra.
    repeat apply Qmult_le_0_compat; assumption.
  Qed.

  (* total flux out of an intermediate state *)
  Lemma flux_out_closed : stochastic -> committor_eqs -> forall i, intermediate i ->
    sumn (fun j => f i j) n == vnth pi i * vnth q i * (1 - vnth q i) * (1 - ent T i i).
  Proof.
    intros _ (_ & _ & Hc & _) i (Hi & Hs & Hk). unfold f, flux_spec.
    rewrite (sumn_skip n i (fun j => vnth pi i * (1 - vnth q i) * ent T i j * vnth q j) Hi).
    rewrite (sumn_ext n _ (fun j => (vnth pi i * (1 - vnth q i)) * (ent T i j * vnth q j)))
      by (intros; ring).
    rewrite sumn_scale. rewrite <- (Hc i Hi Hs Hk). ring.
  Qed.

  (* total flux into an intermediate state: detailed balance turns it into the same expression *)
  Lemma flux_in_closed : stochastic -> reversible -> committor_eqs -> forall i, intermediate i ->
    sumn (fun j => f j i) n == vnth pi i * vnth q i * (1 - vnth q i) * (1 - ent T i i).
  Proof.
    intros [Hrow _] [Hdb _] (_ & _ & Hc & _) i (Hi & Hs & Hk). unfold f, flux_spec.
    rewrite (sumn_ext n _ (fun j => if (i =? j)%nat then 0
                                    else vnth q i * (vnth pi i * ent T i j) * (1 - vnth q j))).
    2:{ intros j Hj. rewrite (Nat.eqb_sym j i). destruct (i =? j)%nat; [reflexivity|].
        rewrite (Hdb i j Hi Hj). ring. }
    rewrite (sumn_skip n i (fun j => vnth q i * (vnth pi i * ent T i j) * (1 - vnth q j)) Hi).
    rewrite (sumn_ext n _ (fun j => (vnth q i * vnth pi i) * ent T i j
                                    - (vnth q i * vnth pi i) * (ent T i j * vnth q j)))
      by (intros; ring).
    rewrite sumn_minus, !sumn_scale. rewrite (Hrow i Hi). rewrite <- (Hc i Hi Hs Hk). ring.
  Qed.

  Lemma flux_spec_conserved : stochastic -> reversible -> committor_eqs -> forall i, intermediate i ->
    sumn (fun j => f i j) n == sumn (fun j => f j i) n.
  Proof.
    intros HS HR HC i Hint. rewrite flux_out_closed, flux_in_closed by assumption. reflexivity.
  Qed.

  Lemma flux_through_state : stochastic -> reversible -> committor_eqs -> forall i, intermediate i ->
    sumn (fun j => f i j) n == vnth pi i * vnth q i * (1 - vnth q i) * (1 - ent T i i) /\
    sumn (fun j => f j i) n == vnth pi i * vnth q i * (1 - vnth q i) * (1 - ent T i i).
  Proof. intros HS HR HC i Hi. split; [apply flux_out_closed| apply flux_in_closed]; assumption. Qed.

  (* under detailed balance the antisymmetric part of the flux is pi_i T_ij (q_j - q_i):
     net flux runs from lower to higher committor *)
  Lemma flux_antisym_closed : reversible -> forall i j, (i < n)%nat -> (j < n)%nat ->
    f i j - f j i == vnth pi i * ent T i j * (vnth q j - vnth q i).
  Proof.
    intros [Hdb _] i j Hi Hj. unfold f, flux_spec. rewrite (Nat.eqb_sym j i).
    destruct (Nat.eqb_spec i j) as [->|Hne]; [ring|].
    setoid_replace (vnth pi j * (1 - vnth q j) * ent T j i * vnth q i)
      with ((vnth pi j * ent T j i) * ((1 - vnth q j) * vnth q i)) by ring.
    rewrite <- (Hdb i j Hi Hj). ring.
  Qed.

  Lemma flux_into_source_zero : committor_eqs -> forall i j, (i < n)%nat -> In i src -> f j i == 0.
  Proof.
    intros (H0 & _) i j Hi Hs. unfold f, flux_spec. destruct (j =? i)%nat; [reflexivity|].
    rewrite (H0 i Hi Hs). ring.
  Qed.

  Lemma flux_out_of_sink_zero : committor_eqs -> forall i j, (i < n)%nat -> In i snk -> f i j == 0.
  Proof.
    intros (_ & H1 & _) i j Hi Hs. unfold f, flux_spec. destruct (i =? j)%nat; [reflexivity|].
    rewrite (H1 i Hi Hs). ring.
  Qed.
End Algebra.

(* ================================================================= generic balance argument *)
(* A square array of numbers that is balanced at every state outside src ++ snk, has nothing entering
   src and nothing leaving snk: what leaves src is what enters snk. *)
Lemma balance_total : forall n (M : nat -> nat -> Q) src snk,
  NoDup (src ++ snk) -> (forall i, In i (src ++ snk) -> (i < n)%nat) ->
  (forall i, (i < n)%nat -> ~ In i src -> ~ In i snk ->
     sumn (fun j => M i j) n == sumn (fun j => M j i) n) ->
  (forall i, In i src -> sumn (fun j => M j i) n == 0) ->
  (forall i, In i snk -> sumn (fun j => M i j) n == 0) ->
  suml (fun i => sumn (fun j => M i j) n) src == suml (fun i => sumn (fun j => M j i) n) snk.
Proof.
  intros n M src snk Hnd Hlt Hbal Hsrc Hsnk.
  set (g := fun i => sumn (fun j => M i j) n - sumn (fun j => M j i) n).
  assert (Htot : sumn g n == 0).
  { unfold g. rewrite sumn_minus. rewrite (sumn_swap n n (fun i j => M j i)). ring. }
  assert (Hsup : sumn g n == suml g (src ++ snk)).
  { apply sumn_support; [assumption|assumption|].
    intros i Hi Hni. unfold g. rewrite Hbal; [ring|assumption| |];
      intro; apply Hni; apply in_or_app; [left|right]; assumption. }
  rewrite suml_app in Hsup.
  assert (H1 : suml g src == suml (fun i => sumn (fun j => M i j) n) src).
  { apply suml_ext. intros i Hi. unfold g. rewrite (Hsrc i Hi). ring. }
  assert (H2 : suml g snk == - suml (fun i => sumn (fun j => M j i) n) snk).
  { rewrite <- (suml_ext snk (fun i => -1 * sumn (fun j => M j i) n) g).
    - clear. induction snk as [|a l IH]; simpl; [ring| rewrite IH; ring].
    - intros i Hi. unfold g. rewrite (Hsnk i Hi). ring. }
  rewrite H1, H2, Htot in Hsup. lra.
Qed.

(* ================================================================= property theorems on the model *)
Section Model.
  Variable T : list (list Q).
  Variables pi q : list Q.
  Variables F N : list (list Q).
  Hypothesis HF : reactive_fluxes T pi q = Some F.
  Hypothesis HN : net_fluxes T pi q = Some N.
  Let n := length pi.

  Lemma net_entry_spec : forall i j, (i < n)%nat -> (j < n)%nat ->
    ent N i j == pos_part (flux_spec T pi q i j - flux_spec T pi q j i).
  Proof.
    intros i j Hi Hj. rewrite (net_fluxes_entry _ _ _ _ _ HF HN i j Hi Hj).
    apply pos_part_compat.
    rewrite (reactive_fluxes_entry _ _ _ _ HF i j Hi Hj), (reactive_fluxes_entry _ _ _ _ HF j i Hj Hi).
    reflexivity.
  Qed.

  (* Clause 2b: at most one direction carries net flux; net flux is non-negative and antisymmetrises f *)
  Lemma net_one_direction : forall i j, (i < n)%nat -> (j < n)%nat ->
    (ent N i j == 0 \/ ent N j i == 0) /\ 0 <= ent N i j /\
    ent N i j - ent N j i == ent F i j - ent F j i.
  Proof.
    intros i j Hi Hj.
    rewrite (net_fluxes_entry _ _ _ _ _ HF HN i j Hi Hj), (net_fluxes_entry _ _ _ _ _ HF HN j i Hj Hi).
    set (x := ent F i j). set (y := ent F j i).
    destruct (pos_part_cases (x - y)) as [[A ->]|[A ->]], (pos_part_cases (y - x)) as [[B ->]|[B ->]];
      repeat split; try lra; try (left; lra); try (right; lra).
  Qed.

  Lemma net_diag_zero : forall i, (i < n)%nat -> ent N i i == 0.
  Proof.
    intros i Hi. rewrite (net_fluxes_entry _ _ _ _ _ HF HN i i Hi Hi).
    destruct (pos_part_cases (ent F i i - ent F i i)) as [[A ->]|[A ->]]; lra.
  Qed.

  (* closed form of the net flux of a reversible chain *)
  Lemma net_flux_closed_form : reversible n T pi -> forall i j, (i < n)%nat -> (j < n)%nat ->
    ent N i j == pos_part (vnth pi i * ent T i j * (vnth q j - vnth q i)).
  Proof.
    intros HRev i j Hi Hj. rewrite (net_entry_spec i j Hi Hj). apply pos_part_compat.
    apply (flux_antisym_closed n T pi q HRev i j Hi Hj).
  Qed.

  Variables src snk : list nat.
  Hypothesis HS : stochastic n T.
  Hypothesis HR : reversible n T pi.
  Hypothesis HC : committor_eqs n T q src snk.

  (* Clause 3 (gross): flux into an intermediate state = flux out of it *)
  Lemma flux_conserved : forall i, intermediate n src snk i -> outflow F n i == inflow F n i.
  Proof.
    intros i Hint. unfold outflow, inflow. destruct Hint as (Hi & Hint).
    rewrite (sumn_ext n (fun j => ent F i j) (fun j => flux_spec T pi q i j))
      by (intros j Hj; apply (reactive_fluxes_entry _ _ _ _ HF); assumption).
    rewrite (sumn_ext n (fun j => ent F j i) (fun j => flux_spec T pi q j i))
      by (intros j Hj; apply (reactive_fluxes_entry _ _ _ _ HF); assumption).
    apply (flux_spec_conserved n T pi q src snk HS HR HC). split; assumption.
  Qed.

  (* Clause 3 (net): net flux into an intermediate state = net flux out of it *)
  Lemma net_flux_conserved : forall i, intermediate n src snk i -> outflow N n i == inflow N n i.
  Proof.
    intros i Hint. pose proof (flux_conserved i Hint) as Hc. destruct Hint as (Hi & _).
    unfold outflow, inflow in *.
    assert (E : sumn (fun j => ent N i j) n - sumn (fun j => ent N j i) n
                == sumn (fun j => ent F i j) n - sumn (fun j => ent F j i) n).
    { rewrite <- !sumn_minus. apply sumn_ext. intros j Hj.
      apply (net_one_direction i j Hi Hj). }
    lra.
  Qed.

  Lemma F_nonneg : forall i j, (i < n)%nat -> (j < n)%nat -> 0 <= ent F i j.
  Proof.
    intros i j Hi Hj. rewrite (reactive_fluxes_entry _ _ _ _ HF i j Hi Hj).
    apply (flux_spec_nonneg n T pi q src snk HS HR HC); assumption.
  Qed.

  (* Clause 4: nothing flows into sources ... *)
  Lemma no_flux_into_sources : forall i j, (i < n)%nat -> (j < n)%nat -> In i src ->
    ent F j i == 0 /\ ent N j i == 0.
  Proof.
    intros i j Hi Hj Hs.
    assert (Z : ent F j i == 0).
    { rewrite (reactive_fluxes_entry _ _ _ _ HF j i Hj Hi).
      apply (flux_into_source_zero n T pi q src snk HC); assumption. }
    split; [assumption|].
    rewrite (net_fluxes_entry _ _ _ _ _ HF HN j i Hj Hi).
    pose proof (F_nonneg i j Hi Hj).
    destruct (pos_part_cases (ent F j i - ent F i j)) as [[A ->]|[A ->]]; lra.
  Qed.

  (* ... or out of sinks *)
  Lemma no_flux_out_of_sinks : forall i j, (i < n)%nat -> (j < n)%nat -> In i snk ->
    ent F i j == 0 /\ ent N i j == 0.
  Proof.
    intros i j Hi Hj Hs.
    assert (Z : ent F i j == 0).
    { rewrite (reactive_fluxes_entry _ _ _ _ HF i j Hi Hj).
      apply (flux_out_of_sink_zero n T pi q src snk HC); assumption. }
    split; [assumption|].
    rewrite (net_fluxes_entry _ _ _ _ _ HF HN i j Hi Hj).
    pose proof (F_nonneg j i Hj Hi).
    destruct (pos_part_cases (ent F i j - ent F j i)) as [[A ->]|[A ->]]; lra.
  Qed.

  Hypothesis HSets : sets_ok n src snk.

  (* Clause 5: total outflow from the sources = total inflow to the sinks (net and gross) *)
  Lemma source_out_eq_sink_in :
    suml (outflow N n) src == suml (inflow N n) snk /\
    suml (outflow F n) src == suml (inflow F n) snk.
  Proof.
    destruct HSets as (_ & _ & Hnd & Hlt).
    assert (Hsrc : forall i, In i src -> (i < n)%nat) by (intros; apply Hlt; apply in_or_app; left; assumption).
    assert (Hsnk : forall i, In i snk -> (i < n)%nat) by (intros; apply Hlt; apply in_or_app; right; assumption).
    split.
    - apply (balance_total n (ent N) src snk Hnd Hlt).
      + intros i Hi H1 H2. apply net_flux_conserved. repeat split; assumption.
      + intros i Hi. apply sumn_zero. intros j Hj. apply no_flux_into_sources; auto.
      + intros i Hi. apply sumn_zero. intros j Hj. apply no_flux_out_of_sinks; auto.
    - apply (balance_total n (ent F) src snk Hnd Hlt).
      + intros i Hi H1 H2. apply flux_conserved. repeat split; assumption.
      + intros i Hi. apply sumn_zero. intros j Hj. apply no_flux_into_sources; auto.
      + intros i Hi. apply sumn_zero. intros j Hj. apply no_flux_out_of_sinks; auto.
  Qed.
End Model.

(* ================================================================= reactive populations *)
Lemma sumn_shift : forall n f, sumn f (S n) == f 0%nat + sumn (fun i => f (S i)) n.
Proof.
  induction n as [|n IH]; intros f.
  - simpl. ring.
  - change (sumn f (S (S n))) with (sumn f (S n) + f (S n)). rewrite IH. simpl. ring.
Qed.

Lemma qsum_sumn : forall v, qsum v == sumn (vnth v) (length v).
Proof.
  induction v as [|x v IH].
  - reflexivity.
  - change (length (x :: v)) with (S (length v)). rewrite sumn_shift.
    simpl qsum. rewrite IH. unfold vnth. simpl. reflexivity.
Qed.

Lemma qsum_div : forall d s, ~ s == 0 -> qsum (map (fun x => x / s) d) == qsum d / s.
Proof.
  intros d s Hs. induction d as [|x d IH]; simpl.
  - field. assumption.
  - rewrite IH. field. assumption.
Qed.

Definition dens_spec (pi q : list Q) (i : nat) : Q := vnth pi i * vnth q i * (1 - vnth q i).
Definition dens_total (pi q : list Q) : Q := sumn (dens_spec pi q) (length pi).

Lemma densities_length : forall pi q, length q = length pi -> length (densities pi q) = length pi.
Proof.
  intros pi q H. unfold densities, vmul, reverse_committors.
  rewrite map2_length; rewrite map2_length; rewrite ?map_length; congruence.
Qed.

Lemma densities_entry : forall pi q i, length q = length pi -> (i < length pi)%nat ->
  vnth (densities pi q) i == dens_spec pi q i.
Proof.
  intros pi q i H Hi. unfold vnth, densities, vmul, reverse_committors.
  assert (L : length (map2 Qmult pi q) = length pi) by (apply map2_length; congruence).
  rewrite (nth_map2 _ _ _ i 0 0 0) by (rewrite ?map_length; lia).
  rewrite (nth_map2 _ _ _ i 0 0 0) by lia.
  rewrite (nth_map_in _ _ i 0 0) by lia. unfold dens_spec, vnth. reflexivity.
Qed.

Lemma densities_total : forall pi q, length q = length pi -> qsum (densities pi q) == dens_total pi q.
Proof.
  intros pi q H. rewrite qsum_sumn, densities_length by assumption. unfold dens_total.
  apply sumn_ext. intros i Hi. apply densities_entry; assumption.
Qed.

Lemma rpop_some : forall pi q r, reactive_populations pi q = Some r ->
  (1 <= length pi)%nat /\ length q = length pi /\ ~ dens_total pi q == 0 /\
  r = map (fun x => x / qsum (densities pi q)) (densities pi q).
Proof.
  intros pi q r H. unfold reactive_populations in H.
  destruct ((1 <=? length pi)%nat && (length q =? length pi)%nat) eqn:S; [|discriminate].
  apply andb_true_iff in S as [S1 S2]. apply Nat.leb_le in S1. apply Nat.eqb_eq in S2.
  destruct (Qeq_bool (qsum (densities pi q)) 0) eqn:Z; [discriminate|]. injection H as <-.
  repeat split; try assumption.
  intro E. rewrite <- densities_total in E by assumption.
  apply Qeq_bool_iff in E. congruence.
Qed.

(* definition of the reactive populations *)
Lemma rpop_entry : forall pi q r, reactive_populations pi q = Some r ->
  length r = length pi /\ ~ dens_total pi q == 0 /\
  forall i, (i < length pi)%nat -> vnth r i == dens_spec pi q i / dens_total pi q.
Proof.
  intros pi q r H. apply rpop_some in H as (Hn & Hq & Hz & ->).
  split; [rewrite map_length; apply densities_length; assumption|].
  split; [assumption|]. intros i Hi. unfold vnth.
  rewrite (nth_map_in _ _ i 0 0) by (rewrite densities_length; assumption).
  fold (vnth (densities pi q) i). rewrite densities_entry, densities_total by assumption.
  reflexivity.
Qed.

(* ... they sum to one *)
Lemma rpop_sums_to_one : forall pi q r, reactive_populations pi q = Some r -> qsum r == 1.
Proof.
  intros pi q r H. apply rpop_some in H as (Hn & Hq & Hz & ->).
  assert (Hz' : ~ qsum (densities pi q) == 0) by (rewrite densities_total; assumption).
  rewrite qsum_div by assumption. field. assumption.
Qed.

(* ... are non-negative when pi >= 0 and 0 <= q <= 1 *)
Lemma rpop_nonneg : forall pi q r, reactive_populations pi q = Some r ->
  (forall i, (i < length pi)%nat -> 0 <= vnth pi i) ->
  (forall i, (i < length pi)%nat -> 0 <= vnth q i <= 1) ->
  forall i, (i < length pi)%nat -> 0 <= vnth r i.
Proof.
  intros pi q r H Hpi Hq i Hi. apply rpop_entry in H as (_ & Hz & He). rewrite (He i Hi).
  assert (Hd : forall k, (k < length pi)%nat -> 0 <= dens_spec pi q k).
  { intros k Hk. unfold dens_spec. specialize (Hpi k Hk). destruct (Hq k Hk).
    assert (0 <= 1 - vnth q k) by lra. repeat apply Qmult_le_0_compat; assumption. }
  assert (Hs : 0 <= dens_total pi q) by (apply sumn_nonneg; assumption).
  assert (Hpos : 0 < dens_total pi q).
  { destruct (Qlt_le_dec 0 (dens_total pi q)) as [L|L]; [assumption|]. exfalso. apply Hz. lra. }
  apply Qle_shift_div_l; [assumption|]. specialize (Hd i Hi). lra.
Qed.

(* ... and vanish wherever the committor is 0 or 1, in particular on sources and sinks *)
Lemma rpop_zero_on_sets : forall T pi q r src snk, reactive_populations pi q = Some r ->
  committor_eqs (length pi) T q src snk ->
  forall i, (i < length pi)%nat -> In i src \/ In i snk -> vnth r i == 0.
Proof.
  intros T pi q r src snk H (H0 & H1 & _) i Hi Hin. apply rpop_entry in H as (_ & Hz & He).
  rewrite (He i Hi). unfold dens_spec.
  destruct Hin as [Hin|Hin]; [rewrite (H0 i Hi Hin)| rewrite (H1 i Hi Hin)]; field; assumption.
Qed.

(* the model refuses exactly when no probability vector can be formed *)
Lemma rpop_none_iff : forall pi q, (1 <= length pi)%nat -> length q = length pi ->
  (reactive_populations pi q = None <-> dens_total pi q == 0).
Proof.
  intros pi q Hn Hq. unfold reactive_populations.
  apply Nat.leb_le in Hn. rewrite Hn. rewrite (proj2 (Nat.eqb_eq _ _) Hq). cbn [andb].
  rewrite <- densities_total by assumption.
  destruct (Qeq_bool (qsum (densities pi q)) 0) eqn:Z.
  - apply Qeq_bool_iff in Z. split; [intros _; assumption| reflexivity].
  - split; [discriminate|]. intro E. apply Qeq_bool_iff in E. congruence.
Qed.

(* ================================================================= soundness of the executable tests *)
Lemma memb_In : forall i l, memb i l = true <-> In i l.
Proof.
  intros i l. unfold memb. rewrite existsb_exists. split.
  - intros (x & Hx & E). apply Nat.eqb_eq in E. subst. assumption.
  - intros H. exists i. split; [assumption| apply Nat.eqb_refl].
Qed.

Lemma nodupb_NoDup : forall l, nodupb l = true -> NoDup l.
Proof.
  induction l as [|x l IH]; intros H; [constructor|].
  simpl in H. apply andb_true_iff in H as [H1 H2]. constructor; [|apply IH; assumption].
  intro Hin. apply memb_In in Hin. rewrite Hin in H1. discriminate.
Qed.

Lemma forallb_seq : forall n p, forallb p (seq 0 n) = true -> forall i, (i < n)%nat -> p i = true.
Proof. intros n p H i Hi. rewrite forallb_forall in H. apply H. apply in_seq. lia. Qed.

Lemma all2_spec : forall n p, all2 n p = true -> forall i j, (i < n)%nat -> (j < n)%nat -> p i j = true.
Proof.
  intros n p H i j Hi Hj. unfold all2 in H.
  apply (forallb_seq n (p i)); [|assumption]. apply (forallb_seq n _ H i Hi).
Qed.

Lemma sets_ok_b_sound : forall n src snk, sets_ok_b n src snk = true -> sets_ok n src snk.
Proof.
  intros n src snk H. unfold sets_ok_b in H.
  apply andb_true_iff in H as [H H4]. apply andb_true_iff in H as [H H3].
  apply andb_true_iff in H as [H1 H2].
  repeat split.
  - intro E. subst. discriminate.
  - intro E. subst. discriminate.
  - apply nodupb_NoDup; assumption.
  - intros i Hi. rewrite forallb_forall in H4. apply Nat.ltb_lt. apply H4; assumption.
Qed.

Lemma stochastic_b_sound : forall n T, stochastic_b n T = true -> stochastic n T.
Proof.
  intros n T H. unfold stochastic_b in H. apply andb_true_iff in H as [H1 H2]. split.
  - intros i Hi. apply Qeq_bool_iff. apply (forallb_seq n _ H1 i Hi).
  - intros i j Hi Hj. apply Qle_bool_iff. apply (all2_spec n _ H2 i j Hi Hj).
Qed.

Lemma reversible_b_sound : forall n T pi, reversible_b n T pi = true -> reversible n T pi.
Proof.
  intros n T pi H. unfold reversible_b in H. apply andb_true_iff in H as [H1 H2]. split.
  - intros i j Hi Hj. apply Qeq_bool_iff. apply (all2_spec n _ H1 i j Hi Hj).
  - intros i Hi. apply Qle_bool_iff. apply (forallb_seq n _ H2 i Hi).
Qed.

Lemma committor_b_sound : forall n T src snk q,
  NoDup (src ++ snk) -> committor_b n T src snk q = true -> committor_eqs n T q src snk.
Proof.
  intros n T src snk q Hnd H. unfold committor_b in H. apply andb_true_iff in H as [H1 H2].
  assert (Hdisj : forall i, In i src -> In i snk -> False).
  { intros i Hs Hk. clear - Hnd Hs Hk. induction src as [|a l IH]; [contradiction|].
    simpl in Hnd. inversion Hnd as [|? ? Hn Hnd']; subst. destruct Hs as [->|Hs].
    - apply Hn. apply in_or_app. right. assumption.
    - apply IH; assumption. }
  repeat split.
  - intros i Hi Hs. pose proof (forallb_seq n _ H1 i Hi) as E. cbv beta in E.
    rewrite (proj2 (memb_In i src) Hs) in E. apply Qeq_bool_iff. assumption.
  - intros i Hi Hk. pose proof (forallb_seq n _ H1 i Hi) as E. cbv beta in E.
    destruct (memb i src) eqn:M; [apply memb_In in M; exfalso; eauto|].
    rewrite (proj2 (memb_In i snk) Hk) in E. apply Qeq_bool_iff. assumption.
  - intros i Hi Hs Hk. pose proof (forallb_seq n _ H1 i Hi) as E. cbv beta in E.
    destruct (memb i src) eqn:M; [apply memb_In in M; contradiction|].
    destruct (memb i snk) eqn:M'; [apply memb_In in M'; contradiction|].
    apply Qeq_bool_iff. assumption.
  - pose proof (forallb_seq n _ H2 i H) as E. cbv beta in E.
    apply andb_true_iff in E as [E _]. apply Qle_bool_iff. assumption.
  - pose proof (forallb_seq n _ H2 i H) as E. cbv beta in E.
    apply andb_true_iff in E as [_ E]. apply Qle_bool_iff. assumption.
Qed.

Lemma hyps_b_sound : forall T pi q src snk, hyps_b T pi q src snk = true ->
  let n := length pi in
  shapes_ok T pi q = true /\ sets_ok n src snk /\ stochastic n T /\ reversible n T pi /\
  committor_eqs n T q src snk.
Proof.
  intros T pi q src snk H n. unfold hyps_b in H. fold n in H.
  apply andb_true_iff in H as [H H5]. apply andb_true_iff in H as [H H4].
  apply andb_true_iff in H as [H H3]. apply andb_true_iff in H as [H1 H2].
  pose proof (sets_ok_b_sound _ _ _ H2) as HS.
  split; [assumption|]. split; [assumption|].
  split; [apply stochastic_b_sound; assumption|].
  split; [apply reversible_b_sound; assumption|].
  apply committor_b_sound; [apply HS| assumption].
Qed.

(* When the executable tests pass (as the harness establishes for every generated case) the model
   returns fluxes and every clause of the property holds for them. *)
Theorem checked_case_meets_property : forall T pi q src snk,
  hyps_b T pi q src snk = true ->
  let n := length pi in
  exists F N, reactive_fluxes T pi q = Some F /\ net_fluxes T pi q = Some N /\
    (forall i j, (i < n)%nat -> (j < n)%nat -> ent F i j == flux_spec T pi q i j) /\
    (forall i j, (i < n)%nat -> (j < n)%nat ->
       ent N i j = pos_part (ent F i j - ent F j i) /\ (ent N i j == 0 \/ ent N j i == 0)) /\
    (forall i, intermediate n src snk i -> outflow N n i == inflow N n i) /\
    (forall i j, (i < n)%nat -> (j < n)%nat -> In i src -> ent N j i == 0) /\
    (forall i j, (i < n)%nat -> (j < n)%nat -> In i snk -> ent N i j == 0) /\
    suml (outflow N n) src == suml (inflow N n) snk /\
    (forall r, reactive_populations pi q = Some r ->
       qsum r == 1 /\ forall i, (i < n)%nat -> 0 <= vnth r i /\ (In i src \/ In i snk -> vnth r i == 0)).
Proof.
  intros T pi q src snk H n. apply hyps_b_sound in H. cbv zeta in H. fold n in H.
  destruct H as (Hsh & Hsets & HS & HR & HC).
  assert (HF : exists F, reactive_fluxes T pi q = Some F).
  { unfold reactive_fluxes. rewrite Hsh. eauto. }
  destruct HF as [F HF].
  assert (HN : exists N, net_fluxes T pi q = Some N).
  { unfold net_fluxes. rewrite HF. eauto. }
  destruct HN as [N HN].
  exists F, N. split; [assumption|]. split; [assumption|].
  split; [apply (reactive_fluxes_entry _ _ _ _ HF)|].
  split.
  { intros i j Hi Hj. split; [apply (net_fluxes_entry _ _ _ _ _ HF HN); assumption|].
    apply (net_one_direction T pi q F N HF HN i j Hi Hj). }
  split; [apply (net_flux_conserved T pi q F N HF HN src snk HS HR HC)|].
  split; [intros i j Hi Hj Hin; apply (no_flux_into_sources T pi q F N HF HN src snk HS HR HC i j Hi Hj Hin)|].
  split; [intros i j Hi Hj Hin; apply (no_flux_out_of_sinks T pi q F N HF HN src snk HS HR HC i j Hi Hj Hin)|].
  split; [apply (source_out_eq_sink_in T pi q F N HF HN src snk HS HR HC Hsets)|].
  intros r Hr. split; [apply (rpop_sums_to_one _ _ _ Hr)|].
  intros i Hi. split.
  - apply (rpop_nonneg pi q r Hr); [apply HR| apply HC| assumption].
  - apply (rpop_zero_on_sets T pi q r src snk Hr HC i Hi).
Qed.
