(* C14: the distributed k-centers iteration refines the serial one on tie-free data; the striped
   maximum is the global maximum (ties or not). *)
From Coq Require Import List ZArith QArith Bool Arith Lia Permutation.
From EV Require Import Cluster Mpi MpiBase.
Import ListNotations.
Local Open Scope nat_scope.

(* ------------------------------------------------------------------ order facts about Qlt_b *)
Lemma Qlt_b_asym : forall a b : Q, Qlt_b a b = true -> Qlt_b b a = false.
Proof.
  intros a b H. unfold Qlt_b in *. apply negb_true_iff in H. apply negb_false_iff.
  apply Qle_bool_iff. destruct (Qlt_le_dec a b) as [Hlt|Hle].
  - apply Qlt_le_weak; assumption.
  - apply Qle_bool_iff in Hle. congruence.
Qed.

Lemma Qlt_b_true : forall a b : Q, Qlt_b a b = true <-> (a < b)%Q.
Proof.
  intros a b. unfold Qlt_b. rewrite negb_true_iff. split.
  - intros H. apply Qnot_le_lt. intros Hle. apply Qle_bool_iff in Hle. congruence.
  - intros H. destruct (Qle_bool b a) eqn:E; [|reflexivity].
    apply Qle_bool_iff in E. exfalso. apply (Qlt_not_le _ _ H). assumption.
Qed.

Lemma Qlt_b_false : forall a b : Q, Qlt_b a b = false <-> (b <= a)%Q.
Proof.
  intros a b. unfold Qlt_b. rewrite negb_false_iff. apply Qle_bool_iff.
Qed.

Lemma Qlt_b_compat_r : forall c v w : Q, (v == w)%Q -> Qlt_b c v = Qlt_b c w.
Proof.
  intros c v w H. destruct (Qlt_b c v) eqn:E1; destruct (Qlt_b c w) eqn:E2; try reflexivity.
  - apply Qlt_b_true in E1. apply Qlt_b_false in E2. rewrite H in E1. exfalso. apply (Qlt_not_le _ _ E1 E2).
  - apply Qlt_b_true in E2. apply Qlt_b_false in E1. rewrite H in E1. exfalso. apply (Qlt_not_le _ _ E2 E1).
Qed.

(* ------------------------------------------------------------------ unique maximum *)
Definition below (m : fr) (x : fr) : Prop := Qlt_b (dist x) (dist m) = true.
(* m is THE farthest frame of l: every other entry is strictly closer *)
Definition umax (m : fr) (l : list fr) : Prop :=
  exists l1 l2, l = l1 ++ m :: l2 /\ Forall (below m) (l1 ++ l2).

Lemma argmax_from_below : forall m l2, Forall (below m) l2 -> argmax_from m l2 = m.
Proof.
  intros m l2; induction l2 as [|x r IH]; intros H; [reflexivity|].
  inversion H as [|? ? Hx Hr]; subst. cbn [argmax_from].
  rewrite (Qlt_b_asym _ _ Hx). apply IH; assumption.
Qed.

Lemma argmax_from_reach : forall m l2 l1 b, below m b -> Forall (below m) l1 ->
  argmax_from b (l1 ++ m :: l2) = argmax_from m l2.
Proof.
  intros m l2 l1; induction l1 as [|x r IH]; intros b Hb H.
  - cbn [app argmax_from]. unfold below in Hb. rewrite Hb. reflexivity.
  - inversion H as [|? ? Hx Hr]; subst. cbn [app argmax_from].
    destruct (Qlt_b (dist b) (dist x)); apply IH; assumption.
Qed.

Lemma argmax_umax : forall m l, umax m l -> argmax l = Some m.
Proof.
  intros m l [l1 [l2 [-> H]]]. apply Forall_app in H. destruct H as [H1 H2].
  destruct l1 as [|b l1]; cbn [app argmax].
  - rewrite argmax_from_below by assumption. reflexivity.
  - inversion H1; subst. rewrite argmax_from_reach by assumption.
    rewrite argmax_from_below by assumption. reflexivity.
Qed.

Lemma umax_perm : forall m l l', Permutation l l' -> umax m l -> umax m l'.
Proof.
  intros m l l' Hp [l1 [l2 [-> H]]].
  assert (Hin : In m l') by (eapply Permutation_in; [exact Hp|apply in_or_app; right; left; reflexivity]).
  apply in_split in Hin. destruct Hin as [a [b ->]].
  exists a, b. split; [reflexivity|].
  apply Permutation_app_inv in Hp.
  eapply Permutation_Forall; eassumption.
Qed.

Lemma umax_concat : forall (m : fr) ll l1 l2, concat ll = l1 ++ m :: l2 ->
  exists L1 a b L2, ll = L1 ++ (a ++ m :: b) :: L2 /\ l1 = concat L1 ++ a /\ l2 = b ++ concat L2.
Proof.
  intros m ll; induction ll as [|x r IH]; intros l1 l2 H.
  - destruct l1; discriminate.
  - cbn [concat] in H. apply app_eq_app in H. destruct H as [l [[Hx Hr]|[Hl Hr]]].
    + destruct l as [|y l'].
      * cbn [app] in Hr. rewrite app_nil_r in Hx. subst x.
        destruct (IH [] l2 (eq_sym Hr)) as [L1 [a [b [L2 [E1 [E2 E3]]]]]].
        exists (l1 :: L1), a, b, L2. subst r. split; [reflexivity|]. split; [|assumption].
        cbn [concat]. rewrite <- app_assoc, <- E2, app_nil_r. reflexivity.
      * cbn [app] in Hr. inversion Hr; subst y l2. subst x.
        exists [], l1, l', r. repeat split; reflexivity.
    + destruct (IH l l2 Hr) as [L1 [a [b [L2 [E1 [E2 E3]]]]]].
      exists (x :: L1), a, b, L2. subst r. split; [reflexivity|]. split; [|assumption].
      cbn [concat]. rewrite <- app_assoc, <- E2. assumption.
Qed.

(* ------------------------------------------------------------------ np.argmax on a local array *)
Lemma argmax_idx_from_below : forall v l2 i j, Forall (fun x => Qlt_b x v = true) l2 ->
  argmax_idx_from i v j l2 = (i, v).
Proof.
  intros v l2; induction l2 as [|x r IH]; intros i j H; [reflexivity|].
  inversion H as [|? ? Hx Hr]; subst. cbn [argmax_idx_from].
  rewrite (Qlt_b_asym _ _ Hx). apply IH; assumption.
Qed.

Lemma argmax_idx_from_reach : forall v l2 l1 bi bv i, Qlt_b bv v = true ->
  Forall (fun x => Qlt_b x v = true) l1 ->
  argmax_idx_from bi bv i (l1 ++ v :: l2) = argmax_idx_from (i + length l1) v (S (i + length l1)) l2.
Proof.
  intros v l2 l1; induction l1 as [|x r IH]; intros bi bv i Hb H.
  - cbn [app argmax_idx_from length]. rewrite Hb, Nat.add_0_r. reflexivity.
  - inversion H as [|? ? Hx Hr]; subst. cbn [app argmax_idx_from length].
    destruct (Qlt_b bv x); rewrite IH by assumption; replace (S i + length r) with (i + S (length r)) by lia; reflexivity.
Qed.

Lemma argmax_idx_umax : forall v l1 l2, Forall (fun x => Qlt_b x v = true) (l1 ++ l2) ->
  argmax_idx (l1 ++ v :: l2) = Some (length l1, v).
Proof.
  intros v l1 l2 H. apply Forall_app in H. destruct H as [H1 H2].
  destruct l1 as [|b l1]; cbn [app argmax_idx length].
  - rewrite argmax_idx_from_below by assumption. reflexivity.
  - inversion H1; subst. rewrite argmax_idx_from_reach by assumption.
    rewrite argmax_idx_from_below by assumption. reflexivity.
Qed.

Lemma argmax_idx_from_in : forall l bi bv i, In (snd (argmax_idx_from bi bv i l)) (bv :: l).
Proof.
  induction l as [|x r IH]; intros bi bv i; cbn [argmax_idx_from]; [left; reflexivity|].
  destruct (Qlt_b bv x).
  - right. apply IH.
  - destruct (IH bi bv (S i)) as [H|H]; [left; assumption|right; right; assumption].
Qed.

Lemma argmax_idx_some : forall l, l <> [] -> exists i v, argmax_idx l = Some (i, v) /\ In v l.
Proof.
  intros [|x r] H; [contradiction|]. cbn [argmax_idx].
  destruct (argmax_idx_from 0 x 1 r) as [i v] eqn:E. exists i, v. split; [reflexivity|].
  pose proof (argmax_idx_from_in r 0 x 1) as Hin. rewrite E in Hin. exact Hin.
Qed.

(* ------------------------------------------------------------------ allgather of the local maxima *)
Lemma all_some_app : forall {B} (l1 l2 : list (option B)) a b,
  all_some l1 = Some a -> all_some l2 = Some b -> all_some (l1 ++ l2) = Some (a ++ b).
Proof.
  intros B l1; induction l1 as [|x r IH]; intros l2 a b H1 H2.
  - inversion H1; subst. assumption.
  - cbn [all_some app] in *. destruct x as [x|]; [|discriminate].
    destruct (all_some r) as [r'|] eqn:E; [|discriminate]. inversion H1; subst.
    rewrite (IH l2 r' b eq_refl H2). reflexivity.
Qed.

Definition gather (ll : list (list fr)) := all_some (map (fun loc => argmax_idx (map dist loc)) ll).

Lemma gather_below : forall m ll, Forall (fun loc => loc <> [] /\ Forall (below m) loc) ll ->
  exists G, gather ll = Some G /\ length G = length ll /\ Forall (fun v => Qlt_b v (dist m) = true) (map snd G).
Proof.
  intros m ll; induction ll as [|loc r IH]; intros H.
  - exists []. repeat split; constructor.
  - inversion H as [|? ? [Hne Hb] Hr]; subst. destruct (IH Hr) as [G [HG [HL HF]]].
    assert (Hne' : map dist loc <> []) by (destruct loc; [contradiction|discriminate]).
    destruct (argmax_idx_some _ Hne') as [i [v [Hi Hv]]].
    exists ((i, v) :: G). unfold gather in *. cbn [map all_some]. rewrite Hi, HG.
    split; [reflexivity|]. split; [cbn; congruence|].
    cbn [map snd]. constructor; [|assumption].
    apply in_map_iff in Hv. destruct Hv as [x [<- Hx]].
    rewrite Forall_forall in Hb. apply Hb. assumption.
Qed.

(* ------------------------------------------------------------------ one iteration *)
Section Refine.
  Variable D : nat -> nat -> Q.
  Variables (P : nat) (lens : list nat).
  Hypothesis HP : 1 <= P.

  Definition nonempty_locals {A} (g : list A) : Prop := Forall (fun loc => loc <> []) (scatter P lens g).

  Lemma nonempty_locals_map : forall {A B} (f : A -> B) (g : list A), nonempty_locals g -> nonempty_locals (map f g).
  Proof.
    intros A B f g H. unfold nonempty_locals in *. rewrite scatter_map.
    apply Forall_map. eapply Forall_impl; [|exact H].
    intros loc Hne. destruct loc; [contradiction|discriminate].
  Qed.

  (* the owner's local array holds m at some position; every other local entry anywhere is below m *)
  Lemma owner_split : forall g m, length g = sum_nat lens -> umax m g ->
    exists L1 a b L2, scatter P lens g = L1 ++ (a ++ m :: b) :: L2 /\
      Forall (below m) (concat L1 ++ a) /\ Forall (below m) (b ++ concat L2).
  Proof.
    intros g m Hg Hu.
    apply (umax_perm m g (concat (scatter P lens g))) in Hu;
      [|apply Permutation_sym; apply scatter_perm; assumption].
    destruct Hu as [l1 [l2 [Hc HF]]].
    destruct (umax_concat m _ _ _ Hc) as [L1 [a [b [L2 [E1 [E2 E3]]]]]].
    exists L1, a, b, L2. subst l1 l2. apply Forall_app in HF. destruct HF. repeat split; assumption.
  Qed.

  Lemma Forall_concat_elim : forall {A} (Pr : A -> Prop) (ll : list (list A)),
    Forall Pr (concat ll) -> Forall (Forall Pr) ll.
  Proof.
    intros A Pr ll; induction ll as [|x r IH]; intros H; [constructor|].
    cbn [concat] in H. apply Forall_app in H. destruct H. constructor; auto.
  Qed.

  Theorem kc_iter_mpi_refines : forall ti cp cids g m,
    length g = sum_nat lens -> nonempty_locals g -> length cp = length cids -> umax m g ->
    exists owner index,
      owner < P /\ nth_error (local_of P owner lens g) index = Some m /\
      kc_iter_mpi D ti (mkds cp cids (scatter P lens g)) =
        Some (mkds (cp ++ [(owner, index)]) (fst (kc_iter D ti (cids, g)))
                   (scatter P lens (snd (kc_iter D ti (cids, g))))).
  Proof.
    intros ti cp cids g m Hg Hne Hlen Hu.
    destruct (owner_split g m Hg Hu) as [L1 [a [b [L2 [Hs [HF1 HF2]]]]]].
    apply Forall_app in HF1. destruct HF1 as [HL1 Ha].
    apply Forall_app in HF2. destruct HF2 as [Hb HL2].
    unfold nonempty_locals in Hne. rewrite Hs in Hne.
    apply Forall_app in Hne. destruct Hne as [Hne1 Hne2]. inversion Hne2 as [|? ? _ Hne2']; subst.
    assert (HB1 : Forall (fun loc => loc <> [] /\ Forall (below m) loc) L1).
    { apply Forall_concat_elim in HL1. clear -Hne1 HL1. induction L1; constructor; inversion Hne1; inversion HL1; subst; auto. }
    assert (HB2 : Forall (fun loc => loc <> [] /\ Forall (below m) loc) L2).
    { apply Forall_concat_elim in HL2. clear -Hne2' HL2. induction L2; constructor; inversion Hne2'; inversion HL2; subst; auto. }
    destruct (gather_below m L1 HB1) as [G1 [HG1 [HlenG1 HFG1]]].
    destruct (gather_below m L2 HB2) as [G2 [HG2 [HlenG2 HFG2]]].
    assert (Hloc : argmax_idx (map dist (a ++ m :: b)) = Some (length a, dist m)).
    { rewrite map_app. cbn [map]. rewrite <- (map_length dist a). apply argmax_idx_umax.
      rewrite <- map_app. apply Forall_map. apply Forall_app. split; assumption. }
    assert (HG : gather (scatter P lens g) = Some (G1 ++ (length a, dist m) :: G2)).
    { rewrite Hs. unfold gather. rewrite map_app. apply all_some_app; [exact HG1|].
      cbn [map all_some]. rewrite Hloc. unfold gather in HG2. rewrite HG2. reflexivity. }
    assert (Hown : argmax_idx (map snd (G1 ++ (length a, dist m) :: G2)) = Some (length G1, dist m)).
    { rewrite map_app. cbn [map snd]. rewrite <- (map_length snd G1). apply argmax_idx_umax.
      apply Forall_app. split; assumption. }
    assert (HPl : length (scatter P lens g) = P) by apply scatter_length.
    assert (Hown_lt : length L1 < P).
    { rewrite <- HPl, Hs, app_length. cbn [length]. lia. }
    assert (Hnth : nth (length L1) (scatter P lens g) [] = a ++ m :: b).
    { rewrite Hs. rewrite app_nth2 by lia. rewrite Nat.sub_diag. reflexivity. }
    assert (Hlo : local_of P (length L1) lens g = a ++ m :: b).
    { rewrite <- Hnth. unfold scatter.
      rewrite (nth_indep _ [] (local_of P P lens g)) by (rewrite map_length, seq_length; lia).
      rewrite (map_nth (fun r => local_of P r lens g) (seq 0 P) P (length L1)).
      rewrite seq_nth by lia. reflexivity. }
    exists (length L1), (length a). split; [assumption|]. split.
    { rewrite Hlo. rewrite nth_error_app2 by lia. rewrite Nat.sub_diag. reflexivity. }
    unfold kc_iter_mpi. cbn [dloc dctr dcid]. fold (gather (scatter P lens g)). rewrite HG, Hown.
    rewrite HlenG1. rewrite app_nth2 by lia. rewrite HlenG1, Nat.sub_diag. cbn [nth fst].
    rewrite Hnth. rewrite nth_error_app2 by lia. rewrite Nat.sub_diag. cbn [nth_error].
    unfold kc_iter. cbn [fst snd]. rewrite (argmax_umax m g Hu). cbn [fst snd].
    rewrite Hlen. rewrite scatter_map. reflexivity.
  Qed.
End Refine.

(* ------------------------------------------------------------------ maxima *)
Definition is_max (v : Q) (l : list Q) : Prop := In v l /\ Forall (fun x => (x <= v)%Q) l.

Lemma qmax2_cases : forall a b, (qmax2 a b = a /\ (b <= a)%Q) \/ (qmax2 a b = b /\ (a <= b)%Q).
Proof.
  intros a b. unfold qmax2. destruct (Qlt_b a b) eqn:E.
  - right. split; [reflexivity|]. apply Qlt_b_true in E. apply Qlt_le_weak. assumption.
  - left. split; [reflexivity|]. apply Qlt_b_false in E. assumption.
Qed.

Lemma fold_qmax2_is_max : forall r x, is_max (fold_left qmax2 r x) (x :: r).
Proof.
  induction r as [|y r IH]; intros x.
  - split; [left; reflexivity|]. constructor; [apply Qle_refl|constructor].
  - cbn [fold_left]. destruct (IH (qmax2 x y)) as [Hin Hall].
    inversion Hall as [|? ? Hq Hr]; subst.
    destruct (qmax2_cases x y) as [[E Hle]|[E Hle]]; rewrite E in *.
    + split.
      * destruct Hin as [H|H]; [left; assumption|right; right; assumption].
      * constructor; [assumption|]. constructor; [|assumption]. eapply Qle_trans; eassumption.
    + split.
      * destruct Hin as [H|H]; [right; left; assumption|right; right; assumption].
      * constructor; [eapply Qle_trans; eassumption|]. constructor; assumption.
Qed.

Lemma maxq_is_max : forall l, l <> [] -> exists v, maxq l = Some v /\ is_max v l.
Proof.
  intros [|x r] H; [contradiction|]. exists (fold_left qmax2 r x). split; [reflexivity|apply fold_qmax2_is_max].
Qed.

Lemma is_max_unique : forall v w l, is_max v l -> is_max w l -> (v == w)%Q.
Proof.
  intros v w l [Hv Hav] [Hw Haw]. rewrite Forall_forall in Hav, Haw.
  apply Qle_antisym; auto.
Qed.

Lemma is_max_perm : forall v l l', Permutation l l' -> is_max v l -> is_max v l'.
Proof.
  intros v l l' Hp [Hin Hall]. split; [eapply Permutation_in; eassumption|eapply Permutation_Forall; eassumption].
Qed.

Lemma argmax_from_is_max : forall r x, is_max (dist (argmax_from x r)) (map dist (x :: r)).
Proof.
  induction r as [|y r IH]; intros x.
  - split; [left; reflexivity|]. constructor; [apply Qle_refl|constructor].
  - cbn [argmax_from]. destruct (Qlt_b (dist x) (dist y)) eqn:E.
    + destruct (IH y) as [Hin Hall]. split; [right; exact Hin|].
      constructor; [|exact Hall]. inversion Hall; subst.
      apply Qlt_b_true in E. eapply Qle_trans; [apply Qlt_le_weak; exact E|assumption].
    + destruct (IH x) as [Hin Hall]. cbn [map] in *. split.
      * destruct Hin as [H|H]; [left; assumption|right; right; assumption].
      * inversion Hall; subst. constructor; [assumption|]. constructor; [|assumption].
        apply Qlt_b_false in E. eapply Qle_trans; eassumption.
Qed.

Lemma maxdist_is_max : forall l, l <> [] -> is_max (maxdist l) (map dist l).
Proof. intros [|x r] H; [contradiction|]. unfold maxdist, argmax. apply argmax_from_is_max. Qed.

Lemma ub_concat : forall ms (locals : list (list Q)) v, Forall2 is_max ms locals ->
  Forall (fun x => (x <= v)%Q) ms -> Forall (fun x => (x <= v)%Q) (concat locals).
Proof.
  intros ms locals v HF; induction HF as [|w loc ms' r Hw HF' IH]; intros Hub; [constructor|].
  inversion Hub as [|? ? Hwv Hub']; subst. cbn [concat]. apply Forall_app. split.
  - destruct Hw as [_ Hw]. eapply Forall_impl; [|exact Hw]. intros x Hx. cbn beta in *. eapply Qle_trans; eassumption.
  - apply IH. assumption.
Qed.

(* allreduce(MAX) of the local maxima is a maximum of all entries of all local arrays *)
Lemma striped_max_is_max : forall (locals : list (list Q)), locals <> [] -> Forall (fun loc => loc <> []) locals ->
  exists v, striped_max locals = Some v /\ is_max v (concat locals).
Proof.
  intros locals Hne Hall. unfold striped_max.
  assert (H : exists ms, all_some (map maxq locals) = Some ms /\ length ms = length locals /\
              Forall2 is_max ms locals).
  { clear Hne. induction locals as [|loc r IH].
    - exists []. repeat split; constructor.
    - inversion Hall as [|? ? Hl Hr]; subst. destruct (IH Hr) as [ms [E [HL HF]]].
      destruct (maxq_is_max loc Hl) as [v [Ev Hv]].
      exists (v :: ms). cbn [map all_some]. rewrite Ev, E. split; [reflexivity|]. split; [cbn [length]; congruence|constructor; assumption]. }
  destruct H as [ms [E [HL HF]]]. rewrite E.
  assert (Hms : ms <> []) by (destruct ms; [destruct locals; [contradiction|discriminate]|discriminate]).
  destruct (maxq_is_max ms Hms) as [v [Ev [Hin Hub]]]. exists v. split; [assumption|].
  clear E Ev Hms HL Hne Hall. split.
  - induction HF as [|w loc ms' r Hw HF' IH]; [contradiction|].
    cbn [concat]. apply in_or_app. destruct Hin as [->|Hin].
    + left. destruct Hw. assumption.
    + right. apply IH; [assumption|]. inversion Hub; assumption.
  - eapply ub_concat; eassumption.
Qed.

(* striped_array_max of the scattered distances decides the stopping test like the serial max *)
Theorem striped_max_scatter : forall P lens (g : list fr), 1 <= P -> length g = sum_nat lens ->
  Forall (fun loc => loc <> []) (scatter P lens g) ->
  exists v, striped_max (map (map dist) (scatter P lens g)) = Some v /\ (v == maxdist g)%Q.
Proof.
  intros P lens g HP Hg Hne.
  assert (Hsc : scatter P lens g <> []).
  { intros E. pose proof (scatter_length P lens g) as HL. rewrite E in HL. cbn in HL. lia. }
  assert (Hgne : g <> []).
  { intros ->. destruct (scatter P lens []) as [|loc r] eqn:E; [contradiction|].
    inversion Hne as [|? ? Hloc _]; subst.
    pose proof (scatter_perm P lens (@nil fr) HP Hg) as Hp. rewrite E in Hp. cbn [concat] in Hp.
    apply Permutation_sym, Permutation_nil in Hp. destruct loc; [contradiction|discriminate]. }
  destruct (striped_max_is_max (map (map dist) (scatter P lens g))) as [v [Ev Hv]].
  - destruct (scatter P lens g); [contradiction|discriminate].
  - apply Forall_map. eapply Forall_impl; [|exact Hne]. intros loc H. destruct loc; [contradiction|discriminate].
  - exists v. split; [assumption|].
    apply (is_max_unique v (maxdist g) (map dist g)); [|apply maxdist_is_max; assumption].
    eapply is_max_perm; [|exact Hv].
    rewrite concat_map_map. apply Permutation_map. apply scatter_perm; assumption.
Qed.
