(* C11 round 2: the definitions GENERATED from the current source (Gen/TrimGen.v, over the NumPy /
   SciPy vocabulary of Base/TrimBase.v) compute exactly the hand model of Model/Trim.v. *)
From Coq Require Import List ZArith Bool Arith Lia Permutation Sorted.
From EV Require Import Trim TrimProofs TrimBase TrimGen TrimView.
Import ListNotations.

(* ------------------------------------------------------------------ lists and tables *)
Lemma map_seq_nth : forall {A B} (g : A -> B) (l : list A) d,
  map (fun i => g (nth i l d)) (seq 0 (length l)) = map g l.
Proof.
  intros A B g l d. induction l as [|x l IH]; [reflexivity|].
  cbn [length]. rewrite <- cons_seq, <- seq_shift. cbn [map nth]. f_equal.
  rewrite map_map. exact IH.
Qed.

Lemma forallb_map : forall {A B} (f : A -> B) (p : B -> bool) l,
  forallb p (map f l) = forallb (fun x => p (f x)) l.
Proof. intros. induction l as [|x l IH]; [reflexivity|]. cbn [map forallb]. now rewrite IH. Qed.

Lemma mat_build_lengths : forall a f, map (@length Z) (mat_build a f) = map (@length Z) a.
Proof.
  intros a f. unfold mat_build. rewrite map_map.
  rewrite <- (map_seq_nth (@length Z) a []). apply map_ext. intro i.
  now rewrite map_length, seq_length.
Qed.

Lemma mat_build_length : forall a f, length (mat_build a f) = length a.
Proof. intros. unfold mat_build. now rewrite map_length, seq_length. Qed.

Lemma square_lengths : forall a, square a = forallb (fun k => k =? length a) (map (@length Z) a).
Proof. intro a. unfold square. now rewrite forallb_map. Qed.

Lemma mat_build_square : forall a f, square (mat_build a f) = square a.
Proof.
  intros. rewrite !square_lengths, mat_build_lengths, mat_build_length. reflexivity.
Qed.

Lemma square_row : forall a i, square a = true -> i < length a -> length (nth i a []) = length a.
Proof.
  intros a i Hs Hi. unfold square in Hs. rewrite forallb_forall in Hs.
  apply Nat.eqb_eq. apply Hs. now apply nth_In.
Qed.

Lemma mat_build_tabulate : forall a f, square a = true -> mat_build a f = tabulate (length a) f.
Proof.
  intros a f Hs. unfold mat_build, tabulate. apply map_ext_in. intros i Hi.
  apply in_seq in Hi. rewrite square_row by (assumption || lia). reflexivity.
Qed.

Lemma tabulate_ext : forall {A} n (f g : nat -> nat -> A),
  (forall i j, i < n -> j < n -> f i j = g i j) -> tabulate n f = tabulate n g.
Proof.
  intros A n f g H. unfold tabulate. apply map_ext_in. intros i Hi. apply in_seq in Hi.
  apply map_ext_in. intros j Hj. apply in_seq in Hj. apply H; lia.
Qed.

Lemma square_tabulate : forall n (f : nat -> nat -> Z), square (tabulate n f) = true.
Proof.
  intros n f. unfold square. rewrite tabulate_length. apply forallb_forall. intros r Hr.
  unfold tabulate in Hr. apply in_map_iff in Hr. destruct Hr as [i [<- _]].
  rewrite map_length, seq_length. apply Nat.eqb_refl.
Qed.

Lemma entry_tabulate : forall n (f : nat -> nat -> Z) i j, i < n -> j < n -> entry (tabulate n f) i j = f i j.
Proof. intros. unfold entry. now apply nth_tabulate. Qed.

Lemma tabulate_entry : forall (V : mat) m, length V = m -> (forall row, In row V -> length row = m) ->
  tabulate m (entry V) = V.
Proof.
  intros V m HL HR. unfold tabulate, entry. subst m.
  transitivity (map (fun r : list Z => r) V); [|apply map_id].
  rewrite <- (map_seq_nth (fun r => r) V []).
  apply map_ext_in. intros i Hi. apply in_seq in Hi.
  assert (Hr : length (nth i V []) = length V) by (apply HR, nth_In; lia).
  rewrite <- Hr. rewrite (map_seq_nth (fun x => x) (nth i V []) 0%Z). apply map_id.
Qed.

Lemma bget_cmp : forall f (C : mat) t i j, i < length C -> j < length (nth i C []) ->
  bget (np_cmp f C t) i j = f (entry C i j) t.
Proof.
  intros f C t i j Hi Hj. unfold bget, np_cmp, entry.
  rewrite (nth_indep _ [] (map (fun x => f x t) [])) by (now rewrite map_length).
  rewrite map_nth.
  rewrite (nth_indep _ false (f 0%Z t)) by (now rewrite map_length).
  now rewrite (map_nth (fun x => f x t)).
Qed.

Lemma index_of_seq : forall m a i, a <= i < a + m -> index_of i (seq a m) = Some (i - a).
Proof.
  induction m as [|m IH]; intros a i H; [lia|]. cbn [seq index_of].
  destruct (Nat.eqb_spec a i) as [->|Hne].
  - f_equal. lia.
  - rewrite IH by lia. cbn [option_map]. f_equal. lia.
Qed.

Lemma getitem_mask_seq : forall {A} (f : nat -> A) (g : nat -> bool) n a,
  getitem_mask (map f (seq a n)) (map g (seq a n)) = map f (filter g (seq a n)).
Proof.
  intros A f g n. unfold getitem_mask. induction n as [|n IH]; intro a; [reflexivity|].
  cbn [seq map combine filter snd]. destruct (g a); cbn [map fst]; now rewrite IH.
Qed.

Lemma filter_length_mono : forall (P : nat -> bool) r r', r < r' -> P r = true ->
  length (filter P (seq 0 r)) < length (filter P (seq 0 r')).
Proof.
  intros P r r' Hlt HP.
  replace r' with (r + (S (r' - S r))) by lia.
  rewrite seq_app, filter_app, app_length. cbn [plus seq filter]. rewrite HP. cbn [length]. lia.
Qed.

Lemma filter_nth_count : forall (P : nat -> bool) r n, r < n -> P r = true ->
  nth (length (filter P (seq 0 r))) (filter P (seq 0 n)) 0 = r.
Proof.
  intros P r n Hlt HP.
  replace n with (r + (S (n - S r))) by lia.
  rewrite seq_app, filter_app. cbn [plus seq filter]. rewrite HP.
  rewrite app_nth2 by lia. now rewrite Nat.sub_diag.
Qed.

(* ------------------------------------------------------------------ thresholding, the graph *)
(* thresholded_counts[counts < threshold] = 0 on a copy of the counts *)
Definition thresholded (thr : Z) (C : mat) : mat := setitem_mask (np_array_copy C) (np_lt C thr) 0%Z.

Lemma thresholded_length : forall thr C, length (thresholded thr C) = length C.
Proof. intros. unfold thresholded, setitem_mask. apply mat_build_length. Qed.

Lemma thresholded_square : forall thr C, square (thresholded thr C) = square C.
Proof. intros. unfold thresholded, setitem_mask. apply mat_build_square. Qed.

Lemma entry_thresholded : forall thr C i j, square C = true -> i < length C -> j < length C ->
  entry (thresholded thr C) i j = if (entry C i j <? thr)%Z then 0%Z else entry C i j.
Proof.
  intros thr C i j Hs Hi Hj. unfold thresholded, setitem_mask, np_array_copy.
  rewrite mat_build_tabulate by exact Hs. rewrite entry_tabulate by assumption.
  unfold np_lt. rewrite bget_cmp; [reflexivity | exact Hi |].
  rewrite square_row by assumption. exact Hj.
Qed.

(* the graph SciPy sees (non-zero cells of the thresholded copy) is the model's edge relation *)
Lemma cc_edge_thresholded : forall thr C i j, square C = true ->
  cc_edge true Strong (thresholded thr C) i j = edge thr C i j.
Proof.
  intros thr C i j Hs. unfold cc_edge, edge. rewrite thresholded_length.
  destruct (Nat.ltb_spec i (length C)) as [Hi|Hi]; [|reflexivity].
  destruct (Nat.ltb_spec j (length C)) as [Hj|Hj]; [|reflexivity].
  cbn [andb]. rewrite entry_thresholded by assumption.
  destruct (Z.ltb_spec (entry C i j) thr) as [Hlt|Hge].
  - cbn. destruct (Z.leb_spec thr (entry C i j)); [lia | reflexivity].
  - destruct (Z.leb_spec thr (entry C i j)); [reflexivity | lia].
Qed.

Lemma warshall_ext : forall n E E' k, (forall i j, E i j = E' i j) -> warshall n E k = warshall n E' k.
Proof.
  intros n E E' k H. induction k as [|k IH]; cbn [warshall].
  - apply tabulate_ext. intros. now rewrite H.
  - now rewrite IH.
Qed.

Lemma cc_reach_thresholded : forall thr C, square C = true ->
  cc_reach true Strong (thresholded thr C) = reach_mat thr C.
Proof.
  intros thr C Hs. unfold cc_reach, reach_mat. rewrite thresholded_length.
  apply warshall_ext. intros. now apply cc_edge_thresholded.
Qed.

Lemma cc_thresholded : forall thr C,
  connected_components (thresholded thr C) true Strong =
  if square C then
    let n := length C in let R := reach_mat thr C in
    Some (length (filter (cc_root R n) (seq 0 n)), map (cc_label R n) (seq 0 n))
  else None.
Proof.
  intros thr C. unfold connected_components. rewrite thresholded_square.
  destruct (square C) eqn:Hs; [|reflexivity].
  rewrite thresholded_length, cc_reach_thresholded by exact Hs. reflexivity.
Qed.

(* ------------------------------------------------------------------ labels *)
Section Labels.
  Variable thr : Z.
  Variable C : mat.
  Let n := length C.
  Let R := reach_mat thr C.
  Let rep := cc_rep R n.
  Let P := cc_root R n.
  Let lab := cc_label R n.
  Let roots := filter P (seq 0 n).
  Let w := fun i => weight C (comp thr C i).

  Lemma rep_unfold : forall i, rep i = hd i (comp thr C i).
  Proof. reflexivity. Qed.
  Lemma lab_unfold : forall i, lab i = length (filter P (seq 0 (rep i))).
  Proof. reflexivity. Qed.
  Lemma root_unfold : forall i, P i = (rep i =? i).
  Proof. reflexivity. Qed.

  Lemma rep_spec : forall i, i < n ->
    In (rep i) (comp thr C i) /\ forall j, In j (comp thr C i) -> rep i <= j.
  Proof.
    intros i Hi. rewrite rep_unfold.
    pose proof (comp_self thr C i Hi) as Hin. pose proof (comp_ssorted thr C i) as Hs.
    destruct (comp thr C i) as [|x l]; [destruct Hin|]. cbn [hd]. split; [now left|].
    intros j [<-|Hj]; [lia|]. inversion Hs as [|? ? _ Hf]; subst.
    rewrite Forall_forall in Hf. specialize (Hf _ Hj). lia.
  Qed.

  Lemma rep_lt : forall i, i < n -> rep i < n.
  Proof. intros i Hi. destruct (rep_spec i Hi) as [H _]. apply in_comp in H. tauto. Qed.

  Lemma rep_le : forall i, i < n -> rep i <= i.
  Proof. intros i Hi. destruct (rep_spec i Hi) as [_ H]. apply H. now apply comp_self. Qed.

  Lemma rep_mutual : forall i, i < n -> mutual thr C i (rep i).
  Proof. intros i Hi. destruct (rep_spec i Hi) as [H _]. apply in_comp in H. tauto. Qed.

  Lemma rep_eq : forall i j, i < n -> j < n -> mutual thr C i j -> rep i = rep j.
  Proof.
    intros i j Hi Hj Hm. rewrite !rep_unfold.
    rewrite (comp_eq thr C i j Hi Hj Hm).
    pose proof (comp_self thr C j Hj) as Hin. destruct (comp thr C j); [destruct Hin | reflexivity].
  Qed.

  Lemma rep_root : forall i, i < n -> P (rep i) = true.
  Proof.
    intros i Hi. rewrite root_unfold. apply Nat.eqb_eq.
    symmetry. apply rep_eq; [exact Hi | now apply rep_lt | now apply rep_mutual].
  Qed.

  Lemma rep_iff : forall i j, i < n -> j < n -> (rep i = rep j <-> mutual thr C i j).
  Proof.
    intros i j Hi Hj. split; [|now apply rep_eq].
    intro E. eapply mutual_trans; [apply rep_mutual; exact Hi|]. rewrite E.
    apply mutual_sym, rep_mutual; exact Hj.
  Qed.

  Lemma comp_rep : forall i, i < n -> comp thr C (rep i) = comp thr C i.
  Proof.
    intros i Hi. apply comp_eq; [now apply rep_lt | exact Hi | apply mutual_sym, rep_mutual; exact Hi].
  Qed.

  Lemma lab_lt : forall i, i < n -> lab i < length roots.
  Proof.
    intros i Hi. rewrite lab_unfold. unfold roots.
    apply filter_length_mono; [now apply rep_lt | now apply rep_root].
  Qed.

  Lemma nth_lab : forall i, i < n -> nth (lab i) roots 0 = rep i.
  Proof.
    intros i Hi. rewrite lab_unfold. unfold roots.
    apply filter_nth_count; [now apply rep_lt | now apply rep_root].
  Qed.

  Lemma lab_inj : forall i j, i < n -> j < n -> lab i = lab j -> rep i = rep j.
  Proof. intros i j Hi Hj E. rewrite <- (nth_lab i Hi), <- (nth_lab j Hj). now rewrite E. Qed.

  Lemma root_spec : forall l, l < length roots ->
    let r := nth l roots 0 in r < n /\ rep r = r /\ lab r = l.
  Proof.
    intros l Hl r.
    assert (Hin : In r roots) by (apply nth_In; exact Hl).
    unfold roots in Hin. apply filter_In in Hin. destruct Hin as [Hr HP]. apply in_seq in Hr.
    assert (Hrep : rep r = r) by (apply Nat.eqb_eq; rewrite <- root_unfold; exact HP).
    split; [lia|]. split; [exact Hrep|].
    assert (Hnd : NoDup roots) by (apply NoDup_filter, seq_NoDup).
    rewrite (NoDup_nth roots 0) in Hnd. apply Hnd; [apply lab_lt; lia | exact Hl |].
    rewrite nth_lab by lia. exact Hrep.
  Qed.

  (* np.where(labels == l)[0] for the l-th class is literally the model's component list *)
  Lemma class_is_comp : forall l, l < length roots ->
    filter (fun i => lab i =? l) (seq 0 n) = comp thr C (nth l roots 0).
  Proof.
    intros l Hl. destruct (root_spec l Hl) as [Hr [Hrep Hlab]]. set (r := nth l roots 0) in *.
    unfold comp, comp_of. fold n. apply filter_ext_in. intros j Hj. apply in_seq in Hj.
    apply eq_true_iff_eq. rewrite Nat.eqb_eq.
    assert (Hc : bget (reach_mat thr C) r j && bget (reach_mat thr C) j r = true <-> In j (comp thr C r)).
    { unfold comp, comp_of. rewrite filter_In, in_seq. fold n. intuition lia. }
    rewrite Hc, in_comp. fold n. split.
    - intro E. split; [lia|]. split; [lia|].
      apply rep_iff; try lia. apply lab_inj; lia.
    - intros [_ [_ Hm]]. rewrite <- Hlab. rewrite !lab_unfold.
      now rewrite (rep_eq r j) by (lia || assumption).
  Qed.

  Lemma roots_nonempty : 0 < n -> 0 < length roots.
  Proof. intro Hn. pose proof (lab_lt 0 Hn). lia. Qed.

  Lemma w_rep : forall i, i < n -> w i = w (rep i).
  Proof. intros i Hi. unfold w. now rewrite comp_rep. Qed.

  Lemma best_unique : forall b, b < n -> (forall i, i < n -> (w i <= w b)%Z) ->
    (forall i, i < b -> (w i < w b)%Z) -> best w n = b.
  Proof.
    intros b Hb Hmax Hfirst. assert (Hn : 0 < n) by lia.
    destruct (best_spec w n Hn) as [Hlt Hm]. pose proof (best_first w n) as Hf.
    destruct (lt_eq_lt_dec (best w n) b) as [[H|H]|H]; [|exact H|].
    - specialize (Hfirst _ H). specialize (Hm b Hb). lia.
    - specialize (Hf _ H). specialize (Hmax _ Hlt). lia.
  Qed.

  (* the generated weights / arg-max / np.where pick the model's kept states *)
  Definition gen_pops (l : nat) : Z :=
    np_sum (getitem_mask (np_sum_axis1 C) (np_eq_nat (map lab (seq 0 n)) l)).

  Lemma np_where_eq : forall l,
    np_where (np_eq_nat (map lab (seq 0 n)) l) = filter (fun i => lab i =? l) (seq 0 n).
  Proof.
    intro l. unfold np_where, np_eq_nat. rewrite !map_length, seq_length.
    apply filter_ext_in. intros i Hi. apply in_seq in Hi. rewrite map_map.
    now rewrite nth_map_seq by lia.
  Qed.

  Lemma np_where_ne : forall l,
    np_where (np_ne_nat (map lab (seq 0 n)) l) = filter (fun i => negb (lab i =? l)) (seq 0 n).
  Proof.
    intro l. unfold np_where, np_ne_nat. rewrite !map_length, seq_length.
    apply filter_ext_in. intros i Hi. apply in_seq in Hi. rewrite map_map.
    now rewrite nth_map_seq by lia.
  Qed.

  Lemma gen_pops_weight : forall l, gen_pops l = weight C (filter (fun i => lab i =? l) (seq 0 n)).
  Proof.
    intro l. unfold gen_pops, np_sum_axis1, np_eq_nat.
    rewrite <- (map_seq_nth (fold_right Z.add 0%Z) C []). fold n. rewrite map_map.
    rewrite getitem_mask_seq. unfold np_sum, weight.
    induction (filter (fun i => lab i =? l) (seq 0 n)) as [|x s IH]; [reflexivity|].
    cbn [map fold_right]. rewrite IH. reflexivity.
  Qed.

  Lemma gen_keep : 0 < n ->
    exists l, np_argmax (map gen_pops (py_range (length roots))) = Some l /\
              l < length roots /\
              filter (fun i => lab i =? l) (seq 0 n) = keep_states thr C.
  Proof.
    intro Hn. pose proof (roots_nonempty Hn) as Hr.
    set (sp := map gen_pops (py_range (length roots))).
    assert (Hlen : length sp = length roots) by (unfold sp, py_range; now rewrite map_length, seq_length).
    assert (Hsp : forall l, l < length roots -> nth l sp 0%Z = w (nth l roots 0)).
    { intros l Hl. unfold sp, py_range. rewrite nth_map_seq by exact Hl.
      rewrite gen_pops_weight, class_is_comp by exact Hl. reflexivity. }
    set (l := best (fun i => nth i sp 0%Z) (length sp)).
    exists l. split.
    { unfold np_argmax. destruct sp as [|x sp'] eqn:E; [cbn [length] in Hlen; lia | reflexivity]. }
    assert (H0 : 0 < length sp) by lia.
    destruct (best_spec (fun i => nth i sp 0%Z) (length sp) H0) as [Hl Hmax]. fold l in Hl, Hmax.
    pose proof (best_first (fun i => nth i sp 0%Z) (length sp)) as Hfirst. fold l in Hfirst.
    rewrite Hlen in Hl, Hmax. split; [exact Hl|].
    destruct (root_spec l Hl) as [Hrn [Hrep Hlab]]. set (r := nth l roots 0) in *.
    rewrite class_is_comp by exact Hl. fold r. rewrite keep_states_comp. f_equal. fold n. fold w.
    symmetry. apply best_unique; [exact Hrn | |].
    - intros i Hi. rewrite (w_rep i Hi), <- (nth_lab i Hi), <- Hsp by (now apply lab_lt).
      unfold r. rewrite <- Hsp by exact Hl. apply Hmax. now apply lab_lt.
    - intros i Hi. assert (Hin : i < n) by lia.
      rewrite (w_rep i Hin), <- (nth_lab i Hin), <- Hsp by (now apply lab_lt).
      unfold r. rewrite <- Hsp by exact Hl. apply Hfirst.
      rewrite <- Hlab. rewrite !lab_unfold. rewrite Hrep.
      apply filter_length_mono; [|now apply rep_root].
      pose proof (rep_le i Hin). lia.
  Qed.
End Labels.

(* labels returned by connected_components: equal exactly on mutually reachable states *)
Theorem labels_iff_mutual : forall thr C i j, i < length C -> j < length C ->
  (cc_label (reach_mat thr C) (length C) i = cc_label (reach_mat thr C) (length C) j
   <-> mutual thr C i j).
Proof.
  intros thr C i j Hi Hj. rewrite <- (rep_iff thr C i j Hi Hj). split.
  - now apply lab_inj.
  - intro E. unfold cc_label. now rewrite E.
Qed.

(* ------------------------------------------------------------------ the two branches *)
Lemma repeat_map_seq : forall {A} (x : A) m a, repeat x m = map (fun _ => x) (seq a m).
Proof. intros A x m. induction m as [|m IH]; intro a; [reflexivity|]. cbn [repeat seq map]. now rewrite <- IH. Qed.

Lemma np_zeros_tabulate : forall m, np_zeros m m = tabulate m (fun _ _ => 0%Z).
Proof.
  intro m. unfold np_zeros, tabulate. rewrite (repeat_map_seq _ m 0). apply map_ext. intros _.
  apply repeat_map_seq.
Qed.

(* trimmed_counts = np.zeros((m, m)); trimmed_counts[np.ix_(new, new)] = counts[np.ix_(keep, keep)] *)
Lemma ix_renumber : forall C ks,
  np_ix_set (np_zeros (length ks) (length ks)) (np_arange (length ks)) (np_arange (length ks))
            (np_ix_get C ks ks) = submat C ks.
Proof.
  intros C ks. set (m := length ks). unfold np_ix_set. rewrite np_zeros_tabulate.
  rewrite mat_build_tabulate by apply square_tabulate. rewrite tabulate_length.
  change (np_ix_get C ks ks) with (submat C ks).
  transitivity (tabulate m (entry (submat C ks)));
    [| apply tabulate_entry; [apply submat_length | intros row Hr; now apply (submat_rows C ks)]].
  apply tabulate_ext. intros i j Hi Hj. unfold np_arange.
  rewrite !index_of_seq by lia. now rewrite !Nat.sub_0_r.
Qed.

Lemma memb_filter_seq : forall (p : nat -> bool) n i, i < n -> memb i (filter p (seq 0 n)) = p i.
Proof.
  intros p n i Hi. apply eq_true_iff_eq. rewrite memb_In, filter_In, in_seq. intuition lia.
Qed.

(* trimmed_counts = np.array(counts, copy=True); trimmed_counts[trim, :] = 0; trimmed_counts[:, trim] = 0 *)
Lemma rows_cols_zeroed : forall C (p : nat -> bool), square C = true ->
  let n := length C in
  let trim := filter (fun i => negb (p i)) (seq 0 n) in
  setitem_cols (setitem_rows (np_array_copy C) trim 0%Z) trim 0%Z = zeroed C (filter p (seq 0 n)).
Proof.
  intros C p Hs n trim. unfold setitem_cols, setitem_rows, np_array_copy, zeroed.
  rewrite (mat_build_tabulate C) by exact Hs. fold n.
  rewrite mat_build_tabulate by apply square_tabulate. rewrite tabulate_length.
  apply tabulate_ext. intros i j Hi Hj. rewrite entry_tabulate by assumption.
  unfold trim. rewrite !memb_filter_seq by assumption.
  destruct (p i), (p j); reflexivity.
Qed.

(* ------------------------------------------------------------------ TrimMapping *)
Lemma map_swap_fun : forall l : list (nat * nat),
  map (fun p => match p with (a, b) => (b, a) end) l = map swap l.
Proof. intro l. apply map_ext. intros [a b]. reflexivity. Qed.

Lemma gen_tm_zip : forall a b,
  gen_tm_init (py_zip a b) = {| slot_to_original := Some (tm_to_original (combine a b)) |}.
Proof. intros. unfold gen_tm_init, py_zip, truthy, iter_items, tm_to_original. now rewrite map_swap_fun. Qed.

Lemma gen_tm_to_mapped_some : forall d,
  gen_tm_to_mapped {| slot_to_original := Some d |} = Some (tm_to_mapped d).
Proof. intro d. unfold gen_tm_to_mapped, dict_items, tm_to_mapped. cbn [slot_to_original]. now rewrite map_swap_fun. Qed.

(* TrimMapping built from a list (as TrimMapping.read / a caller does): the empty list leaves the slot unset *)
Theorem gen_trim_mapping_model : forall ps, tm_view (gen_tm_init (PyList ps)) = trim_mapping ps.
Proof.
  intros [|p ps]; [reflexivity|].
  unfold tm_view, gen_tm_init, truthy, iter_items. cbn [slot_to_original].
  rewrite gen_tm_to_mapped_some. unfold trim_mapping, tm_to_original. now rewrite map_swap_fun.
Qed.

(* the setter writes the inverse into the only slot, so reading to_mapped back gives the value set *)
Theorem gen_to_mapped_setter : forall self value, NoDup (map fst value) -> NoDup (map snd value) ->
  gen_tm_to_mapped (gen_tm_set_to_mapped self value) = Some value.
Proof.
  intros self value H1 H2. unfold gen_tm_set_to_mapped, dict_items. rewrite gen_tm_to_mapped_some.
  unfold tm_to_mapped. rewrite map_swap_fun.
  rewrite (dict_of_nodup (map swap value)) by (now rewrite map_fst_swap).
  rewrite map_swap_swap. now rewrite dict_of_nodup.
Qed.

Lemma map_snd_combine : forall (a b : list nat), length a = length b -> map snd (combine a b) = b.
Proof.
  induction a as [|x a IH]; intros [|y b] H; try reflexivity; try discriminate.
  cbn [combine map snd]. f_equal. apply IH. now inversion H.
Qed.

Lemma of_gen_trim_with : forall (C : mat) (ren : bool) (cont : container) ks, NoDup ks ->
  of_gen (gen_tm_init (py_zip ks (if ren then py_range (length ks) else ks)),
          (cont, if ren then submat C ks else zeroed C ks))
  = Some (trim_with C ren cont ks).
Proof.
  intros C ren cont ks Hnd. unfold of_gen. cbn [fst snd]. rewrite gen_tm_zip. cbn [slot_to_original].
  rewrite gen_tm_to_mapped_some. unfold trim_with, py_range. f_equal.
  destruct ren.
  - destruct (mapping_renumber ks Hnd) as [E1 E2]. cbv zeta in E1, E2. f_equal.
    rewrite E1. apply map_snd_combine. now rewrite seq_length.
  - destruct (mapping_inplace ks Hnd) as [E1 E2]. cbv zeta in E1, E2. f_equal.
    rewrite E1. now apply map_snd_combine.
Qed.

(* ------------------------------------------------------------------ trim_disconnected *)
Lemma densify : forall inp, (if issparse inp then toarray inp else ndarray_view inp) = toarray inp.
Proof. intros [a|f nr nc st]; reflexivity. Qed.

Lemma restore_type : forall t (a : mat),
  (if negb (container_eqb (np_type a) t) then construct t a else as_typed a) = (t, a).
Proof. intros [|f] a; reflexivity. Qed.

(* The generated trim_disconnected, run on the input as given (ndarray, or sparse container with
   its stored entries), read through the generated to_mapped property, IS the model run on the
   dense counts: same error domain, same kept states, counts, dictionaries and container. *)
Theorem gen_trim_disconnected_model : forall inp thr ren,
  bind_gen (gen_trim_disconnected inp thr ren) = trim_disconnected thr (toarray inp) ren (py_type inp).
Proof.
  intros inp thr ren. unfold gen_trim_disconnected. cbv zeta. rewrite densify.
  remember (toarray inp) as C eqn:EC. clear EC.
  fold (thresholded thr C). rewrite cc_thresholded. unfold trim_disconnected.
  destruct (square C) eqn:Hs; [|reflexivity]. cbv zeta. cbv beta iota.
  destruct (Nat.eqb_spec (length C) 0) as [Hz|Hnz].
  - destruct C; [reflexivity | discriminate].
  - assert (Hn : 0 < length C) by lia. cbn [andb negb].
    destruct (gen_keep thr C Hn) as [l [Ha [Hl Hk]]]. unfold gen_pops in Ha.
    unfold tuple1_get0. rewrite Ha. rewrite np_where_eq, np_where_ne.
    pose proof (rows_cols_zeroed C (fun i => cc_label (reach_mat thr C) (length C) i =? l) Hs) as Hzr.
    cbv zeta in Hzr. rewrite Hk in Hzr. rewrite Hk.
    destruct ren.
    + rewrite ix_renumber, submat_length, restore_type.
      unfold bind_gen. now rewrite (of_gen_trim_with C true) by apply keep_nodup.
    + rewrite Hzr, restore_type.
      unfold bind_gen. now rewrite (of_gen_trim_with C false) by apply keep_nodup.
Qed.

(* the kept ids are what the mapping says: values of to_original in insertion order *)
Theorem keep_from_mapping : forall thr C ren cont r,
  trim_disconnected thr C ren cont = Some r -> tr_keep r = map snd (tr_to_original r).
Proof.
  intros thr C ren cont r H. apply trim_inv in H. destruct H as [_ [_ ->]].
  unfold trim_with. cbn [tr_keep tr_to_original]. pose proof (keep_nodup thr C) as Hnd.
  destruct ren.
  - destruct (mapping_renumber _ Hnd) as [E1 _]. cbv zeta in E1. rewrite E1.
    symmetry. apply map_snd_combine. now rewrite seq_length.
  - destruct (mapping_inplace _ Hnd) as [E1 _]. cbv zeta in E1. rewrite E1.
    symmetry. now apply map_snd_combine.
Qed.

(* ------------------------------------------------------------------ MSM.fit *)
Lemma shape0_toarray : forall inp, shape0 inp = length (toarray inp).
Proof. intros [a|f nr nc st]; cbn [shape0 toarray]; [reflexivity|]. now rewrite map_length, seq_length. Qed.

(* what MSM.fit stores as mapping_ and hands to the builder: with trim=True the generated call of
   trim_disconnected (threshold and renumbering as written in the source), otherwise the identity *)
Theorem gen_fit_trim_model : forall trim inp,
  bind_gen (gen_fit_trim trim inp) = msm_fit trim (toarray inp) (py_type inp).
Proof.
  intros [|] inp; unfold gen_fit_trim, msm_fit.
  - apply gen_trim_disconnected_model.
  - unfold bind_gen, of_gen, unchanged. cbn [fst snd]. rewrite gen_tm_zip. cbn [slot_to_original].
    rewrite gen_tm_to_mapped_some. unfold py_range. rewrite shape0_toarray.
    set (ids := seq 0 (length (toarray inp))).
    destruct (mapping_inplace ids (seq_NoDup _ _)) as [E1 E2]. cbv zeta in E1, E2.
    do 2 f_equal. rewrite E1. apply map_snd_combine. reflexivity.
Qed.

(* ------------------------------------------------------------------ corollaries on the generated code *)
(* thresholding applies to the COUNTS: however a sparse container splits a count over stored
   entries, only the dense counts (and the container type) matter *)
Theorem gen_trim_stored_entries_irrelevant : forall inp inp' thr ren,
  toarray inp = toarray inp' -> py_type inp = py_type inp' ->
  bind_gen (gen_trim_disconnected inp thr ren) = bind_gen (gen_trim_disconnected inp' thr ren).
Proof. intros inp inp' thr ren E1 E2. rewrite !gen_trim_disconnected_model. now rewrite E1, E2. Qed.

(* dense and sparse inputs agree (generated code): same kept ids, cells and dictionaries *)
Theorem gen_trim_dense_sparse_agree : forall inp thr ren rd rs,
  bind_gen (gen_trim_disconnected (NdArray (toarray inp)) thr ren) = Some rd ->
  bind_gen (gen_trim_disconnected inp thr ren) = Some rs ->
  tr_keep rd = tr_keep rs /\ tr_counts rd = tr_counts rs /\
  tr_to_original rd = tr_to_original rs /\ tr_to_mapped rd = tr_to_mapped rs /\
  tr_container rs = py_type inp.
Proof.
  intros inp thr ren rd rs Hd Hs. rewrite gen_trim_disconnected_model in Hd, Hs.
  cbn [toarray py_type] in Hd.
  apply trim_inv in Hd. apply trim_inv in Hs. destruct Hd as [_ [_ ->]]. destruct Hs as [_ [_ ->]].
  repeat split.
Qed.

Example gen_trim_example :
  (* COO input whose counts 2,2,1 are stored as unit entries, threshold 2: the unit entries are
     below the threshold, their sums are not; states 0,1 stay connected *)
  bind_gen (gen_trim_disconnected
              (SparseM 2 3 3 [(0,1,1%Z); (1,0,1%Z); (0,1,1%Z); (2,2,1%Z); (1,0,1%Z); (1,2,1%Z)]) 2 true)
  = Some {| tr_keep := [0; 1]; tr_counts := [[0;2];[2;0]]%Z;
            tr_to_original := [(0,0);(1,1)]; tr_to_mapped := [(0,0);(1,1)];
            tr_container := Sparse 2 |}
  /\ bind_gen (gen_trim_disconnected
                 (NdArray [[0;0;2;0;0];[0;0;0;7;0];[0;0;0;0;2];[0;5;1;0;0];[2;3;0;0;0]]%Z) 2 false)
     = trim_disconnected 2 [[0;0;2;0;0];[0;0;0;7;0];[0;0;0;0;2];[0;5;1;0;0];[2;3;0;0;0]]%Z false Dense
  /\ gen_trim_disconnected (NdArray []) 1 true = None
  /\ gen_trim_disconnected (NdArray [[1;2;3];[0;1;1]]%Z) 1 true = None
  /\ tm_view (gen_tm_init (PyList [(5,0);(2,1)])) = Some ([(0,5);(1,2)], [(5,0);(2,1)])
  /\ tm_view (gen_tm_init (PyList [])) = None.
Proof. repeat split; vm_compute; reflexivity. Qed.
