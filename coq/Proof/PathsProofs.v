(* C17 proofs, part 1: order on Q u {-inf,+inf}, argmax/argmin, bottlenecks, walks. *)
From Coq Require Import List Arith QArith Qreduction Bool Lia Lqa.
From EV Require Import Paths.
Import ListNotations.
Close Scope Q_scope.

(* ------------------------------------------------------------------ order on ext *)
Definition ele (a b : ext) : Prop := eltb b a = false.
Definition elt (a b : ext) : Prop := eltb a b = true.
Definition eeq (a b : ext) : Prop := ele a b /\ ele b a.

Lemma Qltb_true : forall a b, Qltb a b = true <-> (a < b)%Q.
Proof.
  intros a b. unfold Qltb. rewrite negb_true_iff. split; intro H.
  - apply Qnot_le_lt. intro C. apply Qle_bool_iff in C. congruence.
  - destruct (Qle_bool b a) eqn:E; [|reflexivity]. apply Qle_bool_iff in E.
    exfalso. apply (Qlt_not_le _ _ H E).
Qed.

Lemma Qltb_false : forall a b, Qltb a b = false <-> (b <= a)%Q.
Proof.
  intros a b. unfold Qltb. rewrite negb_false_iff. apply Qle_bool_iff.
Qed.

Lemma ele_fin : forall x y, ele (Fin x) (Fin y) <-> (x <= y)%Q.
Proof. intros. unfold ele. simpl. apply Qltb_false. Qed.

Lemma elt_fin : forall x y, elt (Fin x) (Fin y) <-> (x < y)%Q.
Proof. intros. unfold elt. simpl. apply Qltb_true. Qed.

Ltac ext_crush :=
  unfold eeq, ele, elt in *;
  repeat match goal with a : ext |- _ => destruct a end;
  simpl in *; try congruence; try tauto;
  repeat match goal with
         | H : Qltb _ _ = true |- _ => apply Qltb_true in H
         | H : Qltb _ _ = false |- _ => apply Qltb_false in H
         end;
  try (apply Qltb_true); try (apply Qltb_false); try lra.

Lemma ele_refl : forall a, ele a a.
Proof. intros. ext_crush. Qed.

Lemma ele_trans : forall a b c, ele a b -> ele b c -> ele a c.
Proof. intros a b c H1 H2. ext_crush. Qed.

Lemma ele_total : forall a b, ele a b \/ ele b a.
Proof.
  intros a b. unfold ele. destruct (eltb b a) eqn:E; [right|left; reflexivity].
  ext_crush.
Qed.

Lemma elt_not_le : forall a b, elt a b <-> ~ ele b a.
Proof. intros. unfold elt, ele. destruct (eltb a b); split; congruence. Qed.

Lemma elt_le : forall a b, elt a b -> ele a b.
Proof. intros a b H. ext_crush. Qed.

Lemma ele_lt_trans : forall a b c, ele a b -> elt b c -> elt a c.
Proof. intros a b c H1 H2. ext_crush. Qed.

Lemma elt_le_trans : forall a b c, elt a b -> ele b c -> elt a c.
Proof. intros a b c H1 H2. ext_crush. Qed.

Lemma ele_PInf : forall a, ele a PInf.
Proof. intros. ext_crush. Qed.

Lemma ele_NInf : forall a, ele NInf a.
Proof. intros. ext_crush. Qed.

Lemma ele_NInf_inv : forall a, ele a NInf -> a = NInf.
Proof. intros a H. destruct a; unfold ele in H; simpl in H; congruence. Qed.

Lemma PInf_ele_inv : forall a, ele PInf a -> a = PInf.
Proof. intros a H. destruct a; unfold ele in H; simpl in H; congruence. Qed.

Lemma eeq_refl : forall a, eeq a a.
Proof. intros; split; apply ele_refl. Qed.

Lemma eeq_sym : forall a b, eeq a b -> eeq b a.
Proof. intros a b [H1 H2]; split; assumption. Qed.

Lemma eeq_trans : forall a b c, eeq a b -> eeq b c -> eeq a c.
Proof. intros a b c [H1 H2] [H3 H4]; split; eapply ele_trans; eassumption. Qed.

Lemma eeq_fin : forall x y, eeq (Fin x) (Fin y) <-> (x == y)%Q.
Proof.
  intros. unfold eeq. rewrite !ele_fin. split.
  - intros [H1 H2]. apply Qle_antisym; assumption.
  - intros H. rewrite H. split; apply Qle_refl.
Qed.

(* emin *)
Lemma emin_cases : forall a b, (emin a b = a /\ ele a b) \/ (emin a b = b /\ elt b a).
Proof.
  intros a b. unfold emin, ele, elt. destruct (eltb b a); [right|left]; split; reflexivity.
Qed.

Lemma emin_le_l : forall a b, ele (emin a b) a.
Proof.
  intros a b. destruct (emin_cases a b) as [[E H]|[E H]]; rewrite E.
  - apply ele_refl.
  - apply elt_le; assumption.
Qed.

Lemma emin_le_r : forall a b, ele (emin a b) b.
Proof.
  intros a b. destruct (emin_cases a b) as [[E H]|[E H]]; rewrite E.
  - assumption.
  - apply ele_refl.
Qed.

Lemma emin_glb : forall c a b, ele c (emin a b) <-> ele c a /\ ele c b.
Proof.
  intros c a b. split.
  - intro H. split; eapply ele_trans; try eassumption; [apply emin_le_l|apply emin_le_r].
  - intros [H1 H2]. destruct (emin_cases a b) as [[E _]|[E _]]; rewrite E; assumption.
Qed.

Lemma emin_mono : forall a b a' b', ele a a' -> ele b b' -> ele (emin a b) (emin a' b').
Proof.
  intros. apply emin_glb. split; eapply ele_trans; try eassumption; [apply emin_le_l|apply emin_le_r].
Qed.

Lemma emin_not_NInf : forall a b, a <> NInf -> b <> NInf -> emin a b <> NInf.
Proof. intros a b Ha Hb. destruct (emin_cases a b) as [[E _]|[E _]]; rewrite E; assumption. Qed.

Lemma cand_emin : forall f s u j, cand f s u j = emin (Fin (f u j)) (mf s u).
Proof. reflexivity. Qed.

(* ------------------------------------------------------------------ argmax / argmin *)
Lemma eltb_NInf_r : forall x, eltb x NInf = false.
Proof. destruct x; reflexivity. Qed.

Lemma argmax_spec : forall l, l <> [] ->
  argmax l < length l /\ forall j, ele (nth j l NInf) (nth (argmax l) l NInf).
Proof.
  induction l as [|x r IH]; [congruence|]. intros _.
  destruct r as [|y r'].
  - cbn [argmax nth]. rewrite eltb_NInf_r. split; [simpl; lia|].
    intros [|[|j]]; simpl; try apply ele_refl; apply ele_NInf.
  - assert (Hr : y :: r' <> []) by congruence. specialize (IH Hr). destruct IH as [IH1 IH2].
    remember (y :: r') as r. cbn [argmax].
    destruct (eltb x (nth (argmax r) r NInf)) eqn:E.
    + split; [simpl; lia|]. intros [|j]; cbn [nth].
      * apply elt_le. exact E.
      * apply IH2.
    + split; [simpl; lia|]. intros [|j]; cbn [nth].
      * apply ele_refl.
      * eapply ele_trans; [apply IH2|]. exact E.
Qed.

Lemma nth_map_in : forall {A B} (g : A -> B) (l : list A) i d d', i < length l ->
  nth i (map g l) d' = g (nth i l d).
Proof.
  intros A B g l. induction l as [|x r IH]; intros i d d' H; simpl in *; [lia|].
  destruct i; [reflexivity|]. apply IH. lia.
Qed.

(* the node selected by argmax over a list of nodes carries a maximal label *)
Lemma argmax_nodes : forall (m : nat -> ext) (l : list nat), l <> [] ->
  let t := nth (argmax (map m l)) l 0 in
  In t l /\ forall x, In x l -> ele (m x) (m t).
Proof.
  intros m l Hl t.
  assert (Hm : map m l <> []) by (destruct l; simpl; congruence).
  destruct (argmax_spec (map m l) Hm) as [H1 H2]. rewrite map_length in H1.
  split.
  - apply nth_In. exact H1.
  - intros x Hx. destruct (In_nth _ _ 0 Hx) as [j [Hj Ej]].
    specialize (H2 j). rewrite (nth_map_in m l j 0 NInf Hj) in H2.
    rewrite (nth_map_in m l _ 0 NInf H1) in H2. rewrite Ej in H2. exact H2.
Qed.

Lemma argminQ_spec : forall l, l <> [] ->
  argminQ l < length l /\ forall j, j < length l -> (nth (argminQ l) l 0 <= nth j l 0)%Q.
Proof.
  induction l as [|x r IH]; [congruence|]. intros _.
  destruct r as [|y r'].
  - simpl. split; [lia|]. intros j Hj. assert (j = 0) by lia. subst. simpl. apply Qle_refl.
  - assert (Hr : y :: r' <> []) by congruence. specialize (IH Hr). destruct IH as [IH1 IH2].
    remember (y :: r') as r.
    assert (E0 : argminQ (x :: r) = if Qltb (nth (argminQ r) r 0%Q) x then S (argminQ r) else 0).
    { subst r. reflexivity. }
    rewrite E0. destruct (Qltb (nth (argminQ r) r 0%Q) x) eqn:E.
    + apply Qltb_true in E. split; [simpl; lia|]. intros [|j] Hj; cbn [nth].
      * apply Qlt_le_weak. exact E.
      * apply IH2. simpl in Hj. lia.
    + apply Qltb_false in E. split; [simpl; lia|]. intros [|j] Hj; cbn [nth].
      * apply Qle_refl.
      * eapply Qle_trans; [exact E|]. apply IH2. simpl in Hj. lia.
Qed.

(* ------------------------------------------------------------------ edges, bottleneck *)
Lemma edges_cons2 : forall a b t, edges (a :: b :: t) = (a, b) :: edges (b :: t).
Proof. reflexivity. Qed.

Lemma edges_snoc : forall p x, p <> [] -> edges (p ++ [x]) = edges p ++ [(last p 0, x)].
Proof.
  induction p as [|a t IH]; [congruence|]. intros x _.
  destruct t as [|b t'].
  - reflexivity.
  - change ((a :: b :: t') ++ [x]) with (a :: ((b :: t') ++ [x])).
    assert (Ht : b :: t' <> []) by congruence.
    specialize (IH x Ht).
    change ((b :: t') ++ [x]) with (b :: (t' ++ [x])) in *.
    rewrite edges_cons2. rewrite IH. rewrite edges_cons2. reflexivity.
Qed.

Definition eflux (f : fmat) (e : nat * nat) : ext := Fin (f (fst e) (snd e)).

Lemma bottleneck_glb : forall f p c,
  ele c (bottleneck f p) <-> Forall (fun e => ele c (eflux f e)) (edges p).
Proof.
  intros f p c. unfold bottleneck. induction (edges p) as [|e es IH]; simpl.
  - split; intro; [constructor|apply ele_PInf].
  - rewrite emin_glb. rewrite IH. split.
    + intros [H1 H2]. constructor; assumption.
    + intro H. inversion H; subst. split; assumption.
Qed.

Lemma eeq_by_glb : forall a b, (forall c, ele c a <-> ele c b) -> eeq a b.
Proof.
  intros a b H. split.
  - apply H. apply ele_refl.
  - apply H. apply ele_refl.
Qed.

Lemma bottleneck_snoc : forall f p x, p <> [] ->
  eeq (bottleneck f (p ++ [x])) (emin (Fin (f (last p 0) x)) (bottleneck f p)).
Proof.
  intros f p x Hp. apply eeq_by_glb. intro c.
  rewrite bottleneck_glb, emin_glb, bottleneck_glb, edges_snoc by assumption.
  rewrite Forall_app. split.
  - intros [H1 H2]. inversion H2; subst. split; assumption.
  - intros [H1 H2]. split; [assumption|]. constructor; [exact H1|constructor].
Qed.

Lemma bottleneck_single : forall f a, bottleneck f [a] = PInf.
Proof. reflexivity. Qed.

Lemma bottleneck_not_NInf : forall f p, bottleneck f p <> NInf.
Proof.
  intros f p. unfold bottleneck. induction (edges p) as [|e es IH]; simpl.
  - discriminate.
  - apply emin_not_NInf; [discriminate|exact IH].
Qed.

(* the bottleneck of a path with at least one edge is the flux of one of its edges *)
Lemma bottleneck_is_edge : forall f p, edges p <> [] ->
  exists e, In e (edges p) /\ bottleneck f p = eflux f e.
Proof.
  intros f p. unfold bottleneck. induction (edges p) as [|e es IH]; [congruence|]. intros _.
  simpl. destruct es as [|e' es'].
  - exists e. split; [left; reflexivity|]. simpl. unfold emin. simpl. reflexivity.
  - assert (Hne : e' :: es' <> []) by congruence. destruct (IH Hne) as [e0 [Hin He0]].
    destruct (emin_cases (Fin (f (fst e) (snd e)))
                         (fold_right (fun e acc => emin (Fin (f (fst e) (snd e))) acc) PInf (e' :: es')))
      as [[E _]|[E _]]; rewrite E.
    + exists e. split; [left; reflexivity|reflexivity].
    + exists e0. split; [right; exact Hin|exact He0].
Qed.

(* ------------------------------------------------------------------ walks (any source-to-x route) *)
(* reach n f srcs x b : some walk (states < n, every edge of positive flux, repetitions allowed) leads
   from a source to x and its smallest edge flux is b (+inf for the empty walk) *)
Inductive reach (n : nat) (f : fmat) (srcs : list nat) : nat -> ext -> Prop :=
| reach_src : forall s, In s srcs -> s < n -> reach n f srcs s PInf
| reach_step : forall a x b, reach n f srcs a b -> x < n -> (0 < f a x)%Q ->
                             reach n f srcs x (emin (Fin (f a x)) b).

(* list form of the same: a non-empty list of states < n, consecutive states joined by positive edges *)
Definition is_walk (n : nat) (f : fmat) (p : list nat) : Prop :=
  p <> [] /\ Forall (fun v => v < n) p /\ Forall (fun e => (0 < f (fst e) (snd e))%Q) (edges p).

Lemma reach_of_walk_aux : forall n f srcs rest a p0 b,
  reach n f srcs a b -> eeq b (bottleneck f (p0 ++ [a])) ->
  Forall (fun v => v < n) rest ->
  Forall (fun e => (0 < f (fst e) (snd e))%Q) (edges (a :: rest)) ->
  exists b', reach n f srcs (last (a :: rest) 0) b' /\ eeq b' (bottleneck f (p0 ++ a :: rest)).
Proof.
  intros n f srcs rest. induction rest as [|x r IH]; intros a p0 b Hr Hb Hlt Hpos.
  - exists b. split; assumption.
  - rewrite edges_cons2 in Hpos. inversion Hpos as [|e es Hax Hpos']; subst. simpl in Hax.
    inversion Hlt as [|x' r' Hx Hlt']; subst.
    assert (Hstep : reach n f srcs x (emin (Fin (f a x)) b)) by (apply reach_step; assumption).
    specialize (IH x (p0 ++ [a]) _ Hstep).
    assert (Hb' : eeq (emin (Fin (f a x)) b) (bottleneck f ((p0 ++ [a]) ++ [x]))).
    { eapply eeq_trans; [|apply eeq_sym; apply bottleneck_snoc; destruct p0; simpl; congruence].
      rewrite last_last. split; apply emin_mono; try apply ele_refl; apply Hb. }
    destruct (IH Hb' Hlt' Hpos') as [b' [H1 H2]].
    exists b'. split.
    + exact H1.
    + rewrite <- app_assoc in H2. exact H2.
Qed.

Lemma reach_of_walk : forall n f srcs p, is_walk n f p -> In (hd 0 p) srcs ->
  exists b, reach n f srcs (last p 0) b /\ eeq b (bottleneck f p).
Proof.
  intros n f srcs p [Hne [Hlt Hpos]] Hsrc.
  destruct p as [|a rest]; [congruence|]. simpl in Hsrc.
  inversion Hlt as [|a' r' Ha Hlt']; subst.
  apply (reach_of_walk_aux n f srcs rest a [] PInf).
  - apply reach_src; assumption.
  - simpl. apply eeq_refl.
  - exact Hlt'.
  - exact Hpos.
Qed.

Lemma reach_lt : forall n f srcs x b, reach n f srcs x b -> x < n.
Proof. intros n f srcs x b H. destruct H; assumption. Qed.

Lemma reach_not_NInf : forall n f srcs x b, reach n f srcs x b -> b <> NInf.
Proof.
  intros n f srcs x b H. induction H.
  - discriminate.
  - apply emin_not_NInf; [discriminate|assumption].
Qed.
