(* C12: the FULL log-likelihood of the model T = X / rowsum(X) on the counts C,
     loglikT n C X = sum_kl c_kl ln (x_kl / x_k),       x_k = sum_l x_kl,
   and its split form  loglikS = sum_kl c_kl ln x_kl - sum_k c_k ln x_k  (equal whenever X is positive
   where C is).  Changing one symmetric pair x_ij = x_ji (or one diagonal entry) of X changes the full
   log-likelihood by exactly the change of the coordinate function ell_off (ell_diag) of
   Proof/PrinzProofs.v.  Consequences at a state satisfying the Prinz equations / at a fixed point of the
   sweep: every partial derivative of the log-likelihood along the symmetric coordinates vanishes, and
   the state is a strict coordinate-wise maximum of the full log-likelihood.  For two states the fixed
   point is the global maximum over ALL row-stochastic matrices.  (Global optimality for n >= 3 is not
   proved.) *)
From Coq Require Import List ZArith Reals Lra Lia Bool Arith.
From EV Require Import Prinz PrinzGen PrinzProofs PrinzSweep PrinzFixed PrinzMax.
Import ListNotations.
Open Scope R_scope.

(* ------------------------------------------------------------------ sums *)
Lemma sumR_plus n f g : sumR n (fun k => f k + g k) = sumR n f + sumR n g.
Proof. induction n as [|n IH]; [rewrite !sumR_0; ring | rewrite !sumR_S, IH; ring]. Qed.
Lemma sumR_minus n f g : sumR n (fun k => f k - g k) = sumR n f - sumR n g.
Proof. induction n as [|n IH]; [rewrite !sumR_0; ring | rewrite !sumR_S, IH; ring]. Qed.
Lemma sumR_scal n c f : sumR n (fun k => c * f k) = c * sumR n f.
Proof. induction n as [|n IH]; [rewrite !sumR_0; ring | rewrite !sumR_S, IH; ring]. Qed.
Lemma sumR_zero n : sumR n (fun _ => 0) = 0.
Proof. induction n as [|n IH]; [apply sumR_0 | rewrite sumR_S, IH; ring]. Qed.
Lemma sumR_le n f g : (forall k, (k < n)%nat -> f k <= g k) -> sumR n f <= sumR n g.
Proof.
  induction n as [|n IH]; intros H; [rewrite !sumR_0; lra|].
  rewrite !sumR_S. assert (sumR n f <= sumR n g) by (apply IH; intros; apply H; lia).
  assert (f n <= g n) by (apply H; lia). lra.
Qed.
Lemma sumR_ind n i a : (i < n)%nat -> sumR n (fun k => if Nat.eqb k i then a else 0) = a.
Proof.
  intros Hi. rewrite (sumR_ext n _ (upd1 (fun _ => 0) i a)) by (intros; reflexivity).
  rewrite sumR_upd by exact Hi. rewrite sumR_zero. ring.
Qed.

(* ------------------------------------------------------------------ the log-likelihood *)
Definition loglikT (n : nat) (C X : nat -> nat -> R) : R :=
  sumR n (fun k => sumR n (fun l => C k l * ln (X k l / sumR n (X k)))).
Definition loglikS (n : nat) (C : nat -> nat -> R) (Crs : nat -> R) (X : nat -> nat -> R) : R :=
  sumR n (fun k => sumR n (fun l => C k l * ln (X k l))) - sumR n (fun k => Crs k * ln (sumR n (X k))).

Definition supported (n : nat) (C X : nat -> nat -> R) : Prop :=
  (forall k l, (k < n)%nat -> (l < n)%nat -> 0 < C k l -> 0 < X k l) /\
  (forall k, (k < n)%nat -> 0 < sumR n (X k)).

Lemma loglik_split n C Crs X : CInv n C Crs -> supported n C X -> loglikT n C X = loglikS n C Crs X.
Proof.
  intros HC [Hsup Hrow]. unfold loglikT, loglikS. rewrite <- sumR_minus. apply sumR_ext. intros k Hk.
  rewrite (c_rs _ _ _ HC k Hk). rewrite Rmult_comm, <- sumR_scal, <- sumR_minus. apply sumR_ext. intros l Hl.
  destruct (Rle_lt_or_eq_dec 0 (C k l) (c_nn _ _ _ HC k l Hk Hl)) as [Hp | Hz].
  - unfold Rdiv. rewrite ln_mult by (auto using Rinv_0_lt_compat).
    rewrite ln_Rinv by (apply Hrow; exact Hk). ring.
  - rewrite <- Hz. ring.
Qed.

(* ------------------------------------------------------------------ changing one coordinate *)
Definition pair_set (X : nat -> nat -> R) (i j : nat) (v : R) : nat -> nat -> R := upd2 (upd2 X i j v) j i v.
Definition diag_set (X : nat -> nat -> R) (i : nat) (u : R) : nat -> nat -> R := upd2 X i i u.

Lemma pair_set_row n X i j v (h : nat -> R -> R) k : (i < n)%nat -> (j < n)%nat -> i <> j ->
  sumR n (fun l => h l (pair_set X i j v k l)) =
  sumR n (fun l => h l (X k l)) + (if Nat.eqb k i then h j v - h j (X i j) else 0)
                                + (if Nat.eqb k j then h i v - h i (X j i) else 0).
Proof.
  intros Hi Hj Hij. unfold pair_set.
  destruct (Nat.eqb_spec k j) as [-> | Hkj].
  - destruct (Nat.eqb_spec j i) as [E | _]; [exfalso; apply Hij; symmetry; exact E|].
    rewrite (sumR_ext n _ (upd1 (fun l => h l (X j l)) i (h i v))).
    + rewrite sumR_upd by exact Hi. ring.
    + intros l _. rewrite upd2_row_same. unfold upd1. destruct (Nat.eqb_spec l i) as [-> |]; [reflexivity|].
      rewrite upd2_row_other by (intro E; apply Hij; symmetry; exact E). reflexivity.
  - destruct (Nat.eqb_spec k i) as [-> | Hki].
    + rewrite (sumR_ext n _ (upd1 (fun l => h l (X i l)) j (h j v))).
      * rewrite sumR_upd by exact Hj. ring.
      * intros l _. rewrite upd2_row_other by exact Hij. rewrite upd2_row_same. unfold upd1.
        destruct (Nat.eqb_spec l j) as [-> |]; reflexivity.
    + rewrite (sumR_ext n _ (fun l => h l (X k l))); [ring|].
      intros l _. rewrite upd2_row_other by exact Hkj. rewrite upd2_row_other by exact Hki. reflexivity.
Qed.

Lemma diag_set_row n X i u (h : nat -> R -> R) k : (i < n)%nat ->
  sumR n (fun l => h l (diag_set X i u k l)) =
  sumR n (fun l => h l (X k l)) + (if Nat.eqb k i then h i u - h i (X i i) else 0).
Proof.
  intros Hi. unfold diag_set. destruct (Nat.eqb_spec k i) as [-> | Hki].
  - rewrite (sumR_ext n _ (upd1 (fun l => h l (X i l)) i (h i u))).
    + rewrite sumR_upd by exact Hi. ring.
    + intros l _. rewrite upd2_row_same. unfold upd1. destruct (Nat.eqb_spec l i) as [-> |]; reflexivity.
  - rewrite (sumR_ext n _ (fun l => h l (X k l))); [ring|].
    intros l _. rewrite upd2_row_other by exact Hki. reflexivity.
Qed.

Lemma sumR_two_ind n F i j a b : (i < n)%nat -> (j < n)%nat ->
  sumR n (fun k => F k + (if Nat.eqb k i then a else 0) + (if Nat.eqb k j then b else 0)) = sumR n F + a + b.
Proof. intros Hi Hj. rewrite !sumR_plus, !sumR_ind by assumption. reflexivity. Qed.

(* loglik_pair_coordinate: the change of the full log-likelihood when the pair x_ij = x_ji is set to v
   is the change of the coordinate function ell_off (no positivity needed: ln is total) *)
Theorem loglik_pair_coordinate n C Crs X i j v :
  (i < n)%nat -> (j < n)%nat -> i <> j -> X j i = X i j ->
  let s := C i j + C j i in
  let ri := sumR n (X i) - X i j in let rj := sumR n (X j) - X i j in
  loglikS n C Crs (pair_set X i j v) - loglikS n C Crs X =
  ell_off s (Crs i) (Crs j) ri rj v - ell_off s (Crs i) (Crs j) ri rj (X i j).
Proof.
  intros Hi Hj Hij Hsym s ri rj. unfold loglikS.
  rewrite (sumR_ext n (fun k => sumR n (fun l => C k l * ln (pair_set X i j v k l)))
            (fun k => sumR n (fun l => C k l * ln (X k l))
                      + (if Nat.eqb k i then C i j * (ln v - ln (X i j)) else 0)
                      + (if Nat.eqb k j then C j i * (ln v - ln (X j i)) else 0))).
  2:{ intros k _. rewrite (pair_set_row n X i j v (fun l x => C k l * ln x) k Hi Hj Hij).
      destruct (Nat.eqb_spec k i), (Nat.eqb_spec k j); subst; ring. }
  rewrite sumR_two_ind by assumption.
  rewrite (sumR_ext n (fun k => Crs k * ln (sumR n (pair_set X i j v k)))
            (fun k => Crs k * ln (sumR n (X k))
                      + (if Nat.eqb k i then Crs i * (ln (ri + v) - ln (sumR n (X i))) else 0)
                      + (if Nat.eqb k j then Crs j * (ln (rj + v) - ln (sumR n (X j))) else 0))).
  2:{ intros k _.
      pose proof (pair_set_row n X i j v (fun _ x => x) k Hi Hj Hij) as Rw. cbv beta in Rw.
      change (sumR n (fun l => pair_set X i j v k l)) with (sumR n (pair_set X i j v k)) in Rw.
      change (sumR n (fun l => X k l)) with (sumR n (X k)) in Rw. rewrite Rw.
      destruct (Nat.eqb_spec k i) as [Eki | Hki]; destruct (Nat.eqb_spec k j) as [Ekj | Hkj].
      - exfalso. apply Hij. congruence.
      - subst k. replace (sumR n (X i) + (v - X i j) + 0) with (ri + v) by (unfold ri; ring). ring.
      - subst k. replace (sumR n (X j) + 0 + (v - X j i)) with (rj + v) by (unfold rj; rewrite Hsym; ring). ring.
      - replace (sumR n (X k) + 0 + 0) with (sumR n (X k)) by ring. ring. }
  rewrite sumR_two_ind by assumption.
  unfold ell_off. rewrite Hsym.
  replace (ri + X i j) with (sumR n (X i)) by (unfold ri; ring).
  replace (rj + X i j) with (sumR n (X j)) by (unfold rj; ring).
  unfold s. ring.
Qed.

Theorem loglik_diag_coordinate n C Crs X i u :
  (i < n)%nat ->
  let r := sumR n (X i) - X i i in
  loglikS n C Crs (diag_set X i u) - loglikS n C Crs X =
  ell_diag (C i i) (Crs i) r u - ell_diag (C i i) (Crs i) r (X i i).
Proof.
  intros Hi r. unfold loglikS.
  rewrite (sumR_ext n (fun k => sumR n (fun l => C k l * ln (diag_set X i u k l)))
            (fun k => sumR n (fun l => C k l * ln (X k l))
                      + (if Nat.eqb k i then C i i * (ln u - ln (X i i)) else 0))).
  2:{ intros k _. rewrite (diag_set_row n X i u (fun l x => C k l * ln x) k Hi).
      destruct (Nat.eqb_spec k i); subst; ring. }
  rewrite sumR_plus, sumR_ind by exact Hi.
  rewrite (sumR_ext n (fun k => Crs k * ln (sumR n (diag_set X i u k)))
            (fun k => Crs k * ln (sumR n (X k))
                      + (if Nat.eqb k i then Crs i * (ln (r + u) - ln (sumR n (X i))) else 0))).
  2:{ intros k _.
      pose proof (diag_set_row n X i u (fun _ x => x) k Hi) as Rw. cbv beta in Rw.
      change (sumR n (fun l => diag_set X i u k l)) with (sumR n (diag_set X i u k)) in Rw.
      change (sumR n (fun l => X k l)) with (sumR n (X k)) in Rw. rewrite Rw.
      destruct (Nat.eqb_spec k i) as [Eki | Hki].
      - subst k. replace (sumR n (X i) + (u - X i i)) with (r + u) by (unfold r; ring). ring.
      - replace (sumR n (X k) + 0) with (sumR n (X k)) by ring. ring. }
  rewrite sumR_plus, sumR_ind by exact Hi.
  unfold ell_diag. replace (r + X i i) with (sumR n (X i)) by (unfold r; ring). ring.
Qed.

(* ------------------------------------------------------------------ at a solution of the Prinz equations *)
Section AtSolution.
  Variable n : nat.
  Variable C : nat -> nat -> R.
  Variable Crs : nat -> R.
  Hypothesis HC : CInv n C Crs.
  Variable s : state R.
  Hypothesis Hs : Inv n s.
  Hypothesis Hpos : forall i, (i < n)%nat -> 0 < snd s i.

  (* loglik_stationary: every partial derivative of the full log-likelihood, along the coordinates of a
     symmetric X (x_ij = x_ji moving together, and the diagonal entries), vanishes where the Prinz
     equations hold.  (Coordinates with x_ij = 0 are on the boundary of the domain and are excluded.) *)
  Theorem loglik_stationary : prinz_eqs n C Crs s ->
    (forall i j, (i < n)%nat -> (j < n)%nat -> i <> j -> 0 < fst s i j ->
       derivable_pt_lim (fun v => loglikS n C Crs (pair_set (fst s) i j v)) (fst s i j) 0) /\
    (forall i, (i < n)%nat -> 0 < fst s i i ->
       derivable_pt_lim (fun u => loglikS n C Crs (diag_set (fst s) i u)) (fst s i i) 0).
  Proof.
    intros Heq. split.
    - intros i j Hi Hj Hij Hx.
      pose proof (inv_sym _ _ Hs j i Hj Hi) as Hsym.
      set (X := fst s) in *. set (x := X i j) in *.
      set (ri := sumR n (X i) - x). set (rj := sumR n (X j) - x).
      set (f := ell_off (C i j + C j i) (Crs i) (Crs j) ri rj).
      apply (derivable_pt_lim_ext (fun v => (loglikS n C Crs X - f x) + f v)).
      { intros v. pose proof (loglik_pair_coordinate n C Crs X i j v Hi Hj Hij Hsym) as E. cbv zeta in E.
        fold x ri rj f in E. lra. }
      replace 0 with (0 + 0) by ring.
      apply (derivable_pt_lim_plus (fun _ => loglikS n C Crs X - f x) f); [apply derivable_pt_lim_const|].
      pose proof (Hpos i Hi) as Pi. pose proof (Hpos j Hj) as Pj.
      rewrite (inv_rs _ _ Hs i Hi) in Pi. rewrite (inv_rs _ _ Hs j Hj) in Pj. fold X in Pi, Pj.
      assert (E1 : ri + x = sumR n (X i)) by (unfold ri; ring).
      assert (E2 : rj + x = sumR n (X j)) by (unfold rj; ring).
      assert (Hz : dell_off (C i j + C j i) (Crs i) (Crs j) ri rj x = 0).
      { unfold dell_off. rewrite E1, E2. specialize (Heq i j Hi Hj).
        rewrite (inv_rs _ _ Hs i Hi), (inv_rs _ _ Hs j Hj) in Heq. fold X x in Heq. rewrite <- Heq.
        field. repeat split; lra. }
      rewrite <- Hz. apply ell_off_derivative; lra.
    - intros i Hi Hx.
      set (X := fst s) in *. set (x := X i i) in *.
      set (r := sumR n (X i) - x).
      set (f := ell_diag (C i i) (Crs i) r).
      apply (derivable_pt_lim_ext (fun v => (loglikS n C Crs X - f x) + f v)).
      { intros v. pose proof (loglik_diag_coordinate n C Crs X i v Hi) as E. cbv zeta in E.
        fold x r f in E. lra. }
      replace 0 with (0 + 0) by ring.
      apply (derivable_pt_lim_plus (fun _ => loglikS n C Crs X - f x) f); [apply derivable_pt_lim_const|].
      pose proof (Hpos i Hi) as Pi. rewrite (inv_rs _ _ Hs i Hi) in Pi. fold X in Pi.
      assert (E1 : r + x = sumR n (X i)) by (unfold r; ring).
      assert (Hz : dell_diag (C i i) (Crs i) r x = 0).
      { unfold dell_diag. rewrite E1. specialize (Heq i i Hi Hi).
        rewrite (inv_rs _ _ Hs i Hi) in Heq. fold X x in Heq.
        assert (Heq' : x * (Crs i / sumR n (X i)) = C i i).
        { replace (x * (Crs i / sumR n (X i) + Crs i / sumR n (X i))) with (2 * (x * (Crs i / sumR n (X i)))) in Heq by ring. lra. }
        rewrite <- Heq'. field. split; lra. }
      rewrite <- Hz. apply ell_diag_derivative; lra.
  Qed.

  (* fixed_point_coordinatewise_maximum: at a fixed point of the updates no change of a single
     symmetric pair (to any other positive value) and no change of a single diagonal entry reaches
     the log-likelihood of the fixed point *)
  Theorem fixed_point_coordinatewise_maximum : is_fixed n C Crs s ->
    (forall i j, (i < j < n)%nat -> qa (C i j) (C j i) (Crs i) (Crs j) <> 0 -> 0 < fst s i j ->
       forall w, 0 < w -> w <> fst s i j ->
       loglikS n C Crs (pair_set (fst s) i j w) < loglikS n C Crs (fst s)) /\
    (forall i, (i < n)%nat -> 0 < Crs i - C i i -> 0 < fst s i i ->
       forall w, 0 < w -> w <> fst s i i ->
       loglikS n C Crs (diag_set (fst s) i w) < loglikS n C Crs (fst s)).
  Proof.
    intros [Hfd Hfo]. split.
    - intros i j Hij Hqa Hx w Hw Hne.
      assert (Hi : (i < n)%nat) by lia. assert (Hj : (j < n)%nat) by lia.
      pose proof (inv_sym _ _ Hs j i Hj Hi) as Hsym.
      pose proof (loglik_pair_coordinate n C Crs (fst s) i j w Hi Hj ltac:(lia) Hsym) as E. cbv zeta in E.
      assert (Hap : qa (C i j) (C j i) (Crs i) (Crs j) > 0) by (pose proof (qa_nonneg n C Crs HC i j Hi Hj); lra).
      assert (H1 : 0 <= C i j + C j i).
      { pose proof (c_nn _ _ _ HC i j Hi Hj). pose proof (c_nn _ _ _ HC j i Hj Hi). lra. }
      pose proof (rest_nonneg n s i j Hs Hi Hj) as H2.
      pose proof (rest_nonneg n s j i Hs Hj Hi) as H3. rewrite Hsym in H3.
      pose proof (offdiag_is_coordinate_maximum (C i j) (C j i) (Crs i) (Crs j) (snd s i) (snd s j) (fst s i j) (fst s j i)
                    H1 H2 H3 Hap) as M.
      rewrite (Hfo i j Hij) in M. specialize (M Hx w Hw Hne).
      rewrite (inv_rs _ _ Hs i Hi), (inv_rs _ _ Hs j Hj) in M. lra.
    - intros i Hi Hd Hx w Hw Hne.
      pose proof (loglik_diag_coordinate n C Crs (fst s) i w Hi) as E. cbv zeta in E.
      pose proof (diag_is_coordinate_maximum (C i i) (Crs i) (snd s i) (fst s i i)
                    (c_nn _ _ _ HC i i Hi Hi) (rest_nonneg n s i i Hs Hi Hi) Hd) as M. cbv zeta in M.
      rewrite (Hfd i Hi) in M. specialize (M Hx w Hw Hne).
      rewrite (inv_rs _ _ Hs i Hi) in M. lra.
  Qed.
End AtSolution.

(* ------------------------------------------------------------------ the same, for the likelihood of T itself *)
Lemma prinz_supported n C Crs s : CInv n C Crs ->
  Inv n s -> (forall i, (i < n)%nat -> 0 < snd s i) -> prinz_eqs n C Crs s -> supported n C (fst s).
Proof.
  intros HC Hs Hpos Heq. split.
  - intros k l Hk Hl Hc.
    destruct (Rle_lt_or_eq_dec 0 (fst s k l) (inv_nn _ _ Hs k l Hk Hl)) as [Hp | Hz]; [exact Hp | exfalso].
    specialize (Heq k l Hk Hl). rewrite <- Hz, Rmult_0_l in Heq.
    pose proof (c_nn _ _ _ HC l k Hl Hk). lra.
  - intros k Hk. rewrite <- (inv_rs _ _ Hs k Hk). apply Hpos. exact Hk.
Qed.

Lemma pair_set_supported n C X i j w :
  (forall k l, (k < n)%nat -> (l < n)%nat -> 0 <= X k l) -> supported n C X ->
  (i < n)%nat -> (j < n)%nat -> i <> j -> X j i = X i j -> 0 < w -> supported n C (pair_set X i j w).
Proof.
  intros Hnn [Hsup Hrow] Hi Hj Hij Hsym Hw. split.
  - intros k l Hk Hl Hc. unfold pair_set, upd2.
    destruct (Nat.eqb k j && Nat.eqb l i); [exact Hw|].
    destruct (Nat.eqb k i && Nat.eqb l j); [exact Hw | apply Hsup; assumption].
  - intros k Hk.
    pose proof (pair_set_row n X i j w (fun _ x => x) k Hi Hj Hij) as Rw. cbv beta in Rw.
    change (sumR n (fun l => pair_set X i j w k l)) with (sumR n (pair_set X i j w k)) in Rw.
    change (sumR n (fun l => X k l)) with (sumR n (X k)) in Rw. rewrite Rw.
    pose proof (Hrow k Hk) as Pk.
    destruct (Nat.eqb_spec k i) as [Eki | Hki]; destruct (Nat.eqb_spec k j) as [Ekj | Hkj].
    + exfalso. apply Hij. congruence.
    + subst k. pose proof (sumR_ge_term n (X i) j (fun l Hl => Hnn i l Hi Hl) Hj). lra.
    + subst k. pose proof (sumR_ge_term n (X j) i (fun l Hl => Hnn j l Hj Hl) Hi). lra.
    + lra.
Qed.

Lemma diag_set_supported n C X i w :
  (forall k l, (k < n)%nat -> (l < n)%nat -> 0 <= X k l) -> supported n C X ->
  (i < n)%nat -> 0 < w -> supported n C (diag_set X i w).
Proof.
  intros Hnn [Hsup Hrow] Hi Hw. split.
  - intros k l Hk Hl Hc. unfold diag_set, upd2.
    destruct (Nat.eqb k i && Nat.eqb l i); [exact Hw | apply Hsup; assumption].
  - intros k Hk.
    pose proof (diag_set_row n X i w (fun _ x => x) k Hi) as Rw. cbv beta in Rw.
    change (sumR n (fun l => diag_set X i w k l)) with (sumR n (diag_set X i w k)) in Rw.
    change (sumR n (fun l => X k l)) with (sumR n (X k)) in Rw. rewrite Rw.
    pose proof (Hrow k Hk) as Pk.
    destruct (Nat.eqb_spec k i) as [Eki | Hki]; [subst k | lra].
    pose proof (sumR_ge_term n (X i) i (fun l Hl => Hnn i l Hi Hl) Hi). lra.
Qed.

(* fixed_point_coordinatewise_maximum for  log L(T) = sum_kl c_kl ln T_kl,  T = X / rowsum X *)
Theorem fixed_point_coordinatewise_maximum_T n C Crs s :
  CInv n C Crs -> Inv n s -> (forall i, (i < n)%nat -> 0 < snd s i) ->
  is_fixed n C Crs s -> prinz_eqs n C Crs s ->
  (forall i j, (i < j < n)%nat -> qa (C i j) (C j i) (Crs i) (Crs j) <> 0 -> 0 < fst s i j ->
     forall w, 0 < w -> w <> fst s i j ->
     loglikT n C (pair_set (fst s) i j w) < loglikT n C (fst s)) /\
  (forall i, (i < n)%nat -> 0 < Crs i - C i i -> 0 < fst s i i ->
     forall w, 0 < w -> w <> fst s i i ->
     loglikT n C (diag_set (fst s) i w) < loglikT n C (fst s)).
Proof.
  intros HC Hs Hpos Hfix Heq.
  pose proof (prinz_supported n C Crs s HC Hs Hpos Heq) as Hsup.
  destruct (fixed_point_coordinatewise_maximum n C Crs HC s Hs Hfix) as [M1 M2].
  split.
  - intros i j Hij Hqa Hx w Hw Hne.
    rewrite (loglik_split n C Crs (fst s) HC Hsup).
    rewrite (loglik_split n C Crs (pair_set (fst s) i j w) HC).
    + apply M1; assumption.
    + apply pair_set_supported; try assumption; try lia.
      * apply (inv_nn _ _ Hs).
      * apply (inv_sym _ _ Hs); lia.
  - intros i Hi Hd Hx w Hw Hne.
    rewrite (loglik_split n C Crs (fst s) HC Hsup).
    rewrite (loglik_split n C Crs (diag_set (fst s) i w) HC).
    + apply M2; assumption.
    + apply diag_set_supported; try assumption. apply (inv_nn _ _ Hs).
Qed.

(* ------------------------------------------------------------------ Gibbs' inequality, one row *)
Lemma ln_le_sub1 x : 0 < x -> ln x <= x - 1.
Proof. intros Hx. pose proof (exp_ineq1_le (ln x)) as H. rewrite exp_ln in H by exact Hx. lra. Qed.

Lemma gibbs_row n c p :
  (forall l, (l < n)%nat -> 0 <= c l) -> (forall l, (l < n)%nat -> 0 <= p l) ->
  (forall l, (l < n)%nat -> 0 < c l -> 0 < p l) -> sumR n p = 1 -> 0 < sumR n c ->
  sumR n (fun l => c l * ln (p l)) <= sumR n (fun l => c l * ln (c l / sumR n c)).
Proof.
  intros Hc Hp Hsup Hp1 Hct. set (ct := sumR n c) in *.
  assert (H : sumR n (fun l => c l * ln (p l) - c l * ln (c l / ct)) <= sumR n (fun l => ct * p l - c l)).
  { apply sumR_le. intros l Hl.
    destruct (Rle_lt_or_eq_dec 0 (c l) (Hc l Hl)) as [Hpos | Hz].
    - pose proof (Hsup l Hl Hpos) as Hpl.
      assert (Hx : 0 < p l * ct / c l) by (apply Rdiv_lt_0_compat; [apply Rmult_lt_0_compat|]; assumption).
      pose proof (ln_le_sub1 _ Hx) as Hln.
      assert (E : ln (p l * ct / c l) = ln (p l) - ln (c l / ct)).
      { unfold Rdiv. rewrite !ln_mult by (auto using Rinv_0_lt_compat, Rmult_lt_0_compat).
        rewrite !ln_Rinv by assumption. ring. }
      rewrite E in Hln.
      assert (c l * (ln (p l) - ln (c l / ct)) <= c l * (p l * ct / c l - 1)) by (apply Rmult_le_compat_l; lra).
      replace (c l * (p l * ct / c l - 1)) with (ct * p l - c l) in H by (field; lra). lra.
    - rewrite <- Hz. specialize (Hp l Hl). assert (0 <= ct * p l) by (apply Rmult_le_pos; lra). lra. }
  rewrite !sumR_minus, sumR_scal, Hp1 in H. fold ct in H. lra.
Qed.

(* no row-stochastic matrix has a larger log-likelihood than the row-normalised counts *)
Theorem loglikT_le_counts n C Crs X :
  CInv n C Crs -> (forall k, (k < n)%nat -> 0 < Crs k) ->
  (forall k l, (k < n)%nat -> (l < n)%nat -> 0 <= X k l) -> supported n C X ->
  loglikT n C X <= sumR n (fun k => sumR n (fun l => C k l * ln (C k l / Crs k))).
Proof.
  intros HC Hcp Hnn [Hsup Hrow]. unfold loglikT. apply sumR_le. intros k Hk.
  pose proof (Hrow k Hk) as Pk. rewrite (c_rs _ _ _ HC k Hk).
  apply (gibbs_row n (C k) (fun l => X k l / sumR n (X k))).
  - intros l Hl. apply (c_nn _ _ _ HC); assumption.
  - intros l Hl. unfold Rdiv. apply Rmult_le_pos; [apply Hnn; assumption | left; apply Rinv_0_lt_compat; exact Pk].
  - intros l Hl Hc. apply Rdiv_lt_0_compat; [apply Hsup; assumption | exact Pk].
  - rewrite sumR_scale. field. lra.
  - rewrite <- (c_rs _ _ _ HC k Hk). apply Hcp. exact Hk.
Qed.

(* ------------------------------------------------------------------ two states: the global maximum.
   Every 2-state row-stochastic matrix is reversible, and at a solution of the Prinz equations
   T = X / rowsum X is the row-normalised count matrix, the unconstrained maximum-likelihood estimate. *)
Lemma two_state_T_is_counts C Crs s :
  CInv 2 C Crs -> (forall k, (k < 2)%nat -> 0 < Crs k) ->
  Inv 2 s -> (forall i, (i < 2)%nat -> 0 < snd s i) -> prinz_eqs 2 C Crs s ->
  forall k l, (k < 2)%nat -> (l < 2)%nat -> fst s k l / sumR 2 (fst s k) = C k l / Crs k.
Proof.
  intros HC Hcp Hs Hpos Heq k l Hk Hl.
  pose proof (Hpos k Hk) as Pk. pose proof (Hcp k Hk) as Ck.
  pose proof (inv_rs _ _ Hs k Hk) as Rk. pose proof (c_rs _ _ _ HC k Hk) as CRk.
  rewrite <- Rk. rewrite sumR_2 in Rk, CRk.
  assert (D : fst s k k / snd s k = C k k / Crs k).
  { pose proof (Heq k k Hk Hk) as E.
    apply (Rmult_eq_reg_l (2 * Crs k)); [| lra].
    replace (2 * Crs k * (C k k / Crs k)) with (C k k + C k k) by (field; lra).
    rewrite <- E. field. lra. }
  destruct (Nat.eq_dec l k) as [-> | Hlk]; [exact D|].
  assert (Ex : fst s k l = snd s k - fst s k k).
  { assert (k = 0 \/ k = 1)%nat as [-> | ->] by lia; assert (l = 1 \/ l = 0)%nat as [-> | ->] by lia; try lia; lra. }
  assert (Ec : C k l = Crs k - C k k).
  { assert (k = 0 \/ k = 1)%nat as [-> | ->] by lia; assert (l = 1 \/ l = 0)%nat as [-> | ->] by lia; try lia; lra. }
  rewrite Ex, Ec.
  replace ((snd s k - fst s k k) / snd s k) with (1 - fst s k k / snd s k) by (field; lra).
  rewrite D. field. lra.
Qed.

Theorem two_state_global_maximum C Crs s :
  CInv 2 C Crs -> (forall k, (k < 2)%nat -> 0 < Crs k) ->
  Inv 2 s -> (forall i, (i < 2)%nat -> 0 < snd s i) -> prinz_eqs 2 C Crs s ->
  forall X, (forall k l, (k < 2)%nat -> (l < 2)%nat -> 0 <= X k l) -> supported 2 C X ->
  loglikT 2 C X <= loglikT 2 C (fst s).
Proof.
  intros HC Hcp Hs Hpos Heq X Hnn Hsup.
  assert (E : loglikT 2 C (fst s) = sumR 2 (fun k => sumR 2 (fun l => C k l * ln (C k l / Crs k)))).
  { unfold loglikT. apply sumR_ext. intros k Hk. apply sumR_ext. intros l Hl.
    rewrite (two_state_T_is_counts C Crs s HC Hcp Hs Hpos Heq k l Hk Hl). reflexivity. }
  rewrite E. apply (loglikT_le_counts 2 C Crs X); assumption.
Qed.
