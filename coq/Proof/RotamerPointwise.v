(* C20: the hysteresis automaton read frame by frame, on the translated code. *)
From Coq Require Import List ZArith QArith Bool Lia.
From EV Require Import RotamerBase RotamerGen Rotamer RotamerProofs.
Import ListNotations.

Lemma scan_step (step : Z -> Q -> Z) : forall rest cur t d dq, (t < length rest)%nat ->
  nth (S t) (cur :: scan step cur rest) d = step (nth t (cur :: scan step cur rest) d) (nth t rest dq).
Proof.
  induction rest as [|a r IH]; intros cur t d dq Ht; cbn [length] in Ht; [lia|].
  destruct t as [|t]; [reflexivity|].
  cbn [scan]. change (nth (S (S t)) (cur :: step cur a :: scan step (step cur a) r) d)
    with (nth (S t) (step cur a :: scan step (step cur a) r) d).
  change (nth (S t) (cur :: step cur a :: scan step (step cur a) r) d)
    with (nth t (step cur a :: scan step (step cur a) r) d).
  change (nth (S t) (a :: r) dq) with (nth t r dq).
  apply IH. lia.
Qed.

(* first frame: the basin containing its angle; afterwards the state changes only when the angle
   leaves the current basin widened by the buffer, and then becomes the basin of the new angle *)
Theorem rotamers_frame_by_frame hb n bmax b angles sts d dq :
  lib_set hb n bmax -> buffer_ok bmax b -> angles_ok hb n b angles ->
  gen_rotamers angles hb b = Some sts ->
  nth 0 sts d = basin hb (nth 0 angles dq) /\
  forall t, (S t < length angles)%nat ->
    nth (S t) sts d = if in_widened hb b (nth t sts d) (nth (S t) angles dq)
                      then nth t sts d else basin hb (nth (S t) angles dq).
Proof.
  intros L Hb Hok H. rewrite (run_eq_spec hb n bmax b angles L Hb Hok) in H.
  unfold spec_run in H. destruct angles as [|a0 rest]; [discriminate|].
  injection H as <-. split; [reflexivity|].
  intros t Ht. cbn [length] in Ht.
  rewrite (scan_step (spec_step hb b) rest (basin hb a0) t d dq ltac:(lia)).
  change (nth (S t) (a0 :: rest) dq) with (nth t rest dq). reflexivity.
Qed.
