(* C16, part 3: the implied-timescale formula of timescales.calc_imp_times over the reals,
   imp_times = -lag_time / np.log(e_vals[1:]).  (The statement lines of calc_imp_times are checked
   verbatim by translator/tr_msm.py.)  Uses Coq's axiomatised real numbers. *)
From Coq Require Import Reals Lra List Arith.
Import ListNotations.
Open Scope R_scope.

Definition imp_time (lag lam : R) : R := - lag / ln lam.

(* e_vals[1:] : the stationary eigenvalue is dropped *)
Definition imp_times (lag : R) (e_vals : list R) : list R := map (imp_time lag) (tl e_vals).

Lemma ln_neg_on_unit lam : 0 < lam < 1 -> ln lam < 0.
Proof. intros [H0 H1]. rewrite <- ln_1. apply ln_increasing; assumption. Qed.

(* a decaying mode (0 < lambda < 1) has a positive timescale *)
Theorem imp_time_positive : forall lag lam, 0 < lag -> 0 < lam < 1 -> 0 < imp_time lag lam.
Proof.
  intros lag lam Hl H. unfold imp_time. pose proof (ln_neg_on_unit lam H) as Hn.
  replace (- lag / ln lam) with (lag * / (- ln lam)).
  - apply Rmult_lt_0_compat; [exact Hl|]. apply Rinv_0_lt_compat. lra.
  - field. lra.
Qed.

(* it is the time after which the mode has decayed by 1/e per unit ... : lambda = exp(-lag/t) *)
Theorem imp_time_inverts_decay : forall lag lam, 0 < lam < 1 -> exp (- lag / imp_time lag lam) = lam \/ lag = 0.
Proof.
  intros lag lam H. destruct (Req_dec lag 0) as [E|E]; [right; exact E|left].
  unfold imp_time. pose proof (ln_neg_on_unit lam H) as Hn.
  replace (- lag / (- lag / ln lam)) with (ln lam) by (field; split; lra).
  apply exp_ln. lra.
Qed.

(* larger eigenvalue = slower process: eigenvalues in descending order give timescales in
   descending order *)
Theorem imp_time_monotone : forall lag l1 l2, 0 < lag -> 0 < l1 -> l1 < l2 -> l2 < 1 ->
  imp_time lag l1 < imp_time lag l2.
Proof.
  intros lag l1 l2 Hl H0 H12 H1. unfold imp_time.
  assert (Hn1 : ln l1 < 0) by (apply ln_neg_on_unit; lra).
  assert (Hn2 : ln l2 < 0) by (apply ln_neg_on_unit; lra).
  assert (Hlt : ln l1 < ln l2) by (apply ln_increasing; lra).
  replace (- lag / ln l1) with (lag * / (- ln l1)) by (field; lra).
  replace (- lag / ln l2) with (lag * / (- ln l2)) by (field; lra).
  apply Rmult_lt_compat_l; [exact Hl|].
  apply Rinv_lt_contravar; [|lra].
  apply Rmult_lt_0_compat; lra.
Qed.

Theorem imp_times_length : forall lag ev, length (imp_times lag ev) = pred (length ev).
Proof. intros lag [|x ev]; unfold imp_times; cbn [tl]; rewrite map_length; reflexivity. Qed.

Theorem imp_times_nth : forall lag ev k, (S k < length ev)%nat ->
  nth k (imp_times lag ev) 0 = - lag / ln (nth (S k) ev 1).
Proof.
  intros lag [|x ev] k H; cbn [length] in H; [inversion H|]. unfold imp_times. cbn [tl nth].
  assert (Hk : (k < length ev)%nat) by (apply Nat.succ_lt_mono; exact H).
  rewrite (nth_indep _ 0 (imp_time lag 1)) by (rewrite map_length; exact Hk).
  rewrite map_nth. reflexivity.
Qed.

Theorem imp_times_all_positive : forall lag ev, 0 < lag ->
  Forall (fun lam => 0 < lam < 1) (tl ev) -> Forall (fun t => 0 < t) (imp_times lag ev).
Proof.
  intros lag ev Hl H. unfold imp_times. induction H as [|lam l Hlam _ IH]; cbn [map]; constructor.
  - apply imp_time_positive; assumption.
  - exact IH.
Qed.
