(* C08: the array expressions regenerated from enspara/tpt/tpt.py (Gen/FluxGen.v, written in the
   vocabulary of Base/FluxBase.v) equal the hand-written model Model/Flux.v.
   A transposed broadcast, a lost diagonal reset, a flipped sign of `fluxes - fluxes.T`, a changed
   positive-part selection or `reverse = forward` in the SOURCE changes Gen/FluxGen.v and breaks a
   proof of this file. *)
From Coq Require Import List Arith QArith Bool Lia.
From EV Require Import Flux FluxBase FluxGen FluxProofs.
Import ListNotations.
Open Scope Q_scope.

(* ================================================================= the vocabulary vs the model *)
Lemma map_nth_seq : forall {A B} (f : A -> B) (l : list A) d,
  map (fun i => f (nth i l d)) (seq 0 (length l)) = map f l.
Proof.
  intros A B f l d. induction l as [|x l IH]; [reflexivity|].
  cbn [length seq map nth]. f_equal.
  rewrite <- seq_shift, map_map. exact IH.
Qed.

(* M * w[:, None], by index = by zipping *)
Lemma row_scale_eq : forall w M, length w = length M -> row_scale w M = scale_rows w M.
Proof.
  intros w M Hl. unfold row_scale, scale_rows.
  apply (nth_ext _ _ [] []).
  - unfold mapi. rewrite mapi_from_length, map2_length; congruence.
  - intros i Hi. unfold mapi in Hi. rewrite mapi_from_length in Hi.
    rewrite (nth_mapi _ _ i [] []) by assumption.
    rewrite (nth_map2 _ _ _ i [] 0 []) by lia.
    reflexivity.
Qed.

(* M * v (trailing axis), by index = by zipping *)
Lemma col_scale_eq : forall v M, (forall i, (i < length M)%nat -> length (nth i M []) = length v) ->
  col_scale v M = scale_cols v M.
Proof.
  intros v M Hrow. unfold col_scale, scale_cols.
  apply (nth_ext _ _ [] []).
  - rewrite !map_length. reflexivity.
  - intros i Hi. rewrite map_length in Hi.
    rewrite !(nth_map_in _ _ i [] []) by assumption.
    specialize (Hrow i Hi). remember (nth i M []) as row eqn:Er. clear Er.
    apply (nth_ext _ _ 0 0).
    + unfold mapi. rewrite mapi_from_length, map2_length; congruence.
    + intros j Hj. unfold mapi in Hj. rewrite mapi_from_length in Hj.
      rewrite (nth_mapi _ _ j 0 0) by assumption.
      rewrite (nth_map2 _ _ _ j 0 0 0) by lia.
      reflexivity.
Qed.

(* the fancy-index diagonal reset over arange(n) = the full diagonal reset, when n covers the rows *)
Lemma zero_diag_n_eq : forall n M, (length M <= n)%nat -> zero_diag_n n M = zero_diag M.
Proof.
  intros n M Hl. unfold zero_diag_n, zero_diag.
  apply (nth_ext _ _ [] []).
  - unfold mapi. rewrite !mapi_from_length. reflexivity.
  - intros i Hi. unfold mapi in Hi. rewrite mapi_from_length in Hi.
    rewrite !(nth_mapi _ _ i [] []) by assumption.
    assert (Hin : (i <? n)%nat = true) by (apply Nat.ltb_lt; lia).
    rewrite Hin.
    apply (nth_ext _ _ 0 0).
    + unfold mapi. rewrite !mapi_from_length. reflexivity.
    + intros j Hj. unfold mapi in Hj. rewrite mapi_from_length in Hj.
      rewrite !(nth_mapi _ _ j 0 0) by assumption.
      rewrite andb_true_r. reflexivity.
Qed.

(* M.T = the model's n x n transpose on an n x n matrix *)
Lemma transpose_m_eq : forall n M, length M = n ->
  (forall i, (i < n)%nat -> length (nth i M []) = n) -> transpose_m M = transpose n M.
Proof.
  intros n M Hl Hrow. unfold transpose_m, transpose.
  assert (Hw : length (hd [] M) = n).
  { destruct M as [|r M']; [exact Hl|]. cbn [hd]. apply (Hrow 0%nat). cbn [length] in Hl. lia. }
  rewrite Hw. apply map_ext. intros j.
  unfold ent. rewrite <- Hl. exact (eq_sym (map_nth_seq (fun row => nth j row 0) M [])).
Qed.

(* the two positive-part selections *)
Lemma set_where_lt_0_eq : forall M, set_where_lt 0 0 M = clip_neg M.
Proof. reflexivity. Qed.

Lemma mat_maximum_0_eq : forall M, mat_maximum 0 M = map (map qmax0) M.
Proof. reflexivity. Qed.

Lemma set_where_lt_0_pos_part : forall M, set_where_lt 0 0 M = pos_part_m M.
Proof. reflexivity. Qed.

Lemma mat_maximum_0_pos_part : forall M, mat_maximum 0 M = pos_part_m M.
Proof.
  intros M. unfold mat_maximum, pos_part_m. apply map_ext. intros r. apply map_ext. intros x.
  change (qmaximum 0 x) with (qmax0 x). apply qmax0_pos_part.
Qed.

(* ================================================================= _get_data_from_tprob *)
Lemma gen_get_data_eq : forall pi q, gen_get_data pi q = (pi, length pi, q, reverse_committors q).
Proof. reflexivity. Qed.

(* ================================================================= reactive_fluxes *)
Definition flux_body (T : list (list Q)) (pi q : list Q) : list (list Q) :=
  zero_diag (scale_cols q (scale_rows (vmul pi (reverse_committors q)) T)).

Lemma flux_expr_eq : forall T pi q, shapes_ok T pi q = true ->
  zero_diag_n (length pi) (col_scale q (row_scale (hadamard_v pi (scalar_sub_vec 1 q)) T)) = flux_body T pi q.
Proof.
  intros T pi q S. apply shapes_ok_spec in S. cbv zeta in S. destruct S as (Hn & HT & Hrow & Hq).
  change (hadamard_v pi (scalar_sub_vec 1 q)) with (vmul pi (reverse_committors q)).
  assert (Hw : length (vmul pi (reverse_committors q)) = length pi).
  { unfold vmul. rewrite map2_length; unfold reverse_committors; rewrite ?map_length; congruence. }
  rewrite row_scale_eq by congruence.
  assert (L1 : length (scale_rows (vmul pi (reverse_committors q)) T) = length pi).
  { unfold scale_rows. rewrite map2_length; congruence. }
  rewrite col_scale_eq.
  - rewrite zero_diag_n_eq; [reflexivity|]. unfold scale_cols. rewrite map_length. lia.
  - intros i Hi. rewrite L1 in Hi. unfold scale_rows.
    rewrite (nth_map2 _ _ _ i [] 0 []) by lia. rewrite map_length. rewrite Hrow by assumption. congruence.
Qed.

Lemma gen_reactive_fluxes_dense_body : forall T pi q, shapes_ok T pi q = true ->
  gen_reactive_fluxes_dense T pi q = flux_body T pi q.
Proof. intros T pi q S. rewrite <- (flux_expr_eq T pi q S). reflexivity. Qed.

Lemma gen_reactive_fluxes_sparse_body : forall T pi q, shapes_ok T pi q = true ->
  gen_reactive_fluxes_sparse T pi q = flux_body T pi q.
Proof. intros T pi q S. rewrite <- (flux_expr_eq T pi q S). reflexivity. Qed.

Theorem gen_reactive_fluxes_dense_correct : forall T pi q,
  reactive_fluxes T pi q = if shapes_ok T pi q then Some (gen_reactive_fluxes_dense T pi q) else None.
Proof.
  intros T pi q. unfold reactive_fluxes. destruct (shapes_ok T pi q) eqn:S; [|reflexivity].
  rewrite (gen_reactive_fluxes_dense_body T pi q S). reflexivity.
Qed.

Theorem gen_reactive_fluxes_sparse_correct : forall T pi q,
  reactive_fluxes T pi q = if shapes_ok T pi q then Some (gen_reactive_fluxes_sparse T pi q) else None.
Proof.
  intros T pi q. unfold reactive_fluxes. destruct (shapes_ok T pi q) eqn:S; [|reflexivity].
  rewrite (gen_reactive_fluxes_sparse_body T pi q S). reflexivity.
Qed.

(* ================================================================= net_fluxes *)
Lemma flux_body_transpose : forall T pi q, shapes_ok T pi q = true ->
  transpose_m (flux_body T pi q) = transpose (length pi) (flux_body T pi q).
Proof.
  intros T pi q S.
  assert (H : reactive_fluxes T pi q = Some (flux_body T pi q)).
  { unfold reactive_fluxes. rewrite S. reflexivity. }
  destruct (reactive_fluxes_shape T pi q _ H) as [Hl Hrow].
  apply transpose_m_eq; assumption.
Qed.

Theorem gen_net_fluxes_dense_correct : forall T pi q,
  net_fluxes T pi q = if shapes_ok T pi q then Some (gen_net_fluxes_dense T pi q) else None.
Proof.
  intros T pi q. unfold net_fluxes, reactive_fluxes. destruct (shapes_ok T pi q) eqn:S; [|reflexivity].
  f_equal. unfold gen_net_fluxes_dense. cbv zeta.
  rewrite (gen_reactive_fluxes_dense_body T pi q S), (flux_body_transpose T pi q S).
  reflexivity.
Qed.

Theorem gen_net_fluxes_sparse_correct : forall T pi q,
  net_fluxes_sparse T pi q = if shapes_ok T pi q then Some (gen_net_fluxes_sparse T pi q) else None.
Proof.
  intros T pi q. unfold net_fluxes_sparse, reactive_fluxes. destruct (shapes_ok T pi q) eqn:S; [|reflexivity].
  f_equal. unfold gen_net_fluxes_sparse. cbv zeta.
  rewrite (gen_reactive_fluxes_sparse_body T pi q S), (flux_body_transpose T pi q S).
  reflexivity.
Qed.

(* ================================================================= reactive_populations *)
Lemma gen_reactive_populations_body : forall pi q,
  gen_reactive_populations pi q = map (fun x => x / qsum (densities pi q)) (densities pi q).
Proof. reflexivity. Qed.

Theorem gen_reactive_populations_correct : forall pi q,
  reactive_populations pi q =
  if (1 <=? length pi)%nat && (length q =? length pi)%nat
  then (if Qeq_bool (qsum (densities pi q)) 0 then None else Some (gen_reactive_populations pi q))
  else None.
Proof. reflexivity. Qed.

(* ================================================================= the property on the generated text *)
Lemma gen_flux_entry : forall T pi q, shapes_ok T pi q = true ->
  forall i j, (i < length pi)%nat -> (j < length pi)%nat ->
  ent (gen_reactive_fluxes_dense T pi q) i j ==
    (if (i =? j)%nat then 0 else vnth pi i * (1 - vnth q i) * ent T i j * vnth q j) /\
  ent (gen_reactive_fluxes_sparse T pi q) i j ==
    (if (i =? j)%nat then 0 else vnth pi i * (1 - vnth q i) * ent T i j * vnth q j).
Proof.
  intros T pi q S i j Hi Hj.
  assert (H : reactive_fluxes T pi q = Some (flux_body T pi q)).
  { unfold reactive_fluxes. rewrite S. reflexivity. }
  rewrite (gen_reactive_fluxes_dense_body T pi q S), (gen_reactive_fluxes_sparse_body T pi q S).
  split; exact (reactive_fluxes_entry T pi q _ H i j Hi Hj).
Qed.

Lemma gen_net_entry : forall T pi q, shapes_ok T pi q = true ->
  forall i j, (i < length pi)%nat -> (j < length pi)%nat ->
  ent (gen_net_fluxes_dense T pi q) i j =
    pos_part (ent (gen_reactive_fluxes_dense T pi q) i j - ent (gen_reactive_fluxes_dense T pi q) j i) /\
  ent (gen_net_fluxes_sparse T pi q) i j =
    pos_part (ent (gen_reactive_fluxes_sparse T pi q) i j - ent (gen_reactive_fluxes_sparse T pi q) j i).
Proof.
  intros T pi q S i j Hi Hj.
  pose proof (gen_reactive_fluxes_dense_correct T pi q) as HF. rewrite S in HF.
  pose proof (gen_reactive_fluxes_sparse_correct T pi q) as HFs. rewrite S in HFs.
  pose proof (gen_net_fluxes_dense_correct T pi q) as HN. rewrite S in HN.
  pose proof (gen_net_fluxes_sparse_correct T pi q) as HNs. rewrite S in HNs.
  rewrite net_fluxes_sparse_eq in HNs.
  split.
  - exact (net_fluxes_entry T pi q _ _ HF HN i j Hi Hj).
  - exact (net_fluxes_entry T pi q _ _ HFs HNs i j Hi Hj).
Qed.

(* the vocabulary lemmas, collected *)
Lemma gen_vocabulary :
  (forall w M, length w = length M -> row_scale w M = scale_rows w M) /\
  (forall v M, (forall i, (i < length M)%nat -> length (nth i M []) = length v) -> col_scale v M = scale_cols v M) /\
  (forall n M, (length M <= n)%nat -> zero_diag_n n M = zero_diag M) /\
  (forall n M, length M = n -> (forall i, (i < n)%nat -> length (nth i M []) = n) -> transpose_m M = transpose n M) /\
  (forall M, set_where_lt 0 0 M = pos_part_m M) /\ (forall M, mat_maximum 0 M = pos_part_m M).
Proof.
  exact (conj row_scale_eq (conj col_scale_eq (conj zero_diag_n_eq (conj transpose_m_eq
        (conj set_where_lt_0_pos_part mat_maximum_0_pos_part))))).
Qed.
