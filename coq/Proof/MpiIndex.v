(* C14: index maps of the striped layout.
   flat <-> (row, column) of a ragged array; (rank, local index) <-> global frame id;
   randind maps the broadcast draw bijectively onto the valid (owner, local index) pairs. *)
From Coq Require Import List ZArith QArith Bool Arith Lia Permutation.
From EV Require Import Cluster Mpi MpiBase.
Import ListNotations.
Local Open Scope nat_scope.

(* ------------------------------------------------------------------ small helpers *)
Lemma sum_nat_cons : forall x l, sum_nat (x :: l) = x + sum_nat l.
Proof. reflexivity. Qed.

Lemma flat_0 : forall lens f, flat lens (0, f) = f.
Proof. intros. reflexivity. Qed.

Lemma flat_cons_S : forall L r t f, flat (L :: r) (S t, f) = L + flat r (t, f).
Proof. intros. unfold flat. cbn [fst snd firstn]. rewrite sum_nat_cons. lia. Qed.

(* ------------------------------------------------------------------ unflat / flat *)
Lemma unflat_flat : forall lens p t f, unflat lens p = Some (t, f) ->
  t < length lens /\ f < nth t lens 0 /\ flat lens (t, f) = p.
Proof.
  induction lens as [|L r IH]; intros p t f H.
  - discriminate.
  - cbn [unflat] in H. destruct (Nat.ltb p L) eqn:E.
    + inversion H; subst. apply Nat.ltb_lt in E. cbn [length nth]. rewrite flat_0.
      repeat split; lia.
    + apply Nat.ltb_ge in E.
      destruct (unflat r (p - L)) as [[t' f']|] eqn:U; [|discriminate].
      inversion H; subst. apply IH in U. destruct U as [H1 [H2 H3]].
      cbn [length nth]. rewrite flat_cons_S. repeat split; lia.
Qed.

Lemma flat_unflat : forall lens t f, t < length lens -> f < nth t lens 0 ->
  unflat lens (flat lens (t, f)) = Some (t, f).
Proof.
  induction lens as [|L r IH]; intros t f Ht Hf.
  - cbn in Ht; lia.
  - destruct t as [|t'].
    + rewrite flat_0. cbn [nth] in Hf. cbn [unflat]. apply Nat.ltb_lt in Hf. rewrite Hf. reflexivity.
    + rewrite flat_cons_S. cbn [nth] in Hf. cbn [length] in Ht. cbn [unflat].
      replace (Nat.ltb (L + flat r (t', f)) L) with false by (symmetry; apply Nat.ltb_ge; lia).
      replace (L + flat r (t', f) - L) with (flat r (t', f)) by lia.
      rewrite IH by lia. reflexivity.
Qed.

Lemma unflat_total : forall lens p, p < sum_nat lens -> exists tf, unflat lens p = Some tf.
Proof.
  induction lens as [|L r IH]; intros p H.
  - cbn in H; lia.
  - rewrite sum_nat_cons in H. cbn [unflat]. destruct (Nat.ltb p L) eqn:E.
    + eexists; reflexivity.
    + apply Nat.ltb_ge in E. destruct (IH (p - L)) as [[t f] U]; [lia|].
      rewrite U. eexists; reflexivity.
Qed.

Lemma unflat_range : forall lens p tf, unflat lens p = Some tf -> p < sum_nat lens.
Proof.
  induction lens as [|L r IH]; intros p tf H.
  - discriminate.
  - rewrite sum_nat_cons. cbn [unflat] in H. destruct (Nat.ltb p L) eqn:E.
    + apply Nat.ltb_lt in E. lia.
    + apply Nat.ltb_ge in E.
      destruct (unflat r (p - L)) as [[t f]|] eqn:U; [|discriminate].
      apply IH in U. lia.
Qed.

(* ------------------------------------------------------------------ concat and unflat *)
Lemma length_concat_sum : forall {A} (ll : list (list A)),
  length (concat ll) = sum_nat (map (@length A) ll).
Proof.
  intros A ll; induction ll as [|x r IH]; [reflexivity|].
  cbn [concat map]. rewrite app_length, sum_nat_cons, IH. reflexivity.
Qed.

Lemma concat_unflat : forall {A} (ll : list (list A)) p j f,
  unflat (map (@length A) ll) p = Some (j, f) ->
  exists row, nth_error ll j = Some row /\ nth_error (concat ll) p = nth_error row f.
Proof.
  intros A ll; induction ll as [|x r IH]; intros p j f H.
  - discriminate.
  - cbn [map unflat] in H. cbn [concat]. destruct (Nat.ltb p (length x)) eqn:E.
    + inversion H; subst. apply Nat.ltb_lt in E. exists x. split; [reflexivity|].
      apply nth_error_app1; assumption.
    + apply Nat.ltb_ge in E.
      destruct (unflat (map (@length A) r) (p - length x)) as [[t' f']|] eqn:U; [|discriminate].
      inversion H; subst. apply IH in U. destruct U as [row [H1 H2]].
      exists row. split; [exact H1|].
      rewrite nth_error_app2 by assumption. exact H2.
Qed.

(* ------------------------------------------------------------------ rows of the id array *)
Lemma firstn_seq_app : forall s L n, firstn L (seq s (L + n)) = seq s L.
Proof.
  intros. rewrite seq_app, firstn_app, seq_length, Nat.sub_diag. cbn [firstn].
  rewrite app_nil_r. apply firstn_all2. rewrite seq_length. lia.
Qed.

Lemma skipn_seq_app : forall s L n, skipn L (seq s (L + n)) = seq (s + L) n.
Proof.
  intros. rewrite seq_app, skipn_app, seq_length, Nat.sub_diag. cbn [skipn].
  rewrite skipn_all2 by (rewrite seq_length; lia). reflexivity.
Qed.

Lemma rows_nth : forall lens s t, t < length lens ->
  nth_error (split_by lens (seq s (sum_nat lens))) t
  = Some (seq (s + sum_nat (firstn t lens)) (nth t lens 0)).
Proof.
  induction lens as [|L r IH]; intros s t Ht.
  - cbn in Ht; lia.
  - rewrite sum_nat_cons. cbn [split_by]. rewrite firstn_seq_app, skipn_seq_app.
    destruct t as [|t'].
    + cbn [nth_error firstn nth]. f_equal. f_equal. unfold sum_nat; cbn [fold_right]; lia.
    + cbn [nth_error firstn nth]. cbn [length] in Ht. rewrite IH by lia.
      rewrite sum_nat_cons. f_equal. f_equal. lia.
Qed.

Lemma nth_error_seq : forall a n f, f < n -> nth_error (seq a n) f = Some (a + f).
Proof.
  intros a n f H. rewrite (nth_error_nth' (seq a n) 0) by (rewrite seq_length; exact H).
  rewrite seq_nth by exact H. reflexivity.
Qed.

Lemma every_In : forall {A} P (l : list A) k x, In x (every P k l) -> In x l.
Proof.
  intros A P l; induction l as [|y t IH]; intros k x H; [exact H|].
  destruct k; cbn [every] in H.
  - destruct H as [H|H]; [left; exact H|right; eapply IH; eassumption].
  - right; eapply IH; eassumption.
Qed.

Lemma lens_every : forall {A} P r lens (g : list A), length g = sum_nat lens ->
  map (@length A) (every P r (split_by lens g)) = every P r lens.
Proof. intros. rewrite <- every_map, split_by_lengths by assumption. reflexivity. Qed.

(* ------------------------------------------------------------------ t <-> (t mod P, t / P) *)
Lemma stripe_pos : forall P t, 1 <= P -> t mod P + t / P * P = t.
Proof. intros P t HP. pose proof (Nat.div_mod t P). lia. Qed.

Lemma stripe_mod : forall P r j, r < P -> (r + j * P) mod P = r.
Proof. intros. rewrite Nat.mod_add by lia. apply Nat.mod_small; assumption. Qed.

Lemma stripe_div : forall P r j, r < P -> (r + j * P) / P = j.
Proof. intros. rewrite Nat.div_add by lia. rewrite Nat.div_small by assumption. reflexivity. Qed.

(* ------------------------------------------------------------------ stripe bijection *)
Lemma ctr_ids_mpi_convert : forall P lens g ri, 1 <= P ->
  ctr_ids_mpi P lens g = Some ri -> convert_local P lens ri = Some g /\ fst ri < P.
Proof.
  intros P lens g ri HP H. unfold ctr_ids_mpi in H.
  destruct (unflat lens g) as [[t f]|] eqn:U; [|discriminate].
  apply unflat_flat in U. destruct U as [Ht [Hf Hg]].
  unfold ctr_pair_mpi in H. cbn [fst snd] in H.
  destruct (nth_error (every P (t mod P) lens) (t / P)) as [L|] eqn:EL; [|discriminate].
  destruct (Nat.ltb f L) eqn:EfL; [|discriminate].
  inversion H; subst ri; clear H. cbn [fst].
  split; [|apply Nat.mod_upper_bound; lia].
  apply Nat.ltb_lt in EfL.
  unfold convert_local, local_ids, local_of. cbn [fst snd].
  assert (Hj : t / P < length (every P (t mod P) lens))
    by (apply nth_error_Some; rewrite EL; discriminate).
  assert (HL : nth (t / P) (every P (t mod P) lens) 0 = L) by (apply nth_error_nth; exact EL).
  assert (Hlen : map (@length nat) (every P (t mod P) (split_by lens (seq 0 (sum_nat lens))))
                 = every P (t mod P) lens) by (apply lens_every; apply seq_length).
  assert (HU : unflat (map (@length nat) (every P (t mod P) (split_by lens (seq 0 (sum_nat lens)))))
                      (sum_nat (firstn (t / P) (every P (t mod P) lens)) + f) = Some (t / P, f)).
  { rewrite Hlen. apply (flat_unflat (every P (t mod P) lens) (t / P) f); [exact Hj | lia]. }
  apply concat_unflat in HU. destruct HU as [row [Hrow Hnth]].
  rewrite Hnth.
  rewrite every_nth in Hrow by exact HP.
  rewrite stripe_pos in Hrow by exact HP.
  rewrite rows_nth in Hrow by exact Ht.
  inversion Hrow; subst row. rewrite nth_error_seq by exact Hf. f_equal.
  unfold flat in Hg; cbn [fst snd] in Hg. lia.
Qed.

Lemma ctr_ids_mpi_total : forall P lens g, 1 <= P -> g < sum_nat lens ->
  exists ri, ctr_ids_mpi P lens g = Some ri.
Proof.
  intros P lens g HP Hg. destruct (unflat_total lens g Hg) as [[t f] U].
  unfold ctr_ids_mpi. rewrite U. destruct (unflat_flat _ _ _ _ U) as [Ht [Hf _]].
  unfold ctr_pair_mpi. cbn [fst snd].
  rewrite every_nth by exact HP. rewrite stripe_pos by exact HP.
  rewrite (nth_error_nth' lens 0 Ht).
  apply Nat.ltb_lt in Hf. rewrite Hf. eexists; reflexivity.
Qed.

Lemma convert_local_range : forall P lens r i g, 1 <= P -> r < P ->
  convert_local P lens (r, i) = Some g -> g < sum_nat lens.
Proof.
  intros P lens r i g HP Hr H. unfold convert_local, local_ids, local_of in H. cbn [fst snd] in H.
  apply nth_error_In in H. apply in_concat in H. destruct H as [row [Hrow Hg]].
  apply every_In in Hrow.
  assert (Hin : In g (concat (split_by lens (seq 0 (sum_nat lens)))))
    by (apply in_concat; exists row; split; assumption).
  rewrite split_by_concat_full in Hin by apply seq_length. apply in_seq in Hin. lia.
Qed.

Lemma convert_ctr_ids : forall P lens r i g, 1 <= P -> r < P ->
  convert_local P lens (r, i) = Some g -> ctr_ids_mpi P lens g = Some (r, i).
Proof.
  intros P lens r i g HP Hr H. unfold convert_local, local_ids, local_of in H. cbn [fst snd] in H.
  assert (Hlen : map (@length nat) (every P r (split_by lens (seq 0 (sum_nat lens))))
                 = every P r lens) by (apply lens_every; apply seq_length).
  assert (Hi : i < sum_nat (every P r lens)).
  { rewrite <- Hlen, <- length_concat_sum. apply nth_error_Some. rewrite H. discriminate. }
  destruct (unflat_total _ _ Hi) as [[j f] U].
  destruct (unflat_flat _ _ _ _ U) as [Hj [Hf Hfl]].
  rewrite <- Hlen in U. apply concat_unflat in U. destruct U as [row [Hrow Hnth]].
  rewrite H in Hnth. symmetry in Hnth.
  rewrite every_nth in Hrow by exact HP.
  assert (Ht : r + j * P < length lens).
  { rewrite <- (split_by_length lens (seq 0 (sum_nat lens))). apply nth_error_Some.
    rewrite Hrow. discriminate. }
  rewrite rows_nth in Hrow by exact Ht. inversion Hrow; subst row; clear Hrow.
  assert (Hf' : f < nth (r + j * P) lens 0).
  { assert (Hne : nth_error (seq (sum_nat (firstn (r + j * P) lens)) (nth (r + j * P) lens 0)) f <> None)
      by (rewrite Hnth; discriminate).
    apply nth_error_Some in Hne. rewrite seq_length in Hne. exact Hne. }
  rewrite nth_error_seq in Hnth by exact Hf'. injection Hnth as Hg.
  assert (HU : unflat lens g = Some (r + j * P, f)).
  { rewrite <- Hg. apply (flat_unflat lens (r + j * P) f Ht Hf'). }
  unfold ctr_ids_mpi. rewrite HU. unfold ctr_pair_mpi. cbn [fst snd].
  rewrite stripe_mod by exact Hr. rewrite stripe_div by exact Hr.
  rewrite every_nth by exact HP. rewrite (nth_error_nth' lens 0 Ht).
  apply Nat.ltb_lt in Hf'. rewrite Hf'. f_equal. f_equal.
  unfold flat in Hfl; cbn [fst snd] in Hfl. exact Hfl.
Qed.

(* ------------------------------------------------------------------ index_of *)
Lemma index_of_Some : forall x l p, index_of x l = Some p -> nth_error l p = Some x.
Proof.
  intros x l; induction l as [|y r IH]; intros p H; [discriminate|].
  cbn [index_of] in H. destruct (Nat.eqb x y) eqn:E.
  - inversion H; subst. apply Nat.eqb_eq in E. subst. reflexivity.
  - destruct (index_of x r) as [p'|]; [|discriminate].
    cbn [option_map] in H. inversion H; subst. cbn [nth_error]. apply IH. reflexivity.
Qed.

Lemma index_of_NoDup : forall x l p, NoDup l -> nth_error l p = Some x -> index_of x l = Some p.
Proof.
  intros x l; induction l as [|y r IH]; intros p Hnd H.
  - destruct p; discriminate.
  - inversion Hnd as [|y' r' Hy Hnd']; subst. cbn [index_of]. destruct p as [|p'].
    + cbn [nth_error] in H. inversion H; subst. rewrite Nat.eqb_refl. reflexivity.
    + cbn [nth_error] in H. destruct (Nat.eqb x y) eqn:E.
      * apply Nat.eqb_eq in E. subst. exfalso. apply Hy. eapply nth_error_In; eassumption.
      * rewrite (IH p' Hnd' H). reflexivity.
Qed.

(* ------------------------------------------------------------------ randind *)
Lemma randind_list : forall ns, 1 <= length ns ->
  NoDup (concat (stripes (length ns) (seq 0 (sum_nat ns)))) /\
  length (concat (stripes (length ns) (seq 0 (sum_nat ns)))) = sum_nat ns /\
  (forall g, In g (concat (stripes (length ns) (seq 0 (sum_nat ns)))) <-> g < sum_nat ns).
Proof.
  intros ns HP.
  assert (Hp : Permutation (concat (stripes (length ns) (seq 0 (sum_nat ns)))) (seq 0 (sum_nat ns)))
    by (apply stripes_perm; exact HP).
  split; [|split].
  - eapply Permutation_NoDup; [apply Permutation_sym; exact Hp | apply seq_NoDup].
  - rewrite (Permutation_length Hp). apply seq_length.
  - intros g. split; intros H.
    + apply (Permutation_in _ Hp) in H. apply in_seq in H. lia.
    + apply (Permutation_in _ (Permutation_sym Hp)). apply in_seq. lia.
Qed.

Lemma randind_total : forall ns g, g < sum_nat ns ->
  exists r i, randind ns g = Some (r, i) /\ r < length ns /\ i < nth r ns 0.
Proof.
  intros ns g Hg.
  assert (HP : 1 <= length ns) by (destruct ns; [cbn in Hg; lia | cbn [length]; lia]).
  destruct (randind_list ns HP) as [Hnd [Hlen Hin]].
  unfold randind.
  assert (Hing := proj2 (Hin g) Hg). apply In_nth_error in Hing. destruct Hing as [p Hp].
  rewrite (index_of_NoDup _ _ _ Hnd Hp).
  assert (Hpl : p < sum_nat ns) by (rewrite <- Hlen; apply nth_error_Some; rewrite Hp; discriminate).
  destruct (unflat_total ns p Hpl) as [[r i] U]. exists r, i. rewrite U. split; [reflexivity|].
  apply unflat_flat in U. tauto.
Qed.

Lemma randind_inj : forall ns g g' ri, randind ns g = Some ri -> randind ns g' = Some ri -> g = g'.
Proof.
  intros ns g g' ri H H'. unfold randind in H, H'.
  destruct (index_of g (concat (stripes (length ns) (seq 0 (sum_nat ns))))) as [p|] eqn:E; [|discriminate].
  destruct (index_of g' (concat (stripes (length ns) (seq 0 (sum_nat ns))))) as [p'|] eqn:E'; [|discriminate].
  destruct ri as [r i]. apply unflat_flat in H. apply unflat_flat in H'.
  destruct H as [_ [_ H]]. destruct H' as [_ [_ H']].
  apply index_of_Some in E. apply index_of_Some in E'.
  rewrite <- H in E. rewrite <- H' in E'. rewrite E in E'. inversion E'; reflexivity.
Qed.

Lemma randind_surj : forall ns r i, r < length ns -> i < nth r ns 0 ->
  exists g, g < sum_nat ns /\ randind ns g = Some (r, i).
Proof.
  intros ns r i Hr Hi. assert (HP : 1 <= length ns) by lia.
  destruct (randind_list ns HP) as [Hnd [Hlen Hin]].
  pose proof (flat_unflat ns r i Hr Hi) as U.
  pose proof (unflat_range _ _ _ U) as Hp.
  destruct (nth_error (concat (stripes (length ns) (seq 0 (sum_nat ns)))) (flat ns (r, i))) as [g|] eqn:E.
  - exists g. split; [apply Hin; eapply nth_error_In; exact E|].
    unfold randind. rewrite (index_of_NoDup _ _ _ Hnd E). exact U.
  - apply nth_error_None in E. lia.
Qed.
