(* C04: a strongly connected (irreducible) row-stochastic matrix has at most one stationary vector
   of given total mass.  This is why the populations that builders.normalize obtains from an
   eigen-solver must coincide with the exact stationary vector of the model. *)
From Coq Require Import List QArith Bool Arith Lia Lqa Setoid.
From EV Require Import Builders BuildersProofs.
Import ListNotations.
Open Scope Q_scope.

Definition sumn (n : nat) (f : nat -> Q) : Q := qsum (map f (seq 0 n)).

Lemma qsum_map_le {A} (f g : A -> Q) l :
  (forall a, In a l -> f a <= g a) -> qsum (map f l) <= qsum (map g l).
Proof.
  induction l as [|a l IH]; intros H; cbn [map].
  - rewrite qsum_nil. lra.
  - rewrite !qsum_cons.
    assert (f a <= g a) by (apply H; left; reflexivity).
    assert (qsum (map f l) <= qsum (map g l)) by (apply IH; intros b Hb; apply H; right; exact Hb).
    lra.
Qed.

Lemma qsum_map_nonneg {A} (f : A -> Q) l : (forall a, In a l -> 0 <= f a) -> 0 <= qsum (map f l).
Proof.
  intros H. apply qsum_nonneg. intros x Hx. apply in_map_iff in Hx. destruct Hx as [a [<- Ha]].
  apply H. exact Ha.
Qed.

Lemma qsum_map_zero_terms {A} (f : A -> Q) l :
  (forall a, In a l -> 0 <= f a) -> qsum (map f l) <= 0 -> forall a, In a l -> f a == 0.
Proof.
  intros Hn Hs a Ha. apply (qsum_zero_all (map f l)).
  - intros x Hx. apply in_map_iff in Hx. destruct Hx as [b [<- Hb]]. apply Hn. exact Hb.
  - exact Hs.
  - apply in_map. exact Ha.
Qed.

Lemma qsum_map_minus {A} (f g : A -> Q) l :
  qsum (map (fun a => f a - g a) l) == qsum (map f l) - qsum (map g l).
Proof.
  induction l as [|a l IH]; cbn [map].
  - rewrite !qsum_nil. lra.
  - rewrite !qsum_cons, IH. lra.
Qed.

(* termwise <= and equal sums => termwise equal *)
Lemma qsum_le_eq_terms {A} (f g : A -> Q) l :
  (forall a, In a l -> f a <= g a) -> qsum (map g l) <= qsum (map f l) ->
  forall a, In a l -> g a == f a.
Proof.
  intros Hle Hs a Ha.
  assert (E : g a - f a == 0).
  { apply (qsum_map_zero_terms (fun b => g b - f b) l).
    - intros b Hb. specialize (Hle b Hb). lra.
    - rewrite qsum_map_minus. lra.
    - exact Ha. }
  lra.
Qed.

Lemma qsum_map_pos {A} (f : A -> Q) l :
  l <> [] -> (forall a, In a l -> 0 < f a) -> 0 < qsum (map f l).
Proof.
  intros Hne H. destruct l as [|a l]; [congruence|].
  cbn [map]. rewrite qsum_cons.
  assert (0 < f a) by (apply H; left; reflexivity).
  assert (0 <= qsum (map f l)).
  { apply qsum_map_nonneg. intros b Hb. apply Qlt_le_weak. apply H. right. exact Hb. }
  lra.
Qed.

Definition pos (x : Q) : Q := if Qlt_le_dec 0 x then x else 0.

Lemma pos_nonneg x : 0 <= pos x.
Proof. unfold pos. destruct (Qlt_le_dec 0 x); lra. Qed.
Lemma pos_ge x : x <= pos x.
Proof. unfold pos. destruct (Qlt_le_dec 0 x); lra. Qed.
Lemma pos_of_pos x : 0 < x -> pos x = x.
Proof. intros H. unfold pos. destruct (Qlt_le_dec 0 x); [reflexivity|lra]. Qed.
Lemma pos_of_nonpos x : x <= 0 -> pos x = 0.
Proof. intros H. unfold pos. destruct (Qlt_le_dec 0 x); [lra|reflexivity]. Qed.

Section Unique.
  Variable T : mat.
  Let n := length T.
  Hypothesis Tnn : forall i j, (i < n)%nat -> (j < n)%nat -> 0 <= ent T i j.
  Hypothesis Trow : forall i, (i < n)%nat -> sumn n (fun j => ent T i j) == 1.

  (* i reaches j along positive transition probabilities *)
  Inductive reaches : nat -> nat -> Prop :=
  | reaches_refl : forall i, reaches i i
  | reaches_step : forall i k j, (i < n)%nat -> (k < n)%nat -> 0 < ent T i k -> reaches k j -> reaches i j.

  Definition lmul (v : nat -> Q) (j : nat) : Q := sumn n (fun i => v i * ent T i j).

  Lemma total_preserved (v : nat -> Q) : sumn n (lmul v) == sumn n v.
  Proof.
    unfold lmul, sumn.
    rewrite (qsum_swap (fun j i => v i * ent T i j) (seq 0 n) (seq 0 n)).
    apply qsum_map_ext. intros i Hi. apply in_seq in Hi.
    rewrite qsum_map_scale_l.
    assert (E : (i < n)%nat) by lia. apply Trow in E. unfold sumn in E.
    transitivity (v i * 1); [|lra]. apply Qmult_comp; [reflexivity | exact E].
  Qed.

  Section OneSided.
    Variable d : nat -> Q.
    Hypothesis dstat : forall j, (j < n)%nat -> lmul d j == d j.
    Let p := fun i => pos (d i).

    Lemma p_sub j : (j < n)%nat -> p j <= lmul p j.
    Proof.
      intros Hj. unfold p at 1. destruct (Qlt_le_dec 0 (d j)) as [Hp|Hz].
      - rewrite pos_of_pos by exact Hp. rewrite <- (dstat j Hj). unfold lmul, sumn.
        apply qsum_map_le. intros i Hi. apply in_seq in Hi.
        apply Qmult_le_compat_r; [apply pos_ge | apply Tnn; lia].
      - rewrite pos_of_nonpos by exact Hz. unfold lmul, sumn. apply qsum_map_nonneg.
        intros i Hi. apply in_seq in Hi. apply Qmult_le_0_compat; [apply pos_nonneg | apply Tnn; lia].
    Qed.

    Lemma p_stat j : (j < n)%nat -> lmul p j == p j.
    Proof.
      intros Hj. apply (qsum_le_eq_terms p (lmul p) (seq 0 n)).
      - intros a Ha. apply in_seq in Ha. apply p_sub. lia.
      - fold (sumn n (lmul p)). fold (sumn n p). rewrite total_preserved. lra.
      - apply in_seq. lia.
    Qed.

    (* the zero set of a non-negative stationary vector is closed under predecessors *)
    Lemma zero_propagates i j : reaches i j -> (j < n)%nat -> p j == 0 -> p i == 0.
    Proof.
      induction 1 as [i|i k j Hi Hk Hik Hr IH]; intros Hj Hz.
      - exact Hz.
      - specialize (IH Hj Hz).
        assert (E : p i * ent T i k == 0).
        { apply (qsum_map_zero_terms (fun m => p m * ent T m k) (seq 0 n)).
          - intros m Hm. apply in_seq in Hm. apply Qmult_le_0_compat; [apply pos_nonneg | apply Tnn; lia].
          - pose proof (p_stat k Hk) as Hs. unfold lmul, sumn in Hs. rewrite Hs, IH. lra.
          - apply in_seq. lia. }
        apply Qmult_integral in E. destruct E as [E|E]; [exact E|lra].
    Qed.

    Lemma nonpos_of_stationary_zero_sum :
      (forall i j, (i < n)%nat -> (j < n)%nat -> reaches i j) ->
      sumn n d == 0 -> forall i, (i < n)%nat -> d i <= 0.
    Proof.
      intros Hirr Hsum i0 Hi0. destruct (Qlt_le_dec 0 (d i0)) as [Hp|Hz]; [|exact Hz].
      exfalso.
      assert (Hall : forall j, In j (seq 0 n) -> 0 < d j).
      { intros j Hj. apply in_seq in Hj. destruct (Qlt_le_dec 0 (d j)) as [Hpj|Hzj]; [exact Hpj|].
        exfalso.
        assert (E : p i0 == 0).
        { apply (zero_propagates i0 j); [apply Hirr; lia | lia |].
          unfold p. rewrite pos_of_nonpos by exact Hzj. reflexivity. }
        unfold p in E. rewrite pos_of_pos in E by exact Hp. lra. }
      assert (0 < sumn n d).
      { unfold sumn. apply qsum_map_pos; [|exact Hall].
        destruct n; [lia|]. cbn. discriminate. }
      lra.
    Qed.
  End OneSided.

  Definition irreducible : Prop := forall i j, (i < n)%nat -> (j < n)%nat -> reaches i j.

  Lemma stationary_zero_sum_is_zero (d : nat -> Q) :
    irreducible -> (forall j, (j < n)%nat -> lmul d j == d j) -> sumn n d == 0 ->
    forall i, (i < n)%nat -> d i == 0.
  Proof.
    intros Hirr Hst Hsum i Hi.
    pose proof (nonpos_of_stationary_zero_sum d Hst Hirr Hsum i Hi) as H1.
    assert (Hst' : forall j, (j < n)%nat -> lmul (fun i => - d i) j == - d j).
    { intros j Hj. rewrite <- (Hst j Hj). unfold lmul, sumn.
      rewrite (qsum_map_ext _ (fun i => (-1) * (d i * ent T i j))) by (intros; ring).
      rewrite qsum_map_scale_l. ring. }
    assert (Hsum' : sumn n (fun i => - d i) == 0).
    { unfold sumn. rewrite (qsum_map_ext _ (fun i => (-1) * d i)) by (intros; ring).
      rewrite qsum_map_scale_l. fold (sumn n d). rewrite Hsum. ring. }
    pose proof (nonpos_of_stationary_zero_sum (fun i => - d i) Hst' Hirr Hsum' i Hi) as H2.
    cbv beta in H2. lra.
  Qed.
End Unique.

(* two stationary vectors of equal total mass of an irreducible row-stochastic matrix coincide *)
Theorem stationary_unique : forall (T : mat) (pi rho : list Q),
  let n := length T in
  (forall i j, (i < n)%nat -> (j < n)%nat -> 0 <= ent T i j) ->
  (forall i, (i < n)%nat -> sumn n (fun j => ent T i j) == 1) ->
  irreducible T ->
  (forall j, (j < n)%nat -> vecmat pi T j == nth j pi 0) ->
  (forall j, (j < n)%nat -> vecmat rho T j == nth j rho 0) ->
  sumn n (fun i => nth i pi 0) == sumn n (fun i => nth i rho 0) ->
  forall i, (i < n)%nat -> nth i pi 0 == nth i rho 0.
Proof.
  intros T pi rho n Tnn Trow Hirr Hpi Hrho Hmass i Hi.
  assert (E : nth i pi 0 - nth i rho 0 == 0).
  { apply (stationary_zero_sum_is_zero T Tnn Trow (fun i => nth i pi 0 - nth i rho 0) Hirr).
    - intros j Hj. unfold lmul, sumn. fold n.
      rewrite (qsum_map_ext _ (fun i => nth i pi 0 * ent T i j - nth i rho 0 * ent T i j)) by (intros; ring).
      rewrite qsum_map_minus.
      pose proof (Hpi j Hj) as A. pose proof (Hrho j Hj) as B. unfold vecmat in A, B. fold n in A, B.
      rewrite A, B. reflexivity.
    - unfold sumn. fold n. rewrite qsum_map_minus. unfold sumn in Hmass. rewrite Hmass. ring.
    - exact Hi. }
  lra.
Qed.

Lemma qsum_as_sumn l : qsum l = sumn (length l) (fun i => nth i l 0).
Proof. unfold sumn. rewrite <- (list_as_map_nth l 0). reflexivity. Qed.

(* normalize on counts in which every state has outgoing counts and whose transition graph is
   strongly connected: ANY stationary probability vector of the returned T - in particular the one
   an exact eigen-solver would return - equals the model's populations *)
Theorem normalize_pi_unique : forall C p C' T pi rho,
  normalize_builder C p true = Some (C', T, Some pi) -> nonneg_mat C -> nonneg_prior p ->
  (forall i, (i < length C)%nat -> 0 < qsum (row C' i)) ->
  irreducible T ->
  (forall j, (j < length C)%nat -> vecmat rho T j == nth j rho 0) ->
  sumn (length C) (fun i => nth i rho 0) == 1 ->
  forall i, (i < length C)%nat -> nth i rho 0 == nth i pi 0.
Proof.
  intros C p C' T pi rho H HC Hp Hout Hirr Hrho Hmass i Hi.
  destruct (normalize_stochastic _ _ _ _ _ _ H HC Hp) as [HTL Hrows].
  destruct (normalize_pi_stationary _ _ _ _ _ H) as [HpiL [Hpi [Hpisum _]]].
  destruct (normalize_builder_inv _ _ _ _ _ _ H) as [HP [HT _]].
  assert (SqT : is_square T = true).
  { rewrite HT. apply is_square_row_normalize. exact (apply_prior_result_square _ _ _ HP). }
  apply (stationary_unique T rho pi); rewrite ?HTL; try assumption.
  - intros a b Ha Hb. destruct (Hrows a Ha) as [HL [Hnn _]].
    unfold ent. fold (row T a). apply Hnn. apply nth_In. rewrite HL. exact Hb.
  - intros a Ha. destruct (Hrows a Ha) as [HL [_ [Hs _]]].
    unfold sumn. rewrite <- HTL. rewrite row_sum_as_ents; [|exact SqT|rewrite HTL; exact Ha].
    apply Hs. apply Hout. exact Ha.
  - rewrite Hmass. rewrite <- HpiL. rewrite <- qsum_as_sumn. symmetry. exact Hpisum.
Qed.

Lemma reaches_trans T i k j : reaches T i k -> reaches T k j -> reaches T i j.
Proof.
  induction 1 as [i|i m k Hi Hm Him Hr IH]; intros H2.
  - exact H2.
  - eapply reaches_step; [exact Hi | exact Hm | exact Him | apply IH; exact H2].
Qed.

(* satisfiability of the hypotheses: a concrete strongly connected chain (with a zero entry) *)
Definition T3 : mat := row_normalize [[5; 2; 1]; [1; 4; 0]; [2; 1; 6]].

Lemma T3_irreducible : irreducible T3.
Proof.
  assert (L : length T3 = 3%nat) by reflexivity.
  assert (E : forall a b, (a < 3)%nat -> (b < 3)%nat -> 0 < ent T3 a b -> reaches T3 a b).
  { intros a b Ha Hb Hab.
    eapply reaches_step; [rewrite L; exact Ha | rewrite L; exact Hb | exact Hab | apply reaches_refl]. }
  assert (to0 : forall a, (a < 3)%nat -> reaches T3 a 0).
  { intros a Ha. destruct a as [|[|[|a]]].
    - apply reaches_refl.
    - apply E; [lia | lia | vm_compute; reflexivity].
    - apply E; [lia | lia | vm_compute; reflexivity].
    - lia. }
  assert (from0 : forall b, (b < 3)%nat -> reaches T3 0 b).
  { intros b Hb. destruct b as [|[|[|b]]].
    - apply reaches_refl.
    - apply E; [lia | lia | vm_compute; reflexivity].
    - apply E; [lia | lia | vm_compute; reflexivity].
    - lia. }
  intros i j Hi Hj. rewrite L in Hi, Hj.
  eapply reaches_trans; [apply to0; exact Hi | apply from0; exact Hj].
Qed.
