(* C09: the cost along the whole history of a k-medoids run.  Nothing here needs the state to be
   consistent: these are facts about the accept/reject decision alone, so they hold for any state
   the caller supplies (cold start, warm start, k-centers result, or an inconsistent state). *)
From Coq Require Import List ZArith QArith Bool Arith Lia Lqa.
From EV Require Import Cluster ClusterBase ClusterInv ClusterPam.
Import ListNotations.

Section History.
  Variable D : nat -> nat -> Q.

  (* ---- a run is the composition of its prefixes *)
  Lemma pam_sweep_from_app p1 : forall p2 cid s,
    pam_sweep_from D cid (p1 ++ p2) s = pam_sweep_from D (cid + length p1) p2 (pam_sweep_from D cid p1 s).
  Proof.
    induction p1 as [|p p1 IH]; intros p2 cid s; cbn [app pam_sweep_from length].
    - rewrite Nat.add_0_r. reflexivity.
    - rewrite IH. replace (S cid + length p1)%nat with (cid + S (length p1))%nat by lia. reflexivity.
  Qed.

  Lemma kmedoids_app s1 s2 s : kmedoids D s (s1 ++ s2) = kmedoids D (kmedoids D s s1) s2.
  Proof. unfold kmedoids. apply fold_left_app. Qed.

  (* ---- one decision: the cost never rises, with no hypothesis on the state *)
  Lemma pam_update_same_or_lower s cid p :
    pam_update D s cid p = s \/ sumsq (snd (pam_update D s cid p)) < sumsq (snd s).
  Proof. destruct (pam_update_cost D s cid p) as [[H _]|H]; [right; exact H|left; exact H]. Qed.

  (* only the medoid being updated can change, and only to the proposal *)
  Lemma pam_update_centres s cid p :
    fst (pam_update D s cid p) = fst s \/ fst (pam_update D s cid p) = replace_nth cid p (fst s).
  Proof. unfold pam_update. destruct (Qlt_b _ _); cbn [fst]; [right|left]; reflexivity. Qed.

  Lemma pam_update_other_centre s cid p t : cid <> t ->
    nth t (fst (pam_update D s cid p)) 0%nat = nth t (fst s) 0%nat.
  Proof.
    intros Hne. destruct (pam_update_centres s cid p) as [-> | ->]; [reflexivity|].
    apply replace_nth_nth_other. exact Hne.
  Qed.

  (* frames keep their identity and order through every decision *)
  Lemma pam_update_fids s cid p : fst s <> [] -> map fid (snd (pam_update D s cid p)) = map fid (snd s).
  Proof.
    intros Hne. unfold pam_update. destruct (Qlt_b _ _); cbn [snd]; [|reflexivity].
    rewrite map_map. apply map_ext. intros x. apply pam_frame_fid.
    destruct (fst s) as [|a r]; [congruence|]. destruct cid; cbn; discriminate.
  Qed.

  (* ---- a sweep, and a run: either nothing at all changed, or the cost dropped strictly *)
  Lemma pam_sweep_from_same_or_lower props : forall cid s,
    pam_sweep_from D cid props s = s \/ sumsq (snd (pam_sweep_from D cid props s)) < sumsq (snd s).
  Proof.
    induction props as [|p props IH]; intros cid s; cbn [pam_sweep_from].
    - left. reflexivity.
    - destruct (pam_update_same_or_lower s cid p) as [E|L].
      + rewrite E. apply IH.
      + right. destruct (IH (S cid) (pam_update D s cid p)) as [E'|L'].
        * rewrite E'. exact L.
        * lra.
  Qed.

  Theorem kmedoids_same_or_lower sweeps : forall s,
    kmedoids D s sweeps = s \/ sumsq (snd (kmedoids D s sweeps)) < sumsq (snd s).
  Proof.
    unfold kmedoids. induction sweeps as [|props sweeps IH]; intros s; cbn [fold_left].
    - left. reflexivity.
    - change (pam_sweep D s props) with (pam_sweep_from D 0 props s). destruct (pam_sweep_from_same_or_lower props 0 s) as [E|L].
      + rewrite E. apply IH.
      + right. destruct (IH (pam_sweep_from D 0 props s)) as [E'|L'].
        * rewrite E'. exact L.
        * lra.
  Qed.

  Corollary kmedoids_cost_le sweeps s : sumsq (snd (kmedoids D s sweeps)) <= sumsq (snd s).
  Proof. destruct (kmedoids_same_or_lower sweeps s) as [E|L]; [rewrite E|]; lra. Qed.

  (* the cost read after every prefix of the run is a non-increasing chain *)
  Theorem kmedoids_history_monotone s1 s2 s :
    sumsq (snd (kmedoids D s (s1 ++ s2))) <= sumsq (snd (kmedoids D s s1)) /\
    sumsq (snd (kmedoids D s s1)) <= sumsq (snd s).
  Proof. rewrite kmedoids_app. split; apply kmedoids_cost_le. Qed.

  (* the same inside one sweep, proposal by proposal *)
  Theorem pam_sweep_history_monotone p1 p2 cid s :
    sumsq (snd (pam_sweep_from D cid (p1 ++ p2) s)) <= sumsq (snd (pam_sweep_from D cid p1 s)) /\
    sumsq (snd (pam_sweep_from D cid p1 s)) <= sumsq (snd s).
  Proof.
    rewrite pam_sweep_from_app. split.
    - destruct (pam_sweep_from_same_or_lower p2 (cid + length p1) (pam_sweep_from D cid p1 s)) as [E|L]; [rewrite E|]; lra.
    - destruct (pam_sweep_from_same_or_lower p1 cid s) as [E|L]; [rewrite E|]; lra.
  Qed.

  (* a run whose final cost equals the initial cost rejected every proposal: nothing was committed *)
  Theorem kmedoids_equal_cost_unchanged sweeps s :
    sumsq (snd (kmedoids D s sweeps)) == sumsq (snd s) -> kmedoids D s sweeps = s.
  Proof. intros E. destruct (kmedoids_same_or_lower sweeps s) as [H|L]; [exact H|lra]. Qed.

  (* ... and then every intermediate state was the initial state too *)
  Theorem kmedoids_equal_cost_prefix_unchanged s1 s2 s :
    sumsq (snd (kmedoids D s (s1 ++ s2))) == sumsq (snd s) -> kmedoids D s s1 = s.
  Proof.
    intros E. destruct (kmedoids_history_monotone s1 s2 s) as [H1 H2].
    apply kmedoids_equal_cost_unchanged. lra.
  Qed.

  (* k-hybrid: either exactly the k-centers solution, or strictly better *)
  Theorem hybrid_same_or_better nclu cutoff n sweeps :
    hybrid_cold D nclu cutoff n sweeps = kcenters_cold D nclu cutoff false n \/
    sumsq (snd (hybrid_cold D nclu cutoff n sweeps)) < sumsq (snd (kcenters_cold D nclu cutoff false n)).
  Proof. unfold hybrid_cold. apply kmedoids_same_or_lower. Qed.

  (* number of clusters along the whole history, no hypothesis on the state *)
  Lemma pam_sweep_from_k props : forall cid s, length (fst (pam_sweep_from D cid props s)) = length (fst s).
  Proof.
    induction props as [|p props IH]; intros cid s; cbn [pam_sweep_from]; [reflexivity|].
    rewrite IH. apply pam_update_k.
  Qed.

  Theorem kmedoids_k sweeps : forall s, length (fst (kmedoids D s sweeps)) = length (fst s).
  Proof.
    unfold kmedoids. induction sweeps as [|props sweeps IH]; intros s; cbn [fold_left]; [reflexivity|].
    rewrite IH. apply pam_sweep_from_k.
  Qed.
End History.
