(* C02: the triangle-inequality shortcut for warm starts from ARBITRARY supplied centres.

   kcenters(init_centers = P) accepts centres that are not frames of the data (centroids, centres of an
   earlier clustering of other data).  In the model such a centre is a point of the metric space whose
   index is not among the frame ids 0..n-1 ("virtual frame": D is evaluated at it, it is never a
   candidate for a new centre).  The shortcut compares `distances` with half the distance between the
   NEW centre and the centre OBJECT the frame is assigned to (kc_update_ti reads D c (nth (lab x) ctrs));
   for that reading only per-frame consistency (frame_ok) is needed -- not that centres are frames,
   distinct, or attract anything -- so shortcut = plain holds for every non-empty list of initial centres. *)
From Coq Require Import List ZArith QArith Bool Arith Lia Lqa.
From EV Require Import Cluster ClusterBase ClusterInv.
Import ListNotations.

Section Virt.
  Variable D : nat -> nat -> Q.

  (* every frame record is consistent with the centre list: label in range, distance = distance to the
     centre object of its label, no centre strictly closer *)
  Definition frames_ok (s : st) : Prop := Forall (frame_ok D (fst s)) (snd s).

  Lemma nearest_state_frames_ok init n : init <> [] -> frames_ok (nearest_state D init n).
  Proof.
    intros Hne. unfold frames_ok, nearest_state. cbn [fst snd].
    rewrite Forall_forall. intros y Hy. apply in_map_iff in Hy. destruct Hy as [f [<- _]].
    apply (nearest_fr_spec D init f Hne).
  Qed.

  Lemma kc_iter_plain_frames_ok s : frames_ok s -> frames_ok (kc_iter D false s).
  Proof.
    intros H. unfold kc_iter. destruct (argmax (snd s)) as [m|]; [|exact H].
    unfold frames_ok in *. cbn [fst snd]. rewrite Forall_forall in *.
    intros y Hy. apply in_map_iff in Hy. destruct Hy as [x [<- Hx]].
    apply kc_update_frame_ok. apply H. exact Hx.
  Qed.

  Lemma kc_iter_ti_eq_frames_ok s :
    metric_sym D -> metric_tri D -> frames_ok s -> kc_iter D true s = kc_iter D false s.
  Proof.
    intros Hs Ht H. unfold kc_iter. destruct (argmax (snd s)) as [m|]; [|reflexivity]. f_equal.
    apply map_ext_in. intros x Hx. unfold frames_ok in H. rewrite Forall_forall in H.
    apply kc_update_ti_eq; auto.
  Qed.

  Lemma kc_loop_ti_equiv_frames_ok nclu cutoff :
    metric_sym D -> metric_tri D ->
    forall fuel s, frames_ok s -> kc_loop D fuel nclu cutoff true s = kc_loop D fuel nclu cutoff false s.
  Proof.
    intros Hs Ht. induction fuel as [|fuel IH]; intros s H; cbn [kc_loop]; [reflexivity|].
    destruct (kc_guard nclu cutoff s) eqn:G; [|reflexivity].
    rewrite (kc_iter_ti_eq_frames_ok s Hs Ht H). apply IH. apply kc_iter_plain_frames_ok. exact H.
  Qed.

  (* no hypothesis on the entries of init: frames, points outside the data (ids >= n), repeated points *)
  Theorem ti_same_result_warm_any nclu cutoff init n :
    metric_sym D -> metric_tri D -> init <> [] ->
    kcenters_warm D nclu cutoff true init n = kcenters_warm D nclu cutoff false init n.
  Proof.
    intros Hs Ht Hne. unfold kcenters_warm.
    apply kc_loop_ti_equiv_frames_ok; auto. apply nearest_state_frames_ok. exact Hne.
  Qed.

  (* ... and the consistency of labels and distances with the (possibly virtual) centre list survives the run *)
  Theorem warm_any_frames_ok nclu cutoff ti init n :
    (ti = true -> metric_sym D /\ metric_tri D) -> init <> [] ->
    frames_ok (kcenters_warm D nclu cutoff ti init n).
  Proof.
    intros Hti Hne.
    assert (G : forall fuel s, frames_ok s -> frames_ok (kc_loop D fuel nclu cutoff false s)).
    { induction fuel as [|fuel IH]; intros s H; cbn [kc_loop]; [exact H|].
      destruct (kc_guard nclu cutoff s); [|exact H]. apply IH, kc_iter_plain_frames_ok, H. }
    destruct ti.
    - destruct (Hti eq_refl) as [Hs Ht]. rewrite (ti_same_result_warm_any nclu cutoff init n Hs Ht Hne).
      apply G, nearest_state_frames_ok, Hne.
    - apply G, nearest_state_frames_ok, Hne.
  Qed.
End Virt.
