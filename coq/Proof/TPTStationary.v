(* C07: existence, uniqueness and positivity of the stationary distribution of an irreducible
   row-stochastic matrix, and totality of the populations=None path of the model
   (Model/TPT.v: stationary, mfpts_all_default). *)
From Coq Require Import List QArith Qreduction Bool Arith Lia Lqa Setoid Morphisms.
From EV Require Import TPT TPTProofs TPTExist.
Import ListNotations. Open Scope Q_scope.

Definition irreducible (n : nat) (T : nat -> nat -> Q) : Prop :=
  forall i j, (i < n)%nat -> (j < n)%nat -> reaches n T [j] i.

(* ------------------------------------------------------------------ order facts about finite sums *)
Lemma sumq_le : forall n f g, (forall i, (i < n)%nat -> f i <= g i) -> sumq n f <= sumq n g.
Proof.
  intros n f g H.
  assert (H0 : 0 <= sumq n (fun i => g i - f i)).
  { apply sumq_nonneg. intros i Hi. specialize (H i Hi). lra. }
  rewrite sumq_minus in H0. lra.
Qed.

Lemma sumq_le_eq : forall n f g, (forall i, (i < n)%nat -> f i <= g i) -> sumq n f == sumq n g ->
  forall i, (i < n)%nat -> f i == g i.
Proof.
  intros n f g H E i Hi.
  assert (H0 : g i - f i == 0).
  { apply (sumq_nonneg_zero n (fun k => g k - f k)).
    - intros k Hk. specialize (H k Hk). lra.
    - rewrite sumq_minus. lra.
    - exact Hi. }
  lra.
Qed.

Lemma row_avg_le : forall n T h i c, stochastic n T -> (i < n)%nat ->
  (forall j, (j < n)%nat -> h j <= c) -> sumq n (fun j => T i j * h j) <= c.
Proof.
  intros n T h i c Hst Hi Hb. destruct (Hst i Hi) as [Hrow Hnn].
  assert (E : sumq n (fun j => T i j * c) == c) by (rewrite (sumq_scal_r n c (T i)), Hrow; ring).
  rewrite <- E. apply sumq_le. intros j Hj.
  rewrite (Qmult_comm (T i j) (h j)), (Qmult_comm (T i j) c).
  apply Qmult_le_compat_r; [apply Hb; exact Hj | apply Hnn; exact Hj].
Qed.

Lemma row_avg_ge : forall n T h i c, stochastic n T -> (i < n)%nat ->
  (forall j, (j < n)%nat -> c <= h j) -> c <= sumq n (fun j => T i j * h j).
Proof.
  intros n T h i c Hst Hi Hb. destruct (Hst i Hi) as [Hrow Hnn].
  assert (E : sumq n (fun j => T i j * c) == c) by (rewrite (sumq_scal_r n c (T i)), Hrow; ring).
  rewrite <- E. apply sumq_le. intros j Hj.
  rewrite (Qmult_comm (T i j) (h j)), (Qmult_comm (T i j) c).
  apply Qmult_le_compat_r; [apply Hb; exact Hj | apply Hnn; exact Hj].
Qed.

(* ------------------------------------------------------------------ (a) a matrix with trivial kernel has a
   transpose with trivial kernel (through the right inverse computed by the model's solver) *)
Theorem transpose_injective : forall n M, injective n M -> injective n (fun i j => M j i).
Proof.
  intros n M Hinj u Hu k Hk. cbv beta in Hu.
  destruct (solve_total n n M delta Hinj) as [X HX].
  pose proof (solve_sound n n M delta X HX) as HS.
  rewrite <- (sumq_delta_r n k u Hk).
  rewrite (sumq_ext n _ (fun i => sumq n (fun j => u i * M i j * mget X j k))).
  2:{ intros i Hi.
      rewrite (sumq_ext n (fun j => u i * M i j * mget X j k) (fun j => u i * (M i j * mget X j k)))
        by (intros; ring).
      rewrite sumq_scal, (HS i k Hi Hk). reflexivity. }
  rewrite (sumq_swap n n (fun i j => u i * M i j * mget X j k)).
  apply sumq_zero. intros j Hj.
  rewrite (sumq_ext n _ (fun i => (M i j * u i) * mget X j k)) by (intros; ring).
  rewrite (sumq_scal_r n (mget X j k) (fun i => M i j * u i)). rewrite (Hu j Hj). ring.
Qed.

(* ------------------------------------------------------------------ (b) harmonic functions are constant *)
Theorem harmonic_constant : forall n T, stochastic n T -> irreducible n T -> forall h,
  (forall i, (i < n)%nat -> h i == sumq n (fun j => T i j * h j)) ->
  forall i j, (i < n)%nat -> (j < n)%nat -> h i == h j.
Proof.
  intros n T Hst Hirr h Hh i j Hi Hj.
  assert (Hreach : forall k, (k < n)%nat -> reaches n T [j] k) by (intros k Hk; apply Hirr; assumption).
  apply (first_step_unique n T [j] Hst Hreach (fun _ => 0) h (fun _ => h j)).
  - intros k Hk [<-|[]]. reflexivity.
  - intros k Hk _. pose proof (Hh k Hk). lra.
  - intros k Hk _. rewrite (sumq_scal_r n (h j) (T k)). rewrite (proj1 (Hst k Hk)). ring.
  - exact Hi.
Qed.

(* ------------------------------------------------------------------ (c) the stationarity system has trivial kernel *)
Theorem stat_lhs_injective : forall n T, (0 < n)%nat -> stochastic n T -> irreducible n T ->
  injective n (stat_lhs n T).
Proof.
  intros n T Hn Hst Hirr.
  apply (transpose_injective n (fun i j => stat_lhs n T j i)).
  destruct n as [|n']; [lia|].
  intros v Hv. cbv beta in Hv.
  set (c := v n'). set (h := fun i => if (i =? n')%nat then 0 else v i).
  assert (Heq : forall j, (j < S n')%nat -> sumq (S n') (fun i => T j i * h i) - h j + c == 0).
  { intros j Hj. pose proof (Hv j Hj) as E.
    rewrite (sumq_ext (S n') (fun i => stat_lhs (S n') T i j * v i)
               (fun i => T j i * h i - delta j i * h i + (if (i =? n')%nat then c else 0))) in E.
    2:{ intros i Hi. unfold stat_lhs, h.
        destruct (Nat.eqb_spec (S i) (S n')); destruct (Nat.eqb_spec i n'); try lia.
        - subst i. unfold c. ring.
        - ring. }
    rewrite sumq_plus, sumq_minus in E.
    rewrite (sumq_delta_l (S n') j h Hj) in E.
    rewrite (sumq_delta (S n') n' (fun _ => c)) in E by lia. exact E. }
  assert (Hc0 : c == 0).
  { destruct (exists_max (S n') h) as [j0 [Hj0 Hmax]]; [lia|].
    destruct (exists_max (S n') (fun i => - h i)) as [j1 [Hj1 Hmin]]; [lia|]. cbv beta in Hmin.
    pose proof (row_avg_le (S n') T h j0 (h j0) Hst Hj0 Hmax) as U.
    assert (Lw : h j1 <= sumq (S n') (fun i => T j1 i * h i)).
    { apply row_avg_ge; [exact Hst | exact Hj1 |]. intros j Hj. specialize (Hmin j Hj). lra. }
    pose proof (Heq j0 Hj0) as E0. pose proof (Heq j1 Hj1) as E1. lra. }
  assert (Hharm : forall j, (j < S n')%nat -> h j == sumq (S n') (fun i => T j i * h i)).
  { intros j Hj. pose proof (Heq j Hj) as E. lra. }
  assert (Hlast : (n' < S n')%nat) by lia.
  assert (Hh0 : forall i, (i < S n')%nat -> h i == 0).
  { intros i Hi. rewrite (harmonic_constant (S n') T Hst Hirr h Hharm i n' Hi Hlast).
    unfold h. rewrite Nat.eqb_refl. reflexivity. }
  intros j Hj. destruct (Nat.eq_dec j n') as [->|Hne].
  - exact Hc0.
  - pose proof (Hh0 j Hj) as E. unfold h in E. destruct (Nat.eqb_spec j n'); [lia | exact E].
Qed.

(* ------------------------------------------------------------------ rows of the stationarity system *)
Lemma stat_lhs_row_gen : forall n T q i, (i < n)%nat -> S i <> n ->
  sumq n (fun j => stat_lhs n T i j * q j) == sumq n (fun j => q j * T j i) - q i.
Proof.
  intros n T q i Hi Hne. unfold stat_lhs. destruct (Nat.eqb_spec (S i) n); [contradiction|].
  rewrite (sumq_ext n _ (fun j => q j * T j i - q j * delta j i)) by (intros; ring).
  rewrite sumq_minus, (sumq_delta_r n i q Hi). reflexivity.
Qed.

Lemma stat_lhs_row_last : forall n T q i, S i = n ->
  sumq n (fun j => stat_lhs n T i j * q j) == sumq n q.
Proof.
  intros n T q i E. apply sumq_ext. intros j Hj. unfold stat_lhs.
  destruct (Nat.eqb_spec (S i) n); [ring | contradiction].
Qed.

(* a solution of the system (n-1 stationarity columns + normalisation) is stationary in every column *)
Lemma stat_system_stationary : forall n T q, (0 < n)%nat ->
  (forall i, (i < n)%nat -> sumq n (T i) == 1) ->
  (forall i, (i < n)%nat -> sumq n (fun j => stat_lhs n T i j * q j) == stat_rhs n i O) ->
  stationary_dist n T q.
Proof.
  intros n T q Hn Hrow Hsys. destruct n as [|n']; [lia|].
  assert (Hsum : sumq (S n') q == 1).
  { rewrite <- (stat_lhs_row_last (S n') T q n' eq_refl). rewrite (Hsys n') by lia.
    unfold stat_rhs. rewrite Nat.eqb_refl. reflexivity. }
  set (D := fun j => sumq (S n') (fun i => q i * T i j) - q j).
  assert (Hcol : forall j, (j < n')%nat -> D j == 0).
  { intros j Hj. unfold D. rewrite <- (stat_lhs_row_gen (S n') T q j) by lia.
    rewrite (Hsys j) by lia. unfold stat_rhs.
    destruct (Nat.eqb_spec (S j) (S n')); [lia | reflexivity]. }
  assert (Htot : sumq (S n') D == 0).
  { unfold D. rewrite sumq_minus.
    rewrite (sumq_swap (S n') (S n') (fun j i => q i * T i j)).
    rewrite (sumq_ext (S n') (fun i => sumq (S n') (fun j => q i * T i j)) q).
    2:{ intros i Hi. rewrite (sumq_scal (S n') (q i) (T i)), (Hrow i Hi). ring. }
    lra. }
  change (sumq n' D + D n' == 0) in Htot.
  rewrite (sumq_zero n' D Hcol) in Htot.
  split; [|exact Hsum].
  intros j Hj. destruct (Nat.eq_dec j n') as [->|Hne].
  - unfold D in Htot. lra.
  - assert (Hj' : (j < n')%nat) by lia. pose proof (Hcol j Hj') as E. unfold D in E. lra.
Qed.

Lemma is_stationary_complete : forall n T pi, stationary_dist n T pi -> is_stationary n T pi = true.
Proof.
  intros n T pi [H1 H2]. unfold is_stationary. apply andb_true_iff. split.
  - apply forallb_forall. intros j Hj. apply in_seq in Hj. apply Qeq_bool_iff. apply H1. lia.
  - apply Qeq_bool_iff. exact H2.
Qed.

Lemma stationary_dist_ext : forall n T p p', (forall i, (i < n)%nat -> p i == p' i) ->
  stationary_dist n T p -> stationary_dist n T p'.
Proof.
  intros n T p p' E [H1 H2]. split.
  - intros j Hj. rewrite <- (E j Hj), <- (H1 j Hj). apply sumq_ext. intros i Hi.
    rewrite (E i Hi). reflexivity.
  - rewrite <- H2. apply sumq_ext. intros i Hi. symmetry. apply E. exact Hi.
Qed.

(* ------------------------------------------------------------------ (d) the model's stand-in for eq_probs succeeds *)
Theorem stationary_total : forall n T, (0 < n)%nat -> wfb n T = true -> stochastic n (mget T) ->
  irreducible n (mget T) -> exists pi, stationary n T = Some pi.
Proof.
  intros n T Hn Hwf Hst Hirr.
  destruct (solve_checked_total n 1 (stat_lhs n (mget T)) (stat_rhs n)) as [p Hp].
  - apply stat_lhs_injective; assumption.
  - unfold stationary. rewrite Hwf, Hp. cbv zeta.
    assert (Hs : stationary_dist n (mget T) (vget (map (fun i => mget p i O) (seq 0 n)))).
    { apply (stationary_dist_ext n (mget T) (fun i => mget p i O)).
      - intros i Hi. unfold vget. rewrite (nth_map_seq (fun i0 => mget p i0 O)) by exact Hi.
        reflexivity.
      - apply stat_system_stationary; [exact Hn | intros i Hi; apply (Hst i Hi) |].
        intros i Hi. apply (solve_checked_sound n 1 _ _ p Hp i O Hi). lia. }
    rewrite (is_stationary_complete _ _ _ Hs). eexists. reflexivity.
Qed.

(* ------------------------------------------------------------------ (e) uniqueness *)
Theorem stationary_unique : forall n T p p', (0 < n)%nat -> stochastic n T -> irreducible n T ->
  stationary_dist n T p -> stationary_dist n T p' -> forall j, (j < n)%nat -> p j == p' j.
Proof.
  intros n T p p' Hn Hst Hirr [H1 H2] [H1' H2'].
  set (d := fun j => p j - p' j).
  assert (Hz : forall j, (j < n)%nat -> d j == 0).
  { apply (stat_lhs_injective n T Hn Hst Hirr d). intros i Hi.
    destruct (Nat.eq_dec (S i) n) as [E|E].
    - rewrite (stat_lhs_row_last n T d i E). unfold d. rewrite sumq_minus, H2, H2'. ring.
    - rewrite (stat_lhs_row_gen n T d i Hi E). unfold d.
      rewrite (sumq_ext n _ (fun j => p j * T j i - p' j * T j i)) by (intros; ring).
      rewrite sumq_minus, (H1 i Hi), (H1' i Hi). ring. }
  intros j Hj. pose proof (Hz j Hj) as E. unfold d in E. lra.
Qed.

(* ------------------------------------------------------------------ (f) positivity *)
Lemma stationary_nonneg : forall n T pi, (0 < n)%nat -> stochastic n T -> irreducible n T ->
  stationary_dist n T pi -> forall j, (j < n)%nat -> 0 <= pi j.
Proof.
  intros n T pi Hn Hst Hirr Hsd. pose proof Hsd as [H1 H2].
  (* the positive part of pi is sub-stationary, hence (summing) stationary *)
  set (pp := fun j => if Qlt_le_dec (pi j) 0 then 0 else pi j).
  assert (Hpp0 : forall j, 0 <= pp j) by (intros j; unfold pp; destruct (Qlt_le_dec (pi j) 0); lra).
  assert (Hpp1 : forall j, pi j <= pp j) by (intros j; unfold pp; destruct (Qlt_le_dec (pi j) 0); lra).
  assert (Hle : forall j, (j < n)%nat -> pp j <= sumq n (fun i => pp i * T i j)).
  { intros j Hj.
    assert (A1 : 0 <= sumq n (fun i => pp i * T i j)).
    { apply sumq_nonneg. intros i Hi.
      apply Qmult_le_0_compat; [apply Hpp0 | apply (proj2 (Hst i Hi)); exact Hj]. }
    assert (A2 : pi j <= sumq n (fun i => pp i * T i j)).
    { rewrite <- (H1 j Hj). apply sumq_le. intros i Hi.
      apply Qmult_le_compat_r; [apply Hpp1 | apply (proj2 (Hst i Hi)); exact Hj]. }
    unfold pp at 1. destruct (Qlt_le_dec (pi j) 0); assumption. }
  assert (Hsw : sumq n (fun j => sumq n (fun i => pp i * T i j)) == sumq n pp).
  { rewrite (sumq_swap n n (fun j i => pp i * T i j)). apply sumq_ext. intros i Hi.
    rewrite (sumq_scal n (pp i) (T i)), (proj1 (Hst i Hi)). ring. }
  assert (Heq : forall j, (j < n)%nat -> pp j == sumq n (fun i => pp i * T i j)).
  { apply (sumq_le_eq n pp (fun j => sumq n (fun i => pp i * T i j))); [exact Hle|].
    symmetry. exact Hsw. }
  set (s := sumq n pp).
  assert (Hs1 : 1 <= s).
  { assert (Hps : sumq n pi <= s) by (apply sumq_le; intros; apply Hpp1). lra. }
  assert (Hsd' : stationary_dist n T (fun j => pp j / s)).
  { split.
    - intros j Hj.
      rewrite (sumq_ext n _ (fun i => / s * (pp i * T i j))) by (intros; unfold Qdiv; ring).
      rewrite sumq_scal, <- (Heq j Hj). unfold Qdiv. ring.
    - rewrite (sumq_ext n _ (fun j => pp j * / s)) by (intros; reflexivity).
      rewrite (sumq_scal_r n (/ s) pp). fold s. field. lra. }
  intros j Hj.
  pose proof (stationary_unique n T _ pi Hn Hst Hirr Hsd' Hsd j Hj) as E. cbv beta in E.
  rewrite <- E. unfold Qdiv.
  apply Qmult_le_0_compat; [apply Hpp0|]. apply Qlt_le_weak. apply Qinv_lt_0_compat. lra.
Qed.

Theorem stationary_positive : forall n T pi, (0 < n)%nat -> stochastic n T -> irreducible n T ->
  stationary_dist n T pi -> forall j, (j < n)%nat -> 0 < pi j.
Proof.
  intros n T pi Hn Hst Hirr Hsd j Hj.
  pose proof (stationary_nonneg n T pi Hn Hst Hirr Hsd) as Hnn. destruct Hsd as [H1 H2].
  destruct (Qlt_le_dec 0 (pi j)) as [Hpos|Hle]; [exact Hpos|]. exfalso.
  assert (Hj0 : pi j == 0) by (pose proof (Hnn j Hj); lra).
  assert (Hspread : forall k, (k < n)%nat -> pi k == 0 ->
            forall i, (i < n)%nat -> 0 < T i k -> pi i == 0).
  { intros k Hk Hk0 i Hi Hpos.
    assert (Ht : pi i * T i k == 0).
    { apply (sumq_nonneg_zero n (fun i' => pi i' * T i' k)); [| rewrite (H1 k Hk); exact Hk0 | exact Hi].
      intros i' Hi'. apply Qmult_le_0_compat; [apply Hnn; exact Hi' | apply (proj2 (Hst i' Hi')); exact Hk]. }
    destruct (Qmult_integral _ _ Ht) as [E|E]; [exact E | lra]. }
  assert (Hall : forall i, reaches n T [j] i -> (i < n)%nat -> pi i == 0).
  { intros i Hr. induction Hr as [i Hin | i k Hk Hpos Hr IH]; intros Hi.
    - destruct Hin as [<-|[]]. exact Hj0.
    - apply (Hspread k Hk (IH Hk) i Hi Hpos). }
  assert (Hz : sumq n pi == 0).
  { apply sumq_zero. intros i Hi. apply Hall; [apply Hirr; assumption | exact Hi]. }
  rewrite H2 in Hz. lra.
Qed.

(* ------------------------------------------------------------------ (g) mfpts(tprob) with default populations *)
Lemma stationary_length : forall n T pi, stationary n T = Some pi -> length pi = n.
Proof.
  intros n T pi H. unfold stationary in H.
  destruct (wfb n T); [|discriminate].
  destruct (solve_checked n 1 (stat_lhs n (mget T)) (stat_rhs n)) as [p|]; [|discriminate].
  cbv zeta in H.
  destruct (is_stationary n (mget T) (vget (map (fun i => mget p i O) (seq 0 n)))); [|discriminate].
  inversion H. rewrite map_length, seq_length. reflexivity.
Qed.

Theorem mfpts_all_default_total : forall n T lag, (0 < n)%nat -> wfb n T = true ->
  stochastic n (mget T) -> irreducible n (mget T) -> exists M, mfpts_all_default n T lag = Some M.
Proof.
  intros n T lag Hn Hwf Hst Hirr.
  destruct (stationary_total n T Hn Hwf Hst Hirr) as [pi Hpi].
  unfold mfpts_all_default. rewrite Hpi.
  pose proof (stationary_sound n T pi Hpi) as Hsd.
  apply (mfpts_all_total n T pi lag O); try assumption.
  - apply (stationary_length n T). exact Hpi.
  - intros j Hj E.
    pose proof (stationary_positive n (mget T) (vget pi) Hn Hst Hirr Hsd j Hj) as Hp. lra.
  - intros i Hi. apply Hirr; assumption.
Qed.
