(* C14: Python slice vocabulary of the translated MPI layer (nslice / nput_slice / ra_set_row of
   Base/MpiGenBase.v) against the striping primitives of Model/Mpi.v (every / put_every). *)
From Coq Require Import List ZArith Bool Arith Lia.
From EV Require Import PySlice PySliceLemmas Cluster Mpi MpiBase MpiProofs MpiGenBase.
Import ListNotations.
Local Open Scope nat_scope.

(* ------------------------------------------------------------------ arithmetic *)
Lemma divmod_pos : forall p P, 1 <= P -> p mod P + p / P * P = p.
Proof.
  intros p P HP. pose proof (Nat.div_mod p P ltac:(lia)) as H. lia.
Qed.

Lemma mod_stripe : forall r j P, r < P -> (r + j * P) mod P = r.
Proof.
  intros r j P Hr. rewrite Nat.mod_add by lia. apply Nat.mod_small. exact Hr.
Qed.

Lemma div_stripe : forall r j P, r < P -> (r + j * P) / P = j.
Proof.
  intros r j P Hr. rewrite Nat.div_add by lia. rewrite Nat.div_small by exact Hr. reflexivity.
Qed.

(* ------------------------------------------------------------------ generic list facts *)
Lemma nth_error_seq_gen : forall c s j, nth_error (seq s c) j = if j <? c then Some (s + j) else None.
Proof.
  induction c as [|c IH]; intros s j.
  - destruct j; reflexivity.
  - destruct j as [|j]; cbn [seq nth_error].
    + rewrite Nat.add_0_r. reflexivity.
    + rewrite IH. change (S j <? S c) with (j <? c).
      destruct (j <? c); [f_equal; lia | reflexivity].
Qed.

Lemma nth_error_map_seq : forall {B} (f : nat -> B) c j,
  nth_error (map f (seq 0 c)) j = if j <? c then Some (f j) else None.
Proof.
  intros B f c j. rewrite nth_error_map, nth_error_seq_gen.
  destruct (j <? c); reflexivity.
Qed.

Lemma nth_error_combine_seq : forall {A} (l : list A) s i,
  nth_error (combine (seq s (length l)) l) i = option_map (fun x => (s + i, x)) (nth_error l i).
Proof.
  intros A l; induction l as [|x t IH]; intros s i.
  - destruct i; reflexivity.
  - cbn [length seq combine]. destruct i as [|i]; cbn [nth_error option_map].
    + rewrite Nat.add_0_r. reflexivity.
    + rewrite IH. replace (S s + i) with (s + S i) by lia. reflexivity.
Qed.

Lemma nth_error_set_row : forall {A} (rows : list A) r v i, r < length rows ->
  nth_error (firstn r rows ++ v :: skipn (S r) rows) i = if Nat.eqb i r then Some v else nth_error rows i.
Proof.
  intros A rows; induction rows as [|x t IH]; intros r v i Hr; [cbn in Hr; lia|].
  destruct r as [|r].
  - cbn [firstn skipn app]. destruct i; reflexivity.
  - cbn [firstn skipn app]. destruct i as [|i]; [reflexivity|].
    cbn [nth_error]. rewrite IH by (cbn [length] in Hr; lia). reflexivity.
Qed.

(* zindex_of on an injective enumeration *)
Lemma zindex_of_map_seq_hit : forall (f : nat -> Z) c s j,
  (forall a b, f a = f b -> a = b) -> j < c -> zindex_of (f (s + j)) (map f (seq s c)) = Some j.
Proof.
  intros f c; induction c as [|c IH]; intros s j Hinj Hj; [lia|].
  cbn [seq map zindex_of]. destruct j as [|j].
  - rewrite Nat.add_0_r, Z.eqb_refl. reflexivity.
  - destruct (Z.eqb_spec (f (s + S j)) (f s)) as [He|Hne].
    + apply Hinj in He. lia.
    + replace (s + S j) with (S s + j) by lia. rewrite IH by (assumption || lia). reflexivity.
Qed.

Lemma zindex_of_map_seq_miss : forall (f : nat -> Z) x c s,
  (forall j, j < c -> f (s + j) <> x) -> zindex_of x (map f (seq s c)) = None.
Proof.
  intros f x c; induction c as [|c IH]; intros s H; [reflexivity|].
  cbn [seq map zindex_of]. destruct (Z.eqb_spec x (f s)) as [He|Hne].
  - exfalso. apply (H 0); [lia|]. rewrite Nat.add_0_r. symmetry. exact He.
  - rewrite IH; [reflexivity|]. intros j Hj. replace (S s + j) with (s + S j) by lia. apply H. lia.
Qed.

(* ------------------------------------------------------------------ length of a stripe *)
Lemma every_lt_length : forall {A} P r (l : list A) j, 1 <= P ->
  j < length (every P r l) <-> r + j * P < length l.
Proof.
  intros A P r l j HP. split; intros H.
  - apply nth_error_Some. rewrite <- every_nth by assumption. apply nth_error_Some. exact H.
  - apply nth_error_Some. rewrite every_nth by assumption. apply nth_error_Some. exact H.
Qed.

Lemma every_length_char : forall {A} P r (l : list A) c, 1 <= P ->
  (forall j, j < c <-> r + j * P < length l) -> length (every P r l) = c.
Proof.
  intros A P r l c HP Hc.
  pose proof (every_lt_length P r l c HP) as H1.
  pose proof (every_lt_length P r l (length (every P r l)) HP) as H2.
  pose proof (Hc c) as H3. pose proof (Hc (length (every P r l))) as H4.
  lia.
Qed.

Lemma repeat_tt_map : forall {A} (l : list A), repeat tt (length l) = map (fun _ => tt) l.
Proof.
  intros A l; induction l as [|x t IH]; [reflexivity|]. cbn [length repeat map]. rewrite IH. reflexivity.
Qed.

(* the length of a stripe depends only on the length of the list *)
Lemma every_length_repeat : forall {A} P r (l : list A),
  length (every P r (repeat tt (length l))) = length (every P r l).
Proof.
  intros A P r l. rewrite repeat_tt_map, every_map, map_length. reflexivity.
Qed.

Lemma stripe_cnt_char : forall len r P j, 1 <= P ->
  j < Z.to_nat ((Z.of_nat len - Z.min (Z.of_nat r) (Z.of_nat len) + Z.of_nat P - 1) / Z.of_nat P)%Z
  <-> r + j * P < len.
Proof.
  intros len r P j HP.
  destruct (Nat.le_gt_cases r len) as [Hr|Hr].
  - rewrite Z.min_l by lia.
    set (a := (Z.of_nat len - Z.of_nat r + Z.of_nat P - 1)%Z).
    assert (Hq0 : (0 <= a / Z.of_nat P)%Z) by (apply Z.div_pos; unfold a; lia).
    assert (Hlo : (Z.of_nat P * (a / Z.of_nat P) <= a)%Z) by (apply Z.mul_div_le; lia).
    assert (Hhi : (a < Z.of_nat P * Z.succ (a / Z.of_nat P))%Z) by (apply Z.mul_succ_div_gt; lia).
    set (q := (a / Z.of_nat P)%Z) in *.
    split; intros H.
    + assert (Hj : (Z.of_nat j + 1 <= q)%Z) by lia.
      assert (Hm : (Z.of_nat P * (Z.of_nat j + 1) <= Z.of_nat P * q)%Z) by (apply Z.mul_le_mono_nonneg_l; lia).
      unfold a in Hlo. nia.
    + assert (Hj : (Z.of_nat P * (Z.of_nat j + 1) < Z.of_nat P * Z.succ q)%Z) by (unfold a in Hhi; nia).
      apply Z.mul_lt_mono_pos_l in Hj; lia.
  - rewrite Z.min_r by lia.
    replace (Z.of_nat len - Z.of_nat len + Z.of_nat P - 1)%Z with (Z.of_nat P - 1)%Z by lia.
    rewrite Z.div_small by lia. split; intros H; nia.
Qed.

(* ------------------------------------------------------------------ 1. indices of x[r::P] *)
Lemma slice_indices_stripe : forall len r P, 1 <= P ->
  slice_indices len (Some (Z.of_nat r)) None (Some (Z.of_nat P))
  = map (fun j => Z.of_nat (r + j * P)) (seq 0 (length (every P r (repeat tt len)))).
Proof.
  intros len r P HP.
  unfold slice_indices, step_of, adjust.
  assert (E : (Z.of_nat P <? 0)%Z = false) by (apply Z.ltb_ge; lia). rewrite E.
  assert (E1 : (Z.of_nat r <? 0)%Z = false) by (apply Z.ltb_ge; lia). rewrite E1.
  cbv beta iota zeta.
  unfold zrange, range_len.
  assert (E2 : (0 <? Z.of_nat P)%Z = true) by (apply Z.ltb_lt; lia). rewrite E2.
  assert (Hc : length (every P r (repeat tt len))
               = Z.to_nat ((Z.of_nat len - Z.min (Z.of_nat r) (Z.of_nat len) + Z.of_nat P - 1) / Z.of_nat P)%Z).
  { apply every_length_char; [assumption|]. intros j. rewrite repeat_length.
    apply stripe_cnt_char. assumption. }
  rewrite Hc. apply map_ext_in. intros j Hj. apply in_seq in Hj.
  assert (Hlt : r + j * P < len) by (apply (stripe_cnt_char len r P j HP); lia).
  rewrite Z.min_l by nia. lia.
Qed.

(* ------------------------------------------------------------------ 2. x[r::P] = every P r x *)
Lemma nslice_every : forall {A} (l : list A) r P, 1 <= P ->
  nslice l (Some r) None (Some P) = every P r l.
Proof.
  intros A l r P HP. unfold nslice, slice_list. cbn [oz option_map].
  rewrite slice_indices_stripe by assumption. rewrite every_length_repeat.
  destruct l as [|d t]; [reflexivity|].
  set (l := d :: t).
  rewrite (flat_map_pick_valid l d).
  - rewrite map_map. apply nth_error_ext_eq. intros j.
    rewrite nth_error_map_seq, every_nth by assumption.
    destruct (Nat.ltb_spec j (length (every P r l))) as [Hj|Hj].
    + apply every_lt_length in Hj; [|assumption].
      rewrite Nat2Z.id. symmetry. apply nth_error_nth'. exact Hj.
    + symmetry. apply nth_error_None.
      destruct (Nat.le_gt_cases (length l) (r + j * P)) as [Hle|Hgt]; [exact Hle|].
      apply every_lt_length in Hgt; [|assumption]. lia.
  - intros i Hi. apply in_map_iff in Hi. destruct Hi as [j [<- Hj]]. apply in_seq in Hj.
    assert (Hlt : r + j * P < length l) by (apply every_lt_length; [assumption|lia]).
    lia.
Qed.

(* ------------------------------------------------------------------ 3. put_every, pointwise *)
Lemma every_put_same_len : forall {A} P (l news : list A) k,
  length news = length (every P k l) -> every P k (put_every P k news l) = news.
Proof.
  intros A P l; induction l as [|x t IH]; intros news k Hn.
  - cbn [every length] in Hn. destruct news; [reflexivity|discriminate].
  - destruct k as [|k1].
    + cbn [every length] in Hn. destruct news as [|y ns]; [discriminate|].
      injection Hn as Hn. cbn [put_every every]. f_equal. apply IH. exact Hn.
    + cbn [every] in Hn. cbn [put_every every]. apply IH. exact Hn.
Qed.

(* simplified form: the bound p < length l is implied (news has no item p / P beyond it) *)
Lemma put_every_nth' : forall {A} P r (news l : list A) p, 1 <= P -> r < P ->
  length news = length (every P r l) ->
  nth_error (put_every P r news l) p
  = if Nat.eqb (p mod P) r then nth_error news (p / P) else nth_error l p.
Proof.
  intros A P r news l p HP Hr Hn.
  pose proof (divmod_pos p P HP) as Hp.
  pose proof (Nat.mod_upper_bound p P ltac:(lia)) as Hm.
  transitivity (nth_error (every P (p mod P) (put_every P r news l)) (p / P)).
  - rewrite every_nth by assumption. rewrite Hp. reflexivity.
  - destruct (Nat.eqb_spec (p mod P) r) as [He|Hne].
    + rewrite He. rewrite every_put_same_len by assumption. reflexivity.
    + rewrite every_put_other by lia. rewrite every_nth by assumption. rewrite Hp. reflexivity.
Qed.

Lemma put_every_nth : forall {A} P r (news l : list A) p, 1 <= P -> r < P ->
  length news = length (every P r l) ->
  nth_error (put_every P r news l) p
  = if Nat.eqb (p mod P) r
    then (if Nat.ltb p (length l) then nth_error news (p / P) else None)
    else nth_error l p.
Proof.
  intros A P r news l p HP Hr Hn. rewrite put_every_nth' by assumption.
  destruct (Nat.eqb_spec (p mod P) r) as [He|Hne]; [|reflexivity].
  destruct (Nat.ltb_spec p (length l)) as [Hlt|Hge]; [reflexivity|].
  apply nth_error_None. rewrite Hn.
  destruct (Nat.le_gt_cases (length (every P r l)) (p / P)) as [Hle|Hgt]; [exact Hle|].
  apply every_lt_length in Hgt; [|assumption].
  pose proof (divmod_pos p P HP) as Hp. lia.
Qed.

(* ------------------------------------------------------------------ 4. x[r::P] = news *)
Lemma nput_slice_every : forall {A} (l news : list A) r P, 1 <= P -> r < P ->
  nput_slice l (Some r) None (Some P) news
  = if Nat.eqb (length (every P r l)) (length news) then Some (put_every P r news l) else None.
Proof.
  intros A l news r P HP Hr. unfold nput_slice. cbn [oz option_map].
  rewrite slice_indices_stripe by assumption. rewrite every_length_repeat.
  rewrite map_length, seq_length.
  destruct (Nat.eqb_spec (length (every P r l)) (length news)) as [Hlen|Hlen]; [|reflexivity].
  f_equal. apply nth_error_ext_eq. intros p.
  rewrite nth_error_map, nth_error_combine_seq. cbn [Nat.add].
  destruct (nth_error l p) as [x|] eqn:Hx; cbn [option_map fst snd].
  - assert (Hpl : p < length l) by (apply nth_error_Some; congruence).
    pose proof (divmod_pos p P HP) as Hp.
    rewrite put_every_nth' by (assumption || (symmetry; assumption)).
    rewrite Hx.
    destruct (Nat.eqb_spec (p mod P) r) as [He|Hne].
    + assert (Hq : p / P < length (every P r l)) by (apply every_lt_length; [assumption|lia]).
      assert (Hz : zindex_of (Z.of_nat p)
                     (map (fun j => Z.of_nat (r + j * P)) (seq 0 (length (every P r l))))
                   = Some (p / P)).
      { pose proof (zindex_of_map_seq_hit (fun j => Z.of_nat (r + j * P))
                      (length (every P r l)) 0 (p / P)) as Hh.
        cbn beta in Hh. cbn [Nat.add] in Hh.
        replace (r + p / P * P) with p in Hh by lia.
        apply Hh; [|exact Hq]. intros a b Hab. nia. }
      rewrite Hz.
      destruct (nth_error news (p / P)) as [y|] eqn:Hy; [reflexivity|].
      apply nth_error_None in Hy. lia.
    + assert (Hz : zindex_of (Z.of_nat p)
                     (map (fun j => Z.of_nat (r + j * P)) (seq 0 (length (every P r l))))
                   = None).
      { apply zindex_of_map_seq_miss. intros j Hj Heq. cbn [Nat.add] in Heq.
        apply Nat2Z.inj in Heq. apply Hne. rewrite <- Heq. apply mod_stripe. exact Hr. }
      rewrite Hz. reflexivity.
  - symmetry. apply nth_error_None. rewrite put_every_length. apply nth_error_None. exact Hx.
Qed.

(* ------------------------------------------------------------------ 5. rows[r] = v when rank r owns one row *)
Lemma ra_set_row_put_every : forall {A} (rows : list (list A)) r P (v : list A), 1 <= P -> r < P ->
  length (every P r rows) = 1 ->
  ra_set_row rows r v
  = if Nat.eqb (length (nth r rows [])) (length v) then Some (put_every P r [v] rows) else None.
Proof.
  intros A rows r P v HP Hr H1.
  assert (Hlo : r < length rows).
  { pose proof (every_lt_length P r rows 0 HP) as H. lia. }
  assert (Hhi : length rows <= r + P).
  { pose proof (every_lt_length P r rows 1 HP) as H. lia. }
  unfold ra_set_row.
  destruct (nth_error rows r) as [old|] eqn:Hold; [|apply nth_error_None in Hold; lia].
  rewrite (nth_error_nth rows r [] Hold).
  destruct (Nat.eqb (length old) (length v)); [|reflexivity].
  f_equal. apply nth_error_ext_eq. intros i.
  rewrite nth_error_set_row by assumption.
  rewrite put_every_nth' by (assumption || (cbn [length]; symmetry; assumption)).
  pose proof (divmod_pos i P HP) as Hi.
  destruct (Nat.eqb_spec i r) as [Heq|Hne].
  - rewrite Heq. rewrite Nat.mod_small by assumption. rewrite Nat.eqb_refl.
    rewrite Nat.div_small by assumption. reflexivity.
  - destruct (Nat.eqb_spec (i mod P) r) as [He|Hne2]; [|reflexivity].
    assert (Hq : 1 <= i / P).
    { destruct (i / P) as [|q] eqn:Eq; lia. }
    rewrite (proj2 (nth_error_None rows i)) by nia.
    destruct (i / P) as [|q]; [lia|]. destruct q; reflexivity.
Qed.

(* ------------------------------------------------------------------ 6. put_every: identity and map *)
Lemma put_every_self : forall {A} P r (l : list A), put_every P r (every P r l) l = l.
Proof.
  intros A P r l; revert r; induction l as [|x t IH]; intros r; [reflexivity|].
  destruct r as [|r]; cbn [every put_every]; rewrite IH; reflexivity.
Qed.

Lemma put_every_map : forall {A B} (f : A -> B) P r (news l : list A),
  map f (put_every P r news l) = put_every P r (map f news) (map f l).
Proof.
  intros A B f P r news l; revert r news; induction l as [|x t IH]; intros r news; [reflexivity|].
  destruct r as [|r]; [destruct news as [|y ns]|]; cbn [put_every map]; rewrite IH; reflexivity.
Qed.
