(* C06 -- the write-path structure regenerated from enspara/ra/ra.py (Gen/RaOpsGen.v, vocabulary in
   Base/RaOpsBase.v, meaning in Model/RaggedOpsGen.v) refines the hand-written state machine of
   Model/RaggedOps.v:
     - every __setitem__ branch ends with both representations current (resync flag), and ANY branch
       table with that flag keeps the three slots coherent (resync_sound);
     - the flat offsets of the write path (read path's regenerated _convert_from_2d, called with the
       regenerated starts) are the model's start_of ls r + c on exactly the cells the model accepts;
     - gen_step = step for every write; append resets every slot; the constructor copies by default and
       its regenerated branches are of_rows / of_flat; map_operator / __invert__ are map_op. *)
From Coq Require Import List ZArith Bool Lia.
From EV Require Import PySlice RaBase RaGen Ragged RaggedProofs RaGenProofs.
From EV Require Import RaOpsBase RaOpsGen RaggedOps RaggedOpsProofs RaggedOpsGen.
Import ListNotations.

(* ---------------------------------------------------------------- small monad facts *)
Lemma bind_ok_map {A B} (x : res A) (f : A -> B) : bind x (fun a => Ok (f a)) = res_map f x.
Proof. destruct x; reflexivity. Qed.

Lemma all_some_option_map {A B C} (f : A -> option B) (g : B -> C) (l : list A) :
  all_some (map (fun x => option_map g (f x)) l) = option_map (map g) (all_some (map f l)).
Proof.
  induction l as [|x l IH]; cbn [map all_some option_map]; [reflexivity|].
  destruct (f x) as [y|]; cbn [option_map]; [|reflexivity].
  rewrite IH. destruct (all_some (map f l)); reflexivity.
Qed.

(* ---------------------------------------------------------------- __setitem__: flags and tables *)
Lemma gen_every_branch_resyncs : forall k, resync gen_setitem_path k = true.
Proof. intros k. destruct k; reflexivity. Qed.

Lemma gen_cells_as_modelled : forall k, gen_setitem_cells k = expected_cells k.
Proof. intros k. destruct k; reflexivity. Qed.

(* which index forms go through the row view + constructor, which through the flat data + rebuild *)
Lemma gen_dispatch :
  (forall k, In k [KInt; KSlice; KList; KArr] -> gen_setitem_path k = [WRowCopy; WCtorCopy]) /\
  gen_setitem_path KIntSl = [WRowInPlace; WCtorView] /\
  (forall k, In k [KSlSl; KSlInt; KSlList; KListSl; KPair] -> gen_setitem_path k = [WFlat; WRebuild]) /\
  gen_setitem_path KMask = [WWhere].
Proof.
  repeat split.
  - intros k H. cbn [In] in H. repeat destruct H as [H|H]; try contradiction; subst k; reflexivity.
  - intros k H. cbn [In] in H. repeat destruct H as [H|H]; try contradiction; subst k; reflexivity.
Qed.

(* ---------------------------------------------------------------- soundness of the resync flag *)
Definition Inv (t : truth) (s : st Z) : Prop :=
  match t with
  | TBoth => Coh s
  | TRows => True
  | TData => sum (lens s) = length (data s)
  | TBroken => False
  end.

Lemma truth_broken p : fold_left truth_step p TBroken = TBroken.
Proof. induction p as [|e p IH]; [reflexivity|]. cbn [fold_left]. destruct e; exact IH. Qed.

Lemma flat_data_length s o d' : flat_data s o = Ok d' -> length d' = length (data s).
Proof.
  unfold flat_data. destruct (op_cells (lens s) o) as [cs|e]; cbn [bind]; [|discriminate].
  destruct (flat_iis (lens s) cs) as [iis|e]; cbn [bind]; [|discriminate].
  destruct o; try discriminate.
  - destruct (bval_1d v) as [v1|e]; cbn [bind]; [|discriminate].
    destruct (bcast (length iis) v1); [|discriminate]. intros H. injection H as <-. apply length_write_at.
  - destruct (bval_1d v) as [v1|e]; cbn [bind]; [|discriminate].
    destruct (bcast (length iis) v1); [|discriminate]. intros H. injection H as <-. apply length_write_at.
  - intros H. injection H as <-. apply length_write_at.
  - intros H. injection H as <-. apply length_write_at.
Qed.

Lemma coh_rebuilt (d : list Z) ls : sum ls = length d -> Coh (mkst d (partition d ls) ls).
Proof. intros H. split; [reflexivity|exact H]. Qed.

Lemma exec_sound p : forall o s tmp t s',
  Inv t s -> is_both (fold_left truth_step p t) = true -> exec p o s tmp = Ok s' -> Coh s'.
Proof.
  induction p as [|e p IH]; intros o s tmp t s' HI Hf He.
  - cbn [fold_left] in Hf. cbn [exec] in He. injection He as <-. destruct t; try discriminate. exact HI.
  - cbn [fold_left] in Hf.
    assert (Hnb : truth_step t e <> TBroken).
    { intros E. rewrite E, truth_broken in Hf. discriminate. }
    destruct e; cbn [exec] in He.
    + (* WRowCopy *)
      destruct t; cbn [truth_step] in Hf, Hnb; try congruence.
      destruct (step_s (rows s) o) as [rs'|er]; cbn [bind] in He; [|discriminate].
      exact (IH o s rs' TBoth s' HI Hf He).
    + (* WCtorCopy *)
      destruct t; cbn [truth_step] in Hf, Hnb; try congruence.
      exact (IH o (of_rows tmp) tmp TBoth s' (coh_of_rows tmp) Hf He).
    + (* WRowInPlace *)
      destruct (step_s (rows s) o) as [rs'|er]; cbn [bind] in He; [|discriminate].
      destruct t; cbn [truth_step] in Hf, Hnb; try congruence;
        exact (IH o _ tmp TRows s' I Hf He).
    + (* WCtorView *)
      destruct t; cbn [truth_step] in Hf, Hnb; try congruence;
        exact (IH o _ tmp TBoth s' (coh_of_rows (rows s)) Hf He).
    + (* WFlat *)
      destruct (flat_data s o) as [d'|er] eqn:Ed; cbn [bind] in He; [|discriminate].
      apply flat_data_length in Ed.
      destruct t; cbn [truth_step] in Hf, Hnb; try congruence.
      * refine (IH o _ tmp TData s' _ Hf He). cbn [Inv lens data]. destruct HI as [_ HI]. congruence.
      * refine (IH o _ tmp TData s' _ Hf He). cbn [Inv lens data] in *. congruence.
    + (* WRebuild *)
      destruct t; cbn [truth_step] in Hf, Hnb; try congruence.
      * refine (IH o _ tmp TBoth s' _ Hf He). apply coh_rebuilt. exact (proj2 HI).
      * refine (IH o _ tmp TBoth s' _ Hf He). apply coh_rebuilt. exact HI.
    + discriminate.
Qed.

(* ANY table of branches whose resync flag is set keeps the slots coherent *)
Lemma resync_sound (paths : ikind -> list weff) o s s' :
  Coh s -> resync paths (kind_of o) = true -> run_setitem paths o s = Ok s' -> Coh s'.
Proof.
  intros HC Hf He. unfold resync in Hf. unfold run_setitem in He.
  destruct (paths (kind_of o)) as [|e p] eqn:Ep.
  - exact (exec_sound [] o s [] TBoth s' HC Hf He).
  - destruct e; try exact (exec_sound _ o s [] TBoth s' HC Hf He).
    destruct p as [|e' p'].
    + exact (exec_sound _ o s [] TBoth s' HC Hf He).
    + exact (exec_sound _ o s [] TBoth s' HC Hf He).
Qed.

Lemma gen_setitem_coherent o s s' :
  Coh s -> run_setitem gen_setitem_path o s = Ok s' -> Coh s'.
Proof. intros HC. apply resync_sound; [exact HC|apply gen_every_branch_resyncs]. Qed.

(* a branch that writes the flat data and skips the rebuild has no resync flag (and the reverse) *)
Lemma skipped_rebuild_has_no_flag :
  is_both (truth_after [WFlat]) = false /\ is_both (truth_after [WRowInPlace]) = false /\
  is_both (truth_after [WFlat; WCtorView]) = false /\ is_both (truth_after [WRowInPlace; WRebuild]) = false.
Proof. repeat split. Qed.

(* ---------------------------------------------------------------- flat offsets *)
Lemma start_of_prefix ls : forall r, start_of ls r = Ragged.sum_nat (firstn r ls).
Proof.
  induction ls as [|l ls IH]; intros r; destruct r as [|r]; cbn [start_of firstn Ragged.sum_nat fold_right]; try reflexivity.
  rewrite IH. reflexivity.
Qed.

Lemma starts_of_nth ls r : (r < length ls)%nat -> nth r (Ragged.starts_of ls) 0%nat = start_of ls r.
Proof. intros H. rewrite starts_prefix_sum by exact H. symmetry. apply start_of_prefix. Qed.

Lemma starts_of_eq ls : Ragged.starts_of ls = starts ls.
Proof.
  apply (nth_ext _ _ 0%nat 0%nat).
  - unfold Ragged.starts_of, starts. rewrite starts_from_length, map_length, seq_length. reflexivity.
  - intros j Hj. unfold Ragged.starts_of in Hj. rewrite starts_from_length in Hj.
    rewrite (starts_of_nth ls j Hj). unfold starts.
    rewrite (nth_indep _ 0%nat (start_of ls 0%nat)) by (rewrite map_length, seq_length; exact Hj).
    rewrite map_nth, seq_nth by exact Hj. reflexivity.
Qed.

Lemma conv2d_cell ls r c : Ragged.conv2d ls r c = option_map (flat_of ls) (cell ls (r, c)).
Proof.
  unfold Ragged.conv2d, cell, wrap. cbn [fst snd].
  set (n := Z.of_nat (length ls)).
  set (r1 := (if (r <? 0)%Z then (r + n)%Z else r)).
  destruct (Z.ltb_spec r1 0) as [Hr|Hr]; cbn [orb]; [reflexivity|].
  destruct (Z.leb_spec n r1) as [Hn|Hn].
  - cbn [option_map]. assert (E : nth_error ls (Z.to_nat r1) = None) by (apply nth_error_None; lia).
    rewrite E. reflexivity.
  - assert (Hlt : (Z.to_nat r1 < length ls)%nat) by lia.
    rewrite (nth_error_nth' ls 0%nat Hlt).
    set (l := nth (Z.to_nat r1) ls 0%nat).
    set (c1 := (if (c <? 0)%Z then (c + Z.of_nat l)%Z else c)).
    destruct (Z.ltb_spec c1 0) as [Hc|Hc]; cbn [orb]; [reflexivity|].
    destruct (Z.leb_spec (Z.of_nat l) c1) as [Hl|Hl]; [reflexivity|].
    cbn [option_map]. unfold flat_of. cbn [fst snd]. rewrite (starts_of_nth ls _ Hlt). reflexivity.
Qed.

(* the regenerated offset of the write path = the model's start_of ls r + c, on the model's cells *)
Lemma gen_w_offset_spec ls r c :
  gen_w_offset (zl ls) r c = option_map (fun rc => Z.of_nat (flat_of ls rc)) (cell ls (r, c)).
Proof.
  unfold gen_w_offset, zl. change (gen_ops_starts (map Z.of_nat ls)) with (gen_starts (map Z.of_nat ls)).
  rewrite gen_conv2d_spec, conv2d_cell. destruct (cell ls (r, c)); reflexivity.
Qed.

Lemma flat_iis_spec ls cs : flat_iis ls cs = res_map (map (flat_of ls)) (resolve ls cs).
Proof.
  unfold flat_iis, resolve.
  rewrite (map_ext _ (fun rc => option_map (flat_of ls) (cell ls rc))).
  - rewrite all_some_option_map. destruct (all_some (map (cell ls) cs)); reflexivity.
  - intros [r c]. cbn [fst snd]. rewrite gen_w_offset_spec.
    destruct (cell ls (r, c)); cbn [option_map]; [|reflexivity]. rewrite Nat2Z.id. reflexivity.
Qed.

(* the starts property in effect = the model's starts (at least one row) *)
Lemma gen_ops_starts_spec ls : ls <> [] -> gen_ops_starts (zl ls) = zl (starts ls).
Proof.
  intros H. unfold zl. change (gen_ops_starts (map Z.of_nat ls)) with (gen_starts (map Z.of_nat ls)).
  rewrite (gen_starts_spec ls H), starts_of_eq. reflexivity.
Qed.

Lemma gen_starts_defs_agree : forall f, In f gen_starts_defs -> f = gen_ops_starts.
Proof. intros f H. cbn [gen_starts_defs In] in H. destruct H as [H|H]; [symmetry; exact H|contradiction]. Qed.

(* ---------------------------------------------------------------- the flat route = assign_cells / aug_cells *)
Definition rebuilt (s : st Z) (d' : list Z) : res (st Z) := Ok (mkst d' (partition d' (lens s)) (lens s)).

Lemma flat_route_set s rs cs v :
  bind (flat_data s (Set2D rs cs v)) (rebuilt s) = bind (cells_of (lens s) rs cs) (fun c => assign_cells s c v).
Proof.
  unfold flat_data, op_cells, rebuilt. destruct (cells_of (lens s) rs cs) as [c|e]; cbn [bind]; [|reflexivity].
  rewrite flat_iis_spec. unfold assign_cells.
  destruct (resolve (lens s) c) as [cells|e]; cbn [bind res_map]; [|reflexivity].
  destruct (bval_1d v) as [v1|e]; cbn [bind]; [|reflexivity].
  rewrite map_length. destruct (bcast (length cells) v1); reflexivity.
Qed.

Lemma flat_route_mask s m v :
  bind (flat_data s (SetMask m v)) (rebuilt s) = bind (mask_cells m) (fun c => assign_cells s c v).
Proof.
  unfold flat_data, op_cells, rebuilt, mask_cells. cbn [bind].
  rewrite flat_iis_spec. unfold assign_cells.
  destruct (resolve (lens s) (mask_cells_from 0 m)) as [cells|e]; cbn [bind res_map]; [|reflexivity].
  destruct (bval_1d v) as [v1|e]; cbn [bind]; [|reflexivity].
  rewrite map_length. destruct (bcast (length cells) v1); reflexivity.
Qed.

Lemma flat_route_aug s rs cs b k :
  bind (flat_data s (Aug2D rs cs b k)) (rebuilt s) = bind (cells_of (lens s) rs cs) (fun c => aug_cells s c b k).
Proof.
  unfold flat_data, op_cells, rebuilt. destruct (cells_of (lens s) rs cs) as [c|e]; cbn [bind]; [|reflexivity].
  rewrite flat_iis_spec. unfold aug_cells.
  destruct (resolve (lens s) c) as [cells|e]; reflexivity.
Qed.

Lemma flat_route_augmask s m b k :
  bind (flat_data s (AugMask m b k)) (rebuilt s) = bind (mask_cells m) (fun c => aug_cells s c b k).
Proof.
  unfold flat_data, op_cells, rebuilt, mask_cells. cbn [bind].
  rewrite flat_iis_spec. unfold aug_cells.
  destruct (resolve (lens s) (mask_cells_from 0 m)) as [cells|e]; reflexivity.
Qed.

(* ---------------------------------------------------------------- gen_step = step *)
Lemma gen_setitem_refines s o : is_setitem o = true -> gen_step s o = step s o.
Proof.
  intros Hs. destruct o; try discriminate Hs; cbn [gen_step step].
  - (* SetRow *) unfold run_setitem. cbn [kind_of gen_setitem_path exec]. apply bind_ok_map.
  - (* SetRows *) unfold run_setitem. destruct sel; cbn [kind_of gen_setitem_path exec]; apply bind_ok_map.
  - (* SetRowSl *) unfold run_setitem. cbn [kind_of gen_setitem_path exec rows]. apply bind_ok_map.
  - (* AugRow *) unfold run_setitem. cbn [kind_of gen_setitem_path exec]. apply bind_ok_map.
  - (* AugRows *) unfold run_setitem. destruct sel; cbn [kind_of gen_setitem_path exec]; apply bind_ok_map.
  - (* Set2D *) unfold run_setitem.
    destruct rs, cs; cbn [kind_of gen_setitem_path exec data lens]; apply flat_route_set.
  - (* SetMask *) unfold run_setitem. cbn [kind_of gen_setitem_path exec data lens]. apply flat_route_mask.
  - (* Aug2D *) unfold run_setitem.
    destruct rs, cs; cbn [kind_of gen_setitem_path exec data lens]; apply flat_route_aug.
  - (* AugMask *) unfold run_setitem. cbn [kind_of gen_setitem_path exec data lens]. apply flat_route_augmask.
Qed.

(* ---------------------------------------------------------------- append *)
Lemma gen_append_resets_every_slot :
  covers (path_writes gen_append_path) gen_slots = true /\
  covers (path_writes gen_append_empty_path) gen_slots = true /\
  append_resync gen_append_path = true /\ append_resync gen_append_empty_path = true.
Proof. repeat split. Qed.

Lemma gen_slots_are_the_three : gen_slots = [SData; SArray; SLengths].
Proof. reflexivity. Qed.

Lemma gen_append_refines s vs :
  (data s = [] -> lens s = [] /\ vs <> []) -> gen_step s (Append vs) = step s (Append vs).
Proof.
  intros H. destruct s as [d rs ls]. cbn [gen_step step run_append data lens] in *.
  destruct d as [|x d].
  - destruct (H eq_refl) as [El Hv]. subst ls. destruct vs as [|v vs]; [congruence|]. reflexivity.
  - destruct vs as [|v vs]; reflexivity.
Qed.

(* every write of the model, through the regenerated structure *)
Lemma gen_step_refines s o :
  (forall vs, o = Append vs -> data s = [] -> lens s = [] /\ vs <> []) -> gen_step s o = step s o.
Proof.
  intros H. destruct (is_setitem o) eqn:E; [apply gen_setitem_refines; exact E|].
  destruct o; try discriminate E.
  - apply gen_append_refines. apply H. reflexivity.
  - reflexivity.
Qed.

Lemma gen_step_coherent s o s' : Coh s -> gen_step s o = Ok s' ->
  (forall vs, o = Append vs -> data s = [] -> lens s = [] /\ vs <> []) -> Coh s'.
Proof. intros HC He H. rewrite (gen_step_refines s o H) in He. exact (step_coh s o s' HC He). Qed.

(* ---------------------------------------------------------------- constructor *)
Lemma gen_ctor_copies_by_default :
  gen_ctor_copy_default = true /\
  forallb (path_fresh gen_ctor_copy_default)
    [gen_ctor_nested; gen_ctor_flat1; gen_ctor_given_rect; gen_ctor_given_ragged; gen_ctor_empty; gen_ctor_fallbacks] = true.
Proof. split; reflexivity. Qed.

Lemma gen_of_rows_spec {A} (rs : list (list A)) : gen_of_rows rs = Ok (of_rows rs).
Proof. destruct rs; reflexivity. Qed.

Lemma gen_of_flat_spec {A} (d : list A) ls : gen_of_flat d ls = of_flat d ls.
Proof.
  unfold gen_of_flat, of_flat.
  destruct (is_rect_lens ls); cbn [gen_ctor_given_rect gen_ctor_given_ragged exec_ctor exec_ceff bind blank data lens rows];
    destruct (Nat.eqb (sum ls) (length d)); reflexivity.
Qed.

Lemma gen_one_row_spec {A} (d : list A) : exec_ctor gen_ctor_flat1 [] d [] blank = Ok (of_rows [d]).
Proof.
  cbn [gen_ctor_flat1 exec_ctor exec_ceff bind blank data lens rows]. unfold of_rows.
  cbn [concat map partition]. rewrite app_nil_r, firstn_all. reflexivity.
Qed.

(* ---------------------------------------------------------------- operators *)
Lemma gen_map_operator_spec {A B} (f : A -> B) (s : st A) :
  Coh s -> exec_opcall gen_map_operator_call f s = Ok (map_op f s) /\ exec_opcall gen_invert_call f s = Ok (map_op f s).
Proof.
  intros [_ H]. unfold exec_opcall. cbn [gen_map_operator_call gen_invert_call oc_array oc_lengths].
  rewrite gen_of_flat_spec. unfold of_flat. rewrite map_length, H, Nat.eqb_refl. split; reflexivity.
Qed.

Lemma gen_operators_return_new_objects :
  oc_new_object gen_map_operator_call = true /\ oc_new_object gen_invert_call = true /\
  oc_copy_arg gen_map_operator_call = None /\ oc_copy_arg gen_invert_call = None /\
  optable_ok gen_operator_table = true /\ length gen_operator_table = 23%nat.
Proof. repeat split. Qed.

(* ---------------------------------------------------------------- size *)
Lemma gen_size_spec {A} (s : st A) :
  In gen_size_in_effect gen_size_defs /\ forall d, In d gen_size_defs -> den_size d s = length (data s).
Proof. split; [cbn; tauto|]. intros d _. destruct d; reflexivity. Qed.

(* ---------------------------------------------------------------- observe, append, observe again *)
Lemma start_of_app ls ms : forall r, (r <= length ls)%nat -> start_of (ls ++ ms) r = start_of ls r.
Proof.
  induction ls as [|l ls IH]; intros r Hr; cbn [length] in Hr.
  - assert (r = 0%nat) by lia. subst r. destruct ms; reflexivity.
  - destruct r as [|r]; [reflexivity|]. cbn [app start_of]. rewrite IH by lia. reflexivity.
Qed.

(* the offsets read before an append stay valid after it: the old starts are a prefix of the new ones *)
Lemma starts_app_prefix ls ms : firstn (length ls) (starts (ls ++ ms)) = starts ls.
Proof.
  unfold starts. rewrite app_length, firstn_map.
  replace (firstn (length ls) (seq 0 (length ls + length ms))) with (seq 0 (length ls)).
  - apply map_ext_in. intros r Hr. apply in_seq in Hr. apply start_of_app. lia.
  - rewrite seq_app, firstn_app, seq_length, Nat.sub_diag, firstn_O, app_nil_r.
    symmetry. apply firstn_all2. rewrite seq_length. lia.
Qed.

(* starts is never stale: right after an append it is computed from the extended lengths, and the first
   appended row starts where the old data ended *)
Lemma starts_after_append s vs s' : Coh s -> step s (Append vs) = Ok s' ->
  observe s' OStarts = VNats (starts (lens s ++ map (@length Z) vs)) /\
  firstn (length (lens s)) (starts (lens s')) = starts (lens s) /\
  nth (length (lens s)) (starts (lens s')) 0%nat = length (data s).
Proof.
  intros [_ HC] H. cbn [step] in H. destruct vs as [|v vs]; [discriminate|]. injection H as <-.
  cbn [observe lens]. split; [reflexivity|]. split; [apply starts_app_prefix|].
  unfold starts. rewrite app_length. cbn [map length].
  rewrite (nth_indep _ 0%nat (start_of (lens s ++ length v :: map (@length Z) vs) 0%nat))
    by (rewrite map_length, seq_length; lia).
  rewrite map_nth, seq_nth by lia. cbn [Nat.add]. rewrite start_of_app by lia.
  rewrite <- HC. clear. induction (lens s) as [|l ls IH]; [reflexivity|].
  cbn [length start_of sum fold_right]. unfold sum in IH. rewrite IH. reflexivity.
Qed.
