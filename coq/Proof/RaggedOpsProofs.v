(* C06 -- proofs about Model/RaggedOps.v: the coherence invariant of the three slots is kept by every
   writer, and every history of writes refines the same history on a plain list of rows. *)
From Coq Require Import List ZArith Lia Bool.
From EV Require Import PySlice RaggedOps.
Import ListNotations.
Open Scope nat_scope.

(* ------------------------------------------------------------------ list lemmas *)
Section Lists.
Context {A : Type}.
Implicit Types (d l : list A) (rs : list (list A)) (ls : list nat).

Lemma partition_concat rs : partition (concat rs) (map (@length A) rs) = rs.
Proof.
  induction rs as [|r rs IH]; cbn [concat map partition]; [reflexivity|].
  rewrite firstn_app, Nat.sub_diag, firstn_all, firstn_O, app_nil_r.
  rewrite skipn_app, skipn_all, Nat.sub_diag. cbn [skipn app]. rewrite IH. reflexivity.
Qed.

Lemma sum_map_length rs : sum (map (@length A) rs) = length (concat rs).
Proof.
  induction rs as [|r rs IH]; cbn [concat map sum fold_right]; [reflexivity|].
  rewrite app_length. unfold sum in IH. rewrite IH. reflexivity.
Qed.

Lemma concat_partition ls : forall d, sum ls = length d -> concat (partition d ls) = d.
Proof.
  induction ls as [|n ls IH]; intros d H; cbn [partition concat sum fold_right] in *.
  - destruct d; [reflexivity|discriminate].
  - rewrite IH.
    + apply firstn_skipn.
    + rewrite skipn_length. unfold sum. lia.
Qed.

Lemma map_length_partition ls : forall d, sum ls <= length d -> map (@length A) (partition d ls) = ls.
Proof.
  induction ls as [|n ls IH]; intros d H; cbn [partition map sum fold_right] in *; [reflexivity|].
  rewrite firstn_length_le by (unfold sum in H; lia).
  rewrite IH; [reflexivity|]. rewrite skipn_length. unfold sum in *. lia.
Qed.

Lemma length_partition ls : forall d, length (partition d ls) = length ls.
Proof. induction ls as [|n ls IH]; intros d; cbn [partition length]; [reflexivity|]. rewrite IH. reflexivity. Qed.

Lemma partition_app ls : forall d e ms, sum ls = length d ->
  partition (d ++ e) (ls ++ ms) = partition d ls ++ partition e ms.
Proof.
  induction ls as [|n ls IH]; intros d e ms H; cbn [partition app sum fold_right] in *.
  - destruct d; [reflexivity|discriminate].
  - assert (Hn : n <= length d) by (unfold sum in H; lia).
    rewrite firstn_app. replace (n - length d) with 0 by lia. rewrite firstn_O, app_nil_r.
    rewrite skipn_app. replace (n - length d) with 0 by lia. cbn [skipn].
    rewrite IH; [reflexivity|]. rewrite skipn_length. unfold sum in *. lia.
Qed.

Lemma length_upd l : forall i v, length (upd l i v) = length l.
Proof. induction l as [|x l IH]; intros [|i] v; cbn [upd length]; try reflexivity. rewrite IH. reflexivity. Qed.

Lemma upd_ge l : forall i v, length l <= i -> upd l i v = l.
Proof.
  induction l as [|x l IH]; intros [|i] v H; cbn [upd length] in *; try reflexivity; [lia|].
  rewrite IH by lia. reflexivity.
Qed.

Lemma firstn_upd n : forall d i v, firstn n (upd d i v) = upd (firstn n d) i v.
Proof.
  induction n as [|n IH]; intros [|x d] [|i] v; cbn [firstn upd]; try reflexivity.
  rewrite IH. reflexivity.
Qed.

Lemma skipn_upd_lt n : forall d i v, i < n -> skipn n (upd d i v) = skipn n d.
Proof.
  induction n as [|n IH]; intros [|x d] [|i] v H; cbn [skipn upd]; try reflexivity; try lia.
  apply IH. lia.
Qed.

Lemma skipn_upd_ge n : forall d j v, skipn n (upd d (n + j) v) = upd (skipn n d) j v.
Proof.
  induction n as [|n IH]; intros d j v; [reflexivity|].
  destruct d as [|x d]; cbn [Nat.add skipn upd].
  - destruct j; reflexivity.
  - apply IH.
Qed.

Lemma nth_firstn_lt n : forall d c x0, c < n -> nth c (firstn n d) x0 = nth c d x0.
Proof.
  induction n as [|n IH]; intros [|x d] [|c] x0 H; cbn [firstn nth]; try reflexivity; try lia.
  apply IH. lia.
Qed.

Lemma nth_skipn_add n : forall d j x0, nth (n + j) d x0 = nth j (skipn n d) x0.
Proof.
  induction n as [|n IH]; intros d j x0; [reflexivity|].
  destruct d as [|x d]; cbn [Nat.add skipn nth]; [destruct j; reflexivity|]. apply IH.
Qed.

Lemma nth_upd_same l : forall i v x0, i < length l -> nth i (upd l i v) x0 = v.
Proof.
  induction l as [|x l IH]; intros [|i] v x0 H; cbn [upd nth length] in *; try lia; [reflexivity|].
  apply IH. lia.
Qed.

Lemma nth_upd_other l : forall i j v x0, i <> j -> nth j (upd l i v) x0 = nth j l x0.
Proof.
  induction l as [|x l IH]; intros [|i] [|j] v x0 H; cbn [upd nth]; try reflexivity; try lia.
  apply IH. lia.
Qed.

(* one flat write at starts[r] + c is one write at column c of row r *)
Lemma partition_upd ls : forall d r c v,
  c < nth r ls 0 ->
  partition (upd d (start_of ls r + c) v) ls =
  upd (partition d ls) r (upd (nth r (partition d ls) []) c v).
Proof.
  induction ls as [|n ls IH]; intros d r c v Hc.
  - destruct r; cbn [nth] in Hc; lia.
  - destruct r as [|r]; cbn [start_of partition nth upd] in *.
    + cbn [Nat.add]. rewrite firstn_upd, skipn_upd_lt by lia. reflexivity.
    + rewrite <- Nat.add_assoc. rewrite firstn_upd, skipn_upd_ge.
      rewrite upd_ge by (rewrite firstn_length; lia).
      rewrite IH by exact Hc. reflexivity.
Qed.

(* reading flat position starts[r] + c is reading column c of row r *)
Lemma nth_partition ls : forall d r c x0,
  c < nth r ls 0 ->
  nth (start_of ls r + c) d x0 = nth c (nth r (partition d ls) []) x0.
Proof.
  induction ls as [|n ls IH]; intros d r c x0 Hc.
  - destruct r; cbn [nth] in Hc; lia.
  - destruct r as [|r]; cbn [start_of partition nth] in *.
    + cbn [Nat.add]. rewrite nth_firstn_lt by lia. reflexivity.
    + rewrite <- Nat.add_assoc, nth_skipn_add. apply IH. exact Hc.
Qed.

Lemma length_write_at iis : forall (vals : list A) d, length (write_at d iis vals) = length d.
Proof.
  unfold write_at. induction iis as [|i iis IH]; intros [|v vals] d; cbn [combine fold_left]; try reflexivity.
  rewrite IH. cbn [fst snd]. apply length_upd.
Qed.
End Lists.

Lemma sum_app a b : sum (a ++ b) = sum a + sum b.
Proof. unfold sum. induction a as [|n a IH]; cbn [app fold_right]; [reflexivity|]. rewrite IH. lia. Qed.

Lemma partition_map {A B} (f : A -> B) ls : forall d,
  partition (map f d) ls = map (map f) (partition d ls).
Proof.
  induction ls as [|n ls IH]; intros d; cbn [partition map]; [reflexivity|].
  rewrite firstn_map, skipn_map, IH. reflexivity.
Qed.

(* ------------------------------------------------------------------ the invariant *)
Definition Coh {A} (s : st A) : Prop :=
  rows s = partition (data s) (lens s) /\ sum (lens s) = length (data s).

Lemma of_rows_rows {A} (rs : list (list A)) : rows (of_rows rs) = rs.
Proof. unfold of_rows. cbn [rows]. apply partition_concat. Qed.

Lemma coh_of_rows {A} (rs : list (list A)) : Coh (of_rows rs).
Proof. unfold Coh, of_rows. cbn [rows data lens]. split; [reflexivity|apply sum_map_length]. Qed.

Lemma coh_of_flat {A} (d : list A) ls s : of_flat d ls = Ok s -> Coh s.
Proof.
  unfold of_flat. destruct (Nat.eqb (sum ls) (length d)) eqn:E; [|discriminate].
  intros H. injection H as <-. apply Nat.eqb_eq in E. split; [reflexivity|exact E].
Qed.

(* a coherent state is determined by its rows: data = concat rows, lens = row lengths *)
Lemma coh_data {A} (s : st A) : Coh s -> data s = concat (rows s).
Proof. intros [Hr Hs]. rewrite Hr. symmetry. apply concat_partition. exact Hs. Qed.

Lemma coh_lens {A} (s : st A) : Coh s -> lens s = map (@length A) (rows s).
Proof. intros [Hr Hs]. rewrite Hr. symmetry. apply map_length_partition. lia. Qed.

Lemma coh_canonical {A} (s : st A) : Coh s -> of_rows (rows s) = s.
Proof.
  intros H. pose proof (coh_data s H) as Hd. pose proof (coh_lens s H) as Hl.
  destruct H as [Hr Hs]. destruct s as [d r l]. cbn [data rows lens] in *.
  unfold of_rows. rewrite <- Hd, <- Hl, <- Hr. reflexivity.
Qed.

(* ------------------------------------------------------------------ indices *)
Lemma wrap_lt n i j : wrap n i = Some j -> j < n.
Proof.
  unfold wrap. destruct (i <? 0)%Z eqn:E;
  match goal with |- context [if ?b then _ else _] => destruct b eqn:E2 end; try discriminate;
  intros H; injection H as <-; apply orb_false_iff in E2; destruct E2 as [E3 E4];
  apply Z.ltb_ge in E3; apply Z.leb_gt in E4; lia.
Qed.

Definition valid (ls : list nat) (rc : nat * nat) : Prop := snd rc < nth (fst rc) ls 0.

Lemma cell_valid ls rc c : cell ls rc = Some c -> valid ls c.
Proof.
  unfold cell, valid. destruct (wrap (length ls) (fst rc)) as [r|] eqn:Er; [|discriminate].
  destruct (wrap (nth r ls 0) (snd rc)) as [c'|] eqn:Ec; [|discriminate].
  intros H. injection H as <-. cbn [fst snd]. eapply wrap_lt. exact Ec.
Qed.

Lemma all_some_forall {A B} (f : A -> option B) (P : B -> Prop) :
  (forall a b, f a = Some b -> P b) ->
  forall l r, all_some (map f l) = Some r -> Forall P r.
Proof.
  intros Hf. induction l as [|a l IH]; intros r H; cbn [map all_some] in H.
  - injection H as <-. constructor.
  - destruct (f a) as [b|] eqn:Ea; [|discriminate].
    destruct (all_some (map f l)) as [r'|] eqn:El; [|discriminate].
    injection H as <-. constructor; [eapply Hf; exact Ea|apply IH; reflexivity].
Qed.

Lemma resolve_valid ls cs cells : resolve ls cs = Ok cells -> Forall (valid ls) cells.
Proof.
  unfold resolve, of_opt. destruct (all_some (map (cell ls) cs)) as [r|] eqn:E; [|discriminate].
  intros H. injection H as <-. eapply all_some_forall; [|exact E]. intros a b. apply cell_valid.
Qed.

(* ------------------------------------------------------------------ route B refines cell writes *)
Lemma write_cells_refines ls : forall cells vals d,
  Forall (valid ls) cells ->
  partition (write_at d (map (flat_of ls) cells) vals) ls = write_cells (partition d ls) cells vals.
Proof.
  unfold write_at, write_cells.
  induction cells as [|rc cells IH]; intros vals d Hv; [reflexivity|].
  destruct vals as [|v vals]; [reflexivity|].
  cbn [map combine fold_left fst snd]. inversion Hv as [|? ? Hrc Hrest]; subst.
  rewrite IH by exact Hrest. f_equal.
  unfold upd2, flat_of. apply partition_upd. exact Hrc.
Qed.

Lemma aug_vals_refine ls d o k : forall cells,
  Forall (valid ls) cells ->
  map (fun i => bin o (nth i d 0%Z) k) (map (flat_of ls) cells) =
  map (fun rc => bin o (get2 (partition d ls) rc) k) cells.
Proof.
  induction cells as [|rc cells IH]; intros Hv; [reflexivity|].
  inversion Hv as [|? ? Hrc Hrest]; subst. cbn [map]. rewrite IH by exact Hrest. f_equal.
  unfold get2, flat_of. rewrite (nth_partition ls d (fst rc) (snd rc) 0%Z Hrc). reflexivity.
Qed.

Lemma assign_cells_refines s cs v : Coh s ->
  assign_cells_s (rows s) cs v = res_map rows (assign_cells s cs v).
Proof.
  intros H. unfold assign_cells_s, assign_cells. rewrite <- (coh_lens s H).
  destruct (resolve (lens s) cs) as [cells|e] eqn:Er; cbn [bind res_map]; [|reflexivity].
  destruct (bval_1d v) as [v1|e]; cbn [bind res_map]; [|reflexivity].
  destruct (bcast (length cells) v1) as [vals|]; cbn [res_map rows]; [|reflexivity].
  f_equal. destruct H as [Hr _]. rewrite Hr. symmetry. apply write_cells_refines.
  eapply resolve_valid. exact Er.
Qed.

Lemma aug_cells_refines s cs o k : Coh s ->
  aug_cells_s (rows s) cs o k = res_map rows (aug_cells s cs o k).
Proof.
  intros H. unfold aug_cells_s, aug_cells. rewrite <- (coh_lens s H).
  destruct (resolve (lens s) cs) as [cells|e] eqn:Er; cbn [bind res_map rows]; [|reflexivity].
  pose proof (resolve_valid _ _ _ Er) as Hv.
  f_equal. destruct H as [Hr _]. rewrite Hr.
  rewrite <- (aug_vals_refine (lens s) (data s) o k cells Hv).
  symmetry. apply write_cells_refines. exact Hv.
Qed.

(* ------------------------------------------------------------------ every writer keeps the invariant *)
Lemma res_map_of_rows_coh (x : res (list (list Z))) s' : res_map of_rows x = Ok s' -> Coh s'.
Proof. destruct x as [r|e]; cbn [res_map]; [|discriminate]. intros H. injection H as <-. apply coh_of_rows. Qed.

Lemma assign_cells_coh s cs v s' : Coh s -> assign_cells s cs v = Ok s' -> Coh s'.
Proof.
  intros [_ Hs]. unfold assign_cells.
  destruct (resolve (lens s) cs) as [cells|e]; cbn [bind]; [|discriminate].
  destruct (bval_1d v) as [v1|e]; cbn [bind]; [|discriminate].
  destruct (bcast (length cells) v1) as [vals|]; [|discriminate].
  intros H. injection H as <-. split; cbn [rows data lens]; [reflexivity|].
  rewrite length_write_at. exact Hs.
Qed.

Lemma aug_cells_coh s cs o k s' : Coh s -> aug_cells s cs o k = Ok s' -> Coh s'.
Proof.
  intros [_ Hs]. unfold aug_cells.
  destruct (resolve (lens s) cs) as [cells|e]; cbn [bind]; [|discriminate].
  intros H. injection H as <-. split; cbn [rows data lens]; [reflexivity|].
  rewrite length_write_at. exact Hs.
Qed.

Lemma step_coh s o s' : Coh s -> step s o = Ok s' -> Coh s'.
Proof.
  intros H. destruct o; cbn [step]; try (apply res_map_of_rows_coh).
  - destruct (cells_of (lens s) rs cs) as [c|e]; cbn [bind]; [|discriminate]. apply assign_cells_coh. exact H.
  - unfold mask_cells. cbn [bind]. apply assign_cells_coh. exact H.
  - destruct (cells_of (lens s) rs cs) as [c|e]; cbn [bind]; [|discriminate]. apply aug_cells_coh. exact H.
  - unfold mask_cells. cbn [bind]. apply aug_cells_coh. exact H.
  - destruct vs as [|v vs]; [discriminate|]. intros E. injection E as <-.
    split; cbn [rows data lens]; [reflexivity|].
    destruct H as [_ Hs]. rewrite app_length, sum_app. change (length v :: map (@length Z) vs) with (map (@length Z) (v :: vs)). change (v ++ concat vs) with (concat (v :: vs)). rewrite sum_map_length, Hs. reflexivity.
  - discriminate.
Qed.

Lemma apply_coh s o : Coh s -> Coh (apply s o).
Proof. intros H. unfold apply. destruct (step s o) as [s'|e] eqn:E; [eapply step_coh; eassumption|exact H]. Qed.

Lemma run_coh ops : forall s, Coh s -> Coh (run s ops).
Proof.
  unfold run. induction ops as [|o ops IH]; intros s H; cbn [fold_left]; [exact H|].
  apply IH. apply apply_coh. exact H.
Qed.

(* ------------------------------------------------------------------ every writer refines the list-of-rows step *)
Lemma res_map_rows_of_rows (x : res (list (list Z))) : res_map rows (res_map of_rows x) = x.
Proof. destruct x as [r|e]; cbn [res_map]; [|reflexivity]. rewrite of_rows_rows. reflexivity. Qed.

Lemma step_refines s o : Coh s -> step_s (rows s) o = res_map rows (step s o).
Proof.
  intros H. destruct o; cbn [step step_s]; try (rewrite res_map_rows_of_rows; reflexivity).
  - rewrite <- (coh_lens s H). destruct (cells_of (lens s) rs cs) as [c|e]; cbn [bind res_map]; [|reflexivity].
    apply assign_cells_refines. exact H.
  - unfold mask_cells. cbn [bind]. apply assign_cells_refines. exact H.
  - rewrite <- (coh_lens s H). destruct (cells_of (lens s) rs cs) as [c|e]; cbn [bind res_map]; [|reflexivity].
    apply aug_cells_refines. exact H.
  - unfold mask_cells. cbn [bind]. apply aug_cells_refines. exact H.
  - destruct vs as [|v vs]; [reflexivity|]. cbn [res_map rows]. f_equal.
    destruct H as [Hr Hs]. rewrite Hr.
    rewrite partition_app by exact Hs. f_equal. symmetry. apply partition_concat.
  - reflexivity.
Qed.

Lemma apply_refines s o : Coh s -> rows (apply s o) = apply_s (rows s) o.
Proof.
  intros H. unfold apply, apply_s. rewrite (step_refines s o H).
  destruct (step s o) as [s'|e]; reflexivity.
Qed.

(* the outcome (accepted / which error) is the same on both sides *)
Lemma step_outcome s o : Coh s ->
  match step s o, step_s (rows s) o with
  | Ok _, Ok _ => True
  | Err e, Err e' => e = e'
  | _, _ => False
  end.
Proof. intros H. rewrite (step_refines s o H). destruct (step s o); cbn [res_map]; auto. Qed.

Lemma run_refines ops : forall s, Coh s -> rows (run s ops) = run_s (rows s) ops.
Proof.
  unfold run, run_s. induction ops as [|o ops IH]; intros s H; cbn [fold_left]; [reflexivity|].
  rewrite IH by (apply apply_coh; exact H). rewrite apply_refines by exact H. reflexivity.
Qed.

(* the whole object after any history is the constructor applied to the list-of-rows result *)
Lemma run_canonical ops s : Coh s -> run s ops = of_rows (run_s (rows s) ops).
Proof.
  intros H. rewrite <- (run_refines ops s H). symmetry. apply coh_canonical. apply run_coh. exact H.
Qed.

Lemma run_views ops s : Coh s ->
  let rs := run_s (rows s) ops in
  rows (run s ops) = rs /\ data (run s ops) = concat rs /\ lens (run s ops) = map (@length Z) rs /\
  starts (lens (run s ops)) = starts (map (@length Z) rs).
Proof.
  intros H rs. pose proof (run_coh ops s H) as Hc. pose proof (run_refines ops s H) as Hr.
  fold rs in Hr. repeat split.
  - exact Hr.
  - rewrite (coh_data _ Hc), Hr. reflexivity.
  - rewrite (coh_lens _ Hc), Hr. reflexivity.
  - rewrite (coh_lens _ Hc), Hr. reflexivity.
Qed.

Lemma observe_after_run ops s q : Coh s ->
  observe (run s ops) q = observe (of_rows (run_s (rows s) ops)) q.
Proof. intros H. rewrite (run_canonical ops s H). reflexivity. Qed.

Lemma trace_length s : forall its, length (trace s its) = length its.
Proof.
  intros its. revert s. induction its as [|i its IH]; intros s; [reflexivity|].
  destruct i as [o|q]; cbn [trace].
  - destruct (step s o); cbn [length]; rewrite IH; reflexivity.
  - cbn [length]. rewrite IH. reflexivity.
Qed.

(* a rejected write leaves all three slots as they were *)
Lemma apply_rejected s o e : step s o = Err e -> apply s o = s.
Proof. intros H. unfold apply. rewrite H. reflexivity. Qed.

(* ------------------------------------------------------------------ reads *)
Lemma get_elem_refines s rc : Coh s ->
  get_elem s rc = match cell (map (@length Z) (rows s)) rc with
                  | None => Err EIndex
                  | Some c => Ok (get2 (rows s) c)
                  end.
Proof.
  intros H. unfold get_elem. rewrite <- (coh_lens s H).
  destruct (cell (lens s) rc) as [c|] eqn:E; [|reflexivity].
  f_equal. unfold get2, flat_of. destruct H as [Hr _]. rewrite Hr.
  apply nth_partition. exact (cell_valid _ _ _ E).
Qed.

(* ------------------------------------------------------------------ operators *)
Lemma map_op_structure {A B} (f : A -> B) (s : st A) : Coh s ->
  Coh (map_op f s) /\ lens (map_op f s) = lens s /\ data (map_op f s) = map f (data s) /\
  rows (map_op f s) = map (map f) (rows s).
Proof.
  intros [Hr Hs]. unfold map_op. cbn [rows data lens].
  split; [|split; [reflexivity|split; [reflexivity|]]].
  - split; cbn [rows data lens]; [reflexivity|]. rewrite map_length. exact Hs.
  - rewrite partition_map, Hr. reflexivity.
Qed.

Lemma zip_op_structure {A B C} (f : A -> B -> C) (s : st A) (t : st B) u : Coh s ->
  zip_op f s t = Ok u ->
  Coh u /\ lens u = lens s /\
  data u = map (fun p => f (fst p) (snd p)) (combine (data s) (data t)) /\
  length (data u) = length (data s).
Proof.
  intros [Hr Hs]. unfold zip_op. destruct (Nat.eqb (length (data s)) (length (data t))) eqn:E; [|discriminate].
  intros H. injection H as <-. apply Nat.eqb_eq in E. cbn [rows data lens].
  assert (L : length (map (fun p => f (fst p) (snd p)) (combine (data s) (data t))) = length (data s))
    by (rewrite map_length, combine_length; lia).
  split; [|split; [reflexivity|split; [reflexivity|exact L]]].
  split; cbn [rows data lens]; [reflexivity|]. rewrite L. exact Hs.
Qed.

(* cell writes never change the row structure; cells that are not written keep their value *)
Lemma routeB_lens s cs v s' : assign_cells s cs v = Ok s' -> lens s' = lens s.
Proof.
  unfold assign_cells. destruct (resolve (lens s) cs) as [cells|e]; cbn [bind]; [|discriminate].
  destruct (bval_1d v) as [v1|e]; cbn [bind]; [|discriminate].
  destruct (bcast (length cells) v1) as [vals|]; [|discriminate].
  intros H. injection H as <-. reflexivity.
Qed.

Lemma write_at_other {A} (iis : list nat) : forall (vals : list A) d j x0,
  ~ In j iis -> nth j (write_at d iis vals) x0 = nth j d x0.
Proof.
  unfold write_at. induction iis as [|i iis IH]; intros [|v vals] d j x0 Hn; cbn [combine fold_left]; try reflexivity.
  rewrite IH by (intros Hin; apply Hn; right; exact Hin). cbn [fst snd].
  apply nth_upd_other. intros ->. apply Hn. left. reflexivity.
Qed.

Lemma routeB_untouched s cs v s' cells j :
  assign_cells s cs v = Ok s' -> resolve (lens s) cs = Ok cells ->
  ~ In j (map (flat_of (lens s)) cells) -> nth j (data s') 0%Z = nth j (data s) 0%Z.
Proof.
  unfold assign_cells. intros H Hc. rewrite Hc in H. cbn [bind] in H.
  destruct (bval_1d v) as [v1|e]; cbn [bind] in H; [|discriminate].
  destruct (bcast (length cells) v1) as [vals|]; [|discriminate].
  injection H as <-. cbn [data]. intros Hn. apply write_at_other. exact Hn.
Qed.

(* ------------------------------------------------------------------ what a cell write means on the list of rows *)
Lemma upd_self {A} (l : list A) : forall i d, upd l i (nth i l d) = l.
Proof. induction l as [|x l IH]; intros [|i] d; cbn [upd nth]; try reflexivity. rewrite IH. reflexivity. Qed.

Lemma map_upd {A B} (f : A -> B) (l : list A) : forall i x, map f (upd l i x) = upd (map f l) i (f x).
Proof. induction l as [|y l IH]; intros [|i] x; cbn [upd map]; try reflexivity. rewrite IH. reflexivity. Qed.

Lemma upd2_lengths rs rc v : map (@length Z) (upd2 rs rc v) = map (@length Z) rs.
Proof.
  unfold upd2. rewrite map_upd, length_upd.
  replace (length (nth (fst rc) rs [])) with (nth (fst rc) (map (@length Z) rs) 0).
  - apply upd_self.
  - change 0 with (length (@nil Z)). apply map_nth.
Qed.

Lemma write_cells_lengths cells : forall vals rs,
  map (@length Z) (write_cells rs cells vals) = map (@length Z) rs.
Proof.
  unfold write_cells. induction cells as [|rc cells IH]; intros [|v vals] rs; cbn [combine fold_left]; try reflexivity.
  rewrite IH. cbn [fst snd]. apply upd2_lengths.
Qed.

Lemma upd2_get_same rs rc v : fst rc < length rs -> snd rc < length (nth (fst rc) rs []) ->
  get2 (upd2 rs rc v) rc = v.
Proof.
  intros Hr Hc. unfold get2, upd2. rewrite nth_upd_same by exact Hr. apply nth_upd_same. exact Hc.
Qed.

Lemma upd2_get_other rs rc rc' v : rc <> rc' -> get2 (upd2 rs rc v) rc' = get2 rs rc'.
Proof.
  intros Hne. unfold get2, upd2. destruct rc as [r c], rc' as [r' c']. cbn [fst snd].
  destruct (Nat.eq_dec r r') as [->|Hr].
  - destruct (Nat.lt_ge_cases r' (length rs)) as [Hlt|Hge].
    + rewrite nth_upd_same by exact Hlt. apply nth_upd_other. intros ->. apply Hne. reflexivity.
    + rewrite upd_ge by exact Hge. reflexivity.
  - rewrite nth_upd_other by exact Hr. reflexivity.
Qed.

Lemma write_cells_get_other cells : forall vals rs rc',
  ~ In rc' cells -> get2 (write_cells rs cells vals) rc' = get2 rs rc'.
Proof.
  unfold write_cells. induction cells as [|rc cells IH]; intros [|v vals] rs rc' Hn; cbn [combine fold_left]; try reflexivity.
  rewrite IH by (intros Hin; apply Hn; right; exact Hin). cbn [fst snd].
  apply upd2_get_other. intros ->. apply Hn. left. reflexivity.
Qed.

(* the k-th value lands in the k-th selected cell unless a later selected cell is the same one (last write wins) *)
Lemma write_cells_get_written cells : forall vals rs k rc v,
  nth_error cells k = Some rc -> nth_error vals k = Some v ->
  ~ In rc (skipn (S k) cells) ->
  (forall rc0, In rc0 cells -> fst rc0 < length rs /\ snd rc0 < nth (fst rc0) (map (@length Z) rs) 0) ->
  get2 (write_cells rs cells vals) rc = v.
Proof.
  induction cells as [|rc0 cells IH]; intros vals rs k rc v Hc Hv Hn Hval.
  - destruct k; discriminate.
  - destruct vals as [|v0 vals]; [destruct k; discriminate|].
    unfold write_cells. cbn [combine fold_left fst snd].
    destruct k as [|k]; cbn [nth_error skipn] in *.
    + injection Hc as ->. injection Hv as ->.
      fold (write_cells (upd2 rs rc v) cells vals).
      rewrite write_cells_get_other by exact Hn.
      destruct (Hval rc (or_introl eq_refl)) as [H1 H2].
      apply upd2_get_same; [exact H1|].
      change 0 with (length (@nil Z)) in H2. rewrite map_nth in H2. exact H2.
    + fold (write_cells (upd2 rs rc0 v0) cells vals).
      apply (IH vals (upd2 rs rc0 v0) k rc v Hc Hv Hn).
      intros rc1 Hin. rewrite upd2_lengths.
      destruct (Hval rc1 (or_intror Hin)) as [H1 H2]. split; [|exact H2].
      unfold upd2. rewrite length_upd. exact H1.
Qed.
