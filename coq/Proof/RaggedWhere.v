(* C05 -- ra.where / _convert_from_1d inverts the starts arithmetic: where_c = where_s for masks whose rows
   are all non-empty. *)
From Coq Require Import List ZArith Bool Lia.
From EV Require Import PySlice Ragged RaggedProofs.
Import ListNotations.
Local Open Scope nat_scope.

Lemma tp_shift k l : true_positions_from k l = map (fun j => (k + j)%nat) (true_positions_from 0 l).
Proof.
  revert k. induction l as [|b l IH]; intros k; cbn [true_positions_from map]; [reflexivity|].
  rewrite (IH (S k)), (IH 1%nat). destruct b; cbn [map]; rewrite map_map.
  - f_equal; [lia|]. apply map_ext. intros j. lia.
  - apply map_ext. intros j. lia.
Qed.

Lemma tp_app k a b :
  true_positions_from k (a ++ b) = true_positions_from k a ++ true_positions_from (k + length a) b.
Proof.
  revert k. induction a as [|x a IH]; intros k; cbn [app true_positions_from length].
  - rewrite Nat.add_0_r. reflexivity.
  - rewrite IH. replace (S k + length a)%nat with (k + S (length a))%nat by lia.
    destruct x; reflexivity.
Qed.

Lemma tp_bound l j : In j (true_positions_from 0 l) -> (j < length l)%nat.
Proof.
  induction l as [|b l IH] in j |- *; cbn [true_positions_from length]; [contradiction|].
  rewrite (tp_shift 1). intros H.
  assert (H' : j = 0%nat \/ In j (map (fun j => (1 + j)%nat) (true_positions_from 0 l))).
  { destruct b; [destruct H as [H|H]; [left; lia|right; exact H]|right; exact H]. }
  destruct H' as [H'|H']; [lia|]. apply in_map_iff in H'. destruct H' as [i [E Hi]]. apply IH in Hi. lia.
Qed.

Lemma last_le_all_greater j starts ii acc :
  (forall x, In x starts -> (ii < x)%nat) -> last_le_from j starts ii acc = acc.
Proof.
  revert j acc. induction starts as [|s0 starts IH]; intros j acc H; cbn [last_le_from]; [reflexivity|].
  rewrite IH by (intros x Hx; apply H; right; exact Hx).
  destruct (Nat.leb_spec s0 ii); [|reflexivity].
  specialize (H s0 (or_introl eq_refl)). lia.
Qed.

Lemma starts_from_ge s ls x : In x (starts_from s ls) -> (s <= x)%nat.
Proof.
  revert s. induction ls as [|l ls IH]; intros s H; cbn [starts_from] in H; [contradiction|].
  destruct H as [H|H]; [lia|]. apply IH in H. lia.
Qed.

(* position k of row i (rows of positive length): the last start <= it is start i *)
Lemma last_le_row b s ls i l k acc :
  (forall x, In x ls -> (0 < x)%nat) -> nth_error ls i = Some l -> (k < l)%nat ->
  last_le_from b (starts_from s ls) (s + nth i (starts_from 0 ls) 0 + k) acc = Some (b + i)%nat.
Proof.
  revert b s i acc. induction ls as [|l0 ls IH]; intros b s i acc Hpos Hi Hk.
  - destruct i; discriminate.
  - cbn [starts_from last_le_from]. destruct i as [|i]; cbn [nth_error nth] in *.
    + inversion Hi. subst l0. rewrite last_le_all_greater.
      * destruct (Nat.leb_spec s (s + 0 + k)); [f_equal; lia|lia].
      * intros x Hx. apply starts_from_ge in Hx. lia.
    + rewrite (starts_from_shift (0 + l0)) by (apply nth_error_Some; congruence).
      replace (s + (0 + l0 + nth i (starts_from 0 ls) 0) + k)%nat
        with ((s + l0) + nth i (starts_from 0 ls) 0 + k)%nat by lia.
      rewrite (IH (S b) (s + l0)%nat i _) with (1 := fun x Hx => Hpos x (or_intror Hx)) (2 := Hi) (3 := Hk).
      f_equal. lia.
Qed.

Lemma conv1d_row ls i l k :
  (forall x, In x ls -> (0 < x)%nat) -> nth_error ls i = Some l -> (k < l)%nat ->
  conv1d (starts_of ls) (nth i (starts_of ls) 0 + k) = Some (i, k).
Proof.
  intros Hpos Hi Hk. unfold conv1d, starts_of.
  pose proof (last_le_row 0 0 ls i l k None Hpos Hi Hk) as H. cbn [Nat.add] in H. rewrite H.
  f_equal. f_equal. lia.
Qed.

Lemma where_aux (post pre : list (list bool)) :
  (forall row, In row (pre ++ post) -> row <> []) ->
  map_opt (conv1d (starts_of (map (@length bool) (pre ++ post))))
          (true_positions_from (length (concat pre)) (concat post)) =
  Some (where_rows_from (length pre) post).
Proof.
  revert pre. induction post as [|row post IH]; intros pre Hne; [reflexivity|].
  cbn [concat where_rows_from]. rewrite tp_app, map_opt_app.
  assert (Hi : nth_error (map (@length bool) (pre ++ row :: post)) (length pre) = Some (length row)).
  { rewrite map_app, nth_error_app2 by (rewrite map_length; lia). rewrite map_length, Nat.sub_diag. reflexivity. }
  assert (Hpos : forall x, In x (map (@length bool) (pre ++ row :: post)) -> (0 < x)%nat).
  { intros x Hx. apply in_map_iff in Hx. destruct Hx as [r [E Hr]]. apply Hne in Hr.
    destruct r; [contradiction|]. cbn in E. lia. }
  assert (Hst : nth (length pre) (starts_of (map (@length bool) (pre ++ row :: post))) 0%nat = length (concat pre)).
  { rewrite starts_prefix_sum by (rewrite map_length, app_length; cbn; lia).
    rewrite firstn_map, firstn_app, Nat.sub_diag, firstn_all. cbn [firstn]. rewrite app_nil_r.
    apply sum_lengths_concat. }
  assert (E1 : map_opt (conv1d (starts_of (map (@length bool) (pre ++ row :: post))))
                 (true_positions_from (length (concat pre)) row) =
               Some (map (fun j => (length pre, j)) (true_positions_from 0 row))).
  { rewrite (tp_shift (length (concat pre))), map_opt_map. rewrite <- map_opt_total.
    apply map_opt_ext. intros j Hj. apply tp_bound in Hj. rewrite <- Hst.
    apply (conv1d_row _ _ _ _ Hpos Hi Hj). }
  rewrite E1.
  specialize (IH (pre ++ [row])). rewrite <- app_assoc in IH. cbn [app] in IH.
  rewrite concat_app, app_length in IH. cbn [concat] in IH. rewrite app_nil_r in IH.
  rewrite IH by exact Hne. rewrite app_length. cbn [length]. rewrite Nat.add_1_r. reflexivity.
Qed.

(* ra.where on a boolean ragged array with non-empty rows lists the True positions row-major *)
Lemma where_c_spec (m : list (list bool)) :
  (forall row, In row m -> row <> []) -> where_c m = Some (where_s m).
Proof.
  intros H. unfold where_c, where_s. cbn [ctor_nested lens data]. apply (where_aux m []). exact H.
Qed.

Lemma get_mask_refines {A} (s : conc A) m :
  wf s -> (forall row, In row m -> row <> []) -> get_c s (Mask m) = get_s (abs s) (Mask m).
Proof. intros Hwf H. apply get_mask_refines_partial; [exact Hwf|apply where_c_spec; exact H]. Qed.

(* with the array's own row structure the result is: the kept entries of every row, in order *)
Lemma keep_spec {A} (rows : list (list A)) (m : list (list bool)) i0 :
  map (@length A) rows = map (@length bool) m ->
  forall pre, length pre = i0 ->
  map_opt (fun p => elem_s (pre ++ rows) (Z.of_nat (fst p)) (Z.of_nat (snd p))) (where_rows_from i0 m) =
  Some (mask_rows rows m).
Proof.
  revert m i0. induction rows as [|row rows IH]; intros m i0 HL pre Hpre.
  - destruct m; [reflexivity|discriminate].
  - destruct m as [|mrow m]; [discriminate|]. cbn [map] in HL. inversion HL as [[HL1 HL2]].
    cbn [where_rows_from mask_rows]. rewrite map_opt_app, map_opt_map. cbn [fst snd].
    assert (Erow : get_item (pre ++ row :: rows) (Z.of_nat i0) = Some row).
    { rewrite get_item_in_range by (rewrite app_length; cbn [length]; lia).
      rewrite Nat2Z.id, nth_error_app2 by lia. rewrite Hpre, Nat.sub_diag. reflexivity. }
    assert (E1 : map_opt (fun x => elem_s (pre ++ row :: rows) (Z.of_nat i0) (Z.of_nat x))
                   (true_positions_from 0 mrow) = Some (keep row mrow)).
    { unfold elem_s. rewrite Erow. clear -HL1. revert mrow HL1.
      assert (G : forall (row0 : list A) mrow k pre0, length row0 = length mrow -> length pre0 = k ->
                 map_opt (fun x => get_item (pre0 ++ row0) (Z.of_nat x)) (true_positions_from k mrow) =
                 Some (keep row0 mrow)).
      { induction row0 as [|x row0 IHr]; intros mrow k pre0 HLr Hk.
        - destruct mrow; [reflexivity|discriminate].
        - destruct mrow as [|b mrow]; [discriminate|]. cbn [length] in HLr.
          cbn [true_positions_from keep].
          specialize (IHr mrow (S k) (pre0 ++ [x])). rewrite <- app_assoc in IHr. cbn [app] in IHr.
          assert (IHr' := IHr ltac:(lia) ltac:(rewrite app_length; cbn [length]; lia)).
          destruct b; cbn [map_opt]; rewrite IHr'; [|reflexivity].
          rewrite get_item_in_range by (rewrite app_length; cbn [length]; lia).
          rewrite Nat2Z.id, nth_error_app2 by lia. rewrite Hk, Nat.sub_diag. reflexivity. }
      intros mrow HL1. apply (G row mrow 0%nat []); [exact HL1|reflexivity]. }
    rewrite E1.
    specialize (IH m (S i0) HL2 (pre ++ [row])). rewrite <- app_assoc in IH. cbn [app] in IH.
    rewrite IH by (rewrite app_length; cbn [length]; lia). reflexivity.
Qed.

Lemma get_mask_same_structure {A} (s : conc A) m :
  wf s -> (forall row, In row m -> row <> []) -> map (@length A) (abs s) = map (@length bool) m ->
  get_c s (Mask m) = Flat (mask_rows (abs s) m).
Proof.
  intros Hwf Hne HL. rewrite (get_mask_refines _ _ Hwf Hne). cbn [get_s]. unfold where_s.
  pose proof (keep_spec (abs s) m 0 HL [] eq_refl) as K. cbn [app] in K. rewrite K. reflexivity.
Qed.
