(* C17 proofs, part 5: the model's fuel is sufficient -- top_path never runs out of fuel (each pop
   either visits a new state or is a duplicate that improves nothing), and neither does paths (every
   removal zeroes a positive entry and creates none). *)
From Coq Require Import List Arith QArith Qreduction Bool Lia Lqa.
From EV Require Import Paths PathsProofs PathsSearch PathsTop PathsLoop.
Import ListNotations.
Close Scope Q_scope.

Lemma filter_len_le : forall {A} (p : A -> bool) l, length (filter p l) <= length l.
Proof.
  intros A p l. induction l as [|x r IH]; simpl; [lia|]. destruct (p x); simpl; lia.
Qed.

Lemma remove_nth_length : forall {A} i (l : list A), i < length l -> length (remove_nth i l) + 1 = length l.
Proof.
  intros A i l. revert i. induction l as [|x r IH]; intros [|i] H; simpl in *; try lia.
  specialize (IH i). lia.
Qed.

Definition unvis (n : nat) (g : nat -> bool) : nat := length (filter (fun x => negb (g x)) (seq 0 n)).
Definition phi (n : nat) (s : st) : nat := length (queue s) + n * unvis n (vis s).

Lemma cnt_upd_notin : forall (g : nat -> bool) u l, ~ In u l ->
  filter (fun x => negb (upd g u true x)) l = filter (fun x => negb (g x)) l.
Proof.
  intros g u l H. apply filter_ext_in. intros x Hx. unfold upd.
  destruct (Nat.eqb x u) eqn:E; [|reflexivity]. apply Nat.eqb_eq in E. subst. contradiction.
Qed.

Lemma cnt_upd_in : forall (g : nat -> bool) u l, NoDup l -> In u l -> g u = false ->
  length (filter (fun x => negb (upd g u true x)) l) + 1 = length (filter (fun x => negb (g x)) l).
Proof.
  intros g u l Hnd. induction Hnd as [|a r Ha Hnd IH]; intros Hin Hg; [contradiction|].
  simpl. destruct (Nat.eq_dec a u) as [E|E].
  - subst a. unfold upd at 1. rewrite Nat.eqb_refl. rewrite Hg. simpl.
    rewrite (cnt_upd_notin g u r Ha). lia.
  - destruct Hin as [Hin|Hin]; [congruence|].
    assert (Eu : upd g u true a = g a).
    { unfold upd. destruct (Nat.eqb a u) eqn:E'; [apply Nat.eqb_eq in E'; congruence|reflexivity]. }
    rewrite Eu. specialize (IH Hin Hg). destruct (negb (g a)); simpl; lia.
Qed.

Lemma unvis_upd_new : forall n g u, u < n -> g u = false -> unvis n (upd g u true) + 1 = unvis n g.
Proof.
  intros n g u Hu Hg. unfold unvis. apply cnt_upd_in; [apply seq_NoDup| |exact Hg].
  apply in_seq. lia.
Qed.

Lemma unvis_upd_old : forall n g u, g u = true -> unvis n (upd g u true) = unvis n g.
Proof.
  intros n g u Hg. unfold unvis. f_equal. apply filter_ext. intro x. unfold upd.
  destruct (Nat.eqb x u) eqn:E; [|reflexivity]. apply Nat.eqb_eq in E. subst. rewrite Hg. reflexivity.
Qed.

Lemma unvis_le : forall n g, unvis n g <= n.
Proof. intros. unfold unvis. etransitivity; [apply filter_len_le|]. rewrite seq_length. lia. Qed.

Lemma backtrack_none : forall fuel pr v acc, pr v = None -> backtrack fuel pr v acc = Some (v :: acc).
Proof. intros fuel pr v acc H. destruct fuel; simpl; rewrite H; reflexivity. Qed.

Section Total.
Variable n : nat.
Variable f : fmat.
Variable srcs sinks : list nat.
Hypothesis srcs_lt : forall s, In s srcs -> s < n.

Lemma improved_len : forall s visf u, length (improved n f s visf u) <= n.
Proof.
  intros. unfold improved, neighbors.
  etransitivity; [apply filter_len_le|]. etransitivity; [apply filter_len_le|]. rewrite seq_length. lia.
Qed.

Lemma improved_nil_if_visited : forall s u, inv n f srcs s -> vis s u = true ->
  improved n f s (upd (vis s) u true) u = [].
Proof.
  intros s u I Hu. destruct (improved n f s (upd (vis s) u true) u) as [|x r] eqn:E; [reflexivity|].
  exfalso. assert (Hx : In x (improved n f s (upd (vis s) u true) u)) by (rewrite E; left; reflexivity).
  apply improved_In in Hx. destruct Hx as [H1 [H2 [H3 H4]]].
  apply upd_false_iff in H3. destruct H3 as [_ H3].
  pose proof (i_relax n f srcs s I u x Hu H3 H1 H2) as Hr. rewrite <- cand_emin in Hr.
  unfold ele in Hr. unfold elt in H4. congruence.
Qed.

Lemma step_phi : forall s s', inv n f srcs s -> queue s <> [] ->
  step n f sinks s = Continue s' -> phi n s' < phi n s /\ inv n f srcs s'.
Proof.
  intros s s' I Hq H. unfold step in H.
  destruct (forallb _ sinks) eqn:Ef; [discriminate|]. inversion H; subst s'. clear H.
  split; [|apply step_continue_inv; assumption].
  set (i := argmax (map (mf s) (queue s))) in *.
  set (u := nth i (queue s) 0) in *.
  assert (Hm : map (mf s) (queue s) <> []) by (destruct (queue s); simpl; congruence).
  destruct (argmax_spec _ Hm) as [Hi _]. rewrite map_length in Hi. fold i in Hi.
  assert (Hu : In u (queue s)) by (apply nth_In; exact Hi).
  assert (Hun : u < n) by (apply (i_q_lt n f srcs s I); exact Hu).
  pose proof (remove_nth_length i (queue s) Hi) as Hlen.
  unfold phi. cbn [queue vis]. rewrite app_length.
  destruct (vis s u) eqn:Ev.
  - rewrite (improved_nil_if_visited s u I Ev). rewrite (unvis_upd_old n (vis s) u Ev). simpl. lia.
  - pose proof (unvis_upd_new n (vis s) u Hun Ev) as Hc.
    pose proof (improved_len s (upd (vis s) u true) u) as Hl.
    rewrite <- Hc. nia.
Qed.

Lemma search_total : forall fuel s, inv n f srcs s -> phi n s < fuel -> search fuel n f sinks s <> None.
Proof.
  induction fuel as [|k IH]; intros s I Hphi; [lia|].
  cbn [search]. destruct (queue s) eqn:Eq; [discriminate|].
  assert (Hq : queue s <> []) by (rewrite Eq; discriminate).
  destruct (step n f sinks s) as [s'|s'] eqn:Es; [discriminate|].
  destruct (step_phi s s' I Hq Es) as [Hlt I']. apply IH; [exact I'|lia].
Qed.

Lemma phi_init : phi n (init srcs) <= length srcs + n * n.
Proof.
  unfold phi. simpl. pose proof (unvis_le n (fun _ => false)). nia.
Qed.

Lemma top_path_total_aux : sinks <> [] -> (forall x, In x sinks -> x < n) ->
  exists p fl, top_path n f srcs sinks = Ok (p, fl).
Proof.
  intros Hne Hsk. unfold top_path.
  assert (E1 : in_range n srcs = true) by (apply in_range_spec; exact srcs_lt).
  assert (E2 : in_range n sinks = true) by (apply in_range_spec; exact Hsk).
  rewrite E1, E2. simpl. destruct sinks as [|t0 ts] eqn:Es; [congruence|]. rewrite <- Es in *.
  pose proof (inv_init n f srcs srcs_lt) as I0.
  destruct (search (search_fuel n srcs) n f sinks (init srcs)) as [s|] eqn:Esr.
  - pose proof (search_post n f srcs sinks _ _ _ I0 Esr) as P.
    set (t := nth (argmax (map (mf s) sinks)) sinks 0).
    destruct (mf s t) eqn:Em.
    + rewrite (backtrack_none n (prev s) t []); [eexists; eexists; reflexivity|].
      apply (p_prev n f srcs sinks s P). exact Em.
    + assert (Hm : mf s t <> NInf) by (rewrite Em; discriminate).
      destruct (p_chain n f srcs sinks s P t Hm) as [rp Hc].
      destruct (chain_props n f srcs s t rp Hc) as [C1 [C2 _]].
      rewrite (backtrack_chain n f srcs s t rp Hc n []); [eexists; eexists; reflexivity|].
      pose proof (nodup_lt_length n rp C1 C2). lia.
    + assert (Hm : mf s t <> NInf) by (rewrite Em; discriminate).
      destruct (p_chain n f srcs sinks s P t Hm) as [rp Hc].
      destruct (chain_props n f srcs s t rp Hc) as [C1 [C2 _]].
      rewrite (backtrack_chain n f srcs s t rp Hc n []); [eexists; eexists; reflexivity|].
      pose proof (nodup_lt_length n rp C1 C2). lia.
  - exfalso. revert Esr. apply search_total; [exact I0|].
    pose proof phi_init. unfold search_fuel. lia.
Qed.

End Total.

(* ------------------------------------------------------------------ paths never runs out of fuel *)
Lemma filter_length_mono : forall {A} (p' p : A -> bool) l,
  (forall x, In x l -> p' x = true -> p x = true) -> length (filter p' l) <= length (filter p l).
Proof.
  intros A p' p l. induction l as [|x r IH]; intro H; simpl; [lia|].
  assert (IH' : length (filter p' r) <= length (filter p r)) by (apply IH; intros y Hy; apply H; right; exact Hy).
  destruct (p' x) eqn:E.
  - rewrite (H x (or_introl eq_refl) E). simpl. lia.
  - destruct (p x); simpl; lia.
Qed.

Lemma filter_length_lt : forall {A} (p' p : A -> bool) l x0,
  (forall x, In x l -> p' x = true -> p x = true) -> In x0 l -> p x0 = true -> p' x0 = false ->
  length (filter p' l) < length (filter p l).
Proof.
  intros A p' p l x0. induction l as [|x r IH]; intros H Hin Hp Hp'; [contradiction|]. simpl.
  assert (Hr : forall y, In y r -> p' y = true -> p y = true) by (intros y Hy; apply H; right; exact Hy).
  destruct Hin as [Hin|Hin].
  - subst x. rewrite Hp, Hp'. simpl. pose proof (filter_length_mono p' p r Hr). lia.
  - specialize (IH Hr Hin Hp Hp'). destruct (p' x) eqn:E.
    + rewrite (H x (or_introl eq_refl) E). simpl. lia.
    + destruct (p x); simpl; lia.
Qed.

Definition posn (n : nat) (f : fmat) : nat :=
  length (filter (fun ab => Qltb 0%Q (f (fst ab) (snd ab))) (list_prod (seq 0 n) (seq 0 n))).

Lemma posn_le : forall n f, posn n f <= n * n.
Proof.
  intros. unfold posn. etransitivity; [apply filter_len_le|]. rewrite prod_length, seq_length. lia.
Qed.

Lemma edges_in : forall p a b, In (a, b) (edges p) -> In a p /\ In b p.
Proof.
  induction p as [|x t IH]; intros a b H; simpl in H; [contradiction|].
  destruct t as [|y t']; [contradiction|]. destruct H as [H|H].
  - inversion H; subst. split; [left; reflexivity|right; left; reflexivity].
  - destruct (IH a b H) as [H1 H2]. split; right; assumption.
Qed.

(* a removal zeroes some edge of the path and makes no entry positive *)
Definition shrinking (remove : fmat -> list nat -> fmat) : Prop :=
  forall f p, pos_edges f p -> edges p <> [] ->
    (exists e, In e (edges p) /\ (remove f p (fst e) (snd e) <= 0)%Q) /\
    (forall a b, (0 < remove f p a b)%Q -> (0 < f a b)%Q).

Lemma set0_at : forall f e, set0 f e (fst e) (snd e) = 0%Q.
Proof.
  intros f e. unfold set0. assert (E : eqe e (fst e) (snd e) = true) by (apply eqe_true; destruct e; reflexivity).
  rewrite E. reflexivity.
Qed.

Lemma set0_pos : forall f e a b, (0 < set0 f e a b)%Q -> (0 < f a b)%Q.
Proof.
  intros f e a b. unfold set0. destruct (eqe e a b); [intro H; exfalso; revert H; apply Qlt_irrefl|tauto].
Qed.

Lemma bottleneck_shrinking : shrinking remove_bottleneck.
Proof.
  intros f p Hpos Hne. split.
  - destruct (argmin_edge f (edges p) Hne) as [Hin _].
    exists (nth (argminQ (evals f (edges p))) (edges p) (0, 0)). split; [exact Hin|].
    unfold remove_bottleneck. rewrite set0_at. apply Qle_refl.
  - intros a b. unfold remove_bottleneck. apply set0_pos.
Qed.

Lemma subtract_shrinking : shrinking subtract_path.
Proof.
  intros f p Hpos Hne. split.
  - destruct (argmin_edge (sub1 f p) (edges p) Hne) as [Hin _].
    exists (nth (argminQ (evals (sub1 f p) (edges p))) (edges p) (0, 0)). split; [exact Hin|].
    rewrite subtract_path_eq. rewrite set0_at. apply Qle_refl.
  - intros a b H. rewrite subtract_path_eq in H. apply set0_pos in H.
    eapply Qlt_le_trans; [exact H|]. apply sub1_fle. exact Hpos.
Qed.

Lemma posn_shrinks : forall remove n f srcs sinks p q, shrinking remove ->
  top_path n f srcs sinks = Ok (p, Fin q) -> posn n (remove f p) < posn n f.
Proof.
  intros remove n f srcs sinks p q Hsh Ht.
  destruct (top_path_edges _ _ _ _ _ _ Ht) as [Hpos Hne].
  destruct (top_path_valid_lemma _ _ _ _ _ _ Ht) as [[_ [Hlt _]] _].
  destruct (Hsh f p Hpos Hne) as [[e [Hin He]] Hmono].
  unfold posn. apply filter_length_lt with (x0 := e).
  - intros ab _ H. apply Qltb_true. apply Hmono. apply Qltb_true. exact H.
  - destruct e as [a b]. destruct (edges_in p a b Hin) as [Ha Hb].
    rewrite Forall_forall in Hlt. apply in_prod; apply in_seq; [specialize (Hlt a Ha)|specialize (Hlt b Hb)]; lia.
  - apply Qltb_true. unfold pos_edges in Hpos. rewrite Forall_forall in Hpos. apply (Hpos e Hin).
  - apply Qltb_false. exact He.
Qed.

Lemma paths_loop_total : forall remove n srcs sinks total npaths cutoff, shrinking remove ->
  (forall x, In x srcs -> x < n) -> (forall x, In x sinks -> x < n) -> sinks <> [] ->
  forall fuel f counter expl accp accf, posn n f < fuel ->
  exists ps qs, paths_loop fuel remove n srcs sinks f total npaths cutoff counter expl accp accf = Ok (ps, qs).
Proof.
  intros remove n srcs sinks total npaths cutoff Hsh Hs Hk Hne.
  induction fuel as [|k IH]; intros f counter expl accp accf Hfuel; [lia|].
  cbn [paths_loop].
  destruct (top_path_total_aux n f srcs sinks Hs Hne Hk) as [p [fl Et]]. rewrite Et.
  destruct fl as [|q|]; try (eexists; eexists; reflexivity).
  destruct (reached_count npaths (S counter) || Qle_bool cutoff (Qred (expl + q / total))).
  - eexists; eexists; reflexivity.
  - apply IH. pose proof (posn_shrinks remove n f srcs sinks p q Hsh Et). lia.
Qed.

Lemma top_path_total_lemma : forall n f srcs sinks,
  (forall x, In x (srcs ++ sinks) -> x < n) -> sinks <> [] ->
  exists p fl, top_path n f srcs sinks = Ok (p, fl).
Proof.
  intros n f srcs sinks Hall Hne. apply top_path_total_aux; [|exact Hne|].
  - intros x Hx. apply Hall. apply in_or_app. left. exact Hx.
  - intros x Hx. apply Hall. apply in_or_app. right. exact Hx.
Qed.

Lemma paths_total_lemma : forall remove, shrinking remove ->
  forall n f srcs sinks npaths cutoff,
  (forall x, In x (srcs ++ sinks) -> x < n) -> sinks <> [] ->
  exists ps qs, paths remove n f srcs sinks npaths cutoff = Ok (ps, qs).
Proof.
  intros remove Hsh n f srcs sinks npaths cutoff Hall Hne. unfold paths.
  apply paths_loop_total; try assumption.
  - intros x Hx. apply Hall. apply in_or_app. left. exact Hx.
  - intros x Hx. apply Hall. apply in_or_app. right. exact Hx.
  - pose proof (posn_le n f). lia.
Qed.
