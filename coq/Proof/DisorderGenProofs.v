(* C20: the definitions translated from enspara/cards/disorder.py:transitions (Gen/DisorderGen.v)
   equal the hand-written specification of Model/Rotamer.v, for every input. *)
From Coq Require Import List ZArith Lia Bool Arith Sorted.
From EV Require Import PySlice PySliceLemmas DisorderBase DisorderGen RotamerBase Rotamer RotamerProofs.
Import ListNotations.
Open Scope nat_scope.

(* ------------------------------------------------------------------ slices [1:] and [:-1] *)
Lemma map_nth_seq_firstn {A} (d : A) (l : list A) : forall c,
  c <= length l -> map (fun k => nth k l d) (seq 0 c) = firstn c l.
Proof.
  induction l as [|x l IH]; intros c Hc.
  - cbn in Hc. assert (c = 0) by lia. subst c. reflexivity.
  - destruct c as [|c]; [reflexivity|].
    cbn [seq map]. rewrite <- seq_shift, map_map. cbn [nth firstn]. f_equal.
    apply IH. cbn in Hc. lia.
Qed.

Lemma map_seq_nth {A} (d : A) (l : list A) : map (fun k => nth k l d) (seq 0 (length l)) = l.
Proof. rewrite map_nth_seq_firstn by lia. apply firstn_all. Qed.

(* equivalent spellings of the same slice *)
Lemma slice_step1 {A} (l : list A) lo hi : slice_list l lo hi (Some 1%Z) = slice_list l lo hi None.
Proof. reflexivity. Qed.

Lemma slice_start0 {A} (l : list A) hi : slice_list l (Some 0%Z) hi None = slice_list l None hi None.
Proof.
  unfold slice_list, slice_indices, adjust, step_of.
  replace (1 <? 0)%Z with false by reflexivity. replace (0 <? 0)%Z with false by reflexivity.
  rewrite Z.min_l by lia. reflexivity.
Qed.

Lemma slice_tail {A} (l : list A) : slice_list l (Some 1%Z) None None = tl l.
Proof.
  destruct l as [|x l]; [reflexivity|].
  rewrite (slice_list_pos (x :: l) x (Some 1%Z) None None 1%Z (Z.of_nat (length (x :: l)))).
  - cbn [step_of tl]. unfold range_len.
    replace (0 <? 1)%Z with true by reflexivity.
    replace (Z.to_nat ((Z.of_nat (length (x :: l)) - 1 + 1 - 1) / 1)) with (length l)
      by (rewrite Z.div_1_r; cbn [length]; lia).
    rewrite <- (map_seq_nth x l) at 2. apply map_ext. intros k.
    replace (Z.to_nat (1 + Z.of_nat k * 1)) with (S k) by lia. reflexivity.
  - cbn. lia.
  - unfold adjust, step_of. replace (1 <? 0)%Z with false by reflexivity.
    f_equal. cbn [length]. lia.
  - lia.
  - lia.
Qed.

Lemma slice_init {A} (l : list A) : slice_list l None (Some (-1)%Z) None = removelast l.
Proof.
  destruct l as [|x l]; [reflexivity|].
  rewrite (slice_list_pos (x :: l) x None (Some (-1)%Z) None 0%Z (Z.of_nat (length l))).
  - cbn [step_of]. unfold range_len.
    replace (0 <? 1)%Z with true by reflexivity.
    replace (Z.to_nat ((Z.of_nat (length l) - 0 + 1 - 1) / 1)) with (length l)
      by (rewrite Z.div_1_r; lia).
    rewrite removelast_firstn_len. cbn [length Nat.pred].
    rewrite <- (map_nth_seq_firstn x (x :: l) (length l)) by (cbn [length]; lia).
    apply map_ext. intros k.
    replace (Z.to_nat (0 + Z.of_nat k * 1)) with k by lia. reflexivity.
  - cbn. lia.
  - unfold adjust, step_of. replace (1 <? 0)%Z with false by reflexivity.
    replace (-1 <? 0)%Z with true by reflexivity. f_equal. cbn [length]. lia.
  - lia.
  - cbn [length]. lia.
Qed.

(* ------------------------------------------------------------------ first differences *)
(* d[n] = row[n+1] - row[n] *)
Fixpoint diffs (l : list Z) : list Z :=
  match l with
  | x :: ((y :: _) as r) => (y - x)%Z :: diffs r
  | _ => []
  end.

Lemma removelast_length {A} (l : list A) : length (removelast l) = pred (length l).
Proof. rewrite removelast_firstn_len, firstn_length. lia. Qed.

Lemma sub_tail_init (l : list Z) : sub_list (tl l) (removelast l) = Some (diffs l).
Proof.
  unfold sub_list.
  replace (length (tl l) =? length (removelast l)) with true
    by (symmetry; apply Nat.eqb_eq; rewrite removelast_length; destruct l; reflexivity).
  f_equal. induction l as [|x r IH]; [reflexivity|].
  destruct r as [|y r']; [reflexivity|].
  change (tl (x :: y :: r')) with (y :: r').
  change (removelast (x :: y :: r')) with (x :: removelast (y :: r')).
  change (tl (y :: r')) with r' in IH.
  cbn [combine map fst snd diffs]. f_equal. exact IH.
Qed.

(* ------------------------------------------------------------------ where on a 1-D mask *)
Definition where_at (n : nat) (m : list bool) : list nat := map fst (filter snd (enum_from n m)).

Lemma where_at_cons n b m :
  where_at n (b :: m) = if b then n :: where_at (S n) m else where_at (S n) m.
Proof. unfold where_at, enum_from. cbn [length seq combine filter snd]. destruct b; reflexivity. Qed.

Lemma where_at_diffs (test : Z -> bool) :
  (forall x y, test (y - x)%Z = negb (x =? y)%Z) ->
  forall l n, where_at n (map test (diffs l)) = trans_from n l.
Proof.
  intros Ht. induction l as [|x r IH]; intros n; [reflexivity|].
  destruct r as [|y r']; [reflexivity|].
  rewrite trans_from_cons2. change (diffs (x :: y :: r')) with ((y - x)%Z :: diffs (y :: r')).
  cbn [map]. rewrite where_at_cons, Ht, IH. destruct (x =? y)%Z; reflexivity.
Qed.

Lemma ne0_is_ne x y : negb (y - x =? 0)%Z = negb (x =? y)%Z.
Proof. f_equal. destruct (Z.eqb_spec (y - x) 0), (Z.eqb_spec x y); lia || reflexivity. Qed.

Lemma where1_diffs (l : list Z) :
  where1 (mask_of (fun x => negb (x =? 0)%Z) (diffs l)) = transitions l.
Proof.
  unfold transitions, mask_of. change where1 with (where_at 0).
  apply where_at_diffs. intros x y. apply ne0_is_ne.
Qed.

(* ------------------------------------------------------------------ the 1-D branch *)
Theorem gen_transitions1_eq (row : list Z) : gen_transitions1 row = Some (transitions row).
Proof.
  unfold gen_transitions1. rewrite ?slice_step1, ?slice_start0.
  rewrite slice_tail, slice_init, sub_tail_init. cbn [obind].
  rewrite where1_diffs. reflexivity.
Qed.

(* ------------------------------------------------------------------ row-wise differences *)
Lemma sub_rows_tail_init (rows : list (list Z)) :
  sub_rows (slice_rows rows (Some 1%Z) None None) (slice_rows rows None (Some (-1)%Z) None)
  = Some (map diffs rows).
Proof.
  unfold slice_rows. induction rows as [|r rows IH]; [reflexivity|].
  cbn [map sub_rows]. rewrite slice_tail, slice_init, sub_tail_init. cbn [obind].
  rewrite IH. reflexivity.
Qed.

(* ------------------------------------------------------------------ where on a 2-D mask *)
Definition pairs_at (n : nat) (m : list (list bool)) : list (nat * nat) :=
  flat_map (fun ir => map (fun j => (fst ir, j)) (where1 (snd ir))) (enum_from n m).

Lemma pairs_at_cons n r m :
  pairs_at n (r :: m) = map (fun j => (n, j)) (where1 r) ++ pairs_at (S n) m.
Proof. reflexivity. Qed.

Lemma where2_pairs m : where2 m = (map fst (pairs_at 0 m), map snd (pairs_at 0 m)).
Proof. reflexivity. Qed.

Lemma pairs_cols m : forall n, map snd (pairs_at n m) = concat (map where1 m).
Proof.
  induction m as [|r m IH]; intros n; [reflexivity|].
  rewrite pairs_at_cons, map_app, map_map, IH. cbn [snd map concat]. rewrite map_id. reflexivity.
Qed.

Lemma count_occ_const {A} (w : list A) n v :
  count_occ Nat.eq_dec (map (fun _ => n) w) v = if n =? v then length w else 0.
Proof.
  induction w as [|a w IH]; [destruct (n =? v); reflexivity|].
  cbn [map count_occ length]. rewrite IH.
  destruct (Nat.eq_dec n v) as [E|NE].
  - apply Nat.eqb_eq in E. rewrite E. reflexivity.
  - apply Nat.eqb_neq in NE. rewrite NE. reflexivity.
Qed.

Lemma pairs_rows_count m : forall n v,
  count_occ Nat.eq_dec (map fst (pairs_at n m)) v =
  if n <=? v then length (where1 (nth (v - n) m [])) else 0.
Proof.
  induction m as [|r m IH]; intros n v.
  - cbn. destruct (v - n); destruct (n <=? v); reflexivity.
  - rewrite pairs_at_cons, map_app, count_occ_app, map_map. cbn [fst].
    rewrite count_occ_const, IH.
    destruct (Nat.eqb_spec n v) as [E|NE].
    + subst v. rewrite Nat.sub_diag. cbn [nth].
      replace (S n <=? n) with false by (symmetry; apply Nat.leb_gt; lia).
      replace (n <=? n) with true by (symmetry; apply Nat.leb_le; lia). lia.
    + destruct (Nat.leb_spec (S n) v) as [L|G].
      * replace (n <=? v) with true by (symmetry; apply Nat.leb_le; lia).
        replace (v - n) with (S (v - S n)) by lia. reflexivity.
      * replace (n <=? v) with false by (symmetry; apply Nat.leb_gt; lia). reflexivity.
Qed.

Lemma pairs_rows_range m : forall n i, In i (map fst (pairs_at n m)) -> n <= i < n + length m.
Proof.
  induction m as [|r m IH]; intros n i Hin; [destruct Hin|].
  rewrite pairs_at_cons, map_app, map_map in Hin. cbn [fst] in Hin.
  apply in_app_or in Hin. destruct Hin as [Hin|Hin].
  - apply in_map_iff in Hin. destruct Hin as [_ [<- _]]. cbn [length]. lia.
  - apply IH in Hin. cbn [length]. lia.
Qed.

Lemma bincount_rows m :
  bincount (map fst (pairs_at 0 m)) (length m) = map (fun r => length (where1 r)) m.
Proof.
  unfold bincount.
  assert (HK : Nat.max (length m)
                 (match map fst (pairs_at 0 m) with [] => 0 | _ :: _ => S (list_max (map fst (pairs_at 0 m))) end)
               = length m).
  { destruct (map fst (pairs_at 0 m)) as [|a rs] eqn:E; [apply Nat.max_0_r|].
    apply Nat.max_l. rewrite <- E.
    assert (Hne : map fst (pairs_at 0 m) <> []) by (rewrite E; discriminate).
    apply (proj2 (@list_max_lt (map fst (pairs_at 0 m)) (length m) Hne)).
    apply Forall_forall. intros i Hi. apply pairs_rows_range in Hi. lia. }
  rewrite HK.
  transitivity (map (fun v => length (where1 (nth v m []))) (seq 0 (length m))).
  - apply map_ext. intros v. rewrite pairs_rows_count. cbn [Nat.leb]. rewrite Nat.sub_0_r. reflexivity.
  - rewrite <- (map_map (fun v => nth v m []) (fun r => length (where1 r))).
    rewrite map_seq_nth. reflexivity.
Qed.

(* ------------------------------------------------------------------ RaggedArray(flat, lengths) *)
Lemma firstn_len_app {A} (a b : list A) : firstn (length a) (a ++ b) = a.
Proof. induction a as [|x a IH]; [reflexivity|]. cbn. f_equal. exact IH. Qed.

Lemma skipn_len_app {A} (a b : list A) : skipn (length a) (a ++ b) = b.
Proof. induction a as [|x a IH]; [reflexivity|]. cbn. exact IH. Qed.

Lemma ragged_concat {A} (ls : list (list A)) :
  ragged (concat ls) (map (@length A) ls) = Some ls.
Proof.
  unfold ragged.
  replace (list_sum (map (@length A) ls) =? length (concat ls)) with true.
  - f_equal. induction ls as [|l ls IH]; [reflexivity|].
    cbn [map concat split_by]. rewrite firstn_len_app, skipn_len_app, IH. reflexivity.
  - symmetry. apply Nat.eqb_eq. induction ls as [|l ls IH]; [reflexivity|].
    cbn [map concat]. rewrite app_length, <- IH. reflexivity.
Qed.

(* where -> bincount of the row indices -> RaggedArray of the column indices = where1 per row *)
Lemma where2_ragged (m : list (list bool)) (n : nat) :
  n = length m ->
  ragged (snd (where2 m)) (bincount (fst (where2 m)) n) = Some (map where1 m).
Proof.
  intros ->. rewrite where2_pairs. cbn [fst snd].
  rewrite bincount_rows, pairs_cols.
  rewrite <- (map_map where1 (@length nat)). apply ragged_concat.
Qed.

(* ------------------------------------------------------------------ the 2-D / ragged branch *)
Theorem gen_transitions2_eq (rows : list (list Z)) : gen_transitions2 rows = Some (transitions2 rows).
Proof.
  unfold gen_transitions2.
  rewrite sub_rows_tail_init. cbn [obind]. rewrite ?map_length.
  set (M := mask_rows (fun x => negb (x =? 0)%Z) (map diffs rows)).
  pose proof (where2_ragged M (length rows)) as H.
  destruct (where2 M) as [rs cs]. cbn [fst snd] in H.
  rewrite H by (unfold M, mask_rows; rewrite !map_length; reflexivity).
  cbn [obind]. f_equal.
  unfold M, mask_rows, transitions2. rewrite map_map, map_map.
  apply map_ext. intros r. apply where1_diffs.
Qed.

(* ------------------------------------------------------------------ the branch test *)
Theorem gen_transitions_1d (row : list Z) : gen_transitions (Arr1 row) = TT1 (transitions row).
Proof.
  unfold gen_transitions. cbn [ndim].
  let b := eval vm_compute in (gen_branch_test 1%Z) in change (gen_branch_test 1%Z) with b.
  cbv iota. unfold on_1d. rewrite gen_transitions1_eq. reflexivity.
Qed.

Theorem gen_transitions_2d (rows : list (list Z)) : gen_transitions (Arr2 rows) = TT2 (transitions2 rows).
Proof.
  unfold gen_transitions. cbn [ndim].
  let b := eval vm_compute in (gen_branch_test 2%Z) in change (gen_branch_test 2%Z) with b.
  cbv iota. unfold on_2d. rewrite gen_transitions2_eq. reflexivity.
Qed.

(* ------------------------------------------------------------------ end to end *)
Theorem gen_transitions1_reports (row : list Z) :
  exists tt, gen_transitions1 row = Some tt /\
    (forall k, In k tt <->
       exists x y, nth_error row k = Some x /\ nth_error row (S k) = Some y /\ x <> y) /\
    StronglySorted lt tt.
Proof.
  exists (transitions row). split; [apply gen_transitions1_eq|]. split.
  - intros k. apply transitions_iff.
  - apply transitions_increasing.
Qed.

Theorem gen_transitions2_reports (rows : list (list Z)) :
  exists tts, gen_transitions2 rows = Some tts /\ length tts = length rows /\
    forall i,
      (forall k, In k (nth i tts []) <->
         exists x y, nth_error (nth i rows []) k = Some x /\
                     nth_error (nth i rows []) (S k) = Some y /\ x <> y) /\
      StronglySorted lt (nth i tts []).
Proof.
  exists (transitions2 rows). split; [apply gen_transitions2_eq|].
  destruct (transitions_per_trajectory rows) as [HL HN]. split; [exact HL|].
  intros i. rewrite HN. split.
  - intros k. apply transitions_iff.
  - apply transitions_increasing.
Qed.
