(* The translated while-test and argument normalisation of kcenters are what the model assumes. *)
From Coq Require Import List ZArith QArith Bool Arith.
From EV Require Import KcGuardBase KcGuardGen KcArgs Cluster.

(* the loop guard of Model/Cluster.v is the source's `while` test *)
Theorem gen_guard_is_model_guard nclu cutoff (s : st) :
  gen_guard (length (fst s)) nclu (maxdist (snd s)) cutoff = kc_guard nclu cutoff s.
Proof. unfold gen_guard, kc_guard, cmp_count_lt, cmp_q_gt, Qlt_b. destruct nclu; reflexivity. Qed.

(* None handling: both absent -> error; only a radius -> unlimited count; only a count -> radius 0 *)
Theorem normalise_spec :
  gen_normalise NcNone DcNone = None /\
  (forall r, gen_normalise NcNone (DcVal r) = Some (NcInf, DcVal r)) /\
  (forall k, gen_normalise (NcInt k) DcNone = Some (NcInt k, DcVal 0)) /\
  gen_normalise NcInf DcNone = Some (NcInf, DcVal 0) /\
  (forall k r, gen_normalise (NcInt k) (DcVal r) = Some (NcInt k, DcVal r)) /\
  (forall r, gen_normalise NcInf (DcVal r) = Some (NcInf, DcVal r)).
Proof. repeat split; intros; reflexivity. Qed.

(* the effective criteria: a count and/or a radius, never "no criterion at all" *)
Theorem effective_spec nc dc :
  effective nc dc =
  match nc, dc with
  | NcNone, DcNone => None
  | NcNone, DcVal r => Some (None, r)
  | NcInf, DcNone => Some (None, 0)
  | NcInf, DcVal r => if Qeq_bool r 0 then None else Some (None, r)
  | NcInt k, DcNone => Some (Some k, 0)
  | NcInt k, DcVal r => Some (Some k, r)
  end.
Proof.
  unfold effective, gen_reject. destruct nc, dc; cbn; try reflexivity;
    try (destruct (Qeq_bool r 0); reflexivity).
Qed.

