(* C20 proofs: the translated is_buffered_transition / _rotamers are the hysteresis automaton. *)
From Coq Require Import List ZArith QArith Bool Lqa Lia Sorted.
From EV Require Import RotamerBase RotamerGen Rotamer.
Import ListNotations.
Open Scope Q_scope.

Lemma Qle_bool_false_iff x y : Qle_bool x y = false <-> y < x.
Proof.
  split; intros H.
  - apply Qnot_le_lt. intros C. apply Qle_bool_iff in C. congruence.
  - destruct (Qle_bool x y) eqn:E; [|reflexivity]. apply Qle_bool_iff in E.
    exfalso. apply (Qlt_not_le _ _ H). exact E.
Qed.

(* the three hard-boundary sets used by the library: phi, psi (shifted), chi *)
Definition hb_phi : list Q := [0#1; 180#1; 360#1].
Definition hb_psi : list Q := [0#1; 160#1; 360#1].
Definition hb_chi : list Q := [0#1; 120#1; 240#1; 360#1].

Ltac redlit :=
  cbv beta iota zeta delta
    [nth Z.to_nat Z.add Z.mul Pos.to_nat Pos.iter_op Nat.add Pos.add Pos.mul Z.opp Pos.succ Qeq_bool
     Zeq_bool Qnum Qden Z.compare Pos.compare Pos.compare_cont orb negb andb Z.of_nat length Z.sub
     Pos.of_succ_nat Z.pos_sub Z.succ_double Z.pred_double Z.double Pos.pred_double qnth in_arc
     hb_phi hb_psi hb_chi filter digitize basin map seq zrange0 find_first gen_first_test gen_n_basins
     Z.eqb Pos.eqb].
Ltac qcases :=
  repeat (match goal with
          | |- context[if Qle_bool ?x ?y then _ else _] =>
              let H := fresh "H" in
              destruct (Qle_bool x y) eqn:H;
              [apply Qle_bool_iff in H | apply Qle_bool_false_iff in H]; try (exfalso; lra)
          end);
  try reflexivity; try lia; exfalso; lra.

Definition angle_ok (a : Q) : Prop := 0 <= a /\ a < 360#1.

Ltac trans_tac :=
  intros a b [Ha0 Ha1] Hb0 Hb1 Hg;
  unfold off_gates in Hg; cbv beta iota zeta delta [nth Z.to_nat Z.add Pos.to_nat Pos.iter_op Nat.add Pos.add qnth hb_phi hb_psi hb_chi] in Hg;
  unfold is_buffered_transition, get_gates, in_widened; redlit; qcases.

(* ---- exit test = "angle left the widened basin", per boundary set and state *)
Lemma trans_phi_0 : forall a b, angle_ok a -> 0 <= b -> b < 180#1 -> off_gates hb_phi b 0 a ->
  is_buffered_transition 0 a hb_phi b = negb (in_widened hb_phi b 0 a).
Proof. trans_tac. Qed.
Lemma trans_phi_1 : forall a b, angle_ok a -> 0 <= b -> b < 180#1 -> off_gates hb_phi b 1 a ->
  is_buffered_transition 1 a hb_phi b = negb (in_widened hb_phi b 1 a).
Proof. trans_tac. Qed.
Lemma trans_psi_0 : forall a b, angle_ok a -> 0 <= b -> b < 180#1 -> off_gates hb_psi b 0 a ->
  is_buffered_transition 0 a hb_psi b = negb (in_widened hb_psi b 0 a).
Proof. trans_tac. Qed.
Lemma trans_psi_1 : forall a b, angle_ok a -> 0 <= b -> b < 180#1 -> off_gates hb_psi b 1 a ->
  is_buffered_transition 1 a hb_psi b = negb (in_widened hb_psi b 1 a).
Proof. trans_tac. Qed.
Lemma trans_chi_0 : forall a b, angle_ok a -> 0 <= b -> b < 120#1 -> off_gates hb_chi b 0 a ->
  is_buffered_transition 0 a hb_chi b = negb (in_widened hb_chi b 0 a).
Proof. trans_tac. Qed.
Lemma trans_chi_1 : forall a b, angle_ok a -> 0 <= b -> b < 120#1 -> off_gates hb_chi b 1 a ->
  is_buffered_transition 1 a hb_chi b = negb (in_widened hb_chi b 1 a).
Proof. trans_tac. Qed.
Lemma trans_chi_2 : forall a b, angle_ok a -> 0 <= b -> b < 120#1 -> off_gates hb_chi b 2 a ->
  is_buffered_transition 2 a hb_chi b = negb (in_widened hb_chi b 2 a).
Proof. trans_tac. Qed.

(* the library's boundary sets with their basin count and buffer bound 360/n *)
Inductive lib_set : list Q -> Z -> Q -> Prop :=
| LibPhi : lib_set hb_phi 2 (180#1)
| LibPsi : lib_set hb_psi 2 (180#1)
| LibChi : lib_set hb_chi 3 (120#1).

Definition buffer_ok (bmax b : Q) : Prop := 0 <= b /\ b < bmax.
Definition state_ok (n s : Z) : Prop := (0 <= s < n)%Z.

Theorem transition_iff_exit hb n bmax s a b :
  lib_set hb n bmax -> state_ok n s -> angle_ok a -> buffer_ok bmax b -> off_gates hb b s a ->
  is_buffered_transition s a hb b = negb (in_widened hb b s a).
Proof.
  intros L [Hs0 Hs1] Ha [Hb0 Hb1] Hg.
  destruct L.
  - assert (C : s = 0%Z \/ s = 1%Z) by lia. destruct C as [-> | ->];
      [apply trans_phi_0 | apply trans_phi_1]; assumption.
  - assert (C : s = 0%Z \/ s = 1%Z) by lia. destruct C as [-> | ->];
      [apply trans_psi_0 | apply trans_psi_1]; assumption.
  - assert (C : s = 0%Z \/ s = 1%Z \/ s = 2%Z) by lia. destruct C as [-> | [-> | ->]];
      [apply trans_chi_0 | apply trans_chi_1 | apply trans_chi_2]; assumption.
Qed.

(* ---- binning *)
Lemma basin_range hb n bmax a : lib_set hb n bmax -> angle_ok a -> state_ok n (basin hb a).
Proof.
  intros L [Ha0 Ha1]. unfold state_ok. destruct L; redlit; qcases.
Qed.

Lemma first_frame_binned hb n bmax angles a0 :
  lib_set hb n bmax -> angle_ok a0 ->
  find_first (gen_first_test (a0 :: angles) hb) (zrange0 (gen_n_basins hb)) = basin hb a0.
Proof.
  intros L [Ha0 Ha1]. destruct L; redlit; qcases.
Qed.

Lemma gen_invalid_false hb n bmax b : lib_set hb n bmax -> buffer_ok bmax b -> gen_invalid hb b = false.
Proof.
  intros L [Hb0 Hb1]. unfold gen_invalid.
  destruct L; cbv beta iota zeta delta [gen_n_basins hb_phi hb_psi hb_chi length Z.of_nat Pos.of_succ_nat Pos.succ Z.sub Z.pos_sub Z.opp Pos.pred_double Z.succ_double Z.pred_double Z.double nth Z.to_nat last Qeq_bool Zeq_bool Qnum Qden Z.mul Pos.mul Z.compare Pos.compare Pos.compare_cont negb orb andb Z.add inject_Z].
  all: repeat (match goal with
          | |- context[Qle_bool ?x ?y] =>
              let H := fresh "H" in
              destruct (Qle_bool x y) eqn:H;
              [apply Qle_bool_iff in H | apply Qle_bool_false_iff in H]
          end); try reflexivity; exfalso.
  all: try (unfold Qdiv, Qinv, Qmult, Qle, Qlt in *; cbn in *; lia).
Qed.

(* ---- the whole run *)
Definition angles_ok (hb : list Q) (n : Z) (b : Q) (angles : list Q) : Prop :=
  Forall (fun a => angle_ok a /\ forall s, state_ok n s -> off_gates hb b s a) angles.

Lemma step_eq_spec hb n bmax s a b :
  lib_set hb n bmax -> state_ok n s -> angle_ok a -> buffer_ok bmax b -> off_gates hb b s a ->
  gen_step hb b s a = spec_step hb b s a.
Proof.
  intros L Hs Ha Hb Hg. unfold gen_step, spec_step.
  rewrite (transition_iff_exit hb n bmax s a b L Hs Ha Hb Hg).
  destruct (in_widened hb b s a); reflexivity.
Qed.

Lemma spec_step_valid hb n bmax s a b :
  lib_set hb n bmax -> state_ok n s -> angle_ok a -> state_ok n (spec_step hb b s a).
Proof.
  intros L Hs Ha. unfold spec_step. destruct (in_widened hb b s a); [exact Hs|].
  apply (basin_range hb n bmax a L Ha).
Qed.

Lemma scan_eq_spec hb n bmax b : lib_set hb n bmax -> buffer_ok bmax b ->
  forall angles s, state_ok n s -> angles_ok hb n b angles ->
  scan (gen_step hb b) s angles = scan (spec_step hb b) s angles /\
  Forall (state_ok n) (scan (spec_step hb b) s angles).
Proof.
  intros L Hb. induction angles as [|a r IH]; intros s Hs Hok; cbn [scan]; [split; [reflexivity|constructor]|].
  inversion Hok as [|? ? [Ha Hg] Hr]; subst.
  rewrite (step_eq_spec hb n bmax s a b L Hs Ha Hb (Hg s Hs)).
  assert (Hs' : state_ok n (spec_step hb b s a)) by (apply (spec_step_valid hb n bmax); assumption).
  destruct (IH (spec_step hb b s a) Hs' Hr) as [E F].
  split; [rewrite E; reflexivity | constructor; assumption].
Qed.

Theorem run_eq_spec hb n bmax b angles :
  lib_set hb n bmax -> buffer_ok bmax b -> angles_ok hb n b angles ->
  gen_rotamers angles hb b = spec_run hb b angles.
Proof.
  intros L Hb Hok. unfold gen_rotamers, rotamers_skeleton, spec_run.
  rewrite (gen_invalid_false hb n bmax b L Hb).
  destruct angles as [|a0 rest]; [reflexivity|].
  inversion Hok as [|? ? [Ha Hg] Hr]; subst.
  rewrite (first_frame_binned hb n bmax rest a0 L Ha).
  destruct (scan_eq_spec hb n bmax b L Hb rest (basin hb a0) (basin_range hb n bmax a0 L Ha) Hr) as [E _].
  rewrite E. reflexivity.
Qed.

Theorem states_valid hb n bmax b angles sts :
  lib_set hb n bmax -> buffer_ok bmax b -> angles_ok hb n b angles ->
  gen_rotamers angles hb b = Some sts -> Forall (state_ok n) sts /\ length sts = length angles.
Proof.
  intros L Hb Hok E. rewrite (run_eq_spec hb n bmax b angles L Hb Hok) in E.
  unfold spec_run in E. destruct angles as [|a0 rest]; [discriminate|]. injection E as <-.
  inversion Hok as [|? ? [Ha Hg] Hr]; subst.
  destruct (scan_eq_spec hb n bmax b L Hb rest (basin hb a0) (basin_range hb n bmax a0 L Ha) Hr) as [_ F].
  split; [constructor; [apply (basin_range hb n bmax a0 L Ha)|exact F]|].
  cbn [length]. f_equal. clear. generalize (basin hb a0). induction rest as [|a r IH]; intros s; cbn; [reflexivity|].
  f_equal. apply IH.
Qed.

(* ---- zero buffer = plain binning *)
Ltac zero_tac :=
  intros a b [Ha0 Ha1] Hb Hg;
  unfold off_gates in Hg; cbv beta iota zeta delta [nth Z.to_nat Z.add Pos.to_nat Pos.iter_op Nat.add Pos.add qnth hb_phi hb_psi hb_chi] in Hg;
  unfold spec_step, in_widened; redlit; qcases.

Lemma zero_phi_0 : forall a b, angle_ok a -> b == 0 -> off_gates hb_phi b 0 a -> spec_step hb_phi b 0 a = basin hb_phi a.
Proof. zero_tac. Qed.
Lemma zero_phi_1 : forall a b, angle_ok a -> b == 0 -> off_gates hb_phi b 1 a -> spec_step hb_phi b 1 a = basin hb_phi a.
Proof. zero_tac. Qed.
Lemma zero_psi_0 : forall a b, angle_ok a -> b == 0 -> off_gates hb_psi b 0 a -> spec_step hb_psi b 0 a = basin hb_psi a.
Proof. zero_tac. Qed.
Lemma zero_psi_1 : forall a b, angle_ok a -> b == 0 -> off_gates hb_psi b 1 a -> spec_step hb_psi b 1 a = basin hb_psi a.
Proof. zero_tac. Qed.
Lemma zero_chi_0 : forall a b, angle_ok a -> b == 0 -> off_gates hb_chi b 0 a -> spec_step hb_chi b 0 a = basin hb_chi a.
Proof. zero_tac. Qed.
Lemma zero_chi_1 : forall a b, angle_ok a -> b == 0 -> off_gates hb_chi b 1 a -> spec_step hb_chi b 1 a = basin hb_chi a.
Proof. zero_tac. Qed.
Lemma zero_chi_2 : forall a b, angle_ok a -> b == 0 -> off_gates hb_chi b 2 a -> spec_step hb_chi b 2 a = basin hb_chi a.
Proof. zero_tac. Qed.

Lemma zero_step hb n bmax s a b :
  lib_set hb n bmax -> state_ok n s -> angle_ok a -> b == 0 -> off_gates hb b s a ->
  spec_step hb b s a = basin hb a.
Proof.
  intros L [Hs0 Hs1] Ha Hb Hg. destruct L.
  - assert (C : s = 0%Z \/ s = 1%Z) by lia. destruct C as [-> | ->];
      [apply zero_phi_0 | apply zero_phi_1]; assumption.
  - assert (C : s = 0%Z \/ s = 1%Z) by lia. destruct C as [-> | ->];
      [apply zero_psi_0 | apply zero_psi_1]; assumption.
  - assert (C : s = 0%Z \/ s = 1%Z \/ s = 2%Z) by lia. destruct C as [-> | [-> | ->]];
      [apply zero_chi_0 | apply zero_chi_1 | apply zero_chi_2]; assumption.
Qed.

Lemma bmax_pos hb n bmax : lib_set hb n bmax -> 0 < bmax.
Proof. intros L; destruct L; reflexivity. Qed.

Theorem zero_buffer_is_binning hb n bmax b angles :
  lib_set hb n bmax -> b == 0 -> angles_ok hb n b angles -> angles <> [] ->
  gen_rotamers angles hb b = Some (map (basin hb) angles).
Proof.
  intros L Hb Hok Hne.
  assert (Bok : buffer_ok bmax b) by (pose proof (bmax_pos hb n bmax L); unfold buffer_ok; split; lra).
  rewrite (run_eq_spec hb n bmax b angles L Bok Hok). unfold spec_run.
  destruct angles as [|a0 rest]; [congruence|]. cbn [map]. f_equal. f_equal.
  inversion Hok as [|? ? [Ha Hg] Hr]; subst. clear Hok Hne Hg.
  assert (Hs : state_ok n (basin hb a0)) by (apply (basin_range hb n bmax a0 L Ha)).
  revert Hs. generalize (basin hb a0). induction rest as [|a r IH]; intros s Hs; cbn [scan map]; [reflexivity|].
  inversion Hr as [|? ? [Ha' Hg'] Hr']; subst.
  rewrite (zero_step hb n bmax s a b L Hs Ha' Hb (Hg' s Hs)). f_equal.
  apply IH; [exact Hr'|]. apply (basin_range hb n bmax a L Ha').
Qed.

(* ---- transition bookkeeping *)
Open Scope nat_scope.
Lemma trans_from_cons2 n x y r :
  trans_from n (x :: y :: r) =
  if (x =? y)%Z then trans_from (S n) (y :: r) else n :: trans_from (S n) (y :: r).
Proof. reflexivity. Qed.

Lemma trans_from_spec row : forall n k,
  In k (trans_from n row) <->
  exists i x y, k = n + i /\ nth_error row i = Some x /\ nth_error row (S i) = Some y /\ x <> y.
Proof.
  induction row as [|x r IH]; intros n k.
  - cbn. split; [tauto|]. intros [i [x [y [_ [H _]]]]]. destruct i; discriminate.
  - destruct r as [|y r'].
    + cbn. split; [tauto|]. intros [i [a [c [_ [_ [H _]]]]]]. destruct i as [|[|i]]; discriminate.
    + rewrite trans_from_cons2. destruct (Z.eqb_spec x y) as [E|NE].
      * rewrite IH. split.
        -- intros [i [a [c [-> [H1 [H2 H3]]]]]]. exists (S i), a, c. repeat split; try assumption. lia.
        -- intros [i [a [c [-> [H1 [H2 H3]]]]]]. destruct i as [|i].
           ++ cbn in H1, H2. congruence.
           ++ exists i, a, c. repeat split; try assumption. lia.
      * cbn [In]. rewrite IH. split.
        -- intros [<- | [i [a [c [-> [H1 [H2 H3]]]]]]].
           ++ exists 0, x, y. repeat split; [lia|assumption].
           ++ exists (S i), a, c. repeat split; try assumption. lia.
        -- intros [i [a [c [-> [H1 [H2 H3]]]]]]. destruct i as [|i].
           ++ left. lia.
           ++ right. exists i, a, c. repeat split; try assumption. lia.
Qed.

Theorem transitions_iff row k :
  In k (transitions row) <->
  exists x y, nth_error row k = Some x /\ nth_error row (S k) = Some y /\ x <> y.
Proof.
  unfold transitions. rewrite trans_from_spec. split.
  - intros [i [x [y [-> H]]]]. exists x, y. exact H.
  - intros [x [y H]]. exists k, x, y. split; [reflexivity|exact H].
Qed.

Lemma trans_from_sorted row : forall n, StronglySorted lt (trans_from n row) /\ Forall (fun k => n <= k) (trans_from n row).
Proof.
  induction row as [|x r IH]; intros n; [split; constructor|].
  destruct r as [|y r']; [split; constructor|].
  rewrite trans_from_cons2. destruct (IH (S n)) as [S1 F1].
  destruct (x =? y)%Z.
  - split; [exact S1|]. eapply Forall_impl; [|exact F1]. cbn. intros; lia.
  - split.
    + constructor; [exact S1|]. eapply Forall_impl; [|exact F1]. cbn. intros; lia.
    + constructor; [lia|]. eapply Forall_impl; [|exact F1]. cbn. intros; lia.
Qed.

Theorem transitions_increasing row : StronglySorted lt (transitions row).
Proof. apply trans_from_sorted. Qed.

Theorem transitions_per_trajectory rows :
  length (transitions2 rows) = length rows /\
  forall i, nth i (transitions2 rows) [] = transitions (nth i rows []).
Proof.
  unfold transitions2. split; [apply map_length|].
  intros i. change (@nil nat) with (transitions []). apply map_nth.
Qed.
