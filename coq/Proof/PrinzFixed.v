(* C12: a sweep that changes nothing is a fixed point of every coordinate update.
   Each entry of X is written exactly once per sweep (diagonal (i,i) by diagonal step i; (i,j) and
   (j,i), i < j, by pair step (i,j)), so if the matrix after the sweep equals the matrix before it,
   every single write stored the value that was already there, every intermediate state equals the
   initial one (entry by entry, running row sums included), and hence every update *computed on the
   initial state* returns the entry that is already there: is_fixed.
   Then the full theorem: sweep-unchanged => Prinz self-consistency equations, including the
   a = 0 case (two states, empty diagonal) and n = 1, and a version whose hypothesis is strong
   connectivity of the count graph. *)
From Coq Require Import List ZArith Reals Lra Lia Bool Arith.
From EV Require Import Prinz PrinzGen PrinzProofs PrinzSweep.
Import ListNotations.
Open Scope R_scope.

(* ------------------------------------------------------------------ entrywise equality of states *)
Definition seqv (s t : state R) : Prop :=
  (forall a b, fst s a b = fst t a b) /\ (forall a, snd s a = snd t a).

Lemma seqv_refl s : seqv s s.
Proof. split; reflexivity. Qed.
Lemma seqv_sym s t : seqv s t -> seqv t s.
Proof. intros [H1 H2]. split; intros; symmetry; [apply H1 | apply H2]. Qed.
Lemma seqv_trans s t u : seqv s t -> seqv t u -> seqv s u.
Proof. intros [H1 H2] [H3 H4]. split; intros; [rewrite H1; apply H3 | rewrite H2; apply H4]. Qed.

Lemma Inv_seqv n s t : seqv s t -> Inv n t -> Inv n s.
Proof.
  intros [HX HR] H. split.
  - intros i j Hi Hj. rewrite !HX. apply (inv_sym _ _ H); assumption.
  - intros i Hi. rewrite HR, (inv_rs _ _ H) by exact Hi. apply sumR_ext. intros k _. symmetry. apply HX.
  - intros i j Hi Hj. rewrite HX. apply (inv_nn _ _ H); assumption.
Qed.

(* ------------------------------------------------------------------ no entry is written twice *)
Lemma NoDup_app' {A} (l1 l2 : list A) :
  NoDup l1 -> NoDup l2 -> (forall x, In x l1 -> ~ In x l2) -> NoDup (l1 ++ l2).
Proof.
  intros H1 H2. induction H1 as [| a l Ha Hl IH]; intros Hd; [exact H2|].
  simpl. constructor.
  - rewrite in_app_iff. intros [Hin | Hin]; [contradiction | apply (Hd a (or_introl eq_refl) Hin)].
  - apply IH. intros x Hx. apply Hd. right. exact Hx.
Qed.

Lemma NoDup_map_pair (i : nat) (l : list nat) : NoDup l -> NoDup (map (fun j => (i, j)) l).
Proof.
  induction 1 as [| a l Ha Hl IH]; simpl; constructor; [| exact IH].
  rewrite in_map_iff. intros [x [E Hx]]. inversion E; subst. contradiction.
Qed.

Lemma NoDup_pairs_gen (g : nat -> list nat) (l : list nat) :
  NoDup l -> (forall i, NoDup (g i)) -> NoDup (flat_map (fun i => map (fun j => (i, j)) (g i)) l).
Proof.
  intros Hl Hg. induction Hl as [| a l Ha Hl IH]; simpl; [constructor|].
  apply NoDup_app'; [apply NoDup_map_pair, Hg | exact IH |].
  intros [x y] H1 H2. rewrite in_map_iff in H1. destruct H1 as [j [E _]]. inversion E; subst.
  rewrite in_flat_map in H2. destruct H2 as [i' [Hi' H2]]. rewrite in_map_iff in H2.
  destruct H2 as [j' [E' _]]. inversion E'; subst. contradiction.
Qed.

Lemma NoDup_pairs n : NoDup (pairs n).
Proof. unfold pairs. apply NoDup_pairs_gen; [apply seq_NoDup | intros i; apply seq_NoDup]. Qed.

(* the pairwise update always stores one value v in both entries and corrects both running sums by
   the change (with or without the clamp on c) *)
Lemma py_offdiag_shape cij cji ci cj xi xj xij xji :
  let v := fst (fst (fst (py_offdiag ROps cij cji ci cj xi xj xij xji))) in
  py_offdiag ROps cij cji ci cj xi xj xij xji = (v, v, xi + (v - xij), xj + (v - xji)).
Proof. reflexivity. Qed.

Section Fixed.
  Variable n : nat.
  Variable C : nat -> nat -> R.
  Variable Crs : nat -> R.

  (* the value a coordinate update computes on state t *)
  Definition dval (t : state R) (i : nat) : R :=
    fst (py_diag ROps (C i i) (Crs i) (snd t i) (fst t i i)).
  Definition oval (t : state R) (i j : nat) : R :=
    fst (fst (fst (py_offdiag ROps (C i j) (C j i) (Crs i) (Crs j) (snd t i) (snd t j) (fst t i j) (fst t j i)))).

  Lemma dval_seqv s t i : seqv s t -> dval s i = dval t i.
  Proof. intros [HX HR]. unfold dval. rewrite HX, HR. reflexivity. Qed.
  Lemma oval_seqv s t i j : seqv s t -> oval s i j = oval t i j.
  Proof. intros [HX HR]. unfold oval. rewrite !HX, !HR. reflexivity. Qed.

  (* ---------------------------------------------------------------- diagonal phase *)
  Lemma dstep_X t i a b :
    fst (dstep C Crs t i) a b = if Nat.eqb a i && Nat.eqb b i then dval t i else fst t a b.
  Proof.
    unfold dstep, diag_step, dval.
    destruct (py_diag ROps (C i i) (Crs i) (snd t i) (fst t i i)) as [x r]. reflexivity.
  Qed.

  Lemma dstep_id t i : dval t i = fst t i i -> seqv (dstep C Crs t i) t.
  Proof.
    intros Hv. unfold dval in Hv. unfold dstep, diag_step. rewrite py_diag_spec in *. cbv zeta in *.
    cbn [fst] in Hv. rewrite Hv. split; cbn [fst snd].
    - intros a b. unfold upd2.
      destruct (Nat.eqb_spec a i), (Nat.eqb_spec b i); simpl; subst; reflexivity.
    - intros a. unfold upd1. destruct (Nat.eqb_spec a i); subst; [ring | reflexivity].
  Qed.

  Lemma diag_frame l : forall t a b, (a <> b \/ ~ In a l) ->
    fst (fold_left (dstep C Crs) l t) a b = fst t a b.
  Proof.
    induction l as [| i l IH]; intros t a b H; [reflexivity|].
    simpl. rewrite IH.
    - rewrite dstep_X. destruct (Nat.eqb_spec a i), (Nat.eqb_spec b i); simpl; try reflexivity.
      subst. destruct H as [H | H]; [contradiction | exfalso; apply H; left; reflexivity].
    - destruct H as [H | H]; [left; exact H | right; intro; apply H; right; assumption].
  Qed.

  Lemma diag_phase_fixed l : NoDup l -> forall t,
    (forall i, In i l -> fst (fold_left (dstep C Crs) l t) i i = fst t i i) ->
    (forall i, In i l -> dval t i = fst t i i) /\ seqv (fold_left (dstep C Crs) l t) t.
  Proof.
    induction 1 as [| i l Hni Hnd IH]; intros t H.
    - split; [intros i [] | apply seqv_refl].
    - simpl in H |- *.
      assert (Hi : dval t i = fst t i i).
      { rewrite <- (H i (or_introl eq_refl)). rewrite diag_frame by (right; exact Hni).
        rewrite dstep_X, !Nat.eqb_refl. reflexivity. }
      pose proof (dstep_id t i Hi) as Hs.
      destruct (IH (dstep C Crs t i)) as [Hf Hq].
      { intros k Hk. rewrite (H k (or_intror Hk)). symmetry. apply Hs. }
      split.
      + intros k [<- | Hk]; [exact Hi|].
        rewrite <- (dval_seqv _ _ k Hs). rewrite (Hf k Hk). apply Hs.
      + eapply seqv_trans; eassumption.
  Qed.

  (* ---------------------------------------------------------------- pair phase *)
  Lemma ostep_X t i j a b :
    fst (ostep C Crs t (i, j)) a b =
      if Nat.eqb a j && Nat.eqb b i then oval t i j
      else if Nat.eqb a i && Nat.eqb b j then oval t i j else fst t a b.
  Proof.
    unfold ostep, off_step, oval. cbn [fst snd]. rewrite py_offdiag_shape. reflexivity.
  Qed.

  Lemma ostep_id t i j : fst t j i = fst t i j -> oval t i j = fst t i j -> seqv (ostep C Crs t (i, j)) t.
  Proof.
    intros Hsym Hv. unfold oval in Hv. unfold ostep, off_step. cbn [fst snd].
    rewrite py_offdiag_shape. cbv zeta. rewrite Hv. split; cbn [fst snd].
    - intros a b. unfold upd2.
      destruct (Nat.eqb_spec a j), (Nat.eqb_spec b i), (Nat.eqb_spec a i), (Nat.eqb_spec b j); simpl; subst;
        try reflexivity; symmetry; exact Hsym.
    - intros a. unfold upd1. destruct (Nat.eqb_spec a j), (Nat.eqb_spec a i); subst; try reflexivity; lra.
  Qed.

  Lemma pair_frame l : forall t a b, ~ In (a, b) l -> ~ In (b, a) l ->
    fst (fold_left (ostep C Crs) l t) a b = fst t a b.
  Proof.
    induction l as [| [i j] l IH]; intros t a b H1 H2; [reflexivity|].
    simpl. rewrite IH; [| intro; apply H1; right; assumption | intro; apply H2; right; assumption].
    rewrite ostep_X.
    destruct (Nat.eqb_spec a j), (Nat.eqb_spec b i); simpl.
    - subst. exfalso. apply H2. left. reflexivity.
    - destruct (Nat.eqb_spec a i), (Nat.eqb_spec b j); simpl; try reflexivity.
      subst. exfalso. apply H1. left. reflexivity.
    - destruct (Nat.eqb_spec a i), (Nat.eqb_spec b j); simpl; try reflexivity.
      subst. exfalso. apply H1. left. reflexivity.
    - destruct (Nat.eqb_spec a i), (Nat.eqb_spec b j); simpl; try reflexivity.
      subst. exfalso. apply H1. left. reflexivity.
  Qed.

  Lemma pair_phase_fixed l : NoDup l -> (forall p, In p l -> (fst p < snd p < n)%nat) -> forall t, Inv n t ->
    (forall p, In p l -> fst (fold_left (ostep C Crs) l t) (fst p) (snd p) = fst t (fst p) (snd p)) ->
    (forall p, In p l -> oval t (fst p) (snd p) = fst t (fst p) (snd p)) /\
    seqv (fold_left (ostep C Crs) l t) t.
  Proof.
    induction 1 as [| [i j] l Hni Hnd IH]; intros Hlt t Ht H.
    - split; [intros p [] | apply seqv_refl].
    - simpl in H |- *.
      pose proof (Hlt (i, j) (or_introl eq_refl)) as Hij. cbn [fst snd] in Hij.
      assert (Hji : ~ In (j, i) l).
      { intro Hin. specialize (Hlt (j, i) (or_intror Hin)). cbn [fst snd] in Hlt. lia. }
      assert (Hv : oval t i j = fst t i j).
      { pose proof (H (i, j) (or_introl eq_refl)) as E. cbn [fst snd] in E. rewrite <- E.
        rewrite pair_frame by assumption. rewrite ostep_X, !Nat.eqb_refl.
        destruct (Nat.eqb i j && Nat.eqb j i); reflexivity. }
      assert (Hsym : fst t j i = fst t i j) by (apply (inv_sym _ _ Ht); lia).
      pose proof (ostep_id t i j Hsym Hv) as Hs.
      destruct (IH (fun p Hp => Hlt p (or_intror Hp)) (ostep C Crs t (i, j))) as [Hf Hq].
      { apply (Inv_seqv n _ t Hs Ht). }
      { intros p Hp. rewrite (H p (or_intror Hp)). symmetry. apply Hs. }
      split.
      + intros p [<- | Hp]; [exact Hv|].
        rewrite <- (oval_seqv _ _ _ _ Hs). rewrite (Hf p Hp). apply Hs.
      + eapply seqv_trans; eassumption.
  Qed.

  (* ---------------------------------------------------------------- the whole sweep *)
  Definition sweep_unchanged (s : state R) : Prop :=
    forall i j, (i < n)%nat -> (j < n)%nat -> fst (py_sweep ROps C Crs n s) i j = fst s i j.

  Theorem sweep_unchanged_is_fixed s : Inv n s -> sweep_unchanged s -> is_fixed n C Crs s.
  Proof.
    intros Hs Hun. unfold sweep_unchanged, py_sweep, sweep in Hun.
    fold (dstep C Crs) in Hun. fold (ostep C Crs) in Hun.
    set (s1 := fold_left (dstep C Crs) (seq 0 n) s) in *.
    (* diagonal phase: the pair phase never writes a diagonal entry *)
    destruct (diag_phase_fixed (seq 0 n) (seq_NoDup n 0) s) as [Hd Hq1].
    { intros i Hi. rewrite in_seq in Hi. fold s1. rewrite <- (Hun i i) by lia.
      symmetry. apply pair_frame; intro Hin; apply pairs_spec in Hin; cbn [fst snd] in Hin; lia. }
    fold s1 in Hq1.
    destruct (pair_phase_fixed (pairs n) (NoDup_pairs n) (pairs_spec n) s1) as [Ho _].
    { apply (Inv_seqv n _ s Hq1 Hs). }
    { intros p Hp. pose proof (pairs_spec n p Hp) as Hlt. rewrite Hun by lia. symmetry. apply Hq1. }
    split.
    - intros i Hi. apply (Hd i). apply in_seq. lia.
    - intros i j Hij. fold (oval s i j). rewrite <- (oval_seqv _ _ i j Hq1).
      assert (Hin : In (i, j) (pairs n)).
      { unfold pairs. apply in_flat_map. exists i. split; [apply in_seq; lia|].
        apply in_map. apply in_seq. lia. }
      pose proof (Ho (i, j) Hin) as E. cbn [fst snd] in E. rewrite E. apply Hq1.
  Qed.

  (* and conversely a fixed point is left unchanged by a sweep: every step is the identity *)
  Theorem fixed_sweep_unchanged s : Inv n s -> is_fixed n C Crs s -> seqv (py_sweep ROps C Crs n s) s.
  Proof.
    intros Hs [Hfd Hfo]. unfold py_sweep, sweep. fold (dstep C Crs). fold (ostep C Crs).
    assert (H1 : forall l, (forall i, In i l -> (i < n)%nat) -> seqv (fold_left (dstep C Crs) l s) s).
    { intros l. generalize (seqv_refl s). generalize s at 1 3 as t.
      induction l as [| i l IH]; intros t Ht Hl; [exact Ht|].
      simpl. apply IH; [| intros k Hk; apply Hl; right; exact Hk].
      eapply seqv_trans; [apply dstep_id | exact Ht].
      rewrite (dval_seqv _ _ i Ht). unfold dval. rewrite Hfd by (apply Hl; left; reflexivity).
      symmetry. apply Ht. }
    assert (H2 : forall l, (forall p, In p l -> (fst p < snd p < n)%nat) ->
                 forall t, seqv t s -> seqv (fold_left (ostep C Crs) l t) s).
    { induction l as [| [i j] l IH]; intros Hl t Ht; [exact Ht|].
      simpl. apply IH; [intros p Hp; apply Hl; right; exact Hp|].
      pose proof (Hl (i, j) (or_introl eq_refl)) as Hij. cbn [fst snd] in Hij.
      eapply seqv_trans; [apply ostep_id | exact Ht].
      - destruct Ht as [HX _]. rewrite !HX. apply (inv_sym _ _ Hs); lia.
      - rewrite (oval_seqv _ _ i j Ht). unfold oval. rewrite Hfo by lia. symmetry. apply Ht. }
    apply H2; [apply pairs_spec|]. apply H1. intros i Hi. rewrite in_seq in Hi. lia.
  Qed.
End Fixed.

(* ------------------------------------------------------------------ the Prinz equations from an unchanged sweep *)
Definition prinz_eqs (n : nat) (C : nat -> nat -> R) (Crs : nat -> R) (s : state R) : Prop :=
  forall i j, (i < n)%nat -> (j < n)%nat ->
    fst s i j * (Crs i / snd s i + Crs j / snd s j) = C i j + C j i.

(* fixed_point_self_consistent, full form: the hypothesis is that one sweep leaves X unchanged *)
Theorem sweep_fixed_self_consistent n C Crs s :
  CInv n C Crs -> Inv n s -> (forall i, (i < n)%nat -> 0 < snd s i) ->
  (forall i, (i < n)%nat -> 0 < Crs i - C i i) ->
  (forall i j, (i < j < n)%nat -> qa (C i j) (C j i) (Crs i) (Crs j) <> 0) ->
  sweep_unchanged n C Crs s -> prinz_eqs n C Crs s.
Proof.
  intros HC Hs Hpos Hden Hqa Hun. unfold prinz_eqs.
  apply (fixed_point_self_consistent n C Crs HC s Hs Hpos Hden Hqa).
  apply sweep_unchanged_is_fixed; assumption.
Qed.

Lemma sumR_2 f : sumR 2 f = f 0%nat + f 1%nat.
Proof. rewrite !sumR_S, sumR_0. ring. Qed.

(* the a = 0 case.  a = (c_i - c_ij) + (c_j - c_ji) = 0 with C >= 0 says that all counts of i go to j
   and all counts of j go to i; in a strongly connected graph this is exactly: two states, empty
   diagonal.  The code then keeps x_ij (v = X[j, i]); the diagonal updates force x_ii = x_jj = 0, so
   x_i = x_ij = x_j and the equation x_ij (c_i/x_i + c_j/x_j) = c_i + c_j = c_ij + c_ji holds anyway. *)
Theorem two_state_self_consistent C Crs s :
  CInv 2 C Crs -> Inv 2 s -> (forall i, (i < 2)%nat -> 0 < snd s i) ->
  (forall i, (i < 2)%nat -> 0 < Crs i - C i i) ->
  is_fixed 2 C Crs s -> prinz_eqs 2 C Crs s.
Proof.
  intros HC Hs Hpos Hden Hfix.
  destruct (Req_EM_T (qa (C 0 1) (C 1 0) (Crs 0) (Crs 1)) 0)%nat as [Ha | Ha].
  - (* a = 0 *)
    destruct Hfix as [Hfd _].
    pose proof (diag_fixed_self_consistent 2 C Crs HC s 0%nat Hs ltac:(lia) (Hpos 0%nat ltac:(lia)) (Hden 0%nat ltac:(lia)) (Hfd 0%nat ltac:(lia))) as D0.
    pose proof (diag_fixed_self_consistent 2 C Crs HC s 1%nat Hs ltac:(lia) (Hpos 1%nat ltac:(lia)) (Hden 1%nat ltac:(lia)) (Hfd 1%nat ltac:(lia))) as D1.
    pose proof (c_rs _ _ _ HC 0%nat ltac:(lia)) as R0. pose proof (c_rs _ _ _ HC 1%nat ltac:(lia)) as R1.
    rewrite sumR_2 in R0, R1.
    pose proof (c_nn _ _ _ HC 0 0 ltac:(lia) ltac:(lia))%nat as N00.
    pose proof (c_nn _ _ _ HC 1 1 ltac:(lia) ltac:(lia))%nat as N11.
    unfold qa in Ha.
    assert (C00 : C 0%nat 0%nat = 0) by lra. assert (C11 : C 1%nat 1%nat = 0) by lra.
    pose proof (Hpos 0%nat ltac:(lia)) as P0. pose proof (Hpos 1%nat ltac:(lia)) as P1.
    pose proof (Hden 0%nat ltac:(lia)) as Dn0. pose proof (Hden 1%nat ltac:(lia)) as Dn1.
    assert (X00 : fst s 0%nat 0%nat = 0).
    { rewrite C00 in D0. apply Rmult_integral in D0. destruct D0 as [D0 | D0]; [exact D0|].
      exfalso. assert (0 < Crs 0%nat / snd s 0%nat) by (apply Rdiv_lt_0_compat; lra). lra. }
    assert (X11 : fst s 1%nat 1%nat = 0).
    { rewrite C11 in D1. apply Rmult_integral in D1. destruct D1 as [D1 | D1]; [exact D1|].
      exfalso. assert (0 < Crs 1%nat / snd s 1%nat) by (apply Rdiv_lt_0_compat; lra). lra. }
    pose proof (inv_rs _ _ Hs 0%nat ltac:(lia)) as S0. pose proof (inv_rs _ _ Hs 1%nat ltac:(lia)) as S1.
    rewrite sumR_2 in S0, S1.
    pose proof (inv_sym _ _ Hs 0 1 ltac:(lia) ltac:(lia))%nat as Sy.
    assert (E0 : snd s 0%nat = fst s 0%nat 1%nat) by lra.
    assert (E1 : snd s 1%nat = fst s 0%nat 1%nat) by lra.
    intros i j Hi Hj.
    assert (Hc : (i = 0 \/ i = 1)%nat) by lia. assert (Hc' : (j = 0 \/ j = 1)%nat) by lia.
    destruct Hc as [-> | ->], Hc' as [-> | ->].
    + rewrite X00, C00. ring.
    + rewrite E0 in *. rewrite E1 in *. field_simplify; lra.
    + rewrite <- Sy. rewrite E0 in *. rewrite E1 in *. field_simplify; lra.
    + rewrite X11, C11. ring.
  - unfold prinz_eqs. apply (fixed_point_self_consistent 2 C Crs HC s Hs Hpos Hden); [| exact Hfix].
    intros i j Hij. assert (i = 0 /\ j = 1)%nat as [-> ->] by lia. exact Ha.
Qed.

(* ------------------------------------------------------------------ strong connectivity of the count graph *)
Inductive reach (n : nat) (C : nat -> nat -> R) : nat -> nat -> Prop :=
| reach_refl i : reach n C i i
| reach_step i k j : (k < n)%nat -> 0 < C i k -> reach n C k j -> reach n C i j.

Definition strongly_connected (n : nat) (C : nat -> nat -> R) : Prop :=
  forall i j, (i < n)%nat -> (j < n)%nat -> reach n C i j.

(* a path that leaves a set of states uses an edge that leaves it *)
Lemma reach_exit n C (S : nat -> bool) i j :
  reach n C i j -> S i = true -> S j = false ->
  exists a b, S a = true /\ S b = false /\ (b < n)%nat /\ 0 < C a b.
Proof.
  induction 1 as [i | i k j Hk Hc Hr IH]; intros Hi Hj; [congruence|].
  destruct (S k) eqn:Ek.
  - apply IH; [reflexivity | exact Hj].
  - exists i, k. repeat split; assumption.
Qed.

Lemma sumR_ge_two n f a b :
  (forall k, (k < n)%nat -> 0 <= f k) -> (a < n)%nat -> (b < n)%nat -> a <> b -> f a + f b <= sumR n f.
Proof.
  intros Hf Ha Hb Hab.
  pose proof (sumR_upd n f a 0 Ha) as E.
  assert (Hg : forall k, (k < n)%nat -> 0 <= upd1 f a 0 k).
  { intros k Hk. unfold upd1. destruct (Nat.eqb k a); [lra | apply Hf; exact Hk]. }
  pose proof (sumR_ge_term n (upd1 f a 0) b Hg Hb) as G.
  rewrite upd1_other in G by (intro; apply Hab; symmetry; assumption). lra.
Qed.

Lemma sc_out_count n C Crs : CInv n C Crs -> strongly_connected n C -> (2 <= n)%nat ->
  forall i, (i < n)%nat -> 0 < Crs i - C i i.
Proof.
  intros HC Hsc Hn i Hi.
  set (j := if Nat.eqb i 0 then 1%nat else 0%nat).
  assert (Hj : (j < n)%nat /\ j <> i) by (unfold j; destruct (Nat.eqb_spec i 0); lia).
  destruct (reach_exit n C (fun x => Nat.eqb x i) i j (Hsc i j Hi (proj1 Hj))) as [a [b [Ha [Hb [Hbn Hc]]]]].
  - apply Nat.eqb_refl.
  - apply Nat.eqb_neq. tauto.
  - apply Nat.eqb_eq in Ha. apply Nat.eqb_neq in Hb. subst a.
    rewrite (c_rs _ _ _ HC i Hi).
    pose proof (sumR_ge_two n (C i) i b (fun k Hk => c_nn _ _ _ HC i k Hi Hk) Hi Hbn ltac:(auto)). lra.
Qed.

Lemma sc_pair_out_count n C Crs : CInv n C Crs -> strongly_connected n C -> (3 <= n)%nat ->
  forall i j, (i < j < n)%nat -> qa (C i j) (C j i) (Crs i) (Crs j) <> 0.
Proof.
  intros HC Hsc Hn i j Hij.
  assert (Hk : exists k, (k < n)%nat /\ k <> i /\ k <> j).
  { destruct (Nat.eq_dec i 0) as [-> |]; [destruct (Nat.eq_dec j 1) as [-> |]; [exists 2%nat | exists 1%nat] | exists 0%nat]; lia. }
  destruct Hk as [k [Hkn [Hki Hkj]]].
  destruct (reach_exit n C (fun x => Nat.eqb x i || Nat.eqb x j) i k (Hsc i k ltac:(lia) Hkn)) as [a [b [Ha [Hb [Hbn Hc]]]]].
  - rewrite Nat.eqb_refl. reflexivity.
  - apply orb_false_iff. split; apply Nat.eqb_neq; assumption.
  - apply orb_false_iff in Hb. destruct Hb as [Hbi Hbj]. apply Nat.eqb_neq in Hbi, Hbj.
    pose proof (crest_nonneg n C Crs i j HC ltac:(lia) ltac:(lia)) as Ri.
    pose proof (crest_nonneg n C Crs j i HC ltac:(lia) ltac:(lia)) as Rj.
    unfold qa. apply orb_true_iff in Ha. destruct Ha as [Ha | Ha]; apply Nat.eqb_eq in Ha; subst a.
    + rewrite (c_rs _ _ _ HC i ltac:(lia)) in *.
      pose proof (sumR_ge_two n (C i) j b (fun x Hx => c_nn _ _ _ HC i x ltac:(lia) Hx) ltac:(lia) Hbn ltac:(auto)). lra.
    + rewrite (c_rs _ _ _ HC j ltac:(lia)) in *.
      pose proof (sumR_ge_two n (C j) i b (fun x Hx => c_nn _ _ _ HC j x ltac:(lia) Hx) ltac:(lia) Hbn ltac:(auto)). lra.
Qed.

(* fixed_point_self_consistent for every strongly connected count matrix (n = 1, the a = 0 case n = 2,
   and n >= 3 where a > 0 for every pair): a sweep that changes nothing => the Prinz equations *)
Theorem sweep_fixed_self_consistent_sc n C Crs s :
  CInv n C Crs -> strongly_connected n C ->
  Inv n s -> (forall i, (i < n)%nat -> 0 < snd s i) ->
  sweep_unchanged n C Crs s -> prinz_eqs n C Crs s.
Proof.
  intros HC Hsc Hs Hpos Hun.
  destruct (le_lt_dec 3 n) as [H3 | H3].
  - apply sweep_fixed_self_consistent; try assumption.
    + apply sc_out_count; [assumption | assumption | lia].
    + apply sc_pair_out_count; assumption.
  - destruct n as [| [| [| m]]]; [| | | lia].
    + intros i j Hi; lia.
    + intros i j Hi Hj. assert (i = 0)%nat as -> by lia. assert (j = 0)%nat as -> by lia.
      pose proof (inv_rs _ _ Hs 0%nat ltac:(lia)) as S0. rewrite sumR_S, sumR_0 in S0.
      pose proof (c_rs _ _ _ HC 0%nat ltac:(lia)) as R0. rewrite sumR_S, sumR_0 in R0.
      pose proof (Hpos 0%nat ltac:(lia)) as P0.
      replace (fst s 0%nat 0%nat) with (snd s 0%nat) by lra.
      replace (C 0%nat 0%nat) with (Crs 0%nat) by lra. field. lra.
    + apply two_state_self_consistent; try assumption.
      * apply sc_out_count; [assumption | assumption | lia].
      * apply sweep_unchanged_is_fixed; assumption.
Qed.

(* the hypotheses are satisfiable: C = [[0,1],[1,0]] (a = 0), X = C + C^T = [[0,2],[2,0]] *)
Lemma a0_example :
  let C := fun (i j : nat) => if Nat.eqb i j then 0 else 1 in let Crs := fun (_ : nat) => 1 in
  let s : state R := init_state ROps 2 C in
  CInv 2 C Crs /\ strongly_connected 2 C /\ Inv 2 s /\ (forall i, (i < 2)%nat -> 0 < snd s i) /\
  qa (C 0 1 )%nat (C 1 0)%nat (Crs 0%nat) (Crs 1%nat) = 0 /\
  sweep_unchanged 2 C Crs s.
Proof.
  intros C Crs s.
  assert (HC : CInv 2 C Crs).
  { split; [intros i j _ _; unfold C; destruct (Nat.eqb i j); lra |].
    intros i Hi. rewrite sumR_2. unfold C, Crs. assert (i = 0 \/ i = 1)%nat as [-> | ->] by lia; simpl; lra. }
  assert (Hs : Inv 2 s) by (apply (init_invariant 2 C Crs HC)).
  split; [exact HC | split; [| split; [exact Hs | split; [| split]]]].
  - intros i j Hi Hj. assert (i = 0 \/ i = 1)%nat as [-> | ->] by lia; assert (j = 0 \/ j = 1)%nat as [-> | ->] by lia;
      try apply reach_refl; (eapply reach_step; [| | apply reach_refl]; [lia | unfold C; simpl; lra]).
  - intros i Hi. unfold s. cbn [init_state snd]. fold (sumR 2 (fun j => kadd ROps (C i j) (C j i))).
    rewrite sumR_2. cbn [ROps kadd]. unfold C. assert (i = 0 \/ i = 1)%nat as [-> | ->] by lia; simpl; lra.
  - unfold qa, C, Crs. simpl. lra.
  - intros i j Hi Hj.
    destruct (fixed_sweep_unchanged 2 C Crs s Hs) as [HX _]; [| apply HX].
    assert (R : forall i, (i < 2)%nat -> snd s i = 2).
    { intros k Hk. unfold s. cbn [init_state snd]. fold (sumR 2 (fun j => kadd ROps (C k j) (C j k))).
      rewrite sumR_2. cbn [ROps kadd]. unfold C. assert (k = 0 \/ k = 1)%nat as [-> | ->] by lia; simpl; lra. }
    split.
    + intros k Hk. rewrite py_diag_spec. cbn [fst]. rewrite (R k Hk). unfold s. cbn [init_state fst ROps kadd].
      unfold C, Crs. rewrite Nat.eqb_refl. destruct (Rlt_dec 0 (1 - 0)); [field | lra].
    + intros a b Hab. assert (a = 0 /\ b = 1)%nat as [-> ->] by lia.
      rewrite py_offdiag_spec.
      * cbn [fst]. unfold newv. destruct (Req_EM_T _ 0) as [_ | E]; [reflexivity|].
        exfalso. apply E. unfold qa, C, Crs. simpl. lra.
      * rewrite !R by lia. unfold qc, s. cbn [init_state fst ROps kadd]. unfold C. simpl. lra.
Qed.
