(* C18: end-to-end laws -- mutual information computed from the table the counting kernel returns,
   stated on the input data (composition of Proof/JointShape.v, JointPooled.v with InfoProofs.v).
   Over R: standard-library real-number axioms. *)
From Coq Require Import List ZArith QArith Qreals Bool Arith Lia Reals Lra Permutation.
From EV Require Import JointCounts Info JointCountsProofs InfoProofs JointShape JointPooled.
Import ListNotations.

(* empirical distribution of feature a over the n declared states: counts / number of frames *)
Definition empirical_dist (X : list (list Z)) (a : nat) (n : Z) : list R :=
  map (fun i => Q2R (qdiv (feature_count X a i) (length X))) (zrange n).

(* ================================================================== marginal distributions *)
Lemma row_dist_empirical sched X Y na nb jc a b :
  schedule_ok sched -> matrix_bincount2d_sched sched X Y na nb = Some jc ->
  (a < width X)%nat -> (b < width Y)%nat ->
  row_dist (sub2 jc a b) = empirical_dist X a na.
Proof.
  intros Hs E Ha Hb. destruct (jc_table_shape _ _ _ _ _ _ a b E Ha Hb) as (Hl & Hw & Hr).
  unfold row_dist, empirical_dist, zrange.
  rewrite map_map, Hl, (jc_table_total sched X Y na nb jc a b Hs E Ha Hb).
  apply map_ext_in. intros u Hu. apply in_seq in Hu.
  rewrite (jc_row_marginal sched X Y na nb jc a b u) by (try assumption; lia). reflexivity.
Qed.

Lemma col_dist_empirical sched X Y na nb jc a b :
  schedule_ok sched -> matrix_bincount2d_sched sched X Y na nb = Some jc ->
  (a < width X)%nat -> (b < width Y)%nat ->
  col_dist (sub2 jc a b) = empirical_dist Y b nb.
Proof.
  intros Hs E Ha Hb. destruct (jc_table_shape _ _ _ _ _ _ a b E Ha Hb) as (Hl & Hw & Hr).
  pose proof (bincount_some _ _ _ _ _ _ E) as (Hlen & _).
  unfold col_dist, empirical_dist, zrange.
  rewrite map_map, Hw, (jc_table_total sched X Y na nb jc a b Hs E Ha Hb), Hlen.
  apply map_ext_in. intros v Hv. apply in_seq in Hv.
  rewrite (jc_col_marginal sched X Y na nb jc a b v) by (try assumption; lia). reflexivity.
Qed.

(* ================================================================== a data set against itself *)
Theorem mi_self_symmetric_sched sched X n jc a b :
  schedule_ok sched -> matrix_bincount2d_sched sched X X n n = Some jc ->
  (a < width X)%nat -> (b < width X)%nat ->
  mutual_information jc b a = mutual_information jc a b.
Proof.
  intros Hs E Ha Hb. unfold mutual_information. apply mi_transpose.
  destruct (jc_table_shape _ _ _ _ _ _ a b E Ha Hb) as (Hl & Hw & Hr).
  destruct (jc_table_shape _ _ _ _ _ _ b a E Hb Ha) as (Hl' & Hw' & Hr').
  unfold is_transpose. split; [exact Hr|]. split; [exact Hr'|].
  split; [congruence|]. split; [congruence|].
  intros u v Hu Hv.
  rewrite (jc_table_cell sched X X n n jc b a v u), (jc_table_cell sched X X n n jc a b u v)
    by (try assumption; lia).
  apply jc_self_symmetric.
Qed.

Theorem mi_self_symmetric X nx ny jc a b :
  joint_counts X None nx ny = Some jc -> (a < width X)%nat -> (b < width X)%nat ->
  mutual_information jc b a = mutual_information jc a b.
Proof.
  intros E. apply joint_counts_self_inv in E. destruct E as (n & _ & E).
  apply (mi_self_symmetric_sched serial_events X n); [apply serial_schedule_ok|exact E].
Qed.

Theorem mi_self_diagonal_entropy_sched sched X n jc a :
  schedule_ok sched -> matrix_bincount2d_sched sched X X n n = Some jc -> (a < width X)%nat ->
  mutual_information jc a a = entropy_R (empirical_dist X a n).
Proof.
  intros Hs E Ha. rewrite <- (row_dist_empirical sched X X n n jc a a) by assumption.
  destruct (jc_table_shape _ _ _ _ _ _ a a E Ha Ha) as (Hl & Hw & Hr).
  unfold mutual_information. apply mi_diag_entropy; [exact Hr|congruence|].
  intros u v Hu Hv Hne.
  rewrite (jc_table_cell sched X X n n jc a a u v) by (try assumption; lia).
  apply jc_self_diagonal. lia.
Qed.

Theorem mi_self_diagonal_entropy X nx ny n jc a :
  joint_counts X None nx ny = Some jc -> default_n nx X = Some n -> (a < width X)%nat ->
  mutual_information jc a a = entropy_R (empirical_dist X a n).
Proof.
  intros E Hn. apply joint_counts_self_inv in E. destruct E as (n' & Hn' & E).
  assert (n' = n) by congruence. subst n'.
  apply (mi_self_diagonal_entropy_sched serial_events X n); [apply serial_schedule_ok|exact E].
Qed.

(* ================================================================== bounds, on the data *)
Definition transpose2 (H : tbl2) : tbl2 :=
  map (fun v => map (fun u => get2 H u v) (seq 0 (length H))) (seq 0 (width2 H)).

Lemma transpose2_ok H :
  rect2 H = true -> (0 < width2 H)%nat -> is_transpose H (transpose2 H).
Proof.
  intros Hr Hw. unfold is_transpose, transpose2.
  assert (Hw2 : width2 (map (fun v => map (fun u => get2 H u v) (seq 0 (length H))) (seq 0 (width2 H)))
                = length H).
  { destruct (width2 H) as [|k]; [lia|]. simpl. rewrite map_length, seq_length. reflexivity. }
  split; [exact Hr|]. split; [|split; [|split]].
  - unfold rect2. apply forallb_forall. intros r Hin. apply in_map_iff in Hin.
    destruct Hin as (v & <- & _). rewrite Hw2, map_length, seq_length. apply Nat.eqb_refl.
  - rewrite map_length, seq_length. reflexivity.
  - exact Hw2.
  - intros u v Hu Hv. unfold get2 at 1.
    rewrite (nth_map_in _ (seq 0 (width2 H)) v 0%nat) by (rewrite seq_length; exact Hv).
    rewrite seq_nth by exact Hv.
    rewrite (nth_map_in _ (seq 0 (length H)) u 0%nat) by (rewrite seq_length; exact Hu).
    rewrite seq_nth by exact Hu. reflexivity.
Qed.

Theorem mi_data_bounds sched X Y na nb jc a b :
  schedule_ok sched -> matrix_bincount2d_sched sched X Y na nb = Some jc ->
  (a < width X)%nat -> (b < width Y)%nat ->
  (0 <= mutual_information jc a b)%R /\
  (mutual_information jc a b <= entropy_R (empirical_dist X a na))%R /\
  (mutual_information jc a b <= entropy_R (empirical_dist Y b nb))%R.
Proof.
  intros Hs E Ha Hb. destruct (jc_table_shape _ _ _ _ _ _ a b E Ha Hb) as (Hl & Hw & Hr).
  pose proof (bincount_some _ _ _ _ _ _ E) as (_ & _ & Hvy & _).
  unfold mutual_information. split; [apply mi_nonneg; exact Hr|]. split.
  - rewrite <- (row_dist_empirical sched X Y na nb jc a b) by assumption.
    apply mi_le_row_entropy. exact Hr.
  - rewrite <- (col_dist_empirical sched X Y na nb jc a b) by assumption.
    apply (mi_le_col_entropy _ (transpose2 (sub2 jc a b))). apply transpose2_ok; [exact Hr|].
    apply valid_side_pos in Hvy. lia.
Qed.

(* ================================================================== reordering frames *)
Lemma map_fst_combine' {A B} (l1 : list A) : forall (l2 : list B),
  length l1 = length l2 -> map fst (combine l1 l2) = l1.
Proof. induction l1 as [|x r IH]; intros [|y s] H; simpl in *; try lia; auto. f_equal. apply IH. lia. Qed.

Lemma map_snd_combine' {A B} (l1 : list A) : forall (l2 : list B),
  length l1 = length l2 -> map snd (combine l1 l2) = l2.
Proof. induction l1 as [|x r IH]; intros [|y s] H; simpl in *; try lia; auto. f_equal. apply IH. lia. Qed.

Lemma valid_side_perm X X' n :
  Permutation X X' -> valid_side X n = true -> valid_side X' n = true /\ width X' = width X.
Proof.
  intros Hp Hv. apply valid_side_spec in Hv. destruct Hv as (Hr & Hne & Hall).
  assert (Hrows : forall r, In r X' -> length r = width X).
  { intros r Hin. apply rect_row; [exact Hr|]. apply (Permutation_in _ (Permutation_sym Hp)). exact Hin. }
  assert (Hcat : forall v, In v (concat X') -> In v (concat X)).
  { intros v Hv. apply in_concat in Hv. destruct Hv as (r & Hin & Hv). apply in_concat. exists r.
    split; [apply (Permutation_in _ (Permutation_sym Hp)); exact Hin|exact Hv]. }
  assert (Hcat' : forall v, In v (concat X) -> In v (concat X')).
  { intros v Hv. apply in_concat in Hv. destruct Hv as (r & Hin & Hv). apply in_concat. exists r.
    split; [apply (Permutation_in _ Hp); exact Hin|exact Hv]. }
  assert (Hw : width X' = width X).
  { destruct X' as [|r0 X'']; [|simpl; apply Hrows; left; reflexivity].
    apply Permutation_sym, Permutation_nil in Hp. subst X. exfalso. apply Hne. reflexivity. }
  split; [|exact Hw]. apply valid_side_spec. split; [|split].
  - unfold rect. apply forallb_forall. intros r Hin. rewrite Hw. apply Nat.eqb_eq, Hrows, Hin.
  - destruct (concat X) as [|v c] eqn:Ec; [congruence|].
    assert (Hin : In v (concat X')) by (apply Hcat'; left; reflexivity).
    intros Heq. rewrite Heq in Hin. contradiction.
  - intros v Hv. apply Hall, Hcat, Hv.
Qed.

(* the same reordering of the frames of both sides: still accepted, and every MI entry unchanged *)
Theorem mi_frame_order_invariant s1 s2 X Y X' Y' na nb jc :
  schedule_ok s1 -> schedule_ok s2 ->
  matrix_bincount2d_sched s1 X Y na nb = Some jc ->
  length X' = length Y' -> Permutation (combine X Y) (combine X' Y') ->
  exists jc', matrix_bincount2d_sched s2 X' Y' na nb = Some jc' /\
    forall a b, (a < width X)%nat -> (b < width Y)%nat ->
      mutual_information jc' a b = mutual_information jc a b.
Proof.
  intros H1 H2 E Hlen' Hp.
  pose proof (bincount_some _ _ _ _ _ _ E) as (Hlen & Hvx & Hvy & _).
  assert (HpX : Permutation X X').
  { rewrite <- (map_fst_combine' X Y Hlen), <- (map_fst_combine' X' Y' Hlen').
    apply Permutation_map. exact Hp. }
  assert (HpY : Permutation Y Y').
  { rewrite <- (map_snd_combine' X Y Hlen), <- (map_snd_combine' X' Y' Hlen').
    apply Permutation_map. exact Hp. }
  destruct (valid_side_perm _ _ _ HpX Hvx) as (Hvx' & Hwx).
  destruct (valid_side_perm _ _ _ HpY Hvy) as (Hvy' & Hwy).
  assert (E' : exists jc', matrix_bincount2d_sched s2 X' Y' na nb = Some jc').
  { unfold matrix_bincount2d_sched. rewrite Hlen', Nat.eqb_refl, Hvx', Hvy'. simpl. eauto. }
  destruct E' as (jc' & E'). exists jc'. split; [exact E'|].
  intros a b Ha Hb.
  destruct (jc_table_shape _ _ _ _ _ _ a b E Ha Hb) as (Hl & Hw & Hr).
  assert (Ha' : (a < width X')%nat) by lia. assert (Hb' : (b < width Y')%nat) by lia.
  destruct (jc_table_shape _ _ _ _ _ _ a b E' Ha' Hb') as (Hl' & Hw' & Hr').
  unfold mutual_information. apply mi_table_ext; try assumption; try congruence.
  intros u v Hu Hv.
  rewrite (jc_table_cell s2 X' Y' na nb jc' a b u v), (jc_table_cell s1 X Y na nb jc a b u v)
    by (try assumption; lia).
  symmetry. apply jc_perm; assumption.
Qed.

(* ================================================================== relabelling states *)
(* a relabelling of the n declared states: injective and mapping 0..n-1 into 0..n-1 *)
Definition relabel_ok (s : Z -> Z) (n : Z) : Prop :=
  (forall u v, s u = s v -> u = v) /\ (forall u, (0 <= u < n)%Z -> (0 <= s u < n)%Z).

Lemma valid_side_relabel s X n :
  relabel_ok s n -> valid_side X n = true ->
  valid_side (map (map s) X) n = true /\ width (map (map s) X) = width X.
Proof.
  intros (_ & Hrange) Hv. apply valid_side_spec in Hv. destruct Hv as (Hr & Hne & Hall).
  assert (Hw : width (map (map s) X) = width X).
  { destruct X as [|r0 X']; simpl; [reflexivity|apply map_length]. }
  split; [|exact Hw]. apply valid_side_spec. split; [|split].
  - unfold rect. apply forallb_forall. intros r Hin. apply in_map_iff in Hin.
    destruct Hin as (r' & <- & Hin). rewrite Hw, map_length. apply Nat.eqb_eq, rect_row; assumption.
  - rewrite <- concat_map. destruct (concat X); [congruence|discriminate].
  - intros v Hv. rewrite <- concat_map in Hv. apply in_map_iff in Hv. destruct Hv as (v' & <- & Hv).
    apply Hrange, Hall, Hv.
Qed.

Lemma NoDup_map_on {A B} (f : A -> B) l :
  NoDup l -> (forall x y, In x l -> In y l -> f x = f y -> x = y) -> NoDup (map f l).
Proof.
  induction 1 as [|x r Hnotin Hnd IH]; intros Hinj; simpl; constructor.
  - intros Hin. apply in_map_iff in Hin. destruct Hin as (y & Heq & Hy).
    assert (y = x) by (apply Hinj; [right; exact Hy|left; reflexivity|exact Heq]). subst y. contradiction.
  - apply IH. intros a b Ha Hb. apply Hinj; right; assumption.
Qed.

Lemma relabel_is_perm s n :
  relabel_ok s n -> is_perm (fun u => Z.to_nat (s (Z.of_nat u))) (Z.to_nat n).
Proof.
  intros (Hinj & Hrange). unfold is_perm. apply NoDup_Permutation_bis.
  - apply NoDup_map_on; [apply seq_NoDup|]. intros x y Hx Hy Heq.
    apply in_seq in Hx. apply in_seq in Hy.
    pose proof (Hrange (Z.of_nat x) ltac:(lia)). pose proof (Hrange (Z.of_nat y) ltac:(lia)).
    apply Nat2Z.inj, Hinj. lia.
  - rewrite map_length. apply Nat.le_refl.
  - intros y Hy. apply in_map_iff in Hy. destruct Hy as (u & <- & Hu). apply in_seq in Hu.
    pose proof (Hrange (Z.of_nat u) ltac:(lia)). apply in_seq. lia.
Qed.

(* relabelling the states of both sides: still accepted, every MI entry unchanged *)
Theorem mi_relabel_e2e sched X Y na nb jc (s t : Z -> Z) :
  schedule_ok sched -> matrix_bincount2d_sched sched X Y na nb = Some jc ->
  relabel_ok s na -> relabel_ok t nb ->
  exists jc', matrix_bincount2d_sched sched (map (map s) X) (map (map t) Y) na nb = Some jc' /\
    forall a b, (a < width X)%nat -> (b < width Y)%nat ->
      mutual_information jc' a b = mutual_information jc a b.
Proof.
  intros Hs E Hrs Hrt.
  pose proof (bincount_some _ _ _ _ _ _ E) as (Hlen & Hvx & Hvy & _).
  destruct (valid_side_relabel s X na Hrs Hvx) as (Hvx' & Hwx).
  destruct (valid_side_relabel t Y nb Hrt Hvy) as (Hvy' & Hwy).
  assert (E' : exists jc', matrix_bincount2d_sched sched (map (map s) X) (map (map t) Y) na nb = Some jc').
  { unfold matrix_bincount2d_sched. rewrite !map_length, Hlen, Nat.eqb_refl, Hvx', Hvy'. simpl. eauto. }
  destruct E' as (jc' & E'). exists jc'. split; [exact E'|].
  intros a b Ha Hb.
  destruct (jc_table_shape _ _ _ _ _ _ a b E Ha Hb) as (Hl & Hw & Hr).
  assert (Ha' : (a < width (map (map s) X))%nat) by lia.
  assert (Hb' : (b < width (map (map t) Y))%nat) by lia.
  destruct (jc_table_shape _ _ _ _ _ _ a b E' Ha' Hb') as (Hl' & Hw' & Hr').
  unfold mutual_information. symmetry.
  apply (mi_relabel_invariant (fun u => Z.to_nat (s (Z.of_nat u))) (fun v => Z.to_nat (t (Z.of_nat v)))).
  unfold relabelled. split; [exact Hr'|]. split; [exact Hr|]. split; [congruence|]. split; [congruence|].
  split; [rewrite Hl'; apply relabel_is_perm; exact Hrs|].
  split; [rewrite Hw'; apply relabel_is_perm; exact Hrt|].
  intros u v Hu Hv. destruct Hrs as (Hinj_s & Hrange_s). destruct Hrt as (Hinj_t & Hrange_t).
  pose proof (Hrange_s (Z.of_nat u) ltac:(lia)) as Hsu.
  pose proof (Hrange_t (Z.of_nat v) ltac:(lia)) as Htv.
  apply valid_side_spec in Hvx. destruct Hvx as (Hrx & _).
  apply valid_side_spec in Hvy. destruct Hvy as (Hry & _).
  rewrite (jc_table_cell sched X Y na nb jc a b u v) by (try assumption; lia).
  rewrite (jc_table_cell sched _ _ na nb jc' a b _ _ Hs E' Ha' Hb') by lia.
  rewrite !Z2Nat.id by lia.
  rewrite (jc_relabel_x s X (map (map t) Y) a b _ _ Hinj_s Hrx Ha).
  rewrite (jc_relabel_y t X Y a b _ _ Hinj_t Hry Hb Hlen). reflexivity.
Qed.

(* ================================================================== pooled trajectories *)
(* mi_matrix: MI of the pooled table = MI of the table of the concatenated trajectories *)
Theorem mi_pooled_concat X0 Y0 rest nx ny J :
  pooled_counts ((X0, Y0) :: rest) nx ny = Some J ->
  exists Jc,
    matrix_bincount2d (concat (map fst ((X0, Y0) :: rest))) (concat (map snd ((X0, Y0) :: rest))) nx ny
      = Some Jc /\
    forall a b, (a < width X0)%nat -> (b < width Y0)%nat ->
      mutual_information J a b = mutual_information Jc a b.
Proof.
  intros E. destruct (pooled_concat_accepted _ _ _ _ _ _ E) as (Jc & Ec & Hwx & Hwy & _).
  exists Jc. split; [exact Ec|]. intros a b Ha Hb.
  destruct (pooled_table_shape _ _ _ _ _ _ a b E Ha Hb) as (Hl & Hw & Hr).
  assert (Ha' : (a < width (concat (map fst ((X0, Y0) :: rest))))%nat) by lia.
  assert (Hb' : (b < width (concat (map snd ((X0, Y0) :: rest))))%nat) by lia.
  destruct (jc_table_shape _ _ _ _ _ _ a b Ec Ha' Hb') as (Hl' & Hw' & Hr').
  unfold mutual_information. apply mi_table_ext; try assumption; try congruence.
  intros u v Hu Hv.
  rewrite (pooled_table_cell X0 Y0 rest nx ny J a b u v E Ha Hb) by lia.
  rewrite (jc_table_cell serial_events _ _ nx ny Jc a b u v serial_schedule_ok Ec Ha' Hb') by lia.
  reflexivity.
Qed.

(* ================================================================== weighted estimator *)
Lemma Qeq_bool_mult_zero x y : Qeq_bool (x * y) 0 = Qeq_bool x 0 || Qeq_bool y 0.
Proof.
  apply eq_true_iff_eq. rewrite orb_true_iff, !Qeq_bool_iff. split.
  - apply Qmult_integral.
  - intros [H|H]; rewrite H; ring.
Qed.

Lemma Qeq_bool_div_zero x d : ~ d == 0 -> Qeq_bool (x / d) 0 = Qeq_bool x 0.
Proof.
  intros Hd. apply eq_true_iff_eq. rewrite !Qeq_bool_iff. split.
  - intros H. rewrite <- (Qmult_div_r x d Hd), H. ring.
  - intros H. rewrite H. unfold Qdiv. ring.
Qed.

(* the two guards select the same cells: weighted_mi's cell is mutual_information's cell *)
Lemma wmi_cellq_eq pj px py : wmi_cellq pj px py = mi_cellq pj px py.
Proof.
  unfold wmi_cellq, mi_cellq, undefq. rewrite Qeq_bool_mult_zero.
  destruct (Qeq_bool px 0) eqn:Ex; [rewrite orb_true_r; reflexivity|].
  destruct (Qeq_bool py 0) eqn:Ey; [rewrite !orb_true_r; reflexivity|].
  cbn [orb]. rewrite Qeq_bool_div_zero; [rewrite !orb_false_r; reflexivity|].
  intros H. apply Qmult_integral in H.
  destruct H as [H|H]; apply Qeq_bool_iff in H; congruence.
Qed.

Lemma Qeq_bool_zero_comp x y : x == y -> Qeq_bool x 0 = Qeq_bool y 0.
Proof. intros H. apply eq_true_iff_eq. rewrite !Qeq_bool_iff, H. reflexivity. Qed.

Lemma mi_cellq_comp p p' px px' py py' :
  p == p' -> px == px' -> py == py' -> mi_cellq p px py = mi_cellq p' px' py'.
Proof.
  intros H1 H2 H3. unfold mi_cellq, undefq.
  rewrite (Qeq_bool_zero_comp _ _ H1), (Qeq_bool_zero_comp _ _ H2), (Qeq_bool_zero_comp _ _ H3).
  rewrite (Qeq_eqR _ _ H1), (Qeq_eqR _ _ H2), (Qeq_eqR _ _ H3). reflexivity.
Qed.

Lemma Rsum_zrange n (f : Z -> R) :
  Rsum (map f (zrange n)) = rsum (Z.to_nat n) (fun k => f (Z.of_nat k)).
Proof. unfold zrange. rewrite map_map, rsum_Rsum. reflexivity. Qed.

(* uniform weights 1/T: the clipped value weighted_mi returns is the value mutual_information
   returns on the joint counts of the same data *)
Theorem weighted_uniform_mi_sched sched X n jc a b :
  schedule_ok sched -> matrix_bincount2d_sched sched X X n n = Some jc ->
  (a < width X)%nat -> (b < width X)%nat ->
  weighted_mi_R X (repeat (1 # Pos.of_nat (length X)) (length X)) n a b = mutual_information jc a b.
Proof.
  intros Hs E Ha Hb.
  destruct (jc_table_shape _ _ _ _ _ _ a b E Ha Hb) as (Hl & Hw & Hr).
  pose proof (bincount_some _ _ _ _ _ _ E) as (_ & Hvx & _ & _).
  pose proof (valid_side_nonempty _ _ Hvx) as HT.
  unfold weighted_mi_R, mutual_information.
  assert (Hsum : Rsum (map (fun u => Rsum (map (fun v =>
             wmi_cellq (wjoint X (repeat (1 # Pos.of_nat (length X)) (length X)) a b u v)
                       (wmarg X (repeat (1 # Pos.of_nat (length X)) (length X)) a u)
                       (wmarg X (repeat (1 # Pos.of_nat (length X)) (length X)) b v)) (zrange n))) (zrange n))
          = mi_of_counts (sub2 jc a b)).
  { rewrite Rsum_zrange. unfold mi_of_counts. rewrite Hl, Hw.
    apply rsum_ext. intros u Hu. rewrite Rsum_zrange. apply rsum_ext. intros v Hv.
    rewrite wmi_cellq_eq.
    rewrite (jc_table_cell sched X X n n jc a b u v) by (try assumption; lia).
    rewrite (jc_row_marginal sched X X n n jc a b u) by (try assumption; lia).
    rewrite (jc_col_marginal sched X X n n jc a b v) by (try assumption; lia).
    rewrite (jc_table_total sched X X n n jc a b) by assumption.
    destruct (weighted_uniform_eq X a b (Z.of_nat u) (Z.of_nat v) HT) as (Hj & Hma).
    destruct (weighted_uniform_eq X b a (Z.of_nat v) (Z.of_nat u) HT) as (_ & Hmb).
    apply mi_cellq_comp; [exact Hj|exact Hma|exact Hmb]. }
  rewrite Hsum. apply Rmax_right. apply mi_nonneg. exact Hr.
Qed.

Theorem weighted_uniform_mi X n ny jc a b :
  joint_counts X None (Some n) ny = Some jc -> (a < width X)%nat -> (b < width X)%nat ->
  weighted_mi_R X (repeat (1 # Pos.of_nat (length X)) (length X)) n a b = mutual_information jc a b.
Proof.
  intros E. apply joint_counts_self_inv in E. destruct E as (n' & Hn & E). simpl in Hn.
  inversion Hn; subst n'.
  apply (weighted_uniform_mi_sched serial_events X n); [apply serial_schedule_ok|exact E].
Qed.

(* ================================================================== non-vacuity *)
Lemma example_relabel_ok :
  relabel_ok (fun u => if (0 <=? u)%Z && (u <? 2)%Z then (1 - u)%Z else u) 2.
Proof.
  split.
  - intros u v. destruct (Z.leb_spec 0 u), (Z.ltb_spec u 2), (Z.leb_spec 0 v), (Z.ltb_spec v 2);
      cbn [andb]; lia.
  - intros u Hu. destruct (Z.leb_spec 0 u), (Z.ltb_spec u 2); cbn [andb]; lia.
Qed.

(* ================================================================== the public wrapper joint_counts *)
Theorem mi_frame_order_invariant_two X Y X' Y' na nb jc :
  joint_counts X (Some Y) (Some na) (Some nb) = Some jc ->
  length X' = length Y' -> Permutation (combine X Y) (combine X' Y') ->
  exists jc', joint_counts X' (Some Y') (Some na) (Some nb) = Some jc' /\
    forall a b, (a < width X)%nat -> (b < width Y)%nat ->
      mutual_information jc' a b = mutual_information jc a b.
Proof.
  exact (mi_frame_order_invariant serial_events serial_events X Y X' Y' na nb jc
           serial_schedule_ok serial_schedule_ok).
Qed.

Theorem mi_frame_order_invariant_self X X' n ny jc :
  joint_counts X None (Some n) ny = Some jc -> Permutation X X' ->
  exists jc', joint_counts X' None (Some n) ny = Some jc' /\
    forall a b, (a < width X)%nat -> (b < width X)%nat ->
      mutual_information jc' a b = mutual_information jc a b.
Proof.
  intros E Hp.
  apply (mi_frame_order_invariant serial_events serial_events X X X' X' n n jc
           serial_schedule_ok serial_schedule_ok E eq_refl).
  rewrite !combine_self. apply Permutation_map. exact Hp.
Qed.

Theorem mi_relabel_invariant_two X Y na nb jc (s t : Z -> Z) :
  joint_counts X (Some Y) (Some na) (Some nb) = Some jc -> relabel_ok s na -> relabel_ok t nb ->
  exists jc', joint_counts (map (map s) X) (Some (map (map t) Y)) (Some na) (Some nb) = Some jc' /\
    forall a b, (a < width X)%nat -> (b < width Y)%nat ->
      mutual_information jc' a b = mutual_information jc a b.
Proof. exact (mi_relabel_e2e serial_events X Y na nb jc s t serial_schedule_ok). Qed.

Theorem mi_relabel_invariant_self X n ny jc (s : Z -> Z) :
  joint_counts X None (Some n) ny = Some jc -> relabel_ok s n ->
  exists jc', joint_counts (map (map s) X) None (Some n) ny = Some jc' /\
    forall a b, (a < width X)%nat -> (b < width X)%nat ->
      mutual_information jc' a b = mutual_information jc a b.
Proof. intros E Hs. exact (mi_relabel_e2e serial_events X X n n jc s s serial_schedule_ok E Hs Hs). Qed.
