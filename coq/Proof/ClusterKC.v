(* C02: k-centers picks farthest points, never widens the radius, stops exactly on cue,
   the triangle-inequality shortcut changes nothing, Gonzalez 2-approximation. *)
From Coq Require Import List ZArith QArith Bool Arith Lia Lqa.
From EV Require Import Cluster ClusterBase ClusterInv.
Import ListNotations.

Section KC.
  Variable D : nat -> nat -> Q.
  Hypothesis D_self : forall f, D f f == 0.
  Hypothesis D_pos : forall c f, c <> f -> 0 < D c f.
  Notation Inv := (Inv D).
  Notation frame_ok := (frame_ok D).
  Notation center_ok := (center_ok D).

  (* guarded iterations from s to s' (the code's while loop, unrolled) *)
  Inductive steps (nclu : option nat) (cutoff : Q) (ti : bool) : st -> st -> Prop :=
  | steps_refl s : steps nclu cutoff ti s s
  | steps_step s s' : kc_guard nclu cutoff s = true -> steps nclu cutoff ti (kc_iter D ti s) s' ->
                      steps nclu cutoff ti s s'.

  Lemma kc_loop_steps nclu cutoff ti fuel : forall s, steps nclu cutoff ti s (kc_loop D fuel nclu cutoff ti s).
  Proof.
    induction fuel as [|fuel IH]; intros s; cbn [kc_loop]; [constructor|].
    destruct (kc_guard nclu cutoff s) eqn:G; [|constructor].
    apply steps_step; [exact G|apply IH].
  Qed.

  (* ---- greedy choice *)
  Lemma snd_nonempty n s : Inv n s -> snd s <> [].
  Proof.
    intros [_ [Hlt [Hne [Hfid _]]]] E. rewrite E in Hfid. cbn in Hfid.
    destruct (fst s) as [|c cs]; [congruence|]. specialize (Hlt c (or_introl eq_refl)).
    destruct n; [lia|discriminate].
  Qed.

  Lemma kc_iter_greedy n s ti :
    Inv n s ->
    exists m, In m (snd s) /\ (forall x, In x (snd s) -> dist x <= dist m) /\ dist m = maxdist (snd s) /\
              fst (kc_iter D ti s) = fst s ++ [fid m].
  Proof.
    intros HI. unfold kc_iter. destruct (argmax (snd s)) as [m|] eqn:Ha.
    - destruct (argmax_spec _ _ Ha) as [Hm Hmax]. exists m. repeat split; auto.
      symmetry. apply maxdist_argmax. exact Ha.
    - apply argmax_none in Ha. exfalso. apply (snd_nonempty n s HI Ha).
  Qed.

  Lemma steps_prefix nclu cutoff ti s s' : steps nclu cutoff ti s s' -> exists ext, fst s' = fst s ++ ext.
  Proof.
    induction 1 as [s|s s' G H IH]; [exists []; rewrite app_nil_r; reflexivity|].
    destruct IH as [ext E]. unfold kc_iter in E.
    destruct (argmax (snd s)) as [m|]; cbn [fst] in E.
    - exists ([fid m] ++ ext). rewrite E. rewrite app_assoc. reflexivity.
    - exists ext. exact E.
  Qed.

  (* ---- the radius never grows *)
  Lemma maxdist_in l : l <> [] -> exists m, In m l /\ maxdist l = dist m /\ forall x, In x l -> dist x <= dist m.
  Proof.
    intros Hne. destruct (argmax l) as [m|] eqn:Ha.
    - destruct (argmax_spec _ _ Ha) as [Hm Hmax]. exists m. repeat split; auto. apply maxdist_argmax. exact Ha.
    - apply argmax_none in Ha. congruence.
  Qed.

  Lemma maxdist_map_le (g : fr -> fr) l :
    (forall x, In x l -> dist (g x) <= dist x) -> maxdist (map g l) <= maxdist l.
  Proof.
    intros H. destruct l as [|y l]; [cbn; lra|].
    destruct (maxdist_in (map g (y :: l))) as [m' [Hm' [E' _]]]; [discriminate|].
    destruct (maxdist_in (y :: l)) as [m [Hm [E Hmax]]]; [discriminate|].
    rewrite E', E. apply in_map_iff in Hm'. destruct Hm' as [x [<- Hx]].
    specialize (H x Hx). specialize (Hmax x Hx). lra.
  Qed.

  Lemma kc_update_ti_dist_le cs c k x : dist (kc_update_ti D cs c k x) <= dist x.
  Proof.
    unfold kc_update_ti. destruct (Qlt_b _ _); [apply kc_update_dist_le|lra].
  Qed.

  Theorem kc_iter_radius_antitone ti s : maxdist (snd (kc_iter D ti s)) <= maxdist (snd s).
  Proof.
    unfold kc_iter. destruct (argmax (snd s)) as [m|]; [|lra]. cbn [snd].
    apply maxdist_map_le. intros x _. destruct ti; [apply kc_update_ti_dist_le|apply kc_update_dist_le].
  Qed.

  Lemma kc_iter_dist_pointwise ti s :
    length (snd (kc_iter D ti s)) = length (snd s) /\
    forall i d, dist (nth i (snd (kc_iter D ti s)) d) <= dist (nth i (snd s) d).
  Proof.
    unfold kc_iter. destruct (argmax (snd s)) as [m|]; [|split; [reflexivity|intros; lra]]. cbn [snd].
    split; [apply map_length|]. intros i d.
    destruct (Nat.lt_ge_cases i (length (snd s))) as [Hi|Hi].
    - rewrite (nth_indep _ d ((if ti then kc_update_ti D (fst s) (fid m) (length (fst s))
                                else kc_update D (fid m) (length (fst s))) d))
        by (rewrite map_length; exact Hi).
      rewrite map_nth. destruct ti; [apply kc_update_ti_dist_le|apply kc_update_dist_le].
    - rewrite !nth_overflow by (rewrite ?map_length; lia). lra.
  Qed.

  Theorem steps_radius_antitone nclu cutoff ti s s' :
    steps nclu cutoff ti s s' -> maxdist (snd s') <= maxdist (snd s).
  Proof.
    induction 1 as [s|s s' G H IH]; [lra|]. pose proof (kc_iter_radius_antitone ti s). lra.
  Qed.

  (* ---- exact stopping *)
  Lemma all_centers_radius_zero n s : Inv n s -> length (fst s) = n -> maxdist (snd s) == 0.
  Proof.
    intros HI Hlen. pose proof HI as [ND [Hlt [Hne [Hfid [Hfr Hce]]]]].
    destruct (maxdist_in (snd s) (snd_nonempty n s HI)) as [m [Hm [E _]]]. rewrite E.
    assert (Hin : In (fid m) (fst s)).
    { apply (NoDup_length_incl ND (l' := seq 0 n)).
      - rewrite seq_length. lia.
      - intros c Hc. apply in_seq. specialize (Hlt c Hc). lia.
      - apply in_seq. pose proof (fid_lt D n s m HI Hm). lia. }
    destruct (in_ctr _ _ Hin) as [j [Hj Ej]]. rewrite Forall_forall in Hce.
    apply (Hce m Hm j Hj Ej).
  Qed.

  Lemma kc_iter_length n s ti : Inv n s -> length (fst (kc_iter D ti s)) = S (length (fst s)).
  Proof.
    intros HI. destruct (kc_iter_greedy n s ti HI) as [m [_ [_ [_ E]]]]. rewrite E, app_length. cbn. lia.
  Qed.

  Lemma centers_le_n n s : Inv n s -> (length (fst s) <= n)%nat.
  Proof.
    intros [ND [Hlt _]]. rewrite <- (seq_length n 0). apply NoDup_incl_length; [exact ND|].
    intros c Hc. apply in_seq. specialize (Hlt c Hc). lia.
  Qed.

  Theorem kc_loop_stops nclu cutoff ti : (ti = true -> metric_sym D /\ metric_tri D) -> 0 <= cutoff ->
    forall fuel n s, Inv n s -> (n - length (fst s) < fuel)%nat ->
    kc_guard nclu cutoff (kc_loop D fuel nclu cutoff ti s) = false.
  Proof.
    intros Hti Hc. induction fuel as [|fuel IH]; intros n s HI Hf; [lia|]. cbn [kc_loop].
    destruct (kc_guard nclu cutoff s) eqn:G; [|exact G].
    pose proof (centers_le_n n s HI) as Hle.
    destruct (Nat.eq_dec (length (fst s)) n) as [E|NE].
    - (* every frame is a centre: radius 0, guard cannot hold *)
      exfalso. unfold kc_guard in G. apply andb_prop in G. destruct G as [_ G]. apply Qlt_b_true in G.
      pose proof (all_centers_radius_zero n s HI E). lra.
    - apply (IH n).
      + apply (kc_iter_inv_ti D D_self D_pos n s nclu cutoff ti); assumption.
      + rewrite (kc_iter_length n s ti HI). lia.
  Qed.

  (* ---- triangle-inequality shortcut: same run *)
  Theorem kc_loop_ti_equiv nclu cutoff : metric_sym D -> metric_tri D -> 0 <= cutoff ->
    forall fuel n s, Inv n s -> kc_loop D fuel nclu cutoff true s = kc_loop D fuel nclu cutoff false s.
  Proof.
    intros Hs Ht Hc. induction fuel as [|fuel IH]; intros n s HI; cbn [kc_loop]; [reflexivity|].
    destruct (kc_guard nclu cutoff s) eqn:G; [|reflexivity].
    rewrite (kc_iter_ti_eq D n s Hs Ht HI). apply (IH n).
    apply (kc_iter_inv D D_self D_pos n s nclu cutoff); assumption.
  Qed.

  (* ---- Gonzalez: centres stay pairwise at least the current radius apart *)
  Definition spread (s : st) : Prop :=
    forall i j, (i < length (fst s))%nat -> (j < length (fst s))%nat -> i <> j ->
                maxdist (snd s) <= D (ctr (fst s) i) (ctr (fst s) j).

  Lemma kc_iter_spread n s nclu cutoff :
    metric_sym D -> 0 <= cutoff -> Inv n s -> kc_guard nclu cutoff s = true -> spread s ->
    spread (kc_iter D false s).
  Proof.
    intros Hs Hc HI G Hsp.
    pose proof (kc_iter_radius_antitone false s) as Hr.
    destruct (kc_iter_greedy n s false HI) as [m [Hm [Hmax [Em E]]]].
    rewrite <- Em in Hr. unfold spread in Hsp. rewrite <- Em in Hsp.
    pose proof HI as [_ [_ [_ [_ [Hfr _]]]]]. rewrite Forall_forall in Hfr.
    destruct (Hfr m Hm) as [_ [_ Hmin]].
    intros i j Hi Hj Hij. rewrite E in *. rewrite app_length in Hi, Hj. cbn [length] in Hi, Hj.
    set (k := length (fst s)) in *.
    destruct (Nat.eq_dec i k) as [->|Hik]; destruct (Nat.eq_dec j k) as [->|Hjk]; try congruence.
    - rewrite ctr_app_new, ctr_app_old by lia. specialize (Hmin j ltac:(lia)).
      pose proof (Hs (fid m) (ctr (fst s) j)). lra.
    - rewrite ctr_app_new, ctr_app_old by lia. specialize (Hmin i ltac:(lia)). lra.
    - rewrite !ctr_app_old by lia. specialize (Hsp i j ltac:(lia) ltac:(lia) Hij). lra.
  Qed.

  Lemma kc_loop_spread nclu cutoff : metric_sym D -> 0 <= cutoff ->
    forall fuel n s, Inv n s -> spread s -> spread (kc_loop D fuel nclu cutoff false s).
  Proof.
    intros Hs Hc. induction fuel as [|fuel IH]; intros n s HI Hsp; cbn [kc_loop]; [exact Hsp|].
    destruct (kc_guard nclu cutoff s) eqn:G; [|exact Hsp].
    apply (IH n).
    - apply (kc_iter_inv D D_self D_pos n s nclu cutoff); assumption.
    - apply (kc_iter_spread n s nclu cutoff); assumption.
  Qed.

  (* a duplicate exists in any list of naturals that is not duplicate-free *)
  Lemma dup_split (l : list nat) : ~ NoDup l -> exists a l1 l2 l3, l = l1 ++ a :: l2 ++ a :: l3.
  Proof.
    induction l as [|a l IH]; intros H; [exfalso; apply H; constructor|].
    destruct (in_dec Nat.eq_dec a l) as [Hin|Hnin].
    - destruct (in_split _ _ Hin) as [l2 [l3 ->]]. exists a, [], l2, l3. reflexivity.
    - destruct IH as [b [l1 [l2 [l3 ->]]]].
      + intros ND. apply H. constructor; assumption.
      + exists b, (a :: l1), l2, l3. reflexivity.
  Qed.

  (* covering: every frame is within rho of some member of S *)
  Definition covers (Sc : list nat) (rho : Q) (n : nat) : Prop :=
    forall f, (f < n)%nat -> exists c, In c Sc /\ D c f <= rho.

  Definition cover_of (Sc : list nat) (rho : Q) (f : nat) : option nat :=
    find (fun c => Qle_bool (D c f) rho) Sc.

  Lemma cover_of_some Sc rho n f : covers Sc rho n -> (f < n)%nat ->
    exists c, cover_of Sc rho f = Some c /\ In c Sc /\ D c f <= rho.
  Proof.
    intros Hc Hf. destruct (Hc f Hf) as [c [Hin Hle]]. unfold cover_of.
    destruct (find (fun c0 => Qle_bool (D c0 f) rho) Sc) as [c'|] eqn:E.
    - apply find_some in E. destruct E as [Hin' Hb]. apply Qle_bool_iff in Hb. exists c'. auto.
    - exfalso. pose proof (find_none _ _ E c Hin) as Hb. cbn in Hb.
      apply Qle_bool_iff in Hle. congruence.
  Qed.

  (* two of k+1 points share a covering centre when |S| <= k *)
  Lemma pigeon Sc rho n (pts : list nat) :
    covers Sc rho n -> (forall p, In p pts -> (p < n)%nat) -> (length Sc < length pts)%nat ->
    exists i j c, (i < j < length pts)%nat /\ In c Sc /\
                  D c (nth i pts 0%nat) <= rho /\ D c (nth j pts 0%nat) <= rho.
  Proof.
    intros Hc Hp Hlen.
    set (g := fun p => match cover_of Sc rho p with Some c => c | None => 0%nat end).
    assert (Hg : forall p, In p pts -> In (g p) Sc /\ D (g p) p <= rho).
    { intros p Hin. destruct (cover_of_some Sc rho n p Hc (Hp p Hin)) as [c [E [H1 H2]]].
      unfold g. rewrite E. auto. }
    assert (HnND : ~ NoDup (map g pts)).
    { intros ND. assert (Hle : (length (map g pts) <= length Sc)%nat).
      { apply (NoDup_incl_length ND). intros c Hin. apply in_map_iff in Hin.
        destruct Hin as [p [<- Hin]]. apply (Hg p Hin). }
      rewrite map_length in Hle. lia. }
    destruct (dup_split _ HnND) as [a [l1 [l2 [l3 E]]]].
    exists (length l1), (length l1 + S (length l2))%nat, a.
    assert (Hlen' : length (map g pts) = (length l1 + S (length l2 + S (length l3)))%nat).
    { rewrite E, !app_length. cbn [length]. rewrite app_length. cbn [length]. lia. }
    rewrite map_length in Hlen'.
    assert (Ei : nth (length l1) (map g pts) 0%nat = a).
    { rewrite E. rewrite app_nth2 by lia. rewrite Nat.sub_diag. reflexivity. }
    assert (Ej : nth (length l1 + S (length l2)) (map g pts) 0%nat = a).
    { rewrite E. rewrite app_nth2 by lia. replace (length l1 + S (length l2) - length l1)%nat with (S (length l2)) by lia.
      cbn [nth]. rewrite app_nth2 by lia. rewrite Nat.sub_diag. reflexivity. }
    assert (Gi : forall i, (i < length pts)%nat -> nth i (map g pts) 0%nat = g (nth i pts 0%nat)).
    { intros i Hi. rewrite (nth_indep _ 0%nat (g 0%nat)) by (rewrite map_length; exact Hi). apply map_nth. }
    rewrite Gi in Ei, Ej by lia.
    assert (Hi : In (nth (length l1) pts 0%nat) pts) by (apply nth_In; lia).
    assert (Hj : In (nth (length l1 + S (length l2)) pts 0%nat) pts) by (apply nth_In; lia).
    destruct (Hg _ Hi) as [Hin1 Hle1]. destruct (Hg _ Hj) as [_ Hle2].
    rewrite Ei in Hin1, Hle1. rewrite Ej in Hle2.
    split; [lia|]. split; [exact Hin1|]. split; assumption.
  Qed.

  Theorem two_approx n s Sc rho :
    metric_sym D -> metric_tri D -> Inv n s -> spread s ->
    (length Sc <= length (fst s))%nat -> covers Sc rho n ->
    maxdist (snd s) <= (2#1) * rho.
  Proof.
    intros Hs Ht HI Hsp HSc Hcov.
    destruct (maxdist_in (snd s) (snd_nonempty n s HI)) as [m [Hm [E Hmax]]].
    pose proof HI as [ND [Hlt [Hne [Hfid [Hfr Hce]]]]]. rewrite Forall_forall in Hfr.
    destruct (Hfr m Hm) as [_ [_ Hmin]].
    set (k := length (fst s)) in *.
    destruct (pigeon Sc rho n (fst s ++ [fid m])) as [i [j [c [Hij [Hc [Hi Hj]]]]]].
    - exact Hcov.
    - intros p Hp. apply in_app_or in Hp. destruct Hp as [Hp|[<-|[]]]; [apply Hlt; exact Hp|].
      apply (fid_lt D n s m HI Hm).
    - rewrite app_length. cbn [length]. lia.
    - rewrite app_length in Hij. cbn [length] in Hij. fold k in Hij.
      assert (Hd : maxdist (snd s) <= D (nth i (fst s ++ [fid m]) 0%nat) (nth j (fst s ++ [fid m]) 0%nat)).
      { destruct (Nat.eq_dec j k) as [->|Hjk].
        - change (nth ?x ?l 0%nat) with (ctr l x). rewrite ctr_app_new, ctr_app_old by lia.
          rewrite E. apply Hmin. lia.
        - change (nth ?x ?l 0%nat) with (ctr l x). rewrite !ctr_app_old by lia.
          apply Hsp; lia. }
      pose proof (Ht (nth i (fst s ++ [fid m]) 0%nat) c (nth j (fst s ++ [fid m]) 0%nat)) as T.
      pose proof (Hs (nth i (fst s ++ [fid m]) 0%nat) c) as S1. lra.
  Qed.
End KC.
