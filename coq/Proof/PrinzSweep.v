(* C12: the loop skeleton with the generated updates plugged in, over R: the running row sums stay
   the true row sums, X stays symmetric and non-negative, the guarded quantity c stays <= 0 (the
   clamp is idle in exact arithmetic), and a fixed point satisfies the Prinz equations. *)
From Coq Require Import List ZArith Reals Lra Lia Bool Arith.
From EV Require Import Prinz PrinzGen PrinzProofs.
Import ListNotations.
Open Scope R_scope.

(* ------------------------------------------------------------------ sums *)
Definition sumR (n : nat) (f : nat -> R) : R := sumK ROps n f.

Lemma sumR_0 f : sumR 0 f = 0.
Proof. reflexivity. Qed.
Lemma sumR_S n f : sumR (S n) f = sumR n f + f n.
Proof.
  unfold sumR, sumK. rewrite seq_S, fold_left_app. reflexivity.
Qed.
Lemma sumR_ext n f g : (forall k, (k < n)%nat -> f k = g k) -> sumR n f = sumR n g.
Proof.
  induction n as [|n IH]; intros H; [reflexivity|].
  rewrite !sumR_S, IH by (intros; apply H; lia). rewrite H by lia. reflexivity.
Qed.
Lemma upd1_same {K} (f : nat -> K) i v : upd1 f i v i = v.
Proof. unfold upd1. rewrite Nat.eqb_refl. reflexivity. Qed.
Lemma upd1_other {K} (f : nat -> K) i v a : a <> i -> upd1 f i v a = f a.
Proof. intros H. unfold upd1. destruct (Nat.eqb_spec a i); [contradiction | reflexivity]. Qed.
Lemma sumR_upd n f j v : (j < n)%nat -> sumR n (upd1 f j v) = sumR n f + (v - f j).
Proof.
  induction n as [|n IH]; intros H; [lia|].
  rewrite !sumR_S. destruct (Nat.eq_dec j n) as [-> | Hne].
  - rewrite upd1_same. rewrite (sumR_ext n (upd1 f n v) f) by (intros; apply upd1_other; lia). ring.
  - rewrite IH by lia. rewrite upd1_other by lia. ring.
Qed.
Lemma sumR_nonneg n f : (forall k, (k < n)%nat -> 0 <= f k) -> 0 <= sumR n f.
Proof.
  induction n as [|n IH]; intros H; [rewrite sumR_0; lra|].
  rewrite sumR_S. assert (0 <= sumR n f) by (apply IH; intros; apply H; lia).
  assert (0 <= f n) by (apply H; lia). lra.
Qed.
Lemma sumR_ge_term n f j : (forall k, (k < n)%nat -> 0 <= f k) -> (j < n)%nat -> f j <= sumR n f.
Proof.
  induction n as [|n IH]; intros H Hj; [lia|].
  rewrite sumR_S. assert (0 <= f n) by (apply H; lia).
  assert (0 <= sumR n f) by (apply sumR_nonneg; intros; apply H; lia).
  destruct (Nat.eq_dec j n) as [-> | Hne]; [lra|].
  assert (f j <= sumR n f) by (apply IH; [intros; apply H; lia | lia]). lra.
Qed.

Lemma upd2_row_same {K} (X : nat -> nat -> K) i j v b : upd2 X i j v i b = upd1 (X i) j v b.
Proof. unfold upd2, upd1. rewrite Nat.eqb_refl. reflexivity. Qed.
Lemma upd2_row_other {K} (X : nat -> nat -> K) i j v a b : a <> i -> upd2 X i j v a b = X a b.
Proof. intros H. unfold upd2. destruct (Nat.eqb_spec a i); [contradiction | reflexivity]. Qed.
Lemma upd2_at {K} (X : nat -> nat -> K) i j v : upd2 X i j v i j = v.
Proof. unfold upd2. rewrite !Nat.eqb_refl. reflexivity. Qed.
Lemma upd2_other {K} (X : nat -> nat -> K) i j v a b : (a <> i \/ b <> j) -> upd2 X i j v a b = X a b.
Proof.
  intros H. unfold upd2. destruct (Nat.eqb_spec a i), (Nat.eqb_spec b j); simpl; try reflexivity.
  destruct H; contradiction.
Qed.

(* ------------------------------------------------------------------ invariants *)
Record Inv (n : nat) (s : state R) : Prop := mkInv {
  inv_sym : forall i j, (i < n)%nat -> (j < n)%nat -> fst s i j = fst s j i;
  inv_rs : forall i, (i < n)%nat -> snd s i = sumR n (fst s i);       (* running row sum = true row sum *)
  inv_nn : forall i j, (i < n)%nat -> (j < n)%nat -> 0 <= fst s i j }.

Record CInv (n : nat) (C : nat -> nat -> R) (Crs : nat -> R) : Prop := mkCInv {
  c_nn : forall i j, (i < n)%nat -> (j < n)%nat -> 0 <= C i j;
  c_rs : forall i, (i < n)%nat -> Crs i = sumR n (C i) }.

Lemma rest_nonneg n s i j : Inv n s -> (i < n)%nat -> (j < n)%nat -> 0 <= snd s i - fst s i j.
Proof.
  intros H Hi Hj. rewrite (inv_rs _ _ H) by exact Hi.
  pose proof (sumR_ge_term n (fst s i) j (fun k Hk => inv_nn _ _ H i k Hi Hk) Hj). lra.
Qed.
Lemma crest_nonneg n C Crs i j : CInv n C Crs -> (i < n)%nat -> (j < n)%nat -> 0 <= Crs i - C i j.
Proof.
  intros H Hi Hj. rewrite (c_rs _ _ _ H) by exact Hi.
  pose proof (sumR_ge_term n (C i) j (fun k Hk => c_nn _ _ _ H i k Hi Hk) Hj). lra.
Qed.

(* writing any non-negative value into a diagonal entry, with the code's row-sum correction *)
Lemma diag_write_inv n s i x :
  Inv n s -> (i < n)%nat -> 0 <= x ->
  Inv n (upd2 (fst s) i i x, upd1 (snd s) i (snd s i + (x - fst s i i))).
Proof.
  intros H Hi Hx. split; cbn [fst snd].
  - intros a b Ha Hb. unfold upd2.
    destruct (Nat.eqb_spec a i), (Nat.eqb_spec b i); simpl; try reflexivity; apply (inv_sym _ _ H); assumption.
  - intros a Ha. destruct (Nat.eq_dec a i) as [-> | Hne].
    + rewrite upd1_same. rewrite (sumR_ext n (upd2 (fst s) i i x i) (upd1 (fst s i) i x)) by (intros; apply upd2_row_same).
      rewrite sumR_upd by exact Hi. rewrite (inv_rs _ _ H) by exact Hi. reflexivity.
    + rewrite upd1_other by exact Hne.
      rewrite (sumR_ext n (upd2 (fst s) i i x a) (fst s a)) by (intros; apply upd2_row_other; exact Hne).
      apply (inv_rs _ _ H). exact Ha.
  - intros a b Ha Hb. unfold upd2. destruct (Nat.eqb a i && Nat.eqb b i); [exact Hx | apply (inv_nn _ _ H); assumption].
Qed.

(* writing any non-negative value into the pair (i,j),(j,i), with the code's row-sum corrections *)
Lemma pair_write_inv n s i j v :
  Inv n s -> (i < n)%nat -> (j < n)%nat -> i <> j -> 0 <= v ->
  Inv n (upd2 (upd2 (fst s) i j v) j i v,
         upd1 (upd1 (snd s) i (snd s i + (v - fst s i j))) j (snd s j + (v - fst s j i))).
Proof.
  intros H Hi Hj Hij Hv. split; cbn [fst snd].
  - intros a b Ha Hb. unfold upd2.
    destruct (Nat.eqb_spec a j), (Nat.eqb_spec b i), (Nat.eqb_spec a i), (Nat.eqb_spec b j); simpl; subst;
      try reflexivity; try contradiction; try (exfalso; apply Hij; reflexivity);
      apply (inv_sym _ _ H); assumption.
  - intros a Ha. destruct (Nat.eq_dec a j) as [-> | Hnj].
    + rewrite upd1_same.
      rewrite (sumR_ext n (upd2 (upd2 (fst s) i j v) j i v j) (upd1 (fst s j) i v)).
      * rewrite sumR_upd by exact Hi. rewrite (inv_rs _ _ H) by exact Hj. reflexivity.
      * intros k Hk. rewrite upd2_row_same. unfold upd1. destruct (Nat.eqb_spec k i); [reflexivity|].
        apply upd2_row_other. intro; apply Hij; symmetry; assumption.
    + rewrite upd1_other by exact Hnj. destruct (Nat.eq_dec a i) as [-> | Hni].
      * rewrite upd1_same.
        rewrite (sumR_ext n (upd2 (upd2 (fst s) i j v) j i v i) (upd1 (fst s i) j v)).
        -- rewrite sumR_upd by exact Hj. rewrite (inv_rs _ _ H) by exact Hi. reflexivity.
        -- intros k Hk. rewrite upd2_row_other by exact Hij. apply upd2_row_same.
      * rewrite upd1_other by exact Hni.
        rewrite (sumR_ext n (upd2 (upd2 (fst s) i j v) j i v a) (fst s a)).
        -- apply (inv_rs _ _ H). exact Ha.
        -- intros k Hk. rewrite upd2_row_other by exact Hnj. apply upd2_row_other. exact Hni.
  - intros a b Ha Hb. unfold upd2.
    destruct (Nat.eqb a j && Nat.eqb b i); [exact Hv|].
    destruct (Nat.eqb a i && Nat.eqb b j); [exact Hv | apply (inv_nn _ _ H); assumption].
Qed.

(* ------------------------------------------------------------------ the generated steps *)
Section Steps.
  Variable n : nat.
  Variable C : nat -> nat -> R.
  Variable Crs : nat -> R.
  Hypothesis HC : CInv n C Crs.

  Definition dstep := diag_step (py_diag ROps) C Crs.
  Definition ostep := off_step (py_offdiag ROps) C Crs.

  Lemma diag_new_nonneg s i : Inv n s -> (i < n)%nat ->
    0 <= fst (py_diag ROps (C i i) (Crs i) (snd s i) (fst s i i)).
  Proof.
    intros H Hi. rewrite py_diag_spec. cbn [fst].
    destruct (Rlt_dec 0 (Crs i - C i i)) as [Hd | Hd]; [| apply (inv_nn _ _ H); assumption].
    unfold Rdiv. apply Rmult_le_pos; [apply Rmult_le_pos |].
    - apply (c_nn _ _ _ HC); assumption.
    - apply (rest_nonneg n); assumption.
    - left. apply Rinv_0_lt_compat. exact Hd.
  Qed.

  Lemma dstep_inv s i : Inv n s -> (i < n)%nat -> Inv n (dstep s i).
  Proof.
    intros H Hi. unfold dstep, diag_step.
    pose proof (diag_new_nonneg s i H Hi) as Hx. rewrite py_diag_spec in *. cbn [fst] in Hx. cbv zeta.
    apply diag_write_inv; assumption.
  Qed.

  (* the quantity the code used to assert on: c <= 0 at every pair the loop visits *)
  Lemma offdiag_c_nonpos s i j : Inv n s -> (i < n)%nat -> (j < n)%nat ->
    qc (C i j) (C j i) (snd s i) (snd s j) (fst s i j) <= 0.
  Proof.
    intros H Hi Hj. unfold qc.
    assert (H1 : 0 <= C i j + C j i).
    { pose proof (c_nn _ _ _ HC i j Hi Hj). pose proof (c_nn _ _ _ HC j i Hj Hi). lra. }
    pose proof (rest_nonneg n s i j H Hi Hj) as H2.
    pose proof (rest_nonneg n s j i H Hj Hi) as H3. rewrite <- (inv_sym _ _ H i j Hi Hj) in H3.
    assert (0 <= (C i j + C j i) * (snd s i - fst s i j) * (snd s j - fst s i j))
      by (apply Rmult_le_pos; [apply Rmult_le_pos|]; assumption). lra.
  Qed.

  Lemma qa_nonneg i j : (i < n)%nat -> (j < n)%nat -> 0 <= qa (C i j) (C j i) (Crs i) (Crs j).
  Proof.
    intros Hi Hj. unfold qa. pose proof (crest_nonneg n C Crs i j HC Hi Hj).
    pose proof (crest_nonneg n C Crs j i HC Hj Hi). lra.
  Qed.

  Lemma newv_nonneg s i j : Inv n s -> (i < n)%nat -> (j < n)%nat ->
    0 <= newv (C i j) (C j i) (Crs i) (Crs j) (snd s i) (snd s j) (fst s i j) (fst s j i).
  Proof.
    intros H Hi Hj. unfold newv.
    destruct (Req_EM_T (qa (C i j) (C j i) (Crs i) (Crs j)) 0) as [E | E].
    - apply (inv_nn _ _ H); assumption.
    - apply quad_root; [pose proof (qa_nonneg i j Hi Hj); lra | apply offdiag_c_nonpos; assumption].
  Qed.

  Lemma ostep_inv s ij : Inv n s -> (fst ij < snd ij < n)%nat -> Inv n (ostep s ij).
  Proof.
    intros H [Hij Hj]. destruct ij as [i j]. cbn [fst snd] in *.
    assert (Hi : (i < n)%nat) by lia.
    unfold ostep, off_step. cbn [fst snd].
    rewrite py_offdiag_spec by (apply offdiag_c_nonpos; assumption). cbv zeta.
    apply pair_write_inv; try assumption; [lia | apply newv_nonneg; assumption].
  Qed.

  Lemma fold_left_inv {A S} (P : S -> Prop) (Q : A -> Prop) (f : S -> A -> S) l :
    (forall s a, P s -> Q a -> P (f s a)) -> Forall Q l -> forall s, P s -> P (fold_left f l s).
  Proof.
    intros Hf Hl. induction Hl as [| a l Ha Hl IH]; intros s Hs; [exact Hs|].
    simpl. apply IH. apply Hf; assumption.
  Qed.

  Lemma pairs_spec ij : In ij (pairs n) -> (fst ij < snd ij < n)%nat.
  Proof.
    unfold pairs. rewrite in_flat_map. intros [i [Hi Hin]]. rewrite in_map_iff in Hin.
    destruct Hin as [j [<- Hj]]. rewrite in_seq in Hi, Hj. cbn [fst snd]. lia.
  Qed.

  (* rowsum_tracking + symmetry_preserved + non-negativity, for a whole sweep *)
  Theorem sweep_invariant s : Inv n s -> Inv n (py_sweep ROps C Crs n s).
  Proof.
    intros H. unfold py_sweep, sweep.
    apply (fold_left_inv (Inv n) (fun ij => (fst ij < snd ij < n)%nat)).
    - intros s' ij Hs' Hq. apply ostep_inv; assumption.
    - rewrite Forall_forall. apply pairs_spec.
    - apply (fold_left_inv (Inv n) (fun i => (i < n)%nat)).
      + intros s' i Hs' Hi. apply dstep_inv; assumption.
      + rewrite Forall_forall. intros i Hi. rewrite in_seq in Hi. lia.
      + exact H.
  Qed.

  Theorem sweeps_invariant k s : Inv n s -> Inv n (Nat.iter k (py_sweep ROps C Crs n) s).
  Proof. intros H. induction k as [|k IH]; [exact H | simpl; apply sweep_invariant; exact IH]. Qed.

  (* the initial state X = C + C^T, X_rs = X.sum(1) satisfies the invariant *)
  Lemma init_invariant : Inv n (init_state ROps n C).
  Proof.
    split; cbn [init_state fst snd ROps kadd].
    - intros i j _ _. ring.
    - intros i _. reflexivity.
    - intros i j Hi Hj. pose proof (c_nn _ _ _ HC i j Hi Hj). pose proof (c_nn _ _ _ HC j i Hj Hi). lra.
  Qed.

  (* ---------------------------------------------------------------- fixed points *)
  (* every coordinate update, computed on the state s itself, returns the entry that is already there *)
  Definition is_fixed (s : state R) : Prop :=
    (forall i, (i < n)%nat -> fst (py_diag ROps (C i i) (Crs i) (snd s i) (fst s i i)) = fst s i i) /\
    (forall i j, (i < j < n)%nat ->
       fst (fst (fst (py_offdiag ROps (C i j) (C j i) (Crs i) (Crs j) (snd s i) (snd s j) (fst s i j) (fst s j i))))
       = fst s i j).

  Lemma offdiag_fixed_self_consistent s i j :
    Inv n s -> (i < n)%nat -> (j < n)%nat -> 0 < snd s i -> 0 < snd s j ->
    qa (C i j) (C j i) (Crs i) (Crs j) <> 0 ->
    fst (fst (fst (py_offdiag ROps (C i j) (C j i) (Crs i) (Crs j) (snd s i) (snd s j) (fst s i j) (fst s j i))))
      = fst s i j ->
    fst s i j * (Crs i / snd s i + Crs j / snd s j) = C i j + C j i.
  Proof.
    intros H Hi Hj Hxi Hxj Ha Hfix.
    pose proof (offdiag_c_nonpos s i j H Hi Hj) as Hc.
    rewrite py_offdiag_spec in Hfix by exact Hc. cbn [fst] in Hfix. unfold newv in Hfix.
    destruct (Req_EM_T (qa (C i j) (C j i) (Crs i) (Crs j)) 0) as [E | _]; [contradiction|].
    assert (Hap : 0 < qa (C i j) (C j i) (Crs i) (Crs j)) by (pose proof (qa_nonneg i j Hi Hj); lra).
    destruct (quad_root _ (qb (C i j) (C j i) (Crs i) (Crs j) (snd s i) (snd s j) (fst s i j)) _ Hap Hc) as [Hq _].
    rewrite Hfix in Hq.
    set (x := fst s i j) in *. set (xi := snd s i) in *. set (xj := snd s j) in *.
    set (ci := Crs i) in *. set (cj := Crs j) in *.
    assert (Hpoly : ci * x * xj + cj * x * xi - (C i j + C j i) * xi * xj = 0).
    { rewrite <- Hq. unfold qa, qb, qc. ring. }
    replace (x * (ci / xi + cj / xj)) with ((ci * x * xj + cj * x * xi) / (xi * xj)) by (field; lra).
    replace (ci * x * xj + cj * x * xi) with ((C i j + C j i) * xi * xj) by lra.
    field. lra.
  Qed.

  Lemma diag_fixed_self_consistent s i :
    Inv n s -> (i < n)%nat -> 0 < snd s i -> 0 < Crs i - C i i ->
    fst (py_diag ROps (C i i) (Crs i) (snd s i) (fst s i i)) = fst s i i ->
    fst s i i * (Crs i / snd s i) = C i i.
  Proof.
    intros H Hi Hxi Hd Hfix.
    destruct (diag_is_stationary (C i i) (Crs i) (snd s i) (fst s i i)) as [_ [He _]].
    - apply (c_nn _ _ _ HC); assumption.
    - apply (rest_nonneg n); assumption.
    - exact Hd.
    - cbv zeta in He. rewrite Hfix in He.
      set (x := fst s i i) in *. set (xi := snd s i) in *.
      replace (x * (Crs i / xi)) with ((x * Crs i) / xi) by (field; lra).
      replace (x * Crs i) with (C i i * xi) by lra. field. lra.
  Qed.

  (* fixed_point_self_consistent: at a fixed point of the updates the Prinz equations
       x_ij (c_i / x_i + c_j / x_j) = c_ij + c_ji      hold for ALL i, j < n.
     The two hypotheses on C say: every state has a count leaving it to another state, and every pair
     of states has a count leaving the pair -- both follow from strong connectivity when n >= 3. *)
  Theorem fixed_point_self_consistent s :
    Inv n s -> (forall i, (i < n)%nat -> 0 < snd s i) ->
    (forall i, (i < n)%nat -> 0 < Crs i - C i i) ->
    (forall i j, (i < j < n)%nat -> qa (C i j) (C j i) (Crs i) (Crs j) <> 0) ->
    is_fixed s ->
    forall i j, (i < n)%nat -> (j < n)%nat ->
      fst s i j * (Crs i / snd s i + Crs j / snd s j) = C i j + C j i.
  Proof.
    intros H Hpos Hden Hqa [Hfd Hfo] i j Hi Hj.
    destruct (lt_eq_lt_dec i j) as [[Hlt | ->] | Hgt].
    - apply offdiag_fixed_self_consistent;
        [exact H | exact Hi | exact Hj | apply Hpos; exact Hi | apply Hpos; exact Hj | apply Hqa; lia | apply Hfo; lia].
    - pose proof (diag_fixed_self_consistent s j H Hj (Hpos j Hj) (Hden j Hj) (Hfd j Hj)) as Hd.
      replace (fst s j j * (Crs j / snd s j + Crs j / snd s j)) with (2 * (fst s j j * (Crs j / snd s j)))
        by (pose proof (Hpos j Hj); field; lra).
      rewrite Hd. ring.
    - rewrite (inv_sym _ _ H i j Hi Hj).
      pose proof (offdiag_fixed_self_consistent s j i H Hj Hi (Hpos j Hj) (Hpos i Hi) (Hqa j i ltac:(lia)) (Hfo j i ltac:(lia))) as He.
      lra.
  Qed.
End Steps.

(* ------------------------------------------------------------------ the final normalisation
   T = X / X.sum(-1), pi = X_rs / X_rs.sum() of a state satisfying the invariant *)
Lemma sumR_scale n f c : sumR n (fun k => f k / c) = sumR n f / c.
Proof.
  induction n as [|n IH]; [rewrite !sumR_0; unfold Rdiv; ring|].
  rewrite !sumR_S, IH. unfold Rdiv. ring.
Qed.

Theorem normalised_reversible n s :
  Inv n s -> (forall i, (i < n)%nat -> 0 < snd s i) -> (0 < n)%nat ->
  let T := fun i j => fst s i j / sumR n (fst s i) in
  let pi := fun i => snd s i / sumR n (snd s) in
  (forall i j, (i < n)%nat -> (j < n)%nat -> 0 <= T i j) /\
  (forall i, (i < n)%nat -> sumR n (T i) = 1) /\
  (forall i, (i < n)%nat -> 0 < pi i) /\
  sumR n pi = 1 /\
  (forall i j, (i < n)%nat -> (j < n)%nat -> pi i * T i j = pi j * T j i).
Proof.
  intros H Hpos Hn T pi.
  assert (Htot : 0 < sumR n (snd s)).
  { destruct n as [|m]; [lia|]. 
    assert (Hge : snd s 0%nat <= sumR (S m) (snd s))
      by (apply sumR_ge_term; [intros k Hk; left; apply Hpos; exact Hk | lia]).
    pose proof (Hpos 0%nat ltac:(lia)). lra. }
  assert (Hrow : forall i, (i < n)%nat -> 0 < sumR n (fst s i)).
  { intros i Hi. rewrite <- (inv_rs _ _ H i Hi). apply Hpos. exact Hi. }
  repeat split.
  - intros i j Hi Hj. unfold T, Rdiv. apply Rmult_le_pos; [apply (inv_nn _ _ H); assumption |].
    left. apply Rinv_0_lt_compat. apply Hrow. exact Hi.
  - intros i Hi. unfold T. rewrite sumR_scale. pose proof (Hrow i Hi). field. lra.
  - intros i Hi. unfold pi, Rdiv. apply Rmult_lt_0_compat; [apply Hpos; exact Hi | apply Rinv_0_lt_compat; exact Htot].
  - unfold pi. rewrite sumR_scale. field. lra.
  - intros i j Hi Hj. unfold pi, T. rewrite <- !(inv_rs _ _ H) by assumption.
    rewrite (inv_sym _ _ H i j Hi Hj). pose proof (Hpos i Hi). pose proof (Hpos j Hj). field. lra.
Qed.

(* ------------------------------------------------------------------ the hypotheses are satisfiable:
   C = [[1,1],[1,1]], X = C + C^T = [[2,2],[2,2]] is a fixed point (sqrt 64 = 8) *)
Lemma fixed_point_example :
  let C := fun (_ _ : nat) => 1 in let Crs := fun (_ : nat) => 2 in
  let s : state R := (fun _ _ => 2, fun _ => 4) in
  CInv 2 C Crs /\ Inv 2 s /\ (forall i, (i < 2)%nat -> 0 < snd s i) /\
  (forall i, (i < 2)%nat -> 0 < Crs i - C i i) /\
  (forall i j, (i < j < 2)%nat -> qa (C i j) (C j i) (Crs i) (Crs j) <> 0) /\
  is_fixed 2 C Crs s /\
  (forall i j, fst s i j = fst (init_state ROps 2 C) i j).
Proof.
  intros C Crs s.
  assert (S2 : forall f, sumR 2 f = f 0%nat + f 1%nat) by (intros; rewrite !sumR_S, sumR_0; ring).
  split; [| split; [| split; [| split; [| split; [| split]]]]].
  - split; intros; unfold C, Crs; [lra | rewrite S2; lra].
  - split; cbn [fst snd s]; intros; [reflexivity | rewrite S2; lra | lra].
  - intros; cbn [snd s]; lra.
  - intros; unfold Crs, C; lra.
  - intros; unfold qa, C, Crs; lra.
  - split.
    + intros i Hi. cbn [fst snd s]. rewrite py_diag_spec. cbn [fst]. unfold C, Crs.
      destruct (Rlt_dec 0 (2 - 1)); [field; lra | lra].
    + intros i j Hij. cbn [fst snd s]. unfold C, Crs.
      rewrite py_offdiag_spec by (unfold qc; lra). cbn [fst]. unfold newv.
      destruct (Req_EM_T (qa 1 1 2 2) 0) as [E | E]; [unfold qa in E; lra |].
      unfold root, qa, qb, qc.
      match goal with |- context [sqrt ?t] => replace t with (8 * 8) by ring end.
      rewrite sqrt_square by lra. field.
  - intros i j. cbn [fst s init_state ROps kadd]. unfold C. ring.
Qed.

Theorem iteration_invariant : forall n C Crs, CInv n C Crs ->
  forall k, Inv n (Nat.iter k (py_sweep ROps C Crs n) (init_state ROps n C)).
Proof. intros n C Crs HC k. apply sweeps_invariant; [exact HC | apply (init_invariant n C Crs HC)]. Qed.
