(* C17 proofs, part 3: top_path returns a real, simple, bottleneck-optimal pathway. *)
From Coq Require Import List Arith QArith Qreduction Bool Lia Lqa.
From EV Require Import Paths PathsProofs PathsSearch.
Import ListNotations.
Close Scope Q_scope.

Lemma in_range_spec : forall n l, in_range n l = true <-> forall x, In x l -> x < n.
Proof.
  intros n l. unfold in_range. rewrite forallb_forall. split; intros H x Hx.
  - apply Nat.ltb_lt. apply H. exact Hx.
  - apply Nat.ltb_lt. apply H. exact Hx.
Qed.

(* a pathway: non-empty, states < n, no state twice, consecutive states joined by edges of positive
   flux, first state a source, last state a sink *)
Definition valid_path (n : nat) (f : fmat) (srcs sinks p : list nat) : Prop :=
  is_walk n f p /\ NoDup p /\ In (hd 0 p) srcs /\ In (last p 0) sinks.

(* a competitor: any walk (repetitions allowed) from a source to a sink *)
Definition st_walk (n : nat) (f : fmat) (srcs sinks w : list nat) : Prop :=
  is_walk n f w /\ In (hd 0 w) srcs /\ In (last w 0) sinks.

Lemma top_path_sound : forall n f srcs sinks p fl,
  top_path n f srcs sinks = Ok (p, fl) ->
  (fl <> NInf -> valid_path n f srcs sinks p /\ eeq fl (bottleneck f p)) /\
  (forall w, st_walk n f srcs sinks w -> ele (bottleneck f w) fl).
Proof.
  intros n f srcs sinks p fl H. unfold top_path in H.
  destruct (in_range n srcs && in_range n sinks) eqn:Er; simpl in H; [|discriminate].
  apply andb_true_iff in Er. destruct Er as [Er1 Er2].
  rewrite in_range_spec in Er1. rewrite in_range_spec in Er2.
  destruct sinks as [|t0 ts] eqn:Es; [discriminate|]. rewrite <- Es in *.
  assert (Hne : sinks <> []) by (rewrite Es; discriminate).
  destruct (search (search_fuel n srcs) n f sinks (init srcs)) as [s|] eqn:Esr; [|discriminate].
  pose proof (search_post n f srcs sinks _ _ _ (inv_init n f srcs Er1) Esr) as P.
  destruct (argmax_nodes (mf s) sinks Hne) as [Ht Hmax].
  set (t := nth (argmax (map (mf s) sinks)) sinks 0) in *.
  destruct (backtrack n (prev s) t []) as [p'|] eqn:Eb; [|discriminate].
  inversion H; subst p' fl. clear H.
  split.
  - intro Hfl. destruct (p_chain n f srcs sinks s P t Hfl) as [rp Hc].
    destruct (chain_props n f srcs s t rp Hc) as [C1 [C2 [C3 [C4 [C5 [C6 C7]]]]]].
    assert (Hlen : length rp <= S n).
    { pose proof (nodup_lt_length n rp C1 C2). lia. }
    pose proof (backtrack_chain n f srcs s t rp Hc n [] Hlen) as Eb'.
    rewrite app_nil_r in Eb'. rewrite Eb in Eb'. inversion Eb'; subst p.
    split; [|exact C7].
    repeat split.
    + exact C3.
    + apply Forall_rev. exact C2.
    + exact C6.
    + apply NoDup_rev. exact C1.
    + exact C4.
    + rewrite C5. exact Ht.
  - intros w [Hw [Hs Hk]].
    destruct (reach_of_walk n f srcs w Hw Hs) as [b [Hr Hb]].
    assert (Hv : vis s (last w 0) = true) by (eapply (p_sinks n f srcs sinks s P); eassumption).
    eapply ele_trans; [apply Hb|].
    eapply ele_trans; [apply (p_opt n f srcs sinks s P); eassumption|].
    apply Hmax. exact Hk.
Qed.

(* clause: the pathway is a simple source-to-sink path along edges of positive flux *)
Lemma top_path_valid_lemma : forall n f srcs sinks p q,
  top_path n f srcs sinks = Ok (p, Fin q) -> valid_path n f srcs sinks p.
Proof.
  intros n f srcs sinks p q H. destruct (top_path_sound _ _ _ _ _ _ H) as [H1 _].
  apply H1. discriminate.
Qed.

(* clause: its reported flux is the smallest flux on its edges (and is positive) *)
Lemma top_path_flux_lemma : forall n f srcs sinks p q,
  top_path n f srcs sinks = Ok (p, Fin q) ->
  (forall e, In e (edges p) -> (q <= f (fst e) (snd e))%Q) /\
  (exists e, In e (edges p) /\ (q == f (fst e) (snd e))%Q) /\
  (0 < q)%Q.
Proof.
  intros n f srcs sinks p q H. destruct (top_path_sound _ _ _ _ _ _ H) as [H1 _].
  destruct H1 as [Hv Hb]; [discriminate|].
  assert (Hall : forall e, In e (edges p) -> (q <= f (fst e) (snd e))%Q).
  { intros e He. destruct Hb as [Hb _]. rewrite bottleneck_glb in Hb. rewrite Forall_forall in Hb.
    apply ele_fin. apply (Hb e He). }
  assert (Hex : exists e, In e (edges p) /\ (q == f (fst e) (snd e))%Q).
  { destruct (edges p) as [|e0 es] eqn:Ee.
    - exfalso. unfold bottleneck in Hb. rewrite Ee in Hb. simpl in Hb. destruct Hb as [_ Hb].
      apply PInf_ele_inv in Hb. discriminate.
    - assert (Hne : edges p <> []) by (rewrite Ee; discriminate).
      destruct (bottleneck_is_edge f p Hne) as [e [Hin He]]. exists e. split.
      + rewrite <- Ee. exact Hin.
      + rewrite He in Hb. unfold eflux in Hb. apply eeq_fin in Hb. exact Hb. }
  split; [exact Hall|]. split; [exact Hex|].
  destruct Hex as [e [Hin He]]. destruct Hv as [[_ [_ Hpos]] _]. rewrite Forall_forall in Hpos.
  specialize (Hpos e Hin). simpl in Hpos. rewrite He. exact Hpos.
Qed.

(* clause: no source-to-sink walk has a larger bottleneck *)
Lemma top_path_optimal_lemma : forall n f srcs sinks p fl w,
  top_path n f srcs sinks = Ok (p, fl) -> st_walk n f srcs sinks w -> ele (bottleneck f w) fl.
Proof.
  intros n f srcs sinks p fl w H Hw. destruct (top_path_sound _ _ _ _ _ _ H) as [_ H2].
  apply H2. exact Hw.
Qed.

(* -inf is reported only when no source-to-sink walk exists *)
Lemma top_path_none_lemma : forall n f srcs sinks p w,
  top_path n f srcs sinks = Ok (p, NInf) -> ~ st_walk n f srcs sinks w.
Proof.
  intros n f srcs sinks p w H Hw.
  pose proof (top_path_optimal_lemma _ _ _ _ _ _ _ H Hw) as Hle.
  apply ele_NInf_inv in Hle. revert Hle. apply bottleneck_not_NInf.
Qed.

(* the code raises exactly on malformed state sets *)
Lemma top_path_errors : forall n f srcs sinks,
  (top_path n f srcs sinks = IndexErr <-> ~ (forall x, In x (srcs ++ sinks) -> x < n)) /\
  (top_path n f srcs sinks = ValueErr <-> (forall x, In x (srcs ++ sinks) -> x < n) /\ sinks = []).
Proof.
  intros n f srcs sinks. unfold top_path.
  destruct (in_range n srcs && in_range n sinks) eqn:Er; simpl.
  - apply andb_true_iff in Er. destruct Er as [Er1 Er2].
    rewrite in_range_spec in Er1. rewrite in_range_spec in Er2.
    assert (Hall : forall x, In x (srcs ++ sinks) -> x < n).
    { intros x Hx. apply in_app_or in Hx. destruct Hx; auto. }
    destruct sinks as [|t0 ts] eqn:Es.
    + split; split; try discriminate; try tauto.
    + rewrite <- Es in *.
      destruct (search (search_fuel n srcs) n f sinks (init srcs)) as [s|];
        [destruct (backtrack n (prev s) (nth (argmax (map (mf s) sinks)) sinks 0) [])|];
        (split; split; try discriminate; try tauto; intros [_ C]; rewrite Es in C; discriminate).
  - assert (Hnot : ~ (forall x, In x (srcs ++ sinks) -> x < n)).
    { intro Hall. apply andb_false_iff in Er. destruct Er as [Er|Er];
        [assert (E : in_range n srcs = true)|assert (E : in_range n sinks = true)];
        try congruence; apply in_range_spec; intros x Hx; apply Hall; apply in_or_app; tauto. }
    split; split; try discriminate; tauto.
Qed.
