(* C15: proofs about Model/Store.v, part 2: strided slices, buffer windows, schedules,
   load_as_concatenated. *)
From Coq Require Import List ZArith Lia Bool Permutation Sorted.
From EV Require Import PySlice Store StoreProofs.
Import ListNotations.
Open Scope nat_scope.

(* ------------------------------------------------------------------ x[::stride] *)
Lemma pick_ok {A} (l : list A) (d : A) (i : Z) :
  (0 <= i < Z.of_nat (length l))%Z -> pick l i = [nth (Z.to_nat i) l d].
Proof.
  intros H. unfold pick. destruct (i <? 0)%Z eqn:E; [lia|].
  destruct (nth_error l (Z.to_nat i)) eqn:N.
  - f_equal. symmetry. apply nth_error_nth. exact N.
  - apply nth_error_None in N. lia.
Qed.

Lemma flat_map_pick_map {A} (l : list A) (d : A) (g : nat -> Z) (ks : list nat) :
  (forall k, In k ks -> (0 <= g k < Z.of_nat (length l))%Z) ->
  flat_map (pick l) (map g ks) = map (fun k => nth (Z.to_nat (g k)) l d) ks.
Proof.
  induction ks as [|k ks IH]; intros H; [reflexivity|].
  cbn [map flat_map]. rewrite (pick_ok l d) by (apply H; left; reflexivity).
  cbn [app]. f_equal. apply IH. intros j Hj. apply H. right. exact Hj.
Qed.

Lemma ceil_index_bound : forall (n : nat) (s : Z) (k : nat),
  (1 <= s)%Z -> k < ceil_len n s -> (0 <= Z.of_nat k * s < Z.of_nat n)%Z.
Proof.
  intros n s k Hs Hk. unfold ceil_len in Hk.
  assert (Hk2 : (Z.of_nat k <= (Z.of_nat n + s - 1) / s - 1)%Z) by lia.
  assert (Hm : (s * ((Z.of_nat n + s - 1) / s) <= Z.of_nat n + s - 1)%Z)
    by (apply Z.mul_div_le; lia).
  nia.
Qed.

(* r[::s] picks items 0, s, 2s, ... and there are ceil(len/s) of them *)
Lemma strided_spec {A} (d : A) (s : Z) (l : list A) :
  (1 <= s)%Z ->
  strided s l = map (fun k => nth (Z.to_nat (Z.of_nat k * s)) l d) (seq 0 (ceil_len (length l) s)).
Proof.
  intros Hs. unfold strided, slice_list, slice_indices, step_of, adjust.
  assert (E : (s <? 0)%Z = false) by (apply Z.ltb_ge; lia). rewrite E.
  unfold zrange, range_len.
  assert (E2 : (0 <? s)%Z = true) by (apply Z.ltb_lt; lia). rewrite E2.
  replace (Z.of_nat (length l) - 0 + s - 1)%Z with (Z.of_nat (length l) + s - 1)%Z by lia.
  fold (ceil_len (length l) s).
  rewrite (flat_map_pick_map l d (fun k => (0 + Z.of_nat k * s)%Z)).
  - apply map_ext. intros k. rewrite Z.add_0_l. reflexivity.
  - intros k Hk. apply in_seq in Hk. rewrite Z.add_0_l. apply ceil_index_bound; lia.
Qed.

Lemma strided_length {A} (s : Z) (l : list A) :
  (1 <= s)%Z -> length (strided s l) = ceil_len (length l) s.
Proof.
  intros Hs. destruct l as [|x l'].
  - unfold strided, slice_list, slice_indices, step_of, adjust.
    assert (E : (s <? 0)%Z = false) by (apply Z.ltb_ge; lia). rewrite E.
    unfold zrange, range_len, ceil_len.
    assert (E2 : (0 <? s)%Z = true) by (apply Z.ltb_lt; lia). rewrite E2.
    cbn [length]. replace (Z.of_nat 0 - 0 + s - 1)%Z with (Z.of_nat 0 + s - 1)%Z by lia.
    rewrite flat_map_concat_map, map_map. 
    assert (Z0 : ((Z.of_nat 0 + s - 1) / s = 0)%Z) by (apply Z.div_small; lia).
    rewrite Z0. reflexivity.
  - rewrite (strided_spec x s (x :: l') Hs), map_length, seq_length. reflexivity.
Qed.

Lemma map_nth_seq {A} (d : A) (l : list A) : map (fun k => nth k l d) (seq 0 (length l)) = l.
Proof.
  induction l as [|x l IH]; [reflexivity|].
  cbn [length seq map nth]. f_equal. rewrite <- seq_shift, map_map. exact IH.
Qed.

Lemma ceil_len_1 : forall n, ceil_len n 1 = n.
Proof. intros n. unfold ceil_len. replace (Z.of_nat n + 1 - 1)%Z with (Z.of_nat n) by lia. rewrite Z.div_1_r. lia. Qed.

Lemma strided_one {A} (l : list A) : strided 1 l = l.
Proof.
  destruct l as [|x l']; [reflexivity|].
  rewrite (strided_spec x 1 (x :: l')) by lia. rewrite ceil_len_1.
  rewrite <- (map_nth_seq x (x :: l')) at 2. apply map_ext. intros k.
  rewrite Z.mul_1_r, Nat2Z.id. reflexivity.
Qed.

(* ------------------------------------------------------------------ single-item writes *)
Lemma set_at_length {A} : forall (buf : list A) i v, length (set_at buf i v) = length buf.
Proof. induction buf as [|x r IH]; intros [|i] v; cbn [set_at length]; try reflexivity. rewrite IH. reflexivity. Qed.

Lemma set_at_comm {A} : forall (buf : list A) i j v w,
  i <> j -> set_at (set_at buf i v) j w = set_at (set_at buf j w) i v.
Proof.
  induction buf as [|x r IH]; intros [|i] [|j] v w H; cbn [set_at]; try reflexivity; try congruence.
  f_equal. apply IH. congruence.
Qed.

Lemma set_at_app {A} : forall (a : list A) y b x, set_at (a ++ y :: b) (length a) x = a ++ x :: b.
Proof. induction a as [|h a IH]; intros y b x; cbn [app length set_at]; [reflexivity|]. rewrite IH. reflexivity. Qed.

Lemma apply_writes_length {A} : forall (ws : list (nat * A)) buf, length (apply_writes ws buf) = length buf.
Proof.
  induction ws as [|w ws IH]; intros buf; [reflexivity|].
  unfold apply_writes in *. cbn [fold_left]. rewrite IH. apply set_at_length.
Qed.

Lemma apply_writes_app {A} : forall (a b : list (nat * A)) buf,
  apply_writes (a ++ b) buf = apply_writes b (apply_writes a buf).
Proof. intros a b buf. unfold apply_writes. apply fold_left_app. Qed.

(* writes to pairwise different cells commute: any reordering leaves the same buffer *)
Lemma apply_writes_perm {A} : forall (ws ws' : list (nat * A)),
  Permutation ws ws' -> NoDup (map fst ws) -> forall buf, apply_writes ws buf = apply_writes ws' buf.
Proof.
  intros ws ws' HP. induction HP as [|x l l' HP IH|x y l|l l' l'' HP1 IH1 HP2 IH2]; intros ND buf.
  - reflexivity.
  - cbn [map] in ND. inversion ND; subst. unfold apply_writes in *. cbn [fold_left]. apply IH. assumption.
  - cbn [map] in ND. inversion ND as [|? ? Hnin ND']; subst.
    unfold apply_writes. cbn [fold_left]. f_equal. apply set_at_comm.
    intros E. apply Hnin. left. symmetry. exact E.
  - rewrite IH1 by exact ND. apply IH2.
    eapply Permutation_NoDup; [apply Permutation_map; exact HP1|exact ND].
Qed.

Lemma window_writes_cons {A} : forall pos (x : A) xs,
  window_writes pos (x :: xs) = (pos, x) :: window_writes (S pos) xs.
Proof. reflexivity. Qed.

Lemma window_writes_app {A} : forall (xs ys : list A) pos,
  window_writes pos (xs ++ ys) = window_writes pos xs ++ window_writes (pos + length xs) ys.
Proof.
  induction xs as [|x xs IH]; intros ys pos.
  - cbn [app length]. rewrite Nat.add_0_r. reflexivity.
  - cbn [app]. rewrite !window_writes_cons. cbn [app]. f_equal. rewrite IH. cbn [length].
    f_equal. f_equal. lia.
Qed.

Lemma window_writes_fst {A} : forall (xs : list A) pos, map fst (window_writes pos xs) = seq pos (length xs).
Proof.
  induction xs as [|x xs IH]; intros pos; [reflexivity|].
  rewrite window_writes_cons. cbn [map fst length seq]. f_equal. apply IH.
Qed.

Lemma window_writes_snd {A} : forall (xs : list A) pos, map snd (window_writes pos xs) = xs.
Proof.
  induction xs as [|x xs IH]; intros pos; [reflexivity|].
  rewrite window_writes_cons. cbn [map snd]. f_equal. apply IH.
Qed.

(* buf[pos:pos+len(xs)] = xs replaces exactly that window *)
Lemma apply_window {A} : forall (xs ys a b : list A),
  length ys = length xs ->
  apply_writes (window_writes (length a) xs) (a ++ ys ++ b) = a ++ xs ++ b.
Proof.
  induction xs as [|x xs IH]; intros ys a b Hlen.
  - destruct ys; [reflexivity|discriminate].
  - destruct ys as [|y ys]; [discriminate|]. injection Hlen as Hlen.
    rewrite window_writes_cons. unfold apply_writes. cbn [fold_left fst snd app].
    rewrite set_at_app. fold (apply_writes (window_writes (S (length a)) xs) (a ++ x :: ys ++ b)).
    replace (a ++ x :: ys ++ b) with ((a ++ [x]) ++ ys ++ b) by (rewrite <- app_assoc; reflexivity).
    replace (S (length a)) with (length (a ++ [x])) by (rewrite app_length; cbn [length]; lia).
    rewrite (IH ys (a ++ [x]) b Hlen). rewrite <- app_assoc. reflexivity.
Qed.

Lemma write_window_ok {A} : forall (buf : list A) pos xs,
  pos + length xs <= length buf ->
  write_window buf pos xs = Some (apply_writes (window_writes pos xs) buf).
Proof.
  intros buf pos xs H. unfold write_window.
  assert (E : (pos + length xs <=? length buf) = true) by (apply Nat.leb_le; exact H).
  rewrite E. reflexivity.
Qed.

Lemma sum_nat_app : forall a b, sum_nat (a ++ b) = sum_nat a + sum_nat b.
Proof. induction a as [|x a IH]; intros b; cbn [app sum_nat fold_right]; [reflexivity|]. fold (sum_nat (a ++ b)) (sum_nat a). rewrite IH. lia. Qed.

Lemma length_concat : forall {A} (bl : list (list A)), length (concat bl) = sum_nat (map (@length A) bl).
Proof.
  induction bl as [|x bl IH]; [reflexivity|].
  cbn [concat map sum_nat fold_right]. rewrite app_length, IH. reflexivity.
Qed.

(* the sequential fill loop of ra.load / load_npy_as_striped *)
Lemma fill_from_spec {A} : forall (blocks : list (list A)) (a ys b : list A),
  length ys = sum_nat (map (@length A) blocks) ->
  fill_from (length a) blocks (a ++ ys ++ b) = Some (a ++ concat blocks ++ b).
Proof.
  induction blocks as [|x r IH]; intros a ys b Hlen.
  - cbn [map sum_nat fold_right] in Hlen. destruct ys; [reflexivity|discriminate].
  - cbn [map sum_nat fold_right] in Hlen. fold (sum_nat (map (@length A) r)) in Hlen.
    cbn [fill_from].
    rewrite write_window_ok by (rewrite !app_length; lia).
    rewrite <- (firstn_skipn (length x) ys).
    assert (Hf : length (firstn (length x) ys) = length x) by (apply firstn_length_le; lia).
    assert (Hs : length (skipn (length x) ys) = sum_nat (map (@length A) r))
      by (rewrite skipn_length; lia).
    rewrite <- (app_assoc (firstn _ ys)).
    rewrite (apply_window x (firstn (length x) ys) a (skipn (length x) ys ++ b) Hf).
    replace (a ++ x ++ skipn (length x) ys ++ b) with ((a ++ x) ++ skipn (length x) ys ++ b)
      by (rewrite <- app_assoc; reflexivity).
    replace (length a + length x) with (length (a ++ x)) by (rewrite app_length; reflexivity).
    rewrite (IH (a ++ x) (skipn (length x) ys) b Hs).
    cbn [concat]. rewrite <- !app_assoc. reflexivity.
Qed.

Lemma fill_from_zero {A} : forall (blocks : list (list A)) (z : A),
  fill_from 0 blocks (repeat z (sum_nat (map (@length A) blocks))) = Some (concat blocks).
Proof.
  intros blocks z.
  pose proof (fill_from_spec blocks [] (repeat z (sum_nat (map (@length A) blocks))) []) as H.
  cbn [length app] in H. rewrite !app_nil_r in H. apply H. apply repeat_length.
Qed.

(* ------------------------------------------------------------------ offsets and windows *)
Fixpoint offsets_from (k : nat) (lengths : list nat) : list nat :=
  match lengths with
  | [] => []
  | l :: r => k :: offsets_from (k + l) r
  end.

Lemma offsets_from_eq : forall lengths k,
  map (fun i => k + sum_nat (firstn i lengths)) (seq 0 (length lengths)) = offsets_from k lengths.
Proof.
  induction lengths as [|l r IH]; intros k; [reflexivity|].
  cbn [length seq map firstn sum_nat fold_right offsets_from]. f_equal; [lia|].
  rewrite <- seq_shift, map_map. rewrite <- (IH (k + l)). apply map_ext. intros i.
  cbn [firstn sum_nat fold_right]. fold (sum_nat (firstn i r)). lia.
Qed.

Lemma offsets_eq : forall lengths, offsets lengths = offsets_from 0 lengths.
Proof. intros lengths. unfold offsets. rewrite <- offsets_from_eq. apply map_ext. intros i. lia. Qed.

(* all the single-item writes of all jobs, in file order, are the writes of one big window *)
Lemma all_writes_window : forall (blocks : list (list elem)) k,
  flat_map job_writes (combine (offsets_from k (map (@length elem) blocks)) blocks)
  = window_writes k (concat blocks).
Proof.
  induction blocks as [|x r IH]; intros k; [reflexivity|].
  cbn [map offsets_from combine flat_map concat]. rewrite window_writes_app.
  unfold job_writes at 1. cbn [fst snd]. f_equal. apply IH.
Qed.

(* every job's window lies inside the buffer *)
Lemma jobs_in_range : forall (blocks : list (list elem)) k,
  Forall (fun j : nat * list elem => k <= fst j /\ fst j + length (snd j) <= k + sum_nat (map (@length elem) blocks))
         (combine (offsets_from k (map (@length elem) blocks)) blocks).
Proof.
  induction blocks as [|x r IH]; intros k; [constructor|].
  cbn [map offsets_from combine sum_nat fold_right]. fold (sum_nat (map (@length elem) r)).
  constructor.
  - cbn [fst snd]. lia.
  - eapply Forall_impl; [|apply (IH (k + length x))].
    intros j [H1 H2]. split; lia.
Qed.

Lemma run_jobs_ok : forall (jobs : list (nat * list elem)) buf,
  Forall (fun j => fst j + length (snd j) <= length buf) jobs ->
  run_jobs jobs buf = Some (apply_writes (flat_map job_writes jobs) buf).
Proof.
  induction jobs as [|j r IH]; intros buf H; [reflexivity|].
  inversion H as [|? ? Hj Hr]; subst. cbn [run_jobs flat_map].
  rewrite write_window_ok by exact Hj. rewrite apply_writes_app. unfold job_writes at 2.
  apply IH. eapply Forall_impl; [|exact Hr]. intros a Ha. rewrite apply_writes_length. exact Ha.
Qed.

Lemma pick_jobs_seq_aux {A} : forall (jobs pre : list A),
  flat_map (fun i => match nth_error (pre ++ jobs) i with Some j => [j] | None => [] end)
           (seq (length pre) (length jobs)) = jobs.
Proof.
  induction jobs as [|j r IH]; intros pre; [reflexivity|].
  cbn [length seq flat_map]. rewrite nth_error_app2 by lia. rewrite Nat.sub_diag. cbn [nth_error app].
  f_equal. specialize (IH (pre ++ [j])). rewrite <- app_assoc in IH. cbn [app] in IH.
  rewrite app_length in IH. cbn [length] in IH. rewrite Nat.add_1_r in IH. exact IH.
Qed.

Lemma pick_jobs_seq {A} : forall (jobs : list A), pick_jobs jobs (seq 0 (length jobs)) = jobs.
Proof. intros jobs. apply (pick_jobs_seq_aux jobs []). Qed.

Lemma pick_jobs_perm {A} : forall (jobs : list A) sched,
  Permutation sched (seq 0 (length jobs)) -> Permutation (pick_jobs jobs sched) jobs.
Proof.
  intros jobs sched HP. rewrite <- (pick_jobs_seq jobs) at 2. unfold pick_jobs.
  apply Permutation_flat_map. exact HP.
Qed.

Lemma combine_length_eq {A B} : forall (a : list A) (b : list B), length a = length b -> length (combine a b) = length a.
Proof. intros a b H. rewrite combine_length. lia. Qed.

Lemma offsets_from_length : forall l k, length (offsets_from k l) = length l.
Proof. induction l as [|x l IH]; intros k; cbn [offsets_from length]; [reflexivity|]. rewrite IH. reflexivity. Qed.

(* windows_disjoint_cover: listed in file order, the cells written by the jobs are 0, 1, ...,
   total-1: each cell of the buffer is written exactly once *)
Lemma windows_cover : forall (blocks : list (list elem)),
  map fst (flat_map job_writes (combine (offsets (map (@length elem) blocks)) blocks))
  = seq 0 (sum_nat (map (@length elem) blocks)).
Proof.
  intros blocks. rewrite offsets_eq, all_writes_window, window_writes_fst, length_concat. reflexivity.
Qed.

(* the finest-grained statement: the single-item writes of all workers may land in ANY order *)
Lemma concat_interleaving_indep : forall (blocks : list (list elem)) (z : elem) ws,
  Permutation ws (flat_map job_writes (combine (offsets (map (@length elem) blocks)) blocks)) ->
  apply_writes ws (repeat z (sum_nat (map (@length elem) blocks))) = concat blocks.
Proof.
  intros blocks z ws HP.
  rewrite <- (apply_writes_perm _ _ (Permutation_sym HP)).
  - rewrite offsets_eq, all_writes_window.
    pose proof (apply_window (concat blocks) (repeat z (sum_nat (map (@length elem) blocks))) [] []) as H.
    cbn [length app] in H. rewrite !app_nil_r in H. apply H.
    rewrite repeat_length, length_concat. reflexivity.
  - rewrite windows_cover. apply seq_NoDup.
Qed.

(* whole jobs finishing in any order (any number of workers) *)
Lemma concat_order_indep : forall (blocks : list (list elem)) (z : elem) sched,
  Permutation sched (seq 0 (length blocks)) ->
  run_jobs (pick_jobs (combine (offsets (map (@length elem) blocks)) blocks) sched)
           (repeat z (sum_nat (map (@length elem) blocks)))
  = Some (concat blocks).
Proof.
  intros blocks z sched HP.
  set (jobs := combine (offsets (map (@length elem) blocks)) blocks).
  assert (Hlen : length jobs = length blocks).
  { unfold jobs. rewrite combine_length, offsets_eq, offsets_from_length, map_length. lia. }
  assert (HPj : Permutation (pick_jobs jobs sched) jobs) by (apply pick_jobs_perm; rewrite Hlen; exact HP).
  rewrite run_jobs_ok.
  - f_equal. apply concat_interleaving_indep. apply Permutation_flat_map. exact HPj.
  - eapply Permutation_Forall; [apply Permutation_sym; exact HPj|].
    unfold jobs. rewrite offsets_eq. eapply Forall_impl; [|apply (jobs_in_range blocks 0)].
    intros j [_ H]. rewrite repeat_length. lia.
Qed.

(* ------------------------------------------------------------------ load_as_concatenated *)
Lemma map_length_loaded : forall files,
  map (fun t => length (t_loaded t)) files = map (@length elem) (map t_loaded files).
Proof. intros files. rewrite map_map. reflexivity. Qed.

Lemma lac_correct_gen : forall sched hint zero files,
  Permutation sched (seq 0 (length files)) ->
  (forall t, In t files -> length (t_loaded t) = sounded t) ->
  (hint = None \/ hint = Some (map (fun t => length (t_loaded t)) files)) ->
  load_as_concatenated sched hint zero files
  = inr (map (fun t => length (t_loaded t)) files, concat (map t_loaded files)).
Proof.
  intros sched hint zero files HP Hs Hh.
  assert (Hl : map sounded files = map (fun t => length (t_loaded t)) files).
  { apply map_ext_in. intros t Ht. symmetry. apply Hs. exact Ht. }
  unfold load_as_concatenated.
  assert (E : match hint with Some l => l | None => map sounded files end
              = map (@length elem) (map t_loaded files)).
  { rewrite <- map_length_loaded. destruct Hh as [-> | ->]; [exact Hl|reflexivity]. }
  rewrite E. rewrite !map_length, Nat.eqb_refl. cbn [negb].
  rewrite concat_order_indep by (rewrite map_length; exact HP).
  rewrite map_length_loaded, Nat.eqb_refl. cbn [negb]. reflexivity.
Qed.
