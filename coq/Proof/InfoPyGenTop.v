(* C18: mi_matrix as regenerated from mutual_info.py (Gen/MutualInfoGen.v), end to end: the pooling
   loop is the model's pooled_counts, the pooled table is a regular 4-D array, so the generated
   mutual_information applied to it is the model's mi_of_counts on every feature pair, followed by
   the (generated = model) channel-capacity normalisation. *)
From Coq Require Import List ZArith QArith Qreals Bool Arith Reals Lia.
From EV Require Import JointCounts Info InfoPyBase MutualInfoGen JointCountsProofs JointShape JointPooled
                       InfoProofs InfoPyGenCounts InfoPyGenMI.
Import ListNotations.
Local Open Scope nat_scope.

Lemma map_length_shape4 (J : tbl4) : map (@length _) (shape4 J) = map (@length _) J.
Proof.
  unfold shape4. rewrite map_map. apply map_ext. intros r. apply map_length.
Qed.

Lemma regular4_of_shape (J : tbl4) a b c d :
  shape4 J = shape4 (zeros4 a b c d) -> regular4 J /\ (J <> [] -> dim1 J = b).
Proof.
  intros Hs.
  assert (HL : map (@length _) J = repeat b a).
  { rewrite <- map_length_shape4, Hs, map_length_shape4. unfold zeros4.
    rewrite map_repeat'. rewrite repeat_length. reflexivity. }
  assert (Hall : forall r, In r J -> length r = b).
  { intros r Hr. apply (in_map (@length _)) in Hr. rewrite HL in Hr. apply repeat_spec in Hr. exact Hr. }
  assert (Hd : J <> [] -> dim1 J = b).
  { intros Hne. destruct J as [|r0 J']; [congruence|]. unfold dim1. simpl. apply Hall. left. reflexivity. }
  split; [|exact Hd].
  intros r Hr. rewrite (Hall r Hr). symmetry. apply Hd. intros E. rewrite E in Hr. exact Hr.
Qed.

Lemma pooled_regular XYs nx ny J : pooled_counts XYs nx ny = Some J -> regular4 J.
Proof.
  destruct XYs as [|[X0 Y0] rest]; [discriminate|]. intros E.
  destruct (pooled_inv _ _ _ _ _ _ E) as (Hs & _).
  exact (proj1 (regular4_of_shape _ _ _ _ _ Hs)).
Qed.

(* mi_matrix(Xs, Ys, n_x, n_y, normalize) *)
Theorem gen_mi_matrix_is_model : forall Xs Ys n_x n_y nx ny normalize,
  np_max_s n_x = Some nx -> np_max_s n_y = Some ny ->
  Forall in_range Xs -> Forall in_range Ys ->
  gen_mi_matrix Xs Ys n_x n_y normalize =
  match pooled_counts (combine (map vals Xs) (map vals Ys)) nx ny with
  | None => None
  | Some J =>
      let mi := map (map mi_of_counts) J in
      if normalize then gen_channel_capacity_normalization mi n_x n_y else Some mi
  end.
Proof.
  intros Xs Ys n_x n_y nx ny normalize Hx Hy HXs HYs. unfold gen_mi_matrix.
  rewrite (gen_mi_matrix_counts_is_model Xs Ys n_x n_y nx ny Hx Hy HXs HYs).
  destruct (pooled_counts (combine (map vals Xs) (map vals Ys)) nx ny) as [J|] eqn:EJ; [|reflexivity].
  cbn [obind]. rewrite (gen_mutual_information_is_model J (pooled_regular _ _ _ _ EJ)). reflexivity.
Qed.

(* entry (a, b) of the un-normalised result is the model's MI of the pooled table *)
Corollary gen_mi_matrix_entry : forall Xs Ys n_x n_y nx ny J out a b,
  np_max_s n_x = Some nx -> np_max_s n_y = Some ny ->
  Forall in_range Xs -> Forall in_range Ys ->
  pooled_counts (combine (map vals Xs) (map vals Ys)) nx ny = Some J ->
  gen_mi_matrix Xs Ys n_x n_y false = Some out ->
  a < length J -> b < dim1 J ->
  nth b (nth a out []) 0%R = mutual_information J a b.
Proof.
  intros Xs Ys n_x n_y nx ny J out a b Hx Hy HXs HYs EJ Eout Ha Hb.
  rewrite (gen_mi_matrix_is_model Xs Ys n_x n_y nx ny false Hx Hy HXs HYs), EJ in Eout.
  cbn in Eout. inversion Eout as [E]. clear Eout.
  rewrite <- (gen_mutual_information_is_model J (pooled_regular _ _ _ _ EJ)).
  apply gen_mutual_information_entry; [exact (pooled_regular _ _ _ _ EJ)|exact Ha|exact Hb].
Qed.

(* joint_counts feeds mutual_information a regular table too *)
Lemma bincount_regular X Y nx ny jc : matrix_bincount2d X Y nx ny = Some jc -> regular4 jc.
Proof.
  intros E. exact (proj1 (regular4_of_shape _ _ _ _ _ (shape4_bincount _ _ _ _ _ E))).
Qed.

Theorem gen_mutual_information_of_joint_counts : forall X Y n_x n_y jc,
  in_range X -> (forall Y', Y = Some Y' -> in_range Y') ->
  gen_joint_counts X Y n_x n_y = Some jc ->
  gen_mutual_information jc = map (map mi_of_counts) jc.
Proof.
  intros X Y n_x n_y jc HX HY E. rewrite (gen_joint_counts_is_model X Y n_x n_y HX HY) in E.
  apply gen_mutual_information_is_model.
  unfold joint_counts in E. destruct (default_n n_x (vals X)) as [nx|]; [|discriminate].
  destruct (option_map vals Y) as [Yv|].
  - destruct (default_n n_y Yv) as [ny|]; [|discriminate]. exact (bincount_regular _ _ _ _ _ E).
  - exact (bincount_regular _ _ _ _ _ E).
Qed.

(* weighted_mi with n_feature_states=None: np.full(F, features.max() + 1, dtype='int16') holds max+1 as long as
   it fits 16 bits *)
Theorem gen_weighted_mi_default_counts : forall X w m normalize,
  zmax_list (concat X) = Some m -> (-32768 <= m + 1 <= 32767)%Z ->
  gen_weighted_mi X w None normalize = gen_weighted_mi X w (Some (np_full (dim1 X) (m + 1)%Z)) normalize.
Proof.
  intros X w m normalize Hm Hr. unfold gen_weighted_mi. rewrite Hm. cbn [option_map].
  rewrite (wrap_id I16 (m + 1)%Z); [reflexivity|discriminate|exact Hr].
Qed.

Print Assumptions gen_mi_matrix_is_model.
Print Assumptions gen_mutual_information_of_joint_counts.

Lemma example_generated_python :
  gen_joint_counts {| dt := U8; is1d := false; vals := [[255]; [0]; [255]]%Z |}
                   (Some {| dt := I8; is1d := true; vals := [[1]; [0]; [1]]%Z |}) None None
    = joint_counts [[255]; [0]; [255]]%Z (Some [[1]; [0]; [1]]%Z) None None
  /\ in_range {| dt := U8; is1d := false; vals := [[255]; [0]; [255]]%Z |}
  /\ promote_types U8 I8 = I16 /\ promote_types U64 I8 = F64
  /\ gen_cc_min_num_states 2 3 (inr [2; 8]%Z) (inr [4; 3; 5]%Z) = Some [[2; 2; 2]; [4; 3; 5]]%Z
  /\ gen_cc_min_num_states 2 3 (inl 1%Z) (inr [4; 3; 5]%Z) = None
  /\ regular4 [[[[1; 0]; [0; 1]]; [[2; 0]; [0; 0]]]]%nat.
Proof.
  split; [vm_compute; reflexivity|]. split.
  { split; [discriminate|]. cbn [vals concat app dt]. repeat constructor; vm_compute; congruence. }
  split; [reflexivity|]. split; [reflexivity|]. split; [vm_compute; reflexivity|].
  split; [vm_compute; reflexivity|].
  intros r [<-|[]]. reflexivity.
Qed.
