(* C12: the stopping rule (Model/Prinz.v: sweep_l, prinz_loop, prinz_run_stop; the `logl` terms and the
   convergence test are generated from the source).  Whatever the pseudo log-likelihood and the test
   compute, in any number type:
   - the state part of a sweep-with-logl is the plain sweep;
   - the loop returns the state after exactly k sweeps, 1 <= k <= max_iter, k = max_iter unless it left
     by `break`;
   - the warning is raised exactly when k = max_iter, and then the result is the one of `prinz_run`
     with max_iter sweeps (this is the rule the harness uses to compare sweep by sweep);
   - over R, the returned state satisfies the invariant (symmetric, running row sums exact, >= 0). *)
From Coq Require Import List ZArith Reals Lra Lia Bool Arith.
From EV Require Import Prinz PrinzGen PrinzProofs PrinzSweep.
Import ListNotations.

Lemma iter_shift {A} (f : A -> A) m x : Nat.iter (S m) f x = Nat.iter m f (f x).
Proof. induction m as [| m IH]; [reflexivity|]. simpl in *. rewrite IH. reflexivity. Qed.

Section Generic.
  Context {K : Type}.
  Variable o : Ops K.
  Variable dg : K -> K -> K -> K -> K * K.
  Variable od : K -> K -> K -> K -> K -> K -> K -> K -> K * K * K * K.
  Variable dgl : K -> K -> K -> K -> K.
  Variable odl : K -> K -> K -> K -> K -> K -> K -> K -> K.
  Variable cont : K -> K -> K -> bool.
  Variable C : nat -> nat -> K.
  Variable Crs : nat -> K.

  Lemma diag_l_state l : forall s a,
    fst (fold_left (diag_step_l o dg dgl C Crs) l (s, a)) = fold_left (diag_step dg C Crs) l s.
  Proof. induction l as [| i l IH]; intros s a; [reflexivity|]. simpl. unfold diag_step_l at 2. cbn [fst snd]. apply IH. Qed.

  Lemma off_l_state l : forall s a,
    fst (fold_left (off_step_l o od odl C Crs) l (s, a)) = fold_left (off_step od C Crs) l s.
  Proof. induction l as [| p l IH]; intros s a; [reflexivity|]. simpl. unfold off_step_l at 2. cbn [fst snd]. apply IH. Qed.

  Theorem sweep_l_state n s : fst (sweep_l o dg od dgl odl C Crs n s) = sweep dg od C Crs n s.
  Proof.
    unfold sweep_l, sweep.
    destruct (fold_left (diag_step_l o dg dgl C Crs) (seq 0 n) (s, kofZ o 0)) as [s1 a1] eqn:E.
    rewrite off_l_state. f_equal.
    pose proof (diag_l_state (seq 0 n) s (kofZ o 0)) as H. rewrite E in H. exact H.
  Qed.

  Theorem prinz_loop_spec n tol : forall fuel done s old,
    let r := prinz_loop o dg od dgl odl cont C Crs n tol fuel done s old in
    exists m, (m <= fuel)%nat /\ snd (fst r) = (done + m)%nat /\
              fst (fst r) = Nat.iter m (sweep dg od C Crs n) s /\
              (snd r = false -> m = fuel) /\ (1 <= fuel -> 1 <= m)%nat.
  Proof.
    induction fuel as [| f IH]; intros done s old r.
    - exists 0%nat. unfold r. simpl. repeat split; try lia.
    - unfold r. simpl.
      destruct (cont tol (snd (sweep_l o dg od dgl odl C Crs n s)) old).
      + destruct (IH (S done) (fst (sweep_l o dg od dgl odl C Crs n s)) (snd (sweep_l o dg od dgl odl C Crs n s)))
          as [m [H1 [H2 [H3 [H4 _]]]]].
        exists (S m). repeat split.
        * lia.
        * rewrite H2. lia.
        * rewrite H3, sweep_l_state. symmetry. apply iter_shift.
        * intros Hb. rewrite (H4 Hb). reflexivity.
        * lia.
      + exists 1%nat. cbn [fst snd]. rewrite sweep_l_state. repeat split; try lia; try discriminate.
  Qed.

End Generic.

(* the function with the stopping rule returns the state after k sweeps, 1 <= k <= max_iter, and warns
   exactly when k = max_iter *)
Theorem run_stop_spec {K} (o : Ops K) dg od dgl odl cont (C : nat -> nat -> K) n tol max_iter r k w :
  (1 <= max_iter)%nat ->
  prinz_run_stop o dg od dgl odl cont n C tol max_iter = Some (r, k, w) ->
  (1 <= k <= max_iter)%nat /\ w = Nat.eqb k max_iter /\
  prinz_run o (sweep dg od) n C k = Some r.
Proof.
  intros Hm. unfold prinz_run_stop, prinz_run.
  destruct (all_pos o n (snd (init_state o n C)) && all_pos o n (fun i => sumK o n (C i))); [| discriminate].
  pose proof (prinz_loop_spec o dg od dgl odl cont C (fun i => sumK o n (C i)) n tol max_iter 0 (init_state o n C) (kofZ o 0)) as H.
  cbv zeta in H. destruct H as [m [H1 [H2 [H3 [_ H5]]]]].
  destruct (prinz_loop o dg od dgl odl cont C (fun i => sumK o n (C i)) n tol max_iter 0 (init_state o n C) (kofZ o 0))
    as [[s' k'] b] eqn:E.
  cbn [fst snd] in H2, H3.
  intros Heq. injection Heq as <- <- <-. subst k'. simpl. specialize (H5 Hm).
  repeat split; try lia. rewrite H3. reflexivity.
Qed.

(* warning_is_cap: a warned run is the run of exactly max_iter sweeps (what `prinz_run` computes) *)
Theorem warned_run_is_k_sweeps {K} (o : Ops K) dg od dgl odl cont n C tol max_iter r k :
  (1 <= max_iter)%nat ->
  prinz_run_stop o dg od dgl odl cont n C tol max_iter = Some (r, k, true) ->
  k = max_iter /\ prinz_run o (sweep dg od) n C max_iter = Some r.
Proof.
  intros Hm H. destruct (run_stop_spec o dg od dgl odl cont C n tol max_iter r k true Hm H) as [_ [Hw Hr]].
  symmetry in Hw. apply Nat.eqb_eq in Hw. subst k. split; [reflexivity | exact Hr].
Qed.

Theorem unwarned_run_stopped_early {K} (o : Ops K) dg od dgl odl cont n C tol max_iter r k :
  (1 <= max_iter)%nat ->
  prinz_run_stop o dg od dgl odl cont n C tol max_iter = Some (r, k, false) ->
  (1 <= k < max_iter)%nat /\ prinz_run o (sweep dg od) n C k = Some r.
Proof.
  intros Hm H. destruct (run_stop_spec o dg od dgl odl cont C n tol max_iter r k false Hm H) as [Hk [Hw Hr]].
  symmetry in Hw. apply Nat.eqb_neq in Hw. split; [lia | exact Hr].
Qed.

(* the guard clause is the same with and without the stopping rule *)
Theorem run_stop_rejects_iff {K} (o : Ops K) dg od dgl odl cont n C tol max_iter k :
  prinz_run_stop o dg od dgl odl cont n C tol max_iter = None <-> prinz_run o (sweep dg od) n C k = None.
Proof.
  unfold prinz_run_stop, prinz_run.
  destruct (all_pos o n (snd (init_state o n C)) && all_pos o n (fun i => sumK o n (C i))).
  - destruct (prinz_loop _ _ _ _ _ _ _ _ _ _ _ _ _ _) as [[s' k'] b]. split; discriminate.
  - split; reflexivity.
Qed.

(* over R, with the generated bodies: the state the stopped loop ends in satisfies the invariant *)
Local Open Scope R_scope.
Theorem stopped_state_invariant (lo : LOps R) n C Crs tol fuel : CInv n C Crs ->
  let r := prinz_loop ROps (py_diag ROps) (py_offdiag ROps) (py_diag_logl ROps lo) (py_offdiag_logl ROps lo)
             (py_continue ROps lo) C Crs n tol fuel 0 (init_state ROps n C) 0 in
  Inv n (fst (fst r)) /\ (snd (fst r) <= fuel)%nat.
Proof.
  intros HC r.
  destruct (prinz_loop_spec ROps (py_diag ROps) (py_offdiag ROps) (py_diag_logl ROps lo) (py_offdiag_logl ROps lo)
              (py_continue ROps lo) C Crs n tol fuel 0 (init_state ROps n C) 0) as [m [H1 [H2 [H3 _]]]].
  fold r in H2, H3. split; [| lia].
  rewrite H3. apply (iteration_invariant n C Crs HC m).
Qed.
