(* C07: the property end to end for ergodic (row-stochastic, irreducible; periodic allowed) matrices:
   the regenerated entry points return a value AND that value satisfies the first-step equations. *)
From Coq Require Import List QArith Bool Arith Lia Lqa.
From EV Require Import TPT TptBase TptGen TPTGen TPTProofs TPTExist TPTStationary TptGenProofs.
Import ListNotations.
Open Scope Q_scope.

Lemma idxb_single : forall n j, (j < n)%nat -> idxb n [j] = true.
Proof. intros n j Hj. unfold idxb. cbn [forallb]. apply Nat.ltb_lt in Hj. rewrite Hj. reflexivity. Qed.

Lemma irreducible_reaches_set : forall n T A a, irreducible n T -> In a A -> (a < n)%nat ->
  forall i, (i < n)%nat -> reaches n T A i.
Proof. intros n T A a Hirr Ha Han. apply (irreducible_reaches n T Hirr A a Ha Han). Qed.

Theorem ergodic_committors : forall n T src snk a,
  wfb n T = true -> idxb n src = true -> idxb n snk = true ->
  stochastic n (mget T) -> irreducible n (mget T) ->
  In a (src ++ snk) -> NoDup snk -> (forall i, In i src -> ~ In i snk) ->
  exists q, committors_g n T src snk = Some q /\ length q = n /\
            committor_eqs n (mget T) src snk (vget q) /\
            forall i, (i < n)%nat -> 0 <= vget q i /\ vget q i <= 1.
Proof.
  intros n T src snk a Hwf Hsrc Hsnk Hst Hirr Ha Hnd Hdisj.
  assert (Han : (a < n)%nat).
  { apply in_app_or in Ha. destruct Ha as [Ha|Ha]; [apply (idxb_lt n src Hsrc a Ha) | apply (idxb_lt n snk Hsnk a Ha)]. }
  pose proof (irreducible_reaches_set n (mget T) (src ++ snk) a Hirr Ha Han) as Hreach.
  destruct (committors_total n T src snk Hwf Hsrc Hsnk Hst Hreach) as [q Hq].
  exists q. rewrite gen_committors_eq.
  destruct (committor_system_sound n T src snk q Hq Hnd Hdisj) as [Hlen Heq].
  split; [exact Hq|]. split; [exact Hlen|]. split; [exact Heq|].
  exact (committor_bounds n T src snk q Hq Hnd Hdisj Hst Hreach).
Qed.

Theorem ergodic_mfpts_sinks : forall n T snk lag a,
  wfb n T = true -> idxb n snk = true -> stochastic n (mget T) -> irreducible n (mget T) -> In a snk ->
  exists t, mfpts_sinks_g n T snk lag = Some t /\ length t = n /\ mfpt_eqs n (mget T) snk lag (vget t).
Proof.
  intros n T snk lag a Hwf Hsnk Hst Hirr Ha.
  pose proof (irreducible_reaches_set n (mget T) snk a Hirr Ha (idxb_lt n snk Hsnk a Ha)) as Hreach.
  destruct (mfpts_sinks_total n T snk lag Hwf Hsnk Hst Hreach) as [t Ht].
  exists t. rewrite gen_mfpts_sinks_eq. split; [exact Ht|]. exact (mfpt_sink_sound n T snk lag t Ht).
Qed.

Theorem ergodic_mfpts_all : forall n T lag,
  (0 < n)%nat -> wfb n T = true -> stochastic n (mget T) -> irreducible n (mget T) ->
  exists M, mfpts_all_default_g n T lag = Some M /\
    (forall j, (j < n)%nat -> mfpt_eqs n (mget T) [j] lag (fun i => mget M i j)) /\
    (forall j, (j < n)%nat -> exists t, mfpts_sinks_g n T [j] lag = Some t /\
                                        forall i, (i < n)%nat -> mget M i j == vget t i).
Proof.
  intros n T lag Hn Hwf Hst Hirr.
  destruct (mfpts_all_default_total n T lag Hn Hwf Hst Hirr) as [M HM].
  exists M. rewrite gen_mfpts_all_default_eq. split; [exact HM|].
  assert (Hrow : forall i, (i < n)%nat -> sumq n (mget T i) == 1) by (intros i Hi; apply (Hst i Hi)).
  split.
  - exact (mfpt_all_default_sound n T lag M HM Hrow).
  - intros j Hj.
    assert (Hreach : forall i, (i < n)%nat -> reaches n (mget T) [j] i) by (intros i Hi; apply Hirr; assumption).
    destruct (mfpts_sinks_total n T [j] lag Hwf (idxb_single n j Hj) Hst Hreach) as [t Ht].
    exists t. rewrite gen_mfpts_sinks_eq. split; [exact Ht|].
    unfold mfpts_all_default in HM. destruct (stationary n T) as [pi|] eqn:Epi; [|discriminate].
    exact (mfpt_all_column_agrees n T pi lag M j t HM Ht Hst (stationary_sound n T pi Epi) Hj Hreach).
Qed.
