(* C07: the definitions regenerated from enspara/tpt/core.py (Gen/TptGen.v) are the hand-written
   ones of Model/TPT.v.  Equalities are Leibniz and pointwise (no functional extensionality). *)
From Coq Require Import List QArith Bool Arith Lia.
From EV Require Import TPT TptBase TptGen TPTGen TPTProofs TPTExist.
Import ListNotations.
Open Scope Q_scope.

(* ------------------------------------------------------------------ the solver only looks at values *)
Lemma sumq_ext_eq : forall n f g, (forall i, f i = g i) -> sumq n f = sumq n g.
Proof.
  induction n as [|n IH]; intros f g H; cbn [sumq].
  - reflexivity.
  - rewrite (IH f g H), (H n). reflexivity.
Qed.

Lemma forallb_ext_eq : forall (A : Type) (f g : A -> bool) l, (forall x, f x = g x) -> forallb f l = forallb g l.
Proof.
  intros A f g l H. induction l as [|x r IH]; cbn [forallb]; [reflexivity | rewrite H, IH; reflexivity].
Qed.

Lemma solve_ext : forall n m A A' R R',
  (forall i j, A i j = A' i j) -> (forall i k, R i k = R' i k) -> solve n m A R = solve n m A' R'.
Proof.
  intros n m A A' R R' HA HR. unfold solve.
  replace (map (fun i => map (A i) (seq 0 n) ++ map (R i) (seq 0 m)) (seq 0 n))
    with (map (fun i => map (A' i) (seq 0 n) ++ map (R' i) (seq 0 m)) (seq 0 n)); [reflexivity|].
  apply map_ext. intros i. f_equal; apply map_ext; intros; symmetry; [apply HA | apply HR].
Qed.

Lemma is_solution_ext : forall n m A A' X R R',
  (forall i j, A i j = A' i j) -> (forall i k, R i k = R' i k) ->
  is_solution n m A X R = is_solution n m A' X R'.
Proof.
  intros n m A A' X R R' HA HR. unfold is_solution.
  apply forallb_ext_eq. intros i. apply forallb_ext_eq. intros k.
  rewrite (HR i k). rewrite (sumq_ext_eq n (fun j => A i j * X j k) (fun j => A' i j * X j k)).
  - reflexivity.
  - intros j. rewrite (HA i j). reflexivity.
Qed.

Lemma solve_checked_ext : forall n m A A' R R',
  (forall i j, A i j = A' i j) -> (forall i k, R i k = R' i k) ->
  solve_checked n m A R = solve_checked n m A' R'.
Proof.
  intros n m A A' R R' HA HR. unfold solve_checked.
  rewrite (solve_ext n m A A' R R' HA HR).
  destruct (solve n m A' R') as [X|]; [|reflexivity].
  rewrite (is_solution_ext n m A A' (mget X) R R' HA HR). reflexivity.
Qed.

(* ------------------------------------------------------------------ _I_m_Q *)
(* X[idx, idx] = s touches exactly the diagonal cells of the members of idx *)
Lemma pairs_diag : forall (A : list nat) i j,
  existsb (fun k => Nat.eqb (nth k A O) i && Nat.eqb (nth k A O) j) (seq 0 (Nat.min (length A) (length A)))
  = memb i A && Nat.eqb i j.
Proof.
  intros A i j. rewrite Nat.min_id.
  destruct (existsb _ _) eqn:E.
  - apply existsb_exists in E. destruct E as [k [Hk Hc]]. apply in_seq in Hk.
    apply andb_true_iff in Hc. destruct Hc as [H1 H2].
    apply Nat.eqb_eq in H1. apply Nat.eqb_eq in H2. symmetry. apply andb_true_iff. split.
    + apply memb_In. rewrite <- H1. apply nth_In. lia.
    + apply Nat.eqb_eq. congruence.
  - symmetry. apply andb_false_iff.
    destruct (memb i A) eqn:Hm; [|left; reflexivity]. right.
    destruct (Nat.eqb_spec i j) as [->|Hne]; [|reflexivity]. exfalso.
    apply memb_In in Hm. destruct (In_nth A j O Hm) as [k [Hk Hnth]].
    assert (Ht : existsb (fun k0 => Nat.eqb (nth k0 A O) j && Nat.eqb (nth k0 A O) j) (seq 0 (length A)) = true).
    { apply existsb_exists. exists k. split; [apply in_seq; lia|].
      rewrite Hnth, Nat.eqb_refl. reflexivity. }
    rewrite Ht in E. discriminate.
Qed.

(* the masked I - T as the source builds it (columns, then rows, then the unit diagonal) is the model's ImQ *)
Theorem gen_I_m_Q_eq : forall (T : arr2) (A : list nat) (n i j : nat), gen_I_m_Q T A n i j = ImQ T A i j.
Proof.
  intros T A n i j. unfold gen_I_m_Q, a_setpairs, a_setrows, a_setcols, a_sub, a_eye, ImQ, delta.
  rewrite pairs_diag.
  destruct (memb i A) eqn:Hi; cbn [andb orb].
  - destruct (Nat.eqb i j); reflexivity.
  - destruct (memb j A) eqn:Hj.
    + destruct (Nat.eqb_spec i j) as [->|Hne]; [congruence | reflexivity].
    + reflexivity.
Qed.

(* ------------------------------------------------------------------ committors *)
(* the right-hand side as the source builds it: columns of the sinks, sink rows := 1, THEN source rows := 0 *)
Theorem gen_committors_eq : forall n T src snk, committors_g n T src snk = committors n T src snk.
Proof.
  intros n T src snk. unfold committors_g, committors, gen_committors, a_solve, obind, i_norm, i_append.
  destruct (wfb n T && idxb n src && idxb n snk); [|reflexivity].
  rewrite (solve_checked_ext n (length snk)
             (gen_I_m_Q (mget T) (src ++ snk) n) (ImQ (mget T) (src ++ snk))
             (a_setrows (a_setrows (a_takecols (mget T) snk) snk (Qmake 1 1)) src (Qmake 0 1))
             (Rhs (mget T) src snk)).
  - destruct (solve_checked n (length snk) (ImQ (mget T) (src ++ snk)) (Rhs (mget T) src snk)) as [B|];
      reflexivity.
  - intros i j. apply gen_I_m_Q_eq.
  - intros i k. reflexivity.
Qed.

(* ------------------------------------------------------------------ mfpts, sink set *)
Theorem gen_mfpts_sinks_eq : forall n T snk lag, mfpts_sinks_g n T snk lag = mfpts_sinks n T snk lag.
Proof.
  intros n T snk lag. unfold mfpts_sinks_g, mfpts_sinks, gen_mfpts_sinks, a_solve_vec, obind, i_norm.
  destruct (wfb n T && idxb n snk); [|reflexivity].
  rewrite (solve_checked_ext n 1
             (gen_I_m_Q (mget T) snk n) (ImQ (mget T) snk)
             (fun i (_ : nat) => v_set (v_ones n) snk (Qmake 0 1) i) (mfpt_rhs snk)).
  - destruct (solve_checked n 1 (ImQ (mget T) snk) (mfpt_rhs snk)) as [X|]; reflexivity.
  - intros i j. apply gen_I_m_Q_eq.
  - intros i k. reflexivity.
Qed.

(* ------------------------------------------------------------------ mfpts, all pairs *)
Theorem gen_mfpts_all_eq : forall n T pi lag, mfpts_all_g n T pi lag = mfpts_all n T pi lag.
Proof.
  intros n T pi lag. unfold mfpts_all_g, mfpts_all, gen_mfpts_all, a_inv, obind.
  destruct (wfb n T && Nat.eqb (length pi) n &&
            forallb (fun j => negb (Qeq_bool (vget pi j) 0)) (seq 0 n)); [|reflexivity].
  rewrite (solve_checked_ext n n
             (a_add (a_sub (a_eye n) (mget T)) (a_tile_rows (vget pi) n)) (fund (mget T) (vget pi))
             (a_eye n) delta).
  - destruct (solve_checked n n (fund (mget T) (vget pi)) delta) as [Z|]; reflexivity.
  - intros i j. reflexivity.
  - intros i k. reflexivity.
Qed.

Theorem gen_mfpts_all_default_eq : forall n T lag, mfpts_all_default_g n T lag = mfpts_all_default n T lag.
Proof.
  intros n T lag. unfold mfpts_all_default_g, mfpts_all_default.
  destruct (stationary n T) as [pi|]; [apply gen_mfpts_all_eq | reflexivity].
Qed.

(* ------------------------------------------------------------------ the first-step theorems, restated on the generated definitions *)
Theorem gen_committor_first_step : forall n T src snk q,
  committors_g n T src snk = Some q ->
  NoDup snk -> (forall i, In i src -> ~ In i snk) ->
  length q = n /\ committor_eqs n (mget T) src snk (vget q).
Proof. intros n T src snk q H. rewrite gen_committors_eq in H. apply committor_system_sound. exact H. Qed.

Theorem gen_mfpt_sinks_first_step : forall n T snk lag t,
  mfpts_sinks_g n T snk lag = Some t ->
  length t = n /\ mfpt_eqs n (mget T) snk lag (vget t).
Proof. intros n T snk lag t H. rewrite gen_mfpts_sinks_eq in H. apply mfpt_sink_sound. exact H. Qed.

Theorem gen_mfpt_all_first_step : forall n T pi lag M,
  mfpts_all_g n T pi lag = Some M ->
  (forall i, (i < n)%nat -> sumq n (mget T i) == 1) ->
  stationary_dist n (mget T) (vget pi) ->
  forall j, (j < n)%nat -> mfpt_eqs n (mget T) [j] lag (fun i => mget M i j).
Proof. intros n T pi lag M H. rewrite gen_mfpts_all_eq in H. apply mfpt_all_sound. exact H. Qed.

(* ------------------------------------------------------------------ existence (Proof/TPTExist.v) on the generated definitions *)
Theorem ImQ_system_solvable : forall n m T A (b : nat -> nat -> Q), stochastic n T ->
  (forall i, (i < n)%nat -> reaches n T A i) ->
  exists X, forall i k, (i < n)%nat -> (k < m)%nat ->
    sumq n (fun j => ImQ T A i j * mget X j k) == b i k.
Proof.
  intros n m T A b Hst Hr.
  destruct (solve_checked_total n m (ImQ T A) b (ImQ_injective n T A Hst Hr)) as [X HX].
  exists X. exact (solve_checked_sound n m (ImQ T A) b X HX).
Qed.

Theorem gen_committors_total : forall n T src snk,
  wfb n T = true -> idxb n src = true -> idxb n snk = true -> stochastic n (mget T) ->
  (forall i, (i < n)%nat -> reaches n (mget T) (src ++ snk) i) ->
  exists q, committors_g n T src snk = Some q.
Proof. intros n T src snk. rewrite gen_committors_eq. apply committors_total. Qed.

Theorem gen_mfpts_sinks_total : forall n T snk lag,
  wfb n T = true -> idxb n snk = true -> stochastic n (mget T) ->
  (forall i, (i < n)%nat -> reaches n (mget T) snk i) ->
  exists t, mfpts_sinks_g n T snk lag = Some t.
Proof. intros n T snk lag. rewrite gen_mfpts_sinks_eq. apply mfpts_sinks_total. Qed.
