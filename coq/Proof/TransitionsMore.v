(* C20: what the reported transition frames say about the state sequence between them. *)
From Coq Require Import List ZArith Lia Sorted Arith.
From EV Require Import RotamerBase RotamerGen Rotamer RotamerProofs.
Import ListNotations.
Open Scope nat_scope.

(* a reported frame has a successor inside the same trajectory *)
Theorem transitions_bound row k : In k (transitions row) -> S k < length row.
Proof.
  intros H. apply transitions_iff in H. destruct H as [x [y [_ [H _]]]].
  apply nth_error_Some. congruence.
Qed.

Lemma trans_from_length row : forall n, length (trans_from n row) <= pred (length row).
Proof.
  induction row as [|x r IH]; intros n; [cbn; lia|].
  destruct r as [|y r']; [cbn; lia|].
  rewrite trans_from_cons2. specialize (IH (S n)). cbn [length pred] in *.
  destruct (x =? y)%Z; cbn [length]; lia.
Qed.

(* never more transitions than adjacent pairs *)
Theorem transitions_length row : length (transitions row) <= pred (length row).
Proof. apply trans_from_length. Qed.

(* no transition reported in [i, j)  =>  frames i and j are in the same state *)
Theorem no_transition_same_state row d : forall j i,
  i <= j -> j < length row -> (forall k, i <= k < j -> ~ In k (transitions row)) ->
  nth i row d = nth j row d.
Proof.
  induction j as [|j IH]; intros i Hij Hj Hno.
  - replace i with 0 by lia. reflexivity.
  - destruct (Nat.eq_dec i (S j)) as [->|Hne]; [reflexivity|].
    rewrite (IH i ltac:(lia) ltac:(lia)) by (intros k Hk; apply Hno; lia).
    destruct (nth_error row j) as [x|] eqn:Ex; [|apply nth_error_None in Ex; lia].
    destruct (nth_error row (S j)) as [y|] eqn:Ey; [|apply nth_error_None in Ey; lia].
    rewrite (nth_error_nth _ _ d Ex), (nth_error_nth _ _ d Ey).
    destruct (Z.eq_dec x y) as [E|NE]; [exact E|].
    exfalso. apply (Hno j ltac:(lia)). apply transitions_iff. exists x, y. repeat split; assumption.
Qed.

(* nothing reported at all  <=>  the trajectory never changes state *)
Theorem transitions_nil_iff_constant row d :
  transitions row = [] <-> forall i j, i < length row -> j < length row -> nth i row d = nth j row d.
Proof.
  split.
  - intros E i j Hi Hj.
    assert (G : forall a b, a <= b -> b < length row -> nth a row d = nth b row d).
    { intros a b Hab Hb. apply no_transition_same_state; [exact Hab|exact Hb|]. intros k _. rewrite E. intros []. }
    destruct (Nat.le_ge_cases i j) as [H|H]; [apply G; assumption|symmetry; apply G; assumption].
  - intros H. destruct (transitions row) as [|k r] eqn:E; [reflexivity|exfalso].
    assert (Hin : In k (transitions row)) by (rewrite E; left; reflexivity).
    pose proof (transitions_bound row k Hin) as Hb.
    apply transitions_iff in Hin. destruct Hin as [x [y [Hx [Hy Hxy]]]].
    apply Hxy. rewrite <- (nth_error_nth _ _ d Hx), <- (nth_error_nth _ _ d Hy). apply H; lia.
Qed.

(* between two consecutive reported frames the state is constant: the state sequence is a step
   function whose jumps are exactly the reported frames *)
Theorem state_changes_only_at_transitions row d i j :
  i <= j -> j < length row -> nth i row d <> nth j row d ->
  exists k, i <= k < j /\ In k (transitions row).
Proof.
  intros Hij Hj Hne.
  assert (Hdec : forall k, {In k (transitions row)} + {~ In k (transitions row)}) by (intros k; apply in_dec, Nat.eq_dec).
  assert (G : forall m, m <= j - i -> (exists k, i <= k < i + m /\ In k (transitions row)) \/
                         (forall k, i <= k < i + m -> ~ In k (transitions row))).
  { induction m as [|m IHm]; intros Hm; [right; intros k Hk; lia|].
    destruct (IHm ltac:(lia)) as [[k [Hk Hin]]|Hno].
    - left. exists k. split; [lia|exact Hin].
    - destruct (Hdec (i + m)) as [Hin|Hnin].
      + left. exists (i + m). split; [lia|exact Hin].
      + right. intros k Hk. destruct (Nat.eq_dec k (i + m)) as [->|Hk']; [exact Hnin|apply Hno; lia]. }
  destruct (G (j - i) (le_n _)) as [[k [Hk Hin]]|Hno].
  - exists k. split; [lia|exact Hin].
  - exfalso. apply Hne. apply no_transition_same_state; [exact Hij|exact Hj|]. intros k Hk. apply Hno. lia.
Qed.
