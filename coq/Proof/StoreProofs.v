(* C15: proofs about Model/Store.v, part 1: strings, zero-padded decimal keys, listing order,
   strided lengths.  (Buffers, schedules and the load theorems are in StoreLoadProofs.v.) *)
From Coq Require Import List ZArith Lia Bool Permutation Sorted.
From EV Require Import PySlice Store.
Import ListNotations.
Open Scope nat_scope.

(* ------------------------------------------------------------------ lexicographic order *)
Lemma lex_ltb_irrefl : forall a, lex_ltb a a = false.
Proof.
  induction a as [|x a IH]; [reflexivity|]. cbn [lex_ltb]. rewrite Nat.ltb_irrefl. exact IH.
Qed.

Lemma lex_ltb_asym : forall a b, lex_ltb a b = true -> lex_ltb b a = false.
Proof.
  induction a as [|x a IH]; intros [|y b] H; cbn [lex_ltb] in *; try congruence.
  destruct (x <? y) eqn:Exy.
  - apply Nat.ltb_lt in Exy.
    assert (E : (y <? x) = false) by (apply Nat.ltb_ge; lia). rewrite E. reflexivity.
  - destruct (y <? x) eqn:Eyx; [discriminate|]. apply IH. exact H.
Qed.

Lemma lex_ltb_trans : forall a b c, lex_ltb a b = true -> lex_ltb b c = true -> lex_ltb a c = true.
Proof.
  induction a as [|x a IH]; intros [|y b] [|z c] H1 H2; cbn [lex_ltb] in *; try congruence.
  destruct (x <? y) eqn:Exy; destruct (y <? z) eqn:Eyz.
  - apply Nat.ltb_lt in Exy, Eyz. assert (E : (x <? z) = true) by (apply Nat.ltb_lt; lia).
    rewrite E. reflexivity.
  - destruct (z <? y) eqn:Ezy; [discriminate|]. apply Nat.ltb_lt in Exy.
    apply Nat.ltb_ge in Eyz, Ezy. assert (E : (x <? z) = true) by (apply Nat.ltb_lt; lia).
    rewrite E. reflexivity.
  - destruct (y <? x) eqn:Eyx; [discriminate|]. apply Nat.ltb_lt in Eyz.
    apply Nat.ltb_ge in Exy, Eyx. assert (E : (x <? z) = true) by (apply Nat.ltb_lt; lia).
    rewrite E. reflexivity.
  - destruct (y <? x) eqn:Eyx; [discriminate|]. destruct (z <? y) eqn:Ezy; [discriminate|].
    apply Nat.ltb_ge in Exy, Eyx, Eyz, Ezy. assert (x = z) by lia. subst z.
    rewrite Nat.ltb_irrefl. apply (IH b c); assumption.
Qed.

(* two different strings are ordered one way or the other *)
Lemma lex_ltb_total : forall a b, lex_ltb a b = false -> lex_ltb b a = false -> a = b.
Proof.
  induction a as [|x a IH]; intros [|y b] H1 H2; cbn [lex_ltb] in *; try congruence.
  destruct (x <? y) eqn:Exy; [discriminate|]. destruct (y <? x) eqn:Eyx; [discriminate|].
  apply Nat.ltb_ge in Exy, Eyx. assert (x = y) by lia. subst y. f_equal. apply IH; assumption.
Qed.

Lemma lex_ltb_prefix : forall p a b, lex_ltb (p ++ a) (p ++ b) = lex_ltb a b.
Proof.
  induction p as [|x p IH]; intros a b; [reflexivity|].
  cbn [app lex_ltb]. rewrite Nat.ltb_irrefl. apply IH.
Qed.

Lemma lex_ltb_map_mono (f : nat -> nat) :
  (forall x y, x < y -> f x < f y) ->
  forall a b, lex_ltb (map f a) (map f b) = lex_ltb a b.
Proof.
  intros Hf. induction a as [|x a IH]; intros [|y b]; cbn [map lex_ltb]; try reflexivity.
  destruct (x <? y) eqn:Exy.
  - apply Nat.ltb_lt in Exy. apply Hf in Exy. apply Nat.ltb_lt in Exy. rewrite Exy. reflexivity.
  - destruct (y <? x) eqn:Eyx.
    + apply Nat.ltb_lt in Eyx. pose proof (Hf _ _ Eyx) as Hlt.
      assert (E1 : (f x <? f y) = false) by (apply Nat.ltb_ge; lia).
      assert (E2 : (f y <? f x) = true) by (apply Nat.ltb_lt; lia).
      rewrite E1, E2. reflexivity.
    + apply Nat.ltb_ge in Exy, Eyx. assert (x = y) by lia. subst y.
      rewrite Nat.ltb_irrefl. apply IH.
Qed.

Lemma str_eqb_eq : forall a b, str_eqb a b = true <-> a = b.
Proof.
  induction a as [|x a IH]; intros [|y b]; cbn [str_eqb]; split; intros H; try congruence; try reflexivity.
  - apply andb_true_iff in H. destruct H as [H1 H2]. apply Nat.eqb_eq in H1. apply IH in H2. congruence.
  - injection H as -> ->. rewrite Nat.eqb_refl. apply IH. reflexivity.
Qed.

(* ------------------------------------------------------------------ decimal numerals *)
(* value of a digit string, most significant digit first *)
Fixpoint val (l : list nat) : nat :=
  match l with
  | [] => 0
  | x :: r => x * 10 ^ length r + val r
  end.

Lemma pow10_pos : forall n, 0 < 10 ^ n.
Proof. intros n. induction n as [|n IH]; cbn [Nat.pow]; lia. Qed.

Lemma val_bound : forall l, Forall (fun d => d < 10) l -> val l < 10 ^ length l.
Proof.
  induction l as [|x l IH]; intros H; cbn [val length Nat.pow]; [lia|].
  inversion H as [|? ? Hx Hl]; subst. specialize (IH Hl). pose proof (pow10_pos (length l)). nia.
Qed.

Lemma digits_fuel_val : forall fuel n acc,
  n < fuel -> val (digits_fuel fuel n acc) = n * 10 ^ length acc + val acc.
Proof.
  induction fuel as [|f IH]; intros n acc Hn; [lia|].
  cbn [digits_fuel]. destruct (n <? 10) eqn:E.
  - reflexivity.
  - apply Nat.ltb_ge in E.
    assert (Hd : n / 10 < f).
    { assert (n / 10 < n) by (apply Nat.div_lt; lia). lia. }
    rewrite (IH _ _ Hd). cbn [val length Nat.pow].
    pose proof (Nat.div_mod n 10) as Hdm.
    assert (Hn' : n = 10 * (n / 10) + n mod 10) by (apply Hdm; lia).
    rewrite Hn' at 3. nia.
Qed.

Lemma digits_fuel_lt10 : forall fuel n acc,
  Forall (fun d => d < 10) acc -> Forall (fun d => d < 10) (digits_fuel fuel n acc).
Proof.
  induction fuel as [|f IH]; intros n acc H; [exact H|].
  cbn [digits_fuel]. destruct (n <? 10) eqn:E.
  - apply Nat.ltb_lt in E. constructor; assumption.
  - apply IH. constructor; [|exact H]. apply Nat.mod_upper_bound. lia.
Qed.

Lemma digits_fuel_len_ge : forall fuel n acc,
  0 < fuel -> S (length acc) <= length (digits_fuel fuel n acc).
Proof.
  induction fuel as [|f IH]; intros n acc H; [lia|].
  cbn [digits_fuel]. destruct (n <? 10) eqn:E; [cbn [length]; lia|].
  destruct f as [|f'].
  - cbn [digits_fuel length]. lia.
  - specialize (IH (n / 10) (n mod 10 :: acc)). cbn [length] in IH. lia.
Qed.

Lemma digits_fuel_len_mono : forall f1 f2 i n acc1 acc2,
  i <= n -> i < f1 -> n < f2 -> length acc1 = length acc2 ->
  length (digits_fuel f1 i acc1) <= length (digits_fuel f2 n acc2).
Proof.
  induction f1 as [|f1 IH]; intros f2 i n acc1 acc2 Hin Hi Hn Hacc; [lia|].
  destruct f2 as [|f2]; [lia|]. cbn [digits_fuel].
  destruct (i <? 10) eqn:Ei.
  - destruct (n <? 10) eqn:En; [cbn [length]; lia|].
    apply Nat.ltb_ge in En.
    assert (Hf : 0 < f2).
    { assert (0 < n / 10) by (apply Nat.div_str_pos; lia).
      assert (n / 10 < n) by (apply Nat.div_lt; lia). lia. }
    pose proof (digits_fuel_len_ge f2 (n / 10) (n mod 10 :: acc2) Hf) as Hge.
    cbn [length] in *. lia.
  - apply Nat.ltb_ge in Ei. assert (En : (n <? 10) = false) by (apply Nat.ltb_ge; lia).
    rewrite En. apply IH.
    + apply Nat.div_le_mono; lia.
    + assert (i / 10 < i) by (apply Nat.div_lt; lia). lia.
    + assert (n / 10 < n) by (apply Nat.div_lt; lia). lia.
    + cbn [length]. lia.
Qed.

Lemma digits_val : forall n, val (digits n) = n.
Proof. intros n. unfold digits. rewrite digits_fuel_val by lia. cbn [length Nat.pow val]. lia. Qed.

Lemma digits_lt10 : forall n, Forall (fun d => d < 10) (digits n).
Proof. intros n. apply digits_fuel_lt10. constructor. Qed.

Lemma digits_len_mono : forall i n, i <= n -> length (digits i) <= length (digits n).
Proof. intros i n H. unfold digits. apply digits_fuel_len_mono; try lia; reflexivity. Qed.

Lemma digits_len_pos : forall n, 1 <= length (digits n).
Proof. intros n. unfold digits. pose proof (digits_fuel_len_ge (S n) n [] ltac:(lia)). cbn [length] in *. lia. Qed.

(* equal-width digit strings order like the numbers they denote *)
Lemma lex_ltb_val : forall a b,
  length a = length b -> Forall (fun d => d < 10) a -> Forall (fun d => d < 10) b ->
  (lex_ltb a b = true <-> val a < val b).
Proof.
  induction a as [|x a IH]; intros [|y b] Hlen Ha Hb; cbn [length] in Hlen; try discriminate.
  - cbn. split; [discriminate|lia].
  - inversion Ha as [|? ? Hx Ha']; inversion Hb as [|? ? Hy Hb']; subst.
    injection Hlen as Hlen. specialize (IH b Hlen Ha' Hb').
    pose proof (val_bound a Ha') as Ba. pose proof (val_bound b Hb') as Bb.
    cbn [lex_ltb val]. rewrite <- Hlen in *. set (P := 10 ^ length a) in *.
    destruct (x <? y) eqn:Exy.
    + apply Nat.ltb_lt in Exy. split; [intros _; nia|reflexivity].
    + destruct (y <? x) eqn:Eyx.
      * apply Nat.ltb_lt in Eyx. split; [discriminate|nia].
      * apply Nat.ltb_ge in Exy, Eyx. assert (x = y) by lia. subst y.
        rewrite IH. lia.
Qed.

Lemma val_zeros : forall k l, val (repeat 0 k ++ l) = val l.
Proof. induction k as [|k IH]; intros l; [reflexivity|]. cbn [repeat app val]. rewrite IH. lia. Qed.

(* zfill at the level of digits *)
Definition zfill_d (w : nat) (ds : list nat) : list nat := repeat 0 (w - length ds) ++ ds.

Lemma zfill_digits : forall w ds, zfill w (map chr_digit ds) = map chr_digit (zfill_d w ds).
Proof.
  intros w ds. unfold zfill, zfill_d. rewrite map_app, map_length. f_equal.
  induction (w - length ds) as [|k IH]; [reflexivity|]. cbn [repeat map]. rewrite <- IH. reflexivity.
Qed.

Lemma zfill_d_length : forall w ds, length ds <= w -> length (zfill_d w ds) = w.
Proof. intros w ds H. unfold zfill_d. rewrite app_length, repeat_length. lia. Qed.

Lemma zfill_d_lt10 : forall w ds, Forall (fun d => d < 10) ds -> Forall (fun d => d < 10) (zfill_d w ds).
Proof.
  intros w ds H. unfold zfill_d. apply Forall_app. split; [|exact H].
  induction (w - length ds) as [|k IH]; cbn [repeat]; constructor; [lia|exact IH].
Qed.

Lemma key_split : forall tag w i,
  key tag w i = (tag ++ [95]) ++ map chr_digit (zfill_d w (digits i)).
Proof.
  intros tag w i. unfold key, str_of_nat. rewrite zfill_digits, <- app_assoc. reflexivity.
Qed.

(* the heart of the matter: for any common width that fits the larger number, the zero-padded
   names of i < j compare like i and j *)
Lemma key_lt_width : forall tag w i j,
  i < j -> length (digits j) <= w -> lex_ltb (key tag w i) (key tag w j) = true.
Proof.
  intros tag w i j Hij Hw. rewrite !key_split, lex_ltb_prefix.
  rewrite lex_ltb_map_mono by (intros x y Hxy; unfold chr_digit; lia).
  pose proof (digits_len_mono i j ltac:(lia)) as Hi.
  apply lex_ltb_val.
  - rewrite !zfill_d_length by lia. reflexivity.
  - apply zfill_d_lt10, digits_lt10.
  - apply zfill_d_lt10, digits_lt10.
  - unfold zfill_d. rewrite !val_zeros, !digits_val. exact Hij.
Qed.

(* ... and the width save picks, len(str(n)) + 1, fits every row number below n (indeed n itself) *)
Lemma keys_lt : forall tag n i j,
  i < j -> j < n -> lex_ltb (key tag (n_zeros n) i) (key tag (n_zeros n) j) = true.
Proof.
  intros tag n i j Hij Hjn. apply key_lt_width; [exact Hij|].
  unfold n_zeros, str_of_nat. rewrite map_length.
  pose proof (digits_len_mono j n ltac:(lia)). lia.
Qed.

Lemma key_inj_width : forall tag w i j,
  length (digits i) <= w -> length (digits j) <= w -> key tag w i = key tag w j -> i = j.
Proof.
  intros tag w i j Hi Hj E.
  destruct (Nat.lt_trichotomy i j) as [H | [H | H]]; [|exact H|].
  - pose proof (key_lt_width tag w i j H Hj) as L. rewrite E, lex_ltb_irrefl in L. discriminate.
  - pose proof (key_lt_width tag w j i H Hi) as L. rewrite E, lex_ltb_irrefl in L. discriminate.
Qed.

Definition str_lt (a b : str) : Prop := lex_ltb a b = true.

Lemma keys_strongly_sorted_from : forall tag w m k,
  (forall j, j < k + m -> length (digits j) <= w) ->
  StronglySorted str_lt (map (key tag w) (seq k m)).
Proof.
  intros tag w m. induction m as [|m IH]; intros k Hw; cbn [seq map]; [constructor|].
  constructor.
  - apply IH. intros j Hj. apply Hw. lia.
  - apply Forall_forall. intros s Hs. apply in_map_iff in Hs. destruct Hs as [j [<- Hj]].
    apply in_seq in Hj. apply key_lt_width; [lia|]. apply Hw. lia.
Qed.

Lemma n_zeros_fits : forall n j, j < n -> length (digits j) <= n_zeros n.
Proof.
  intros n j H. unfold n_zeros, str_of_nat. rewrite map_length.
  pose proof (digits_len_mono j n ltac:(lia)). lia.
Qed.

Lemma keys_strongly_sorted : forall tag n,
  StronglySorted str_lt (map (key tag (n_zeros n)) (seq 0 n)).
Proof. intros tag n. apply keys_strongly_sorted_from. intros j Hj. apply n_zeros_fits. lia. Qed.

(* ------------------------------------------------------------------ listing order *)
Lemma sort_sorted_id : forall l, StronglySorted str_lt l -> sort_keys l = l.
Proof.
  induction l as [|h t IH]; intros H; [reflexivity|].
  inversion H as [|? ? Ht Hh]; subst. cbn [sort_keys fold_right]. fold (sort_keys t). rewrite (IH Ht).
  destruct t as [|h2 t2]; [reflexivity|]. cbn [insert_key].
  inversion Hh as [|? ? Hlt _]; subst. unfold str_lt in Hlt.
  rewrite (lex_ltb_asym _ _ Hlt). reflexivity.
Qed.

Lemma insert_key_perm : forall k l, Permutation (k :: l) (insert_key k l).
Proof.
  intros k l. induction l as [|h t IH]; cbn [insert_key]; [apply Permutation_refl|].
  destruct (lex_ltb h k); [|apply Permutation_refl].
  eapply Permutation_trans; [apply perm_swap|]. apply perm_skip. exact IH.
Qed.

Lemma sort_keys_perm : forall l, Permutation l (sort_keys l).
Proof.
  induction l as [|h t IH]; [constructor|]. cbn [sort_keys fold_right]. fold (sort_keys t).
  eapply Permutation_trans; [apply perm_skip; exact IH|]. apply insert_key_perm.
Qed.

(* weak order: not (b < a) *)
Definition str_le (a b : str) : Prop := lex_ltb b a = false.

Lemma insert_key_sorted : forall k l, Sorted str_le l -> Sorted str_le (insert_key k l).
Proof.
  intros k l. induction l as [|h t IH]; intros H; cbn [insert_key].
  - repeat constructor.
  - destruct (lex_ltb h k) eqn:E.
    + inversion H as [|? ? Ht Hh]; subst. constructor; [apply IH; exact Ht|].
      destruct t as [|h2 t2]; cbn [insert_key].
      * constructor. unfold str_le. apply lex_ltb_asym. exact E.
      * destruct (lex_ltb h2 k) eqn:E2.
        -- constructor. inversion Hh; subst. assumption.
        -- constructor. unfold str_le. apply lex_ltb_asym. exact E.
    + constructor; [exact H|]. constructor. unfold str_le. exact E.
Qed.

Lemma sort_keys_sorted : forall l, Sorted str_le (sort_keys l).
Proof.
  induction l as [|h t IH]; [constructor|]. cbn [sort_keys fold_right]. fold (sort_keys t).
  apply insert_key_sorted. exact IH.
Qed.

Lemma str_le_trans : forall a b c, str_le a b -> str_le b c -> str_le a c.
Proof.
  unfold str_le. intros a b c H1 H2. destruct (lex_ltb c a) eqn:E; [|reflexivity].
  (* c < a, not b < a, so ... *)
  destruct (lex_ltb a b) eqn:Eab.
  - pose proof (lex_ltb_trans _ _ _ E Eab) as T. congruence.
  - pose proof (lex_ltb_total _ _ Eab H1) as ->. congruence.
Qed.

(* a weakly sorted list and a strictly sorted list with the same elements are equal *)
Lemma sorted_perm_unique : forall l L,
  Sorted str_le l -> StronglySorted str_lt L -> Permutation l L -> l = L.
Proof.
  intros l L Hl. apply Sorted_StronglySorted in Hl; [|intros a b c; apply str_le_trans].
  revert L. induction Hl as [|h t Ht IH Hh]; intros L HL HP.
  - apply Permutation_nil in HP. subst. reflexivity.
  - destruct L as [|H T]; [apply Permutation_sym, Permutation_nil in HP; discriminate|].
    inversion HL as [|? ? HT HH]; subst.
    assert (Ehh : h = H).
    { assert (I1 : In h (H :: T)) by (eapply Permutation_in; [exact HP|left; reflexivity]).
      assert (I2 : In H (h :: t))
        by (eapply Permutation_in; [apply Permutation_sym; exact HP|left; reflexivity]).
      destruct I1 as [->|I1]; [reflexivity|]. destruct I2 as [->|I2]; [reflexivity|].
      rewrite Forall_forall in Hh, HH. pose proof (Hh _ I2) as A. pose proof (HH _ I1) as B.
      unfold str_le, str_lt in *. congruence. }
    subst H. f_equal. apply IH; [exact HT|]. eapply Permutation_cons_inv. exact HP.
Qed.

(* whatever order the file holds its nodes in, listing a strictly sortable set gives the sorted list *)
Lemma sort_keys_of_perm : forall l L,
  Permutation l L -> StronglySorted str_lt L -> sort_keys l = L.
Proof.
  intros l L HP HL. apply sorted_perm_unique; [apply sort_keys_sorted|exact HL|].
  eapply Permutation_trans; [apply Permutation_sym, sort_keys_perm|exact HP].
Qed.
