(* C15: proofs about Model/Store.v *)
From Coq Require Import List ZArith Lia Bool Permutation Sorted.
From EV Require Import PySlice Store.
Import ListNotations.
Open Scope nat_scope.

Lemma lex_ltb_irrefl : forall a, lex_ltb a a = false.
Proof.
  induction a as [|x a IH]; [reflexivity|]. cbn [lex_ltb]. rewrite Nat.ltb_irrefl. exact IH.
Qed.
