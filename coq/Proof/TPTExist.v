(* C07: the model's Gauss-Jordan elimination (Model/TPT.v: gj / solve / solve_checked) succeeds on every
   matrix with trivial kernel, and the code-shaped systems of enspara/tpt/core.py have trivial kernel
   for row-stochastic T in which every state reaches the absorbing set. *)
From Coq Require Import List QArith Qreduction Bool Arith Lia Lqa Setoid Morphisms.
From EV Require Import TPT TPTProofs.
Import ListNotations. Open Scope Q_scope.

Definition injective (n : nat) (A : nat -> nat -> Q) : Prop :=
  forall v : nat -> Q, (forall i, (i < n)%nat -> sumq n (fun j => A i j * v j) == 0) ->
  forall j, (j < n)%nat -> v j == 0.

(* ------------------------------------------------------------------ list helpers *)
Lemma sumq_app : forall a b f, sumq (a + b) f == sumq a f + sumq b (fun c => f (a + c)%nat).
Proof.
  intros a b f. induction b as [|b IH].
  - rewrite Nat.add_0_r. cbn [sumq]. lra.
  - rewrite Nat.add_succ_r. cbn [sumq]. rewrite IH. lra.
Qed.

Lemma nth_map_lt : forall (A B : Type) (f : A -> B) (l : list A) (i : nat) (da : A) (db : B),
  (i < length l)%nat -> nth i (map f l) db = f (nth i l da).
Proof.
  intros A B f l i da db Hi.
  rewrite (nth_indep _ db (f da)) by (rewrite map_length; exact Hi). apply map_nth.
Qed.

Lemma nth_skipn_add : forall (A : Type) (n : nat) (l : list A) (k : nat) (d : A),
  nth k (skipn n l) d = nth (n + k) l d.
Proof.
  intros A n. induction n as [|n IH]; intros l k d.
  - reflexivity.
  - destruct l as [|x l].
    + cbn [skipn]. destruct k; reflexivity.
    + cbn [skipn Nat.add nth]. apply IH.
Qed.

Lemma map2_length : forall f a b, length a = length b -> length (map2 f a b) = length a.
Proof.
  intros f a. induction a as [|x a IH]; intros b H; destruct b as [|y b]; cbn [map2 length] in *.
  - reflexivity.
  - reflexivity.
  - discriminate.
  - rewrite IH by lia. reflexivity.
Qed.

Lemma map2_nth : forall f a b c, length a = length b -> (c < length a)%nat ->
  nth c (map2 f a b) 0 = f (nth c a 0) (nth c b 0).
Proof.
  intros f a. induction a as [|x a IH]; intros b c H Hc; destruct b as [|y b]; cbn [map2 length] in *.
  - lia.
  - lia.
  - discriminate.
  - destruct c as [|c]; cbn [nth].
    + reflexivity.
    + apply IH; lia.
Qed.

(* ------------------------------------------------------------------ rows as linear forms *)
Definition rdot (L : nat) (r : list Q) (w : nat -> Q) : Q := sumq L (fun c => nth c r 0 * w c).

Lemma fp_some : forall c todo p rest, find_pivot c todo = Some (p, rest) ->
  ~ nth c p 0 == 0 /\ (forall r, In r todo <-> r = p \/ In r rest) /\ length todo = S (length rest).
Proof.
  intros c todo. induction todo as [|r0 todo IH]; intros p rest H; cbn [find_pivot] in H.
  - discriminate.
  - destruct (Qeq_bool (nth c r0 0) 0) eqn:E.
    + destruct (find_pivot c todo) as [[p1 rest1]|] eqn:F; [|discriminate].
      inversion H; subst. destruct (IH p rest1 eq_refl) as [H1 [H2 H3]].
      split; [exact H1|]. split.
      * intros r. cbn [In]. rewrite H2. tauto.
      * cbn [length]. rewrite H3. reflexivity.
    + inversion H; subst. split; [apply Qeq_bool_neq; exact E|]. split.
      * intros r. cbn [In]. split; intros [Hr|Hr]; auto.
      * reflexivity.
Qed.

Lemma fp_none : forall c todo, find_pivot c todo = None -> forall r, In r todo -> nth c r 0 == 0.
Proof.
  intros c todo. induction todo as [|r0 todo IH]; intros H r Hr; cbn [find_pivot] in H.
  - destruct Hr.
  - destruct (Qeq_bool (nth c r0 0) 0) eqn:E.
    + destruct (find_pivot c todo) as [[p1 rest1]|] eqn:F; [discriminate|].
      destruct Hr as [<-|Hr].
      * apply Qeq_bool_iff. exact E.
      * apply IH; [reflexivity | exact Hr].
    + discriminate.
Qed.

Section GJ.
Variable L : nat.

Lemma row_sub_length : forall r p k, length r = L -> length p = L -> length (row_sub r p k) = L.
Proof. intros r p k Hr Hp. unfold row_sub. rewrite map2_length; congruence. Qed.

Lemma row_sub_nth : forall r p k c, length r = L -> length p = L -> (c < L)%nat ->
  nth c (row_sub r p k) 0 == nth c r 0 - k * nth c p 0.
Proof.
  intros r p k c Hr Hp Hc. unfold row_sub.
  rewrite map2_nth by (try congruence; lia). apply Qred_correct.
Qed.

Lemma rdot_row_sub : forall r p k w, length r = L -> length p = L ->
  rdot L (row_sub r p k) w == rdot L r w - k * rdot L p w.
Proof.
  intros r p k w Hr Hp. unfold rdot.
  rewrite (sumq_ext L _ (fun c => nth c r 0 * w c - k * (nth c p 0 * w c))).
  2:{ intros c Hc. rewrite row_sub_nth by assumption. ring. }
  rewrite sumq_minus, sumq_scal. reflexivity.
Qed.

Lemma scale_nth : forall pc p c, (c < length p)%nat ->
  nth c (map (fun x => Qred (x / pc)) p) 0 == nth c p 0 / pc.
Proof.
  intros pc p c Hc. rewrite (nth_map_lt _ _ _ p c 0 0) by exact Hc. apply Qred_correct.
Qed.

Lemma rdot_scale : forall pc p w, length p = L ->
  rdot L (map (fun x => Qred (x / pc)) p) w == rdot L p w / pc.
Proof.
  intros pc p w Hp. unfold rdot.
  rewrite (sumq_ext L _ (fun c => (nth c p 0 * w c) * / pc)).
  2:{ intros c Hc. rewrite scale_nth by lia. unfold Qdiv. ring. }
  rewrite sumq_scal_r. reflexivity.
Qed.

Variable n : nat.
Variable orig : list (list Q).

(* invariant of gj after the columns 0..t-1 have been eliminated *)
Definition inv (t : nat) (done todo : list (list Q)) : Prop :=
  length done = t /\ (t + length todo = n)%nat /\
  (forall r, In r (done ++ todo) -> length r = L) /\
  (forall s c, (s < t)%nat -> (c < t)%nat -> nth c (nth s done []) 0 == delta s c) /\
  (forall r c, In r todo -> (c < t)%nat -> nth c r 0 == 0) /\
  (forall w, (forall r, In r (done ++ todo) -> rdot L r w == 0) ->
             forall r, In r orig -> rdot L r w == 0).

Lemma inv_step : forall t done todo p rest, (t < L)%nat -> inv t done todo ->
  find_pivot t todo = Some (p, rest) ->
  let pc := nth t p 0 in
  let p' := map (fun x => Qred (x / pc)) p in
  let elim := fun r => row_sub r p' (nth t r 0) in
  inv (S t) (map elim done ++ [p']) (map elim rest).
Proof.
  intros t done todo p rest HtL [Hlen [Hcnt [HL [Hsd [Hst Heq]]]]] Hfp pc p' elim.
  destruct (fp_some _ _ _ _ Hfp) as [Hpc [Hmem Hlt]]. fold pc in Hpc.
  assert (Hp_todo : In p todo) by (apply Hmem; left; reflexivity).
  assert (HpL : length p = L) by (apply HL; apply in_or_app; right; exact Hp_todo).
  assert (Hp'L : length p' = L) by (unfold p'; rewrite map_length; exact HpL).
  assert (Hp'lo : forall c, (c < t)%nat -> nth c p' 0 == 0).
  { intros c Hc. unfold p'. rewrite scale_nth by lia. rewrite (Hst p c Hp_todo Hc).
    unfold Qdiv. ring. }
  assert (Hp't : nth t p' 0 == 1).
  { unfold p'. rewrite scale_nth by lia. fold pc. field. exact Hpc. }
  assert (HelimL : forall r, length r = L -> length (elim r) = L)
    by (intros; apply row_sub_length; assumption).
  assert (Helim_nth : forall r c, length r = L -> (c < L)%nat ->
            nth c (elim r) 0 == nth c r 0 - nth t r 0 * nth c p' 0)
    by (intros; apply row_sub_nth; assumption).
  assert (Hrest : forall r, In r rest -> In r todo) by (intros; apply Hmem; right; assumption).
  assert (HdoneL : forall r, In r done -> length r = L)
    by (intros; apply HL; apply in_or_app; left; assumption).
  assert (HtodoL : forall r, In r todo -> length r = L)
    by (intros; apply HL; apply in_or_app; right; assumption).
  unfold inv. split; [|split; [|split; [|split; [|split]]]].
  - rewrite app_length, map_length. cbn [length]. lia.
  - rewrite map_length. lia.
  - intros r Hr. apply in_app_or in Hr. destruct Hr as [Hr|Hr].
    + apply in_app_or in Hr. destruct Hr as [Hr|Hr].
      * apply in_map_iff in Hr. destruct Hr as [r0 [<- Hr0]]. apply HelimL. apply HdoneL. exact Hr0.
      * destruct Hr as [<-|[]]. exact Hp'L.
    + apply in_map_iff in Hr. destruct Hr as [r0 [<- Hr0]]. apply HelimL. apply HtodoL. auto.
  - intros s c Hs Hc. destruct (Nat.eq_dec s t) as [Est|Est].
    + subst s. rewrite app_nth2 by (rewrite map_length; lia).
      rewrite map_length, Hlen, Nat.sub_diag. cbn [nth].
      unfold delta. destruct (Nat.eqb_spec t c) as [Ec|Ec].
      * subst c. exact Hp't.
      * apply Hp'lo. lia.
    + rewrite app_nth1 by (rewrite map_length; lia).
      rewrite (nth_map_lt _ _ elim done s [] []) by lia.
      assert (Hr : length (nth s done []) = L) by (apply HdoneL; apply nth_In; lia).
      rewrite Helim_nth by (assumption || lia).
      unfold delta. destruct (Nat.eqb_spec s c) as [Ec|Ec].
      * subst c. rewrite Hp'lo by lia. rewrite Hsd by lia.
        unfold delta. rewrite Nat.eqb_refl. ring.
      * destruct (Nat.eq_dec c t) as [Ect|Ect].
        -- subst c. rewrite Hp't. ring.
        -- rewrite Hp'lo by lia. rewrite Hsd by lia.
           unfold delta. destruct (Nat.eqb_spec s c); [lia | ring].
  - intros r c Hr Hc. apply in_map_iff in Hr. destruct Hr as [r0 [<- Hr0]].
    rewrite Helim_nth by (try (apply HtodoL; auto); lia).
    destruct (Nat.eq_dec c t) as [Ect|Ect].
    + subst c. rewrite Hp't. ring.
    + rewrite Hp'lo by lia. rewrite (Hst r0 c) by (auto || lia). ring.
  - intros w Hw. apply Heq.
    assert (Hp'w : rdot L p' w == 0).
    { apply Hw. apply in_or_app. left. apply in_or_app. right. left. reflexivity. }
    assert (Helw : forall r0, length r0 = L -> rdot L (elim r0) w == 0 -> rdot L r0 w == 0).
    { intros r0 H0 H1. unfold elim in H1. rewrite rdot_row_sub in H1 by assumption.
      rewrite Hp'w in H1. rewrite <- H1. ring. }
    intros r Hr. apply in_app_or in Hr. destruct Hr as [Hr|Hr].
    + apply Helw; [apply HdoneL; exact Hr|]. apply Hw. apply in_or_app. left.
      apply in_or_app. left. apply in_map. exact Hr.
    + apply Hmem in Hr. destruct Hr as [->|Hr].
      * pose proof (rdot_scale pc p w HpL) as E. fold p' in E. rewrite Hp'w in E.
        setoid_replace (rdot L p w) with ((rdot L p w / pc) * pc) by (field; exact Hpc).
        rewrite <- E. ring.
      * apply Helw; [apply HtodoL; auto|]. apply Hw. apply in_or_app. right.
        apply in_map. exact Hr.
Qed.

Hypothesis HnL : (n <= L)%nat.

Lemma gj_sound : forall k t done todo rows, (t + k = n)%nat -> inv t done todo ->
  gj (seq t k) done todo = Some rows -> exists todo', inv n rows todo'.
Proof.
  induction k as [|k IH]; intros t done todo rows Htk Hinv H; cbn [seq gj] in H.
  - inversion H; subst rows. exists todo. assert (E : t = n) by lia. rewrite <- E. exact Hinv.
  - destruct (find_pivot t todo) as [[p rest]|] eqn:F; [|discriminate].
    assert (HtL : (t < L)%nat) by lia.
    pose proof (inv_step t done todo p rest HtL Hinv F) as Hs. cbv zeta in Hs, H.
    eapply (IH (S t)); [lia | exact Hs | exact H].
Qed.

Hypothesis Hker : forall w, (forall r, In r orig -> rdot L r w == 0) ->
  (forall c, (n <= c)%nat -> w c == 0) -> forall c, (c < n)%nat -> w c == 0.

Lemma pivot_exists : forall t done todo, (t < n)%nat -> inv t done todo -> find_pivot t todo <> None.
Proof.
  intros t done todo Ht [Hlen [Hcnt [HL [Hsd [Hst Heq]]]]] Hnone.
  pose proof (fp_none _ _ Hnone) as Hz.
  set (g := fun c => nth t (nth c done []) 0).
  set (w := fun c => if (c <? t)%nat then - g c else if (c =? t)%nat then 1 else 0).
  assert (Hw : forall r, In r (done ++ todo) -> rdot L r w == 0).
  { intros r Hr. apply in_app_or in Hr. destruct Hr as [Hr|Hr].
    - destruct (In_nth _ _ [] Hr) as [s [Hs Hrs]]. subst r. unfold rdot.
      rewrite (sumq_ext L _ (fun c => (if (c =? s)%nat then - g c else 0) +
                                      (if (c =? t)%nat then g s else 0))).
      2:{ intros c Hc. unfold w. destruct (Nat.ltb_spec c t) as [Hct|Hct].
          - rewrite Hsd by lia. unfold delta. rewrite (Nat.eqb_sym s c).
            destruct (Nat.eqb_spec c s); destruct (Nat.eqb_spec c t); try lia; ring.
          - destruct (Nat.eqb_spec c t) as [Ect|Ect].
            + subst c. destruct (Nat.eqb_spec t s); [lia|]. unfold g. ring.
            + destruct (Nat.eqb_spec c s); [lia|]. ring. }
      rewrite sumq_plus.
      rewrite (sumq_delta L s (fun c => - g c)) by lia.
      rewrite (sumq_delta L t (fun _ => g s)) by lia. ring.
    - unfold rdot. apply sumq_zero. intros c Hc. unfold w.
      destruct (Nat.ltb_spec c t) as [Hct|Hct].
      + rewrite (Hst r c Hr Hct). ring.
      + destruct (Nat.eqb_spec c t) as [Ect|Ect].
        * subst c. rewrite (Hz r Hr). ring.
        * ring. }
  assert (H1 : w t == 0).
  { apply Hker; [apply Heq; exact Hw | | exact Ht].
    intros c Hc. unfold w. destruct (Nat.ltb_spec c t); [lia|].
    destruct (Nat.eqb_spec c t); [lia | reflexivity]. }
  unfold w in H1. rewrite Nat.ltb_irrefl, Nat.eqb_refl in H1. lra.
Qed.

Lemma gj_total : forall k t done todo, (t + k = n)%nat -> inv t done todo ->
  exists rows, gj (seq t k) done todo = Some rows.
Proof.
  induction k as [|k IH]; intros t done todo Htk Hinv; cbn [seq gj].
  - eexists. reflexivity.
  - destruct (find_pivot t todo) as [[p rest]|] eqn:F.
    + assert (HtL : (t < L)%nat) by lia.
      pose proof (inv_step t done todo p rest HtL Hinv F) as Hs. cbv zeta in Hs. cbv zeta.
      apply IH; [lia | exact Hs].
    + exfalso. apply (pivot_exists t done todo); [lia | exact Hinv | exact F].
Qed.
End GJ.
(* ------------------------------------------------------------------ the augmented matrix of solve *)
Definition aug_row (n m : nat) (A R : nat -> nat -> Q) (i : nat) : list Q :=
  map (A i) (seq 0 n) ++ map (R i) (seq 0 m).
Definition aug (n m : nat) (A R : nat -> nat -> Q) : list (list Q) :=
  map (aug_row n m A R) (seq 0 n).

Lemma aug_row_length : forall n m A R i, length (aug_row n m A R i) = (n + m)%nat.
Proof. intros. unfold aug_row. rewrite app_length, !map_length, !seq_length. reflexivity. Qed.

Lemma aug_row_nth_l : forall n m A R i j, (j < n)%nat -> nth j (aug_row n m A R i) 0 = A i j.
Proof.
  intros n m A R i j Hj. unfold aug_row.
  rewrite app_nth1 by (rewrite map_length, seq_length; exact Hj). apply nth_map_seq. exact Hj.
Qed.

Lemma aug_row_nth_r : forall n m A R i k, (k < m)%nat -> nth (n + k) (aug_row n m A R i) 0 = R i k.
Proof.
  intros n m A R i k Hk. unfold aug_row.
  rewrite app_nth2 by (rewrite map_length, seq_length; lia).
  rewrite map_length, seq_length. replace (n + k - n)%nat with k by lia.
  apply nth_map_seq. exact Hk.
Qed.

Lemma rdot_aug : forall n m A R i w,
  rdot (n + m) (aug_row n m A R i) w ==
  sumq n (fun j => A i j * w j) + sumq m (fun k => R i k * w (n + k)%nat).
Proof.
  intros n m A R i w. unfold rdot. rewrite sumq_app. apply Qplus_comp.
  - apply sumq_ext. intros j Hj. rewrite aug_row_nth_l by exact Hj. reflexivity.
  - apply sumq_ext. intros k Hk. rewrite aug_row_nth_r by exact Hk. reflexivity.
Qed.

Lemma aug_in : forall n m A R i, (i < n)%nat -> In (aug_row n m A R i) (aug n m A R).
Proof. intros n m A R i Hi. unfold aug. apply in_map. apply in_seq. lia. Qed.

Lemma inv_init : forall n m A R, inv (n + m) n (aug n m A R) 0 [] (aug n m A R).
Proof.
  intros n m A R. unfold inv. split; [|split; [|split; [|split; [|split]]]].
  - reflexivity.
  - unfold aug. rewrite map_length, seq_length. reflexivity.
  - intros r Hr. cbn [app] in Hr. unfold aug in Hr. apply in_map_iff in Hr.
    destruct Hr as [i [<- _]]. apply aug_row_length.
  - intros s c Hs. lia.
  - intros r c _ Hc. lia.
  - intros w Hw r Hr. apply Hw. exact Hr.
Qed.

Lemma solve_unfold : forall n m A R,
  solve n m A R = match gj (seq 0 n) [] (aug n m A R) with
                  | Some rows => Some (map (skipn n) rows)
                  | None => None
                  end.
Proof. reflexivity. Qed.

Lemma mget_skipn : forall n rows j k, (j < length rows)%nat ->
  mget (map (skipn n) rows) j k = nth (n + k) (nth j rows []) 0.
Proof.
  intros n rows j k Hj. unfold mget.
  rewrite (nth_map_lt _ _ (skipn n) rows j [] []) by exact Hj. apply nth_skipn_add.
Qed.

Theorem solve_sound : forall n m A R X, solve n m A R = Some X ->
  forall i k, (i < n)%nat -> (k < m)%nat -> sumq n (fun j => A i j * mget X j k) == R i k.
Proof.
  intros n m A R X H i k Hi Hk. rewrite solve_unfold in H.
  destruct (gj (seq 0 n) [] (aug n m A R)) as [rows|] eqn:G; [|discriminate].
  inversion H; subst X. clear H.
  assert (HnL : (n <= n + m)%nat) by lia.
  destruct (gj_sound (n + m) n (aug n m A R) HnL n O [] (aug n m A R) rows
              (eq_refl : (0 + n = n)%nat) (inv_init n m A R) G)
    as [todo' [Hlen [Hcnt [HL [Hsd [_ Heq]]]]]].
  assert (Htodo : todo' = []) by (destruct todo'; [reflexivity | cbn [length] in Hcnt; lia]).
  subst todo'. rewrite app_nil_r in Heq.
  set (x := fun j => nth (n + k) (nth j rows []) 0).
  set (w := fun c => if (c <? n)%nat then x c else if (c =? n + k)%nat then -(1) else 0).
  assert (Hw : forall r, In r rows -> rdot (n + m) r w == 0).
  { intros r Hr. destruct (In_nth _ _ [] Hr) as [s [Hs Hrs]]. rewrite Hlen in Hs.
    unfold rdot. rewrite sumq_app.
    rewrite (sumq_ext n _ (fun c => delta s c * w c)).
    2:{ intros c Hc. rewrite <- Hrs. rewrite Hsd by assumption. reflexivity. }
    rewrite (sumq_delta_l n s w Hs).
    rewrite (sumq_ext m _ (fun k' => if (k' =? k)%nat then - nth (n + k') r 0 else 0)).
    2:{ intros k' Hk'. unfold w. destruct (Nat.ltb_spec (n + k') n); [lia|].
        destruct (Nat.eqb_spec (n + k') (n + k)); destruct (Nat.eqb_spec k' k); try lia; ring. }
    rewrite (sumq_delta m k (fun k' => - nth (n + k') r 0) Hk).
    unfold w. destruct (Nat.ltb_spec s n); [|lia]. unfold x. rewrite Hrs. ring. }
  pose proof (Heq w Hw (aug_row n m A R i) (aug_in n m A R i Hi)) as E.
  rewrite rdot_aug in E.
  rewrite (sumq_ext n (fun j => A i j * w j) (fun j => A i j * mget (map (skipn n) rows) j k)) in E.
  2:{ intros j Hj. rewrite mget_skipn by lia. unfold w.
      destruct (Nat.ltb_spec j n); [|lia]. reflexivity. }
  rewrite (sumq_ext m (fun k' => R i k' * w (n + k')%nat)
                      (fun k' => if (k' =? k)%nat then - R i k' else 0)) in E.
  2:{ intros k' Hk'. unfold w. destruct (Nat.ltb_spec (n + k') n); [lia|].
      destruct (Nat.eqb_spec (n + k') (n + k)); destruct (Nat.eqb_spec k' k); try lia; ring. }
  rewrite (sumq_delta m k (fun k' => - R i k') Hk) in E. lra.
Qed.

Lemma injective_ker : forall n m A R, injective n A ->
  forall w, (forall r, In r (aug n m A R) -> rdot (n + m) r w == 0) ->
  (forall c, (n <= c)%nat -> w c == 0) -> forall c, (c < n)%nat -> w c == 0.
Proof.
  intros n m A R Hinj w Hw Hhi. apply Hinj. intros i Hi.
  pose proof (Hw (aug_row n m A R i) (aug_in n m A R i Hi)) as E. rewrite rdot_aug in E.
  rewrite (sumq_zero m (fun k => R i k * w (n + k)%nat)) in E.
  - lra.
  - intros k Hk. rewrite Hhi by lia. ring.
Qed.

Theorem solve_total : forall n m A R, injective n A -> exists X, solve n m A R = Some X.
Proof.
  intros n m A R Hinj. rewrite solve_unfold.
  assert (HnL : (n <= n + m)%nat) by lia.
  destruct (gj_total (n + m) n (aug n m A R) HnL (injective_ker n m A R Hinj) n O []
              (aug n m A R) (eq_refl : (0 + n = n)%nat) (inv_init n m A R)) as [rows G].
  rewrite G. eexists. reflexivity.
Qed.

Theorem solve_checked_total : forall n m A R, injective n A ->
  exists X, solve_checked n m A R = Some X.
Proof.
  intros n m A R Hinj. destruct (solve_total n m A R Hinj) as [X HX].
  unfold solve_checked. rewrite HX.
  assert (Hc : is_solution n m A (mget X) R = true).
  { unfold is_solution. apply forallb_forall. intros i Hi. apply forallb_forall. intros k Hk.
    apply in_seq in Hi. apply in_seq in Hk. apply Qeq_bool_iff.
    apply (solve_sound n m A R X HX); lia. }
  rewrite Hc. exists X. reflexivity.
Qed.

(* ------------------------------------------------------------------ the code's systems have trivial kernel *)
Theorem ImQ_injective : forall n T A, stochastic n T ->
  (forall i, (i < n)%nat -> reaches n T A i) -> injective n (ImQ T A).
Proof.
  intros n T A Hst Hreach v Hv.
  assert (HA : forall i, (i < n)%nat -> In i A -> v i == 0).
  { intros i Hi HiA. rewrite <- (ImQ_row_abs n T A v i Hi); [apply Hv; exact Hi|].
    apply memb_In. exact HiA. }
  apply (first_step_unique n T A Hst Hreach (fun _ => 0) v (fun _ => 0)).
  - intros i Hi HiA. apply HA; assumption.
  - intros i Hi HiA. apply memb_false in HiA.
    pose proof (Hv i Hi) as E. rewrite (ImQ_row_free n T A v i Hi HiA) in E.
    assert (E2 : sumq n (fun j => if memb j A then 0 else T i j * v j) ==
                 sumq n (fun j => T i j * v j)).
    { apply sumq_ext. intros j Hj. destruct (memb j A) eqn:Hm; [|reflexivity].
      rewrite (HA j Hj) by (apply memb_In; exact Hm). ring. }
    rewrite E2 in E. lra.
  - intros i Hi HiA. rewrite sumq_zero; [lra|]. intros j Hj. ring.
Qed.

Theorem fund_injective : forall n T pi j0, stochastic n T -> stationary_dist n T pi -> (j0 < n)%nat ->
  (forall i, (i < n)%nat -> reaches n T [j0] i) -> injective n (fund T pi).
Proof.
  intros n T pi j0 Hst [HpT Hsum] Hj0 Hreach v Hv.
  set (s := sumq n (fun j => pi j * v j)).
  assert (Hrow : forall i, (i < n)%nat -> v i - sumq n (fun j => T i j * v j) + s == 0).
  { intros i Hi. pose proof (Hv i Hi) as E. unfold fund in E.
    rewrite (sumq_ext n _ (fun j => delta i j * v j - T i j * v j + pi j * v j)) in E
      by (intros; ring).
    rewrite sumq_plus, sumq_minus in E. rewrite (sumq_delta_l n i v Hi) in E. exact E. }
  assert (Hs : s == 0).
  { assert (E : sumq n (fun i => pi i * (v i - sumq n (fun j => T i j * v j) + s)) == 0).
    { apply sumq_zero. intros i Hi. rewrite (Hrow i Hi). ring. }
    rewrite (sumq_ext n _ (fun i => pi i * v i - sumq n (fun j => pi i * T i j * v j) + pi i * s)) in E.
    2:{ intros i Hi.
        rewrite (sumq_ext n (fun j => pi i * T i j * v j) (fun j => pi i * (T i j * v j)))
          by (intros; ring).
        rewrite sumq_scal. ring. }
    rewrite sumq_plus, sumq_minus in E. rewrite (sumq_scal_r n s pi) in E.
    rewrite (sumq_swap n n (fun i j => pi i * T i j * v j)) in E.
    rewrite (sumq_ext n (fun j => sumq n (fun i => pi i * T i j * v j)) (fun j => pi j * v j)) in E.
    2:{ intros j Hj. rewrite (sumq_scal_r n (v j) (fun i => pi i * T i j)).
        rewrite (HpT j Hj). reflexivity. }
    fold s in E. rewrite Hsum in E. lra. }
  assert (Hharm : forall i, (i < n)%nat -> v i == sumq n (fun j => T i j * v j)).
  { intros i Hi. pose proof (Hrow i Hi) as E. rewrite Hs in E. lra. }
  assert (Hc : forall i, (i < n)%nat -> v i == v j0).
  { apply (first_step_unique n T [j0] Hst Hreach (fun _ => 0) v (fun _ => v j0)).
    - intros i Hi [<-|[]]. reflexivity.
    - intros i Hi _. pose proof (Hharm i Hi). lra.
    - intros i Hi _. rewrite (sumq_scal_r n (v j0) (T i)). rewrite (proj1 (Hst i Hi)). ring. }
  assert (Hj0z : v j0 == 0).
  { rewrite <- Hs. unfold s.
    rewrite (sumq_ext n (fun j => pi j * v j) (fun j => pi j * v j0)).
    2:{ intros j Hj. rewrite (Hc j Hj). reflexivity. }
    rewrite (sumq_scal_r n (v j0) pi). rewrite Hsum. ring. }
  intros j Hj. rewrite (Hc j Hj). exact Hj0z.
Qed.

(* ------------------------------------------------------------------ the model functions return Some *)
Theorem committors_total : forall n T src snk,
  wfb n T = true -> idxb n src = true -> idxb n snk = true -> stochastic n (mget T) ->
  (forall i, (i < n)%nat -> reaches n (mget T) (src ++ snk) i) ->
  exists q, committors n T src snk = Some q.
Proof.
  intros n T src snk Hwf Hsrc Hsnk Hst Hreach. unfold committors.
  rewrite Hwf, Hsrc, Hsnk. cbn [andb].
  destruct (solve_checked_total n (length snk) (ImQ (mget T) (src ++ snk)) (Rhs (mget T) src snk))
    as [B HB].
  - apply ImQ_injective; assumption.
  - rewrite HB. eexists. reflexivity.
Qed.

Theorem mfpts_sinks_total : forall n T snk lag,
  wfb n T = true -> idxb n snk = true -> stochastic n (mget T) ->
  (forall i, (i < n)%nat -> reaches n (mget T) snk i) ->
  exists t, mfpts_sinks n T snk lag = Some t.
Proof.
  intros n T snk lag Hwf Hsnk Hst Hreach. unfold mfpts_sinks.
  rewrite Hwf, Hsnk. cbn [andb].
  destruct (solve_checked_total n 1 (ImQ (mget T) snk) (mfpt_rhs snk)) as [X HX].
  - apply ImQ_injective; assumption.
  - rewrite HX. eexists. reflexivity.
Qed.

Theorem mfpts_all_total : forall n T pi lag j0,
  wfb n T = true -> length pi = n -> (forall j, (j < n)%nat -> ~ vget pi j == 0) ->
  stochastic n (mget T) -> stationary_dist n (mget T) (vget pi) -> (j0 < n)%nat ->
  (forall i, (i < n)%nat -> reaches n (mget T) [j0] i) ->
  exists M, mfpts_all n T pi lag = Some M.
Proof.
  intros n T pi lag j0 Hwf Hlen Hpi Hst Hstat Hj0 Hreach. unfold mfpts_all.
  assert (Hnz : forallb (fun j => negb (Qeq_bool (vget pi j) 0)) (seq 0 n) = true).
  { apply forallb_forall. intros j Hj. apply in_seq in Hj.
    destruct (Qeq_bool (vget pi j) 0) eqn:E; [|reflexivity].
    exfalso. apply (Hpi j); [lia|]. apply Qeq_bool_iff. exact E. }
  rewrite Hwf, Hnz. rewrite (proj2 (Nat.eqb_eq (length pi) n) Hlen). cbn [andb].
  destruct (solve_checked_total n n (fund (mget T) (vget pi)) delta) as [Z HZ].
  - apply (fund_injective n (mget T) (vget pi) j0); assumption.
  - rewrite HZ. eexists. reflexivity.
Qed.
