(* C09: the code's own proposals.  _propose_new_center_amongst draws from the frames currently
   labelled cid; under the consistency invariant that set is never empty (so the draw cannot fail)
   and holds frame indices only, so every randomly driven sweep meets the hypotheses of the sweep
   theorems -- for any random generator. *)
From Coq Require Import List ZArith QArith Bool Arith Lia Lqa.
From EV Require Import Cluster ClusterBase ClusterInv ClusterPam ClusterTop ClusterNonEmpty.
Import ListNotations.

Section Propose.
  Variable D : nat -> nat -> Q.
  Hypothesis D_self : forall f, D f f == 0.
  Hypothesis D_pos : forall c f, c <> f -> 0 < D c f.

  (* state_inds = np.where(assignments == cid)[0] *)
  Definition members (s : st) (cid : nat) : list nat :=
    map fid (filter (fun x => (lab x =? cid)%nat) (snd s)).

  Lemma members_nonempty n s cid : Inv D n s -> (cid < length (fst s))%nat -> members s cid <> [].
  Proof.
    intros HI Hc. destruct (every_label_used D n s HI cid Hc) as [f [Hf [_ [Hl _]]]].
    pose proof (inv_meaning D n s HI) as [Hlen _].
    assert (Hin : In (nth f (snd s) (mkfr 0 0 0)) (snd s)) by (apply nth_In; lia).
    assert (Hm : In (fid (nth f (snd s) (mkfr 0 0 0))) (members s cid)).
    { unfold members. apply in_map. apply filter_In. split; [exact Hin|]. apply Nat.eqb_eq. exact Hl. }
    intros E. rewrite E in Hm. exact Hm.
  Qed.

  Lemma members_are_frames n s cid p : Inv D n s -> In p (members s cid) -> (p < n)%nat.
  Proof.
    intros HI Hp. destruct HI as [_ [_ [_ [Hfid _]]]].
    unfold members in Hp. apply in_map_iff in Hp. destruct Hp as [x [<- Hx]].
    apply filter_In in Hx. destruct Hx as [Hx _].
    assert (In (fid x) (map fid (snd s))) by (apply in_map; exact Hx).
    rewrite Hfid in H. apply in_seq in H. lia.
  Qed.

  Lemma members_have_label s cid p : In p (members s cid) ->
    exists x, In x (snd s) /\ fid x = p /\ lab x = cid.
  Proof.
    unfold members. intros Hp. apply in_map_iff in Hp. destruct Hp as [x [E Hx]].
    apply filter_In in Hx. destruct Hx as [Hx Hl]. exists x. repeat split; [exact Hx|exact E|apply Nat.eqb_eq; exact Hl].
  Qed.

  (* a sweep whose proposals are drawn by an arbitrary chooser from the current members *)
  Fixpoint sweep_choose (ch : nat -> list nat -> nat) (m cid : nat) (s : st) : st :=
    match m with
    | O => s
    | S m' => sweep_choose ch m' (S cid) (pam_update D s cid (ch cid (members s cid)))
    end.

  Definition chooser_ok (ch : nat -> list nat -> nat) : Prop := forall c l, l <> [] -> In (ch c l) l.

  Theorem sweep_choose_inv ch n : chooser_ok ch -> forall m cid s,
    Inv D n s -> (cid + m <= length (fst s))%nat ->
    Inv D n (sweep_choose ch m cid s) /\ length (fst (sweep_choose ch m cid s)) = length (fst s) /\
    sumsq (snd (sweep_choose ch m cid s)) <= sumsq (snd s).
  Proof.
    intros Hch. induction m as [|m IH]; intros cid s HI Hk; cbn [sweep_choose].
    - split; [exact HI|]. split; [reflexivity|lra].
    - assert (Hc : (cid < length (fst s))%nat) by lia.
      pose proof (Hch cid (members s cid) (members_nonempty n s cid HI Hc)) as Hin.
      pose proof (members_are_frames n s cid _ HI Hin) as Hp.
      destruct (IH (S cid) (pam_update D s cid (ch cid (members s cid)))) as [H1 [H2 H3]].
      + apply pam_update_inv; assumption.
      + rewrite pam_update_k. lia.
      + split; [exact H1|]. split; [rewrite H2; apply pam_update_k|].
        pose proof (pam_update_cost_le D s cid (ch cid (members s cid))). lra.
  Qed.

  (* any number of randomly driven sweeps (one chooser per sweep = any generator history) *)
  Fixpoint run_choose (chs : list (nat -> list nat -> nat)) (s : st) : st :=
    match chs with
    | [] => s
    | ch :: r => run_choose r (sweep_choose ch (length (fst s)) 0 s)
    end.

  Theorem run_choose_inv n chs : Forall chooser_ok chs -> forall s, Inv D n s ->
    Inv D n (run_choose chs s) /\ length (fst (run_choose chs s)) = length (fst s) /\
    sumsq (snd (run_choose chs s)) <= sumsq (snd s).
  Proof.
    induction chs as [|ch r IH]; intros Hok s HI; cbn [run_choose].
    - split; [exact HI|]. split; [reflexivity|lra].
    - inversion Hok as [|? ? H1 H2]; subst.
      destruct (sweep_choose_inv ch n H1 (length (fst s)) 0 s HI ltac:(lia)) as [A1 [A2 A3]].
      destruct (IH H2 _ A1) as [B1 [B2 B3]].
      split; [exact B1|]. split; [rewrite B2; exact A2|lra].
  Qed.
End Propose.
