(* C04 round 2: the text regenerated from enspara/msm/builders.py and transition_matrices.eq_probs
   (Gen/BuildersGen.v, over the array vocabulary of Base/BuildersBase.v) computes exactly what the
   hand-written model (Model/Builders.v) computes, for every container kind; plus what the container
   kinds of the results are, and what eq_probs' guard around the eigen-solver guarantees. *)
From Coq Require Import List QArith Qabs Bool Arith Lia Lqa.
From EV Require Import Builders BuildersBase BuildersGen BuildersProofs.
Import ListNotations.
Open Scope Q_scope.

(* numbers of a generated builder result *)
Definition vals (r : arr * arr * option (list Q)) : result :=
  let '(c, t, o) := r in (a_val c, a_val t, o).
Definition gen_result (r : res (arr * arr * option (list Q))) : option result := option_map vals (to_opt r).
(* container kinds of a generated builder result *)
Definition kinds (r : res (arr * arr * option (list Q))) : option (kind * kind) :=
  match r with Ok (c, t, _) => Some (a_kind c, a_kind t) | _ => None end.

(* ------------------------------------------------------------------ representation-level identities on Q *)
Lemma Qmult_1_l_eq (y : Q) : 1 * y = y.
Proof. destruct y as [n d]. unfold Qmult. simpl. destruct n; reflexivity. Qed.

Lemma Qmult_comm_eq (x y : Q) : x * y = y * x.
Proof. destruct x, y. unfold Qmult. simpl. f_equal; [apply Z.mul_comm|apply Pos.mul_comm]. Qed.

Lemma Qdiv_1_eq (w : Q) : 1 / w = / w.
Proof. unfold Qdiv. apply Qmult_1_l_eq. Qed.

(* ------------------------------------------------------------------ _row_normalize *)
Lemma inv_weights_spec w :
  v_put (v_gt w 0) (v_zeros (length w)) (v_rdiv 1 (v_take (v_gt w 0) w)) = map inv_weight w.
Proof.
  induction w as [|x w IH]; [reflexivity|].
  cbn [length v_zeros repeat v_gt map v_take v_put v_rdiv].
  unfold inv_weight at 1, qpos. destruct (negb (Qle_bool x 0)).
  - cbn [v_take v_rdiv map v_put]. rewrite Qdiv_1_eq. f_equal. exact IH.
  - f_equal. exact IH.
Qed.

Lemma mul_col_spec (f : Q -> Q) (M : mat) :
  map (fun rw => map (fun x => x * snd rw) (fst rw)) (combine M (map f (map qsum M)))
  = map (fun r => map (fun x => x * f (qsum r)) r) M.
Proof. induction M as [|r M IH]; [reflexivity|]. cbn. f_equal. exact IH. Qed.

Lemma diag_dot_spec (f : Q -> Q) (M : mat) :
  map (fun wr => map (fun x => fst wr * x) (snd wr)) (combine (map f (map qsum M)) M)
  = map (fun r => map (fun x => x * f (qsum r)) r) M.
Proof.
  induction M as [|r M IH]; [reflexivity|]. cbn. f_equal; [|exact IH].
  apply map_ext. intros x. apply Qmult_comm_eq.
Qed.

(* kind of _row_normalize's result: the caller's sparse type, or ndarray *)
Definition rownorm_kind (k : kind) : kind := match k with KSp _ _ => k | _ => KArr end.

Theorem gen_row_normalize_eq C :
  gen_row_normalize C = Ok (mkarr (rownorm_kind (a_kind C)) (row_normalize (a_val C))).
Proof.
  destruct C as [k M]. unfold gen_row_normalize, is_sparse, a_shape0.
  cbn [a_kind a_val].
  assert (L : length M = length (rowsums M)) by (symmetry; apply length_rowsums).
  destruct k as [| |fam f]; cbn [rbind rownorm_kind];
    unfold a_rowsum, a_np_array, a_asfptype, a_csr_matrix, a_mul_col, a_diag_dot, a_cast;
    cbn [a_kind a_val]; rewrite L;
    change (Qmake 0 1) with 0; change (Qmake 1 1) with 1;
    rewrite inv_weights_spec; unfold rowsums;
    [rewrite mul_col_spec|rewrite mul_col_spec|rewrite diag_dot_spec]; reflexivity.
Qed.

(* ------------------------------------------------------------------ _apply_prior_counts *)
(* kind of C + prior: sparse + non-zero number or + ndarray densifies to ndarray (never np.matrix) *)
Definition prior_kind (k : kind) (p : prior) : kind :=
  match p with
  | NoPrior => k
  | PScalar q => match k with
                 | KSp _ Dok => k
                 | KSp _ _ => if Qeq_bool q 0 then k else KArr
                 | _ => k
                 end
  | PMat _ => KArr
  end.

Theorem gen_apply_prior_eq C p :
  is_square (a_val C) = true -> a_kind C <> KMat ->
  gen_apply_prior_counts C p
  = match apply_prior (a_val C) p with
    | Some C1 => Ok (mkarr (prior_kind (a_kind C) p) C1)
    | None => Err
    end.
Proof.
  destruct C as [k M]. cbn [a_kind a_val]. intros Sq Hk.
  unfold gen_apply_prior_counts, apply_prior. rewrite Sq.
  destruct p as [|q|P]; cbn [prior_is_none negb rbind prior_kind].
  - reflexivity.
  - unfold a_add_prior, is_sparse, is_npmatrix, is_dok. cbn [a_kind a_val].
    destruct k as [| |fam f]; [| congruence |].
    + cbn. reflexivity.
    + destruct f; destruct (Qeq_bool q 0); cbn; reflexivity.
  - unfold a_add_prior, a_add, same_square. cbn [a_kind a_val]. rewrite Sq. cbn [andb].
    destruct (is_square P && Nat.eqb (length P) (length M)).
    + destruct k as [| |fam f]; [| congruence |]; cbn; reflexivity.
    + (* the handler is not reached: a shape error is not NotImplementedError *)
      destruct k as [| |fam f]; cbn; reflexivity.
Qed.

Lemma prior_kind_not_mat k p : k <> KMat -> prior_kind k p <> KMat.
Proof.
  intros H. destruct p as [|q|P]; cbn; [exact H| |discriminate].
  destruct k as [| |fam f]; [exact H|exact H|]. destruct f; try destruct (Qeq_bool q 0); discriminate.
Qed.

(* ------------------------------------------------------------------ normalize *)
Definition exact_eqp (T : arr) : res (list Q) := of_opt (stationary (a_val T)).

Theorem gen_normalize_eq C p eq :
  is_square (a_val C) = true -> a_kind C <> KMat ->
  gen_result (gen_normalize exact_eqp C p eq) = normalize_builder (a_val C) p eq.
Proof.
  intros Sq Hk. unfold gen_normalize, normalize_builder. rewrite (gen_apply_prior_eq C p Sq Hk).
  destruct (apply_prior (a_val C) p) as [C1|]; [|reflexivity].
  cbn [rbind]. rewrite gen_row_normalize_eq. cbn [rbind a_val a_kind].
  destruct eq; cbn [rbind].
  - unfold exact_eqp. cbn [a_val]. destruct (stationary (row_normalize C1)); reflexivity.
  - reflexivity.
Qed.

Theorem gen_normalize_kinds eqp C p eq r :
  is_square (a_val C) = true -> a_kind C <> KMat ->
  gen_normalize eqp C p eq = Ok r ->
  kinds (Ok r) = Some (prior_kind (a_kind C) p, rownorm_kind (prior_kind (a_kind C) p)).
Proof.
  intros Sq Hk. unfold gen_normalize. rewrite (gen_apply_prior_eq C p Sq Hk).
  destruct (apply_prior (a_val C) p) as [C1|]; [|discriminate].
  cbn [rbind]. rewrite gen_row_normalize_eq. cbn [rbind a_val a_kind].
  destruct eq; cbn [rbind].
  - destruct (eqp _); cbn [rbind]; try discriminate. intros [= <-]. reflexivity.
  - intros [= <-]. reflexivity.
Qed.

(* ------------------------------------------------------------------ transpose *)
Lemma same_square_trans M : is_square M = true -> same_square M (mtrans M) = true.
Proof.
  intros Sq. unfold same_square. rewrite Sq. unfold mtrans. rewrite is_square_mk, length_mk.
  rewrite Nat.eqb_refl. reflexivity.
Qed.

Lemma kind_eqb_refl k : kind_eqb k k = true.
Proof. destruct k as [| |fam f]; try reflexivity. cbn. destruct fam, f; reflexivity. Qed.

Theorem gen_transpose_eq C p eq :
  is_square (a_val C) = true -> a_kind C <> KMat ->
  gen_result (gen_transpose C p eq) = transpose_builder (a_val C) p eq.
Proof.
  intros Sq Hk. unfold gen_transpose, transpose_builder. rewrite (gen_apply_prior_eq C p Sq Hk).
  destruct (apply_prior (a_val C) p) as [C1|] eqn:E; [|reflexivity].
  pose proof (apply_prior_result_square _ _ _ E) as Sq1.
  cbn [rbind]. set (k1 := prior_kind (a_kind C) p).
  unfold is_sparse. cbn [a_kind a_val].
  assert (A : forall ka kb, a_add (mkarr ka C1) (a_T (mkarr kb C1))
                             = Ok (mkarr (kind_add ka (kind_T kb)) (madd C1 (mtrans C1)))).
  { intros ka kb. unfold a_add, a_T. cbn [a_kind a_val]. rewrite (same_square_trans _ Sq1). reflexivity. }
  destruct k1 as [| |fam f] eqn:K1.
  - rewrite A. cbn [rbind]. rewrite gen_row_normalize_eq. cbn [rbind a_kind a_val].
    destruct eq; cbn [rbind]; destruct (negb _); cbn [rbind gen_result to_opt option_map vals a_val a_cast a_div_scalar];
      reflexivity.
  - exfalso. apply (prior_kind_not_mat (a_kind C) p Hk). exact K1.
  - unfold a_tocsr. cbn [a_kind a_val]. rewrite A. cbn [rbind]. rewrite gen_row_normalize_eq. cbn [rbind a_kind a_val].
    destruct eq; cbn [rbind]; destruct (negb _); cbn [rbind gen_result to_opt option_map vals a_val a_cast a_div_scalar];
      reflexivity.
Qed.

(* the returned counts and probabilities come back in the kind that went into the symmetrisation *)
Theorem gen_transpose_kinds C p eq r :
  is_square (a_val C) = true -> a_kind C <> KMat ->
  gen_transpose C p eq = Ok r ->
  kinds (Ok r) = Some (prior_kind (a_kind C) p, prior_kind (a_kind C) p).
Proof.
  intros Sq Hk. unfold gen_transpose. rewrite (gen_apply_prior_eq C p Sq Hk).
  destruct (apply_prior (a_val C) p) as [C1|] eqn:E; [|discriminate].
  pose proof (apply_prior_result_square _ _ _ E) as Sq1.
  cbn [rbind]. set (k1 := prior_kind (a_kind C) p).
  unfold is_sparse. cbn [a_kind a_val].
  assert (A : forall ka kb, a_add (mkarr ka C1) (a_T (mkarr kb C1))
                             = Ok (mkarr (kind_add ka (kind_T kb)) (madd C1 (mtrans C1)))).
  { intros ka kb. unfold a_add, a_T. cbn [a_kind a_val]. rewrite (same_square_trans _ Sq1). reflexivity. }
  destruct k1 as [| |fam f] eqn:K1.
  - rewrite A. cbn [rbind]. rewrite gen_row_normalize_eq. cbn [rbind a_kind a_val].
    destruct eq; cbn; intros [= <-]; reflexivity.
  - exfalso. apply (prior_kind_not_mat (a_kind C) p Hk). exact K1.
  - unfold a_tocsr. cbn [a_kind a_val]. rewrite A. cbn [rbind]. rewrite gen_row_normalize_eq. cbn [rbind a_kind a_val].
    destruct eq; cbn [rbind]; intros H.
    + destruct fam, f; cbn in H; injection H as <-; reflexivity.
    + destruct fam, f; cbn in H; injection H as <-; reflexivity.
Qed.

(* ------------------------------------------------------------------ _prinz_mle_py: guards and final step *)
Lemma rows_positive_spec M : v_all (v_gt (rowsums M) 0) = rows_positive M.
Proof.
  unfold v_all, v_gt, rowsums, rows_positive, qpos.
  induction M as [|r M IH]; [reflexivity|]. cbn. rewrite IH. reflexivity.
Qed.

Lemma div_col_spec (M : mat) :
  map (fun rw => map (fun x => x / snd rw) (fst rw)) (combine M (rowsums M))
  = map (fun r => map (fun x => x / qsum r) r) M.
Proof. unfold rowsums. induction M as [|r M IH]; [reflexivity|]. cbn. f_equal. exact IH. Qed.

Lemma q_isclose_eq x c : x == c -> q_isclose x c = true.
Proof.
  intros H. unfold q_isclose. apply Qle_bool_iff.
  assert (E : x - c == 0) by lra.
  assert (E2 : Qabs (x - c) == 0) by (rewrite E; reflexivity).
  assert (0 <= Qabs c) by apply Qabs_nonneg.
  rewrite E2. lra.
Qed.

Lemma qsum_div_row r : 0 < qsum r -> qsum (map (fun x => x / qsum r) r) == 1.
Proof.
  intros H. unfold Qdiv. rewrite qsum_scale_r. field. lra.
Qed.

Lemma post_rows_close X :
  rows_positive X = true ->
  v_allclose (rowsums (map (fun r => map (fun x => x / qsum r) r) X)) 1 = true.
Proof.
  unfold v_allclose, rowsums, rows_positive. rewrite !forallb_forall. intros H s Hs.
  apply in_map_iff in Hs. destruct Hs as [r' [<- Hr']].
  apply in_map_iff in Hr'. destruct Hr' as [r [<- Hr]].
  apply q_isclose_eq. apply qsum_div_row. apply qpos_iff. apply H. exact Hr.
Qed.

Lemma total_pos X : X <> [] -> rows_positive X = true -> 0 < total X.
Proof.
  unfold total, rowsums, rows_positive. destruct X as [|r X]; [congruence|]. intros _.
  cbn [forallb map]. intros H. apply andb_true_iff in H. destruct H as [H0 H].
  apply qpos_iff in H0. rewrite qsum_cons.
  assert (0 <= qsum (map qsum X)).
  { clear H0. induction X as [|r' X IH]; [cbn; lra|]. cbn [forallb] in H. apply andb_true_iff in H.
    destruct H as [H1 H2]. apply qpos_iff in H1. cbn [map]. rewrite qsum_cons. specialize (IH H2). lra. }
  lra.
Qed.

Lemma post_pi_close X :
  X <> [] -> rows_positive X = true ->
  q_isclose (qsum (map (fun s => s / qsum (rowsums X)) (rowsums X))) 1 = true.
Proof.
  intros Hne Hp. apply q_isclose_eq. pose proof (total_pos X Hne Hp) as Ht. unfold total in Ht.
  unfold Qdiv. rewrite qsum_scale_r. field. lra.
Qed.

(* the iteration of property C12 ended with the matrix X and its row sums *)
Definition loop_gives (X : mat) : arr -> list Q -> arr -> list Q -> arr * list Q :=
  fun _ _ _ _ => (mkarr KArr X, rowsums X).

Theorem gen_prinz_eq X C1 k :
  is_square C1 = true -> is_square X = true -> X <> [] -> rows_positive X = true ->
  gen_prinz_mle_py (loop_gives X) (mkarr k C1)
  = if rows_positive C1 && rows_positive (madd C1 (mtrans C1))
    then match mle_post X with
         | Some (T, pi) => Ok (mkarr KArr T, pi)
         | None => Err
         end
    else Err.
Proof.
  intros Sq1 SqX Hne Hp. unfold gen_prinz_mle_py, a_astype_float, a_copy, a_add, a_T.
  cbn [a_kind a_val]. rewrite (same_square_trans _ Sq1). cbn [rbind].
  unfold a_rowsum. cbn [a_val]. change (Qmake 0 1) with 0. rewrite !rows_positive_spec.
  rewrite andb_comm.
  destruct (rows_positive (madd C1 (mtrans C1))); cbn [rassert andb]; [|reflexivity].
  destruct (rows_positive C1); cbn [rassert]; [|reflexivity].
  unfold loop_gives, a_div_col, v_div_scalar, v_total, a_rowsum. cbn [a_val a_kind].
  rewrite div_col_spec. change (Qmake 1 1) with 1.
  rewrite (post_rows_close X Hp). cbn [rassert].
  rewrite (post_pi_close X Hne Hp). cbn [rassert].
  unfold mle_post, total. rewrite Hp, SqX. reflexivity.
Qed.

(* ------------------------------------------------------------------ mle *)
Theorem gen_mle_eq X C p eq :
  is_square (a_val C) = true -> a_kind C <> KMat ->
  is_square X = true -> X <> [] -> rows_positive X = true ->
  gen_result (gen_mle (gen_prinz_mle_py (loop_gives X)) C p eq) = mle_builder (a_val C) p eq X.
Proof.
  intros Sq Hk SqX Hne Hp. unfold gen_mle, mle_builder. rewrite (gen_apply_prior_eq C p Sq Hk).
  destruct (apply_prior (a_val C) p) as [C1|] eqn:E; [|reflexivity].
  pose proof (apply_prior_result_square _ _ _ E) as Sq1.
  cbn [rbind]. unfold is_sparse, a_toarray. cbn [a_kind a_val].
  assert (G : forall k, gen_result
     (rbind (if negb eq
             then rbind (gen_prinz_mle_py (loop_gives X) (mkarr KArr C1)) (fun '(T, _) => Ok (T, @None (list Q)))
             else rbind (gen_prinz_mle_py (loop_gives X) (mkarr KArr C1)) (fun '(T, e) => Ok (T, Some e)))
            (fun '(T, equilibrium) => Ok (a_cast k (mkarr KArr C1), a_cast k T, equilibrium)))
     = if rows_positive C1 && rows_positive (madd C1 (mtrans C1))
       then match mle_post X with
            | Some (T, pi) => Some (C1, T, if eq then Some pi else None)
            | None => None
            end
       else None).
  { intros k. rewrite (gen_prinz_eq X C1 KArr Sq1 SqX Hne Hp).
    destruct (rows_positive C1 && rows_positive (madd C1 (mtrans C1))); [|destruct eq; reflexivity].
    destruct (mle_post X) as [[T pi]|]; destruct eq; reflexivity. }
  destruct (prior_kind (a_kind C) p) as [| |fam f] eqn:K1; cbn [rbind].
  - apply G.
  - exfalso. apply (prior_kind_not_mat (a_kind C) p Hk). exact K1.
  - apply G.
Qed.

Theorem gen_mle_kinds prinz C p eq r :
  is_square (a_val C) = true -> a_kind C <> KMat ->
  gen_mle prinz C p eq = Ok r ->
  kinds (Ok r) = Some (prior_kind (a_kind C) p, prior_kind (a_kind C) p).
Proof.
  intros Sq Hk. unfold gen_mle. rewrite (gen_apply_prior_eq C p Sq Hk).
  destruct (apply_prior (a_val C) p) as [C1|] eqn:E; [|discriminate].
  cbn [rbind]. unfold is_sparse, a_toarray. cbn [a_kind a_val].
  destruct (prior_kind (a_kind C) p) as [| |fam f] eqn:K1; cbn [rbind].
  - destruct eq; cbn [negb]; destruct (prinz _) as [[T e]| | |]; cbn [rbind]; try discriminate;
      intros [= <-]; reflexivity.
  - exfalso. apply (prior_kind_not_mat (a_kind C) p Hk). exact K1.
  - destruct eq; cbn [negb]; destruct (prinz _) as [[T e]| | |]; cbn [rbind]; try discriminate;
      intros [= <-]; reflexivity.
Qed.

(* ------------------------------------------------------------------ eq_probs: the guard around the eigen-solver *)
(* 1e-8 as the double the code compares with *)
Definition atol8 : Q := Qmake 3022314549036573 302231454903657293676544.

(* the dense solver's answer on T.toarray(), as eq_probs hands it on (a dense matrix never reaches ARPACK:
   a no-convergence answer there is outside what the code can meet) *)
Definition dense_ans (eig : arr -> eig_ans) (T : arr) : res (list Q) :=
  match eig (a_toarray T) with EigVec v => Ok v | _ => Err end.

Lemma eig_of_toarray eig T :
  eig_of eig (a_toarray T) = match eig (a_toarray T) with EigVec v => Ok (tt, v) | _ => Err end.
Proof. unfold eig_of. destruct (eig (a_toarray T)); reflexivity. Qed.

(* eq_probs as written, case by case.  Sparse T: ARPACK's vector if it passes |pi T - pi| <= 1e-8, the dense
   solver's answer if it does not pass OR if ARPACK gave up (ArpackNoConvergence); any other failure of
   the solver is raised.  Dense T: the solver's answer, no guard, no handler. *)
Theorem gen_eq_probs_spec eig T :
  gen_eq_probs eig T =
  if is_sparse T then
    match eig T with
    | EigVec v => if v_allclose2 atol8 (v_matmul v T) v then Ok v else dense_ans eig T
    | EigNoConv => dense_ans eig T
    | EigFail => Err
    end
  else match eig T with EigVec v => Ok v | _ => Err end.
Proof.
  unfold gen_eq_probs, dense_ans. rewrite !eig_of_toarray. unfold eig_of. fold atol8.
  destruct (is_sparse T) eqn:Sp; destruct (eig T) as [v| |]; cbn [try_noconv rbind andb]; try reflexivity.
  - destruct (v_allclose2 atol8 (v_matmul v T) v); cbn [negb rbind]; [reflexivity|].
    destruct (eig (a_toarray T)); reflexivity.
  - destruct (eig (a_toarray T)) as [w| |]; cbn [rbind]; try reflexivity.
    destruct (v_allclose2 atol8 (v_matmul w T) w); reflexivity.
Qed.

(* ARPACK gives up on a sparse T (repo fix: try / except ArpackNoConvergence): the dense solver's vector *)
Theorem gen_eq_probs_noconv eig T :
  is_sparse T = true -> eig T = EigNoConv -> gen_eq_probs eig T = dense_ans eig T.
Proof. intros Sp E. rewrite gen_eq_probs_spec, Sp, E. reflexivity. Qed.

(* ARPACK returns a vector that is not stationary (repo fix fba1408): the dense solver's vector *)
Theorem gen_eq_probs_nonstationary eig T v :
  is_sparse T = true -> eig T = EigVec v -> v_allclose2 atol8 (v_matmul v T) v = false ->
  gen_eq_probs eig T = dense_ans eig T.
Proof. intros Sp E Cl. rewrite gen_eq_probs_spec, Sp, E, Cl. reflexivity. Qed.

(* ARPACK returns a vector that passes the test: that vector *)
Theorem gen_eq_probs_stationary eig T v :
  is_sparse T = true -> eig T = EigVec v -> v_allclose2 atol8 (v_matmul v T) v = true ->
  gen_eq_probs eig T = Ok v.
Proof. intros Sp E Cl. rewrite gen_eq_probs_spec, Sp, E, Cl. reflexivity. Qed.

(* for a dense T neither the handler nor the guard does anything *)
Theorem gen_eq_probs_dense eig T :
  is_sparse T = false -> gen_eq_probs eig T = match eig T with EigVec v => Ok v | _ => Err end.
Proof. intros Sp. rewrite gen_eq_probs_spec, Sp. reflexivity. Qed.

(* the handler catches ArpackNoConvergence only: any other failure of the solver is raised *)
Theorem gen_eq_probs_fail eig T : eig T = EigFail -> gen_eq_probs eig T = Err.
Proof. intros E. rewrite gen_eq_probs_spec, E. destruct (is_sparse T); reflexivity. Qed.

(* ArpackNoConvergence never leaves eq_probs *)
Theorem gen_eq_probs_never_noconv eig T : gen_eq_probs eig T <> NoConv.
Proof.
  rewrite gen_eq_probs_spec. unfold dense_ans.
  destruct (is_sparse T); destruct (eig T) as [v| |]; try discriminate.
  - destruct (v_allclose2 atol8 (v_matmul v T) v); [discriminate|].
    destruct (eig (a_toarray T)); discriminate.
  - destruct (eig (a_toarray T)); discriminate.
Qed.

(* eq_probs returns populations for a sparse T whenever the dense solver has an answer for T.toarray()
   and ARPACK either answers or gives up *)
Theorem gen_eq_probs_returns eig T w :
  is_sparse T = true -> eig (a_toarray T) = EigVec w -> eig T <> EigFail ->
  exists pi, gen_eq_probs eig T = Ok pi.
Proof.
  intros Sp Ed Nf. rewrite gen_eq_probs_spec, Sp. unfold dense_ans. rewrite Ed.
  destruct (eig T) as [v| |].
  - destruct (v_allclose2 atol8 (v_matmul v T) v); eexists; reflexivity.
  - eexists; reflexivity.
  - contradiction.
Qed.

(* whatever the solver returns for a sparse T (ARPACK), eq_probs hands on a vector that passed the
   stationarity test |pi T - pi| <= 1e-8, or else the dense solver's (LAPACK's) answer *)
Theorem gen_eq_probs_guard eig T pi :
  gen_eq_probs eig T = Ok pi ->
  (is_sparse T = false /\ eig T = EigVec pi) \/
  (is_sparse T = true /\ eig T = EigVec pi /\ v_allclose2 atol8 (v_matmul pi T) pi = true) \/
  (is_sparse T = true /\ eig (a_toarray T) = EigVec pi).
Proof.
  rewrite gen_eq_probs_spec. unfold dense_ans.
  destruct (is_sparse T); destruct (eig T) as [v| |] eqn:E1; try discriminate.
  - destruct (v_allclose2 atol8 (v_matmul v T) v) eqn:Cl.
    + intros [= <-]. right. left. auto.
    + destruct (eig (a_toarray T)) as [v2| |]; try discriminate.
      intros [= <-]. right. right. auto.
  - destruct (eig (a_toarray T)) as [v2| |]; try discriminate.
    intros [= <-]. right. right. auto.
  - intros [= <-]. left. auto.
Qed.

(* the same for a solver that never answers "no convergence" (the statement before the
   ArpackNoConvergence handler existed) *)
Corollary gen_eq_probs_guard_total (eig : arr -> option (list Q)) T pi :
  gen_eq_probs (fun A => ans_of_opt (eig A)) T = Ok pi ->
  (is_sparse T = false /\ eig T = Some pi) \/
  (is_sparse T = true /\ eig T = Some pi /\ v_allclose2 atol8 (v_matmul pi T) pi = true) \/
  (is_sparse T = true /\ eig (a_toarray T) = Some pi).
Proof.
  intros H. apply gen_eq_probs_guard in H. cbv beta in H.
  assert (I : forall o v, ans_of_opt o = EigVec v -> o = Some v).
  { intros [x|] v; cbn; [intros [= <-]; reflexivity|discriminate]. }
  destruct H as [[Hs E]|[[Hs [E Cl]]|[Hs E]]]; [left|right; left|right; right]; auto.
Qed.

(* with an exact solver in both places the guard changes nothing: eq_probs is the stationary vector *)
Definition exact_eig (T : arr) : eig_ans := ans_of_opt (stationary (a_val T)).

Theorem gen_eq_probs_exact T : gen_eq_probs exact_eig T = exact_eqp T.
Proof.
  rewrite gen_eq_probs_spec. unfold dense_ans, exact_eig, exact_eqp, a_toarray. cbn [a_val].
  destruct (stationary (a_val T)) as [v|]; cbn [ans_of_opt of_opt].
  - destruct (is_sparse T); [|reflexivity]. destruct (v_allclose2 _ _ _); reflexivity.
  - destruct (is_sparse T); reflexivity.
Qed.

Theorem gen_normalize_full_eq C p eq :
  is_square (a_val C) = true -> a_kind C <> KMat ->
  gen_result (gen_normalize (gen_eq_probs exact_eig) C p eq) = normalize_builder (a_val C) p eq.
Proof.
  intros Sq Hk. rewrite <- (gen_normalize_eq C p eq Sq Hk).
  unfold gen_normalize. destruct (gen_apply_prior_counts C p); cbn [rbind]; try reflexivity.
  destruct (gen_row_normalize v); cbn [rbind]; try reflexivity.
  destruct eq; [|reflexivity]. rewrite gen_eq_probs_exact. reflexivity.
Qed.

(* an exactly stationary vector passes the guard *)
Lemma allclose2_exact t f pi a :
  0 <= t -> (forall j, (j < length pi)%nat -> f (a + j)%nat == nth j pi 0) ->
  v_allclose2 t (map f (seq a (length pi))) pi = true.
Proof.
  intros Ht. revert a. induction pi as [|x pi IH]; intros a H; [reflexivity|].
  cbn [length seq map v_allclose2]. apply andb_true_iff. split.
  - apply Qle_bool_iff. specialize (H 0%nat). rewrite Nat.add_0_r in H. cbn [nth] in H.
    assert (E : f a - x == 0) by (rewrite H; [ring|cbn; lia]).
    assert (E2 : Qabs (f a - x) == 0) by (rewrite E; reflexivity). rewrite E2. exact Ht.
  - apply IH. intros j Hj. specialize (H (S j)). cbn [nth] in H. rewrite Nat.add_succ_r in H.
    apply H. cbn. lia.
Qed.

(* if the dense solver is exact, eq_probs' answer for a sparse T is stationary to 1e-8 per entry
   whatever ARPACK returned *)
Theorem gen_eq_probs_sound eig T pi :
  (forall D v, is_sparse D = false -> eig D = EigVec v -> is_stationary_b (a_val D) v = true) ->
  gen_eq_probs eig T = Ok pi ->
  v_allclose2 atol8 (v_matmul pi T) pi = true.
Proof.
  intros Hd H.
  assert (Ex : forall D v, is_stationary_b (a_val D) v = true -> v_allclose2 atol8 (v_matmul v D) v = true).
  { intros D v Hs. unfold is_stationary_b in Hs. rewrite !andb_true_iff in Hs.
    destruct Hs as [[[HL Hst] _] _]. apply Nat.eqb_eq in HL. unfold v_matmul. rewrite <- HL.
    apply allclose2_exact; [unfold atol8; unfold Qle; cbn; lia|].
    intros j Hj. rewrite forallb_forall in Hst. cbn [Nat.add]. apply Qeq_bool_eq. apply Hst.
    apply in_seq. lia. }
  destruct (gen_eq_probs_guard eig T pi H) as [[Hs E]|[[Hs [E Cl]]|[Hs E]]].
  - apply Ex. apply (Hd T pi Hs E).
  - exact Cl.
  - assert (S2 : is_stationary_b (a_val (a_toarray T)) pi = true) by (apply Hd; [reflexivity|exact E]).
    apply (Ex T pi). exact S2.
Qed.

(* ------------------------------------------------------------------ end to end: properties of the translated source *)
Theorem gen_transpose_reversible C p C' T pi :
  is_square (a_val C) = true -> a_kind C <> KMat -> nonneg_mat (a_val C) -> nonneg_prior p ->
  gen_transpose C p true = Ok (C', T, Some pi) ->
  let n := length (a_val C) in
  (forall i j, (i < n)%nat -> (j < n)%nat -> ent (a_val C') i j
     == ((ent (a_val C) i j + prior_ent p i j) + (ent (a_val C) j i + prior_ent p j i)) / 2) /\
  (forall i j, (i < n)%nat -> (j < n)%nat -> nth i pi 0 * ent (a_val T) i j == nth j pi 0 * ent (a_val T) j i) /\
  (forall j, (j < n)%nat -> vecmat pi (a_val T) j == nth j pi 0).
Proof.
  intros Sq Hk Hn Hp H n.
  pose proof (gen_transpose_eq C p true Sq Hk) as E. rewrite H in E. cbn in E. symmetry in E.
  split; [|split].
  - intros i j Hi Hj. exact (transpose_counts _ _ _ _ _ _ E i j Hi Hj).
  - intros i j Hi Hj. exact (transpose_detailed_balance _ _ _ _ _ E Hn Hp i j Hi Hj).
  - intros j Hj. exact (transpose_stationary _ _ _ _ _ E Hn Hp j Hj).
Qed.

(* normalize as written, with the eigen-solvers abstract: the populations pass |pi T - pi| <= 1e-8
   whatever the sparse solver returned, provided the dense one returns stationary vectors *)
Theorem gen_normalize_pi_sound eig C p C' T pi :
  (forall D v, is_sparse D = false -> eig D = EigVec v -> is_stationary_b (a_val D) v = true) ->
  gen_normalize (gen_eq_probs eig) C p true = Ok (C', T, Some pi) ->
  v_allclose2 atol8 (v_matmul pi T) pi = true.
Proof.
  intros Hd. unfold gen_normalize.
  destruct (gen_apply_prior_counts C p) as [C1| | |]; cbn [rbind]; try discriminate.
  rewrite gen_row_normalize_eq. cbn [rbind].
  destruct (gen_eq_probs eig _) as [v| | |] eqn:E; cbn [rbind]; try discriminate.
  intros [= _ <- <-]. exact (gen_eq_probs_sound eig _ _ Hd E).
Qed.

(* ------------------------------------------------------------------ ArpackNoConvergence does not leave normalize *)
Lemma a_add_never_noconv A B : a_add A B <> NoConv.
Proof. unfold a_add. destruct (same_square _ _); discriminate. Qed.

Lemma a_add_prior_never_noconv A p : a_add_prior A p <> NoConv.
Proof.
  destruct p as [|q|P]; cbn [a_add_prior]; [discriminate| |apply a_add_never_noconv].
  destruct (_ && _); discriminate.
Qed.

Lemma gen_apply_prior_never_noconv C p : gen_apply_prior_counts C p <> NoConv.
Proof.
  unfold gen_apply_prior_counts. destruct (negb (prior_is_none p)); cbn [rbind]; [|discriminate].
  pose proof (a_add_prior_never_noconv C p) as H1.
  pose proof (a_add_prior_never_noconv (a_np_array (a_todense C)) p) as H2.
  destruct (a_add_prior C p) as [v| | |]; cbn [try_notimpl rbind]; try discriminate; try contradiction.
  - destruct (is_npmatrix v); discriminate.
  - destruct (a_add_prior (a_np_array (a_todense C)) p) as [v| | |]; cbn [rbind]; try discriminate; try contradiction.
    destruct (is_npmatrix v); discriminate.
Qed.

Theorem gen_normalize_never_noconv eig C p eq : gen_normalize (gen_eq_probs eig) C p eq <> NoConv.
Proof.
  unfold gen_normalize. pose proof (gen_apply_prior_never_noconv C p) as H1.
  destruct (gen_apply_prior_counts C p) as [C1| | |]; cbn [rbind]; try discriminate; try contradiction.
  rewrite gen_row_normalize_eq. cbn [rbind]. destruct eq; cbn [rbind]; [|discriminate].
  pose proof (gen_eq_probs_never_noconv eig (mkarr (rownorm_kind (a_kind C1)) (row_normalize (a_val C1)))) as H2.
  destruct (gen_eq_probs eig _) as [v| | |]; cbn [rbind]; try discriminate. contradiction.
Qed.

(* normalize as written returns a model with populations whenever the dense solver has an answer for the
   probabilities and the sparse solver either answers or gives up (ArpackNoConvergence) *)
Theorem gen_normalize_returns eig C p C1 w :
  is_square (a_val C) = true -> a_kind C <> KMat ->
  apply_prior (a_val C) p = Some C1 ->
  let T := mkarr (rownorm_kind (prior_kind (a_kind C) p)) (row_normalize C1) in
  eig (a_toarray T) = EigVec w -> eig T <> EigFail ->
  exists pi, gen_normalize (gen_eq_probs eig) C p true = Ok (mkarr (prior_kind (a_kind C) p) C1, T, Some pi).
Proof.
  intros Sq Hk Ap T Ed Nf. unfold gen_normalize. rewrite (gen_apply_prior_eq C p Sq Hk), Ap.
  cbn [rbind]. rewrite gen_row_normalize_eq. cbn [rbind a_val a_kind]. fold T.
  destruct (is_sparse T) eqn:Sp.
  - destruct (gen_eq_probs_returns eig T w Sp Ed Nf) as [pi E]. exists pi. rewrite E. reflexivity.
  - assert (TT : a_toarray T = T).
    { unfold T, a_toarray, is_sparse in *. cbn [a_kind a_val] in *.
      destruct (prior_kind (a_kind C) p); cbn [rownorm_kind] in *; try reflexivity. discriminate. }
    exists w. rewrite (gen_eq_probs_dense eig T Sp). rewrite TT in Ed. rewrite Ed. reflexivity.
Qed.
