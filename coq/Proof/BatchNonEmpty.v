(* C10: compute_batches always returns at least one batch, and only the first can be empty
   (when the first trajectory alone reaches batch_size). *)
From Coq Require Import List ZArith Lia Arith.
From EV Require Import PySlice PartitionBase PartitionGen Cluster ClusterBase Partition PartitionProofs.
Import ListNotations.
Open Scope Z_scope.

Lemma cb_loop_acc bs : forall lens i sz cur done,
  cb_loop bs lens i sz cur done = done ++ cb_loop bs lens i sz cur [].
Proof.
  induction lens as [|l r IH]; intros i sz cur done; cbn [cb_loop].
  - reflexivity.
  - destruct (sz + l <? bs).
    + apply IH.
    + rewrite IH. rewrite (IH (S i) l [i] ([] ++ [cur])). rewrite app_assoc. reflexivity.
Qed.

Lemma cb_loop_shape bs : forall lens i sz cur,
  exists b0 rest, cb_loop bs lens i sz cur [] = b0 :: rest /\
                  (cur <> [] -> b0 <> []) /\ Forall (fun b => b <> []) rest.
Proof.
  induction lens as [|l r IH]; intros i sz cur; cbn [cb_loop].
  - exists cur, []. split; [reflexivity|]. split; [tauto|constructor].
  - destruct (sz + l <? bs).
    + destruct (IH (S i) (sz + l) (cur ++ [i])) as [b0 [rest [E [H0 Hr]]]].
      exists b0, rest. split; [exact E|]. split; [|exact Hr].
      intros _. apply H0. destruct cur; discriminate.
    + rewrite cb_loop_acc. destruct (IH (S i) l [i]) as [b0 [rest [E [H0 Hr]]]].
      exists cur, (b0 :: rest). split; [rewrite E; reflexivity|]. split; [tauto|].
      constructor; [apply H0; discriminate|exact Hr].
Qed.

Theorem compute_batches_nonempty lens bs :
  compute_batches lens bs <> [] /\ Forall (fun b => b <> []) (tl (compute_batches lens bs)).
Proof.
  unfold compute_batches. destruct (cb_loop_shape bs lens 0%nat 0 []) as [b0 [rest [E [_ Hr]]]].
  rewrite E. split; [discriminate|exact Hr].
Qed.
