(* C16 round 3: Gen/MsmSpecGen.v (regenerated from eigenspectrum, calc_imp_times, implied_timescales,
   synthetic_ensemble) equals the hand-written model of Model/Msm.v / Model/MsmIO.v, so the theorems
   of Proof/MsmSpectrum.v hold for what the source says now. *)
From Coq Require Import List ZArith QArith Qabs Bool Arith Lia Permutation Sorted.
From EV Require Import MsmBase MsmCfgGen Msm MsmSpecBase MsmSpecGen MsmSpectrum.
From EV Require MsmIO.
From EV Require Builders.
Import ListNotations.
Open Scope Q_scope.

(* ------------------------------------------------------------------ argsort(-real(vals)) = order *)
Lemma Qle_bool_opp a b : Qle_bool (- a) (- b) = Qle_bool b a.
Proof.
  destruct a as [an ad], b as [bn bd]. unfold Qle_bool, Qopp. cbn [Qnum Qden].
  apply eq_true_iff_eq. rewrite !Z.leb_le. rewrite !Z.mul_opp_l. lia.
Qed.

Definition negk (p : Q * nat) : Q * nat := (- fst p, snd p).

Lemma ins_asc_negk x l : ins_asc (negk x) (map negk l) = map negk (ins x l).
Proof.
  induction l as [|y r IH]; cbn [map ins ins_asc]; [reflexivity|].
  change (fst (negk x)) with (- fst x). change (fst (negk y)) with (- fst y). rewrite Qle_bool_opp.
  destruct (Qle_bool (fst y) (fst x)); cbn [map]; [reflexivity|]. rewrite <- IH. reflexivity.
Qed.

Lemma sort_negk l : fold_right ins_asc [] (map negk l) = map negk (sort_desc l).
Proof.
  unfold sort_desc. induction l as [|x l IH]; cbn [map fold_right]; [reflexivity|].
  rewrite IH. apply ins_asc_negk.
Qed.

Lemma combine_negk : forall (a : list Q) (b : list nat),
  combine (map Qopp a) b = map negk (combine a b).
Proof. induction a as [|x a IH]; intros [|y b]; cbn; try reflexivity. rewrite IH. reflexivity. Qed.

(* np.argsort(-np.real(vals)) is the model's descending order (ties in original order) *)
Theorem argsort_neg_real_is_order : forall vals, np_argsort (np_neg (np_real vals)) = order vals.
Proof.
  intro vals. unfold np_argsort, np_neg, np_real, order.
  rewrite !map_length, combine_negk, sort_negk, map_map. reflexivity.
Qed.

Lemma order_length vals : length (order vals) = length vals.
Proof. rewrite (Permutation_length (order_perm vals)). apply seq_length. Qed.

(* ------------------------------------------------------------------ gen_post *)
(* eig_post without its n_eigs guard *)
Definition post_core (k : nat) (vals : list cplx) (vecs : list (list cplx)) : option (list Q * list (list Q)) :=
  let ord := order vals in
  match reorder [] vecs ord with
  | [] => None
  | v0 :: rest =>
      if czero (csum v0) then None
      else Some (map re (firstn k (reorder (0, 0) vals ord)), map (map re) (firstn k (normalize_vec v0 :: rest)))
  end.

Lemma gen_post_core : forall k vals vecs, (0 <= k)%Z -> gen_post k vals vecs = post_core (Z.to_nat k) vals vecs.
Proof.
  intros k vals vecs Hk. unfold gen_post, post_core. rewrite argsort_neg_real_is_order.
  change (take vals (order vals)) with (reorder (0, 0) vals (order vals)).
  change (take_cols vecs (order vals)) with (reorder [] vecs (order vals)).
  destruct (reorder [] vecs (order vals)) as [|v0 rest]; [reflexivity|].
  unfold col_idiv, col, np_sum. cbn [Z.ltb Z.compare Z.to_nat nth orb length Nat.ltb Nat.leb negb].
  destruct (czero (csum v0)); [reflexivity|].
  cbn [obind set_nth]. unfold slice_to, np_real, np_real_m.
  assert (E : (k <? 0)%Z = false) by (apply Z.ltb_ge; exact Hk). rewrite E. reflexivity.
Qed.

Lemma eig_post_core : forall ne vals vecs,
  eig_post ne vals vecs =
  if match ne with Some k => (k <? 2)%Z | None => false end then None
  else post_core (n_take ne vals) vals vecs.
Proof. intros. reflexivity. Qed.

Lemma post_core_all : forall k vals vecs, (length vals <= k)%nat ->
  post_core k vals vecs = post_core (length vals) vals vecs.
Proof.
  intros k vals vecs Hk. unfold post_core.
  destruct (reorder [] vecs (order vals)) as [|v0 rest] eqn:Er; [reflexivity|].
  destruct (czero (csum v0)); [reflexivity|].
  assert (L1 : length (reorder (0, 0) vals (order vals)) = length vals)
    by (unfold reorder; rewrite map_length; apply order_length).
  assert (L2 : length (normalize_vec v0 :: rest) = length vals).
  { change (length (normalize_vec v0 :: rest)) with (length (v0 :: rest)). rewrite <- Er.
    unfold reorder. rewrite map_length. apply order_length. }
  rewrite !firstn_all2 by lia. reflexivity.
Qed.

(* the guard + the post-processing, as the source has them, on a given solver output *)
Theorem gen_post_model : forall k vals vecs, (2 <= k)%Z ->
  gen_post k vals vecs = eig_post (Some k) vals vecs.
Proof.
  intros k vals vecs Hk. rewrite eig_post_core.
  assert (E : (k <? 2)%Z = false) by (apply Z.ltb_ge; exact Hk). rewrite E.
  apply gen_post_core. lia.
Qed.

(* eigenspectrum as a whole: guard, solver call, post-processing.  `run` is the (trusted)
   eigen-solver; vals / vecs its output for the call the source makes. *)
Theorem gen_eigenspectrum_model : forall Mx (ops : mx_ops Mx) run T ne left maxiter tol vals vecs,
  (forall k, gen_n_eigs ops T ne = Some k -> run (gen_solver ops T k left maxiter tol) = (vals, vecs)) ->
  (ne = None -> (Z.of_nat (length vals) <= mx_shape0 ops T)%Z) ->
  gen_eigenspectrum ops run T ne left maxiter tol = eig_post ne vals vecs.
Proof.
  intros Mx ops run T ne left maxiter tol vals vecs Hrun Hn.
  unfold gen_eigenspectrum. rewrite eig_post_core. destruct ne as [k|]; cbn [gen_n_eigs] in *.
  - destruct (k <? 2)%Z eqn:Hk; [reflexivity|]. cbn [obind]. rewrite (Hrun k eq_refl).
    apply gen_post_core. apply Z.ltb_ge in Hk. lia.
  - cbn [obind]. rewrite (Hrun _ eq_refl). specialize (Hn eq_refl).
    rewrite gen_post_core by lia. unfold n_take. rewrite Nat2Z.id. apply post_core_all. lia.
Qed.

Theorem gen_n_eigs_rejects : forall Mx (ops : mx_ops Mx) T k, (k < 2)%Z -> gen_n_eigs ops T (Some k) = None.
Proof. intros Mx ops T k H. cbn. apply Z.ltb_lt in H. rewrite H. reflexivity. Qed.

(* the existing theorems, for the generated function *)
Section Transfer.
  Variables (Mx : Type) (ops : mx_ops Mx) (run : solver_call Mx -> list cplx * list (list cplx)).
  Variables (T : Mx) (ne : option Z) (left : bool) (maxiter : Z) (tol : Q).
  Variables (vals : list cplx) (vecs : list (list cplx)).
  Hypothesis Hrun : forall k, gen_n_eigs ops T ne = Some k -> run (gen_solver ops T k left maxiter tol) = (vals, vecs).
  Hypothesis Hn : ne = None -> (Z.of_nat (length vals) <= mx_shape0 ops T)%Z.

  Theorem gen_eigenspectrum_sorted : forall ev V,
    gen_eigenspectrum ops run T ne left maxiter tol = Some (ev, V) ->
    StronglySorted desc ev /\
    exists full, Permutation full (map re vals) /\ StronglySorted desc full /\ ev = firstn (n_take ne vals) full.
  Proof. intros ev V H. rewrite (gen_eigenspectrum_model _ _ _ _ _ _ _ _ _ _ Hrun Hn) in H. exact (eig_post_sorted _ _ _ _ _ H). Qed.

  Theorem gen_eigenspectrum_first_sums_to_one : forall ev V,
    gen_eigenspectrum ops run T ne left maxiter tol = Some (ev, V) ->
    exists v0 V', V = v0 :: V' /\ Builders.qsum v0 == 1.
  Proof. intros ev V H. rewrite (gen_eigenspectrum_model _ _ _ _ _ _ _ _ _ _ Hrun Hn) in H. exact (eig_post_first_sums_to_one _ _ _ _ _ H). Qed.

  Theorem gen_eigenspectrum_stationary : forall Tm ev V,
    gen_eigenspectrum ops run T ne left maxiter tol = Some (ev, V) ->
    (forall k, (k < length vals)%nat -> left_eig Tm (nth k vals c0) (nth k vecs [])) ->
    (exists z, In z vals /\ re z == 1) ->
    (forall z, In z vals -> re z <= 1) ->
    (forall z, In z vals -> re z == 1 -> im z == 0) ->
    exists pi V' ev',
      V = pi :: V' /\ ev = hd 0 ev :: ev' /\ hd 0 ev == 1 /\
      length pi = length Tm /\ Builders.qsum pi == 1 /\
      forall j, (j < length Tm)%nat -> Builders.vecmat pi Tm j == nth j pi 0.
  Proof.
    intros Tm ev V H. rewrite (gen_eigenspectrum_model _ _ _ _ _ _ _ _ _ _ Hrun Hn) in H.
    exact (eig_post_stationary Tm _ _ _ _ _ H).
  Qed.
End Transfer.

(* ------------------------------------------------------------------ the solver decision *)
(* left eigenvectors: the solver sees the transpose; dense LAPACK unless the (transposed) matrix is
   sparse with >= 1000 rows, then ARPACK for the n_eigs eigenvalues of largest real part, with the
   caller's maxiter / tol and the seeded start vector *)
Theorem gen_solver_decision : forall Mx (ops : mx_ops Mx) (T : Mx) k (left : bool) maxiter tol,
  (forall M, mx_issparse ops (mx_toarray ops M) = false) ->
  let T' := if left then mx_T ops T else T in
  gen_solver ops T k left maxiter tol =
  if MsmIO.uses_arpack (mx_shape0 ops T') (mx_issparse ops T')
  then CallEigs (mx_tocsr ops T') k LR maxiter tol (V0SeededUniform 0 (mx_shape0 ops T'))
  else CallEig (if mx_issparse ops T' then mx_toarray ops T' else T').
Proof.
  intros Mx ops T k left maxiter tol Hd T'. unfold gen_solver. fold T'. unfold MsmIO.uses_arpack.
  destruct (mx_issparse ops T') eqn:Hs; cbn [andb].
  - rewrite (Z.leb_antisym). destruct (mx_shape0 ops T' <? 1000)%Z eqn:Hlt; cbn [negb andb].
    + rewrite Hd. reflexivity.
    + rewrite Hs. reflexivity.
  - rewrite andb_false_r, Hs. reflexivity.
Qed.

(* ------------------------------------------------------------------ timescales bookkeeping *)
(* calc_imp_times asks eigenspectrum for n_times + 1 LEFT eigenpairs (the stationary one is extra),
   with eigenspectrum's own defaults for the rest *)
Theorem gen_imp_eig_call_model : forall Mx V (eig : Mx -> option Z -> bool -> Z -> Q -> V) T n_times,
  gen_imp_eig_call eig T n_times = eig T (Some (imp_n_eigs n_times)) true eig_default_maxiter eig_default_tol.
Proof. reflexivity. Qed.

Theorem imp_eig_call_uses_left_default : eig_default_left = true /\ eig_default_n_eigs = None.
Proof. split; reflexivity. Qed.

(* implied_timescales: one calc_imp_times call per lag time, in order, each with the caller's
   sliding_window / trim / method, n_states = max + 1 and the model's n_times *)
Theorem gen_implied_timescales_model : forall A Mth R (amax : A -> Z)
    (calc : A -> Z -> Z -> Z -> Mth -> bool -> bool -> R) a lags m nt sl trim,
  gen_implied_timescales amax calc a lags m nt sl trim =
  map (fun t => calc a t (amax a + 1)%Z (imp_n_times (amax a + 1)%Z nt) m sl trim) lags.
Proof. intros. unfold gen_implied_timescales, imp_n_times, py_int_floor_div. destruct nt; reflexivity. Qed.

Theorem gen_implied_timescales_row : forall A Mth R (amax : A -> Z)
    (calc : A -> Z -> Z -> Z -> Mth -> bool -> bool -> R) a lags m nt sl trim i d0 dr,
  (i < length lags)%nat ->
  nth i (gen_implied_timescales amax calc a lags m nt sl trim) dr =
  calc a (nth i lags d0) (amax a + 1)%Z (imp_n_times (amax a + 1)%Z nt) m sl trim
  /\ length (gen_implied_timescales amax calc a lags m nt sl trim) = length lags.
Proof.
  intros. rewrite gen_implied_timescales_model. split; [|apply map_length].
  rewrite (nth_indep _ dr (calc a d0 (amax a + 1)%Z (imp_n_times (amax a + 1)%Z nt) m sl trim))
    by (rewrite map_length; assumption).
  rewrite (map_nth (fun t => calc a t (amax a + 1)%Z (imp_n_times (amax a + 1)%Z nt) m sl trim)). reflexivity.
Qed.

Theorem imp_defaults : imp_default_sliding_window = true /\ imp_default_trim = false /\ imp_default_n_times = None.
Proof. repeat split. Qed.

(* n_times never exceeds n_states - 1, so n_eigs = n_times + 1 never exceeds the number of states *)
Theorem imp_n_times_capped : forall ns nt, (imp_n_times ns nt <= ns - 1)%Z.
Proof.
  intros ns nt. unfold imp_n_times.
  destruct (ns - 1 <? match nt with Some t => t | None => ns / 10 + 1 end)%Z eqn:E.
  - lia.
  - apply Z.ltb_ge in E. exact E.
Qed.

(* ------------------------------------------------------------------ synthetic_ensemble *)
Lemma rmatvec_step T p : rmatvec T p = if sq_ok T p then Some (step T p) else None.
Proof. reflexivity. Qed.

Lemma sq_ok_iterate T p0 k : sq_ok T p0 = true -> sq_ok T (iterate T p0 k) = true.
Proof.
  unfold sq_ok. intro H. apply andb_true_iff in H. destruct H as [Hs HL]. rewrite Hs. cbn [andb].
  apply Nat.eqb_eq in HL. apply Nat.eqb_eq. apply iterate_length. exact HL.
Qed.

Lemma trajectory_S T p k : trajectory T p (S k) = trajectory T p k ++ [iterate T p (S k)].
Proof. unfold trajectory. rewrite (seq_S (S k) 0), map_app. reflexivity. Qed.

Definition ens_body (T : Builders.mat) (st : list Q * list (list Q)) : option (list Q * list (list Q)) :=
  let '(p, observations) := st in
  obind (rmatvec T p) (fun m1 => Some (m1, append observations m1)).

Lemma ens_loop T p0 : sq_ok T p0 = true -> forall n k,
  oiter n (ens_body T) (iterate T p0 k, trajectory T p0 k) =
  Some (iterate T p0 (k + n), trajectory T p0 (k + n)).
Proof.
  intros Hsq n. induction n as [|n IH]; intro k; cbn [oiter].
  - rewrite Nat.add_0_r. reflexivity.
  - unfold ens_body at 1. rewrite rmatvec_step, (sq_ok_iterate T p0 k Hsq). cbn [obind].
    unfold append. rewrite <- trajectory_S. change (step T (iterate T p0 k)) with (iterate T p0 (S k)).
    rewrite IH. rewrite Nat.add_succ_r. reflexivity.
Qed.

Theorem gen_ensemble_model : forall sp T p0 n_steps, gen_ensemble sp T p0 n_steps = ensemble T p0 n_steps.
Proof.
  intros sp T p0 n_steps. unfold gen_ensemble, ensemble, aslinearoperator, tocsr, copy, np_array, for_range.
  replace (if sp then T else T) with T by (destruct sp; reflexivity).
  fold (n_iter n_steps). change (fun '(p, observations) => obind (rmatvec T p) (fun m1 => Some (m1, append observations m1)))
    with (ens_body T).
  destruct (sq_ok T p0) eqn:Hsq; cbn [orb].
  - change [p0] with (trajectory T p0 0). change p0 with (iterate T p0 0) at 1.
    rewrite (ens_loop T p0 Hsq (n_iter n_steps) 0). reflexivity.
  - destruct (n_iter n_steps) as [|n]; cbn [Nat.eqb oiter obind]; [reflexivity|].
    unfold ens_body at 1. rewrite rmatvec_step, Hsq. reflexivity.
Qed.

Definition ens_obs_body (T : Builders.mat) (ob : list Q) (st : list Q * list Q) : option (list Q * list Q) :=
  let '(p, observations) := st in
  obind (rmatvec T p) (fun m1 => obind (np_dot m1 ob) (fun m2 => Some (m1, append observations m2))).

Lemma np_dot_ok a b : length a = length b -> np_dot a b = Some (dot a b).
Proof. intro H. unfold np_dot. rewrite H, Nat.eqb_refl. reflexivity. Qed.

Lemma ens_obs_loop T p0 ob : sq_ok T p0 = true -> length ob = length p0 -> forall n k,
  oiter n (ens_obs_body T ob) (iterate T p0 k, map (fun p => dot p ob) (trajectory T p0 k)) =
  Some (iterate T p0 (k + n), map (fun p => dot p ob) (trajectory T p0 (k + n))).
Proof.
  intros Hsq Hob n. induction n as [|n IH]; intro k; cbn [oiter].
  - rewrite Nat.add_0_r. reflexivity.
  - unfold ens_obs_body at 1. rewrite rmatvec_step, (sq_ok_iterate T p0 k Hsq). cbn [obind].
    change (step T (iterate T p0 k)) with (iterate T p0 (S k)).
    rewrite np_dot_ok.
    + cbn [obind]. unfold append.
      replace (map (fun p => dot p ob) (trajectory T p0 k) ++ [dot (iterate T p0 (S k)) ob])
        with (map (fun p => dot p ob) (trajectory T p0 (S k))) by (rewrite trajectory_S, map_app; reflexivity).
      rewrite IH, Nat.add_succ_r. reflexivity.
    + pose proof (sq_ok_iterate T p0 (S k) Hsq) as H1. pose proof Hsq as H0. unfold sq_ok in H0, H1.
      apply andb_true_iff in H0, H1. destruct H0 as [_ H0], H1 as [_ H1].
      apply Nat.eqb_eq in H0, H1. lia.
Qed.

Theorem gen_ensemble_obs_model : forall sp T p0 n_steps ob,
  gen_ensemble_obs sp T p0 n_steps ob = ensemble_obs T p0 n_steps ob.
Proof.
  intros sp T p0 n_steps ob.
  unfold gen_ensemble_obs, ensemble_obs, aslinearoperator, tocsr, copy, np_array, for_range.
  replace (if sp then T else T) with T by (destruct sp; reflexivity).
  fold (n_iter n_steps).
  change (fun '(p, observations) => obind (rmatvec T p) (fun m1 => obind (np_dot m1 ob) (fun m2 => Some (m1, append observations m2))))
    with (ens_obs_body T ob).
  unfold np_dot at 1. rewrite (Nat.eqb_sym (length p0) (length ob)).
  destruct (Nat.eqb (length ob) (length p0)) eqn:Hob; [|rewrite andb_false_r; reflexivity].
  rewrite andb_true_r. cbn [obind]. apply Nat.eqb_eq in Hob.
  destruct (sq_ok T p0) eqn:Hsq; cbn [orb].
  - change [Builders.qsum (map (fun ab : Q * Q => fst ab * snd ab) (combine p0 ob))]
      with (map (fun p => dot p ob) (trajectory T p0 0)).
    change p0 with (iterate T p0 0) at 1.
    rewrite (ens_obs_loop T p0 ob Hsq Hob (n_iter n_steps) 0). reflexivity.
  - destruct (n_iter n_steps) as [|n]; cbn [Nat.eqb oiter obind]; [reflexivity|].
    unfold ens_obs_body at 1. rewrite rmatvec_step, Hsq. reflexivity.
Qed.

(* right-multiplication is a different function: T . p differs from p . T already for 2 states *)
Example matvec_is_not_rmatvec :
  rmatvec [[1 # 2; 1 # 2]; [0; 1]] [1; 0] = Some [1 # 2; 1 # 2] /\
  matvec [[1 # 2; 1 # 2]; [0; 1]] [1; 0] = Some [1 # 2; 0].
Proof. vm_compute. split; reflexivity. Qed.
