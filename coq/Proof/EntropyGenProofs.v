(* C18: the translated text of enspara/info_theory/entropy.py (Gen/EntropyGen.v: shannon_entropy,
   kl_divergence) against the model Model/Info.v (entropy_R, kl_R / kl_infinite, kl_cells). *)
From Coq Require Import List ZArith QArith Qreals Bool Arith Reals Lia Lra.
From EV Require Import JointCounts Info InfoPyBase EntropyGen InfoProofs.
Import ListNotations.
Open Scope R_scope.

(* ================================================================== vocabulary lemmas *)
Lemma zip2_map_r {A B C} (f : A -> B -> C) (g : A -> B) l :
  zip2 f l (map g l) = map (fun x => f x (g x)) l.
Proof.
  induction l as [|x r IH]; cbn [zip2 map]; [reflexivity|]. rewrite IH. reflexivity.
Qed.

Lemma Req_b_true x y : x = y -> Req_b x y = true.
Proof. intros H. unfold Req_b. destruct (Req_EM_T x y); [reflexivity|contradiction]. Qed.

Lemma Req_b_false x y : x <> y -> Req_b x y = false.
Proof. intros H. unfold Req_b. destruct (Req_EM_T x y); [contradiction|reflexivity]. Qed.

Lemma Rlt_b_true x y : x < y -> Rlt_b x y = true.
Proof. intros H. unfold Rlt_b. destruct (Rlt_dec x y); [reflexivity|contradiction]. Qed.

Lemma Rlt_b_false x y : ~ x < y -> Rlt_b x y = false.
Proof. intros H. unfold Rlt_b. destruct (Rlt_dec x y); [contradiction|reflexivity]. Qed.

(* ================================================================== shannon_entropy *)
Lemma shannon_core p :
  - Rsum (zip2 Rmult p (map (fun a_ => where_out (Rlt_b 0 a_) (ln a_) 0) p)) = entropy_R p.
Proof.
  unfold entropy_R. rewrite zip2_map_r. apply (f_equal Ropp). apply (f_equal Rsum).
  apply map_ext. intros x. unfold plogp, where_out, Rlt_b.
  destruct (Rlt_dec 0 x); reflexivity.
Qed.

Theorem gen_shannon_entropy_is_model : forall p, gen_shannon_entropy p false = entropy_R p.
Proof.
  intros p. unfold gen_shannon_entropy. cbv beta iota zeta. apply shannon_core.
Qed.

Theorem gen_shannon_entropy_normalized : forall p,
  gen_shannon_entropy p true = entropy_R (map (fun x => (x / Rsum p)%R) p).
Proof.
  intros p. unfold gen_shannon_entropy. cbv beta iota zeta. apply shannon_core.
Qed.

(* ================================================================== kl_divergence: one cell *)
Ltac xdecide :=
  repeat (repeat first
    [ rewrite Req_b_true by lra | rewrite Req_b_false by lra
    | rewrite Rlt_b_true by lra | rewrite Rlt_b_false by lra ];
    cbv beta iota).

Lemma kl_cell_value : forall p q, (0 <= p)%R -> (0 <= q)%R ->
  (let c := x_mul (XFin p) (x_log (x_div (XFin p) (XFin q))) in if x_isnan c then XFin 0 else c) =
  if Req_EM_T p 0 then XFin 0 else if Req_EM_T q 0 then XPInf else XFin (p * ln (p / q)).
Proof.
  intros p q Hp Hq. cbv zeta.
  destruct (Req_EM_T p 0) as [Ep|Np].
  - subst p. destruct (Req_EM_T q 0) as [Eq|Nq].
    + subst q. unfold x_div, x_log, x_mul, x_sign_inf, x_isnan. xdecide. reflexivity.
    + replace (0 / q) with 0 by (unfold Rdiv; ring).
      unfold x_div, x_log, x_mul, x_sign_inf, x_isnan, negb. xdecide. reflexivity.
  - destruct (Req_EM_T q 0) as [Eq|Nq].
    + subst q. unfold x_div, x_log, x_mul, x_sign_inf, x_isnan, negb. xdecide. reflexivity.
    + assert (Hr : 0 < p / q) by (apply Rdiv_lt_0_compat; lra).
      set (r := p / q) in *.
      unfold x_div, x_log, x_mul, x_sign_inf, x_isnan, negb. fold r. xdecide. reflexivity.
Qed.

(* ================================================================== kl_divergence: the cell list *)
Definition kl_cellx (p q : R) : xr :=
  let c := x_mul (XFin p) (x_log (x_div (XFin p) (XFin q))) in if x_isnan c then XFin 0 else c.

Lemma kl_cellx_value p q : 0 <= p -> 0 <= q ->
  kl_cellx p q =
  if Req_EM_T p 0 then XFin 0 else if Req_EM_T q 0 then XPInf else XFin (p * ln (p / q)).
Proof. exact (kl_cell_value p q). Qed.

Lemma kl_cell_list P : forall Qd,
  map (fun a_ => if x_isnan a_ then XFin 0 else a_)
      (zip2 x_mul (map XFin P) (map x_log (zip2 x_div (map XFin P) (map XFin Qd)))) =
  zip2 kl_cellx P Qd.
Proof.
  induction P as [|p P IH]; intros [|q Qd]; cbn [map zip2]; try reflexivity.
  rewrite IH. reflexivity.
Qed.

Definition nonneg (x : R) : Prop := 0 <= x.

(* all repaired cells are finite or +inf; their IEEE sum is +inf exactly in the model's infinite
   case and the model's real sum otherwise *)
Lemma kl_sum_cells P : forall Qd, Forall nonneg P -> Forall nonneg Qd ->
  (kl_infinite P Qd /\ x_sum (zip2 kl_cellx P Qd) = XPInf) \/
  (~ kl_infinite P Qd /\ x_sum (zip2 kl_cellx P Qd) = XFin (kl_sum P Qd)).
Proof.
  induction P as [|p P IH]; intros [|q Qd] HP HQ; cbn [kl_infinite kl_sum zip2];
    try (right; split; [tauto|reflexivity]).
  inversion HP as [|? ? Hp HP']; inversion HQ as [|? ? Hq HQ']; subst.
  unfold nonneg in Hp, Hq.
  unfold x_sum. cbn [fold_right]. fold (x_sum (zip2 kl_cellx P Qd)).
  rewrite (kl_cellx_value p q Hp Hq). unfold kl_term.
  destruct (Req_EM_T p 0) as [Ep|Np].
  - destruct (IH Qd HP' HQ') as [(Hi & Hs)|(Hi & Hs)]; rewrite Hs.
    + left. split; [right; exact Hi|reflexivity].
    + right. split; [tauto|reflexivity].
  - destruct (Req_EM_T q 0) as [Eq|Nq].
    + left. split; [left; split; assumption|].
      destruct (IH Qd HP' HQ') as [(Hi & Hs)|(Hi & Hs)]; rewrite Hs; reflexivity.
    + destruct (IH Qd HP' HQ') as [(Hi & Hs)|(Hi & Hs)]; rewrite Hs.
      * left. split; [right; exact Hi|reflexivity].
      * right. split; [tauto|reflexivity].
Qed.

(* ================================================================== kl_divergence: the guards *)
Lemma existsb_neg l :
  existsb (fun a_ => Rlt_b a_ 0) l = true <-> exists x, In x l /\ x < 0.
Proof.
  rewrite existsb_exists. split; intros (x & Hin & H); exists x; (split; [exact Hin|]).
  - unfold Rlt_b in H. destruct (Rlt_dec x 0); [assumption|discriminate].
  - apply Rlt_b_true. exact H.
Qed.

Lemma existsb_neg_false l :
  existsb (fun a_ => Rlt_b a_ 0) l = false -> Forall nonneg l.
Proof.
  intros H. apply Forall_forall. intros x Hin. unfold nonneg.
  destruct (Rle_dec 0 x) as [Hle|Hn]; [exact Hle|]. exfalso.
  assert (Ht : existsb (fun a_ => Rlt_b a_ 0) l = true).
  { apply existsb_neg. exists x. split; [exact Hin|lra]. }
  congruence.
Qed.

(* kl_divergence raises exactly on a length mismatch or a negative entry *)
Theorem gen_kl_divergence_rejects : forall P Qd base,
  gen_kl_divergence P Qd base = None <->
  (length P <> length Qd \/ exists x, In x (P ++ Qd) /\ (x < 0)%R).
Proof.
  intros P Qd base. unfold gen_kl_divergence.
  destruct (Nat.eqb_spec (length P) (length Qd)) as [El|Nl]; cbn [negb].
  - destruct (existsb (fun a_ => Rlt_b a_ 0) P) eqn:EP.
    + split; [intros _|reflexivity]. right.
      apply existsb_neg in EP. destruct EP as (x & Hin & Hx).
      exists x. split; [apply in_or_app; left; exact Hin|exact Hx].
    + destruct (existsb (fun a_ => Rlt_b a_ 0) Qd) eqn:EQ.
      * split; [intros _|reflexivity]. right.
        apply existsb_neg in EQ. destruct EQ as (x & Hin & Hx).
        exists x. split; [apply in_or_app; right; exact Hin|exact Hx].
      * split; [intros H; discriminate H|].
        intros [H|(x & Hin & Hx)]; [contradiction|]. exfalso.
        apply in_app_or in Hin. destruct Hin as [Hin|Hin].
        -- assert (Ht : existsb (fun a_ => Rlt_b a_ 0) P = true)
             by (apply existsb_neg; exists x; split; assumption).
           congruence.
        -- assert (Ht : existsb (fun a_ => Rlt_b a_ 0) Qd = true)
             by (apply existsb_neg; exists x; split; assumption).
           congruence.
  - split; [intros _; left; exact Nl|reflexivity].
Qed.

(* an accepted call: the guards, and the value in terms of the repaired cells *)
Lemma gen_kl_divergence_accepts P Qd base d :
  gen_kl_divergence P Qd base = Some d ->
  length P = length Qd /\
  existsb (fun a_ => Rlt_b a_ 0) P = false /\ existsb (fun a_ => Rlt_b a_ 0) Qd = false /\
  d = x_div (x_sum (zip2 kl_cellx P Qd)) (x_log (XFin base)).
Proof.
  unfold gen_kl_divergence.
  destruct (Nat.eqb_spec (length P) (length Qd)) as [El|Nl]; cbn [negb]; [|intros H; discriminate H].
  destruct (existsb (fun a_ => Rlt_b a_ 0) P) eqn:EP; [intros H; discriminate H|].
  destruct (existsb (fun a_ => Rlt_b a_ 0) Qd) eqn:EQ; [intros H; discriminate H|].
  cbv zeta. rewrite kl_cell_list. intros H. inversion H. auto.
Qed.

Lemma log_base base : 1 < base -> x_log (XFin base) = XFin (ln base) /\ 0 < ln base.
Proof.
  intros Hb. split.
  - unfold x_log. rewrite Req_b_false by lra. rewrite Rlt_b_false by lra. reflexivity.
  - rewrite <- ln_1. apply ln_increasing; lra.
Qed.

(* otherwise the value is the model's: +inf exactly in the model's infinite case, else kl_R *)
Theorem gen_kl_divergence_finite : forall P Qd base d,
  (1 < base)%R -> gen_kl_divergence P Qd base = Some d -> ~ kl_infinite P Qd ->
  d = XFin (kl_R P Qd base).
Proof.
  intros P Qd base d Hb Hg Hfin.
  destruct (gen_kl_divergence_accepts _ _ _ _ Hg) as (_ & EP & EQ & ->).
  destruct (log_base base Hb) as (-> & Hl).
  destruct (kl_sum_cells P Qd (existsb_neg_false _ EP) (existsb_neg_false _ EQ))
    as [(Hi & _)|(_ & ->)]; [contradiction|].
  unfold x_div, kl_R. rewrite Req_b_false by lra. reflexivity.
Qed.

Theorem gen_kl_divergence_infinite : forall P Qd base d,
  (1 < base)%R -> gen_kl_divergence P Qd base = Some d -> kl_infinite P Qd -> d = XPInf.
Proof.
  intros P Qd base d Hb Hg Hinf.
  destruct (gen_kl_divergence_accepts _ _ _ _ Hg) as (_ & EP & EQ & ->).
  destruct (log_base base Hb) as (-> & Hl).
  destruct (kl_sum_cells P Qd (existsb_neg_false _ EP) (existsb_neg_false _ EQ))
    as [(_ & ->)|(Hi & _)]; [|contradiction].
  unfold x_div, x_sign_inf. rewrite Rlt_b_false by lra. reflexivity.
Qed.

(* ================================================================== the model's exact Q side *)
Lemma Q2R_zero : Q2R 0 = 0.
Proof. unfold Q2R. cbn [Qnum Qden]. lra. Qed.

Lemma negQ_Rlt x : negb (Qle_bool 0 x) = Rlt_b (Q2R x) 0.
Proof.
  unfold Rlt_b. destruct (Rlt_dec (Q2R x) 0) as [H|H].
  - apply negb_true_iff. destruct (Qle_bool 0 x) eqn:E; [|reflexivity]. exfalso.
    apply Qle_bool_iff in E. apply Qle_Rle in E. rewrite Q2R_zero in E. lra.
  - apply negb_false_iff. apply Qle_bool_iff. apply Rle_Qle. rewrite Q2R_zero. lra.
Qed.

Lemma existsb_Q2R l :
  existsb (fun x => negb (Qle_bool 0 x)) l = existsb (fun a_ => Rlt_b a_ 0) (map Q2R l).
Proof.
  induction l as [|x r IH]; cbn [existsb map]; [reflexivity|]. rewrite negQ_Rlt, IH. reflexivity.
Qed.

Lemma Qeq_bool_R x : if Qeq_bool x 0 then Q2R x = 0 else Q2R x <> 0.
Proof.
  destruct (Qeq_bool x 0) eqn:E.
  - apply Qeq_bool_iff in E. apply Qeq_eqR in E. rewrite Q2R_zero in E. exact E.
  - intros H. rewrite <- Q2R_zero in H. apply eqR_Qeq in H. apply Qeq_bool_iff in H. congruence.
Qed.

Lemma kl_inf_Q2R P : forall Qd,
  existsb (fun pq => Qeq_bool (snd pq) 0)
          (filter (fun pq => negb (Qeq_bool (fst pq) 0)) (combine P Qd)) = true <->
  kl_infinite (map Q2R P) (map Q2R Qd).
Proof.
  induction P as [|p P IH]; intros [|q Qd]; cbn [combine filter existsb map kl_infinite fst snd];
    try (split; [intros H; discriminate H|intros H; contradiction]).
  pose proof (Qeq_bool_R p) as Hp. pose proof (Qeq_bool_R q) as Hq.
  destruct (Qeq_bool p 0); cbn [negb existsb snd].
  - rewrite IH. tauto.
  - destruct (Qeq_bool q 0); cbn [orb].
    + split; [intros _; left; split; assumption|reflexivity].
    + rewrite IH. tauto.
Qed.

Theorem gen_kl_divergence_cells : forall (P Qd : list Q) base, (1 < base)%R ->
  match kl_cells P Qd, gen_kl_divergence (map Q2R P) (map Q2R Qd) base with
  | Err, None => True | Inf, Some XPInf => True | Fin _, Some (XFin _) => True | _, _ => False end.
Proof.
  intros P Qd base Hb.
  destruct (gen_kl_divergence (map Q2R P) (map Q2R Qd) base) as [d|] eqn:G.
  - destruct (gen_kl_divergence_accepts _ _ _ _ G) as (El & EP & EQ & _).
    rewrite !map_length in El.
    unfold kl_cells. rewrite El, Nat.eqb_refl. cbn [negb].
    rewrite existsb_app, !existsb_Q2R, EP, EQ. cbn [orb].
    destruct (existsb (fun pq => Qeq_bool (snd pq) 0)
                (filter (fun pq => negb (Qeq_bool (fst pq) 0)) (combine P Qd))) eqn:EI.
    + apply kl_inf_Q2R in EI.
      rewrite (gen_kl_divergence_infinite _ _ _ _ Hb G EI). exact I.
    + assert (Hfin : ~ kl_infinite (map Q2R P) (map Q2R Qd)).
      { intros H. apply kl_inf_Q2R in H. congruence. }
      rewrite (gen_kl_divergence_finite _ _ _ _ Hb G Hfin). exact I.
  - apply gen_kl_divergence_rejects in G. unfold kl_cells.
    destruct G as [Nl|(x & Hin & Hx)].
    + rewrite !map_length in Nl. apply Nat.eqb_neq in Nl. rewrite Nl. exact I.
    + destruct (negb (length P =? length Qd)%nat); [exact I|].
      rewrite <- map_app in Hin.
      assert (Ht : existsb (fun x => negb (Qle_bool 0 x)) (P ++ Qd) = true).
      { rewrite existsb_Q2R. apply existsb_neg. exists x. split; assumption. }
      rewrite Ht. exact I.
Qed.

Print Assumptions gen_shannon_entropy_is_model.
Print Assumptions gen_shannon_entropy_normalized.
Print Assumptions gen_kl_divergence_rejects.
Print Assumptions gen_kl_divergence_finite.
Print Assumptions gen_kl_divergence_infinite.
Print Assumptions kl_cell_value.
Print Assumptions gen_kl_divergence_cells.
