(* C01: the consistency invariant and its preservation by every clustering step. *)
From Coq Require Import List ZArith QArith Bool Arith Lia Lqa.
From EV Require Import Cluster ClusterBase.
Import ListNotations.

Section Inv.
  Variable D : nat -> nat -> Q.
  (* "data sets of distinct points": zero self-distance, positive distance between different frames *)
  Hypothesis D_self : forall f, D f f == 0.
  Hypothesis D_pos : forall c f, c <> f -> 0 < D c f.

  Lemma D_nonneg c f : 0 <= D c f.
  Proof.
    destruct (Nat.eq_dec c f) as [->|H]; [rewrite D_self; lra|]. apply Qlt_le_weak, D_pos, H.
  Qed.

  (* per-frame consistency w.r.t. the centre list cs *)
  Definition frame_ok (cs : list nat) (x : fr) : Prop :=
    (lab x < length cs)%nat /\ dist x = D (ctr cs (lab x)) (fid x) /\
    (forall t, (t < length cs)%nat -> dist x <= D (ctr cs t) (fid x)).
  (* a centre frame carries its own label at distance zero *)
  Definition center_ok (cs : list nat) (x : fr) : Prop :=
    forall j, (j < length cs)%nat -> ctr cs j = fid x -> lab x = j /\ dist x == 0.

  Definition Inv (n : nat) (s : st) : Prop :=
    NoDup (fst s) /\ (forall c, In c (fst s) -> (c < n)%nat) /\ fst s <> [] /\
    map fid (snd s) = seq 0 n /\
    Forall (frame_ok (fst s)) (snd s) /\ Forall (center_ok (fst s)) (snd s).

  Lemma NoDup_snoc (cs : list nat) c : NoDup cs -> ~ In c cs -> NoDup (cs ++ [c]).
  Proof.
    induction cs as [|a cs IH]; intros ND Hn; cbn.
    - constructor; [intros []|constructor].
    - inversion ND as [|? ? Ha ND']; subst. constructor.
      + intros Hin. apply in_app_or in Hin. destruct Hin as [Hin|[<-|[]]]; [tauto|]. apply Hn. left. reflexivity.
      + apply IH; [exact ND'|]. intros Hin. apply Hn. right. exact Hin.
  Qed.

  Lemma ctr_in cs j : (j < length cs)%nat -> In (ctr cs j) cs.
  Proof. intros H. unfold ctr. apply nth_In. exact H. Qed.

  Lemma in_ctr cs c : In c cs -> exists j, (j < length cs)%nat /\ ctr cs j = c.
  Proof. intros H. destruct (In_nth cs c 0%nat H) as [j [Hj E]]. exists j. split; assumption. Qed.

  Lemma ctr_app_old cs c j : (j < length cs)%nat -> ctr (cs ++ [c]) j = ctr cs j.
  Proof. intros H. unfold ctr. apply app_nth1. exact H. Qed.
  Lemma ctr_app_new cs c : ctr (cs ++ [c]) (length cs) = c.
  Proof. unfold ctr. rewrite app_nth2 by lia. rewrite Nat.sub_diag. reflexivity. Qed.

  Lemma ctr_inj cs i j : NoDup cs -> (i < length cs)%nat -> (j < length cs)%nat -> ctr cs i = ctr cs j -> i = j.
  Proof. intros ND Hi Hj E. apply (proj1 (NoDup_nth cs 0%nat) ND i j Hi Hj E). Qed.

  (* frames with the same id in a state whose ids are 0..n-1 are the same element *)
  Lemma fid_unique (l : list fr) n x y :
    map fid l = seq 0 n -> In x l -> In y l -> fid x = fid y -> x = y.
  Proof.
    intros Hm Hx Hy E.
    destruct (In_nth l x x Hx) as [i [Hi Ex]]. destruct (In_nth l y x Hy) as [j [Hj Ey]].
    assert (Hlen : length l = n) by (rewrite <- (map_length fid), Hm, seq_length; reflexivity).
    assert (Fi : fid (nth i l x) = i).
    { rewrite <- (map_nth fid). rewrite Hm. rewrite (nth_indep _ _ 0%nat) by (rewrite seq_length; lia).
      rewrite seq_nth by lia. reflexivity. }
    assert (Fj : fid (nth j l x) = j).
    { rewrite <- (map_nth fid). rewrite Hm. rewrite (nth_indep _ _ 0%nat) by (rewrite seq_length; lia).
      rewrite seq_nth by lia. reflexivity. }
    rewrite Ex in Fi. rewrite Ey in Fj. subst. congruence.
  Qed.

  (* ---------------------------------------------------------------- k-centers iteration *)
  Lemma kc_update_frame_ok cs c x :
    frame_ok cs x -> frame_ok (cs ++ [c]) (kc_update D c (length cs) x).
  Proof.
    intros [Hl [Hd Hm]]. unfold kc_update.
    assert (Hlen : length (cs ++ [c]) = S (length cs)) by (rewrite app_length; cbn; lia).
    qlt_cases (D c (fid x)) (dist x) E; unfold frame_ok; cbn [lab dist fid]; rewrite Hlen.
    - split; [lia|]. split; [rewrite ctr_app_new; reflexivity|].
      intros t Ht. destruct (Nat.eq_dec t (length cs)) as [->|Hne].
      + rewrite ctr_app_new. lra.
      + rewrite ctr_app_old by lia. specialize (Hm t ltac:(lia)). lra.
    - split; [lia|]. split; [rewrite ctr_app_old by lia; exact Hd|].
      intros t Ht. destruct (Nat.eq_dec t (length cs)) as [->|Hne].
      + rewrite ctr_app_new. exact E.
      + rewrite ctr_app_old by lia. apply Hm. lia.
  Qed.

  Lemma kc_update_fid c k x : fid (kc_update D c k x) = fid x.
  Proof. unfold kc_update. destruct (Qlt_b _ _); reflexivity. Qed.

  Lemma kc_update_dist_le c k x : dist (kc_update D c k x) <= dist x.
  Proof. unfold kc_update. qlt_cases (D c (fid x)) (dist x) E; cbn [dist]; lra. Qed.

  Lemma map_fid_kc_update c k l : map fid (map (kc_update D c k) l) = map fid l.
  Proof. rewrite map_map. apply map_ext. intros x. apply kc_update_fid. Qed.

  (* the frame chosen as new centre is not yet a centre when its distance is positive *)
  Lemma new_center_fresh n s m :
    Inv n s -> In m (snd s) -> 0 < dist m -> ~ In (fid m) (fst s).
  Proof.
    intros [ND [Hlt [Hne [Hfid [Hfr Hce]]]]] Hm Hpos Hin.
    destruct (in_ctr _ _ Hin) as [j [Hj Ej]].
    rewrite Forall_forall in Hce. destruct (Hce m Hm j Hj Ej) as [_ H0]. lra.
  Qed.

  Lemma fid_lt n s x : Inv n s -> In x (snd s) -> (fid x < n)%nat.
  Proof.
    intros [_ [_ [_ [Hfid _]]]] Hx.
    assert (In (fid x) (map fid (snd s))) by (apply in_map; exact Hx).
    rewrite Hfid in H. apply in_seq in H. lia.
  Qed.

  Lemma kc_iter_plain_inv n s m :
    Inv n s -> argmax (snd s) = Some m -> 0 < dist m ->
    Inv n (fst s ++ [fid m], map (kc_update D (fid m) (length (fst s))) (snd s)).
  Proof.
    intros HI Ha Hpos. destruct (argmax_spec _ _ Ha) as [Hm Hmax].
    pose proof (new_center_fresh n s m HI Hm Hpos) as Hfresh.
    pose proof (fid_lt n s m HI Hm) as Hmn.
    destruct HI as [ND [Hlt [Hne [Hfid [Hfr Hce]]]]].
    unfold Inv. cbn [fst snd]. repeat split.
    - apply NoDup_snoc; assumption.
    - intros c Hc. apply in_app_or in Hc. destruct Hc as [Hc|[<-|[]]]; [apply Hlt; exact Hc|exact Hmn].
    - intros E. apply app_eq_nil in E. destruct E as [_ E]. discriminate.
    - rewrite map_fid_kc_update. exact Hfid.
    - rewrite Forall_forall in *. intros y Hy. apply in_map_iff in Hy. destruct Hy as [x [<- Hx]].
      apply kc_update_frame_ok. apply Hfr. exact Hx.
    - rewrite Forall_forall in *. intros y Hy. apply in_map_iff in Hy. destruct Hy as [x [<- Hx]].
      intros j Hj Ej. rewrite kc_update_fid in Ej.
      rewrite app_length in Hj. cbn [length] in Hj.
      destruct (Nat.eq_dec j (length (fst s))) as [->|Hne'].
      + (* x is the new centre frame itself *)
        rewrite ctr_app_new in Ej.
        assert (x = m) by (apply (fid_unique (snd s) n); auto). subst x.
        unfold kc_update. pose proof (D_self (fid m)) as H0.
        qlt_cases (D (fid m) (fid m)) (dist m) E; [|lra]. cbn [lab dist]. split; [reflexivity|exact H0].
      + (* x is an old centre frame: distance 0 cannot be improved *)
        rewrite ctr_app_old in Ej by lia.
        destruct (Hce x Hx j ltac:(lia) Ej) as [Hl H0].
        unfold kc_update. pose proof (D_nonneg (fid m) (fid x)).
        qlt_cases (D (fid m) (fid x)) (dist x) E; [lra|]. split; assumption.
  Qed.

  (* ---------------------------------------------------------------- triangle-inequality shortcut *)
  Definition metric_sym : Prop := forall a b, D a b == D b a.
  Definition metric_tri : Prop := forall a b c, D a c <= D a b + D b c.

  (* a frame whose distance to its centre is at most half the centre-to-new-centre distance
     cannot be strictly closer to the new centre *)
  Lemma ti_no_update cs c x :
    metric_sym -> metric_tri -> frame_ok cs x ->
    dist x <= D c (ctr cs (lab x)) / (2#1) -> dist x <= D c (fid x).
  Proof.
    intros Hs Ht [Hl [Hd _]] Hh.
    pose proof (Ht c (fid x) (ctr cs (lab x))) as T.
    pose proof (Hs (fid x) (ctr cs (lab x))) as S1.
    rewrite <- Hd in *.
    assert (E : D c (ctr cs (lab x)) / (2#1) == D c (ctr cs (lab x)) * (1#2)) by (unfold Qdiv; reflexivity).
    rewrite E in Hh.
    assert (H2 : D (fid x) (ctr cs (lab x)) == dist x) by (rewrite S1; rewrite Hd; reflexivity).
    lra.
  Qed.

  Lemma kc_update_ti_eq cs c k x :
    metric_sym -> metric_tri -> frame_ok cs x ->
    kc_update_ti D cs c k x = kc_update D c k x.
  Proof.
    intros Hs Ht Hf. unfold kc_update_ti.
    qlt_cases (D c (nth (lab x) cs 0%nat) / (2#1)) (dist x) E; [reflexivity|].
    pose proof (ti_no_update cs c x Hs Ht Hf E) as H. unfold kc_update.
    qlt_cases (D c (fid x)) (dist x) E2; [lra|reflexivity].
  Qed.

  Lemma kc_iter_ti_eq n s : metric_sym -> metric_tri -> Inv n s -> kc_iter D true s = kc_iter D false s.
  Proof.
    intros Hs Ht [_ [_ [_ [_ [Hfr _]]]]]. unfold kc_iter.
    destruct (argmax (snd s)) as [m|]; [|reflexivity]. f_equal.
    apply map_ext_in. intros x Hx. rewrite Forall_forall in Hfr.
    apply kc_update_ti_eq; auto.
  Qed.

  Lemma maxdist_argmax l m : argmax l = Some m -> maxdist l = dist m.
  Proof. intros H. unfold maxdist. rewrite H. reflexivity. Qed.

  (* one guarded iteration preserves the invariant (cutoff >= 0 makes the radius positive) *)
  Lemma kc_iter_inv n s nclu cutoff :
    0 <= cutoff -> Inv n s -> kc_guard nclu cutoff s = true -> Inv n (kc_iter D false s).
  Proof.
    intros Hc HI Hg. unfold kc_guard in Hg. apply andb_prop in Hg. destruct Hg as [_ Hg].
    apply Qlt_b_true in Hg. unfold kc_iter.
    destruct (argmax (snd s)) as [m|] eqn:Ha.
    - rewrite (maxdist_argmax _ _ Ha) in Hg. apply kc_iter_plain_inv; [exact HI|exact Ha|lra].
    - exact HI.
  Qed.

  Lemma kc_iter_inv_ti n s nclu cutoff ti :
    (ti = true -> metric_sym /\ metric_tri) ->
    0 <= cutoff -> Inv n s -> kc_guard nclu cutoff s = true -> Inv n (kc_iter D ti s).
  Proof.
    intros Hti Hc HI Hg. destruct ti.
    - destruct (Hti eq_refl) as [Hs Ht]. rewrite (kc_iter_ti_eq n s Hs Ht HI).
      apply (kc_iter_inv n s nclu cutoff); assumption.
    - apply (kc_iter_inv n s nclu cutoff); assumption.
  Qed.

  Lemma kc_loop_inv nclu cutoff ti : (ti = true -> metric_sym /\ metric_tri) -> 0 <= cutoff ->
    forall fuel n s, Inv n s -> Inv n (kc_loop D fuel nclu cutoff ti s).
  Proof.
    intros Hti Hc. induction fuel as [|fuel IH]; intros n s HI; cbn [kc_loop]; [exact HI|].
    destruct (kc_guard nclu cutoff s) eqn:Hg; [|exact HI].
    apply IH. apply (kc_iter_inv_ti n s nclu cutoff ti); assumption.
  Qed.

  (* ---------------------------------------------------------------- nearest-centre states *)
  Lemma nearest_fr_spec cs f : cs <> [] ->
    fid (nearest_fr D cs f) = f /\ frame_ok cs (nearest_fr D cs f) /\
    (forall t, (t < lab (nearest_fr D cs f))%nat -> dist (nearest_fr D cs f) < D (ctr cs t) f).
  Proof.
    intros Hne. unfold nearest_fr. destruct (nearest_some D f cs Hne) as [j [d E]]. rewrite E.
    destruct (nearest_spec D f cs j d E) as [H1 [H2 [H3 H4]]].
    cbn [fid lab dist]. split; [reflexivity|]. split; [|exact H4].
    unfold frame_ok. cbn [fid lab dist]. repeat split; assumption.
  Qed.

  Lemma nearest_fr_center_ok cs f : cs <> [] -> NoDup cs -> center_ok cs (nearest_fr D cs f).
  Proof.
    intros Hne ND j Hj Ej.
    destruct (nearest_fr_spec cs f Hne) as [Hf [[Hl [Hd Hm]] Hfirst]]. rewrite Hf in *.
    set (x := nearest_fr D cs f) in *.
    assert (H0 : dist x <= 0).
    { specialize (Hm j Hj). rewrite Ej in Hm. pose proof (D_self f). lra. }
    pose proof (D_nonneg (ctr cs (lab x)) f) as Hn. rewrite <- Hd in Hn.
    assert (Hz : dist x == 0) by lra. split; [|exact Hz].
    (* the centre attaining distance 0 is f itself, hence index j *)
    destruct (Nat.eq_dec (ctr cs (lab x)) f) as [Ec|Nc].
    - apply (ctr_inj cs); auto. congruence.
    - pose proof (D_pos _ _ Nc) as Hp. rewrite <- Hd in Hp. lra.
  Qed.

  Lemma nearest_state_inv n cs :
    cs <> [] -> NoDup cs -> (forall c, In c cs -> (c < n)%nat) -> Inv n (nearest_state D cs n).
  Proof.
    intros Hne ND Hlt. unfold nearest_state, Inv. cbn [fst snd]. repeat split; try assumption.
    - rewrite map_map. rewrite <- (map_id (seq 0 n)) at 2. apply map_ext. intros f.
      apply (nearest_fr_spec cs f Hne).
    - rewrite Forall_forall. intros y Hy. apply in_map_iff in Hy. destruct Hy as [f [<- _]].
      apply (nearest_fr_spec cs f Hne).
    - rewrite Forall_forall. intros y Hy. apply in_map_iff in Hy. destruct Hy as [f [<- _]].
      apply nearest_fr_center_ok; assumption.
  Qed.

  (* cold start: the state after the first iteration (frame 0, everything assigned to it) *)
  Lemma kc_first_inv n : (0 < n)%nat -> Inv n (kc_first D n).
  Proof.
    intros Hn. unfold kc_first, Inv. cbn [fst snd]. repeat split.
    - constructor; [intros []|constructor].
    - intros c [<-|[]]. exact Hn.
    - discriminate.
    - rewrite map_map. cbn [fid]. apply map_id.
    - rewrite Forall_forall. intros y Hy. apply in_map_iff in Hy. destruct Hy as [f [<- _]].
      unfold frame_ok. cbn [lab dist fid length]. split; [lia|]. split; [reflexivity|].
      intros t Ht. assert (t = 0)%nat by lia. subst. unfold ctr. cbn. lra.
    - rewrite Forall_forall. intros y Hy. apply in_map_iff in Hy. destruct Hy as [f [<- _]].
      intros j Hj Ej. cbn [length] in Hj. assert (j = 0)%nat by lia. subst j.
      unfold ctr in Ej. cbn in Ej. subst f. cbn [lab dist]. split; [reflexivity|apply D_self].
  Qed.
End Inv.
