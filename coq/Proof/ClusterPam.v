(* C01/C09: the PAM update preserves the consistency invariant and never raises the cost. *)
From Coq Require Import List ZArith QArith Bool Arith Lia Lqa.
From EV Require Import Cluster ClusterBase ClusterInv.
Import ListNotations.

Lemma replace_nth_length {A} i (x : A) l : length (replace_nth i x l) = length l.
Proof. revert i. induction l as [|y l IH]; intros [|i]; cbn; auto. Qed.

Lemma replace_nth_nth_same {A} i (x d : A) l : (i < length l)%nat -> nth i (replace_nth i x l) d = x.
Proof. revert i. induction l as [|y l IH]; intros [|i] H; cbn in *; try lia; auto. apply IH. lia. Qed.

Lemma replace_nth_nth_other {A} i j (x d : A) l : i <> j -> nth j (replace_nth i x l) d = nth j l d.
Proof.
  revert i j. induction l as [|y l IH]; intros [|i] [|j] H; cbn; auto; try congruence.
Qed.

Lemma replace_nth_in {A} i (x y : A) l : In y (replace_nth i x l) -> y = x \/ In y l.
Proof.
  revert i. induction l as [|z l IH]; intros [|i] H; cbn in *; auto.
  - destruct H as [<-|H]; auto.
  - destruct H as [<-|H]; auto. destruct (IH i H); auto.
Qed.

Lemma replace_nth_NoDup i (x : nat) l : NoDup l -> ~ In x l -> NoDup (replace_nth i x l).
Proof.
  revert i. induction l as [|z l IH]; intros [|i] ND Hn; cbn; auto.
  - inversion ND; subst. constructor; auto. intros H. apply Hn. right. exact H.
  - inversion ND as [|? ? Hz ND']; subst. constructor.
    + intros H. destruct (replace_nth_in _ _ _ _ H) as [->|H']; [apply Hn; left; reflexivity|tauto].
    + apply IH; auto. intros H. apply Hn. right. exact H.
Qed.

Section Pam.
  Variable D : nat -> nat -> Q.
  Hypothesis D_self : forall f, D f f == 0.
  Hypothesis D_pos : forall c f, c <> f -> 0 < D c f.

  Notation Inv := (Inv D).
  Notation frame_ok := (frame_ok D).

  Lemma ctr_replace_same cs cid p : (cid < length cs)%nat -> ctr (replace_nth cid p cs) cid = p.
  Proof. intros H. unfold ctr. apply replace_nth_nth_same. exact H. Qed.
  Lemma ctr_replace_other cs cid p t : cid <> t -> ctr (replace_nth cid p cs) t = ctr cs t.
  Proof. intros H. unfold ctr. apply replace_nth_nth_other. exact H. Qed.

  Lemma frame_ok_nonneg cs x : frame_ok cs x -> 0 <= dist x.
  Proof. intros [_ [Hd _]]. rewrite Hd. apply D_nonneg; assumption. Qed.

  Lemma pam_frame_fid cid p cs' x : cs' <> [] -> fid (pam_frame D cid p cs' x) = fid x.
  Proof.
    intros Hne. unfold pam_frame. destruct (Qlt_b _ _); [reflexivity|].
    destruct (negb _); [reflexivity|]. apply (nearest_fr_spec D cs' (fid x) Hne).
  Qed.

  (* proposing a frame that already is a medoid can only raise distances *)
  Lemma pam_frame_no_gain cs cid p x :
    (cid < length cs)%nat -> In p cs -> frame_ok cs x ->
    dist x <= dist (pam_frame D cid p (replace_nth cid p cs) x).
  Proof.
    intros Hcid Hp Hf. pose proof Hf as [Hl [Hd Hm]].
    assert (Hne : replace_nth cid p cs <> []).
    { intros E. apply (f_equal (@length nat)) in E. rewrite replace_nth_length in E. cbn in E. lia. }
    assert (Hall : forall c, In c cs -> dist x <= D c (fid x)).
    { intros c Hc. destruct (in_ctr _ _ Hc) as [t [Ht <-]]. apply Hm. exact Ht. }
    unfold pam_frame.
    qlt_cases (D p (fid x)) (dist x) E.
    - specialize (Hall p Hp). lra.
    - destruct (negb (lab x =? cid)); [lra|].
      destruct (nearest_fr_spec D (replace_nth cid p cs) (fid x) Hne) as [Hf' [[Hl' [Hd' _]] _]].
      rewrite Hd', Hf'. apply Hall.
      rewrite replace_nth_length in Hl'.
      set (j := lab (nearest_fr D (replace_nth cid p cs) (fid x))) in *.
      destruct (Nat.eq_dec cid j) as [<-|Hne'].
      + rewrite ctr_replace_same by exact Hcid. exact Hp.
      + rewrite ctr_replace_other by exact Hne'. apply ctr_in. exact Hl'.
  Qed.

  Lemma sumsq_le_map (g : fr -> fr) l :
    (forall x, In x l -> 0 <= dist x /\ dist x <= dist (g x)) -> sumsq l <= sumsq (map g l).
  Proof.
    induction l as [|x l IH]; intros H; cbn [sumsq map fold_right]; [lra|].
    destruct (H x (or_introl eq_refl)) as [H0 H1].
    assert (IH' : sumsq l <= sumsq (map g l)) by (apply IH; intros y Hy; apply H; right; exact Hy).
    unfold sumsq in IH'. nra.
  Qed.

  (* ---- the accepted candidate state satisfies the invariant when the proposal is not a medoid yet *)
  Lemma pam_frame_ok cs cid p x :
    (cid < length cs)%nat -> frame_ok cs x ->
    frame_ok (replace_nth cid p cs) (pam_frame D cid p (replace_nth cid p cs) x).
  Proof.
    intros Hcid Hf. pose proof Hf as [Hl [Hd Hm]].
    assert (Hne : replace_nth cid p cs <> []).
    { intros E. apply (f_equal (@length nat)) in E. rewrite replace_nth_length in E. cbn in E. lia. }
    unfold pam_frame.
    qlt_cases (D p (fid x)) (dist x) E.
    - unfold ClusterInv.frame_ok. cbn [lab dist fid]. rewrite replace_nth_length.
      split; [exact Hcid|]. split; [rewrite ctr_replace_same by exact Hcid; reflexivity|].
      intros t Ht. destruct (Nat.eq_dec cid t) as [<-|Hne'].
      + rewrite ctr_replace_same by exact Hcid. lra.
      + rewrite ctr_replace_other by exact Hne'. specialize (Hm t Ht). lra.
    - destruct (Nat.eqb_spec (lab x) cid) as [El|Nl]; cbn [negb].
      + apply (nearest_fr_spec D (replace_nth cid p cs) (fid x) Hne).
      + unfold ClusterInv.frame_ok. rewrite replace_nth_length. split; [exact Hl|].
        split; [rewrite ctr_replace_other by congruence; exact Hd|].
        intros t Ht. destruct (Nat.eq_dec cid t) as [<-|Hne'].
        * rewrite ctr_replace_same by exact Hcid. exact E.
        * rewrite ctr_replace_other by exact Hne'. apply Hm. exact Ht.
  Qed.

  Lemma pam_candidate_inv n s cid p :
    Inv n s -> (cid < length (fst s))%nat -> (p < n)%nat -> ~ In p (fst s) ->
    Inv n (replace_nth cid p (fst s), map (pam_frame D cid p (replace_nth cid p (fst s))) (snd s)).
  Proof.
    intros HI Hcid Hp Hfresh. pose proof HI as [ND [Hlt [Hne [Hfid [Hfr Hce]]]]].
    set (cs := fst s) in *. set (cs' := replace_nth cid p cs).
    assert (Hne' : cs' <> []).
    { intros E. apply (f_equal (@length nat)) in E. unfold cs' in E. rewrite replace_nth_length in E. cbn in E. lia. }
    unfold ClusterInv.Inv. cbn [fst snd]. repeat split.
    - apply replace_nth_NoDup; assumption.
    - intros c Hc. destruct (replace_nth_in _ _ _ _ Hc) as [->|Hc']; [exact Hp|apply Hlt; exact Hc'].
    - exact Hne'.
    - rewrite map_map. rewrite <- Hfid. apply map_ext. intros x. apply pam_frame_fid. exact Hne'.
    - rewrite Forall_forall in *. intros y Hy. apply in_map_iff in Hy. destruct Hy as [x [<- Hx]].
      apply pam_frame_ok; [exact Hcid|apply Hfr; exact Hx].
    - rewrite Forall_forall in *. intros y Hy. apply in_map_iff in Hy. destruct Hy as [x [<- Hx]].
      intros j Hj Ej. unfold cs' in Hj. rewrite replace_nth_length in Hj.
      rewrite pam_frame_fid in Ej by exact Hne'.
      pose proof (Hfr x Hx) as Hfx. pose proof Hfx as [Hl [Hd Hm]].
      destruct (Nat.eq_dec cid j) as [<-|Hnej].
      + (* x is the proposed frame p: it is not a medoid, so its old distance is positive *)
        unfold cs' in Ej. rewrite ctr_replace_same in Ej by exact Hcid.
        assert (Hpos : 0 < dist x).
        { rewrite Hd. apply D_pos. intros E. apply Hfresh. rewrite Ej. rewrite <- E. apply ctr_in. exact Hl. }
        unfold pam_frame. pose proof (D_self p) as H0. rewrite Ej in H0 |- *.
        qlt_cases (D (fid x) (fid x)) (dist x) E; [|lra].
        cbn [lab dist]. split; [reflexivity|exact H0].
      + (* x is another medoid's frame: distance 0, label j <> cid: kept *)
        unfold cs' in Ej. rewrite ctr_replace_other in Ej by exact Hnej.
        destruct (Hce x Hx j Hj Ej) as [Hlj H0].
        unfold pam_frame. pose proof (D_nonneg D D_self D_pos p (fid x)) as Hnn.
        qlt_cases (D p (fid x)) (dist x) E; [lra|].
        destruct (Nat.eqb_spec (lab x) cid) as [El|Nl]; [congruence|]. cbn [negb].
        split; assumption.
  Qed.

  (* ---- the whole update *)
  Theorem pam_update_inv n s cid p :
    Inv n s -> (cid < length (fst s))%nat -> (p < n)%nat -> Inv n (pam_update D s cid p).
  Proof.
    intros HI Hcid Hp. unfold pam_update.
    qlt_cases (sumsq (map (pam_frame D cid p (replace_nth cid p (fst s))) (snd s))) (sumsq (snd s)) E; [|exact HI].
    destruct (in_dec Nat.eq_dec p (fst s)) as [Hin|Hnin].
    - exfalso. pose proof HI as [_ [_ [_ [_ [Hfr _]]]]]. rewrite Forall_forall in Hfr.
      assert (Hle : sumsq (snd s) <= sumsq (map (pam_frame D cid p (replace_nth cid p (fst s))) (snd s))).
      { apply sumsq_le_map. intros x Hx. split.
        - apply (frame_ok_nonneg (fst s)). apply Hfr. exact Hx.
        - apply pam_frame_no_gain; [exact Hcid|exact Hin|apply Hfr; exact Hx]. }
      lra.
    - apply pam_candidate_inv; assumption.
  Qed.

  Lemma pam_update_k s cid p : length (fst (pam_update D s cid p)) = length (fst s).
  Proof. unfold pam_update. destruct (Qlt_b _ _); cbn [fst]; [apply replace_nth_length|reflexivity]. Qed.

  (* C09: accept iff the cost strictly decreases; otherwise the state is untouched *)
  Theorem pam_update_cost s cid p :
    (sumsq (snd (pam_update D s cid p)) < sumsq (snd s) /\ pam_update D s cid p <> s \/ pam_update D s cid p = s).
  Proof.
    unfold pam_update.
    qlt_cases (sumsq (map (pam_frame D cid p (replace_nth cid p (fst s))) (snd s))) (sumsq (snd s)) E.
    - left. cbn [snd]. split; [exact E|]. intros C. apply (f_equal snd) in C. cbn [snd] in C. rewrite C in E. lra.
    - right. reflexivity.
  Qed.

  Lemma pam_update_cost_le s cid p : sumsq (snd (pam_update D s cid p)) <= sumsq (snd s).
  Proof. destruct (pam_update_cost s cid p) as [[H _]|H]; [lra|rewrite H; lra]. Qed.

  (* ---- sweeps and runs *)
  Lemma pam_sweep_from_inv n props : forall cid s,
    Inv n s -> (cid + length props <= length (fst s))%nat -> Forall (fun p => (p < n)%nat) props ->
    Inv n (pam_sweep_from D cid props s) /\
    length (fst (pam_sweep_from D cid props s)) = length (fst s) /\
    sumsq (snd (pam_sweep_from D cid props s)) <= sumsq (snd s).
  Proof.
    induction props as [|p props IH]; intros cid s HI Hk Hp; cbn [pam_sweep_from].
    - split; [exact HI|]. split; [reflexivity|lra].
    - cbn [length] in Hk. inversion Hp as [|? ? Hp1 Hp2]; subst.
      destruct (IH (S cid) (pam_update D s cid p)) as [H1 [H2 H3]].
      + apply pam_update_inv; [exact HI|lia|exact Hp1].
      + rewrite pam_update_k. lia.
      + exact Hp2.
      + split; [exact H1|]. split; [rewrite H2; apply pam_update_k|].
        pose proof (pam_update_cost_le s cid p). lra.
  Qed.

  Definition sweeps_ok (n k : nat) (sweeps : list (list nat)) : Prop :=
    Forall (fun props => (length props <= k)%nat /\ Forall (fun p => (p < n)%nat) props) sweeps.

  Theorem kmedoids_inv n sweeps : forall s,
    Inv n s -> sweeps_ok n (length (fst s)) sweeps ->
    Inv n (kmedoids D s sweeps) /\ length (fst (kmedoids D s sweeps)) = length (fst s) /\
    sumsq (snd (kmedoids D s sweeps)) <= sumsq (snd s).
  Proof.
    unfold kmedoids. induction sweeps as [|props sweeps IH]; intros s HI Hok; cbn [fold_left].
    - split; [exact HI|]. split; [reflexivity|lra].
    - inversion Hok as [|? ? [Hl Hp] Hrest]; subst.
      destruct (pam_sweep_from_inv n props 0 s HI ltac:(cbn; lia) Hp) as [H1 [H2 H3]].
      fold (pam_sweep D s props) in *.
      destruct (IH (pam_sweep D s props) H1) as [G1 [G2 G3]].
      + unfold sweeps_ok in *. rewrite H2. exact Hrest.
      + split; [exact G1|]. split; [rewrite G2; exact H2|lra].
  Qed.
End Pam.
