(* C14: base lemmas on striping (l[k::P]), ragged rows and the scatter of a global array. *)
From Coq Require Import List ZArith QArith Bool Arith Lia Permutation.
From EV Require Import Cluster Mpi.
Import ListNotations.
Local Open Scope nat_scope.

(* ------------------------------------------------------------------ every = l[k::P] *)
Lemma every_nth : forall {A} P (l : list A) k j, 1 <= P ->
  nth_error (every P k l) j = nth_error l (k + j * P).
Proof.
  intros A P l; induction l as [|x t IH]; intros k j HP.
  - cbn [every]. transitivity (@None A); [destruct j; reflexivity | destruct (k + j * P); reflexivity].
  - destruct k as [|k'].
    + destruct j as [|j'].
      * reflexivity.
      * cbn [every nth_error]. rewrite IH by assumption.
        replace (0 + S j' * P) with (S (P - 1 + j' * P)) by lia. reflexivity.
    + cbn [every]. rewrite IH by assumption. reflexivity.
Qed.

Lemma every_map : forall {A B} (f : A -> B) P (l : list A) k,
  every P k (map f l) = map f (every P k l).
Proof.
  intros A B f P l; induction l as [|x t IH]; intros k; [reflexivity|].
  destruct k; cbn [every map]; rewrite IH; reflexivity.
Qed.

Lemma every_Forall : forall {A} (Pr : A -> Prop) P (l : list A) k, Forall Pr l -> Forall Pr (every P k l).
Proof.
  intros A Pr P l; induction l as [|x t IH]; intros k H; [constructor|].
  inversion H; subst. destruct k; cbn [every]; [constructor|]; auto.
Qed.

Lemma every_nil_iff : forall {A} P (l : list A) k, every P k l = [] <-> length l <= k.
Proof.
  intros A P l; induction l as [|x t IH]; intros k; cbn [every length].
  - split; intros; [lia|reflexivity].
  - destruct k; [split; [discriminate|lia]|]. rewrite IH. lia.
Qed.

(* ------------------------------------------------------------------ the stripes partition the list *)
Definition cstep (P k : nat) : nat := match k with O => P - 1 | S k' => k' end.

Lemma every_cons : forall {A} P k (x : A) t,
  every P k (x :: t) = (if Nat.eqb k 0 then [x] else []) ++ every P (cstep P k) t.
Proof. intros; destruct k; reflexivity. Qed.

Lemma concat_map_app : forall {A B} (f g : A -> list B) ks,
  Permutation (concat (map (fun k => f k ++ g k) ks)) (concat (map f ks) ++ concat (map g ks)).
Proof.
  intros A B f g ks; induction ks as [|k r IH]; cbn [map concat]; [constructor|].
  rewrite <- !app_assoc. apply Permutation_app_head.
  rewrite IH. apply Permutation_app_swap_app.
Qed.

Lemma heads_none : forall {A} (x : A) ks, ~ In 0 ks ->
  concat (map (fun k => if Nat.eqb k 0 then [x] else []) ks) = [].
Proof.
  intros A x ks; induction ks as [|k r IH]; intros H; [reflexivity|].
  cbn [map concat]. destruct k; [exfalso; apply H; left; reflexivity|].
  cbn. apply IH. intros Hin; apply H; right; assumption.
Qed.

Lemma heads_one : forall {A} (x : A) ks, NoDup ks -> In 0 ks ->
  concat (map (fun k => if Nat.eqb k 0 then [x] else []) ks) = [x].
Proof.
  intros A x ks Hnd Hin. apply in_split in Hin. destruct Hin as [a [b ->]].
  apply NoDup_remove_2 in Hnd.
  rewrite map_app, concat_app. cbn [map concat Nat.eqb].
  rewrite !heads_none; [reflexivity| |]; intros H; apply Hnd; apply in_or_app; auto.
Qed.

Lemma cstep_range : forall P ks, 1 <= P -> NoDup ks -> (forall k, In k ks <-> k < P) ->
  NoDup (map (cstep P) ks) /\ (forall k, In k (map (cstep P) ks) <-> k < P).
Proof.
  intros P ks HP Hnd Hr. split.
  - clear HP.
    assert (Hinj : forall a b, In a ks -> In b ks -> cstep P a = cstep P b -> a = b).
    { intros a b Ha Hb. apply Hr in Ha; apply Hr in Hb. unfold cstep. destruct a, b; lia. }
    revert Hinj. clear Hr. induction Hnd as [|k r Hk Hnd IH]; intros Hinj; cbn [map]; constructor.
    + intros Hin. apply in_map_iff in Hin. destruct Hin as [k' [He Hk']].
      apply Hinj in He; [subst; contradiction|right; assumption|left; reflexivity].
    + apply IH. intros a b Ha Hb. apply Hinj; right; assumption.
  - intros k. rewrite in_map_iff. split.
    + intros [k' [<- Hk']]. apply Hr in Hk'. unfold cstep. destruct k'; lia.
    + intros Hk. destruct (Nat.eq_dec k (P - 1)) as [->|Hne].
      * exists 0. split; [reflexivity|]. apply Hr. lia.
      * exists (S k). split; [reflexivity|]. apply Hr. lia.
Qed.

Lemma stripes_perm_gen : forall {A} P (l : list A) ks, 1 <= P -> NoDup ks -> (forall k, In k ks <-> k < P) ->
  Permutation (concat (map (fun k => every P k l) ks)) l.
Proof.
  intros A P l; induction l as [|x t IH]; intros ks HP Hnd Hr.
  - clear. induction ks as [|k r IH]; cbn [map concat every]; [constructor|]. destruct k; exact IH.
  - erewrite map_ext by (intros; apply every_cons).
    rewrite (concat_map_app (fun k => if Nat.eqb k 0 then [x] else []) (fun k => every P (cstep P k) t)).
    rewrite heads_one; [|assumption|apply Hr; lia].
    cbn [app]. constructor.
    rewrite <- (map_map (cstep P) (fun k => every P k t)).
    destruct (cstep_range P ks HP Hnd Hr) as [Hnd' Hr'].
    apply IH; assumption.
Qed.

Lemma stripes_perm : forall {A} P (l : list A), 1 <= P -> Permutation (concat (stripes P l)) l.
Proof.
  intros A P l HP. unfold stripes. apply stripes_perm_gen; [assumption|apply seq_NoDup|].
  intros k. rewrite in_seq. split; intros; lia.
Qed.

(* ------------------------------------------------------------------ ragged rows *)
Lemma sum_nat_app : forall a b, sum_nat (a ++ b) = sum_nat a + sum_nat b.
Proof. unfold sum_nat. induction a as [|x a IH]; intros b; cbn [app fold_right]; [reflexivity|]. rewrite IH. lia. Qed.

Lemma split_by_concat : forall {A} lens (g : list A), concat (split_by lens g) = firstn (sum_nat lens) g.
Proof.
  intros A lens; induction lens as [|L r IH]; intros g; [reflexivity|].
  cbn [split_by concat sum_nat fold_right]. rewrite IH.
  rewrite <- (firstn_skipn L g) at 3. rewrite firstn_app.
  destruct (Nat.le_gt_cases (length g) L) as [Hle|Hgt].
  - rewrite (firstn_all2 (n := L + _)) by (rewrite firstn_length; lia).
    rewrite skipn_all2 by assumption. rewrite !firstn_nil. reflexivity.
  - rewrite firstn_length, Nat.min_l by lia.
    rewrite (firstn_all2 (n := L + _)) by (rewrite firstn_length; lia).
    f_equal. f_equal. fold (sum_nat r). lia.
Qed.

Lemma split_by_concat_full : forall {A} lens (g : list A), length g = sum_nat lens -> concat (split_by lens g) = g.
Proof. intros. rewrite split_by_concat. apply firstn_all2. lia. Qed.

Lemma split_by_map : forall {A B} (f : A -> B) lens (g : list A),
  split_by lens (map f g) = map (map f) (split_by lens g).
Proof.
  intros A B f lens; induction lens as [|L r IH]; intros g; [reflexivity|].
  cbn [split_by map]. rewrite firstn_map, skipn_map, IH. reflexivity.
Qed.

Lemma split_by_length : forall {A} lens (g : list A), length (split_by lens g) = length lens.
Proof. intros A lens; induction lens; intros; cbn; auto. Qed.

Lemma split_by_lengths : forall {A} lens (g : list A), length g = sum_nat lens ->
  map (@length A) (split_by lens g) = lens.
Proof.
  intros A lens; induction lens as [|L r IH]; intros g Hg; [reflexivity|].
  cbn [split_by map]. cbn [sum_nat fold_right] in Hg. fold (sum_nat r) in Hg.
  rewrite firstn_length, Nat.min_l by lia. f_equal. apply IH. rewrite skipn_length. lia.
Qed.

Lemma concat_map_map : forall {A B} (f : A -> B) (ll : list (list A)), concat (map (map f) ll) = map f (concat ll).
Proof. intros. symmetry. apply concat_map. Qed.

Lemma local_of_map : forall {A B} (f : A -> B) P r lens (g : list A),
  local_of P r lens (map f g) = map f (local_of P r lens g).
Proof. intros. unfold local_of. rewrite split_by_map, every_map, concat_map_map. reflexivity. Qed.

Lemma scatter_map : forall {A B} (f : A -> B) P lens (g : list A),
  scatter P lens (map f g) = map (map f) (scatter P lens g).
Proof.
  intros. unfold scatter. rewrite map_map. apply map_ext. intros. apply local_of_map.
Qed.

Lemma scatter_length : forall {A} P lens (g : list A), length (scatter P lens g) = P.
Proof. intros. unfold scatter. rewrite map_length, seq_length. reflexivity. Qed.

Lemma Permutation_concat : forall {A} (l l' : list (list A)), Permutation l l' -> Permutation (concat l) (concat l').
Proof.
  intros A l l' H; induction H; cbn [concat].
  - constructor.
  - apply Permutation_app_head. assumption.
  - rewrite !app_assoc. apply Permutation_app_tail. apply Permutation_app_comm.
  - etransitivity; eassumption.
Qed.

Lemma concat_concat_map : forall {A} (lll : list (list (list A))), concat (map (@concat A) lll) = concat (concat lll).
Proof.
  intros A lll; induction lll as [|x r IH]; cbn [map concat]; [reflexivity|].
  rewrite concat_app, IH. reflexivity.
Qed.

(* the local arrays together hold every frame of the global array exactly once *)
Lemma scatter_perm : forall {A} P lens (g : list A), 1 <= P -> length g = sum_nat lens ->
  Permutation (concat (scatter P lens g)) g.
Proof.
  intros A P lens g HP Hg. unfold scatter, local_of.
  rewrite <- (map_map (fun r => every P r (split_by lens g)) (@concat A)).
  rewrite concat_concat_map. fold (stripes P (split_by lens g)).
  rewrite <- (split_by_concat_full lens g Hg) at 2.
  apply Permutation_concat. apply stripes_perm. assumption.
Qed.
