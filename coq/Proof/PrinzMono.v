(* C12, round 3: the iteration is a coordinate ASCENT on the log-likelihood.
   Every single update the sweep performs -- the diagonal update of step i and the pairwise update of
   step (i, j), on the state and with the running row sums the code has at that moment -- does not
   decrease  loglikT n C X = sum_kl c_kl ln (x_kl / x_k),  the log-likelihood on the counts C of the
   model T = X / rowsum X that the function would return from that state; it increases it strictly
   unless it stores the value that is already there.  Hence: one sweep does not decrease the
   log-likelihood and increases it strictly unless it changes nothing; the likelihood of the state
   after k sweeps from X0 = C + C^T is non-decreasing in k; the state the stopping loop ends in has a
   likelihood >= that of the transpose-symmetrised counts; the sequence of likelihood values is
   non-decreasing and bounded by the likelihood of the row-normalised counts (Gibbs), hence convergent
   (convergence of the VALUES, not of X).

   Side conditions.  `ln` is total in Coq (ln x = 0 for x <= 0) whereas the log-likelihood of a matrix
   with T_kl = 0 where c_kl > 0 is -infinity, so the statements are about states whose X has exactly the
   support of C + C^T  (`Sup`: 0 < x_ij <-> 0 < c_ij + c_ji; the initial state has it by definition).
   `Sup` is preserved by every update provided every state receives a count from another state
   (`has_in`, a consequence of strong connectivity): a state i without incoming counts whose only
   partner is j gets x_ij = 0 although c_ij > 0 (its stationary probability is 0) -- the real code
   then returns a row of NaN; see has_in_needed below for the witness. *)
From Coq Require Import List ZArith Reals Lra Lia Bool Arith.
From EV Require Import Prinz PrinzGen PrinzProofs PrinzSweep PrinzFixed PrinzMax PrinzLik PrinzStop.
Import ListNotations.
Open Scope R_scope.

(* ------------------------------------------------------------------ sums with one distinguished term *)
Lemma rest_zero n f j : (forall k, (k < n)%nat -> 0 <= f k) -> (j < n)%nat -> sumR n f - f j <= 0 ->
  forall k, (k < n)%nat -> k <> j -> f k = 0.
Proof.
  intros Hf Hj H k Hk Hkj.
  pose proof (sumR_ge_two n f k j Hf Hk Hj Hkj) as G. pose proof (Hf k Hk). lra.
Qed.

Lemma rest_zero_sum n f j : (j < n)%nat -> (forall k, (k < n)%nat -> k <> j -> f k = 0) -> sumR n f = f j.
Proof.
  intros Hj H. rewrite (sumR_ext n f (fun k => if Nat.eqb k j then f j else 0)).
  - apply sumR_ind. exact Hj.
  - intros k Hk. destruct (Nat.eqb_spec k j) as [-> |]; [reflexivity | apply H; assumption].
Qed.

(* ------------------------------------------------------------------ the quadratic: two more facts *)
Lemma root_pos_b a b c : 0 < a -> c <= 0 -> b < 0 -> 0 < root a b c.
Proof.
  intros Ha Hc Hb. unfold root. pose proof (sqrt_pos (b * b - 4 * a * c)).
  apply Rdiv_lt_0_compat; lra.
Qed.

Lemma root_zero a b c : 0 < a -> c = 0 -> 0 <= b -> root a b c = 0.
Proof.
  intros Ha Hc Hb. destruct (quad_root a b c Ha ltac:(lra)) as [Hq Hv]. set (v := root a b c) in *.
  destruct (Rle_lt_or_eq_dec 0 v Hv) as [Hp | Hz]; [exfalso | symmetry; exact Hz].
  assert (0 < a * v * v) by (apply Rmult_lt_0_compat; [apply Rmult_lt_0_compat|]; assumption).
  assert (0 <= b * v) by (apply Rmult_le_pos; lra). lra.
Qed.

(* ------------------------------------------------------------------ support *)
(* X is positive exactly where C + C^T is *)
Definition Sup (n : nat) (C : nat -> nat -> R) (s : state R) : Prop :=
  forall i j, (i < n)%nat -> (j < n)%nat -> (0 < fst s i j <-> 0 < C i j + C j i).

(* every state (of a chain with at least two states) receives a count from another state *)
Definition has_in (n : nat) (C : nat -> nat -> R) : Prop :=
  forall i, (i < n)%nat -> (2 <= n)%nat -> exists k, (k < n)%nat /\ k <> i /\ 0 < C k i.

Lemma Sup_seqv n C s t : seqv s t -> Sup n C t -> Sup n C s.
Proof. intros [HX _] H i j Hi Hj. rewrite HX. apply H; assumption. Qed.

Lemma init_Sup n C : Sup n C (init_state ROps n C).
Proof. intros i j _ _. cbn [init_state fst ROps kadd]. tauto. Qed.

Lemma sc_has_in n C : strongly_connected n C -> has_in n C.
Proof.
  intros Hsc i Hi Hn.
  set (j := if Nat.eqb i 0 then 1%nat else 0%nat).
  assert (Hj : (j < n)%nat /\ j <> i) by (unfold j; destruct (Nat.eqb_spec i 0); lia).
  destruct (reach_exit n C (fun x => Nat.ltb x n && negb (Nat.eqb x i)) j i (Hsc j i (proj1 Hj) Hi))
    as [a [b [Ha [Hb [Hbn Hc]]]]].
  - apply andb_true_iff. split; [apply Nat.ltb_lt; tauto | apply negb_true_iff, Nat.eqb_neq; tauto].
  - rewrite Nat.eqb_refl. apply andb_false_r.
  - apply andb_true_iff in Ha. destruct Ha as [Ha1 Ha2].
    apply Nat.ltb_lt in Ha1. apply negb_true_iff, Nat.eqb_neq in Ha2.
    apply andb_false_iff in Hb. destruct Hb as [Hb | Hb].
    + apply Nat.ltb_ge in Hb. lia.
    + apply negb_false_iff, Nat.eqb_eq in Hb. subst b. exists a. tauto.
Qed.

Section Mono.
  Variable n : nat.
  Variable C : nat -> nat -> R.
  Variable Crs : nat -> R.
  Hypothesis HC : CInv n C Crs.

  Let L (s : state R) : R := loglikS n C Crs (fst s).

  Lemma L_seqv s t : seqv s t -> L s = L t.
  Proof.
    intros [HX _]. unfold L, loglikS. f_equal.
    - apply sumR_ext. intros k _. apply sumR_ext. intros l _. rewrite HX. reflexivity.
    - apply sumR_ext. intros k _. f_equal. f_equal. apply sumR_ext. intros l _. apply HX.
  Qed.

  Lemma C_zero_of_X_zero s i k : Sup n C s -> (i < n)%nat -> (k < n)%nat -> fst s i k = 0 ->
    C i k = 0 /\ C k i = 0.
  Proof.
    intros HS Hi Hk Hx. pose proof (c_nn _ _ _ HC i k Hi Hk). pose proof (c_nn _ _ _ HC k i Hk Hi).
    destruct (Rle_lt_dec (C i k + C k i) 0) as [Hle | Hlt]; [split; lra |].
    apply (HS i k Hi Hk) in Hlt. lra.
  Qed.

  (* a count of i to a state other than j puts mass into row i outside column j *)
  Lemma rest_pos s i j : Inv n s -> Sup n C s -> (i < n)%nat -> (j < n)%nat ->
    0 < Crs i - C i j -> 0 < snd s i - fst s i j.
  Proof.
    intros Hs HS Hi Hj Hc.
    destruct (Rle_lt_or_eq_dec 0 _ (rest_nonneg n s i j Hs Hi Hj)) as [H | H]; [exact H | exfalso].
    rewrite (inv_rs _ _ Hs i Hi) in H.
    assert (Z : forall k, (k < n)%nat -> k <> j -> C i k = 0).
    { intros k Hk Hkj. apply (C_zero_of_X_zero s i k HS Hi Hk).
      apply (rest_zero n (fst s i) j (fun l Hl => inv_nn _ _ Hs i l Hi Hl) Hj); [lra | exact Hk | exact Hkj]. }
    rewrite (c_rs _ _ _ HC i Hi), (rest_zero_sum n (C i) j Hj Z) in Hc. lra.
  Qed.

  Lemma rest_zero_counts s i j : Inv n s -> Sup n C s -> (i < n)%nat -> (j < n)%nat ->
    snd s i - fst s i j = 0 -> Crs i - C i j = 0.
  Proof.
    intros Hs HS Hi Hj H. pose proof (crest_nonneg n C Crs i j HC Hi Hj) as G.
    destruct (Rle_lt_or_eq_dec 0 _ G) as [P | E]; [| symmetry; exact E].
    pose proof (rest_pos s i j Hs HS Hi Hj P). lra.
  Qed.

  Hypothesis Hin : has_in n C.

  (* a row whose only mass is in column j belongs to a state whose only incoming counts come from j *)
  Lemma rest_zero_in s i j : Inv n s -> Sup n C s -> (i < n)%nat -> (j < n)%nat -> i <> j ->
    snd s i - fst s i j = 0 -> 0 < C j i.
  Proof.
    intros Hs HS Hi Hj Hij H.
    destruct (Hin i Hi ltac:(lia)) as [k [Hk [Hki Hc]]].
    destruct (Nat.eq_dec k j) as [-> | Hkj]; [exact Hc | exfalso].
    rewrite (inv_rs _ _ Hs i Hi) in H.
    pose proof (rest_zero n (fst s i) j (fun l Hl => inv_nn _ _ Hs i l Hi Hl) Hj ltac:(lra) k Hk Hkj) as Z.
    destruct (C_zero_of_X_zero s i k HS Hi Hk Z). lra.
  Qed.

  (* ---------------------------------------------------------------- the value a pairwise update stores *)
  Lemma oval_cases s i j : Inv n s -> Sup n C s -> (i < j < n)%nat ->
    oval C Crs s i j = fst s i j \/
    (0 < fst s i j /\ 0 < oval C Crs s i j /\ qa (C i j) (C j i) (Crs i) (Crs j) > 0).
  Proof.
    intros Hs HS Hij. assert (Hi : (i < n)%nat) by lia. assert (Hj : (j < n)%nat) by lia.
    pose proof (offdiag_c_nonpos n C Crs HC s i j Hs Hi Hj) as Hc.
    pose proof (inv_sym _ _ Hs i j Hi Hj) as Hsym.
    pose proof (inv_nn _ _ Hs i j Hi Hj) as Hx0.
    pose proof (rest_nonneg n s i j Hs Hi Hj) as Hri.
    pose proof (rest_nonneg n s j i Hs Hj Hi) as Hrj. rewrite <- Hsym in Hrj.
    pose proof (c_nn _ _ _ HC i j Hi Hj) as Hcij. pose proof (c_nn _ _ _ HC j i Hj Hi) as Hcji.
    pose proof (crest_nonneg n C Crs i j HC Hi Hj) as HA. pose proof (crest_nonneg n C Crs j i HC Hj Hi) as HB.
    unfold oval. rewrite py_offdiag_spec by exact Hc. cbn [fst]. unfold newv.
    destruct (Req_EM_T (qa (C i j) (C j i) (Crs i) (Crs j)) 0) as [Ea | Na].
    - left. symmetry. exact Hsym.
    - assert (Ha : 0 < qa (C i j) (C j i) (Crs i) (Crs j)) by (pose proof (qa_nonneg n C Crs HC i j Hi Hj); lra).
      set (a := qa (C i j) (C j i) (Crs i) (Crs j)) in *.
      set (b := qb (C i j) (C j i) (Crs i) (Crs j) (snd s i) (snd s j) (fst s i j)).
      set (c := qc (C i j) (C j i) (snd s i) (snd s j) (fst s i j)) in *.
      destruct (Rle_lt_or_eq_dec 0 (C i j + C j i) ltac:(lra)) as [Hsp | Hsz].
      + (* the pair has counts: old and new value are positive *)
        right. split; [apply (HS i j Hi Hj); exact Hsp | split; [| exact Ha]].
        destruct (Rle_lt_or_eq_dec 0 _ Hri) as [Pi | Zi]; destruct (Rle_lt_or_eq_dec 0 _ Hrj) as [Pj | Zj].
        * apply quad_root_pos; [exact Ha |]. unfold c, qc.
          assert (0 < (C i j + C j i) * (snd s i - fst s i j) * (snd s j - fst s i j))
            by (apply Rmult_lt_0_compat; [apply Rmult_lt_0_compat|]; assumption). lra.
        * (* row j has no other mass: c_j = c_ji, and c_ij > 0 *)
          assert (Zj' : snd s j - fst s j i = 0) by (rewrite <- Hsym; lra).
          pose proof (rest_zero_counts s j i Hs HS Hj Hi Zj') as EB.
          pose proof (rest_zero_in s j i Hs HS Hj Hi ltac:(lia) Zj') as Pc.
          apply root_pos_b; [exact Ha | exact Hc |]. unfold b, qb.
          replace (snd s j - fst s i j) with 0 by lra.
          replace (snd s i + snd s j - 2 * fst s i j) with (snd s i - fst s i j) by lra.
          assert (0 < C i j * (snd s i - fst s i j)) by (apply Rmult_lt_0_compat; assumption).
          replace (Crs j) with (C j i) by lra. nra.
        * assert (Zi' : snd s i - fst s i j = 0) by lra.
          pose proof (rest_zero_counts s i j Hs HS Hi Hj Zi') as EA.
          pose proof (rest_zero_in s i j Hs HS Hi Hj ltac:(lia) Zi') as Pc.
          apply root_pos_b; [exact Ha | exact Hc |]. unfold b, qb.
          replace (snd s i - fst s i j) with 0 by lra.
          replace (snd s i + snd s j - 2 * fst s i j) with (snd s j - fst s i j) by lra.
          assert (0 < C j i * (snd s j - fst s i j)) by (apply Rmult_lt_0_compat; assumption).
          replace (Crs i) with (C i j) by lra. nra.
        * exfalso.
          pose proof (rest_zero_counts s i j Hs HS Hi Hj ltac:(lra)) as EA.
          assert (Zj' : snd s j - fst s j i = 0) by (rewrite <- Hsym; lra).
          pose proof (rest_zero_counts s j i Hs HS Hj Hi Zj') as EB.
          unfold a, qa in Ha. lra.
      + (* no counts between i and j: x_ij = 0 stays 0 *)
        left.
        assert (Hx : fst s i j = 0).
        { destruct (Rle_lt_or_eq_dec 0 _ Hx0) as [P | E]; [| symmetry; exact E].
          apply (HS i j Hi Hj) in P. lra. }
        rewrite Hx. apply root_zero; [exact Ha | unfold c, qc; rewrite <- Hsz; ring |].
        unfold b, qb. rewrite <- Hsz, Hx.
        assert (0 <= Crs i) by lra. assert (0 <= Crs j) by lra.
        assert (0 <= Crs i * (snd s j - 0)) by (apply Rmult_le_pos; lra).
        assert (0 <= Crs j * (snd s i - 0)) by (apply Rmult_le_pos; lra). lra.
  Qed.

  (* ---------------------------------------------------------------- the value a diagonal update stores *)
  Lemma dval_cases s i : Inv n s -> Sup n C s -> (i < n)%nat ->
    dval C Crs s i = fst s i i \/
    (0 < fst s i i /\ 0 < dval C Crs s i /\ 0 < Crs i - C i i).
  Proof.
    intros Hs HS Hi. unfold dval. rewrite py_diag_spec. cbn [fst].
    pose proof (c_nn _ _ _ HC i i Hi Hi) as Hc. pose proof (inv_nn _ _ Hs i i Hi Hi) as Hx0.
    destruct (Rlt_dec 0 (Crs i - C i i)) as [Hd | Hd]; [| left; reflexivity].
    destruct (Rle_lt_or_eq_dec 0 _ Hc) as [Pc | Zc].
    - right. split; [apply (HS i i Hi Hi); lra | split; [| exact Hd]].
      pose proof (rest_pos s i i Hs HS Hi Hi Hd) as Pr.
      apply Rdiv_lt_0_compat; [apply Rmult_lt_0_compat; assumption | exact Hd].
    - left. rewrite <- Zc.
      assert (Hx : fst s i i = 0).
      { destruct (Rle_lt_or_eq_dec 0 _ Hx0) as [P | E]; [| symmetry; exact E].
        apply (HS i i Hi Hi) in P. lra. }
      rewrite Hx. unfold Rdiv. ring.
  Qed.

  (* ---------------------------------------------------------------- one update *)
  (* the pairwise update of step (i, j): support kept, log-likelihood not decreased, and not increased
     only if the state is left as it was *)
  Lemma ostep_mono s i j : Inv n s -> Sup n C s -> (i < j < n)%nat ->
    let s' := ostep C Crs s (i, j) in
    Sup n C s' /\ L s <= L s' /\ (L s' <= L s -> seqv s' s).
  Proof.
    intros Hs HS Hij s'. assert (Hi : (i < n)%nat) by lia. assert (Hj : (j < n)%nat) by lia.
    pose proof (inv_sym _ _ Hs j i Hj Hi) as Hsym.
    destruct (oval_cases s i j Hs HS Hij) as [Hv | [Hx [Hv Ha]]].
    - pose proof (ostep_id C Crs s i j Hsym Hv) as Hq.
      assert (EL : L s' = L s) by (apply L_seqv; exact Hq).
      split; [exact (Sup_seqv n C _ _ Hq HS) | split; [lra | intros _; exact Hq]].
    - assert (HX : fst s' = pair_set (fst s) i j (oval C Crs s i j)).
      { unfold s', ostep, off_step, oval. cbn [fst snd]. rewrite py_offdiag_shape. reflexivity. }
      split; [| split].
      + intros k l Hk Hl. rewrite HX. unfold pair_set, upd2.
        destruct (Nat.eqb_spec k j) as [-> |]; destruct (Nat.eqb_spec l i) as [-> |]; cbn [andb].
        * pose proof (HS j i Hj Hi). rewrite Hsym in *. tauto.
        * destruct (Nat.eqb_spec j i), (Nat.eqb_spec l j); cbn [andb]; try (apply HS; assumption). lia.
        * destruct (Nat.eqb_spec k i), (Nat.eqb_spec i j); cbn [andb]; try (apply HS; assumption). lia.
        * destruct (Nat.eqb_spec k i) as [-> |], (Nat.eqb_spec l j) as [-> |]; cbn [andb]; try (apply HS; assumption).
          pose proof (HS i j Hi Hj). tauto.
      + unfold L. rewrite HX.
        pose proof (loglik_pair_coordinate n C Crs (fst s) i j (oval C Crs s i j) Hi Hj ltac:(lia) Hsym) as E.
        cbv zeta in E. rewrite <- !(inv_rs _ _ Hs) in E by assumption.
        pose proof (rest_nonneg n s i j Hs Hi Hj) as Hri.
        pose proof (rest_nonneg n s j i Hs Hj Hi) as Hrj. rewrite Hsym in Hrj.
        pose proof (c_nn _ _ _ HC i j Hi Hj). pose proof (c_nn _ _ _ HC j i Hj Hi).
        destruct (Req_EM_T (fst s i j) (oval C Crs s i j)) as [Eq | Ne].
        * rewrite <- Eq in E |- *. lra.
        * pose proof (offdiag_is_coordinate_maximum (C i j) (C j i) (Crs i) (Crs j) (snd s i) (snd s j)
                        (fst s i j) (fst s j i) ltac:(lra) Hri Hrj Ha Hv (fst s i j) Hx Ne) as M.
          unfold oval in *. lra.
      + intros Hle. apply (ostep_id C Crs s i j Hsym).
        destruct (Req_EM_T (fst s i j) (oval C Crs s i j)) as [Eq | Ne]; [symmetry; exact Eq | exfalso].
        unfold L in Hle. rewrite HX in Hle.
        pose proof (loglik_pair_coordinate n C Crs (fst s) i j (oval C Crs s i j) Hi Hj ltac:(lia) Hsym) as E.
        cbv zeta in E. rewrite <- !(inv_rs _ _ Hs) in E by assumption.
        pose proof (rest_nonneg n s i j Hs Hi Hj) as Hri.
        pose proof (rest_nonneg n s j i Hs Hj Hi) as Hrj. rewrite Hsym in Hrj.
        pose proof (c_nn _ _ _ HC i j Hi Hj). pose proof (c_nn _ _ _ HC j i Hj Hi).
        pose proof (offdiag_is_coordinate_maximum (C i j) (C j i) (Crs i) (Crs j) (snd s i) (snd s j)
                      (fst s i j) (fst s j i) ltac:(lra) Hri Hrj Ha Hv (fst s i j) Hx Ne) as M.
        unfold oval in *. lra.
  Qed.

  Lemma dstep_mono s i : Inv n s -> Sup n C s -> (i < n)%nat ->
    let s' := dstep C Crs s i in
    Sup n C s' /\ L s <= L s' /\ (L s' <= L s -> seqv s' s).
  Proof.
    intros Hs HS Hi s'.
    destruct (dval_cases s i Hs HS Hi) as [Hv | [Hx [Hv Hd]]].
    - pose proof (dstep_id C Crs s i Hv) as Hq.
      assert (EL : L s' = L s) by (apply L_seqv; exact Hq).
      split; [exact (Sup_seqv n C _ _ Hq HS) | split; [lra | intros _; exact Hq]].
    - assert (HX : fst s' = diag_set (fst s) i (dval C Crs s i)).
      { unfold s', dstep, diag_step, dval.
        destruct (py_diag ROps (C i i) (Crs i) (snd s i) (fst s i i)) as [x r]. reflexivity. }
      pose proof (loglik_diag_coordinate n C Crs (fst s) i (dval C Crs s i) Hi) as E.
      cbv zeta in E. rewrite <- !(inv_rs _ _ Hs) in E by assumption.
      pose proof (diag_is_coordinate_maximum (C i i) (Crs i) (snd s i) (fst s i i)
                    (c_nn _ _ _ HC i i Hi Hi) (rest_nonneg n s i i Hs Hi Hi) Hd Hv (fst s i i) Hx) as M.
      cbv zeta in M. fold (dval C Crs s i) in M.
      split; [| split].
      + intros k l Hk Hl. rewrite HX. unfold diag_set, upd2.
        destruct (Nat.eqb_spec k i) as [-> |], (Nat.eqb_spec l i) as [-> |]; cbn [andb]; try (apply HS; assumption).
        pose proof (HS i i Hi Hi). tauto.
      + unfold L. rewrite HX.
        destruct (Req_EM_T (fst s i i) (dval C Crs s i)) as [Eq | Ne]; [rewrite <- Eq in E |- *; lra |].
        specialize (M Ne). lra.
      + intros Hle. apply (dstep_id C Crs s i).
        destruct (Req_EM_T (fst s i i) (dval C Crs s i)) as [Eq | Ne]; [symmetry; exact Eq | exfalso].
        unfold L in Hle. rewrite HX in Hle. specialize (M Ne). lra.
  Qed.

  (* ---------------------------------------------------------------- one sweep *)
  (* what holds of every state t reached inside the sweep that started from s *)
  Definition Asc (s t : state R) : Prop :=
    Inv n t /\ Sup n C t /\ L s <= L t /\ (L t <= L s -> seqv t s).

  Lemma Asc_refl s : Inv n s -> Sup n C s -> Asc s s.
  Proof. intros Hs HS. split; [exact Hs | split; [exact HS | split; [lra | intros _; apply seqv_refl]]]. Qed.

  Lemma Asc_step s t t' : Asc s t -> Inv n t' -> Sup n C t' -> L t <= L t' -> (L t' <= L t -> seqv t' t) -> Asc s t'.
  Proof.
    intros [_ [_ [H1 H2]]] Ht' HS' H3 H4. split; [exact Ht' | split; [exact HS' | split; [lra |]]].
    intros Hle. apply (seqv_trans _ t); [apply H4; lra | apply H2; lra].
  Qed.

  Lemma Asc_dstep s t i : Asc s t -> (i < n)%nat -> Asc s (dstep C Crs t i).
  Proof.
    intros A Hi. destruct A as [Ht [HS R]].
    destruct (dstep_mono t i Ht HS Hi) as [S' [M1 M2]].
    apply (Asc_step s t); [split; [| split]; assumption | apply dstep_inv; assumption | exact S' | exact M1 | exact M2].
  Qed.

  Lemma Asc_ostep s t ij : Asc s t -> (fst ij < snd ij < n)%nat -> Asc s (ostep C Crs t ij).
  Proof.
    intros A Hij. destruct ij as [i j]. cbn [fst snd] in Hij. destruct A as [Ht [HS R]].
    destruct (ostep_mono t i j Ht HS Hij) as [S' [M1 M2]].
    apply (Asc_step s t); [split; [| split]; assumption | apply ostep_inv; assumption | exact S' | exact M1 | exact M2].
  Qed.

  Theorem sweep_ascent s : Inv n s -> Sup n C s -> Asc s (py_sweep ROps C Crs n s).
  Proof.
    intros Hs HS. unfold py_sweep, sweep. fold (dstep C Crs). fold (ostep C Crs).
    apply (fold_left_inv (Asc s) (fun ij => (fst ij < snd ij < n)%nat)).
    - intros t ij A Hq. apply Asc_ostep; assumption.
    - rewrite Forall_forall. apply pairs_spec.
    - apply (fold_left_inv (Asc s) (fun i => (i < n)%nat)).
      + intros t i A Hi. apply Asc_dstep; assumption.
      + rewrite Forall_forall. intros i Hi. rewrite in_seq in Hi. lia.
      + apply Asc_refl; assumption.
  Qed.

  (* ---------------------------------------------------------------- in terms of the model's likelihood *)
  Hypothesis Hcp : forall k, (k < n)%nat -> 0 < Crs k.

  Lemma rows_pos s : Inv n s -> Sup n C s -> forall i, (i < n)%nat -> 0 < snd s i.
  Proof.
    intros Hs HS i Hi.
    assert (Hnn : 0 <= snd s i).
    { rewrite (inv_rs _ _ Hs i Hi). apply sumR_nonneg. intros k Hk. apply (inv_nn _ _ Hs); assumption. }
    destruct (Rle_lt_or_eq_dec 0 _ Hnn) as [P | Z]; [exact P | exfalso].
    assert (ZC : forall k, (k < n)%nat -> C i k = 0).
    { intros k Hk. apply (C_zero_of_X_zero s i k HS Hi Hk).
      pose proof (sumR_ge_term n (fst s i) k (fun l Hl => inv_nn _ _ Hs i l Hi Hl) Hk) as G.
      rewrite <- (inv_rs _ _ Hs i Hi) in G. pose proof (inv_nn _ _ Hs i k Hi Hk). lra. }
    pose proof (Hcp i Hi) as P. rewrite (c_rs _ _ _ HC i Hi) in P.
    rewrite (sumR_ext n (C i) (fun _ => 0)) in P by exact ZC. rewrite sumR_zero in P. lra.
  Qed.

  Lemma Sup_supported s : Inv n s -> Sup n C s -> supported n C (fst s).
  Proof.
    intros Hs HS. split.
    - intros k l Hk Hl Hc. apply (HS k l Hk Hl). pose proof (c_nn _ _ _ HC l k Hl Hk). lra.
    - intros k Hk. rewrite <- (inv_rs _ _ Hs k Hk). apply rows_pos; assumption.
  Qed.

  Lemma L_is_loglikT s : Inv n s -> Sup n C s -> loglikT n C (fst s) = L s.
  Proof. intros Hs HS. apply loglik_split; [exact HC | apply Sup_supported; assumption]. Qed.

  (* single updates, stated for the log-likelihood of T = X / rowsum X *)
  Theorem diag_update_monotone s i : Inv n s -> Sup n C s -> (i < n)%nat ->
    let s' := diag_step (py_diag ROps) C Crs s i in
    Inv n s' /\ Sup n C s' /\ loglikT n C (fst s) <= loglikT n C (fst s') /\
    (fst s' i i <> fst s i i -> loglikT n C (fst s) < loglikT n C (fst s')).
  Proof.
    intros Hs HS Hi s'. fold (dstep C Crs) in s'.
    pose proof (dstep_inv n C Crs HC s i Hs Hi) as Hs'. fold s' in Hs'.
    destruct (dstep_mono s i Hs HS Hi) as [S' [M1 M2]]. fold s' in S', M1, M2.
    rewrite (L_is_loglikT s Hs HS), (L_is_loglikT s' Hs' S').
    split; [exact Hs' | split; [exact S' | split; [exact M1 |]]].
    intros Hne. destruct (Rlt_le_dec (L s) (L s')) as [Hlt | Hle]; [exact Hlt | exfalso].
    apply Hne. apply (M2 Hle).
  Qed.

  Theorem pair_update_monotone s i j : Inv n s -> Sup n C s -> (i < j < n)%nat ->
    let s' := off_step (py_offdiag ROps) C Crs s (i, j) in
    Inv n s' /\ Sup n C s' /\ loglikT n C (fst s) <= loglikT n C (fst s') /\
    (fst s' i j <> fst s i j -> loglikT n C (fst s) < loglikT n C (fst s')).
  Proof.
    intros Hs HS Hij s'. fold (ostep C Crs) in s'.
    pose proof (ostep_inv n C Crs HC s (i, j) Hs Hij) as Hs'. fold s' in Hs'.
    destruct (ostep_mono s i j Hs HS Hij) as [S' [M1 M2]]. fold s' in S', M1, M2.
    rewrite (L_is_loglikT s Hs HS), (L_is_loglikT s' Hs' S').
    split; [exact Hs' | split; [exact S' | split; [exact M1 |]]].
    intros Hne. destruct (Rlt_le_dec (L s) (L s')) as [Hlt | Hle]; [exact Hlt | exfalso].
    apply Hne. apply (M2 Hle).
  Qed.

  (* sweep_monotone: one sweep keeps the invariants and does not decrease the log-likelihood *)
  Theorem sweep_monotone s : Inv n s -> Sup n C s ->
    let s' := py_sweep ROps C Crs n s in
    Inv n s' /\ Sup n C s' /\ loglikT n C (fst s) <= loglikT n C (fst s').
  Proof.
    intros Hs HS s'. destruct (sweep_ascent s Hs HS) as [Hs' [S' [M1 _]]]. fold s' in Hs', S', M1.
    rewrite (L_is_loglikT s Hs HS), (L_is_loglikT s' Hs' S'). tauto.
  Qed.

  (* sweep_strict: a sweep that changes some entry of X strictly increases the log-likelihood *)
  Theorem sweep_strict s : Inv n s -> Sup n C s ->
    (exists i j, fst (py_sweep ROps C Crs n s) i j <> fst s i j) ->
    loglikT n C (fst s) < loglikT n C (fst (py_sweep ROps C Crs n s)).
  Proof.
    intros Hs HS [i [j Hne]]. destruct (sweep_ascent s Hs HS) as [Hs' [S' [M1 M2]]].
    rewrite (L_is_loglikT s Hs HS), (L_is_loglikT _ Hs' S').
    destruct (Rlt_le_dec (L s) (L (py_sweep ROps C Crs n s))) as [Hlt | Hle]; [exact Hlt | exfalso].
    apply Hne. apply (M2 Hle).
  Qed.

  (* the likelihood is unchanged by a sweep exactly when X is, exactly at the fixed points of the updates *)
  Theorem sweep_loglik_equal_iff_fixed s : Inv n s -> Sup n C s ->
    (loglikT n C (fst (py_sweep ROps C Crs n s)) = loglikT n C (fst s) <-> is_fixed n C Crs s).
  Proof.
    intros Hs HS. destruct (sweep_ascent s Hs HS) as [Hs' [S' [M1 M2]]].
    rewrite (L_is_loglikT s Hs HS), (L_is_loglikT _ Hs' S'). split.
    - intros E. apply sweep_unchanged_is_fixed; [exact Hs |]. intros i j _ _. apply (M2 ltac:(lra)).
    - intros F. apply L_seqv. apply fixed_sweep_unchanged; assumption.
  Qed.

  (* ---------------------------------------------------------------- k sweeps *)
  Theorem iter_monotone s : Inv n s -> Sup n C s -> forall k,
    let u := fun m => Nat.iter m (py_sweep ROps C Crs n) s in
    Inv n (u k) /\ Sup n C (u k) /\
    loglikT n C (fst (u k)) <= loglikT n C (fst (u (S k))) /\
    loglikT n C (fst s) <= loglikT n C (fst (u k)).
  Proof.
    intros Hs HS k u. induction k as [| k IH].
    - destruct (sweep_monotone s Hs HS) as [_ [_ M]]. unfold u. simpl.
      split; [exact Hs | split; [exact HS | split; [exact M | lra]]].
    - destruct IH as [Hk [Sk [M1 M2]]].
      destruct (sweep_monotone (u k) Hk Sk) as [Hk' [Sk' _]].
      change (py_sweep ROps C Crs n (u k)) with (u (S k)) in Hk', Sk'.
      destruct (sweep_monotone (u (S k)) Hk' Sk') as [_ [_ M]].
      change (py_sweep ROps C Crs n (u (S k))) with (u (S (S k))) in M.
      split; [exact Hk' | split; [exact Sk' | split; [exact M | lra]]].
  Qed.

  (* the Gibbs bound along the iteration *)
  Lemma iter_bounded s : Inv n s -> Sup n C s -> forall k,
    loglikT n C (fst (Nat.iter k (py_sweep ROps C Crs n) s))
      <= sumR n (fun a => sumR n (fun b => C a b * ln (C a b / Crs a))).
  Proof.
    intros Hs HS k. destruct (iter_monotone s Hs HS k) as [Hk [Sk _]]. cbv beta in Hk, Sk.
    apply (loglikT_le_counts n C Crs); [exact HC | exact Hcp | apply (inv_nn _ _ Hk) | apply Sup_supported; assumption].
  Qed.

  (* loglik_converges: the likelihood values along the iteration form a non-decreasing sequence bounded
     above, hence they converge (to a limit between the initial value and the Gibbs bound).
     This is convergence of the VALUES log L(X_k), not of the matrices X_k. *)
  Theorem loglik_converges s : Inv n s -> Sup n C s ->
    let u := fun k => loglikT n C (fst (Nat.iter k (py_sweep ROps C Crs n) s)) in
    Un_growing u /\
    exists l, Un_cv u l /\ (forall k, u k <= l) /\
              l <= sumR n (fun a => sumR n (fun b => C a b * ln (C a b / Crs a))).
  Proof.
    intros Hs HS u.
    assert (G : Un_growing u).
    { intros k. destruct (iter_monotone s Hs HS k) as [_ [_ [M _]]]. exact M. }
    set (B := sumR n (fun a => sumR n (fun b => C a b * ln (C a b / Crs a)))).
    assert (Hb : forall k, u k <= B) by (intros k; apply iter_bounded; assumption).
    assert (U : has_ub u).
    { exists B. intros x [k ->]. apply Hb. }
    destruct (growing_cv u G U) as [l Hl].
    split; [exact G | exists l; split; [exact Hl | split]].
    - intros k. apply (growing_ineq u l G Hl).
    - destruct (Rle_lt_dec l B) as [H | H]; [exact H | exfalso].
      destruct (Hl ((l - B) / 2) ltac:(lra)) as [N HN]. specialize (HN N (Nat.le_refl N)).
      unfold R_dist in HN. pose proof (Hb N). apply Rabs_def2 in HN. lra.
  Qed.
End Mono.

(* ------------------------------------------------------------------ from X0 = C + C^T, strongly connected counts *)
Theorem iteration_monotone n C Crs : CInv n C Crs -> has_in n C -> (forall k, (k < n)%nat -> 0 < Crs k) ->
  forall k, let u := fun m => Nat.iter m (py_sweep ROps C Crs n) (init_state ROps n C) in
  Sup n C (u k) /\
  loglikT n C (fst (u k)) <= loglikT n C (fst (u (S k))) /\
  loglikT n C (fun i j => C i j + C j i) <= loglikT n C (fst (u k)).
Proof.
  intros HC Hin Hcp k u.
  destruct (iter_monotone n C Crs HC Hin Hcp (init_state ROps n C) (init_invariant n C Crs HC) (init_Sup n C) k)
    as [_ [S [M1 M2]]].
  split; [exact S | split; [exact M1 | exact M2]].
Qed.

Theorem iteration_loglik_converges n C Crs : CInv n C Crs -> has_in n C -> (forall k, (k < n)%nat -> 0 < Crs k) ->
  let u := fun k => loglikT n C (fst (Nat.iter k (py_sweep ROps C Crs n) (init_state ROps n C))) in
  Un_growing u /\
  exists l, Un_cv u l /\ (forall k, u k <= l) /\
            l <= sumR n (fun a => sumR n (fun b => C a b * ln (C a b / Crs a))).
Proof.
  intros HC Hin Hcp.
  exact (loglik_converges n C Crs HC Hin Hcp (init_state ROps n C) (init_invariant n C Crs HC) (init_Sup n C)).
Qed.

(* ------------------------------------------------------------------ the stopping loop and the returned model *)
Theorem stopped_loglik (lo : LOps R) dgl odl cont n C Crs tol fuel :
  CInv n C Crs -> has_in n C -> (forall k, (k < n)%nat -> 0 < Crs k) ->
  let r := prinz_loop ROps (py_diag ROps) (py_offdiag ROps) dgl odl cont C Crs n tol fuel 0 (init_state ROps n C) 0 in
  loglikT n C (fun i j => C i j + C j i) <= loglikT n C (fst (fst (fst r))).
Proof.
  intros HC Hin Hcp r.
  destruct (prinz_loop_spec ROps (py_diag ROps) (py_offdiag ROps) dgl odl cont C Crs n tol fuel 0 (init_state ROps n C) 0)
    as [m [_ [_ [H3 _]]]].
  fold r in H3. rewrite H3.
  destruct (iteration_monotone n C Crs HC Hin Hcp m) as [_ [_ M]]. exact M.
Qed.

(* log-likelihood of a transition matrix given as a function / as the nested list the function returns *)
Definition loglikP (n : nat) (C P : nat -> nat -> R) : R := sumR n (fun k => sumR n (fun l => C k l * ln (P k l))).
Definition matR (M : list (list R)) : nat -> nat -> R := fun i j => nth j (nth i M []) 0.

Lemma tab1_nth {K} n (f : nat -> K) d j : (j < n)%nat -> nth j (tab1 n f) d = f j.
Proof.
  intros Hj. unfold tab1. rewrite (nth_indep _ d (f 0%nat)) by (rewrite map_length, seq_length; exact Hj).
  rewrite map_nth, seq_nth by exact Hj. reflexivity.
Qed.
Lemma tab2_nth {K} n (f : nat -> nat -> K) d i j : (i < n)%nat -> (j < n)%nat -> nth j (nth i (tab2 n f) []) d = f i j.
Proof.
  intros Hi Hj. unfold tab2. rewrite (nth_indep _ [] (tab1 n (f 0%nat))) by (rewrite map_length, seq_length; exact Hi).
  rewrite (map_nth (fun i0 => tab1 n (f i0))), seq_nth by exact Hi. apply tab1_nth. exact Hj.
Qed.

Lemma all_pos_R n f : all_pos ROps n f = true -> forall i, (i < n)%nat -> 0 < f i.
Proof.
  unfold all_pos. rewrite forallb_forall. intros H i Hi. specialize (H i ltac:(apply in_seq; lia)).
  cbn [ROps kltb kofZ] in H. unfold Rltb in H. destruct (Rlt_dec 0 (f i)); [assumption | discriminate].
Qed.

(* run_stop_loglik: whatever the stopping rule decides (any logl terms, any test, any tol and max_iter >= 1),
   the transition matrix T the function returns has a log-likelihood on C at least that of the
   transpose-symmetrised estimate (C + C^T) / rowsum *)
Theorem run_stop_loglik dgl odl cont n (C : nat -> nat -> R) tol max_iter T pi k w :
  (forall i j, (i < n)%nat -> (j < n)%nat -> 0 <= C i j) -> has_in n C -> (1 <= max_iter)%nat ->
  prinz_run_stop ROps (py_diag ROps) (py_offdiag ROps) dgl odl cont n C tol max_iter = Some ((T, pi), k, w) ->
  loglikP n C (fun i j => (C i j + C j i) / sumR n (fun l => C i l + C l i)) <= loglikP n C (matR T).
Proof.
  intros Hnn Hin Hm Hrun.
  destruct (run_stop_spec ROps (py_diag ROps) (py_offdiag ROps) dgl odl cont C n tol max_iter (T, pi) k w Hm Hrun)
    as [_ [_ Hr]].
  unfold prinz_run in Hr.
  destruct (all_pos ROps n (snd (init_state ROps n C))) eqn:G1; [| discriminate].
  destruct (all_pos ROps n (fun i => sumK ROps n (C i))) eqn:G2; [| discriminate].
  cbn [andb] in Hr. injection Hr as HT _.
  set (Crs := fun i => sumK ROps n (C i)) in *.
  assert (HC : CInv n C Crs) by (split; [exact Hnn | intros; reflexivity]).
  pose proof (all_pos_R n Crs G2) as Hcp.
  destruct (iteration_monotone n C Crs HC Hin Hcp k) as [_ [_ M]]. cbv beta in M.
  change (sweep (py_diag ROps) (py_offdiag ROps)) with (@py_sweep R ROps) in HT.
  set (sk := Nat.iter k (py_sweep ROps C Crs n) (init_state ROps n C)) in *.
  assert (E : loglikP n C (matR T) = loglikT n C (fst sk)).
  { unfold loglikP, loglikT. apply sumR_ext. intros a Ha. apply sumR_ext. intros b Hb.
    rewrite <- HT. unfold matR. rewrite tab2_nth by assumption. reflexivity. }
  rewrite E. exact M.
Qed.

(* ------------------------------------------------------------------ strongly connected counts *)
Theorem sc_iteration_monotone n C Crs : CInv n C Crs -> strongly_connected n C -> (forall k, (k < n)%nat -> 0 < Crs k) ->
  forall k, let u := fun m => Nat.iter m (py_sweep ROps C Crs n) (init_state ROps n C) in
  loglikT n C (fst (u k)) <= loglikT n C (fst (u (S k))) /\
  loglikT n C (fun i j => C i j + C j i) <= loglikT n C (fst (u k)).
Proof.
  intros HC Hsc Hcp k u. destruct (iteration_monotone n C Crs HC (sc_has_in n C Hsc) Hcp k) as [_ H]. exact H.
Qed.

(* where the likelihood stops increasing, the Prinz equations hold *)
Theorem sc_loglik_stalls_at_prinz_solution n C Crs s :
  CInv n C Crs -> strongly_connected n C -> (forall k, (k < n)%nat -> 0 < Crs k) ->
  Inv n s -> Sup n C s ->
  loglikT n C (fst (py_sweep ROps C Crs n s)) = loglikT n C (fst s) -> prinz_eqs n C Crs s.
Proof.
  intros HC Hsc Hcp Hs HS E.
  apply (sweep_loglik_equal_iff_fixed n C Crs HC (sc_has_in n C Hsc) Hcp s Hs HS) in E.
  apply sweep_fixed_self_consistent_sc; try assumption.
  - apply rows_pos with (C := C) (Crs := Crs); assumption.
  - intros i j _ _. apply (fixed_sweep_unchanged n C Crs s Hs E).
Qed.

(* ------------------------------------------------------------------ why has_in: a state without incoming
   counts.  C = [[0,2],[0,3]]: both rows have counts (the guards pass), X0 = [[0,2],[2,6]] has the support
   of C + C^T, but the pairwise update of (0,1) stores 0 in x_01 although c_01 = 2 > 0: row 0 of X
   vanishes, T_0. = 0/0.  (The real functions return a row of NaN / fail their final assertion on this
   input; it is not strongly connected.) *)
Lemma has_in_needed :
  exists C Crs, CInv 2 C Crs /\ (forall k, (k < 2)%nat -> 0 < Crs k) /\ ~ has_in 2 C /\
    let s := init_state ROps 2 C in
    Inv 2 s /\ Sup 2 C s /\ 0 < C 0%nat 1%nat /\
    fst (off_step (py_offdiag ROps) C Crs s (0, 1)%nat) 0%nat 1%nat = 0.
Proof.
  set (C := fun i j : nat => match i, j with 0%nat, 1%nat => 2 | 1%nat, 1%nat => 3 | _, _ => 0 end).
  set (Crs := fun i : nat => match i with 0%nat => 2 | _ => 3 end).
  assert (HC : CInv 2 C Crs).
  { split.
    - intros i j Hi Hj. unfold C. destruct i as [| [| ]], j as [| [| ]]; lra.
    - intros i Hi. rewrite sumR_2. unfold C, Crs. destruct i as [| [| ]]; try lia; lra. }
  exists C, Crs. split; [exact HC | split; [| split]].
  - intros k Hk. unfold Crs. destruct k; lra.
  - intros H. destruct (H 0%nat ltac:(lia) ltac:(lia)) as [k [Hk [Hk0 Hc]]].
    assert (k = 1%nat) as -> by lia. unfold C in Hc. lra.
  - intros s. split; [apply (init_invariant 2 C Crs HC) | split; [apply init_Sup | split; [unfold C; lra |]]].
    change (off_step (py_offdiag ROps) C Crs) with (ostep C Crs). rewrite ostep_X. cbn [Nat.eqb andb].
    assert (R0 : snd s 0%nat = 2) by (unfold s; cbn [init_state snd]; fold (sumR 2 (fun j => kadd ROps (C 0%nat j) (C j 0%nat))); rewrite sumR_2; cbn [ROps kadd]; unfold C; lra).
    assert (R1 : snd s 1%nat = 8) by (unfold s; cbn [init_state snd]; fold (sumR 2 (fun j => kadd ROps (C 1%nat j) (C j 1%nat))); rewrite sumR_2; cbn [ROps kadd]; unfold C; lra).
    assert (X01 : fst s 0%nat 1%nat = 2) by (unfold s; cbn [init_state fst ROps kadd]; unfold C; lra).
    unfold oval. rewrite py_offdiag_spec.
    + cbn [fst]. unfold newv. rewrite R0, R1, X01.
      destruct (Req_EM_T _ 0) as [E | _]; [unfold qa, C, Crs in E; lra |].
      apply root_zero; unfold qa, qb, qc, C, Crs; lra.
    + rewrite R0, R1, X01. unfold qc, C. lra.
Qed.

(* ------------------------------------------------------------------ the hypotheses are satisfiable, and the
   strict case occurs: C = [[1,2],[1,1]], X0 = [[2,3],[3,2]]; the first diagonal update stores 3/2 in
   x_00 and nothing later in the sweep writes that entry *)
Lemma sweep_entry_00 n C Crs s : (0 < n)%nat -> fst (py_sweep ROps C Crs n s) 0%nat 0%nat = dval C Crs s 0.
Proof.
  intros Hn. unfold py_sweep, sweep. fold (dstep C Crs). fold (ostep C Crs).
  rewrite pair_frame by (intro Hin; apply pairs_spec in Hin; cbn [fst snd] in Hin; lia).
  destruct n as [| m]; [lia |]. cbn [seq fold_left].
  rewrite diag_frame by (right; rewrite in_seq; lia).
  rewrite dstep_X. reflexivity.
Qed.

Lemma mono_example :
  let C := fun i j : nat => match i, j with 0%nat, 1%nat => 2 | _, _ => 1 end in
  let Crs := fun i : nat => match i with 0%nat => 3 | _ => 2 end in
  let s := init_state ROps 2 C in
  CInv 2 C Crs /\ strongly_connected 2 C /\ has_in 2 C /\ (forall k, (k < 2)%nat -> 0 < Crs k) /\
  Inv 2 s /\ Sup 2 C s /\
  fst (py_sweep ROps C Crs 2 s) 0%nat 0%nat <> fst s 0%nat 0%nat.
Proof.
  intros C Crs s.
  assert (HC : CInv 2 C Crs).
  { split.
    - intros i j Hi Hj. unfold C. destruct i as [| [| ]], j as [| [| ]]; lra.
    - intros i Hi. rewrite sumR_2. unfold C, Crs. destruct i as [| [| ]]; try lia; lra. }
  assert (Hsc : strongly_connected 2 C).
  { intros i j Hi Hj. assert (i = 0 \/ i = 1)%nat as [-> | ->] by lia; assert (j = 0 \/ j = 1)%nat as [-> | ->] by lia;
      try apply reach_refl; (eapply reach_step; [| | apply reach_refl]; [lia | unfold C; lra]). }
  split; [exact HC | split; [exact Hsc | split; [apply sc_has_in; exact Hsc | split; [| split; [| split]]]]].
  - intros k Hk. unfold Crs. destruct k; lra.
  - apply (init_invariant 2 C Crs HC).
  - apply init_Sup.
  - rewrite sweep_entry_00 by lia. unfold dval. rewrite py_diag_spec. cbn [fst].
    assert (R0 : snd s 0%nat = 5) by (unfold s; cbn [init_state snd]; fold (sumR 2 (fun j => kadd ROps (C 0%nat j) (C j 0%nat))); rewrite sumR_2; cbn [ROps kadd]; unfold C; lra).
    assert (X00 : fst s 0%nat 0%nat = 2) by (unfold s; cbn [init_state fst ROps kadd]; unfold C; lra).
    rewrite R0, X00. unfold C, Crs. destruct (Rlt_dec 0 (3 - 1)) as [_ | N]; [| lra].
    intro E. lra.
Qed.

(* ------------------------------------------------------------------ the gain of one more sweep tends to 0 *)
Theorem iteration_gain_vanishes n C Crs : CInv n C Crs -> has_in n C -> (forall k, (k < n)%nat -> 0 < Crs k) ->
  let u := fun k => loglikT n C (fst (Nat.iter k (py_sweep ROps C Crs n) (init_state ROps n C))) in
  (forall k, 0 <= u (S k) - u k) /\ Un_cv (fun k => u (S k) - u k) 0.
Proof.
  intros HC Hin Hcp u.
  destruct (iteration_loglik_converges n C Crs HC Hin Hcp) as [G [l [Hl _]]]. fold u in G, Hl.
  split.
  - intros k. specialize (G k). lra.
  - intros eps He. destruct (Hl (eps / 2) ltac:(lra)) as [N HN]. exists N. intros k Hk.
    pose proof (HN k Hk) as H1. pose proof (HN (S k) ltac:(lia)) as H2.
    unfold R_dist in *. apply Rabs_def2 in H1. apply Rabs_def2 in H2. apply Rabs_def1; lra.
Qed.
