(* C18: the regenerated text of mutual_info.joint_counts and of the pooling loop of mi_matrix
   (Gen/MutualInfoGen.v: gen_joint_counts, gen_mi_matrix_counts) against the hand-written model
   (Model/JointCounts.v: joint_counts, pooled_counts).  nat/Z only. *)
From Coq Require Import List ZArith Bool Arith Lia.
From EV Require Import JointCounts Info InfoPyBase MutualInfoGen JointCountsProofs JointShape JointPooled.
Import ListNotations.

(* every value fits the array's own integer type and int64 *)
Definition in_range (X : ndarr) : Prop :=
  kind_of (dt X) <> KF /\
  Forall (fun v => (dmin (dt X) <= v <= dmax (dt X))%Z /\ (v < 2 ^ 63)%Z) (concat (vals X)).

(* ------------------------------------------------------------------ integer types *)
Lemma kind_neqb k : k <> KF -> kind_eqb k KF = false.
Proof. destruct k; intros H; [reflexivity|reflexivity|congruence]. Qed.

Lemma dtype_eqb_refl d : dtype_eqb d d = true.
Proof. destruct d; reflexivity. Qed.

Lemma range_width d : kind_of d <> KF -> (dmax d - dmin d = 2 ^ bits d - 1)%Z.
Proof. destruct d; intros H; try (vm_compute; reflexivity). exfalso; apply H; reflexivity. Qed.

Lemma wrap_id d v : kind_of d <> KF -> (dmin d <= v <= dmax d)%Z -> wrap d v = v.
Proof.
  intros Hk Hv. pose proof (range_width d Hk) as Hw. unfold wrap.
  destruct (kind_of d) eqn:K.
  - rewrite Z.mod_small by lia. lia.
  - rewrite Z.mod_small by lia. lia.
  - congruence.
Qed.

(* the common type chosen holds every value of both arrays *)
Lemma promote_holds : forall a b, kind_of a <> KF -> kind_of b <> KF ->
  let c := promote_types a b in
  let c' := if kind_eqb (kind_of c) KF then I64 else c in
  kind_of c' <> KF /\ (dmin c' <= dmin a /\ dmin c' <= dmin b)%Z /\
  (Z.min (dmax a) (2^63 - 1) <= dmax c' /\ Z.min (dmax b) (2^63 - 1) <= dmax c')%Z.
Proof.
  intros a b Ha Hb.
  destruct a; try (exfalso; apply Ha; reflexivity);
  destruct b; try (exfalso; apply Hb; reflexivity);
  vm_compute; (split; [discriminate|]); (split; split; discriminate).
Qed.

(* ------------------------------------------------------------------ value-preserving conversion *)
Lemma map_id_on (f : Z -> Z) r : Forall (fun v => f v = v) r -> map f r = r.
Proof.
  induction r as [|x r IH]; intros H; simpl; [reflexivity|].
  inversion H as [|? ? Hx Hr]; subst. rewrite Hx, (IH Hr). reflexivity.
Qed.

Lemma map_map_id_on (f : Z -> Z) l : Forall (fun v => f v = v) (concat l) -> map (map f) l = l.
Proof.
  induction l as [|r l IH]; intros H; simpl; [reflexivity|].
  simpl in H. apply Forall_app in H. destruct H as (Hr & Hl).
  rewrite (map_id_on f r Hr), (IH Hl). reflexivity.
Qed.

Lemma astype_vals c X :
  kind_of c <> KF -> (dmin c <= dmin (dt X))%Z -> (Z.min (dmax (dt X)) (2^63 - 1) <= dmax c)%Z ->
  in_range X -> vals (astype c X) = vals X.
Proof.
  intros Hc Hlo Hhi (_ & HX). unfold astype. cbn [vals]. apply map_map_id_on.
  eapply Forall_impl; [|exact HX]. cbv beta. intros v ((H1 & H2) & H3).
  apply wrap_id; [exact Hc|]. lia.
Qed.

Lemma call_bincount_same X Y nx ny :
  dt X = dt Y -> kind_of (dt X) <> KF -> is1d X = false -> is1d Y = false ->
  call_bincount X Y nx ny = matrix_bincount2d (vals X) (vals Y) nx ny.
Proof.
  intros Hd Hk Hx Hy. unfold call_bincount.
  rewrite <- Hd, dtype_eqb_refl, (kind_neqb _ Hk), Hx, Hy. reflexivity.
Qed.

Lemma harmonise X Y nx ny :
  is1d X = false -> is1d Y = false -> in_range X -> in_range Y ->
  (let '(X', Y') :=
     if negb (dtype_eqb (dt X) (dt Y)) then
       (astype (if kind_eqb (kind_of (promote_types (dt X) (dt Y))) KF
                   && negb (kind_eqb (kind_of (dt X)) KF) && negb (kind_eqb (kind_of (dt Y)) KF)
                then I64 else promote_types (dt X) (dt Y)) X,
        astype (if kind_eqb (kind_of (promote_types (dt X) (dt Y))) KF
                   && negb (kind_eqb (kind_of (dt X)) KF) && negb (kind_eqb (kind_of (dt Y)) KF)
                then I64 else promote_types (dt X) (dt Y)) Y)
     else (X, Y) in
   call_bincount X' Y' nx ny) = matrix_bincount2d (vals X) (vals Y) nx ny.
Proof.
  intros IX IY RX RY.
  pose proof RX as (KX & _). pose proof RY as (KY & _).
  destruct (dtype_eqb (dt X) (dt Y)) eqn:E; cbn [negb].
  - apply call_bincount_same; try assumption.
    destruct (dt X), (dt Y); try discriminate E; reflexivity.
  - rewrite (kind_neqb _ KX), (kind_neqb _ KY). cbn [negb]. rewrite !andb_true_r.
    destruct (promote_holds (dt X) (dt Y) KX KY) as (Kc & (Lx & Ly) & (Ux & Uy)).
    set (c := if kind_eqb (kind_of (promote_types (dt X) (dt Y))) KF
              then I64 else promote_types (dt X) (dt Y)) in *.
    rewrite call_bincount_same.
    + rewrite (astype_vals c X Kc Lx Ux RX), (astype_vals c Y Kc Ly Uy RY). reflexivity.
    + reflexivity.
    + exact Kc.
    + exact IX.
    + exact IY.
Qed.

(* ------------------------------------------------------------------ joint_counts *)
Definition norm1d (X : ndarr) : ndarr := if is1d X then expand_last X else X.

Lemma norm1d_vals X : vals (norm1d X) = vals X.
Proof. unfold norm1d. destruct (is1d X); reflexivity. Qed.
Lemma norm1d_dt X : dt (norm1d X) = dt X.
Proof. unfold norm1d. destruct (is1d X); reflexivity. Qed.
Lemma norm1d_is1d X : is1d (norm1d X) = false.
Proof. unfold norm1d. destruct (is1d X) eqn:E; [reflexivity|exact E]. Qed.
Lemma norm1d_range X : in_range X -> in_range (norm1d X).
Proof. unfold in_range. rewrite norm1d_vals, norm1d_dt. intros H; exact H. Qed.

Lemma default_n_gen (n : option Z) X :
  match n with
  | Some n_ => Some n_
  | None => option_map (fun m_ => (py_int m_ + 1)%Z) (arr_max X)
  end = default_n n (vals X).
Proof. destruct n; reflexivity. Qed.

(* dtype harmonisation is value preserving and the call reaches the kernel with the model's
   arguments *)
Theorem gen_joint_counts_is_model : forall X Y n_x n_y,
  in_range X -> (forall Y', Y = Some Y' -> in_range Y') ->
  gen_joint_counts X Y n_x n_y = joint_counts (vals X) (option_map vals Y) n_x n_y.
Proof.
  intros X Y n_x n_y HX HY.
  unfold gen_joint_counts. cbv zeta. fold (norm1d X).
  pose proof (norm1d_range X HX) as RX. pose proof (norm1d_is1d X) as IX.
  rewrite <- (norm1d_vals X). generalize dependent (norm1d X). clear X HX.
  intros X RX IX.
  rewrite default_n_gen. unfold joint_counts.
  destruct (default_n n_x (vals X)) as [nx|]; [|reflexivity]. cbn [obind].
  destruct Y as [Y|]; cbn [option_map].
  - fold (norm1d Y).
    pose proof (norm1d_range Y (HY Y eq_refl)) as RY. pose proof (norm1d_is1d Y) as IY.
    rewrite <- (norm1d_vals Y). generalize dependent (norm1d Y). clear Y HY.
    intros Y RY IY.
    rewrite default_n_gen.
    destruct (default_n n_y (vals Y)) as [ny|]; [|reflexivity]. cbn [obind].
    apply harmonise; assumption.
  - destruct RX as (KX & _). apply call_bincount_same; try assumption. reflexivity.
Qed.

(* ------------------------------------------------------------------ shapes as NumPy reports them *)
Definition shape4t' (s : list (list (list nat))) : nat * nat * nat * nat :=
  (length s, length (hd [] s), length (hd [] (hd [] s)), hd 0%nat (hd [] (hd [] s))).

Lemma shape4t_shape4 jc : shape4t jc = shape4t' (shape4 jc).
Proof.
  unfold shape4t, shape4t', shape4.
  destruct jc as [|a r]; simpl; [reflexivity|]. rewrite map_length.
  destruct a as [|b r']; simpl; [reflexivity|]. rewrite map_length.
  destruct b as [|c r'']; simpl; [reflexivity|]. rewrite map_length. reflexivity.
Qed.

Lemma shape4t_of_zeros jc fa fb n m :
  shape4 jc = shape4 (zeros4 fa fb n m) -> (0 < fa)%nat -> (0 < fb)%nat -> (0 < n)%nat ->
  shape4t jc = (fa, fb, n, m).
Proof.
  intros Hs Ha Hb Hn. rewrite shape4t_shape4, Hs.
  unfold shape4, zeros4, zeros2. rewrite !map_repeat'.
  destruct fa as [|fa]; [lia|]. destruct fb as [|fb]; [lia|]. destruct n as [|n]; [lia|].
  unfold shape4t'. cbn [repeat hd length]. rewrite !repeat_length. reflexivity.
Qed.

Lemma concat_nil_rows (X : list (list Z)) :
  (forall r, In r X -> length r = 0%nat) -> concat X = [].
Proof.
  induction X as [|r X IH]; intros H; simpl; [reflexivity|].
  rewrite IH by (intros r' Hr'; apply H; right; exact Hr').
  assert (Hr : length r = 0%nat) by (apply H; left; reflexivity).
  destruct r; [reflexivity|discriminate Hr].
Qed.

Lemma valid_side_width X n : valid_side X n = true -> (0 < width X)%nat.
Proof.
  intros H. apply valid_side_spec in H. destruct H as (Hr & Hne & _).
  destruct (Nat.eq_dec (width X) 0) as [E|E]; [|lia].
  exfalso. apply Hne. apply concat_nil_rows. intros r Hin.
  unfold rect in Hr. rewrite forallb_forall in Hr. specialize (Hr r Hin).
  apply Nat.eqb_eq in Hr. lia.
Qed.

Lemma shape4t_bincount X Y nx ny jc :
  matrix_bincount2d X Y nx ny = Some jc ->
  shape4t jc = (width X, width Y, Z.to_nat nx, Z.to_nat ny).
Proof.
  intros E. pose proof (shape4_bincount _ _ _ _ _ E) as Hs.
  apply bincount_some in E. destruct E as (_ & Vx & Vy & _).
  apply shape4t_of_zeros; [exact Hs| | |].
  - exact (valid_side_width _ _ Vx).
  - exact (valid_side_width _ _ Vy).
  - apply valid_side_pos in Vx. lia.
Qed.

(* ------------------------------------------------------------------ the pooling loop *)
Definition mi_body (n_x n_y : Z + list Z) (jc : option tbl4) (XY_ : ndarr * ndarr)
  : option (option tbl4) :=
  let '(X, Y) := XY_ in
  obind (np_max_s n_x) (fun mx_ =>
  obind (np_max_s n_y) (fun my_ =>
  obind (gen_joint_counts X (Some Y) (Some mx_) (Some my_)) (fun jc_i =>
  match jc with
  | None => Some (Some jc_i)
  | Some jc => if negb (shape4t_eqb (shape4t jc) (shape4t jc_i)) then None
               else Some (Some (add4 jc jc_i))
  end))).

Lemma gen_mi_matrix_counts_body Xs Ys n_x n_y :
  gen_mi_matrix_counts Xs Ys n_x n_y =
  obind (for_each (combine Xs Ys) (mi_body n_x n_y) None) (fun jc => jc).
Proof. reflexivity. Qed.

Lemma mi_body_eq n_x n_y nx ny acc X Y :
  np_max_s n_x = Some nx -> np_max_s n_y = Some ny -> in_range X -> in_range Y ->
  mi_body n_x n_y acc (X, Y) =
  match matrix_bincount2d (vals X) (vals Y) nx ny with
  | None => None
  | Some jc_i =>
    match acc with
    | None => Some (Some jc_i)
    | Some jc => if negb (shape4t_eqb (shape4t jc) (shape4t jc_i)) then None
                 else Some (Some (add4 jc jc_i))
    end
  end.
Proof.
  intros Hnx Hny RX RY. unfold mi_body. rewrite Hnx, Hny. cbn [obind].
  rewrite (gen_joint_counts_is_model X (Some Y) (Some nx) (Some ny) RX)
    by (intros Y' HY'; inversion HY'; subst; exact RY).
  unfold joint_counts, default_n. cbn [option_map].
  destruct (matrix_bincount2d (vals X) (vals Y) nx ny); reflexivity.
Qed.

Definition pair_vals (p : ndarr * ndarr) : list (list Z) * list (list Z) :=
  (vals (fst p), vals (snd p)).

Lemma pool_loop n_x n_y nx ny X0 Y0 :
  np_max_s n_x = Some nx -> np_max_s n_y = Some ny ->
  (0 < width X0)%nat -> (0 < width Y0)%nat -> (0 < Z.to_nat nx)%nat ->
  forall L acc,
  Forall (fun p => in_range (fst p) /\ in_range (snd p)) L ->
  shape4 acc = shape4 (zeros4 (width X0) (width Y0) (Z.to_nat nx) (Z.to_nat ny)) ->
  for_each L (mi_body n_x n_y) (Some acc) =
  option_map Some (pool_from X0 Y0 acc (map pair_vals L) nx ny).
Proof.
  intros Hnx Hny Wx Wy Pn.
  induction L as [|[X Y] rest IH]; intros acc HL Hs.
  - reflexivity.
  - inversion HL as [|? ? (RX & RY) Hrest]; subst. cbn [fst snd] in RX, RY.
    cbn [for_each map pool_from]. unfold pair_vals at 1. cbn [fst snd].
    rewrite (mi_body_eq n_x n_y nx ny (Some acc) X Y Hnx Hny RX RY).
    destruct (matrix_bincount2d (vals X) (vals Y) nx ny) as [jc|] eqn:Ejc; [|reflexivity].
    cbn [obind].
    rewrite (shape4t_of_zeros acc _ _ _ _ Hs Wx Wy Pn), (shape4t_bincount _ _ _ _ _ Ejc).
    unfold shape4t_eqb, same_shape.
    rewrite !Nat.eqb_refl, !andb_true_r.
    rewrite (Nat.eqb_sym (width X0)), (Nat.eqb_sym (width Y0)).
    destruct ((width (vals X) =? width X0)%nat && (width (vals Y) =? width Y0)%nat) eqn:Es;
      cbn [negb]; [|reflexivity].
    apply andb_true_iff in Es. destruct Es as (Ex & Ey).
    apply Nat.eqb_eq in Ex. apply Nat.eqb_eq in Ey.
    apply IH; [exact Hrest|].
    pose proof (shape4_bincount _ _ _ _ _ Ejc) as Hjc. rewrite Ex, Ey in Hjc.
    rewrite shape4_add4; [exact Hs|]. rewrite Hs, Hjc. reflexivity.
Qed.

Lemma Forall_combine {A B} (P : A -> Prop) (Q : B -> Prop) l1 : forall l2,
  Forall P l1 -> Forall Q l2 -> Forall (fun p => P (fst p) /\ Q (snd p)) (combine l1 l2).
Proof.
  induction l1 as [|x l1 IH]; intros [|y l2] H1 H2; simpl; try constructor.
  - inversion H1; inversion H2; subst. simpl. split; assumption.
  - inversion H1; inversion H2; subst. apply IH; assumption.
Qed.

Lemma combine_map_vals Xs : forall Ys,
  combine (map vals Xs) (map vals Ys) = map pair_vals (combine Xs Ys).
Proof.
  induction Xs as [|X Xs IH]; intros [|Y Ys]; simpl; try reflexivity.
  rewrite IH. reflexivity.
Qed.

(* the pooling loop of mi_matrix *)
Theorem gen_mi_matrix_counts_is_model : forall Xs Ys n_x n_y nx ny,
  np_max_s n_x = Some nx -> np_max_s n_y = Some ny ->
  Forall in_range Xs -> Forall in_range Ys ->
  gen_mi_matrix_counts Xs Ys n_x n_y = pooled_counts (combine (map vals Xs) (map vals Ys)) nx ny.
Proof.
  intros Xs Ys n_x n_y nx ny Hnx Hny HXs HYs.
  rewrite gen_mi_matrix_counts_body, combine_map_vals.
  pose proof (Forall_combine _ _ Xs Ys HXs HYs) as HL.
  destruct (combine Xs Ys) as [|[X0 Y0] rest].
  - reflexivity.
  - inversion HL as [|? ? (RX & RY) Hrest]; subst. cbn [fst snd] in RX, RY.
    cbn [for_each map pooled_counts]. unfold pair_vals at 1. cbn [fst snd].
    rewrite (mi_body_eq n_x n_y nx ny None X0 Y0 Hnx Hny RX RY).
    destruct (matrix_bincount2d (vals X0) (vals Y0) nx ny) as [jc|] eqn:Ejc; [|reflexivity].
    cbn [obind].
    pose proof (shape4_bincount _ _ _ _ _ Ejc) as Hs.
    pose proof Ejc as Ev. apply bincount_some in Ev. destruct Ev as (_ & Vx & Vy & _).
    rewrite (pool_loop n_x n_y nx ny (vals X0) (vals Y0) Hnx Hny
               (valid_side_width _ _ Vx) (valid_side_width _ _ Vy)
               ltac:(apply valid_side_pos in Vx; lia) rest jc Hrest Hs).
    destruct (pool_from (vals X0) (vals Y0) jc (map pair_vals rest) nx ny); reflexivity.
Qed.

Print Assumptions gen_joint_counts_is_model.
Print Assumptions gen_mi_matrix_counts_is_model.
