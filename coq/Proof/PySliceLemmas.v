(* Characterisation lemmas for Base/PySlice.v *)
From Coq Require Import List ZArith Lia Bool.
From EV Require Import PySlice.
Import ListNotations.
Open Scope Z_scope.

Lemma pick_valid {A} (l : list A) (d : A) (i : Z) :
  0 <= i < Z.of_nat (length l) -> pick l i = [nth (Z.to_nat i) l d].
Proof.
  intros H. unfold pick.
  destruct (i <? 0) eqn:E; [lia|].
  destruct (nth_error l (Z.to_nat i)) eqn:N.
  - f_equal. symmetry. apply nth_error_nth. exact N.
  - apply nth_error_None in N. lia.
Qed.

Lemma pick_invalid {A} (l : list A) (i : Z) :
  i < 0 \/ Z.of_nat (length l) <= i -> pick l i = [].
Proof.
  intros H. unfold pick. destruct (i <? 0) eqn:E; [reflexivity|].
  destruct (nth_error l (Z.to_nat i)) eqn:N; [|reflexivity].
  assert (Hn : nth_error l (Z.to_nat i) <> None) by congruence.
  apply nth_error_Some in Hn. lia.
Qed.

Lemma flat_map_pick_valid {A} (l : list A) (d : A) (idx : list Z) :
  (forall i, In i idx -> 0 <= i < Z.of_nat (length l)) ->
  flat_map (pick l) idx = map (fun i => nth (Z.to_nat i) l d) idx.
Proof.
  induction idx as [|i idx IH]; intros H; [reflexivity|].
  cbn [flat_map map]. rewrite (pick_valid l d i) by (apply H; left; reflexivity).
  cbn [app]. f_equal. apply IH. intros j Hj. apply H. right. exact Hj.
Qed.

Lemma combine_map {A B C} (f : A -> B) (g : A -> C) (l : list A) :
  combine (map f l) (map g l) = map (fun x => (f x, g x)) l.
Proof. induction l as [|x l IH]; cbn; [reflexivity|]. f_equal. exact IH. Qed.

Lemma in_zrange_pos s e step i :
  0 < step -> In i (zrange s e step) -> s <= i < e.
Proof.
  intros Hs Hin. unfold zrange in Hin. apply in_map_iff in Hin.
  destruct Hin as [k [Hk Hin]]. apply in_seq in Hin. unfold range_len in Hin.
  destruct (0 <? step) eqn:E; [|lia].
  assert (Hq : 0 < (e - s + step - 1) / step) by lia.
  assert (Hk2 : Z.of_nat k <= (e - s + step - 1) / step - 1) by lia.
  assert (Hm : step * ((e - s + step - 1) / step) <= e - s + step - 1)
    by (apply Z.mul_div_le; lia).
  nia.
Qed.

(* l[a:b:step] for step > 0 as an explicit map over 0..cnt-1 *)
Lemma slice_list_pos {A} (l : list A) (d : A) start stop step s e :
  0 < step_of step ->
  adjust (Z.of_nat (length l)) start stop (step_of step) = (s, e) ->
  0 <= s -> e <= Z.of_nat (length l) ->
  slice_list l start stop step =
  map (fun k => nth (Z.to_nat (s + Z.of_nat k * step_of step)) l d)
      (seq 0 (range_len s e (step_of step))).
Proof.
  intros Hst Hadj Hs He. unfold slice_list, slice_indices. rewrite Hadj.
  rewrite (flat_map_pick_valid l d).
  - unfold zrange. rewrite map_map. reflexivity.
  - intros i Hi. apply in_zrange_pos in Hi; lia.
Qed.

(* ---- appended for C05: negative steps, and every selected index lies inside the sequence ---- *)
Lemma in_zrange_neg s e step i :
  step < 0 -> In i (zrange s e step) -> e < i <= s.
Proof.
  intros Hs Hin. unfold zrange in Hin. apply in_map_iff in Hin.
  destruct Hin as [k [Hk Hin]]. apply in_seq in Hin. unfold range_len in Hin.
  destruct (0 <? step) eqn:E; [lia|].
  destruct (step <? 0) eqn:E2; [|lia].
  assert (Hq : 0 < (s - e + - step - 1) / - step) by lia.
  assert (Hk2 : Z.of_nat k <= (s - e + - step - 1) / - step - 1) by lia.
  assert (Hm : (- step) * ((s - e + - step - 1) / - step) <= s - e + - step - 1)
    by (apply Z.mul_div_le; lia).
  nia.
Qed.

Lemma zrange_zero_step s e : zrange s e 0 = [].
Proof. reflexivity. Qed.

Lemma slice_indices_in_range len start stop step i :
  In i (slice_indices len start stop step) -> 0 <= i < Z.of_nat len.
Proof.
  unfold slice_indices, adjust. set (k := step_of step). intros Hin.
  destruct (Z.lt_trichotomy k 0) as [Hk | [Hk | Hk]].
  - apply in_zrange_neg in Hin; [|exact Hk].
    assert (E : (k <? 0) = true) by (apply Z.ltb_lt; exact Hk). rewrite E in Hin.
    destruct start as [s|], stop as [e|];
      repeat match type of Hin with context [?a <? ?b] => destruct (Z.ltb_spec a b) end; lia.
  - rewrite Hk in Hin. cbn in Hin.
    destruct start as [s|], stop as [e|];
      repeat match type of Hin with context [?a <? ?b] => destruct (Z.ltb_spec a b) end;
      cbn in Hin; contradiction.
  - apply in_zrange_pos in Hin; [|exact Hk].
    assert (E : (k <? 0) = false) by (apply Z.ltb_ge; lia). rewrite E in Hin.
    destruct start as [s|], stop as [e|];
      repeat match type of Hin with context [?a <? ?b] => destruct (Z.ltb_spec a b) end; lia.
Qed.
