(* C18: proofs about Model/Info.v.  Exact statements over Z/Q; information-theoretic laws over R
   (standard-library real-number axioms). *)
From Coq Require Import List ZArith QArith Qreals Bool Arith Lia Reals Lra Permutation.
From EV Require Import JointCounts Info JointCountsProofs.
Import ListNotations.

(* ================================================================== channel capacity (Z) *)
Lemma nth_map_in {A B} (f : A -> B) l k dA dB : (k < length l)%nat -> nth k (map f l) dB = f (nth k l dA).
Proof.
  intros Hk. rewrite (nth_indep _ dB (f dA)) by (rewrite map_length; exact Hk). apply map_nth.
Qed.

Lemma states_array_spec n dim l :
  states_array n dim = Some l ->
  length l = dim /\ (forall k, In k l -> (2 <= k)%Z) /\
  match n with inl k => l = repeat k dim | inr l' => l = l' end.
Proof.
  unfold states_array.
  set (l0 := match n with inl k => repeat k dim | inr l' => l' end).
  destruct (existsb (fun k => (k <? 2)%Z) l0) eqn:E1; [discriminate|].
  destruct (negb (length l0 =? dim)%nat) eqn:E2; [discriminate|].
  intros H. inversion H; subst l. clear H.
  apply negb_false_iff, Nat.eqb_eq in E2. split; [exact E2|]. split.
  - intros k Hk. destruct (Z.ltb_spec k 2) as [Hlt|Hge]; [|exact Hge].
    assert (existsb (fun k => (k <? 2)%Z) l0 = true); [|congruence].
    apply existsb_exists. exists k. split; [exact Hk|]. apply Z.ltb_lt. exact Hlt.
  - unfold l0. destruct n; reflexivity.
Qed.

(* entry (i, j) of the divisor grid is min(n_x[i], n_y[j]) (never the transposed pair), it is >= 2
   (so its log is positive), and the grid has the shape of the MI matrix *)
Theorem cc_grid_entry rows cols n_x n_y G :
  cc_grid rows cols n_x n_y = Some G ->
  exists nx ny, states_array n_x rows = Some nx /\ states_array n_y cols = Some ny /\
    length nx = rows /\ length ny = cols /\ length G = rows /\
    forall i j, (i < rows)%nat -> (j < cols)%nat ->
      length (nth i G []) = cols /\
      nth j (nth i G []) 0%Z = Z.min (nth i nx 0%Z) (nth j ny 0%Z) /\
      (2 <= nth j (nth i G []) 0)%Z.
Proof.
  unfold cc_grid. destruct (states_array n_x rows) as [nx|] eqn:Ex; [|discriminate].
  destruct (states_array n_y cols) as [ny|] eqn:Ey; [|discriminate].
  intros H. inversion H; subst G. clear H. exists nx, ny.
  destruct (states_array_spec _ _ _ Ex) as (Lx & Gx & _).
  destruct (states_array_spec _ _ _ Ey) as (Ly & Gy & _).
  repeat split; auto.
  - unfold min_grid. rewrite map_length. exact Lx.
  - unfold min_grid. rewrite (nth_map_in _ nx i 0%Z) by lia. rewrite map_length. exact Ly.
  - unfold min_grid. rewrite (nth_map_in _ nx i 0%Z) by lia. rewrite (nth_map_in _ ny j 0%Z) by lia.
    reflexivity.
  - unfold min_grid. rewrite (nth_map_in _ nx i 0%Z) by lia. rewrite (nth_map_in _ ny j 0%Z) by lia.
    assert (2 <= nth i nx 0)%Z by (apply Gx, nth_In; lia).
    assert (2 <= nth j ny 0)%Z by (apply Gy, nth_In; lia). lia.
Qed.

Theorem cc_grid_int_broadcast k dim l i :
  states_array (inl k) dim = Some l -> (i < dim)%nat -> nth i l 0%Z = k.
Proof.
  intros H Hi. destruct (states_array_spec _ _ _ H) as (_ & _ & ->). apply nth_repeat. exact Hi.
Qed.

Theorem cc_grid_rejects rows cols n_x n_y :
  (exists l, (n_x = inr l /\ (length l <> rows \/ exists k, In k l /\ (k < 2)%Z))) ->
  cc_grid rows cols n_x n_y = None.
Proof.
  intros (l & -> & H). unfold cc_grid.
  destruct (states_array (inr l) rows) as [l'|] eqn:E; [|reflexivity]. exfalso.
  destruct (states_array_spec _ _ _ E) as (Hl & Hg & ->).
  destruct H as [H|(k & Hk & Hlt)]; [contradiction|]. specialize (Hg k Hk). lia.
Qed.

(* ================================================================== weighted tables (Q) *)
Lemma wsum_uniform X c f :
  wsum X (repeat c (length X)) f == c * inject_Z (Z.of_nat (cnt f X)).
Proof.
  induction X as [|x r IH].
  - unfold Qeq. simpl. ring.
  - cbn [wsum cnt length repeat]. rewrite IH, Nat2Z.inj_add, inject_Z_plus.
    destruct (f x); unfold ind.
    + change (inject_Z (Z.of_nat 1)) with 1%Q. ring.
    + change (inject_Z (Z.of_nat 0)) with 0%Q. ring.
Qed.

Lemma uniform_weight_times T c :
  (0 < T)%nat -> (1 # Pos.of_nat T) * inject_Z (Z.of_nat c) == qdiv c T.
Proof.
  intros HT. unfold qdiv. destruct (Nat.eqb_spec T 0) as [->|_]; [lia|].
  unfold Qeq, Qmult, inject_Z. cbn [Qnum Qden]. rewrite Z.mul_1_l, Pos.mul_1_r. reflexivity.
Qed.

Lemma combine_self {A} (l : list A) : combine l l = map (fun x => (x, x)) l.
Proof. induction l as [|x r IH]; simpl; congruence. Qed.

(* uniform weights 1/T: the weighted joint and marginal tables are exactly counts / T, the
   tables mutual_information forms from joint_counts *)
Theorem weighted_uniform_eq X a b u v :
  (0 < length X)%nat ->
  let w := repeat (1 # Pos.of_nat (length X)) (length X) in
  wjoint X w a b u v == qdiv (count_frames X X a b u v) (length X) /\
  wmarg X w a u == qdiv (cnt (fun x => (nth a x 0 =? u)%Z) X) (length X).
Proof.
  intros HT w. unfold wjoint, wmarg, w. rewrite !wsum_uniform, !uniform_weight_times by exact HT.
  split; [|reflexivity].
  rewrite count_frames_pairs by reflexivity. unfold count_pairs.
  rewrite combine_self, cnt_map. reflexivity.
Qed.

(* ================================================================== real sums *)
Open Scope R_scope.

Lemma Rsum_app l1 l2 : Rsum (l1 ++ l2) = Rsum l1 + Rsum l2.
Proof. induction l1 as [|x r IH]; simpl; [lra|rewrite IH; lra]. Qed.

Lemma rsum_Rsum n g : rsum n g = Rsum (map g (seq 0 n)).
Proof.
  induction n as [|n IH]; simpl; auto.
  change (rsum n g + g n = Rsum (map g (seq 0 (S n)))).
  rewrite seq_S, map_app, Rsum_app, <- IH. simpl. lra.
Qed.

Lemma rsum_ext n f g : (forall k, (k < n)%nat -> f k = g k) -> rsum n f = rsum n g.
Proof.
  induction n as [|n IH]; intros H; simpl; auto.
  rewrite IH, (H n) by (intros; try apply H; lia). reflexivity.
Qed.

Lemma rsum_le n f g : (forall k, (k < n)%nat -> f k <= g k) -> rsum n f <= rsum n g.
Proof.
  induction n as [|n IH]; intros H; simpl; [lra|].
  assert (rsum n f <= rsum n g) by (apply IH; intros; apply H; lia).
  assert (f n <= g n) by (apply H; lia). lra.
Qed.

Lemma rsum_zero n f : (forall k, (k < n)%nat -> f k = 0) -> rsum n f = 0.
Proof.
  induction n as [|n IH]; intros H; simpl; auto.
  rewrite IH, (H n) by (intros; try apply H; lia). lra.
Qed.

Lemma rsum_lin n x y f g :
  rsum n (fun k => x * f k - y * g k) = x * rsum n f - y * rsum n g.
Proof. induction n as [|n IH]; simpl; [lra|rewrite IH; lra]. Qed.

Lemma rsum_scal n x f : rsum n (fun k => x * f k) = x * rsum n f.
Proof. induction n as [|n IH]; simpl; [lra|rewrite IH; lra]. Qed.

Lemma rsum_opp n f : rsum n (fun k => - f k) = - rsum n f.
Proof. induction n as [|n IH]; simpl; [lra|rewrite IH; lra]. Qed.

Lemma rsum_plus n f g : rsum n (fun k => f k + g k) = rsum n f + rsum n g.
Proof. induction n as [|n IH]; simpl; [lra|rewrite IH; lra]. Qed.

Lemma rsum_swap n m (f : nat -> nat -> R) :
  rsum n (fun u => rsum m (fun v => f u v)) = rsum m (fun v => rsum n (fun u => f u v)).
Proof.
  induction n as [|n IH]; simpl.
  - symmetry. apply rsum_zero. reflexivity.
  - rewrite IH, <- rsum_plus. reflexivity.
Qed.

Lemma rsum_single n f k0 :
  (k0 < n)%nat -> (forall k, (k < n)%nat -> k <> k0 -> f k = 0) -> rsum n f = f k0.
Proof.
  induction n as [|n IH]; intros Hk Hz; [lia|]. simpl.
  destruct (Nat.eq_dec k0 n) as [->|Hne].
  - rewrite rsum_zero; [lra|]. intros k Hk'. apply Hz; lia.
  - rewrite IH by (try lia; intros; apply Hz; lia). rewrite (Hz n) by lia. lra.
Qed.

Lemma rsum_nonneg n f : (forall k, (k < n)%nat -> 0 <= f k) -> 0 <= rsum n f.
Proof.
  intros H. replace 0 with (rsum n (fun _ => 0)) by (apply rsum_zero; reflexivity).
  apply rsum_le. exact H.
Qed.

(* ================================================================== ln x <= x - 1 *)
Lemma ln_le_sub1 x : 0 < x -> ln x <= x - 1.
Proof.
  intros Hx. pose proof (exp_ineq1_le (ln x)) as H. rewrite exp_ln in H by exact Hx. lra.
Qed.

Lemma ln_eq_sub1 x : 0 < x -> ln x = x - 1 -> x = 1.
Proof.
  intros Hx Heq. destruct (Req_dec (ln x) 0) as [H0|Hne].
  - lra.
  - pose proof (exp_ineq1 (ln x) Hne) as H. rewrite exp_ln in H by exact Hx. lra.
Qed.

Lemma ln_div a b : 0 < a -> 0 < b -> ln (a / b) = ln a - ln b.
Proof.
  intros Ha Hb. unfold Rdiv. rewrite ln_mult by (auto using Rinv_0_lt_compat).
  rewrite ln_Rinv by exact Hb. lra.
Qed.

(* Gibbs, one term: p ln(p/q) >= p - q, with equality only for p = q *)
Lemma gibbs_term p q : 0 < p -> 0 < q -> p - q <= p * ln (p / q).
Proof.
  intros Hp Hq. rewrite ln_div by assumption.
  assert (H : ln (q / p) <= q / p - 1) by (apply ln_le_sub1, Rdiv_lt_0_compat; assumption).
  rewrite ln_div in H by assumption.
  assert (Hm : p * (ln q - ln p) <= p * (q / p - 1)) by (apply Rmult_le_compat_l; lra).
  replace (p * (q / p - 1)) with (q - p) in Hm by (field; lra). lra.
Qed.

Lemma gibbs_term_eq p q : 0 < p -> 0 < q -> p * ln (p / q) = p - q -> p = q.
Proof.
  intros Hp Hq Heq. rewrite ln_div in Heq by assumption.
  assert (Hx : 0 < q / p) by (apply Rdiv_lt_0_compat; assumption).
  assert (H : ln (q / p) = q / p - 1).
  { rewrite ln_div by assumption. apply (Rmult_eq_reg_l p); [|lra].
    replace (p * (q / p - 1)) with (q - p) by (field; lra). lra. }
  apply ln_eq_sub1 in H; [|exact Hx].
  apply (Rmult_eq_compat_l p) in H. replace (p * (q / p)) with q in H by (field; lra). lra.
Qed.

(* ================================================================== relative entropy *)
Lemma kl_term_ge p q : 0 <= p -> 0 <= q -> ~ (p <> 0 /\ q = 0) -> p - q <= kl_term p q.
Proof.
  intros Hp Hq Hfin. unfold kl_term. destruct (Req_EM_T p 0) as [->|Hne]; [lra|].
  apply gibbs_term; [lra|]. destruct (Req_dec q 0) as [H0|H0]; [exfalso; auto|lra].
Qed.

Lemma kl_term_eq p q :
  0 <= p -> 0 <= q -> ~ (p <> 0 /\ q = 0) -> kl_term p q = p - q -> p = q.
Proof.
  intros Hp Hq Hfin. unfold kl_term. destruct (Req_EM_T p 0) as [->|Hne]; [lra|].
  apply gibbs_term_eq; [lra|]. destruct (Req_dec q 0) as [H0|H0]; [exfalso; auto|lra].
Qed.

Lemma kl_sum_ge P : forall Qd,
  length P = length Qd -> Forall (fun x => 0 <= x) P -> Forall (fun x => 0 <= x) Qd ->
  ~ kl_infinite P Qd ->
  Rsum P - Rsum Qd <= kl_sum P Qd /\ (kl_sum P Qd = Rsum P - Rsum Qd -> P = Qd).
Proof.
  induction P as [|p P IH]; intros [|q Qd] Hlen HP HQ Hfin; simpl in *; try discriminate.
  - split; [lra|auto].
  - inversion HP as [|? ? Hp HP']; inversion HQ as [|? ? Hq HQ']; subst.
    assert (Hf1 : ~ (p <> 0 /\ q = 0)) by tauto.
    assert (Hf2 : ~ kl_infinite P Qd) by tauto.
    destruct (IH Qd ltac:(lia) HP' HQ' Hf2) as (Hge & Heq).
    pose proof (kl_term_ge p q Hp Hq Hf1) as Hge1.
    split; [lra|]. intros H.
    assert (kl_term p q = p - q) by lra.
    assert (kl_sum P Qd = Rsum P - Rsum Qd) by lra.
    f_equal; [apply kl_term_eq; assumption|apply Heq; assumption].
Qed.

Lemma kl_sum_refl P : kl_sum P P = 0.
Proof.
  induction P as [|p P IH]; simpl; auto. rewrite IH. unfold kl_term.
  destruct (Req_EM_T p 0) as [->|Hne]; [lra|].
  replace (p / p) with 1 by (field; exact Hne). rewrite ln_1. lra.
Qed.

Lemma kl_infinite_refl P : ~ kl_infinite P P.
Proof. induction P as [|p P IH]; simpl; tauto. Qed.

Definition distribution (P : list R) : Prop := Forall (fun x => 0 <= x) P /\ Rsum P = 1.

(* relative entropy of two distributions is non-negative (when finite; otherwise it is +inf) *)
Theorem kl_nonneg P Qd base :
  length P = length Qd -> distribution P -> distribution Qd -> ~ kl_infinite P Qd -> 1 < base ->
  0 <= kl_R P Qd base.
Proof.
  intros Hlen (HP & SP) (HQ & SQ) Hfin Hb.
  destruct (kl_sum_ge P Qd Hlen HP HQ Hfin) as (Hge & _).
  unfold kl_R. assert (0 < ln base) by (rewrite <- ln_1; apply ln_increasing; lra).
  apply Rmult_le_pos; [lra|]. left. apply Rinv_0_lt_compat. assumption.
Qed.

(* ... and zero exactly for equal distributions *)
Theorem kl_zero_iff_equal P Qd base :
  length P = length Qd -> distribution P -> distribution Qd -> ~ kl_infinite P Qd -> 1 < base ->
  (kl_R P Qd base = 0 <-> P = Qd).
Proof.
  intros Hlen (HP & SP) (HQ & SQ) Hfin Hb.
  destruct (kl_sum_ge P Qd Hlen HP HQ Hfin) as (_ & Heq).
  assert (Hl : 0 < ln base) by (rewrite <- ln_1; apply ln_increasing; lra).
  unfold kl_R. split.
  - intros H. apply Heq. rewrite SP, SQ.
    apply (Rmult_eq_compat_r (ln base)) in H. unfold Rdiv in H.
    rewrite Rmult_assoc, Rinv_l in H by lra. lra.
  - intros <-. rewrite kl_sum_refl. unfold Rdiv. lra.
Qed.

(* the +inf case never concerns equal distributions *)
Theorem kl_infinite_not_equal P Qd : kl_infinite P Qd -> P <> Qd.
Proof. intros H <-. exact (kl_infinite_refl P H). Qed.

(* ================================================================== tables -> real sums *)
Lemma map_seq_nth {A B} (f : A -> B) (L : list A) d :
  map (fun u => f (nth u L d)) (seq 0 (length L)) = map f L.
Proof.
  induction L as [|x r IH]; simpl; auto. f_equal. rewrite <- seq_shift, map_map. exact IH.
Qed.

Lemma INR_sumn l : INR (sumn l) = Rsum (map INR l).
Proof. induction l as [|x r IH]; simpl; auto. rewrite plus_INR, IH. reflexivity. Qed.

Definition creal (H : tbl2) (u v : nat) : R := INR (get2 H u v).

Lemma rowsum_real H u :
  rect2 H = true -> (u < length H)%nat ->
  INR (rowsum H u) = rsum (width2 H) (fun v => creal H u v).
Proof.
  intros Hr Hu. unfold rowsum, creal, get2.
  assert (Hl : length (nth u H []) = width2 H).
  { unfold rect2 in Hr. rewrite forallb_forall in Hr. apply Nat.eqb_eq, Hr, nth_In. exact Hu. }
  rewrite INR_sumn, rsum_Rsum, <- Hl. f_equal. symmetry.
  apply (map_seq_nth INR (nth u H []) 0%nat).
Qed.

Lemma colsum_real H v : INR (colsum H v) = rsum (length H) (fun u => creal H u v).
Proof.
  unfold colsum, creal, get2. rewrite INR_sumn, rsum_Rsum, map_map. f_equal. symmetry.
  apply (map_seq_nth (fun row => INR (nth v row 0%nat)) H []).
Qed.

Lemma total_real H : INR (total H) = rsum (length H) (fun u => INR (rowsum H u)).
Proof.
  unfold total, rowsum. rewrite INR_sumn, rsum_Rsum, map_map. f_equal. symmetry.
  apply (map_seq_nth (fun row => INR (sumn row)) H []).
Qed.

Lemma total_real_cols H :
  rect2 H = true -> INR (total H) = rsum (width2 H) (fun v => INR (colsum H v)).
Proof.
  intros Hr. rewrite total_real.
  rewrite (rsum_ext _ _ (fun u => rsum (width2 H) (fun v => creal H u v)))
    by (intros; apply rowsum_real; assumption).
  rewrite rsum_swap. apply rsum_ext. intros v _. symmetry. apply colsum_real.
Qed.

Lemma sumn_le_in l x : In x l -> (x <= sumn l)%nat.
Proof.
  induction l as [|y r IH]; intros Hin; [contradiction|].
  destruct Hin as [->|Hin]; simpl; [lia|]. specialize (IH Hin). lia.
Qed.

Lemma get2_le_rowsum H u v : (get2 H u v <= rowsum H u)%nat.
Proof.
  unfold get2, rowsum. destruct (Nat.lt_ge_cases v (length (nth u H []))) as [Hv|Hv].
  - apply sumn_le_in, nth_In. exact Hv.
  - rewrite nth_overflow by exact Hv. lia.
Qed.

Lemma get2_le_colsum H u v : (get2 H u v <= colsum H v)%nat.
Proof.
  unfold get2, colsum. destruct (Nat.lt_ge_cases u (length H)) as [Hu|Hu].
  - apply sumn_le_in. apply in_map_iff. exists (nth u H []). split; [reflexivity|apply nth_In; exact Hu].
  - rewrite (nth_overflow H) by exact Hu. destruct v; simpl; lia.
Qed.

Lemma rowsum_le_total H u : (rowsum H u <= total H)%nat.
Proof.
  unfold rowsum, total. destruct (Nat.lt_ge_cases u (length H)) as [Hu|Hu].
  - apply sumn_le_in. apply in_map_iff. exists (nth u H []). split; [reflexivity|apply nth_In; exact Hu].
  - rewrite nth_overflow by exact Hu. simpl. lia.
Qed.

(* ------------------------------------------------------------------ Q2R of the probability cells *)
Lemma Q2R_qdiv c N : (0 < N)%nat -> Q2R (qdiv c N) = INR c / INR N.
Proof.
  intros HN. unfold qdiv. destruct (Nat.eqb_spec N 0) as [->|_]; [lia|].
  unfold Q2R. cbn [Qnum Qden]. rewrite !INR_IZR_INZ. unfold Rdiv.
  replace (Z.pos (Pos.of_nat N)) with (Z.of_nat N); [reflexivity|].
  rewrite <- (Nat2Pos.id N) at 1 by lia. apply positive_nat_Z.
Qed.

Lemma qdiv_is_zero c N : Qeq_bool (qdiv c N) 0 = (c =? 0)%nat || (N =? 0)%nat.
Proof.
  apply eq_true_iff_eq. rewrite Qeq_bool_iff, orb_true_iff, !Nat.eqb_eq.
  unfold qdiv. destruct (Nat.eqb_spec N 0) as [->|HN].
  - split; [auto|reflexivity].
  - unfold Qeq. simpl. lia.
Qed.

(* the guarded cell, in terms of the counts *)
Lemma mi_cell_counts c r k N :
  (0 < N)%nat ->
  mi_cellq (qdiv c N) (qdiv r N) (qdiv k N) =
  if (c =? 0)%nat || (r =? 0)%nat || (k =? 0)%nat then 0
  else (INR c / INR N) * ln ((INR c / INR N) / ((INR r / INR N) * (INR k / INR N))).
Proof.
  intros HN. unfold mi_cellq, undefq. rewrite !qdiv_is_zero.
  replace (N =? 0)%nat with false by (symmetry; apply Nat.eqb_neq; lia).
  rewrite !orb_false_r, !Q2R_qdiv by exact HN. reflexivity.
Qed.

Lemma INR_pos n : (0 < n)%nat -> 0 < INR n.
Proof. intros H. apply lt_0_INR. exact H. Qed.

(* Gibbs for one cell *)
Lemma mi_cell_ge c r k N :
  (0 < N)%nat -> (c <= r)%nat -> (c <= k)%nat ->
  INR c / INR N - (INR r / INR N) * (INR k / INR N) <= mi_cellq (qdiv c N) (qdiv r N) (qdiv k N).
Proof.
  intros HN Hr Hk. rewrite mi_cell_counts by exact HN.
  pose proof (INR_pos N HN) as HNr.
  assert (H0r : 0 <= INR r / INR N) by (apply Rmult_le_pos; [apply pos_INR|left; apply Rinv_0_lt_compat; lra]).
  assert (H0k : 0 <= INR k / INR N) by (apply Rmult_le_pos; [apply pos_INR|left; apply Rinv_0_lt_compat; lra]).
  destruct ((c =? 0)%nat || (r =? 0)%nat || (k =? 0)%nat) eqn:E.
  - assert (c = 0)%nat.
    { apply orb_true_iff in E. destruct E as [E|E]; [apply orb_true_iff in E; destruct E as [E|E]|];
        apply Nat.eqb_eq in E; lia. }
    subst c. simpl. unfold Rdiv at 1. rewrite Rmult_0_l.
    assert (0 <= INR r / INR N * (INR k / INR N)) by (apply Rmult_le_pos; assumption). lra.
  - apply orb_false_iff in E. destruct E as (E & E3). apply orb_false_iff in E. destruct E as (E1 & E2).
    apply Nat.eqb_neq in E1, E2, E3.
    assert (0 < INR c / INR N) by (apply Rdiv_lt_0_compat; [apply INR_pos; lia|lra]).
    assert (0 < INR r / INR N) by (apply Rdiv_lt_0_compat; [apply INR_pos; lia|lra]).
    assert (0 < INR k / INR N) by (apply Rdiv_lt_0_compat; [apply INR_pos; lia|lra]).
    apply gibbs_term; [assumption|]. apply Rmult_lt_0_compat; assumption.
Qed.

(* one cell against the entropy term of its row *)
Lemma mi_cell_le_row c r k N :
  (0 < N)%nat -> (c <= r)%nat -> (c <= k)%nat -> (k <= N)%nat ->
  mi_cellq (qdiv c N) (qdiv r N) (qdiv k N) <= - (INR c / INR N * ln (INR r / INR N)).
Proof.
  intros HN Hr Hk HkN. rewrite mi_cell_counts by exact HN.
  pose proof (INR_pos N HN) as HNr.
  destruct ((c =? 0)%nat || (r =? 0)%nat || (k =? 0)%nat) eqn:E.
  - assert (c = 0)%nat.
    { apply orb_true_iff in E. destruct E as [E|E]; [apply orb_true_iff in E; destruct E as [E|E]|];
        apply Nat.eqb_eq in E; lia. }
    subst c. simpl. unfold Rdiv at 1. rewrite !Rmult_0_l. lra.
  - apply orb_false_iff in E. destruct E as (E & E3). apply orb_false_iff in E. destruct E as (E1 & E2).
    apply Nat.eqb_neq in E1, E2, E3.
    assert (Hp : 0 < INR c / INR N) by (apply Rdiv_lt_0_compat; [apply INR_pos; lia|lra]).
    assert (Hpx : 0 < INR r / INR N) by (apply Rdiv_lt_0_compat; [apply INR_pos; lia|lra]).
    assert (Hpy : 0 < INR k / INR N) by (apply Rdiv_lt_0_compat; [apply INR_pos; lia|lra]).
    rewrite ln_div, ln_mult by (try assumption; apply Rmult_lt_0_compat; assumption).
    assert (Hle : INR c / INR N <= INR k / INR N).
    { unfold Rdiv. apply Rmult_le_compat_r; [left; apply Rinv_0_lt_compat; lra|]. apply le_INR. exact Hk. }
    assert (Hln : ln (INR c / INR N) <= ln (INR k / INR N)).
    { destruct Hle as [Hlt|Heq]; [left; apply ln_increasing; assumption|rewrite Heq; lra]. }
    assert (INR c / INR N * (ln (INR c / INR N) - ln (INR k / INR N)) <= 0).
    { rewrite <- (Rmult_0_r (INR c / INR N)). apply Rmult_le_compat_l; lra. }
    lra.
Qed.

Lemma mi_cellq_sym p px py : mi_cellq p px py = mi_cellq p py px.
Proof.
  unfold mi_cellq, undefq. rewrite <- !orb_assoc, (orb_comm (Qeq_bool px 0)).
  destruct (Qeq_bool p 0 || (Qeq_bool py 0 || Qeq_bool px 0)); [reflexivity|].
  rewrite (Rmult_comm (Q2R px)). reflexivity.
Qed.

(* ================================================================== mutual information *)
Lemma total_zero_mi H : total H = 0%nat -> mi_of_counts H = 0.
Proof.
  intros HN. unfold mi_of_counts. apply rsum_zero. intros u _. apply rsum_zero. intros v _.
  rewrite HN. unfold mi_cellq, undefq, qdiv. simpl. reflexivity.
Qed.

Lemma total_real_cells H :
  rect2 H = true ->
  INR (total H) = rsum (length H) (fun u => rsum (width2 H) (fun v => creal H u v)).
Proof.
  intros Hr. rewrite total_real. apply rsum_ext. intros u Hu. apply rowsum_real; assumption.
Qed.

(* Gibbs' inequality => mutual information of any joint-count table is non-negative *)
Theorem mi_nonneg H : rect2 H = true -> 0 <= mi_of_counts H.
Proof.
  intros Hr. destruct (Nat.eq_dec (total H) 0) as [H0|HN].
  - rewrite total_zero_mi by exact H0. lra.
  - assert (HNpos : (0 < total H)%nat) by lia. pose proof (INR_pos _ HNpos) as HNr.
    set (N := INR (total H)) in *.
    apply Rle_trans with
      (rsum (length H) (fun u => rsum (width2 H) (fun v =>
         creal H u v / N - (INR (rowsum H u) / N) * (INR (colsum H v) / N)))).
    + right. symmetry. apply rsum_zero. intros u Hu.
      rewrite (rsum_ext _ _ (fun v => / N * creal H u v - (INR (rowsum H u) / N * / N) * INR (colsum H v)))
        by (intros; unfold Rdiv; ring).
      rewrite rsum_lin, <- rowsum_real, <- total_real_cols by assumption.
      fold N. field. lra.
    + apply rsum_le. intros u Hu. apply rsum_le. intros v Hv. unfold creal, N.
      apply mi_cell_ge; [exact HNpos|apply get2_le_rowsum|apply get2_le_colsum].
Qed.

(* mutual information never exceeds the entropy of the row marginal ... *)
Lemma entropy_row_dist H :
  (0 < total H)%nat ->
  entropy_R (row_dist H) =
  rsum (length H) (fun u => - (INR (rowsum H u) / INR (total H) * ln (INR (rowsum H u) / INR (total H)))).
Proof.
  intros HN. unfold entropy_R, row_dist. rewrite map_map, <- rsum_Rsum, <- rsum_opp.
  apply rsum_ext. intros u _. rewrite Q2R_qdiv by exact HN. unfold plogp.
  destruct (Rlt_dec 0 (INR (rowsum H u) / INR (total H))) as [Hp|Hp]; [reflexivity|].
  assert (Hz : INR (rowsum H u) / INR (total H) = 0).
  { assert (0 <= INR (rowsum H u) / INR (total H)).
    { apply Rmult_le_pos; [apply pos_INR|left; apply Rinv_0_lt_compat, INR_pos; exact HN]. }
    lra. }
  rewrite Hz. lra.
Qed.

Theorem mi_le_row_entropy H : rect2 H = true -> mi_of_counts H <= entropy_R (row_dist H).
Proof.
  intros Hr. destruct (Nat.eq_dec (total H) 0) as [H0|HN].
  - rewrite total_zero_mi by exact H0. unfold entropy_R, row_dist. rewrite map_map, <- rsum_Rsum.
    rewrite rsum_zero; [lra|]. intros u _. rewrite H0. unfold qdiv, plogp. simpl.
    change (Q2R 0) with (0 * / 1). lra.
  - assert (HNpos : (0 < total H)%nat) by lia.
    rewrite entropy_row_dist by exact HNpos. unfold mi_of_counts.
    apply rsum_le. intros u Hu.
    apply Rle_trans with (rsum (width2 H) (fun v =>
        - (creal H u v / INR (total H) * ln (INR (rowsum H u) / INR (total H))))).
    + apply rsum_le. intros v Hv. unfold creal.
      apply mi_cell_le_row; [exact HNpos|apply get2_le_rowsum|apply get2_le_colsum|].
      rewrite <- (Nat.add_0_r (colsum H v)).
      (* colsum <= total *)
      clear. unfold colsum, total. induction H as [|row H IH]; simpl; [lia|].
      assert (nth v row 0 <= sumn row)%nat.
      { destruct (Nat.lt_ge_cases v (length row)); [apply sumn_le_in, nth_In; assumption|
          rewrite nth_overflow by assumption; lia]. }
      lia.
    + right.
      rewrite (rsum_ext _ _ (fun v => (- (/ INR (total H) * ln (INR (rowsum H u) / INR (total H)))) * creal H u v))
        by (intros; unfold Rdiv; ring).
      rewrite rsum_scal, <- rowsum_real by assumption. unfold Rdiv. ring.
Qed.

(* ... symmetry of the guarded cell gives the same bound for the columns through the transposed
   table: H' is a transpose of H *)
Definition is_transpose (H H' : tbl2) : Prop :=
  rect2 H = true /\ rect2 H' = true /\ length H' = width2 H /\ width2 H' = length H /\
  forall u v, (u < length H)%nat -> (v < width2 H)%nat -> get2 H' v u = get2 H u v.

Lemma transpose_sums H H' :
  is_transpose H H' ->
  total H' = total H /\
  (forall v, (v < width2 H)%nat -> rowsum H' v = colsum H v) /\
  (forall u, (u < length H)%nat -> colsum H' u = rowsum H u).
Proof.
  intros (Hr & Hr' & Hl & Hw & Hg).
  assert (Hrow : forall v, (v < width2 H)%nat -> rowsum H' v = colsum H v).
  { intros v Hv. apply INR_eq. rewrite rowsum_real, colsum_real by (try assumption; lia).
    rewrite Hw. apply rsum_ext. intros u Hu. unfold creal. rewrite Hg by assumption. reflexivity. }
  assert (Hcol : forall u, (u < length H)%nat -> colsum H' u = rowsum H u).
  { intros u Hu. apply INR_eq. rewrite rowsum_real, colsum_real by (try assumption; lia).
    rewrite Hl. apply rsum_ext. intros v Hv. unfold creal. rewrite Hg by assumption. reflexivity. }
  split; [|split; assumption].
  apply INR_eq. rewrite total_real, (total_real_cols H) by assumption. rewrite Hl.
  apply rsum_ext. intros v Hv. rewrite Hrow by exact Hv. reflexivity.
Qed.

(* mutual information is symmetric under exchanging the two sides *)
Theorem mi_transpose H H' : is_transpose H H' -> mi_of_counts H' = mi_of_counts H.
Proof.
  intros HT. destruct (transpose_sums H H' HT) as (Ht & Hrow & Hcol).
  destruct HT as (Hr & Hr' & Hl & Hw & Hg).
  unfold mi_of_counts. rewrite Hl, Hw, Ht, rsum_swap.
  apply rsum_ext. intros u Hu. apply rsum_ext. intros v Hv.
  rewrite Hg, Hrow, Hcol by assumption. apply mi_cellq_sym.
Qed.

Lemma transpose_col_dist H H' : is_transpose H H' -> row_dist H' = col_dist H.
Proof.
  intros HT. destruct (transpose_sums H H' HT) as (Ht & Hrow & _).
  destruct HT as (_ & _ & Hl & _ & _). unfold row_dist, col_dist. rewrite Hl, Ht.
  apply map_ext_in. intros v Hv. apply in_seq in Hv. rewrite Hrow by lia. reflexivity.
Qed.

Theorem mi_le_col_entropy H H' : is_transpose H H' -> mi_of_counts H <= entropy_R (col_dist H).
Proof.
  intros HT. rewrite <- (mi_transpose H H' HT), <- (transpose_col_dist H H' HT).
  apply mi_le_row_entropy. destruct HT as (_ & Hr' & _). exact Hr'.
Qed.

(* on a diagonal table (a feature against itself) mutual information is the Shannon entropy *)
Theorem mi_diag_entropy H :
  rect2 H = true -> width2 H = length H ->
  (forall u v, (u < length H)%nat -> (v < length H)%nat -> u <> v -> get2 H u v = 0%nat) ->
  mi_of_counts H = entropy_R (row_dist H).
Proof.
  intros Hr Hsq Hdiag. destruct (Nat.eq_dec (total H) 0) as [H0|HN].
  - rewrite total_zero_mi by exact H0. unfold entropy_R, row_dist. rewrite map_map, <- rsum_Rsum.
    rewrite rsum_zero; [lra|]. intros u _. rewrite H0. unfold qdiv, plogp. simpl.
    change (Q2R 0) with (0 * / 1). lra.
  - assert (HNpos : (0 < total H)%nat) by lia. pose proof (INR_pos _ HNpos) as HNr.
    rewrite entropy_row_dist by exact HNpos. unfold mi_of_counts. rewrite Hsq.
    apply rsum_ext. intros u Hu.
    assert (Hrow : rowsum H u = get2 H u u).
    { apply INR_eq. rewrite rowsum_real by assumption. rewrite Hsq.
      rewrite (rsum_single _ _ u) by (try exact Hu; intros v Hv Hne; unfold creal; rewrite Hdiag; auto).
      reflexivity. }
    assert (Hcol : colsum H u = get2 H u u).
    { apply INR_eq. rewrite colsum_real.
      rewrite (rsum_single _ _ u) by (try exact Hu; intros v Hv Hne; unfold creal; rewrite Hdiag; auto).
      reflexivity. }
    rewrite (rsum_single _ _ u); [|exact Hu|].
    + rewrite Hrow, Hcol, mi_cell_counts by exact HNpos.
      destruct (Nat.eqb_spec (get2 H u u) 0) as [E|E]; simpl.
      * rewrite E. simpl. unfold Rdiv. rewrite !Rmult_0_l. lra.
      * set (p := INR (get2 H u u) / INR (total H)).
        assert (Hp : 0 < p) by (apply Rdiv_lt_0_compat; [apply INR_pos; lia|lra]).
        replace (p / (p * p)) with (/ p) by (field; lra). rewrite ln_Rinv by exact Hp. lra.
    + intros v Hv Hne. rewrite Hdiag by auto. rewrite mi_cell_counts by exact HNpos. reflexivity.
Qed.

(* relabelling: permuting the states of either side (rows / columns of the table) *)
Definition is_perm (s : nat -> nat) (n : nat) : Prop := Permutation (map s (seq 0 n)) (seq 0 n).

Lemma Rsum_perm l1 l2 : Permutation l1 l2 -> Rsum l1 = Rsum l2.
Proof. induction 1; simpl; lra. Qed.

Lemma rsum_reindex s n g : is_perm s n -> rsum n (fun k => g (s k)) = rsum n g.
Proof.
  intros Hp. rewrite !rsum_Rsum. rewrite <- (map_map s g). apply Rsum_perm, Permutation_map. exact Hp.
Qed.

Lemma is_perm_lt s n k : is_perm s n -> (k < n)%nat -> (s k < n)%nat.
Proof.
  intros Hp Hk. assert (Hin : In (s k) (seq 0 n)).
  { apply (Permutation_in _ Hp). apply in_map. apply in_seq. lia. }
  apply in_seq in Hin. lia.
Qed.

Definition relabelled (s t : nat -> nat) (H H' : tbl2) : Prop :=
  rect2 H = true /\ rect2 H' = true /\ length H' = length H /\ width2 H' = width2 H /\
  is_perm s (length H) /\ is_perm t (width2 H) /\
  forall u v, (u < length H)%nat -> (v < width2 H)%nat -> get2 H' u v = get2 H (s u) (t v).

Theorem mi_relabel_invariant s t H H' : relabelled s t H H' -> mi_of_counts H' = mi_of_counts H.
Proof.
  intros (Hr & Hr' & Hl & Hw & Ps & Pt & Hg).
  assert (Hrow : forall u, (u < length H)%nat -> rowsum H' u = rowsum H (s u)).
  { intros u Hu. apply INR_eq. rewrite !rowsum_real by (try assumption; try lia; apply is_perm_lt; assumption).
    rewrite Hw. rewrite <- (rsum_reindex t _ (fun v => creal H (s u) v) Pt).
    apply rsum_ext. intros v Hv. unfold creal. rewrite Hg by assumption. reflexivity. }
  assert (Hcol : forall v, (v < width2 H)%nat -> colsum H' v = colsum H (t v)).
  { intros v Hv. apply INR_eq. rewrite !colsum_real. rewrite Hl.
    rewrite <- (rsum_reindex s _ (fun u => creal H u (t v)) Ps).
    apply rsum_ext. intros u Hu. unfold creal. rewrite Hg by assumption. reflexivity. }
  assert (Ht : total H' = total H).
  { apply INR_eq. rewrite !total_real, Hl.
    rewrite <- (rsum_reindex s _ (fun u => INR (rowsum H u)) Ps).
    apply rsum_ext. intros u Hu. rewrite Hrow by exact Hu. reflexivity. }
  unfold mi_of_counts. rewrite Hl, Hw, Ht.
  rewrite <- (rsum_reindex s (length H) (fun u => rsum (width2 H) (fun v =>
      mi_cellq (qdiv (get2 H u v) (total H)) (qdiv (rowsum H u) (total H)) (qdiv (colsum H v) (total H)))) Ps).
  apply rsum_ext. intros u Hu.
  rewrite <- (rsum_reindex t (width2 H) (fun v =>
      mi_cellq (qdiv (get2 H (s u) v) (total H)) (qdiv (rowsum H (s u)) (total H)) (qdiv (colsum H v) (total H))) Pt).
  apply rsum_ext. intros v Hv. rewrite Hg, Hrow, Hcol by assumption. reflexivity.
Qed.

(* mutual information is a function of the table alone: equal cells, equal value *)
Theorem mi_table_ext H H' :
  length H' = length H -> width2 H' = width2 H -> rect2 H = true -> rect2 H' = true ->
  (forall u v, (u < length H)%nat -> (v < width2 H)%nat -> get2 H' u v = get2 H u v) ->
  mi_of_counts H' = mi_of_counts H.
Proof.
  intros Hl Hw Hr Hr' Hg.
  apply (mi_relabel_invariant (fun u => u) (fun v => v)).
  unfold relabelled, is_perm. rewrite !map_id. repeat split; auto.
Qed.

(* ================================================================== normalisation (R) *)
Theorem cc_norm_well_defined (mi : nat -> nat -> R) rows cols n_x n_y G i j :
  cc_grid rows cols n_x n_y = Some G -> (i < rows)%nat -> (j < cols)%nat ->
  exists nx ny, states_array n_x rows = Some nx /\ states_array n_y cols = Some ny /\
    cc_norm mi G i j = mi i j / ln (IZR (Z.min (nth i nx 0%Z) (nth j ny 0%Z))) /\
    0 < ln (IZR (Z.min (nth i nx 0%Z) (nth j ny 0%Z))).
Proof.
  intros E Hi Hj. destruct (cc_grid_entry _ _ _ _ _ E) as (nx & ny & Ex & Ey & _ & _ & _ & Hent).
  exists nx, ny. destruct (Hent i j Hi Hj) as (_ & Hmin & Hge).
  repeat split; auto.
  - unfold cc_norm. rewrite Hmin. reflexivity.
  - rewrite <- Hmin. rewrite <- ln_1. apply ln_increasing; [lra|]. apply IZR_lt. lia.
Qed.

(* ================================================================== non-vacuity *)
Lemma example_transpose_relabel :
  is_transpose [[1; 0; 2]; [0; 3; 0]]%nat [[1; 0]; [0; 3]; [2; 0]]%nat
  /\ relabelled (fun u => (1 - u)%nat) (fun v => v) [[1; 0; 2]; [0; 3; 0]]%nat [[0; 3; 0]; [1; 0; 2]]%nat.
Proof.
  split.
  - repeat split; try reflexivity. intros [|[|u]] [|[|[|v]]] Hu Hv; simpl in *; try reflexivity; lia.
  - repeat split; try reflexivity; try (apply perm_swap || apply Permutation_refl).
    intros [|[|u]] [|[|[|v]]] Hu Hv; simpl in *; try reflexivity; lia.
Qed.
