(* C18: the regenerated Python layer of enspara/info_theory/mutual_info.py (Gen/MutualInfoGen.v, over
   the vocabulary Base/InfoPyBase.v) against the hand-written model Model/Info.v:
   mutual_information, _validate_feature_states_array, the divisor grid of
   channel_capacity_normalization and the normalisation itself. *)
From Coq Require Import List ZArith QArith Qreals Bool Arith Reals Lia Lra.
From EV Require Import JointCounts Info InfoPyBase MutualInfoGen InfoProofs.
Import ListNotations.
Local Open Scope nat_scope.

(* ================================================================== upd *)
Lemma gupd_length {A} (f : A -> A) l : forall i, length (upd i f l) = length l.
Proof.
  induction l as [|x r IH]; intros [|i]; simpl; auto.
Qed.

Lemma gupd_ext {A} (f g : A -> A) l : (forall x, f x = g x) -> forall i, upd i f l = upd i g l.
Proof.
  intros E. induction l as [|x r IH]; intros [|i]; simpl; auto.
  - now rewrite E.
  - now rewrite IH.
Qed.

Lemma gupd_id {A} (l : list A) : forall i, upd i (fun x => x) l = l.
Proof.
  induction l as [|x r IH]; intros [|i]; simpl; auto. now rewrite IH.
Qed.

Lemma gupd_upd {A} (f g : A -> A) l : forall i, upd i f (upd i g l) = upd i (fun x => f (g x)) l.
Proof.
  induction l as [|x r IH]; intros [|i]; simpl; auto. now rewrite IH.
Qed.

Lemma gnth_upd {A} (f : A -> A) d l : forall i k,
  nth k (upd i f l) d = if (k =? i) && (k <? length l) then f (nth k l d) else nth k l d.
Proof.
  induction l as [|x r IH]; intros i k.
  - replace (k <? length (@nil A)) with false by (symmetry; apply Nat.ltb_ge; simpl; lia).
    rewrite andb_false_r. destruct i, k; reflexivity.
  - destruct i as [|i], k as [|k]; simpl; try reflexivity. exact (IH i k).
Qed.

Lemma gnth_repeat {A} (x d : A) n k : k < n -> nth k (repeat x n) d = x.
Proof.
  revert k. induction n as [|n IH]; intros k Hk; [lia|]. destruct k; simpl; [reflexivity|].
  apply IH. lia.
Qed.

(* ================================================================== for_n *)
Lemma for_n_S {T} (body : T -> nat -> T) n s : for_n (S n) body s = body (for_n n body s) n.
Proof.
  unfold for_n. rewrite seq_S, fold_left_app. reflexivity.
Qed.

Lemma for_n_ext {T} (f g : T -> nat -> T) n :
  (forall s k, k < n -> f s k = g s k) -> forall s, for_n n f s = for_n n g s.
Proof.
  induction n as [|n IH]; intros E s.
  - reflexivity.
  - rewrite !for_n_S. rewrite IH by (intros; apply E; lia). apply E. lia.
Qed.

(* for i in range(n): l[i] = F(i, l[i]) *)
Lemma for_n_upd {A} (F : nat -> A -> A) (d : A) n l :
  length (for_n n (fun l i => upd i (F i) l) l) = length l /\
  forall k, nth k (for_n n (fun l i => upd i (F i) l) l) d =
            if (k <? n) && (k <? length l) then F k (nth k l d) else nth k l d.
Proof.
  induction n as [|n [IHl IHn]].
  - split; [reflexivity|]. intros k. replace (k <? 0) with false by (symmetry; apply Nat.ltb_ge; lia).
    reflexivity.
  - rewrite for_n_S. split.
    + rewrite gupd_length. exact IHl.
    + intros k. rewrite gnth_upd, IHl, IHn.
      destruct (Nat.eqb_spec k n) as [->|Hne].
      * replace (n <? n) with false by (symmetry; apply Nat.ltb_ge; lia).
        replace (n <? S n) with true by (symmetry; apply Nat.ltb_lt; lia). reflexivity.
      * simpl. destruct (Nat.ltb_spec k n) as [Hlt|Hge].
        -- replace (k <? S n) with true by (symmetry; apply Nat.ltb_lt; lia). reflexivity.
        -- replace (k <? S n) with false by (symmetry; apply Nat.ltb_ge; lia). reflexivity.
Qed.

(* ================================================================== mi[i, j] += x *)
Lemma iadd2_0 mi i j : iadd2 mi i j 0%R = mi.
Proof.
  unfold iadd2. rewrite (gupd_ext _ (fun x => x)); [apply gupd_id|].
  intros row. rewrite (gupd_ext _ (fun x => x)); [apply gupd_id|].
  intros x. apply Rplus_0_r.
Qed.

Lemma iadd2_iadd2 mi i j x y : iadd2 (iadd2 mi i j x) i j y = iadd2 mi i j (x + y)%R.
Proof.
  unfold iadd2. rewrite gupd_upd. apply gupd_ext. intros row. rewrite gupd_upd. apply gupd_ext.
  intros m. apply Rplus_assoc.
Qed.

Lemma for_n_cond_iadd (c : nat -> bool) (g : nat -> R) i j n mi0 :
  for_n n (fun mi k => if c k then iadd2 mi i j (g k) else mi) mi0 =
  iadd2 mi0 i j (rsum n (fun k => if c k then g k else 0%R)).
Proof.
  induction n as [|n IH].
  - simpl. rewrite iadd2_0. reflexivity.
  - rewrite for_n_S, IH. simpl. destruct (c n).
    + apply iadd2_iadd2.
    + rewrite Rplus_0_r. reflexivity.
Qed.

Lemma for_n_iadd (g : nat -> R) i j n mi0 :
  for_n n (fun mi k => iadd2 mi i j (g k)) mi0 = iadd2 mi0 i j (rsum n g).
Proof.
  induction n as [|n IH].
  - simpl. rewrite iadd2_0. reflexivity.
  - rewrite for_n_S, IH. simpl. apply iadd2_iadd2.
Qed.

(* the loop over the columns of one row of the result *)
Lemma for_n_iadd2_row (G : nat -> R) i m mi :
  for_n m (fun mi j => iadd2 mi i j (G j)) mi =
  upd i (fun row => for_n m (fun row j => upd j (fun x => (x + G j)%R) row) row) mi.
Proof.
  induction m as [|m IH].
  - unfold for_n. simpl. symmetry. apply gupd_id.
  - rewrite for_n_S, IH. unfold iadd2. rewrite gupd_upd. apply gupd_ext. intros row.
    rewrite for_n_S. reflexivity.
Qed.

(* mi = zeros((n, m)); for i: for j: mi[i, j] += G i j   is the table of the G i j *)
Lemma fill_table (G : nat -> nat -> R) n m (T : list (list R)) :
  length T = n ->
  (forall i, i < n -> length (nth i T []) = m) ->
  (forall i j, i < n -> j < m -> nth j (nth i T []) 0%R = G i j) ->
  for_n n (fun mi i => for_n m (fun mi j => iadd2 mi i j (G i j)) mi) (zeros2R n m) = T.
Proof.
  intros HT1 HT2 HT3.
  rewrite (for_n_ext _ (fun mi i =>
      upd i ((fun i row => for_n m (fun row j => upd j ((fun j x => (x + G i j)%R) j) row) row) i) mi))
    by (intros s i _; apply for_n_iadd2_row).
  pose proof (for_n_upd (fun i row => for_n m (fun row j => upd j ((fun j x => (x + G i j)%R) j) row) row)
                        [] n (zeros2R n m)) as [L N].
  assert (LZ : length (zeros2R n m) = n) by (unfold zeros2R; apply repeat_length).
  apply nth_ext with (d := []) (d' := []).
  - rewrite L, LZ. symmetry. exact HT1.
  - intros i Hi. rewrite L, LZ in Hi. rewrite N, LZ.
    replace (i <? n) with true by (symmetry; apply Nat.ltb_lt; exact Hi). simpl.
    unfold zeros2R at 1. rewrite gnth_repeat by exact Hi.
    pose proof (for_n_upd (fun j x => (x + G i j)%R) 0%R m (repeat 0%R m)) as [L2 N2].
    rewrite repeat_length in L2.
    apply nth_ext with (d := 0%R) (d' := 0%R).
    + rewrite L2. symmetry. apply HT2. exact Hi.
    + intros j Hj. rewrite L2 in Hj. rewrite N2, repeat_length.
      replace (j <? m) with true by (symmetry; apply Nat.ltb_lt; exact Hj). simpl.
      rewrite gnth_repeat by exact Hj. rewrite HT3 by assumption. apply Rplus_0_l.
Qed.

(* ================================================================== zip2 / map / nth *)
Lemma zip2_length {A B C} (f : A -> B -> C) l1 : forall l2,
  length (zip2 f l1 l2) = Nat.min (length l1) (length l2).
Proof.
  induction l1 as [|x r IH]; intros [|y s]; simpl; auto.
Qed.

Lemma nth_zip2 {A B C} (f : A -> B -> C) l1 : forall l2 k dA dB dC,
  k < length l1 -> k < length l2 -> nth k (zip2 f l1 l2) dC = f (nth k l1 dA) (nth k l2 dB).
Proof.
  induction l1 as [|x r IH]; intros [|y s] k dA dB dC H1 H2; simpl in *; try lia.
  destruct k; [reflexivity|]. apply IH; lia.
Qed.

Lemma nth2_zip2 {A B C} (f : A -> B -> C) (l1 : list (list A)) (l2 : list (list B)) i j dA dB dC :
  i < length l1 -> i < length l2 -> j < length (nth i l1 []) -> j < length (nth i l2 []) ->
  nth j (nth i (zip2 (zip2 f) l1 l2) []) dC = f (nth j (nth i l1 []) dA) (nth j (nth i l2 []) dB).
Proof.
  intros H1 H2 H3 H4. rewrite (nth_zip2 _ l1 l2 i [] [] []) by assumption. apply nth_zip2; assumption.
Qed.

Lemma zip2_map_map {A B C D} (f : B -> C -> D) (g : A -> B) (h : A -> C) l :
  zip2 f (map g l) (map h l) = map (fun x => f (g x) (h x)) l.
Proof.
  induction l as [|x r IH]; simpl; [reflexivity|]. now rewrite IH.
Qed.

Lemma zip2_map_l {A B C} (f : B -> A -> C) (g : A -> B) l :
  zip2 f (map g l) l = map (fun x => f (g x) x) l.
Proof.
  induction l as [|x r IH]; simpl; [reflexivity|]. now rewrite IH.
Qed.

Lemma nth_mapmap {A B} (g : A -> B) (l : list (list A)) i : nth i (map (map g) l) [] = map g (nth i l []).
Proof.
  exact (map_nth (map g) l [] i).
Qed.

Lemma map_map2 {A B C} (f : B -> C) (g : A -> B) (l : list (list A)) :
  map (map f) (map (map g) l) = map (map (fun x => f (g x))) l.
Proof.
  rewrite map_map. apply map_ext. intros r. apply map_map.
Qed.

Lemma dim1_width2 (H : tbl2) : dim1 H = width2 H.
Proof.
  destruct H; reflexivity.
Qed.

Lemma dim1_mapmap {A B} (g : A -> B) (l : list (list A)) : dim1 (map (map g) l) = dim1 l.
Proof.
  destruct l; simpl; [reflexivity|]. unfold dim1. simpl. apply map_length.
Qed.

Lemma np_any_map {A} (f : A -> bool) l : np_any (map f l) = existsb f l.
Proof.
  unfold np_any. induction l as [|x r IH]; simpl; [reflexivity|]. now rewrite IH.
Qed.

Lemma np_all_map {A} (f : A -> bool) l : np_all (map f l) = forallb f l.
Proof.
  unfold np_all. induction l as [|x r IH]; simpl; [reflexivity|]. now rewrite IH.
Qed.

(* ================================================================== mutual_information *)
(* np.divide(c, n, where=n > 0, out=zeros) *)
Lemma where_div_qdiv c n : where_out (0 <? n) (np_true_divide c n) 0%Q = qdiv c n.
Proof.
  destruct n; reflexivity.
Qed.

(* the condition and the summand of the innermost loop body *)
Definition gcond (Pxy : list (list Q)) (Px Py : list Q) (u v : nat) : bool :=
  negb ((Qeq_bool (at2q Pxy u v) 0) || (Qeq_bool (at1q Px u) 0) || (Qeq_bool (at1q Py v) 0)).
Definition gval (Pxy : list (list Q)) (Px Py : list Q) (u v : nat) : R :=
  (Q2R (at2q Pxy u v) * ln (Q2R (at2q Pxy u v) / (Q2R (at1q Px u) * Q2R (at1q Py v))))%R.
(* the two loops over the cells (u, v) of one pair of features (i, j) *)
Definition cell_loops (Pxy : list (list Q)) (Px Py : list Q) (i j : nat) (mi : list (list R)) :=
  for_n (dim0 Pxy) (fun mi u =>
  for_n (dim1 Pxy) (fun mi v =>
    if gcond Pxy Px Py u v then iadd2 mi i j (gval Pxy Px Py u v) else mi) mi) mi.

Lemma gen_mi_unfold jc :
  gen_mutual_information jc =
  let n_obs_a_i := map (map (map sum_last)) jc in
  let n_obs_b_i := map (map sum_cols) jc in
  let n_obs := map (map sum_last) n_obs_a_i in
  let P_a := zip2 (zip2 (fun x_ y_ => map (fun a_ => where_out (0 <? y_)%nat (np_true_divide a_ y_) 0%Q) x_)) n_obs_a_i n_obs in
  let P_b := zip2 (zip2 (fun x_ y_ => map (fun a_ => where_out (0 <? y_)%nat (np_true_divide a_ y_) 0%Q) x_)) n_obs_b_i n_obs in
  let P_a_b := zip2 (zip2 (fun x_ y_ => map (map (fun a_ => where_out (0 <? y_)%nat (np_true_divide a_ y_) 0%Q)) x_)) jc n_obs in
  for_n (dim0 jc) (fun mi i =>
  for_n (dim1 jc) (fun mi j =>
    cell_loops (sub2of P_a_b i j) (sub2of P_a i j) (sub2of P_b i j) i j mi) mi) (zeros2R (dim0 jc) (dim1 jc)).
Proof.
  reflexivity.
Qed.

Lemma cell_loops_sum Pxy Px Py i j mi :
  cell_loops Pxy Px Py i j mi =
  iadd2 mi i j (rsum (dim0 Pxy) (fun u => rsum (dim1 Pxy) (fun v =>
    if gcond Pxy Px Py u v then gval Pxy Px Py u v else 0%R))).
Proof.
  unfold cell_loops.
  rewrite (for_n_ext _ (fun mi u => iadd2 mi i j ((fun u => rsum (dim1 Pxy) (fun v =>
             if gcond Pxy Px Py u v then gval Pxy Px Py u v else 0%R)) u)))
    by (intros s u _; apply for_n_cond_iadd).
  apply for_n_iadd.
Qed.

(* one cell: the code's test-and-add against the model's guarded cell *)
Lemma cell_eq (H : tbl2) u v :
  u < length H -> v < width2 H ->
  (if gcond (map (map (fun c => qdiv c (total H))) H)
            (map (fun c => qdiv c (total H)) (map sumn H))
            (map (fun c => qdiv c (total H)) (sum_cols H)) u v
   then gval (map (map (fun c => qdiv c (total H))) H)
             (map (fun c => qdiv c (total H)) (map sumn H))
             (map (fun c => qdiv c (total H)) (sum_cols H)) u v
   else 0%R) =
  mi_cellq (qdiv (get2 H u v) (total H)) (qdiv (rowsum H u) (total H)) (qdiv (colsum H v) (total H)).
Proof.
  intros Hu Hv. unfold gcond, gval. set (N := total H).
  assert (E1 : at1q (map (fun c => qdiv c N) (map sumn H)) u = qdiv (rowsum H u) N).
  { unfold at1q. rewrite map_map. rewrite (nth_map_in _ H u []) by exact Hu. reflexivity. }
  assert (E2 : at1q (map (fun c => qdiv c N) (sum_cols H)) v = qdiv (colsum H v) N).
  { unfold at1q, sum_cols. rewrite map_map.
    rewrite (nth_map_in _ (seq 0 (dim1 H)) v 0) by (rewrite seq_length, dim1_width2; exact Hv).
    rewrite seq_nth by (rewrite dim1_width2; exact Hv). reflexivity. }
  rewrite E1, E2.
  destruct (Nat.ltb_spec v (length (nth u H []))) as [Hin|Hout].
  - assert (E0 : at2q (map (map (fun c => qdiv c N)) H) u v = qdiv (get2 H u v) N).
    { unfold at2q. rewrite nth_mapmap. rewrite (nth_map_in _ _ v 0) by exact Hin. reflexivity. }
    rewrite E0. unfold mi_cellq, undefq.
    destruct (Qeq_bool (qdiv (get2 H u v) N) 0 || Qeq_bool (qdiv (rowsum H u) N) 0
              || Qeq_bool (qdiv (colsum H v) N) 0); reflexivity.
  - assert (E0 : at2q (map (map (fun c => qdiv c N)) H) u v = 0%Q).
    { unfold at2q. rewrite nth_mapmap. apply nth_overflow. rewrite map_length. exact Hout. }
    assert (E3 : get2 H u v = 0) by (unfold get2; apply nth_overflow; exact Hout).
    rewrite E0, E3. unfold mi_cellq, undefq. rewrite (qdiv_is_zero 0 N). reflexivity.
Qed.

Lemma cell_loops_eq (H : tbl2) i j mi :
  cell_loops (map (map (fun c => qdiv c (total H))) H)
             (map (fun c => qdiv c (total H)) (map sumn H))
             (map (fun c => qdiv c (total H)) (sum_cols H)) i j mi =
  iadd2 mi i j (mi_of_counts H).
Proof.
  rewrite cell_loops_sum. f_equal. unfold dim0. rewrite map_length, dim1_mapmap, dim1_width2.
  unfold mi_of_counts. apply rsum_ext. intros u Hu. apply rsum_ext. intros v Hv.
  apply cell_eq; assumption.
Qed.

(* the three probability tables at the pair of features (i, j) *)
Section Tables.
  Variable jc : tbl4.
  Variables i j : nat.
  Hypothesis Hi : i < length jc.
  Hypothesis Hj : j < length (nth i jc []).

  Let n_obs := map (map sum_last) (map (map (map sum_last)) jc).

  Lemma n_obs_shape : i < length n_obs /\ j < length (nth i n_obs []).
  Proof.
    unfold n_obs. rewrite map_map2. split.
    - rewrite map_length. exact Hi.
    - rewrite nth_mapmap, map_length. exact Hj.
  Qed.

  Lemma n_obs_nth : nth j (nth i n_obs []) 0 = total (sub2 jc i j).
  Proof.
    unfold n_obs. rewrite map_map2, nth_mapmap. rewrite (nth_map_in _ _ j []) by exact Hj.
    reflexivity.
  Qed.

  Lemma Pab_sub :
    sub2of (zip2 (zip2 (fun x_ y_ => map (map (fun a_ => where_out (0 <? y_)%nat (np_true_divide a_ y_) 0%Q)) x_))
                 jc (map (map sum_last) (map (map (map sum_last)) jc))) i j =
    map (map (fun c => qdiv c (total (sub2 jc i j)))) (sub2 jc i j).
  Proof.
    destruct n_obs_shape as [S1 S2]. fold n_obs. unfold sub2of.
    rewrite (nth2_zip2 _ jc n_obs i j [] 0 []) by assumption. rewrite n_obs_nth.
    fold (sub2 jc i j). apply map_ext. intros row. apply map_ext. intros c. apply where_div_qdiv.
  Qed.

  Lemma Pa_sub :
    sub2of (zip2 (zip2 (fun x_ y_ => map (fun a_ => where_out (0 <? y_)%nat (np_true_divide a_ y_) 0%Q) x_))
                 (map (map (map sum_last)) jc) (map (map sum_last) (map (map (map sum_last)) jc))) i j =
    map (fun c => qdiv c (total (sub2 jc i j))) (map sumn (sub2 jc i j)).
  Proof.
    destruct n_obs_shape as [S1 S2]. fold n_obs. unfold sub2of.
    rewrite (nth2_zip2 _ _ n_obs i j [] 0 []);
      [| rewrite map_length; exact Hi | exact S1 | rewrite nth_mapmap, map_length; exact Hj | exact S2].
    rewrite n_obs_nth. rewrite !nth_mapmap. fold (sub2 jc i j).
    apply map_ext. intros c. apply where_div_qdiv.
  Qed.

  Lemma Pb_sub :
    sub2of (zip2 (zip2 (fun x_ y_ => map (fun a_ => where_out (0 <? y_)%nat (np_true_divide a_ y_) 0%Q) x_))
                 (map (map sum_cols) jc) (map (map sum_last) (map (map (map sum_last)) jc))) i j =
    map (fun c => qdiv c (total (sub2 jc i j))) (sum_cols (sub2 jc i j)).
  Proof.
    destruct n_obs_shape as [S1 S2]. fold n_obs. unfold sub2of.
    rewrite (nth2_zip2 _ _ n_obs i j [] 0 []);
      [| rewrite map_length; exact Hi | exact S1 | rewrite nth_mapmap, map_length; exact Hj | exact S2].
    rewrite n_obs_nth. rewrite nth_mapmap. rewrite (nth_map_in _ _ j []) by exact Hj.
    fold (sub2 jc i j). apply map_ext. intros c. apply where_div_qdiv.
  Qed.
End Tables.

(* a 4-D array: every jc[i] has jc.shape[1] entries *)
Definition regular4 (jc : tbl4) : Prop := forall r, In r jc -> length r = dim1 jc.

Theorem gen_mutual_information_is_model : forall jc,
  regular4 jc -> gen_mutual_information jc = map (map mi_of_counts) jc.
Proof.
  intros jc Hreg.
  transitivity (for_n (dim0 jc) (fun mi i => for_n (dim1 jc) (fun mi j =>
                  iadd2 mi i j ((fun i j => mi_of_counts (sub2 jc i j)) i j)) mi)
                  (zeros2R (dim0 jc) (dim1 jc))).
  - rewrite gen_mi_unfold. cbv zeta. apply for_n_ext. intros s i Hi. apply for_n_ext. intros s' j Hj.
    unfold dim0 in Hi.
    assert (Hj' : j < length (nth i jc [])) by (rewrite Hreg by (apply nth_In; exact Hi); exact Hj).
    rewrite Pab_sub, Pa_sub, Pb_sub by assumption. apply cell_loops_eq.
  - apply fill_table.
    + unfold dim0. apply map_length.
    + intros i Hi. unfold dim0 in Hi. rewrite nth_mapmap, map_length. apply Hreg, nth_In. exact Hi.
    + intros i j Hi Hj. unfold dim0 in Hi. rewrite nth_mapmap.
      rewrite (nth_map_in mi_of_counts _ j []) by (rewrite Hreg by (apply nth_In; exact Hi); exact Hj).
      reflexivity.
Qed.

Corollary gen_mutual_information_entry : forall jc a b,
  regular4 jc -> (a < length jc)%nat -> (b < dim1 jc)%nat ->
  nth b (nth a (gen_mutual_information jc) []) 0%R = mutual_information jc a b.
Proof.
  intros jc a b Hreg Ha Hb. rewrite gen_mutual_information_is_model by exact Hreg.
  rewrite nth_mapmap. rewrite (nth_map_in mi_of_counts _ b []) by (rewrite Hreg by (apply nth_In; exact Ha); exact Hb).
  reflexivity.
Qed.

(* ================================================================== _validate_feature_states_array *)
Lemma existsb_le0_of_lt2 l :
  existsb (fun a => (a <? 2)%Z) l = false -> existsb (fun a => (a <=? 0)%Z) l = false.
Proof.
  induction l as [|x r IH]; simpl; [reflexivity|]. intros H. apply orb_false_iff in H.
  destruct H as [Hx Hr]. rewrite (IH Hr). apply Z.ltb_ge in Hx.
  replace (x <=? 0)%Z with false by (symmetry; apply Z.leb_gt; lia). reflexivity.
Qed.

Theorem gen_validate_feature_states_array_is_model : forall n dim,
  gen_validate_feature_states_array n dim = states_array n dim.
Proof.
  intros n dim. unfold gen_validate_feature_states_array, states_array, np_full.
  set (l := match n with inl k => repeat k dim | inr l => l end).
  rewrite !np_any_map.
  destruct (existsb (fun a_ => (a_ <? 2)%Z) l) eqn:E1; [reflexivity|].
  destruct (negb (length l =? dim)) eqn:E2; [reflexivity|].
  rewrite (existsb_le0_of_lt2 l E1). reflexivity.
Qed.

(* ================================================================== the divisor grid *)
Lemma meshgrid_min x y :
  zip2 (zip2 Z.min) (meshgrid_ij0 x y) (meshgrid_ij1 x y) = min_grid x y.
Proof.
  unfold meshgrid_ij0, meshgrid_ij1, min_grid. rewrite zip2_map_map. apply map_ext. intros a.
  apply zip2_map_l.
Qed.

Lemma states_array_all_ge2 n dim l :
  states_array n dim = Some l -> np_all (map (fun a_ => (2 <=? a_)%Z) l) = true.
Proof.
  intros H. destruct (states_array_spec _ _ _ H) as (_ & Hge & _).
  rewrite np_all_map. apply forallb_forall. intros k Hk. apply Z.leb_le. apply Hge. exact Hk.
Qed.

Theorem gen_cc_min_num_states_is_model : forall rows cols n_x n_y,
  gen_cc_min_num_states rows cols n_x n_y = cc_grid rows cols n_x n_y.
Proof.
  intros rows cols n_x n_y. unfold gen_cc_min_num_states, cc_grid.
  rewrite !gen_validate_feature_states_array_is_model.
  destruct (states_array n_x rows) as [nx|] eqn:Ex; simpl.
  - destruct (states_array n_y cols) as [ny|] eqn:Ey; simpl; [|reflexivity].
    rewrite (states_array_all_ge2 _ _ _ Ex), (states_array_all_ge2 _ _ _ Ey). simpl.
    rewrite meshgrid_min. reflexivity.
  - destruct (states_array n_y cols); reflexivity.
Qed.

(* ================================================================== channel_capacity_normalization *)
(* rows of the MI matrix all have mi.shape[1] entries *)
Definition regular2 (mi : list (list R)) : Prop := forall r, In r mi -> length r = dim1 mi.

Theorem gen_channel_capacity_normalization_is_model : forall mi n_x n_y,
  regular2 mi ->
  match gen_channel_capacity_normalization mi n_x n_y, cc_grid (length mi) (dim1 mi) n_x n_y with
  | Some out, Some G =>
      length out = length mi /\
      forall i j, (i < length mi)%nat -> (j < dim1 mi)%nat ->
        length (nth i out []) = dim1 mi /\
        nth j (nth i out []) 0%R = cc_norm (fun i j => nth j (nth i mi []) 0%R) G i j
  | None, None => True
  | _, _ => False
  end.
Proof.
  intros mi n_x n_y Hreg. unfold gen_channel_capacity_normalization.
  rewrite gen_cc_min_num_states_is_model. unfold dim0.
  destruct (cc_grid (length mi) (dim1 mi) n_x n_y) as [G|] eqn:EG; simpl; [|exact I].
  destruct (cc_grid_entry _ _ _ _ _ EG) as (nx & ny & _ & _ & _ & _ & LG & HG).
  split.
  - rewrite zip2_length, LG. apply Nat.min_id.
  - intros i j Hi Hj. destruct (HG i j Hi Hj) as (LGi & _ & _).
    assert (Li : length (nth i mi []) = dim1 mi) by (apply Hreg, nth_In; exact Hi).
    rewrite (nth_zip2 _ mi G i [] [] []) by (try rewrite LG; exact Hi). split.
    + rewrite zip2_length, LGi, Li. apply Nat.min_id.
    + rewrite (nth_zip2 _ _ _ j 0%R 0%Z 0%R) by (try rewrite LGi; try rewrite Li; exact Hj).
      reflexivity.
Qed.

Print Assumptions gen_mutual_information_is_model.
Print Assumptions gen_mutual_information_entry.
Print Assumptions gen_validate_feature_states_array_is_model.
Print Assumptions gen_cc_min_num_states_is_model.
Print Assumptions gen_channel_capacity_normalization_is_model.
