(* C12: what an accepted certificate means (exact rational arithmetic, no axioms). *)
From Coq Require Import List ZArith QArith Qabs Lqa Lia Bool Arith.
From EV Require Import Prinz.
Import ListNotations.
Open Scope Q_scope.

Lemma all2_spec n f : all2 n f = true -> forall i j, (i < n)%nat -> (j < n)%nat -> f i j = true.
Proof.
  unfold all2. intros H i j Hi Hj. rewrite forallb_forall in H.
  specialize (H i ltac:(apply in_seq; lia)). rewrite forallb_forall in H. apply H. apply in_seq. lia.
Qed.
Lemma forallb_seq_spec n (f : nat -> bool) : forallb f (seq 0 n) = true -> forall i, (i < n)%nat -> f i = true.
Proof. intros H i Hi. rewrite forallb_forall in H. apply H. apply in_seq. lia. Qed.
Lemma qle_abs_spec x t : qle_abs x t = true -> Qabs x <= t.
Proof. unfold qle_abs. apply Qle_bool_imp_le. Qed.

(* an accepted certificate (self-consistency check on) gives, for all i, j < n: *)
Theorem cert_ok_sound tol1 tol2 C T pi :
  cert_ok tol1 tol2 true C T pi = true ->
  let n := length C in
  let Tf := mat_fun T in let pf := vec_fun pi in let Cf := mat_fun C in
  let Crs := fun i => qsumn n (Cf i) in
  length T = n /\ length pi = n /\
  Qabs (qsumn n pf - 1) <= tol1 /\
  forall i j, (i < n)%nat -> (j < n)%nat ->
    0 <= pf i /\ 0 <= Tf i j /\
    Qabs (qsumn n (Tf i) - 1) <= tol1 /\
    Qabs (pf i * Tf i j - pf j * Tf j i) <= tol1 /\
    Qabs (Tf i j * Crs i + Tf j i * Crs j - (Cf i j + Cf j i)) <= tol2 * (Crs i + Crs j).
Proof.
  intros H n Tf pf Cf Crs. unfold cert_ok in H. fold n in H.
  rewrite !andb_true_iff in H. destruct H as [[[Hshape Hst] Hbal] Hsc].
  cbn [negb orb] in Hsc.
  unfold shape_ok in Hshape. rewrite !andb_true_iff in Hshape. destruct Hshape as [[HlT _] Hlp].
  apply Nat.eqb_eq in HlT, Hlp.
  unfold stochastic_ok in Hst. rewrite !andb_true_iff in Hst. destruct Hst as [[[Hp0 Hp1] HT0] HT1].
  split; [exact HlT | split; [exact Hlp | split; [apply qle_abs_spec; exact Hp1 |]]].
  intros i j Hi Hj.
  split; [apply Qle_bool_imp_le; apply (forallb_seq_spec n _ Hp0 i Hi) |].
  split; [apply Qle_bool_imp_le; apply (all2_spec n _ HT0 i j Hi Hj) |].
  split; [apply qle_abs_spec; apply (forallb_seq_spec n _ HT1 i Hi) |].
  split; [apply qle_abs_spec; apply (all2_spec n _ Hbal i j Hi Hj) |].
  apply qle_abs_spec. unfold selfcons_ok in Hsc. apply (all2_spec n _ Hsc i j Hi Hj).
Qed.

(* the quantity the certificate bounds is the residual of the Prinz equation
   x_ij (c_i/x_i + c_j/x_j) = c_ij + c_ji  for  x_ij = pi_i T_ij, x_i = pi_i  (rows of T sum to one),
   whenever detailed balance holds exactly *)
Theorem residual_is_prinz (pi_i pi_j Tij Tji ci cj s : Q) :
  0 < pi_i -> 0 < pi_j -> pi_i * Tij == pi_j * Tji ->
  (pi_i * Tij) * (ci / pi_i + cj / pi_j) - s == Tij * ci + Tji * cj - s.
Proof.
  intros Hi Hj Hdb.
  assert (E1 : (pi_i * Tij) * (ci / pi_i) == Tij * ci) by (field; lra).
  assert (E2 : (pi_i * Tij) * (cj / pi_j) == Tji * cj) by (rewrite Hdb; field; lra).
  rewrite Qmult_plus_distr_r, E1, E2. reflexivity.
Qed.
