(* Proof/MaskedProofs.v -- property C19, part (1): when does the result of a masked element-wise
   operation depend on the initial contents of its output buffer (i.e. on the heap)? *)
From Coq Require Import List Bool Arith Lia QArith.
From EV Require Import Masked.
Import ListNotations.
Local Open Scope nat_scope.

(* ------------------------------------------------------------------ shape and cell semantics *)
Lemma masked_length : forall (A B : Type) (f : A -> B) x m init,
  length m = length x -> length init = length x -> length (masked f x m init) = length x.
Proof.
  intros A B f x; induction x as [|a x IH]; intros m init Hm Hi.
  - reflexivity.
  - destruct m as [|b m]; [discriminate|]. destruct init as [|c init]; [discriminate|].
    cbn [masked length]. f_equal. apply IH; cbn [length] in *; lia.
Qed.

Lemma masked_np_some : forall (A B : Type) (f : A -> B) x m init,
  length m = length x -> length init = length x ->
  masked_np f x m init = Some (masked f x m init).
Proof.
  intros A B f x m init Hm Hi. unfold masked_np, shape_ok.
  rewrite Hm, Hi, Nat.eqb_refl. reflexivity.
Qed.

Lemma masked_np_none : forall (A B : Type) (f : A -> B) x m init,
  (length m <> length x \/ length init <> length x) -> masked_np f x m init = None.
Proof.
  intros A B f x m init H. unfold masked_np, shape_ok.
  destruct (Nat.eqb (length m) (length x)) eqn:E1; destruct (Nat.eqb (length init) (length x)) eqn:E2;
    try reflexivity.
  apply Nat.eqb_eq in E1. apply Nat.eqb_eq in E2. destruct H; contradiction.
Qed.

(* cell i of the result: the ufunc value where the mask is true, the cell of `init` elsewhere *)
Lemma masked_nth_error : forall (A B : Type) (f : A -> B) x m init i a b c,
  nth_error x i = Some a -> nth_error m i = Some b -> nth_error init i = Some c ->
  nth_error (masked f x m init) i = Some (if b then f a else c).
Proof.
  intros A B f x; induction x as [|a0 x IH]; intros m init i a b c Hx Hm Hi.
  - destruct i; discriminate.
  - destruct m as [|b0 m]; [destruct i; discriminate|].
    destruct init as [|c0 init]; [destruct i; discriminate|].
    destruct i as [|i]; cbn [masked nth_error] in *.
    + inversion Hx; inversion Hm; inversion Hi; subst. reflexivity.
    + eapply IH; eassumption.
Qed.

(* ------------------------------------------------------------------ the characterisation *)
(* Two initial buffers give the same result  iff  they agree on every masked-out position. *)
Lemma masked_eq_iff : forall (A B : Type) (f : A -> B) x m j1 j2,
  length m = length x -> length j1 = length x -> length j2 = length x ->
  (masked f x m j1 = masked f x m j2 <-> agree_out m j1 j2).
Proof.
  intros A B f x; induction x as [|a x IH]; intros m j1 j2 Hm H1 H2.
  - destruct m; [|discriminate]. cbn. tauto.
  - destruct m as [|b m]; [discriminate|]. destruct j1 as [|c1 j1]; [discriminate|].
    destruct j2 as [|c2 j2]; [discriminate|].
    cbn [masked agree_out]. cbn [length] in Hm, H1, H2.
    specialize (IH m j1 j2 ltac:(lia) ltac:(lia) ltac:(lia)).
    split.
    + intros E. inversion E as [[E0 E1]]. split.
      * intros Hb. subst b. exact E0.
      * apply IH. exact E1.
    + intros [E0 E1]. f_equal.
      * destruct b; [reflexivity|]. apply E0. reflexivity.
      * apply IH. exact E1.
Qed.

Lemma agree_out_all_in : forall (B : Type) m (j1 j2 : list B),
  all_masked_in m = true -> agree_out m j1 j2.
Proof.
  intros B m; induction m as [|b m IH]; intros j1 j2 H.
  - exact I.
  - destruct j1 as [|c1 j1]; [exact I|]. destruct j2 as [|c2 j2]; [exact I|].
    cbn [all_masked_in forallb] in H. apply andb_true_iff in H. destruct H as [Hb Hr].
    cbn [agree_out]. split.
    + intros Hf. rewrite Hf in Hb. discriminate.
    + apply IH. exact Hr.
Qed.

Lemma agree_out_const_inv : forall (B : Type) (b0 b1 : B) m,
  b0 <> b1 -> agree_out m (repeat b0 (length m)) (repeat b1 (length m)) -> all_masked_in m = true.
Proof.
  intros B b0 b1 m Hne; induction m as [|b m IH]; intros H.
  - reflexivity.
  - cbn [length repeat agree_out] in H. destruct H as [H0 H1].
    cbn [all_masked_in forallb]. apply andb_true_iff. split.
    + destruct b; [reflexivity|]. exfalso. apply Hne. apply H0. reflexivity.
    + apply IH. exact H1.
Qed.

(* masked_init_irrelevant_iff.  For a carrier with at least two values and well-shaped operands:
   the result of  ufunc(x, where=m, out=init)  is the same for ALL initial buffer contents
   if and only if EVERY position is masked in (the mask is all-True).  Hence a masked call with a
   mask that can be False somewhere and no initialised out= reads the heap. *)
Lemma masked_init_irrelevant_iff : forall (A B : Type) (f : A -> B) (b0 b1 : B) x m,
  b0 <> b1 -> length m = length x ->
  ((forall junk1 junk2, length junk1 = length x -> length junk2 = length x ->
      masked f x m junk1 = masked f x m junk2)
   <-> all_masked_in m = true).
Proof.
  intros A B f b0 b1 x m Hne Hm. split.
  - intros H. apply (agree_out_const_inv _ b0 b1 m Hne).
    rewrite Hm.
    apply (proj1 (masked_eq_iff _ _ f x m (repeat b0 (length x)) (repeat b1 (length x)) Hm
                                (repeat_length _ _) (repeat_length _ _))).
    apply H; apply repeat_length.
  - intros Hall j1 j2 H1 H2. apply (proj2 (masked_eq_iff _ _ f x m j1 j2 Hm H1 H2)).
    apply agree_out_all_in. exact Hall.
Qed.

(* position-wise reading: a masked-out cell of the result IS the cell of the initial buffer *)
Lemma masked_out_cell_is_init : forall (A B : Type) (f : A -> B) x m init i a c,
  nth_error x i = Some a -> nth_error m i = Some false -> nth_error init i = Some c ->
  nth_error (masked f x m init) i = Some c.
Proof. intros. erewrite masked_nth_error by eassumption. reflexivity. Qed.

Lemma masked_in_cell_is_value : forall (A B : Type) (f : A -> B) x m init i a c,
  nth_error x i = Some a -> nth_error m i = Some true -> nth_error init i = Some c ->
  nth_error (masked f x m init) i = Some (f a).
Proof. intros. erewrite masked_nth_error by eassumption. reflexivity. Qed.

(* ------------------------------------------------------------------ the guarded form *)
(* out= an initialised buffer: the call does not mention the heap at all ... *)
Lemma masked_filled_heap_independent : forall (A B : Type) (f : A -> B) (v : B) x m
  (junk1 junk2 : list B),
  (fun _ : list B => masked f x m (filled v (length x))) junk1 =
  (fun _ : list B => masked f x m (filled v (length x))) junk2.
Proof. reflexivity. Qed.

Lemma nth_error_filled : forall (B : Type) (v : B) n i, i < n -> nth_error (filled v n) i = Some v.
Proof.
  intros B v n; induction n as [|n IH]; intros i Hi; [lia|].
  destruct i as [|i]; cbn [filled repeat nth_error]; [reflexivity|]. apply IH. lia.
Qed.

(* ... and every masked-out cell holds the fill value (0 for np.zeros) *)
Lemma masked_filled_out_cell : forall (A B : Type) (f : A -> B) (v : B) x m i,
  i < length x -> nth_error m i = Some false ->
  nth_error (masked f x m (filled v (length x))) i = Some v.
Proof.
  intros A B f v x m i Hi Hm.
  destruct (nth_error x i) as [a|] eqn:Ex.
  - eapply masked_out_cell_is_init; [exact Ex|exact Hm|]. apply nth_error_filled. exact Hi.
  - apply nth_error_None in Ex. lia.
Qed.

(* whatever is computed downstream of a heap-independent array is heap-independent *)
Lemma downstream_heap_independent : forall (J R C : Type) (site : J -> R) (g : R -> C),
  (forall j1 j2, site j1 = site j2) -> forall j1 j2, g (site j1) = g (site j2).
Proof. intros J R C site g H j1 j2. rewrite (H j1 j2). reflexivity. Qed.

(* ------------------------------------------------------------------ the unguarded form *)
(* Generic witness: one masked-out position is enough. *)
Lemma masked_unguarded_refuted : forall (A B : Type) (f : A -> B) (a : A) (b0 b1 : B),
  b0 <> b1 ->
  exists x m junk1 junk2,
    length m = length x /\ length junk1 = length x /\ length junk2 = length x /\
    masked f x m junk1 <> masked f x m junk2.
Proof.
  intros A B f a b0 b1 Hne. exists [a], [false], [b0], [b1].
  repeat split; try reflexivity. cbn [masked]. intros E. inversion E. contradiction.
Qed.

(* D14 as found in shannon_entropy before cdbea8d:  log_p = np.log(p, where=p > 0) without out=.
   p = [1/2; 0; 1/2]; a recycled block holding NaN makes H = NaN, a zeroed block gives the entropy.
   `lg` is any function finite at 1/2 (the real logarithm is). *)
Lemma entropy_unguarded_refuted : forall lg : fl -> fl,
  fl_finite (lg (Fin (1#2))) ->
  exists p junk1 junk2,
    length junk1 = length p /\ length junk2 = length p /\
    fl_finite (entropy_with lg p junk1) /\ entropy_with lg p junk2 = NaN /\
    entropy_with lg p junk1 <> entropy_with lg p junk2.
Proof.
  intros lg Hfin.
  exists [Fin (1#2); Fin 0; Fin (1#2)], [Fin 0; Fin 0; Fin 0], [NaN; NaN; NaN].
  unfold entropy_with. cbn [map fl_pos masked map2 length].
  replace (negb (Qle_bool (1#2) 0)) with true by reflexivity.
  replace (negb (Qle_bool 0 0)) with false by reflexivity.
  cbn [masked map2].
  destruct (lg (Fin (1#2))) as [q|] eqn:E; [|destruct Hfin].
  cbn [fl_mul fl_sum fold_right fl_add fl_neg fl_finite].
  repeat split; try reflexivity. discriminate.
Qed.

Lemma fl_sum_finite : forall l, Forall fl_finite l -> fl_finite (fl_sum l).
Proof.
  intros l H; induction H as [|a l Ha _ IH]; cbn [fl_sum fold_right].
  - exact I.
  - fold (fl_sum l). destruct a as [x|]; [|destruct Ha].
    destruct (fl_sum l) as [y|]; [exact I|destruct IH].
Qed.

Lemma fl_pos_Fin : forall q, fl_pos (Fin q) = true -> (0 < q)%Q.
Proof.
  intros q H. cbn [fl_pos] in H. apply negb_true_iff in H.
  destruct (Qlt_le_dec 0 q) as [L|L]; [exact L|].
  apply Qle_bool_iff in L. rewrite L in H. discriminate.
Qed.

Lemma entropy_terms_finite : forall (lg : fl -> fl) p n,
  (forall q, (0 < q)%Q -> fl_finite (lg (Fin q))) -> Forall fl_finite p -> length p <= n ->
  Forall fl_finite (map2 fl_mul p (masked lg p (map fl_pos p) (filled (Fin 0) n))).
Proof.
  intros lg p; induction p as [|a p IH]; intros n Hlg Hp Hn.
  - constructor.
  - destruct n as [|n]; [cbn [length] in Hn; lia|].
    inversion Hp as [|a' p' Ha Hp']; subst.
    cbn [map masked filled repeat map2]. constructor.
    + destruct a as [q|]; [|destruct Ha].
      destruct (fl_pos (Fin q)) eqn:E.
      * apply fl_pos_Fin in E. specialize (Hlg q E). destruct (lg (Fin q)); [exact I|destruct Hlg].
      * exact I.
    + apply IH; [exact Hlg|exact Hp'|cbn [length] in Hn; lia].
Qed.

(* the repaired shannon_entropy never manufactures a NaN out of finite probabilities *)
Lemma entropy_guarded_finite : forall (lg : fl -> fl) p,
  (forall q, (0 < q)%Q -> fl_finite (lg (Fin q))) -> Forall fl_finite p ->
  fl_finite (entropy_guarded lg p).
Proof.
  intros lg p Hlg Hp. unfold entropy_guarded, entropy_with.
  assert (H : fl_finite (fl_sum (map2 fl_mul p (masked lg p (map fl_pos p) (filled (Fin 0) (length p)))))).
  { apply fl_sum_finite. apply entropy_terms_finite; [exact Hlg|exact Hp|lia]. }
  destruct (fl_sum _); [exact I|destruct H].
Qed.

(* D14 as found in mutual_information: P = np.divide(n, tot, where=tot > 0) without out=, then
   `assert np.all(~np.isnan(P))`: with a never-observed feature pair (tot = 0) the routine's own
   assertion fails on a recycled NaN block and passes on a zeroed one. *)
Lemma probs_unguarded_refuted :
  exists n tot junk1 junk2,
    length junk1 = length n /\ length junk2 = length n /\
    assert_no_nan (probs_with n tot junk1) = true /\ assert_no_nan (probs_with n tot junk2) = false.
Proof.
  exists [Fin 3; Fin 0], [Fin 4; Fin 0], [Fin 0; Fin 0], [NaN; NaN].
  repeat split; reflexivity.
Qed.

Lemma probs_cells_no_nan : forall n tot k,
  Forall fl_finite n -> Forall fl_finite tot -> length (combine n tot) <= k ->
  assert_no_nan (masked2 fl_div n tot (map fl_pos tot) (filled (Fin 0) k)) = true.
Proof.
  intros n; induction n as [|a n IH]; intros tot k Hn Ht Hk.
  - reflexivity.
  - destruct tot as [|t tot]; [reflexivity|].
    destruct k as [|k]; [cbn [combine length] in Hk; lia|].
    inversion Hn as [|a' n' Ha Hn']; subst. inversion Ht as [|t' tot' Ht0 Ht']; subst.
    unfold masked2. cbn [combine map masked filled repeat assert_no_nan forallb].
    apply andb_true_iff. split.
    + destruct t as [y|]; [|destruct Ht0]. destruct a as [x|]; [|destruct Ha].
      destruct (fl_pos (Fin y)) eqn:E; [|reflexivity].
      cbn [fst snd fl_div]. apply fl_pos_Fin in E.
      destruct (Qeq_bool y 0) eqn:Z; [|reflexivity].
      apply Qeq_bool_iff in Z. rewrite Z in E. exfalso. apply (Qlt_irrefl 0). exact E.
    + apply (IH tot k Hn' Ht'). cbn [combine length] in Hk. lia.
Qed.

(* the repaired mutual_information: its isnan assertions hold for all finite count tables *)
Lemma probs_guarded_no_nan : forall n tot,
  Forall fl_finite n -> Forall fl_finite tot -> assert_no_nan (probs_guarded n tot) = true.
Proof.
  intros n tot Hn Ht. unfold probs_guarded, probs_with.
  apply probs_cells_no_nan; [exact Hn|exact Ht|lia].
Qed.
