(* C11 proofs, part 1: tables, Warshall closure = reflexive-transitive closure of the edge relation. *)
From Coq Require Import List ZArith Bool Arith Lia Permutation Sorted.
From EV Require Import Trim.
Import ListNotations.

(* ------------------------------------------------------------------ tables *)
Lemma nth_map_seq : forall {A} (f : nat -> A) n i d, i < n -> nth i (map f (seq 0 n)) d = f i.
Proof.
  intros A f n i d Hi.
  rewrite (nth_indep _ d (f 0)) by (rewrite map_length, seq_length; exact Hi).
  rewrite map_nth. rewrite seq_nth by exact Hi. reflexivity.
Qed.

Lemma nth_tabulate : forall {A} (f : nat -> nat -> A) n i j d,
  i < n -> j < n -> nth j (nth i (tabulate n f) []) d = f i j.
Proof.
  intros A f n i j d Hi Hj. unfold tabulate.
  rewrite nth_map_seq by exact Hi. apply nth_map_seq. exact Hj.
Qed.

Lemma nth_tabulate_oob : forall {A} (f : nat -> nat -> A) n i j d,
  ~ (i < n /\ j < n) -> nth j (nth i (tabulate n f) []) d = d.
Proof.
  intros A f n i j d H. unfold tabulate.
  destruct (lt_dec i n) as [Hi|Hi].
  - rewrite nth_map_seq by exact Hi. apply nth_overflow. rewrite map_length, seq_length. lia.
  - rewrite (nth_overflow (map _ _)) by (rewrite map_length, seq_length; lia).
    destruct j; reflexivity.
Qed.

Lemma tabulate_length : forall {A} (f : nat -> nat -> A) n, length (tabulate n f) = n.
Proof. intros. unfold tabulate. now rewrite map_length, seq_length. Qed.

Lemma bget_tabulate : forall f n i j, i < n -> j < n -> bget (tabulate n f) i j = f i j.
Proof. intros. unfold bget. now apply nth_tabulate. Qed.

Lemma bget_tabulate_oob : forall f n i j, ~ (i < n /\ j < n) -> bget (tabulate n f) i j = false.
Proof. intros. unfold bget. now apply nth_tabulate_oob. Qed.

(* ------------------------------------------------------------------ closure *)
Inductive path (E : nat -> nat -> bool) : nat -> nat -> Prop :=
| path_refl : forall i, path E i i
| path_step : forall i m j, E i m = true -> path E m j -> path E i j.

Lemma path_trans : forall E i m j, path E i m -> path E m j -> path E i j.
Proof.
  intros E i m j H1 H2. induction H1 as [i|i k m He _ IH].
  - exact H2.
  - eapply path_step; [exact He | exact (IH H2)].
Qed.

Lemma path_edge : forall E i j, E i j = true -> path E i j.
Proof. intros E i j He. eapply path_step; [exact He | apply path_refl]. Qed.

Section Closure.
  Variable n : nat.
  Variable E : nat -> nat -> bool.
  Hypothesis E_bnd : forall i j, E i j = true -> i < n /\ j < n.

  Fixpoint clo (k i j : nat) : bool :=
    match k with
    | 0 => (i =? j) || E i j
    | S k' => clo k' i j || (clo k' i k' && clo k' k' j)
    end.

  Lemma warshall_clo : forall k i j, k <= n -> i < n -> j < n ->
    bget (warshall n E k) i j = clo k i j.
  Proof.
    induction k as [|k IH]; intros i j Hk Hi Hj; cbn [warshall clo].
    - now rewrite bget_tabulate.
    - rewrite bget_tabulate by assumption.
      rewrite !IH by lia. reflexivity.
  Qed.

  Lemma warshall_oob : forall k i j, ~ (i < n /\ j < n) -> bget (warshall n E k) i j = false.
  Proof. intros [|k] i j H; cbn [warshall]; now apply bget_tabulate_oob. Qed.

  Lemma clo_sound : forall k i j, clo k i j = true -> path E i j.
  Proof.
    induction k as [|k IH]; intros i j H; cbn [clo] in H.
    - apply orb_true_iff in H. destruct H as [H|H].
      + apply Nat.eqb_eq in H. subst. apply path_refl.
      + now apply path_edge.
    - apply orb_true_iff in H. destruct H as [H|H].
      + now apply IH.
      + apply andb_true_iff in H. destruct H as [H1 H2].
        eapply path_trans; [apply IH; exact H1 | apply IH; exact H2].
  Qed.

  Lemma clo_mono : forall k k' i j, k <= k' -> clo k i j = true -> clo k' i j = true.
  Proof.
    intros k k' i j Hle H. induction Hle as [|k' _ IH].
    - exact H.
    - cbn [clo]. rewrite IH. reflexivity.
  Qed.

  (* composition through a midpoint that is already allowed as an intermediate state *)
  Lemma clo_trans : forall k i m j, m < k -> clo k i m = true -> clo k m j = true -> clo k i j = true.
  Proof.
    induction k as [|k IH]; intros i m j Hm H1 H2.
    - lia.
    - cbn [clo] in *.
      apply orb_true_iff in H1. apply orb_true_iff in H2. apply orb_true_iff.
      destruct (Nat.eq_dec m k) as [->|Hne].
      + right.
        assert (A : clo k i k = true).
        { destruct H1 as [H1|H1]; [exact H1|]. apply andb_true_iff in H1. tauto. }
        assert (B : clo k k j = true).
        { destruct H2 as [H2|H2]; [exact H2|]. apply andb_true_iff in H2. tauto. }
        now rewrite A, B.
      + assert (Hm' : m < k) by lia.
        destruct H1 as [H1|H1]; destruct H2 as [H2|H2].
        * left. now apply (IH i m j).
        * right. apply andb_true_iff in H2. destruct H2 as [H2 H3].
          rewrite (IH i m k Hm' H1 H2), H3. reflexivity.
        * right. apply andb_true_iff in H1. destruct H1 as [H0 H1].
          rewrite H0, (IH k m j Hm' H1 H2). reflexivity.
        * right. apply andb_true_iff in H1. apply andb_true_iff in H2.
          destruct H1 as [H0 _]. destruct H2 as [_ H3]. now rewrite H0, H3.
  Qed.

  Lemma path_bound : forall i j, path E i j -> i < n -> j < n.
  Proof.
    intros i j H. induction H as [i|i m j He _ IH]; intro Hi.
    - exact Hi.
    - apply IH. now destruct (E_bnd _ _ He).
  Qed.

  Lemma clo_complete : forall i j, path E i j -> i < n -> clo n i j = true.
  Proof.
    intros i j H. induction H as [i|i m j He Hp IH]; intro Hi.
    - apply (clo_mono 0); [lia|]. cbn [clo]. now rewrite Nat.eqb_refl.
    - destruct (E_bnd _ _ He) as [_ Hm].
      apply (clo_trans n i m j Hm).
      + apply (clo_mono 0); [lia|]. cbn [clo]. rewrite He. apply orb_true_r.
      + now apply IH.
  Qed.

  Theorem warshall_correct : forall i j,
    bget (warshall n E n) i j = true <-> i < n /\ path E i j.
  Proof.
    intros i j. split.
    - intro H. destruct (lt_dec i n) as [Hi|Hi]; [destruct (lt_dec j n) as [Hj|Hj]|].
      + split; [exact Hi|]. rewrite warshall_clo in H by (assumption || lia). now apply clo_sound in H.
      + rewrite warshall_oob in H by lia. discriminate.
      + rewrite warshall_oob in H by lia. discriminate.
    - intros [Hi Hp]. pose proof (path_bound _ _ Hp Hi) as Hj.
      rewrite warshall_clo by (assumption || lia). now apply clo_complete.
  Qed.
End Closure.

Lemma edge_bnd : forall thr C i j, edge thr C i j = true -> i < length C /\ j < length C.
Proof.
  intros thr C i j H. unfold edge in H.
  repeat (apply andb_true_iff in H; destruct H as [H ?]).
  apply Nat.ltb_lt in H. apply Nat.ltb_lt in H2. now split.
Qed.

(* reach_correct: the computed closure is the inductive path relation of the thresholded graph *)
Theorem reach_correct : forall thr C i j,
  reach thr C i j = true <-> i < length C /\ path (edge thr C) i j.
Proof. intros. unfold reach, reach_mat. apply warshall_correct. apply edge_bnd. Qed.

(* an edge is exactly a non-zero count at or above the threshold between two existing states *)
Lemma edge_spec : forall thr C i j,
  edge thr C i j = true <->
  i < length C /\ j < length C /\ (thr <= entry C i j)%Z /\ entry C i j <> 0%Z.
Proof.
  intros. unfold edge. rewrite !andb_true_iff, negb_true_iff, !Nat.ltb_lt, Z.leb_le, Z.eqb_neq. tauto.
Qed.

(* ------------------------------------------------------------------ components *)
Definition mutual (thr : Z) (C : mat) (i j : nat) : Prop :=
  path (edge thr C) i j /\ path (edge thr C) j i.

Lemma mutual_refl : forall thr C i, mutual thr C i i.
Proof. intros. split; apply path_refl. Qed.
Lemma mutual_sym : forall thr C i j, mutual thr C i j -> mutual thr C j i.
Proof. intros thr C i j [A B]. now split. Qed.
Lemma mutual_trans : forall thr C i j k, mutual thr C i j -> mutual thr C j k -> mutual thr C i k.
Proof. intros thr C i j k [A B] [A' B']. split; eapply path_trans; eassumption. Qed.

Definition comp (thr : Z) (C : mat) (i : nat) : list nat := comp_of (reach_mat thr C) (length C) i.

Lemma in_comp : forall thr C i j,
  In j (comp thr C i) <-> i < length C /\ j < length C /\ mutual thr C i j.
Proof.
  intros thr C i j. unfold comp, comp_of. rewrite filter_In, in_seq, andb_true_iff.
  fold (reach thr C i j). fold (reach thr C j i). rewrite !reach_correct. unfold mutual.
  split.
  - intros [Hj [[Hi A] [_ B]]]. repeat split; (lia || assumption).
  - intros [Hi [Hj [A B]]]. repeat split; (lia || assumption).
Qed.

Lemma comp_self : forall thr C i, i < length C -> In i (comp thr C i).
Proof. intros. apply in_comp. repeat split; try assumption; apply path_refl. Qed.

Lemma seq_ssorted : forall n a, StronglySorted lt (seq a n).
Proof.
  induction n as [|n IH]; intro a; cbn [seq].
  - constructor.
  - constructor; [apply IH|]. apply Forall_forall. intros x Hx. apply in_seq in Hx. lia.
Qed.

Lemma filter_ssorted : forall {A} (R : A -> A -> Prop) p l,
  StronglySorted R l -> StronglySorted R (filter p l).
Proof.
  intros A R p l H. induction H as [|a l Hs IH Hf]; cbn [filter].
  - constructor.
  - destruct (p a); [|exact IH]. constructor; [exact IH|].
    apply Forall_forall. intros x Hx. apply filter_In in Hx. destruct Hx as [Hx _].
    rewrite Forall_forall in Hf. now apply Hf.
Qed.

Lemma ssorted_lt_nodup : forall l, StronglySorted lt l -> NoDup l.
Proof.
  intros l H. induction H as [|a l _ IH Hf].
  - constructor.
  - constructor; [|exact IH]. intro Hin. rewrite Forall_forall in Hf. specialize (Hf _ Hin). lia.
Qed.

Lemma ssorted_lt_nth : forall l, StronglySorted lt l ->
  forall a b, a < b -> b < length l -> nth a l 0 < nth b l 0.
Proof.
  intros l H. induction H as [|x l _ IH Hf]; intros a b Hab Hb; cbn [length] in Hb.
  - lia.
  - destruct b as [|b]; [lia|]. destruct a as [|a]; cbn [nth].
    + rewrite Forall_forall in Hf. apply Hf. apply nth_In. lia.
    + apply IH; lia.
Qed.

Lemma comp_ssorted : forall thr C i, StronglySorted lt (comp thr C i).
Proof. intros. unfold comp, comp_of. apply filter_ssorted, seq_ssorted. Qed.

Lemma comp_nodup : forall thr C i, NoDup (comp thr C i).
Proof. intros. apply ssorted_lt_nodup, comp_ssorted. Qed.

(* two mutually reachable states have literally the same component list *)
Lemma comp_eq : forall thr C i i', i < length C -> i' < length C ->
  mutual thr C i i' -> comp thr C i = comp thr C i'.
Proof.
  intros thr C i i' Hi Hi' Hm. unfold comp, comp_of. apply filter_ext_in. intros j Hj.
  apply in_seq in Hj.
  fold (reach thr C i j) (reach thr C j i) (reach thr C i' j) (reach thr C j i').
  apply eq_true_iff_eq. rewrite !andb_true_iff, !reach_correct.
  destruct Hm as [A B]. split; intros [[_ P] [_ Q]]; (split; split; try lia).
  - eapply path_trans; eassumption.
  - eapply path_trans; eassumption.
  - eapply path_trans; eassumption.
  - eapply path_trans; eassumption.
Qed.

(* ------------------------------------------------------------------ weights, arg-max *)
Lemma weight_perm : forall C S S', Permutation S S' -> weight C S = weight C S'.
Proof.
  intros C S S' H. induction H as [|x l l' _ IH|x y l|l l' l'' _ IH1 _ IH2]; cbn [weight fold_right].
  - reflexivity.
  - fold (weight C l). fold (weight C l'). now rewrite IH.
  - lia.
  - now rewrite IH1.
Qed.

Lemma best_fold : forall (w : nat -> Z) l b0,
  let r := fold_left (fun b i => if (w b <? w i)%Z then i else b) l b0 in
  (w b0 <= w r)%Z /\ (forall i, In i l -> (w i <= w r)%Z) /\ (r = b0 \/ In r l).
Proof.
  intros w l. induction l as [|x l IH]; intros b0; cbn [fold_left].
  - repeat split; [lia | intros i [] | now left].
  - cbv zeta in IH.
    destruct (Z.ltb_spec (w b0) (w x)) as [Hlt|Hge].
    + destruct (IH x) as [A [B D]]. repeat split.
      * lia.
      * intros i [->|Hi]; [exact A | now apply B].
      * destruct D as [->|D]; right; [now left | now right].
    + destruct (IH b0) as [A [B D]]. repeat split.
      * exact A.
      * intros i [->|Hi]; [lia | now apply B].
      * destruct D as [D|D]; [now left | right; now right].
Qed.

Lemma best_spec : forall w n, 0 < n ->
  best w n < n /\ forall i, i < n -> (w i <= w (best w n))%Z.
Proof.
  intros w n Hn. unfold best.
  destruct (best_fold w (seq 0 n) 0) as [A [B D]]. split.
  - destruct D as [->|D]; [exact Hn|]. apply in_seq in D. lia.
  - intros i Hi. apply B. apply in_seq. lia.
Qed.

(* np.argmax returns the FIRST maximum: every earlier representative is strictly lighter *)
Lemma best_fold_first : forall (w : nat -> Z) l b0,
  let r := fold_left (fun b i => if (w b <? w i)%Z then i else b) l b0 in
  r = b0 \/ exists l1 l2, l = l1 ++ r :: l2 /\ (w b0 < w r)%Z /\ forall i, In i l1 -> (w i < w r)%Z.
Proof.
  intros w l. induction l as [|x l IH]; intros b0; cbn [fold_left].
  - now left.
  - cbv zeta in IH.
    destruct (Z.ltb_spec (w b0) (w x)) as [Hlt|Hge].
    + destruct (IH x) as [->|[l1 [l2 [El [Hw Hl]]]]].
      * right. exists [], l. repeat split; [exact Hlt | intros i []].
      * right. exists (x :: l1), l2. split; [cbn [app]; f_equal; exact El|]. split; [lia|].
        intros i [->|Hi]; [exact Hw | now apply Hl].
    + destruct (IH b0) as [->|[l1 [l2 [El [Hw Hl]]]]].
      * now left.
      * right. exists (x :: l1), l2. split; [cbn [app]; f_equal; exact El|]. split; [exact Hw|].
        intros i [->|Hi]; [lia | now apply Hl].
Qed.

Lemma best_first : forall w n i, i < best w n -> (w i < w (best w n))%Z.
Proof.
  intros w n i Hi. unfold best in *.
  destruct (best_fold_first w (seq 0 n) 0) as [E0|[l1 [l2 [El [Hw Hl]]]]].
  - rewrite E0 in Hi. lia.
  - set (r := fold_left _ _ _) in *.
    destruct (Nat.eq_dec i 0) as [->|Hne]; [exact Hw|].
    apply Hl.
    (* i < r and both lie in seq 0 n = l1 ++ r :: l2, which is sorted *)
    assert (Hin : In i (seq 0 n)).
    { apply in_seq. assert (In r (seq 0 n)) by (rewrite El; apply in_elt).
      apply in_seq in H. lia. }
    rewrite El in Hin. apply in_app_or in Hin. destruct Hin as [Hin|[Hin|Hin]].
    + exact Hin.
    + lia.
    + exfalso. pose proof (seq_ssorted n 0) as Hs. rewrite El in Hs.
      clear - Hs Hin Hi. induction l1 as [|y l1 IH]; cbn [app] in Hs.
      * inversion Hs as [|? ? _ Hf]; subst. rewrite Forall_forall in Hf. specialize (Hf _ Hin). lia.
      * inversion Hs; subst. now apply IH.
Qed.

(* ------------------------------------------------------------------ the kept set *)
Lemma keep_states_comp : forall thr C,
  keep_states thr C = comp thr C (best (fun i => weight C (comp thr C i)) (length C)).
Proof. reflexivity. Qed.

(* keep_is_scc: the kept states are exactly one strongly connected component: everything mutually
   reachable with some kept state s, and nothing else *)
Theorem keep_is_scc : forall thr C, 0 < length C ->
  exists s, s < length C /\ In s (keep_states thr C) /\
    forall j, In j (keep_states thr C) <-> j < length C /\ mutual thr C s j.
Proof.
  intros thr C Hn. rewrite keep_states_comp.
  set (w := fun i => weight C (comp thr C i)).
  destruct (best_spec w (length C) Hn) as [Hb _].
  exists (best w (length C)). split; [exact Hb|]. split; [now apply comp_self|].
  intro j. rewrite in_comp. tauto.
Qed.

(* any duplicate-free enumeration of the component of i weighs what the model's list weighs *)
Lemma weight_of_component : forall thr C i S, i < length C -> NoDup S ->
  (forall j, In j S <-> j < length C /\ mutual thr C i j) ->
  weight C S = weight C (comp thr C i).
Proof.
  intros thr C i S Hi Hnd HS. apply weight_perm. apply NoDup_Permutation.
  - exact Hnd.
  - apply comp_nodup.
  - intro j. rewrite HS, in_comp. tauto.
Qed.

(* keep_heaviest: no strongly connected component carries more total (original) count *)
Theorem keep_heaviest : forall thr C i S, i < length C -> NoDup S ->
  (forall j, In j S <-> j < length C /\ mutual thr C i j) ->
  (weight C S <= weight C (keep_states thr C))%Z.
Proof.
  intros thr C i S Hi Hnd HS.
  rewrite (weight_of_component thr C i S Hi Hnd HS), keep_states_comp.
  set (w := fun i => weight C (comp thr C i)).
  assert (Hn : 0 < length C) by lia.
  destruct (best_spec w (length C) Hn) as [_ Hmax]. exact (Hmax i Hi).
Qed.

Lemma nl_eqb_eq : forall a b, nl_eqb a b = true <-> a = b.
Proof.
  induction a as [|x a IH]; intros [|y b]; cbn [nl_eqb]; split; intro H;
    try reflexivity; try discriminate.
  - apply andb_true_iff in H. destruct H as [H1 H2]. apply Nat.eqb_eq in H1. apply IH in H2. now subst.
  - inversion H; subst. rewrite Nat.eqb_refl. now apply IH.
Qed.

(* what the correspondence check accepts when weights tie: some component of maximum weight *)
Theorem acceptable_keep_spec : forall thr C ks,
  acceptable_keep thr C ks = true <->
  exists s, s < length C /\ ks = comp thr C s /\
            forall i, i < length C -> (weight C (comp thr C i) <= weight C ks)%Z.
Proof.
  intros thr C ks. unfold acceptable_keep. split.
  - destruct ks as [|s ks']; [discriminate|].
    fold (comp thr C s).
    rewrite !andb_true_iff, Nat.ltb_lt, nl_eqb_eq, forallb_forall.
    intros [[Hs He] Hw]. exists s. repeat split; try assumption.
    intros i Hi. apply Z.leb_le. apply (Hw i). apply in_seq. lia.
  - intros [s [Hs [He Hw]]].
    assert (Hin : In s ks) by (rewrite He; now apply comp_self).
    destruct ks as [|s' ks']; [destruct Hin|].
    assert (Hs' : In s' (comp thr C s)) by (rewrite <- He; now left).
    apply in_comp in Hs'. destruct Hs' as [_ [Hs'n Hm]].
    fold (comp thr C s').
    rewrite !andb_true_iff, Nat.ltb_lt, nl_eqb_eq, forallb_forall. repeat split.
    + exact Hs'n.
    + rewrite He. now apply comp_eq.
    + intros i Hi. apply in_seq in Hi. apply Z.leb_le.
      change (weight C (comp thr C i) <= weight C (s' :: ks'))%Z. apply Hw. lia.
Qed.

Theorem keep_acceptable : forall thr C, 0 < length C -> acceptable_keep thr C (keep_states thr C) = true.
Proof.
  intros thr C Hn. apply acceptable_keep_spec. rewrite keep_states_comp.
  set (w := fun i => weight C (comp thr C i)).
  destruct (best_spec w (length C) Hn) as [Hb Hmax].
  exists (best w (length C)). repeat split; [exact Hb | exact Hmax].
Qed.

(* if the maximum weight is attained by one component only, "acceptable" means "the model's" *)
Theorem acceptable_unique : forall thr C ks, acceptable_keep thr C ks = true ->
  (forall i, i < length C -> ~ In i (keep_states thr C) ->
             (weight C (comp thr C i) < weight C (keep_states thr C))%Z) ->
  ks = keep_states thr C.
Proof.
  intros thr C ks Hacc Huniq. apply acceptable_keep_spec in Hacc.
  destruct Hacc as [s [Hs [He Hw]]]. subst ks.
  assert (Hn : 0 < length C) by lia.
  pose proof (keep_states_comp thr C) as Hk.
  set (w := fun i => weight C (comp thr C i)) in *.
  destruct (best_spec w (length C) Hn) as [Hb _].
  set (b := best w (length C)) in *.
  destruct (in_dec Nat.eq_dec s (keep_states thr C)) as [Hin|Hnin].
  - rewrite Hk in Hin. apply in_comp in Hin. destruct Hin as [_ [_ Hm]].
    rewrite Hk. symmetry. now apply comp_eq.
  - specialize (Huniq s Hs Hnin). specialize (Hw b Hb). rewrite <- Hk in Hw. lia.
Qed.

(* ------------------------------------------------------------------ paths stay inside a component *)
Inductive path_in (P : nat -> Prop) (E : nat -> nat -> bool) : nat -> nat -> Prop :=
| pin_refl : forall i, P i -> path_in P E i i
| pin_step : forall i m j, P i -> E i m = true -> path_in P E m j -> path_in P E i j.

Lemma path_in_path : forall P E i j, path_in P E i j -> path E i j.
Proof.
  intros P E i j H. induction H as [i _|i m j _ He _ IH]; [apply path_refl|].
  eapply path_step; eassumption.
Qed.

Lemma path_inside_component : forall thr C s i j,
  path (edge thr C) i j -> mutual thr C s i -> mutual thr C s j ->
  path_in (fun x => mutual thr C s x) (edge thr C) i j.
Proof.
  intros thr C s i j H. induction H as [i|i m j He Hp IH]; intros Hi Hj.
  - now apply pin_refl.
  - apply (pin_step _ _ i m j Hi He). apply IH; [|exact Hj].
    destruct Hi as [Hsi His]. destruct Hj as [Hsj Hjs]. split.
    + eapply path_trans; [exact Hsi | now apply path_edge].
    + eapply path_trans; [exact Hp | exact Hjs].
Qed.

(* relabelling: a path inside a duplicate-free id list, seen through the positions of the ids *)
Lemma path_in_relabel : forall (ks : list nat) (E E' : nat -> nat -> bool),
  NoDup ks ->
  (forall a b, a < length ks -> b < length ks -> E' a b = E (nth a ks 0) (nth b ks 0)) ->
  forall i j, path_in (fun x => In x ks) E i j ->
  forall a b, a < length ks -> b < length ks -> nth a ks 0 = i -> nth b ks 0 = j -> path E' a b.
Proof.
  intros ks E E' Hnd HE i j H. induction H as [i Hi|i m j Hi He Hp IH]; intros a b Ha Hb Ea Eb.
  - assert (a = b) by (apply (NoDup_nth ks 0); try assumption; congruence). subst. apply path_refl.
  - assert (Hm : In m ks) by (inversion Hp; assumption).
    destruct (In_nth ks m 0 Hm) as [c [Hc Ec]].
    apply (path_step E' a c b).
    + rewrite HE by assumption. now rewrite Ea, Ec.
    + now apply IH.
Qed.

Lemma path_in_sub : forall (P : nat -> Prop) (E E' : nat -> nat -> bool),
  (forall x y, P x -> P y -> E x y = true -> E' x y = true) ->
  forall i j, path_in P E i j -> path E' i j.
Proof.
  intros P E E' HE i j H. induction H as [i _|i m j Hi He Hp IH]; [apply path_refl|].
  apply (path_step E' i m j); [|exact IH].
  apply HE; [exact Hi | inversion Hp; assumption | exact He].
Qed.

Lemma path_in_weaken : forall (P Q : nat -> Prop) E, (forall x, P x -> Q x) ->
  forall i j, path_in P E i j -> path_in Q E i j.
Proof.
  intros P Q E HPQ i j H. induction H as [i Hi|i m j Hi He _ IH].
  - apply pin_refl. now apply HPQ.
  - eapply pin_step; [now apply HPQ | exact He | exact IH].
Qed.

(* ------------------------------------------------------------------ the two output matrices *)
Lemma nth_map_in : forall {A B} (f : A -> B) (l : list A) k dA dB,
  k < length l -> nth k (map f l) dB = f (nth k l dA).
Proof.
  intros A B f l k dA dB Hk.
  rewrite (nth_indep _ dB (f dA)) by (now rewrite map_length). apply map_nth.
Qed.

Lemma entry_submat : forall C ks a b, a < length ks -> b < length ks ->
  entry (submat C ks) a b = entry C (nth a ks 0) (nth b ks 0).
Proof.
  intros C ks a b Ha Hb. unfold entry at 1, submat.
  rewrite (nth_map_in _ ks a 0 []) by exact Ha.
  now rewrite (nth_map_in _ ks b 0 0%Z) by exact Hb.
Qed.

Lemma submat_length : forall C ks, length (submat C ks) = length ks.
Proof. intros. unfold submat. apply map_length. Qed.

Lemma submat_rows : forall C ks row, In row (submat C ks) -> length row = length ks.
Proof.
  intros C ks row H. unfold submat in H. apply in_map_iff in H. destruct H as [i [<- _]].
  apply map_length.
Qed.

Lemma memb_In : forall i ks, memb i ks = true <-> In i ks.
Proof.
  intros. unfold memb. rewrite existsb_exists. split.
  - intros [x [Hx He]]. apply Nat.eqb_eq in He. now subst.
  - intro H. exists i. split; [exact H | apply Nat.eqb_refl].
Qed.

Lemma zeroed_length : forall C ks, length (zeroed C ks) = length C.
Proof. intros. unfold zeroed. apply tabulate_length. Qed.

Lemma entry_zeroed : forall C ks i j, (forall x, In x ks -> x < length C) ->
  entry (zeroed C ks) i j = if memb i ks && memb j ks then entry C i j else 0%Z.
Proof.
  intros C ks i j Hks. unfold entry at 1, zeroed.
  destruct (lt_dec i (length C)) as [Hi|Hi]; [destruct (lt_dec j (length C)) as [Hj|Hj]|].
  - now rewrite nth_tabulate.
  - rewrite nth_tabulate_oob by lia.
    destruct (memb j ks) eqn:Hm; [|now rewrite andb_false_r].
    apply memb_In in Hm. apply Hks in Hm. lia.
  - rewrite nth_tabulate_oob by lia.
    destruct (memb i ks) eqn:Hm; [|reflexivity].
    apply memb_In in Hm. apply Hks in Hm. lia.
Qed.

Lemma edge_submat : forall thr C ks a b, (forall x, In x ks -> x < length C) ->
  a < length ks -> b < length ks ->
  edge thr (submat C ks) a b = edge thr C (nth a ks 0) (nth b ks 0).
Proof.
  intros thr C ks a b Hks Ha Hb. unfold edge.
  rewrite submat_length, entry_submat by assumption.
  assert (A : nth a ks 0 < length C) by (apply Hks, nth_In; exact Ha).
  assert (B : nth b ks 0 < length C) by (apply Hks, nth_In; exact Hb).
  apply Nat.ltb_lt in Ha, Hb, A, B. now rewrite Ha, Hb, A, B.
Qed.

Lemma edge_zeroed : forall thr C ks i j, (forall x, In x ks -> x < length C) ->
  edge thr (zeroed C ks) i j = edge thr C i j && memb i ks && memb j ks.
Proof.
  intros thr C ks i j Hks. unfold edge. rewrite zeroed_length, entry_zeroed by exact Hks.
  destruct (memb i ks); destruct (memb j ks); cbn [andb];
    rewrite ?andb_true_r, ?andb_false_r; try reflexivity.
Qed.

(* ------------------------------------------------------------------ TrimMapping *)
Lemma dict_set_fresh : forall d k v, ~ In k (map fst d) -> dict_set d k v = d ++ [(k, v)].
Proof.
  induction d as [|[k' v'] d IH]; intros k v H; cbn [dict_set app].
  - reflexivity.
  - cbn [map fst In] in H. destruct (Nat.eqb_spec k' k) as [->|Hne].
    + exfalso. apply H. now left.
    + rewrite IH; [reflexivity|]. intro Hin. apply H. now right.
Qed.

Lemma dict_fold_nodup : forall l d, NoDup (map fst (d ++ l)) ->
  fold_left (fun d kv => dict_set d (fst kv) (snd kv)) l d = d ++ l.
Proof.
  induction l as [|[k v] l IH]; intros d H; cbn [fold_left].
  - now rewrite app_nil_r.
  - cbn [fst snd]. rewrite dict_set_fresh.
    + rewrite IH; rewrite <- app_assoc; [reflexivity | exact H].
    + rewrite map_app in H. cbn [map fst] in H. apply NoDup_remove_2 in H.
      intro Hin. apply H. apply in_or_app. now left.
Qed.

Lemma dict_of_nodup : forall l, NoDup (map fst l) -> dict_of l = l.
Proof. intros l H. unfold dict_of. now rewrite dict_fold_nodup. Qed.

Lemma map_swap_combine : forall a b : list nat, map swap (combine a b) = combine b a.
Proof.
  induction a as [|x a IH]; intros [|y b]; cbn [combine map]; try reflexivity.
  now rewrite IH.
Qed.

Lemma map_fst_combine : forall a b : list nat, length a = length b -> map fst (combine a b) = a.
Proof.
  induction a as [|x a IH]; intros [|y b] H; cbn [combine map fst length] in *; try reflexivity; try discriminate.
  f_equal. apply IH. lia.
Qed.

Lemma dict_get_combine : forall (a b : list nat) k, NoDup a -> length a = length b -> k < length a ->
  dict_get (combine a b) (nth k a 0) = Some (nth k b 0).
Proof.
  induction a as [|x a IH]; intros [|y b] k Hnd Hl Hk; cbn [length] in *; try lia.
  inversion Hnd as [|? ? Hx Hnd']; subst.
  destruct k as [|k]; cbn [combine dict_get nth].
  - now rewrite Nat.eqb_refl.
  - destruct (Nat.eqb_spec x (nth k a 0)) as [He|_].
    + exfalso. apply Hx. rewrite He. apply nth_In. lia.
    + apply IH; [exact Hnd' | lia | lia].
Qed.

Lemma dict_get_combine_none : forall (a b : list nat) k, ~ In k a -> dict_get (combine a b) k = None.
Proof.
  induction a as [|x a IH]; intros [|y b] k H; cbn [combine dict_get]; try reflexivity.
  destruct (Nat.eqb_spec x k) as [->|_].
  - exfalso. apply H. now left.
  - apply IH. intro Hin. apply H. now right.
Qed.

Lemma mapping_renumber : forall ks, NoDup ks ->
  let t := tm_to_original (combine ks (seq 0 (length ks))) in
  t = combine (seq 0 (length ks)) ks /\ tm_to_mapped t = combine ks (seq 0 (length ks)).
Proof.
  intros ks Hnd. cbv zeta. unfold tm_to_original, tm_to_mapped.
  rewrite map_swap_combine.
  rewrite dict_of_nodup by (rewrite map_fst_combine by (now rewrite seq_length); apply seq_NoDup).
  split; [reflexivity|].
  rewrite map_swap_combine.
  now rewrite dict_of_nodup by (rewrite map_fst_combine by (now rewrite seq_length); exact Hnd).
Qed.

Lemma mapping_inplace : forall ks, NoDup ks ->
  let t := tm_to_original (combine ks ks) in
  t = combine ks ks /\ tm_to_mapped t = combine ks ks.
Proof.
  intros ks Hnd. cbv zeta. unfold tm_to_original, tm_to_mapped.
  rewrite map_swap_combine.
  rewrite dict_of_nodup by (rewrite map_fst_combine by reflexivity; exact Hnd).
  split; [reflexivity|].
  rewrite map_swap_combine.
  now rewrite dict_of_nodup by (rewrite map_fst_combine by reflexivity; exact Hnd).
Qed.

(* ------------------------------------------------------------------ statements about the result *)
Lemma trim_inv : forall thr C ren cont r, trim_disconnected thr C ren cont = Some r ->
  square C = true /\ 0 < length C /\ r = trim_with C ren cont (keep_states thr C).
Proof.
  intros thr C ren cont r H. unfold trim_disconnected in H.
  destruct (square C) eqn:Hs; [|discriminate].
  destruct (length C =? 0) eqn:Hn; [discriminate|]. cbn [andb negb] in H.
  apply Nat.eqb_neq in Hn. inversion H. repeat split. lia.
Qed.

(* the code raises exactly on an empty or non-square matrix *)
Theorem trim_rejects : forall thr C ren cont,
  trim_disconnected thr C ren cont = None <-> (square C = false \/ length C = 0).
Proof.
  intros. unfold trim_disconnected.
  destruct (square C); destruct (Nat.eqb_spec (length C) 0); cbn [andb negb]; split; intro H;
    try discriminate; try reflexivity; try (now right); try (now left).
  destruct H; [discriminate | contradiction].
Qed.

Lemma keep_bound : forall thr C x, In x (keep_states thr C) -> x < length C.
Proof. intros thr C x H. rewrite keep_states_comp in H. apply in_comp in H. tauto. Qed.

Lemma keep_ssorted : forall thr C, StronglySorted lt (keep_states thr C).
Proof. intros. rewrite keep_states_comp. apply comp_ssorted. Qed.

Lemma keep_nodup : forall thr C, NoDup (keep_states thr C).
Proof. intros. apply ssorted_lt_nodup, keep_ssorted. Qed.

Theorem result_keep_is_scc : forall thr C ren cont r, trim_disconnected thr C ren cont = Some r ->
  exists s, s < length C /\ In s (tr_keep r) /\
    forall j, In j (tr_keep r) <-> j < length C /\ mutual thr C s j.
Proof.
  intros thr C ren cont r H. apply trim_inv in H. destruct H as [_ [Hn ->]]. cbn [trim_with tr_keep].
  now apply keep_is_scc.
Qed.

Theorem result_keep_heaviest : forall thr C ren cont r, trim_disconnected thr C ren cont = Some r ->
  forall i S, i < length C -> NoDup S ->
  (forall j, In j S <-> j < length C /\ mutual thr C i j) ->
  (weight C S <= weight C (tr_keep r))%Z.
Proof.
  intros thr C ren cont r H. apply trim_inv in H. destruct H as [_ [Hn ->]]. cbn [trim_with tr_keep].
  intros i S. apply keep_heaviest.
Qed.

(* two kept states are joined by a path that never leaves the kept set *)
Lemma keep_path_inside : forall thr C i j, 0 < length C ->
  In i (keep_states thr C) -> In j (keep_states thr C) ->
  path_in (fun x => In x (keep_states thr C)) (edge thr C) i j.
Proof.
  intros thr C i j Hn Hi Hj.
  destruct (keep_is_scc thr C Hn) as [s [Hs [_ Hmem]]].
  apply Hmem in Hi. apply Hmem in Hj. destruct Hi as [Hi Hsi]. destruct Hj as [Hj Hsj].
  apply (path_in_weaken (fun x => mutual thr C s x)).
  - intros x Hx. apply Hmem. split; [|exact Hx].
    destruct Hx as [Hp _]. exact (path_bound (length C) (edge thr C) (edge_bnd thr C) s x Hp Hs).
  - apply path_inside_component; try assumption.
    destruct Hsi as [_ Hb]. destruct Hsj as [Ha _]. eapply path_trans; eassumption.
Qed.

(* trimmed_strongly_connected, renumbered variant: in the returned matrix every state reaches
   every state (same threshold) *)
Theorem trimmed_strongly_connected : forall thr C cont r,
  trim_disconnected thr C true cont = Some r ->
  forall a b, a < length (tr_counts r) -> b < length (tr_counts r) ->
  path (edge thr (tr_counts r)) a b.
Proof.
  intros thr C cont r H. apply trim_inv in H. destruct H as [_ [Hn ->]]. cbn [trim_with tr_counts].
  intros a b. rewrite submat_length. intros Ha Hb.
  set (ks := keep_states thr C) in *.
  apply (path_in_relabel ks (edge thr C) (edge thr (submat C ks)) (keep_nodup thr C)
           (fun a b Ha Hb => edge_submat thr C ks a b (keep_bound thr C) Ha Hb)
           (nth a ks 0) (nth b ks 0)); try assumption; try reflexivity.
  apply keep_path_inside; [exact Hn | now apply nth_In | now apply nth_In].
Qed.

(* in-place variant: kept states still reach each other, removed states have no edge at all *)
Theorem inplace_strongly_connected : forall thr C cont r,
  trim_disconnected thr C false cont = Some r ->
  (forall i j, In i (tr_keep r) -> In j (tr_keep r) -> path (edge thr (tr_counts r)) i j) /\
  (forall i j, edge thr (tr_counts r) i j = true -> In i (tr_keep r) /\ In j (tr_keep r)).
Proof.
  intros thr C cont r H. apply trim_inv in H. destruct H as [_ [Hn ->]].
  cbn [trim_with tr_counts tr_keep]. set (ks := keep_states thr C). split.
  - intros i j Hi Hj.
    apply (path_in_sub (fun x => In x ks) (edge thr C)); [|now apply keep_path_inside].
    intros x y Hx Hy He. rewrite edge_zeroed by apply keep_bound.
    apply memb_In in Hx, Hy. fold ks. now rewrite He, Hx, Hy.
  - intros i j He. rewrite edge_zeroed in He by apply keep_bound.
    apply andb_true_iff in He. destruct He as [He Hj]. apply andb_true_iff in He. destruct He as [_ Hi].
    split; now apply memb_In.
Qed.

(* trimmed_counts_preserved: the renumbered matrix is square of the kept size and entry (a,b) is the
   original count between the a-th and b-th kept state *)
Theorem trimmed_counts_preserved : forall thr C cont r,
  trim_disconnected thr C true cont = Some r ->
  length (tr_counts r) = length (tr_keep r) /\
  (forall row, In row (tr_counts r) -> length row = length (tr_keep r)) /\
  forall a b, a < length (tr_keep r) -> b < length (tr_keep r) ->
    entry (tr_counts r) a b = entry C (nth a (tr_keep r) 0) (nth b (tr_keep r) 0).
Proof.
  intros thr C cont r H. apply trim_inv in H. destruct H as [_ [_ ->]].
  cbn [trim_with tr_counts tr_keep]. split; [apply submat_length|]. split; [apply submat_rows|].
  intros a b. apply entry_submat.
Qed.

(* removed_are_zero: in place, counts between kept states stay, every row and column of a removed
   state is zero, the shape is unchanged *)
Theorem removed_are_zero : forall thr C cont r,
  trim_disconnected thr C false cont = Some r ->
  length (tr_counts r) = length C /\
  (forall i j, In i (tr_keep r) -> In j (tr_keep r) -> entry (tr_counts r) i j = entry C i j) /\
  (forall i j, ~ In i (tr_keep r) \/ ~ In j (tr_keep r) -> entry (tr_counts r) i j = 0%Z).
Proof.
  intros thr C cont r H. apply trim_inv in H. destruct H as [_ [_ ->]].
  cbn [trim_with tr_counts tr_keep]. split; [apply zeroed_length|]. split.
  - intros i j Hi Hj. rewrite entry_zeroed by apply keep_bound.
    apply memb_In in Hi, Hj. now rewrite Hi, Hj.
  - intros i j Hij. rewrite entry_zeroed by apply keep_bound.
    destruct (memb i (keep_states thr C)) eqn:Hi; destruct (memb j (keep_states thr C)) eqn:Hj;
      cbn [andb]; try reflexivity.
    apply memb_In in Hi, Hj. tauto.
Qed.

(* mapping_order_iso *)
Theorem mapping_order_iso : forall thr C cont r,
  trim_disconnected thr C true cont = Some r ->
  let ks := tr_keep r in let m := length ks in
  tr_to_original r = combine (seq 0 m) ks /\
  tr_to_mapped r = combine ks (seq 0 m) /\
  (forall k, k < m -> dict_get (tr_to_original r) k = Some (nth k ks 0) /\
                      dict_get (tr_to_mapped r) (nth k ks 0) = Some k) /\
  (forall k, m <= k -> dict_get (tr_to_original r) k = None) /\
  (forall o, ~ In o ks -> dict_get (tr_to_mapped r) o = None) /\
  (forall k k', k < k' -> k' < m -> nth k ks 0 < nth k' ks 0).
Proof.
  intros thr C cont r H. apply trim_inv in H. destruct H as [_ [_ ->]].
  cbn [trim_with tr_keep tr_to_original tr_to_mapped]. cbv zeta.
  set (ks := keep_states thr C).
  destruct (mapping_renumber ks (keep_nodup thr C)) as [E1 E2]. cbv zeta in E1, E2.
  rewrite E2, E1. split; [reflexivity|]. split; [reflexivity|]. split; [|split; [|split]].
  - intros k Hk. split.
    + replace k with (nth k (seq 0 (length ks)) 0) at 1 by (now apply seq_nth).
      rewrite dict_get_combine; [reflexivity | apply seq_NoDup | apply seq_length | now rewrite seq_length].
    + rewrite dict_get_combine; [|apply keep_nodup|now rewrite seq_length|exact Hk].
      now rewrite seq_nth.
  - intros k Hk. apply dict_get_combine_none. rewrite in_seq. lia.
  - intros o Ho. now apply dict_get_combine_none.
  - intros k k' Hlt Hk'. apply ssorted_lt_nth; [apply keep_ssorted | exact Hlt | exact Hk'].
Qed.

Theorem mapping_inplace_identity : forall thr C cont r,
  trim_disconnected thr C false cont = Some r ->
  tr_to_original r = combine (tr_keep r) (tr_keep r) /\
  tr_to_mapped r = combine (tr_keep r) (tr_keep r) /\
  StronglySorted lt (tr_keep r).
Proof.
  intros thr C cont r H. apply trim_inv in H. destruct H as [_ [_ ->]].
  cbn [trim_with tr_keep tr_to_original tr_to_mapped].
  destruct (mapping_inplace _ (keep_nodup thr C)) as [E1 E2]. cbv zeta in E1, E2.
  rewrite E2, E1. repeat split. apply keep_ssorted.
Qed.

(* renumber_inplace_same_model *)
Theorem renumber_inplace_same_model : forall thr C cont r1 r2,
  trim_disconnected thr C true cont = Some r1 ->
  trim_disconnected thr C false cont = Some r2 ->
  tr_keep r1 = tr_keep r2 /\
  (forall a b, a < length (tr_keep r1) -> b < length (tr_keep r1) ->
     entry (tr_counts r1) a b = entry (tr_counts r2) (nth a (tr_keep r1) 0) (nth b (tr_keep r1) 0)) /\
  (forall k, k < length (tr_keep r1) ->
     exists o, dict_get (tr_to_original r1) k = Some o /\ dict_get (tr_to_original r2) o = Some o).
Proof.
  intros thr C cont r1 r2 H1 H2.
  pose proof (mapping_order_iso _ _ _ _ H1) as M1. cbv zeta in M1.
  pose proof (mapping_inplace_identity _ _ _ _ H2) as M2.
  pose proof (trimmed_counts_preserved _ _ _ _ H1) as P1.
  pose proof (removed_are_zero _ _ _ _ H2) as P2.
  assert (K : tr_keep r1 = tr_keep r2).
  { apply trim_inv in H1, H2. destruct H1 as [_ [_ ->]]. destruct H2 as [_ [_ ->]]. reflexivity. }
  split; [exact K|]. split.
  - intros a b Ha Hb. destruct P1 as [_ [_ P1]]. destruct P2 as [_ [P2 _]].
    rewrite P1 by assumption. symmetry. apply P2; rewrite <- K; now apply nth_In.
  - intros k Hk. destruct M1 as [_ [_ [M1 _]]]. destruct (M1 k Hk) as [G _].
    exists (nth k (tr_keep r1) 0). split; [exact G|].
    destruct M2 as [E _]. rewrite E, <- K.
    apply dict_get_combine; [|reflexivity|exact Hk].
    apply trim_inv in H1. destruct H1 as [_ [_ ->]]. apply keep_nodup.
Qed.

(* container kind is kept; the container has no influence on anything else *)
Theorem container_kept : forall thr C ren cont r,
  trim_disconnected thr C ren cont = Some r -> tr_container r = cont.
Proof. intros thr C ren cont r H. apply trim_inv in H. destruct H as [_ [_ ->]]. reflexivity. Qed.

Theorem dense_sparse_agree : forall thr C ren f rd rs,
  trim_disconnected thr C ren Dense = Some rd ->
  trim_disconnected thr C ren (Sparse f) = Some rs ->
  tr_keep rd = tr_keep rs /\ tr_counts rd = tr_counts rs /\
  tr_to_original rd = tr_to_original rs /\ tr_to_mapped rd = tr_to_mapped rs.
Proof.
  intros thr C ren f rd rs H1 H2. apply trim_inv in H1, H2.
  destruct H1 as [_ [_ ->]]. destruct H2 as [_ [_ ->]]. repeat split.
Qed.

Theorem dense_sparse_same_domain : forall thr C ren f,
  trim_disconnected thr C ren Dense = None <-> trim_disconnected thr C ren (Sparse f) = None.
Proof. intros. now rewrite !trim_rejects. Qed.

(* MSM.fit *)
Theorem msm_fit_trim : forall C cont, msm_fit true C cont = trim_disconnected 1 C true cont.
Proof. reflexivity. Qed.

Theorem msm_fit_notrim : forall C cont, exists r, msm_fit false C cont = Some r /\
  tr_counts r = C /\ tr_to_original r = combine (seq 0 (length C)) (seq 0 (length C)) /\
  tr_to_mapped r = combine (seq 0 (length C)) (seq 0 (length C)).
Proof.
  intros C cont. eexists. split; [reflexivity|]. cbn [tr_counts tr_to_original tr_to_mapped].
  destruct (mapping_inplace (seq 0 (length C)) (seq_NoDup _ _)) as [E1 E2]. cbv zeta in E1, E2.
  now rewrite E2, E1.
Qed.

(* the correspondence predicate means what it says: if the check passes and the maximum weight is
   attained by one component only, the implementation's kept set IS the model's *)
Theorem agrees_unique : forall thr C ren cont r,
  impl_agrees thr C ren cont (Some r) = true ->
  (forall i, i < length C -> ~ In i (keep_states thr C) ->
             (weight C (comp thr C i) < weight C (keep_states thr C))%Z) ->
  tr_keep r = keep_states thr C.
Proof.
  intros thr C ren cont r H Hu. unfold impl_agrees, agrees_with in H.
  destruct (trim_disconnected thr C ren cont) as [m|] eqn:Hm; [|discriminate].
  apply trim_inv in Hm. destruct Hm as [_ [_ ->]]. cbn [trim_with tr_keep] in H.
  destruct (nl_eqb (keep_states thr C) (tr_keep r)) eqn:He.
  - apply nl_eqb_eq in He. now symmetry.
  - apply andb_true_iff in H. destruct H as [Ha _]. now apply acceptable_unique.
Qed.

(* states {0,2,4} form a 3-cycle (weight 9), {1,3} a 2-cycle (weight 13); 4->1 is a one-way
   bridge, 3->2 a sub-threshold count: the smaller, heavier, later component is kept *)
Example trim_example :
  trim_disconnected 2 [[0;0;2;0;0];[0;0;0;7;0];[0;0;0;0;2];[0;5;1;0;0];[2;3;0;0;0]]%Z true (Sparse 2)
  = Some {| tr_keep := [1; 3]; tr_counts := [[0;7];[5;0]]%Z;
            tr_to_original := [(0,1);(1,3)]; tr_to_mapped := [(1,0);(3,1)];
            tr_container := Sparse 2 |}
  /\ trim_disconnected 2 [[0;0;2;0;0];[0;0;0;7;0];[0;0;0;0;2];[0;5;1;0;0];[2;3;0;0;0]]%Z false Dense
  = Some {| tr_keep := [1; 3];
            tr_counts := [[0;0;0;0;0];[0;0;0;7;0];[0;0;0;0;0];[0;5;0;0;0];[0;0;0;0;0]]%Z;
            tr_to_original := [(1,1);(3,3)]; tr_to_mapped := [(1,1);(3,3)];
            tr_container := Dense |}
  /\ trim_disconnected 1 []%Z true Dense = None
  /\ trim_disconnected 1 [[1;2;3];[0;1;1]]%Z true Dense = None.
Proof. vm_compute. repeat split; reflexivity. Qed.

(* ------------------------------------------------------------------ TrimMapping on its own *)
Lemma dict_get_in : forall d k v, NoDup (map fst d) -> (dict_get d k = Some v <-> In (k, v) d).
Proof.
  induction d as [|[k' v'] d IH]; intros k v Hnd; cbn [dict_get In].
  - split; [discriminate | intros []].
  - cbn [map fst] in Hnd. inversion Hnd as [|? ? Hk' Hnd']; subst.
    destruct (Nat.eqb_spec k' k) as [->|Hne].
    + split.
      * intro H. inversion H; subst. now left.
      * intros [H|H]; [now inversion H|]. exfalso. apply Hk'.
        apply in_map_iff. exists (k, v). now split.
    + rewrite IH by exact Hnd'. split.
      * intro H. now right.
      * intros [H|H]; [inversion H; contradiction | exact H].
Qed.

Lemma map_swap_swap : forall ps, map swap (map swap ps) = ps.
Proof.
  induction ps as [|[a b] ps IH]; cbn [map]; [reflexivity|]. unfold swap at 1 2. cbn [fst snd]. now rewrite IH.
Qed.

Lemma map_fst_swap : forall ps, map fst (map swap ps) = map snd ps.
Proof. induction ps as [|[a b] ps IH]; cbn [map]; [reflexivity|]. now rewrite IH. Qed.

(* for one-to-one (original, mapped) pairs: to_original sends mapped to original, to_mapped is
   exactly its inverse *)
Theorem trim_mapping_inverse : forall ps, ps <> [] ->
  NoDup (map fst ps) -> NoDup (map snd ps) ->
  exists to_o to_m, trim_mapping ps = Some (to_o, to_m) /\
    (forall o t, dict_get to_o t = Some o <-> In (o, t) ps) /\
    (forall o t, dict_get to_m o = Some t <-> In (o, t) ps) /\
    (forall o t, dict_get to_o t = Some o <-> dict_get to_m o = Some t).
Proof.
  intros ps Hne Ho Ht.
  assert (E1 : tm_to_original ps = map swap ps).
  { unfold tm_to_original. apply dict_of_nodup. now rewrite map_fst_swap. }
  assert (E2 : tm_to_mapped (map swap ps) = ps).
  { unfold tm_to_mapped. rewrite map_swap_swap. now apply dict_of_nodup. }
  exists (map swap ps), ps. split.
  - unfold trim_mapping. destruct ps as [|p ps']; [contradiction|]. now rewrite E1, E2.
  - assert (A : forall o t, dict_get (map swap ps) t = Some o <-> In (o, t) ps).
    { intros o t. rewrite dict_get_in by (now rewrite map_fst_swap). rewrite in_map_iff. split.
      - intros [[a b] [He Hin]]. unfold swap in He. cbn [fst snd] in He. inversion He; subst. exact Hin.
      - intro Hin. exists (o, t). now split. }
    assert (B : forall o t, dict_get ps o = Some t <-> In (o, t) ps).
    { intros o t. now apply dict_get_in. }
    split; [exact A|]. split; [exact B|]. intros o t. now rewrite A, B.
Qed.

(* ------------------------------------------------------------------ trimming twice changes nothing *)
Lemma filter_all : forall {A} (p : A -> bool) l, (forall x, In x l -> p x = true) -> filter p l = l.
Proof.
  intros A p l. induction l as [|x l IH]; intro H; cbn [filter]; [reflexivity|].
  rewrite (H x (or_introl eq_refl)). f_equal. apply IH. intros y Hy. apply H. now right.
Qed.

Theorem trim_idempotent : forall thr C cont r,
  trim_disconnected thr C true cont = Some r ->
  exists r', trim_disconnected thr (tr_counts r) true cont = Some r' /\
    tr_keep r' = seq 0 (length (tr_keep r)) /\
    forall a b, a < length (tr_keep r) -> b < length (tr_keep r) ->
      entry (tr_counts r') a b = entry (tr_counts r) a b.
Proof.
  intros thr C cont r H.
  pose proof (trimmed_strongly_connected _ _ _ _ H) as Hsc.
  pose proof (result_keep_is_scc _ _ _ _ _ H) as [s [_ [Hs _]]].
  pose proof (trimmed_counts_preserved _ _ _ _ H) as [Hlen [Hrows _]].
  set (T := tr_counts r) in *. set (m := length (tr_keep r)) in *.
  assert (Hm : 0 < m).
  { unfold m. destruct (tr_keep r); [destruct Hs | cbn [length]; lia]. }
  assert (Hsq : square T = true).
  { unfold square. apply forallb_forall. intros row Hrow. apply Nat.eqb_eq. rewrite Hlen. now apply Hrows. }
  assert (Hk : keep_states thr T = seq 0 m).
  { rewrite keep_states_comp. set (w := fun i => weight T (comp thr T i)).
    assert (HnT : 0 < length T) by (rewrite Hlen; exact Hm).
    destruct (best_spec w (length T) HnT) as [Hb _]. set (b := best w (length T)) in *.
    unfold comp, comp_of. rewrite Hlen. apply filter_all. intros j Hj. apply in_seq in Hj.
    assert (Hin : In j (comp thr T b)).
    { apply in_comp. rewrite Hlen. repeat split; try lia; try (rewrite <- Hlen; exact Hb).
      - apply Hsc; [exact Hb | rewrite Hlen; lia].
      - apply Hsc; [rewrite Hlen; lia | exact Hb]. }
    unfold comp, comp_of in Hin. apply filter_In in Hin. tauto. }
  exists (trim_with T true cont (keep_states thr T)). split.
  - unfold trim_disconnected. rewrite Hsq.
    destruct (Nat.eqb_spec (length T) 0) as [E|_]; [rewrite Hlen in E; lia | reflexivity].
  - cbn [trim_with tr_keep tr_counts]. rewrite Hk. split; [reflexivity|].
    intros a b Ha Hb. rewrite entry_submat by (now rewrite seq_length).
    now rewrite !seq_nth.
Qed.
