(* C14 round 3: the definitions regenerated from the current source (Gen/MpiGen.v) are equal to -- or, where the
   generated code models more failure modes than the hand model, refine -- the definitions of Model/Mpi.v, so that
   the theorems of Props/C14.v speak about what enspara/mpi/ops.py, kcenters.py and kmedoids.py say now. *)
From Coq Require Import List ZArith QArith Bool Arith Lia Permutation.
From EV Require Import PySlice KcGuardBase Cluster ClusterSkel ClusterBase Mpi MpiBase MpiIndex MpiProofs MpiKc MpiPam MpiGenBase MpiSlice MpiGen.
Import ListNotations.
Local Open Scope nat_scope.

(* ------------------------------------------------------------------ plumbing *)
Lemma all_some_map_Some : forall {B} (l : list B), all_some (map Some l) = Some l.
Proof. induction l as [|x l IH]; [reflexivity|]. cbn [map all_some]. rewrite IH. reflexivity. Qed.

Lemma on_ranks_Some : forall {X Y} (f : X -> Y) (l : list X), on_ranks (fun x => Some (f x)) l = Some (map f l).
Proof.
  intros X Y f l. unfold on_ranks. rewrite <- (map_map f Some). apply all_some_map_Some.
Qed.

Lemma fold_opt_ext_in : forall {S I} (f g : S -> I -> option S) (items : list I) (P : S -> Prop),
  (forall s i, In i items -> P s -> f s i = g s i) ->
  (forall s i s', In i items -> P s -> g s i = Some s' -> P s') ->
  forall s0, (match s0 with Some s => P s | None => True end) ->
  fold_opt f items s0 = fold_opt g items s0.
Proof.
  intros S I f g items P. induction items as [|i items IH]; intros Hfg Hinv s0 H0; [reflexivity|].
  unfold fold_opt in *. cbn [fold_left].
  destruct s0 as [s|].
  - rewrite (Hfg s i (or_introl eq_refl) H0).
    apply IH.
    + intros s1 i1 Hi HP. apply Hfg; [right; exact Hi|exact HP].
    + intros s1 i1 s' Hi HP. apply Hinv; [right; exact Hi|exact HP].
    + destruct (g s i) as [s'|] eqn:E; [|exact Logic.I]. apply (Hinv s i s' (or_introl eq_refl) H0 E).
  - apply IH.
    + intros s1 i1 Hi HP. apply Hfg; [right; exact Hi|exact HP].
    + intros s1 i1 s' Hi HP. apply Hinv; [right; exact Hi|exact HP].
    + exact Logic.I.
Qed.

(* ------------------------------------------------------------------ convert_local_indices *)
Theorem gen_cli_one_is_model : forall P lens r i, 1 <= P ->
  gen_cli_one P lens r i = convert_local P lens (r, i).
Proof.
  intros P lens r i HP. unfold gen_cli_one, convert_local, local_ids, local_of, ra_make, np_arange, np_sum_n.
  rewrite seq_length, Nat.eqb_refl. cbn [obind]. rewrite nslice_every by exact HP.
  unfold py_index, ra_flatten. cbn [fst snd]. destruct (nth_error _ i); reflexivity.
Qed.

Theorem gen_convert_local_indices_is_model : forall P lens pairs, 1 <= P ->
  gen_convert_local_indices P lens pairs = all_some (map (convert_local P lens) pairs).
Proof.
  intros P lens pairs HP. unfold gen_convert_local_indices, on_ranks. f_equal. apply map_ext.
  intros [r i]. apply gen_cli_one_is_model. exact HP.
Qed.

(* ------------------------------------------------------------------ assemble_striped_array *)
Lemma existsb_negb_forallb : forall {X} (f : X -> bool) l, existsb (fun x => negb (f x)) l = negb (forallb f l).
Proof.
  intros X f l. induction l as [|x l IH]; [reflexivity|]. cbn [existsb forallb]. rewrite IH.
  destruct (f x); reflexivity.
Qed.

Theorem gen_assemble_striped_array_is_model : forall P locals, 1 <= P -> length locals = P ->
  gen_assemble_striped_array P locals = assemble_flat P locals.
Proof.
  intros P locals HP HL. unfold gen_assemble_striped_array, assemble_flat, gen_asa_trivial.
  rewrite HL, Nat.eqb_refl. cbn [negb].
  destruct (Nat.eqb P 1) eqn:E1.
  - apply Nat.eqb_eq in E1. rewrite E1 in HL. destruct locals as [|x t]; [discriminate HL|reflexivity].
  - unfold gen_asa_bad. rewrite (existsb_negb_forallb np_all_gt0 locals).
    change (forallb np_all_gt0 locals) with (forallb (forallb (fun x => Nat.ltb 0 x)) locals).
    destruct (negb (forallb (forallb (fun x => Nat.ltb 0 x)) locals)); [reflexivity|].
    unfold gen_asa_total, allreduce_sum_n, py_range.
    apply (fold_opt_ext_in _ _ _ (fun _ => True)).
    + intros g r Hr _. apply in_seq in Hr. unfold gen_asa_step, bcast.
      rewrite nput_slice_every by lia. rewrite Nat.eqb_sym. reflexivity.
    + intros; exact Logic.I.
    + exact Logic.I.
Qed.

(* ------------------------------------------------------------------ assemble_striped_ragged_array *)
Lemma fold_left_ext2 : forall {S I} (f g : S -> I -> S) l a, (forall a x, f a x = g a x) -> fold_left f l a = fold_left g l a.
Proof. intros S I f g l. induction l as [|x l IH]; intros a H; [reflexivity|]. cbn [fold_left]. rewrite H. apply IH. exact H. Qed.

Lemma every_head : forall {A} P r (g : list A) x t, 1 <= P -> every P r g = x :: t -> nth_error g r = Some x.
Proof.
  intros A P r g x t HP E. pose proof (every_nth P g r 0 HP) as H. rewrite E in H. cbn [nth_error] in H.
  rewrite Nat.add_0_r in H. symmetry. exact H.
Qed.

Lemma asr_step_is_model : forall {A} P lens (locals : list (list A)) g r, 1 <= P -> r < P ->
  map (@length A) g = lens ->
  gen_asr_step P lens locals g r = assemble_step P lens locals (Some g) r.
Proof.
  intros A P lens locals g r HP Hr Hg.
  unfold gen_asr_step, assemble_step, gen_asr_local_lengths, gen_asr_many, bcast.
  rewrite nslice_every by exact HP.
  assert (Hev : map (@length A) (every P r g) = every P r lens) by (rewrite <- Hg, every_map; reflexivity).
  set (loc := nth r locals []).
  destruct (every P r lens) as [|L [|L2 rest]] eqn:Ell.
  - cbn [length Nat.ltb Nat.leb]. unfold ra_set_row.
    assert (Hn : nth_error g r = None).
    { apply nth_error_None. apply every_nil_iff in Ell. rewrite <- Hg, map_length in Ell. exact Ell. }
    rewrite Hn. reflexivity.
  - cbn [length]. change (Nat.ltb 1 1) with false. cbv iota.
    destruct (every P r g) as [|row [|row2 rs]] eqn:Eg; try discriminate Hev.
    rewrite (ra_set_row_put_every g r P loc HP Hr) by (rewrite Eg; reflexivity).
    pose proof (every_head P r g row [] HP Eg) as Hrow.
    rewrite (nth_error_nth g r [] Hrow).
    injection Hev as HL. rewrite HL.
    unfold sum_nat; cbn [fold_right]. rewrite Nat.add_0_r. rewrite (Nat.eqb_sym L (length loc)).
    destruct (Nat.eqb (length loc) L) eqn:EL; [|reflexivity].
    apply Nat.eqb_eq in EL. cbn [split_by]. rewrite firstn_all2 by lia. reflexivity.
  - cbn [length]. change (Nat.ltb 1 (S (S (length rest)))) with true. cbv iota.
    unfold ra_make. destruct (Nat.eqb (length loc) (sum_nat (L :: L2 :: rest))) eqn:EL; [|reflexivity].
    cbn [obind]. unfold ra_put_rows. rewrite nput_slice_every by assumption.
    rewrite split_by_length.
    assert (Hlen : length (every P r g) = length (L :: L2 :: rest)) by (rewrite <- Hev, map_length; reflexivity).
    rewrite Hlen, Nat.eqb_refl. reflexivity.
Qed.

Lemma asr_step_inv : forall {A} P lens (locals : list (list A)) g r g', 
  map (@length A) g = lens -> assemble_step P lens locals (Some g) r = Some g' -> map (@length A) g' = lens.
Proof.
  intros A P lens locals g r g' Hg H. unfold assemble_step in H. cbv zeta in H.
  destruct (every P r lens) as [|L rest] eqn:Ell; [discriminate H|].
  destruct (Nat.eqb (length (nth r locals [])) (sum_nat (L :: rest))) eqn:EL; [|discriminate H].
  assert (E : g' = put_every P r (split_by (L :: rest) (nth r locals [])) g) by (injection H as H; symmetry; exact H).
  clear H. subst g'. apply Nat.eqb_eq in EL.
  rewrite put_every_map. rewrite split_by_lengths by exact EL. rewrite Hg, <- Ell. apply put_every_self.
Qed.

Theorem gen_assemble_striped_ragged_array_is_model : forall {A} (fill : A) P lens locals, 1 <= P -> length locals = P ->
  gen_assemble_striped_ragged_array fill P lens locals = assemble fill P lens locals.
Proof.
  intros A fill P lens locals HP HL. unfold gen_assemble_striped_ragged_array, assemble, assemble_rows, ra_data.
  rewrite HL, Nat.eqb_refl. cbn [negb]. f_equal.
  unfold gen_asr_init, ra_make, np_sum_n. rewrite repeat_length, Nat.eqb_refl. unfold py_range.
  rewrite (fold_opt_ext_in _ (fun g r => assemble_step P lens locals (Some g) r) _ (fun g => map (@length A) g = lens)).
  - unfold fold_opt. apply fold_left_ext2. intros [g|] r; reflexivity.
  - intros g r Hr Hg. apply in_seq in Hr. apply asr_step_is_model; [exact HP|lia|exact Hg].
  - intros g r g' _ Hg H. exact (asr_step_inv P lens locals g r g' Hg H).
  - apply split_by_lengths. apply repeat_length.
Qed.

(* ------------------------------------------------------------------ striped_array_max / striped_array_mean *)
Lemma obind_Some : forall {X} (o : option X), obind o (fun v => Some v) = o.
Proof. intros X [x|]; reflexivity. Qed.

Theorem gen_striped_array_max_is_model : forall locals, gen_striped_array_max locals = striped_max locals.
Proof.
  intros locals. unfold gen_striped_array_max, striped_max, on_ranks, allreduce_max_q, np_max.
  rewrite (map_ext _ maxq) by (intros l; apply obind_Some).
  destruct (all_some (map maxq locals)); reflexivity.
Qed.

Theorem gen_striped_array_mean_is_model : forall P locals, 1 <= P -> length locals = P ->
  exists v, gen_striped_array_mean P locals = Some v /\ (v == striped_mean locals)%Q.
Proof.
  intros P locals HP HL. unfold gen_striped_array_mean, striped_mean.
  destruct (Nat.eqb P 1) eqn:E1.
  - apply Nat.eqb_eq in E1. rewrite E1 in HL.
    destruct locals as [|l [|l2 t]]; try discriminate HL.
    eexists; split; [reflexivity|].
    unfold gen_sam_local_sum, gen_sam_local_len, np_sum_q, q_div, q_of_nat.
    cbn [map sumq fold_right sum_nat length]. rewrite Nat.add_0_r, Qplus_0_r. reflexivity.
  - eexists; split; [reflexivity|].
    unfold allreduce_sum_q, allreduce_sum_n, q_div, q_of_nat, gen_sam_local_sum, gen_sam_local_len, np_sum_q.
    change (fun local_array : list Q => length local_array) with (@length Q).
    change (fun local_array : list Q => sumq local_array) with sumq. reflexivity.
Qed.

(* ------------------------------------------------------------------ distribute_frame *)
Lemma all_some_total : forall {B} (c : list (option B)),
  (forall k, k < length c -> exists y, nth_error c k = Some (Some y)) -> exists r, all_some c = Some r.
Proof.
  intros B c. induction c as [|x t IH]; intros H; [eexists; reflexivity|].
  destruct (H 0 ltac:(cbn; lia)) as [y Hy]. cbn in Hy. injection Hy as Hy. subst x.
  destruct IH as [r Hr].
  - intros k Hk. apply (H (S k)). cbn. lia.
  - cbn [all_some]. rewrite Hr. eexists; reflexivity.
Qed.

Lemma all_some_pick : forall {B} (c : list (option B)) o,
  (forall k, k <> o -> k < length c -> exists y, nth_error c k = Some (Some y)) -> o < length c ->
  obind (all_some c) (fun fr => nth_error fr o) = match nth_error c o with Some v => v | None => None end.
Proof.
  intros B c. induction c as [|x t IH]; intros o H Ho; [cbn in Ho; lia|].
  destruct o as [|o'].
  - cbn [nth_error all_some]. destruct x as [xv|]; [|reflexivity].
    destruct (all_some_total t) as [r Hr].
    + intros k Hk. apply (H (S k)); [discriminate|cbn; lia].
    + rewrite Hr. reflexivity.
  - destruct (H 0 ltac:(discriminate) ltac:(cbn; lia)) as [y Hy]. cbn in Hy. injection Hy as Hy. subst x.
    cbn [nth_error all_some]. rewrite <- (IH o').
    + destruct (all_some t); reflexivity.
    + intros k Hk Hlt. apply (H (S k)); [intros E; apply Hk; injection E as E; exact E|cbn; lia].
    + cbn in Ho. lia.
Qed.

Lemma with_rank_nth : forall {X} (l : list X) k, nth_error (with_rank l) k = option_map (fun x => (k, x)) (nth_error l k).
Proof. intros X l k. unfold with_rank. apply (nth_error_combine_seq l 0 k). Qed.

Theorem gen_distribute_frame_spec : forall {A} size (datas : list (list A)) wi ow,
  length datas = size -> Forall (fun d => d <> []) datas ->
  gen_distribute_frame size datas wi ow = nth_error (nth ow datas []) wi.
Proof.
  intros A size datas wi ow HL Hne. unfold gen_distribute_frame, gen_df_bad_owner, gen_df_root, bcast_opt.
  destruct (Nat.leb size ow) eqn:Eo.
  - apply Nat.leb_le in Eo. rewrite nth_overflow by lia. destruct wi; reflexivity.
  - apply Nat.leb_gt in Eo. unfold on_ranks.
    set (f := fun rd : nat * list A => gen_df_frame size (snd rd) (fst rd) wi ow).
    rewrite (all_some_pick (map f (with_rank datas)) ow).
    + rewrite nth_error_map, with_rank_nth.
      destruct (nth_error datas ow) as [d|] eqn:Ed.
      * cbn [option_map]. unfold f, gen_df_frame, gen_df_is_owner. cbn [fst snd]. rewrite Nat.eqb_refl.
        rewrite (nth_error_nth datas ow [] Ed). reflexivity.
      * apply nth_error_None in Ed. lia.
    + intros k Hk Hlt. rewrite map_length in Hlt. rewrite nth_error_map, with_rank_nth.
      unfold with_rank in Hlt. rewrite combine_length, seq_length, Nat.min_id in Hlt.
      destruct (nth_error datas k) as [d|] eqn:Ed; [|apply nth_error_None in Ed; lia].
      cbn [option_map]. unfold f, gen_df_frame, gen_df_is_owner. cbn [fst snd].
      destruct (Nat.eqb k ow) eqn:Ek; [apply Nat.eqb_eq in Ek; contradiction|].
      assert (Hd : d <> []) by (rewrite Forall_forall in Hne; apply Hne; eapply nth_error_In; exact Ed).
      destruct d as [|y d']; [contradiction|]. exists y. reflexivity.
    + rewrite map_length. unfold with_rank. rewrite combine_length, seq_length, Nat.min_id. lia.
Qed.

(* ------------------------------------------------------------------ randind *)
Lemma concat_map_nil : forall {X Y} (l : list X), concat (map (fun _ => @nil Y) l) = [].
Proof. intros X Y l. induction l as [|x l IH]; [reflexivity|exact IH]. Qed.

Theorem gen_randind_is_model : forall ns g, gen_randind (length ns) ns g = randind ns g.
Proof.
  intros ns g. unfold gen_randind, randind, gen_randind_empty, np_sum_n, np_arange, py_range.
  destruct (Nat.ltb (sum_nat ns) 1) eqn:E.
  - apply Nat.ltb_lt in E. assert (E0 : sum_nat ns = 0) by lia. rewrite E0. cbn [seq]. unfold stripes.
    rewrite (map_ext (fun r => every (length ns) r (@nil nat)) (fun _ => @nil nat)) by reflexivity.
    rewrite concat_map_nil. reflexivity.
  - apply Nat.ltb_ge in E.
    assert (HP : 1 <= length ns) by (destruct ns; [cbn in E; lia|cbn; lia]).
    rewrite (map_ext _ (fun r => every (length ns) r (seq 0 (sum_nat ns)))) by (intros r; apply nslice_every; exact HP).
    fold (stripes (length ns) (seq 0 (sum_nat ns))).
    set (c := concat (stripes (length ns) (seq 0 (sum_nat ns)))).
    assert (Hc : length c = sum_nat ns).
    { unfold c. rewrite (Permutation_length (stripes_perm (length ns) (seq 0 (sum_nat ns)) HP)). apply seq_length. }
    unfold ra_where_first, ra_make_unchecked.
    rewrite split_by_concat_full by exact Hc. rewrite split_by_lengths by exact Hc. reflexivity.
Qed.

(* the rank that draws is the root of the broadcast of the draw, and it draws below the total number of items *)
Theorem gen_randind_draw_is_broadcast : gen_randind_drawer = gen_randind_root /\
  forall ns, gen_randind_bound ns = sum_nat ns.
Proof. split; reflexivity. Qed.

(* ------------------------------------------------------------------ _kcenters_iteration_mpi *)
Lemma argmax_idx_from_snd : forall l bi bv i, snd (argmax_idx_from bi bv i l) = fold_left qmax2 l bv.
Proof.
  induction l as [|v r IH]; intros bi bv i; [reflexivity|].
  cbn [argmax_idx_from fold_left]. unfold qmax2 at 2. destruct (Qlt_b bv v); apply IH.
Qed.

Lemma argmax_idx_from_lt : forall l bi bv i, bi < i -> fst (argmax_idx_from bi bv i l) < i + length l.
Proof.
  induction l as [|v r IH]; intros bi bv i H; [cbn; lia|].
  cbn [argmax_idx_from length]. destruct (Qlt_b bv v).
  - pose proof (IH i v (S i) ltac:(lia)). lia.
  - pose proof (IH bi bv (S i) ltac:(lia)). lia.
Qed.

Lemma np_max_argmax : forall l, np_max l = option_map snd (argmax_idx l).
Proof. intros [|v r]; [reflexivity|]. unfold np_max, maxq, argmax_idx. cbn [option_map]. rewrite argmax_idx_from_snd. reflexivity. Qed.

Lemma argmax_idx_lt : forall l i v, argmax_idx l = Some (i, v) -> i < length l.
Proof.
  intros [|x r] i v H; [discriminate H|]. unfold argmax_idx in H. injection H as H.
  pose proof (argmax_idx_from_lt r 0 x 1 ltac:(lia)) as Hl. rewrite H in Hl. cbn [fst] in Hl. cbn [length]. lia.
Qed.

Lemma all_some_option_map : forall {X B C} (f : X -> option B) (h : B -> C) l,
  all_some (map (fun x => option_map h (f x)) l) = option_map (map h) (all_some (map f l)).
Proof.
  intros X B C f h l. induction l as [|x l IH]; [reflexivity|]. cbn [map all_some]. rewrite IH.
  destruct (f x); [|reflexivity]. cbn [option_map]. destruct (all_some (map f l)); reflexivity.
Qed.

Lemma all_some_length : forall {B} (l : list (option B)) r, all_some l = Some r -> length r = length l.
Proof.
  intros B l. induction l as [|x l IH]; intros r H.
  - injection H as H. subst r. reflexivity.
  - cbn [all_some] in H. destruct x; [|discriminate H]. destruct (all_some l) as [r'|]; [|discriminate H].
    injection H as H. subst r. cbn [length]. f_equal. apply IH. reflexivity.
Qed.

Lemma gen_kci_choice_spec : forall dists,
  gen_kci_choice dists =
  match all_some (map argmax_idx dists) with
  | None => None
  | Some gathered => match argmax_idx (map snd gathered) with
                     | None => None
                     | Some (owner, _) => Some (owner, fst (nth owner gathered (0, 0%Q)))
                     end
  end.
Proof.
  intros dists. unfold gen_kci_choice, on_ranks.
  rewrite (map_ext _ (fun d => option_map fst (argmax_idx d))) by (intros d; apply obind_Some).
  rewrite (map_ext (fun d => obind (np_max d) (fun v => Some v)) (fun d => option_map snd (argmax_idx d)))
    by (intros d; rewrite obind_Some; apply np_max_argmax).
  rewrite !all_some_option_map.
  destruct (all_some (map argmax_idx dists)) as [gathered|]; [|reflexivity].
  cbn [option_map obind]. unfold np_argmax.
  destruct (argmax_idx (map snd gathered)) as [[owner v]|] eqn:Ea; [|reflexivity].
  cbn [option_map obind fst]. unfold py_index.
  apply argmax_idx_lt in Ea. rewrite map_length in Ea.
  rewrite nth_error_map. rewrite (nth_error_nth' gathered (0, 0%Q) Ea). reflexivity.
Qed.

Lemma all_some_nonempty : forall (locs : list (list fr)) gathered,
  all_some (map (fun loc => argmax_idx (map dist loc)) locs) = Some gathered -> Forall (fun d => d <> []) locs.
Proof.
  induction locs as [|loc locs IH]; intros gathered H; [constructor|].
  cbn [map all_some] in H. destruct (argmax_idx (map dist loc)) eqn:E; [|discriminate H].
  destruct (all_some (map (fun loc => argmax_idx (map dist loc)) locs)) eqn:E2; [|discriminate H].
  constructor; [|eapply IH; reflexivity].
  intros Hn. subst loc. discriminate E.
Qed.

Theorem gen_kc_iter_mpi_is_model : forall D ti ds, dctr ds <> [] ->
  gen_kc_iter_mpi D ti ds = kc_iter_mpi D ti ds.
Proof.
  intros D ti ds Hc. unfold gen_kc_iter_mpi, kc_iter_mpi, gen_kci_cold.
  destruct (dctr ds) as [|c0 cs] eqn:Ec; [contradiction|]. cbn [length Nat.eqb].
  rewrite gen_kci_choice_spec, map_map.
  destruct (all_some (map (fun loc => argmax_idx (map dist loc)) (dloc ds))) as [gathered|] eqn:Eg; [|reflexivity].
  destruct (argmax_idx (map snd gathered)) as [[owner v]|]; [|reflexivity].
  cbn [obind fst snd]. unfold gen_kci_new_center.
  rewrite gen_distribute_frame_spec; [|reflexivity|exact (all_some_nonempty _ _ Eg)].
  destruct (nth_error (nth owner (dloc ds) []) (fst (nth owner gathered (0, 0%Q)))) as [m|]; [|reflexivity].
  reflexivity.
Qed.

(* cold start (len(center_inds) == 0): frame 0 of rank 0 is distributed *)
Theorem gen_kc_cold_is_model : forall {A} (ids : list (list A)), Forall (fun d => d <> []) ids ->
  gen_kci_cold (@nil (nat * nat)) = true /\
  gen_kci_new_center (length ids) ids gen_kci_cold_owner gen_kci_cold_index = nth_error (nth 0 ids []) 0 /\
  gen_kci_pair gen_kci_cold_owner gen_kci_cold_index = (0, 0).
Proof.
  intros A ids H. split; [reflexivity|]. split; [|reflexivity].
  unfold gen_kci_new_center. apply gen_distribute_frame_spec; [reflexivity|exact H].
Qed.

(* ------------------------------------------------------------------ kcenters in mpi_mode: the stopping test *)
Theorem gen_kc_guard_mpi_is_model : forall nclu cutoff ds, gen_kc_guard_mpi nclu cutoff ds = kc_guard_mpi nclu cutoff ds.
Proof.
  intros nclu cutoff ds. unfold gen_kc_guard_mpi, kc_guard_mpi, gen_kc_maxdist_mpi.
  rewrite gen_striped_array_max_is_model.
  destruct (striped_max (dists_of ds)); [|reflexivity]. cbn [option_map].
  unfold gen_kc_while, cmp_count_lt, cmp_q_gt, Qlt_b. destruct nclu; reflexivity.
Qed.

(* the loop of Model/Mpi.v is the loop over the regenerated test and the regenerated iteration *)
Lemma kc_iter_mpi_ctr : forall D ti ds ds', kc_iter_mpi D ti ds = Some ds' -> dctr ds' <> [].
Proof.
  intros D ti ds ds' H. unfold kc_iter_mpi in H.
  destruct (all_some _) as [gathered|]; [|discriminate H].
  destruct (argmax_idx _) as [[owner v]|]; [|discriminate H].
  destruct (nth_error _ _) as [m|]; [|discriminate H].
  injection H as H. subst ds'. cbn [dctr]. intros E. apply app_eq_nil in E. destruct E as [_ E]. discriminate E.
Qed.

Theorem gen_kc_loop_mpi_is_model : forall D fuel nclu cutoff ti ds, dctr ds <> [] ->
  gen_kc_loop_mpi D fuel nclu cutoff ti ds = kc_loop_mpi D fuel nclu cutoff ti ds.
Proof.
  intros D fuel. induction fuel as [|fuel IH]; intros nclu cutoff ti ds Hc; [reflexivity|].
  cbn [gen_kc_loop_mpi kc_loop_mpi]. rewrite gen_kc_guard_mpi_is_model.
  destruct (kc_guard_mpi nclu cutoff ds) as [[|]|]; try reflexivity.
  rewrite gen_kc_iter_mpi_is_model by exact Hc.
  destruct (kc_iter_mpi D ti ds) as [ds'|] eqn:E; [|reflexivity].
  apply IH. exact (kc_iter_mpi_ctr D ti ds ds' E).
Qed.

(* ------------------------------------------------------------------ ctr_ids_mpi *)
Lemma index_of_seq : forall n a x, index_of x (seq a n) = if (a <=? x) && (x <? a + n) then Some (x - a) else None.
Proof.
  induction n as [|n IH]; intros a x.
  - cbn [seq index_of]. destruct (a <=? x) eqn:E1; [|reflexivity]. cbn [andb].
    destruct (x <? a + 0) eqn:E2; [|reflexivity]. apply Nat.leb_le in E1. apply Nat.ltb_lt in E2. lia.
  - cbn [seq index_of]. destruct (Nat.eqb x a) eqn:E.
    + apply Nat.eqb_eq in E. subst x. rewrite Nat.leb_refl. cbn [andb].
      assert (E2 : (a <? a + S n) = true) by (apply Nat.ltb_lt; lia). rewrite E2, Nat.sub_diag. reflexivity.
    + apply Nat.eqb_neq in E. rewrite IH.
      destruct (S a <=? x) eqn:E1.
      * apply Nat.leb_le in E1. assert (E3 : (a <=? x) = true) by (apply Nat.leb_le; lia). rewrite E3. cbn [andb].
        replace (S a + n) with (a + S n) by lia.
        destruct (x <? a + S n); [|reflexivity]. cbn [option_map]. f_equal. lia.
      * apply Nat.leb_gt in E1. cbn [andb].
        destruct (a <=? x) eqn:E3; [|reflexivity]. apply Nat.leb_le in E3. lia.
Qed.

Lemma pair_eta_opt : forall (o : option (nat * nat)), option_map (fun rc => (fst rc, snd rc)) o = o.
Proof. intros [[a b]|]; reflexivity. Qed.

Theorem gen_cim_locate_is_model : forall lens c, gen_cim_locate lens c = unflat lens c.
Proof.
  intros lens c. unfold gen_cim_locate, gen_cim_global_inds, ra_make, np_arange, np_sum_n.
  rewrite seq_length, Nat.eqb_refl. cbn [obind]. rewrite pair_eta_opt. unfold ra_where_first.
  rewrite split_by_concat_full by apply seq_length. rewrite split_by_lengths by apply seq_length.
  rewrite index_of_seq. cbn [Nat.leb andb Nat.add]. rewrite Nat.sub_0_r.
  destruct (c <? sum_nat lens) eqn:E; [reflexivity|].
  apply Nat.ltb_ge in E. destruct (unflat lens c) as [tf|] eqn:Eu; [|reflexivity].
  apply unflat_range in Eu. lia.
Qed.

Lemma map_nth_error_seq : forall {X} (rows : list X), map (nth_error rows) (seq 0 (length rows)) = map Some rows.
Proof.
  intros X rows. induction rows as [|x t IH]; [reflexivity|].
  cbn [length seq map nth_error]. f_equal. rewrite <- seq_shift, map_map. exact IH.
Qed.

Lemma take_rows_every : forall {X} (rows : list (list X)) P r,
  ra_take_rows rows (every P r (seq 0 (length rows))) = Some (every P r rows).
Proof.
  intros X rows P r. unfold ra_take_rows. rewrite <- every_map, map_nth_error_seq, every_map. apply all_some_map_Some.
Qed.

Theorem gen_cim_pair_is_model : forall P lens tf, 1 <= P -> gen_cim_pair P lens tf = ctr_pair_mpi P lens tf.
Proof.
  intros P lens [t f] HP. unfold gen_cim_pair, ctr_pair_mpi, gen_cim_global_inds, ra_make, np_arange, np_sum_n, py_int_truediv.
  cbn [fst snd]. rewrite seq_length, Nat.eqb_refl. cbn [obind].
  rewrite nslice_every by exact HP.
  set (rows := split_by lens (seq 0 (sum_nat lens))).
  assert (Hrl : length rows = length lens) by apply split_by_length. rewrite <- Hrl.
  rewrite take_rows_every. cbn [obind]. unfold ra_lengths.
  rewrite <- every_map. unfold rows. rewrite split_by_lengths by apply seq_length.
  set (owned := every P (t mod P) lens).
  rewrite seq_length, Nat.eqb_refl. cbn [obind]. unfold py_index.
  destruct (Nat.lt_ge_cases (t / P) (length owned)) as [Hj|Hj].
  - rewrite rows_nth by exact Hj. cbn [obind]. rewrite (nth_error_nth' owned 0 Hj).
    rewrite nth_error_seq_gen. cbn [Nat.add].
    destruct (f <? nth (t / P) owned 0); reflexivity.
  - assert (E1 : nth_error (split_by owned (seq 0 (sum_nat owned))) (t / P) = None)
      by (apply nth_error_None; rewrite split_by_length; exact Hj).
    assert (E2 : nth_error owned (t / P) = None) by (apply nth_error_None; exact Hj).
    rewrite E1, E2. reflexivity.
Qed.

Theorem gen_ctr_ids_mpi_flat_is_model : forall P lens g, 1 <= P -> gen_ctr_ids_mpi_flat P lens g = ctr_ids_mpi P lens g.
Proof.
  intros P lens g HP. unfold gen_ctr_ids_mpi_flat, ctr_ids_mpi. rewrite gen_cim_locate_is_model.
  destruct (unflat lens g) as [tf|]; [|reflexivity]. cbn [obind]. apply gen_cim_pair_is_model. exact HP.
Qed.

(* ------------------------------------------------------------------ _propose_new_center_amongst (MPI branch) *)
Theorem gen_propose_mpi_is_model : forall ds cid g,
  gen_propose_mpi (length (dloc ds)) (map (members_from cid 0) (dloc ds)) g = propose_mpi ds cid g.
Proof.
  intros ds cid g. unfold gen_propose_mpi, propose_mpi, gen_randind_n_states, allgather.
  set (mem := map (members_from cid 0) (dloc ds)).
  change (map (fun local_array : list nat => length local_array) mem) with (map (@length nat) mem).
  replace (length (dloc ds)) with (length (map (@length nat) mem)) by (unfold mem; rewrite !map_length; reflexivity).
  rewrite gen_randind_is_model.
  destruct (randind (map (@length nat) mem) g) as [[r idx]|]; [|reflexivity].
  cbn [obind fst snd]. unfold bcast_opt, gen_prop_root. rewrite nth_error_map, with_rank_nth.
  destruct (nth_error mem r) as [l|] eqn:El.
  - cbn [option_map obind fst snd]. unfold gen_prop_is_sender. rewrite Nat.eqb_refl.
    unfold gen_prop_payload, py_index. rewrite obind_Some. rewrite (nth_error_nth mem r [] El).
    destruct (nth_error l idx); reflexivity.
  - cbn [option_map obind]. apply nth_error_None in El. rewrite nth_overflow by exact El.
    destruct idx; reflexivity.
Qed.

(* the frame _propose_new_center_amongst distributes is the frame of the pair it returns, and the explicit-proposal
   branch / the medoid coordinates read a pair as (owner rank, local index) too *)
Theorem gen_prop_frame_is_pair : forall {A} size (Xs : list (list A)) r idx i,
  gen_prop_frame size Xs r idx i = gen_pam_proposal_frame size Xs (gen_prop_ind r idx i) /\
  gen_pam_medoid_coord size Xs r i = gen_pam_proposal_frame size Xs (r, i).
Proof. intros. split; reflexivity. Qed.

(* ------------------------------------------------------------------ _kmedoids_pam_update in MPI mode *)
Lemma gen_msq_spec : forall (locs : list (list fr)), locs <> [] ->
  exists v, gen_msq (length locs) (map (map dist) locs) = Some v /\ (v == sq_cost locs)%Q.
Proof.
  intros locs Hne. unfold gen_msq, sq_cost.
  assert (E : map (fun x : list Q => map np_square x) (map (map dist) locs)
              = map (map (fun x => (dist x * dist x)%Q)) locs).
  { rewrite map_map. apply map_ext. intros l. rewrite map_map. reflexivity. }
  rewrite E. apply gen_striped_array_mean_is_model.
  - destruct locs; [contradiction|cbn; lia].
  - rewrite map_length. reflexivity.
Qed.

Theorem gen_pam_update_mpi_is_model : forall D ds cid prop, Forall (fun d => d <> []) (dloc ds) -> dloc ds <> [] ->
  gen_pam_update_mpi D ds cid prop = pam_update_mpi D ds cid prop.
Proof.
  intros D ds cid prop Hne Hn0. unfold gen_pam_update_mpi, pam_update_mpi, gen_pam_proposal_frame.
  rewrite gen_distribute_frame_spec by (try reflexivity; exact Hne).
  destruct (nth_error (nth (fst prop) (dloc ds) []) (snd prop)) as [m|]; [|reflexivity].
  cbn [obind].
  set (locs' := map (map (pam_frame D cid (fid m) (replace_nth cid (fid m) (dcid ds)))) (dloc ds)).
  assert (Hl : length locs' = length (dloc ds)) by (unfold locs'; apply map_length).
  assert (Hn1 : locs' <> []) by (intros E; rewrite E in Hl; destruct (dloc ds); [contradiction|discriminate Hl]).
  destruct (gen_msq_spec locs' Hn1) as [nv [En Hnv]]. rewrite Hl in En. rewrite En.
  destruct (gen_msq_spec (dloc ds) Hn0) as [ov [Eo Hov]]. rewrite Eo. cbn [obind].
  unfold gen_pam_accept. change (cmp_q_lt nv ov) with (Qlt_b nv ov).
  rewrite (Qlt_b_iff_eq nv ov (sq_cost locs') (sq_cost (dloc ds))) by (rewrite Hnv, Hov; reflexivity).
  reflexivity.
Qed.

(* ------------------------------------------------------------------ the theorems of Props/C14.v, restated on the
   regenerated definitions *)
Theorem gen_kcenters_mpi_is_model : forall D P lens nclu cutoff ti,
  gen_kcenters_mpi D P lens nclu cutoff ti = kcenters_mpi D P lens nclu cutoff ti.
Proof.
  intros. unfold gen_kcenters_mpi, kcenters_mpi.
  destruct (kc_first_mpi D (scatter P lens (seq 0 (sum_nat lens)))) as [ds|] eqn:E; [|reflexivity].
  apply gen_kc_loop_mpi_is_model. unfold kc_first_mpi in E.
  destruct (nth_error _ 0); [|discriminate E]. injection E as E. subst ds. discriminate.
Qed.

Theorem gen_kc_mpi_equals_serial : forall D P lens nclu cutoff ti L rest,
  1 <= P -> P <= length lens -> lens = L :: rest -> 1 <= L ->
  nonempty_locals P lens (seq 0 (sum_nat lens)) ->
  tie_free_run D (S (sum_nat lens)) nclu cutoff ti (kc_first D (sum_nat lens)) ->
  exists ds, gen_kcenters_mpi D P lens nclu cutoff ti = Some ds /\
    let s' := kcenters_cold D nclu cutoff ti (sum_nat lens) in
    gen_convert_local_indices P lens (dctr ds) = Some (fst s') /\
    gen_assemble_striped_ragged_array 0%nat P lens (map (map lab) (dloc ds)) = Some (labels s') /\
    gen_assemble_striped_ragged_array 0%Q P lens (map (map dist) (dloc ds)) = Some (dists s').
Proof.
  intros D P lens nclu cutoff ti L rest HP HPl Hl HL Hne Htf.
  destruct (kc_mpi_assembled_equals_serial D P lens nclu cutoff ti L rest HP HPl Hl HL Hne Htf) as [ds [E [H1 [H2 H3]]]].
  exists ds. rewrite gen_kcenters_mpi_is_model. split; [exact E|].
  cbv zeta. rewrite gen_convert_local_indices_is_model by exact HP. rewrite H1, all_some_map_Some.
  assert (Hlen : length (dloc ds) = P).
  { unfold assemble, assemble_rows in H2. rewrite map_length in H2.
    destruct (Nat.eqb (length (dloc ds)) P) eqn:EP; [apply Nat.eqb_eq in EP; exact EP|discriminate H2]. }
  rewrite !gen_assemble_striped_ragged_array_is_model by (try exact HP; rewrite map_length; exact Hlen).
  split; [reflexivity|]. split; assumption.
Qed.

Theorem gen_assemble_scatter : forall {A} (fill : A) P lens (g : list A), 1 <= P -> P <= length lens ->
  length g = sum_nat lens -> gen_assemble_striped_ragged_array fill P lens (scatter P lens g) = Some g.
Proof.
  intros A fill P lens g HP HPl Hg. rewrite gen_assemble_striped_ragged_array_is_model by (try exact HP; apply scatter_length).
  apply assemble_split; assumption.
Qed.

Theorem gen_global_to_local_then_back : forall P lens g ri, 1 <= P ->
  gen_ctr_ids_mpi_flat P lens g = Some ri -> gen_cli_one P lens (fst ri) (snd ri) = Some g /\ fst ri < P.
Proof.
  intros P lens g [r i] HP H. rewrite gen_ctr_ids_mpi_flat_is_model in H by exact HP.
  rewrite gen_cli_one_is_model by exact HP. cbn [fst snd]. exact (ctr_ids_mpi_convert P lens g (r, i) HP H).
Qed.

Theorem gen_local_to_global_then_back : forall P lens r i g, 1 <= P -> r < P ->
  gen_cli_one P lens r i = Some g -> gen_ctr_ids_mpi_flat P lens g = Some (r, i) /\ g < sum_nat lens.
Proof.
  intros P lens r i g HP Hr H. rewrite gen_cli_one_is_model in H by exact HP.
  rewrite gen_ctr_ids_mpi_flat_is_model by exact HP. split.
  - exact (convert_ctr_ids P lens r i g HP Hr H).
  - exact (convert_local_range P lens r i g HP Hr H).
Qed.

Theorem gen_randind_bijection : forall ns,
  (forall g, g < sum_nat ns -> exists r i, gen_randind (length ns) ns g = Some (r, i) /\ r < length ns /\ i < nth r ns 0) /\
  (forall g g' ri, gen_randind (length ns) ns g = Some ri -> gen_randind (length ns) ns g' = Some ri -> g = g') /\
  (forall r i, r < length ns -> i < nth r ns 0 -> exists g, g < sum_nat ns /\ gen_randind (length ns) ns g = Some (r, i)).
Proof.
  intros ns. split; [|split].
  - intros g Hg. rewrite gen_randind_is_model. apply randind_total. exact Hg.
  - intros g g' ri. rewrite !gen_randind_is_model. apply randind_inj.
  - intros r i Hr Hi. destruct (randind_surj ns r i Hr Hi) as [g [Hg E]]. exists g. rewrite gen_randind_is_model. split; assumption.
Qed.

Theorem gen_striped_reductions_serial : forall P lens (g : list fr), 1 <= P -> length g = sum_nat lens ->
  Forall (fun loc => loc <> []) (scatter P lens g) ->
  (exists v, gen_striped_array_max (map (map dist) (scatter P lens g)) = Some v /\ (v == maxdist g)%Q) /\
  (exists w, gen_striped_array_mean P (scatter P lens (map dist g)) = Some w /\ (w == mean (map dist g))%Q).
Proof.
  intros P lens g HP Hg Hne. split.
  - rewrite gen_striped_array_max_is_model. apply striped_max_scatter; assumption.
  - destruct (gen_striped_array_mean_is_model P (scatter P lens (map dist g)) HP (scatter_length P lens (map dist g))) as [w [E Hw]].
    exists w. split; [exact E|]. rewrite Hw. apply striped_mean_exact; [exact HP|rewrite map_length; exact Hg].
Qed.
