(* C15: proofs about Model/Store.v, part 3: ra.save / ra.load round trips, strides, key subsets,
   striped loaders. *)
From Coq Require Import List ZArith Lia Bool Permutation Sorted.
From EV Require Import PySlice Store StoreProofs StoreLoadProofs.
Import ListNotations.
Open Scope nat_scope.

Section Saved.
  Variables (tag : str) (dt : nat) (tail : list nat) (w : nat).

  Definition mk_node (ir : nat * list elem) : node := mkNode (key tag w (fst ir)) dt tail (snd ir).
  Definition node_of (rows : list (list elem)) (k i : nat) : node :=
    mkNode (key tag w i) dt tail (nth (i - k) rows []).

  Lemma find_node_saved : forall rows k i,
    k <= i < k + length rows ->
    (forall j, j < k + length rows -> length (digits j) <= w) ->
    find_node (key tag w i) (map mk_node (enum_from k rows)) = Some (node_of rows k i).
  Proof.
    induction rows as [|r rs IH]; intros k i Hi Hw; cbn [length] in *; [lia|].
    cbn [enum_from map find_node]. unfold mk_node at 1. cbn [nkey fst snd].
    destruct (Nat.eq_dec i k) as [->|Hne].
    - assert (E : str_eqb (key tag w k) (key tag w k) = true) by (apply str_eqb_eq; reflexivity).
      rewrite E. unfold node_of. rewrite Nat.sub_diag. reflexivity.
    - destruct (str_eqb (key tag w k) (key tag w i)) eqn:E.
      + apply str_eqb_eq in E. apply key_inj_width in E; [lia| |]; apply Hw; lia.
      + rewrite (IH (S k) i) by (try lia; intros j Hj; apply Hw; lia).
        unfold node_of. replace (i - k) with (S (i - S k)) by lia. reflexivity.
  Qed.

  Lemma find_all_saved : forall rows idxs,
    (forall i, In i idxs -> i < length rows) ->
    (forall j, j < length rows -> length (digits j) <= w) ->
    find_all (map mk_node (enum_from 0 rows)) (map (key tag w) idxs) = Some (map (node_of rows 0) idxs).
  Proof.
    intros rows idxs Hi Hw. induction idxs as [|i idxs IH]; [reflexivity|].
    cbn [map find_all]. rewrite find_node_saved by (try apply Hw; pose proof (Hi i (or_introl eq_refl)); lia).
    rewrite IH by (intros j Hj; apply Hi; right; exact Hj). reflexivity.
  Qed.

  Lemma saved_keys : forall rows k,
    map nkey (map mk_node (enum_from k rows)) = map (key tag w) (seq k (length rows)).
  Proof.
    induction rows as [|r rs IH]; intros k; [reflexivity|].
    cbn [enum_from map length seq]. unfold mk_node at 1. cbn [nkey fst]. f_equal. apply IH.
  Qed.
End Saved.

Lemma nl_eqb_refl : forall l, nl_eqb l l = true.
Proof.
  intros l. unfold nl_eqb. rewrite Nat.eqb_refl. cbn [andb].
  induction l as [|x l IH]; [reflexivity|]. cbn [combine forallb fst snd]. rewrite Nat.eqb_refl. exact IH.
Qed.

Lemma split_rows_concat {A} : forall (blocks : list (list A)),
  split_rows (map (@length A) blocks) (concat blocks) = blocks.
Proof.
  induction blocks as [|x r IH]; [reflexivity|].
  cbn [map concat split_rows]. f_equal.
  - rewrite firstn_app, Nat.sub_diag, firstn_all. cbn [firstn]. apply app_nil_r.
  - rewrite skipn_app, Nat.sub_diag, skipn_all. cbn [skipn app]. exact IH.
Qed.

(* what `load` does once the requested nodes are found and agree in dtype / trailing shape *)
Lemma load_found : forall f ks nds dt tail stride,
  (1 <= stride)%Z -> 2 <= length ks ->
  find_all f ks = Some nds ->
  (forall n, In n nds -> ndtype n = dt /\ ntail n = tail) ->
  load f (Some ks) stride
  = LRa dt tail (map (fun n => length (strided stride (nrows n))) nds)
        (concat (map (fun n => strided stride (nrows n)) nds)).
Proof.
  intros f ks nds dt tail stride Hs Hk Hfind Hsame. unfold load.
  assert (E : (stride <? 1)%Z = false) by (apply Z.ltb_ge; lia). rewrite E.
  destruct ks as [|k1 [|k2 ks']]; cbn [length] in Hk; try lia.
  rewrite Hfind.
  destruct nds as [|n0 nds'].
  { cbn [find_all] in Hfind. destruct (find_node k1 f); [|discriminate].
    destruct (find_node k2 f); [|discriminate]. destruct (find_all f ks'); discriminate. }
  destruct (Hsame n0 (or_introl eq_refl)) as [Hd0 Ht0].
  assert (F1 : forallb (fun n => length (ntail n) =? length (ntail n0)) (n0 :: nds') = true).
  { apply forallb_forall. intros n Hn. destruct (Hsame n Hn) as [_ Ht]. rewrite Ht, Ht0. apply Nat.eqb_refl. }
  assert (F2 : forallb (fun n => nl_eqb (ntail n) (ntail n0)) (n0 :: nds') = true).
  { apply forallb_forall. intros n Hn. destruct (Hsame n Hn) as [_ Ht]. rewrite Ht, Ht0. apply nl_eqb_refl. }
  assert (F3 : forallb (fun n => ndtype n =? ndtype n0) (n0 :: nds') = true).
  { apply forallb_forall. intros n Hn. destruct (Hsame n Hn) as [Hd _]. rewrite Hd, Hd0. apply Nat.eqb_refl. }
  rewrite F1, F2, F3. cbn [negb].
  assert (EL : map (fun n => ceil_len (length (nrows n)) stride) (n0 :: nds')
               = map (@length elem) (map (fun n => strided stride (nrows n)) (n0 :: nds'))).
  { rewrite map_map. apply map_ext. intros n. symmetry. apply strided_length. exact Hs. }
  rewrite EL, fill_from_zero. rewrite Hd0, Ht0. f_equal. rewrite map_map. reflexivity.
Qed.

Lemma load_found_single : forall f k n stride,
  (1 <= stride)%Z -> find_node k f = Some n ->
  load f (Some [k]) stride = LNd (ndtype n) (ntail n) (strided stride (nrows n)).
Proof.
  intros f k n stride Hs Hf. unfold load.
  assert (E : (stride <? 1)%Z = false) by (apply Z.ltb_ge; lia). rewrite E, Hf. reflexivity.
Qed.

Lemma save_ra_inv : forall tag dt tail rows f,
  save tag (Ra dt tail rows) = Some f ->
  f = map (mk_node tag dt tail (n_zeros (length rows))) (enum_from 0 rows).
Proof.
  intros tag dt tail rows f H. cbn [save] in H.
  destruct (existsb _ rows); [discriminate|]. injection H as <-. reflexivity.
Qed.

(* ---- loading a subset of rows (any order, repeats allowed), with a stride *)
Lemma load_subset_many : forall tag dt tail rows f idxs stride,
  save tag (Ra dt tail rows) = Some f -> (1 <= stride)%Z -> 2 <= length idxs ->
  (forall i, In i idxs -> i < length rows) ->
  load f (Some (map (key tag (n_zeros (length rows))) idxs)) stride
  = LRa dt tail (map (fun i => length (strided stride (nth i rows []))) idxs)
        (concat (map (fun i => strided stride (nth i rows [])) idxs)).
Proof.
  intros tag dt tail rows f idxs stride Hsave Hs Hlen Hi.
  rewrite (save_ra_inv _ _ _ _ _ Hsave).
  rewrite (load_found _ _ (map (node_of tag dt tail (n_zeros (length rows)) rows 0) idxs) dt tail stride Hs).
  - rewrite !map_map. f_equal; [apply map_ext|f_equal; apply map_ext];
      intros i; unfold node_of; cbn [nrows]; rewrite Nat.sub_0_r; reflexivity.
  - rewrite map_length. exact Hlen.
  - apply find_all_saved; [exact Hi|]. intros j Hj. apply n_zeros_fits. exact Hj.
  - intros n Hn. apply in_map_iff in Hn. destruct Hn as [i [<- _]]. split; reflexivity.
Qed.

Lemma load_subset_one : forall tag dt tail rows f i stride,
  save tag (Ra dt tail rows) = Some f -> (1 <= stride)%Z -> i < length rows ->
  load f (Some [key tag (n_zeros (length rows)) i]) stride
  = LNd dt tail (strided stride (nth i rows [])).
Proof.
  intros tag dt tail rows f i stride Hsave Hs Hi.
  rewrite (save_ra_inv _ _ _ _ _ Hsave).
  rewrite (load_found_single _ _ (node_of tag dt tail (n_zeros (length rows)) rows 0 i) stride Hs).
  - unfold node_of. cbn [ndtype ntail nrows]. rewrite Nat.sub_0_r. reflexivity.
  - apply find_node_saved; [lia|]. intros j Hj. apply n_zeros_fits. lia.
Qed.

(* canonical form: whatever the number of requested rows (>= 1), the result read as rows is the
   requested rows, each sliced [::stride], in the requested order, with the saved dtype / shape *)
Lemma load_subset_rows : forall tag dt tail rows f idxs stride,
  save tag (Ra dt tail rows) = Some f -> (1 <= stride)%Z -> idxs <> [] ->
  (forall i, In i idxs -> i < length rows) ->
  let l := load f (Some (map (key tag (n_zeros (length rows))) idxs)) stride in
  loaded_rows l = Some (map (fun i => strided stride (nth i rows [])) idxs)
  /\ loaded_meta l = Some (dt, tail).
Proof.
  intros tag dt tail rows f idxs stride Hsave Hs Hne Hi.
  destruct idxs as [|i [|i2 idxs']]; [congruence| |].
  - cbn [map]. cbv zeta. rewrite (load_subset_one _ _ _ _ _ _ _ Hsave Hs) by (apply Hi; left; reflexivity).
    split; reflexivity.
  - cbv zeta. rewrite (load_subset_many _ _ _ _ _ _ _ Hsave Hs) by (cbn [length]; try lia; exact Hi).
    cbn [loaded_rows loaded_meta]. split; [|reflexivity]. f_equal.
    rewrite <- (map_map (fun i => strided stride (nth i rows [])) (@length elem)).
    apply split_rows_concat.
Qed.

(* ---- loading everything: the listing order is the row order, for every row count *)
Lemma listing_is_row_order : forall tag dt tail rows f,
  save tag (Ra dt tail rows) = Some f ->
  sort_keys (map nkey f) = map (key tag (n_zeros (length rows))) (seq 0 (length rows)).
Proof.
  intros tag dt tail rows f Hsave. rewrite (save_ra_inv _ _ _ _ _ Hsave), saved_keys.
  apply sort_sorted_id, keys_strongly_sorted.
Qed.

Lemma load_all_is_subset_all : forall tag dt tail rows f stride,
  save tag (Ra dt tail rows) = Some f ->
  load f None stride = load f (Some (map (key tag (n_zeros (length rows))) (seq 0 (length rows)))) stride.
Proof.
  intros tag dt tail rows f stride Hsave. unfold load.
  rewrite (listing_is_row_order _ _ _ _ _ Hsave). reflexivity.
Qed.

Lemma map_nth_rows {A} : forall (g : list elem -> A) (rows : list (list elem)),
  map (fun i => g (nth i rows [])) (seq 0 (length rows)) = map g rows.
Proof.
  intros g rows. rewrite <- (map_map (fun i => nth i rows []) g). rewrite map_nth_seq. reflexivity.
Qed.

Lemma roundtrip_many : forall tag dt tail rows f stride,
  save tag (Ra dt tail rows) = Some f -> (1 <= stride)%Z -> 2 <= length rows ->
  load f None stride
  = LRa dt tail (map (fun r => length (strided stride r)) rows) (concat (map (strided stride) rows)).
Proof.
  intros tag dt tail rows f stride Hsave Hs Hn.
  rewrite (load_all_is_subset_all _ _ _ _ _ _ Hsave).
  rewrite (load_subset_many _ _ _ _ _ _ _ Hsave Hs).
  - rewrite (map_nth_rows (fun r => length (strided stride r))), (map_nth_rows (strided stride)). reflexivity.
  - rewrite seq_length. exact Hn.
  - intros i Hi. apply in_seq in Hi. lia.
Qed.

Lemma roundtrip_rows : forall tag dt tail rows f stride,
  save tag (Ra dt tail rows) = Some f -> (1 <= stride)%Z -> rows <> [] ->
  loaded_rows (load f None stride) = Some (map (strided stride) rows)
  /\ loaded_meta (load f None stride) = Some (dt, tail).
Proof.
  intros tag dt tail rows f stride Hsave Hs Hne.
  rewrite (load_all_is_subset_all _ _ _ _ _ _ Hsave).
  pose proof (load_subset_rows tag dt tail rows f (seq 0 (length rows)) stride Hsave Hs) as H.
  cbv zeta in H. rewrite (map_nth_rows (strided stride)) in H. apply H.
  - destruct rows; [congruence|]. cbn [length seq]. discriminate.
  - intros i Hi. apply in_seq in Hi. lia.
Qed.

(* the headline: save then load gives back the rows, in order, with their lengths, dtype and
   element shape -- for any number of rows *)
Lemma roundtrip_identity : forall tag dt tail rows f,
  save tag (Ra dt tail rows) = Some f -> rows <> [] ->
  loaded_rows (load f None 1) = Some rows /\ loaded_meta (load f None 1) = Some (dt, tail).
Proof.
  intros tag dt tail rows f Hsave Hne.
  destruct (roundtrip_rows tag dt tail rows f 1 Hsave ltac:(lia) Hne) as [H1 H2].
  split; [|exact H2]. rewrite H1. f_equal. rewrite <- (map_id rows) at 2. apply map_ext. intros r. apply strided_one.
Qed.

(* loading with a stride = slicing the full load row by row (and the reported row lengths are
   the lengths of those slices) *)
Lemma load_stride_eq_slice : forall tag dt tail rows f stride full,
  save tag (Ra dt tail rows) = Some f -> (1 <= stride)%Z -> rows <> [] ->
  loaded_rows (load f None 1) = Some full ->
  loaded_rows (load f None stride) = Some (map (strided stride) full).
Proof.
  intros tag dt tail rows f stride full Hsave Hs Hne Hfull.
  destruct (roundtrip_identity tag dt tail rows f Hsave Hne) as [H1 _].
  rewrite H1 in Hfull. injection Hfull as <-.
  apply (roundtrip_rows tag dt tail rows f stride Hsave Hs Hne).
Qed.

Lemma lengths_are_ceil : forall tag dt tail rows f stride,
  save tag (Ra dt tail rows) = Some f -> (1 <= stride)%Z -> 2 <= length rows ->
  exists data, load f None stride = LRa dt tail (map (fun r => ceil_len (length r) stride) rows) data.
Proof.
  intros tag dt tail rows f stride Hsave Hs Hn. eexists.
  rewrite (roundtrip_many _ _ _ _ _ _ Hsave Hs Hn). f_equal.
  apply map_ext. intros r. apply strided_length. exact Hs.
Qed.

(* an ndarray is stored as the single node <tag>_0 and comes back as an ndarray *)
Lemma roundtrip_ndarray : forall tag dt tail elems f stride,
  save tag (Nd dt tail elems) = Some f -> (1 <= stride)%Z ->
  load f None stride = LNd dt tail (strided stride elems).
Proof.
  intros tag dt tail elems f stride Hsave Hs. cbn [save] in Hsave.
  destruct (has_zero_dim _ _); [discriminate|]. injection Hsave as <-.
  unfold load. cbn [map nkey sort_keys fold_right insert_key].
  assert (E : (stride <? 1)%Z = false) by (apply Z.ltb_ge; lia). rewrite E.
  cbn [find_node nkey].
  assert (E2 : str_eqb (key tag 1 0) (key tag 1 0) = true) by (apply str_eqb_eq; reflexivity).
  rewrite E2. reflexivity.
Qed.

(* save rejects exactly the arrays with an empty row / zero dimension *)
Lemma save_ra_defined : forall tag dt tail rows,
  (forall r, In r rows -> r <> []) -> (forall d, In d tail -> d <> 0) ->
  exists f, save tag (Ra dt tail rows) = Some f.
Proof.
  intros tag dt tail rows Hr Ht. cbn [save].
  destruct (existsb (fun r => has_zero_dim (length r) tail) rows) eqn:E; [|eexists; reflexivity].
  apply existsb_exists in E. destruct E as [r [Hin Hz]]. unfold has_zero_dim in Hz.
  apply orb_true_iff in Hz. destruct Hz as [Hz|Hz].
  - apply Nat.eqb_eq in Hz. destruct r; [exfalso; apply (Hr [] Hin); reflexivity|discriminate].
  - apply existsb_exists in Hz. destruct Hz as [d [Hd Hd0]]. apply Nat.eqb_eq in Hd0. subst d.
    exfalso. apply (Ht 0 Hd). reflexivity.
Qed.

(* ------------------------------------------------------------------ striped loaders *)
Lemma pick_map {A B} (g : A -> B) (l : list A) (i : Z) : pick (map g l) i = map g (pick l i).
Proof.
  unfold pick. destruct (i <? 0)%Z; [reflexivity|]. rewrite nth_error_map.
  destruct (nth_error l (Z.to_nat i)); reflexivity.
Qed.

Lemma slice_list_map {A B} (g : A -> B) (l : list A) a b c :
  slice_list (map g l) a b c = map g (slice_list l a b c).
Proof.
  unfold slice_list. rewrite map_length. induction (slice_indices (length l) a b c) as [|i r IH]; [reflexivity|].
  cbn [flat_map]. rewrite map_app, pick_map, IH. reflexivity.
Qed.

Lemma stripe_map {A B} (g : A -> B) rank size (l : list A) : stripe rank size (map g l) = map g (stripe rank size l).
Proof. apply slice_list_map. Qed.

Lemma stripe_0_1 {A} (l : list A) : stripe 0 1 l = l.
Proof.
  rewrite <- (strided_one l) at 2. unfold stripe, strided, slice_list, slice_indices, step_of, adjust.
  cbn [Z.of_nat Z.ltb Z.compare]. rewrite Z.min_l by lia. reflexivity.
Qed.

(* load_npy_as_striped, any rank / world size: the rank's files, strided, concatenated in file
   order; the global lengths are the strided lengths of ALL files *)
Lemma npy_striped_correct : forall rank size dt tail (arrays : list (list elem)) stride,
  (1 <= stride)%Z -> stripe rank size arrays <> [] -> arrays <> [] ->
  load_npy_as_striped rank size (map (fun a => (dt, tail, a)) arrays) stride
  = inr (map (fun a => length (strided stride a)) arrays,
         concat (map (strided stride) (stripe rank size arrays))).
Proof.
  intros rank size dt tail arrays stride Hs Hloc Hne. unfold load_npy_as_striped.
  destruct arrays as [|a0 arrays']; [congruence|]. cbn [map]. fold (map (fun a : list elem => (dt, tail, a)) arrays').
  change ((dt, tail, a0) :: map (fun a => (dt, tail, a)) arrays') with (map (fun a : list elem => (dt, tail, a)) (a0 :: arrays')).
  set (arrays := a0 :: arrays') in *.
  assert (F1 : forallb (fun x : nat * list nat * list elem => nl_eqb (snd (fst x)) tail) (map (fun a => (dt, tail, a)) arrays) = true).
  { apply forallb_forall. intros x Hx. apply in_map_iff in Hx. destruct Hx as [a [<- _]]. apply nl_eqb_refl. }
  assert (F2 : forallb (fun x : nat * list nat * list elem => fst (fst x) =? dt) (map (fun a => (dt, tail, a)) arrays) = true).
  { apply forallb_forall. intros x Hx. apply in_map_iff in Hx. destruct Hx as [a [<- _]]. apply Nat.eqb_refl. }
  rewrite F1, F2. cbn [negb].
  assert (E : (stride <? 1)%Z = false) by (apply Z.ltb_ge; lia). rewrite E.
  rewrite stripe_map, !map_map. cbn [snd].
  assert (EL : map (fun a : list elem => ceil_len (length a) stride) arrays
               = map (fun a => length (strided stride a)) arrays).
  { apply map_ext. intros a. symmetry. apply strided_length. exact Hs. }
  change (ceil_len (length a0) stride :: map (fun x : list elem => ceil_len (length x) stride) arrays')
    with (map (fun a : list elem => ceil_len (length a) stride) arrays).
  change (length (strided stride a0) :: map (fun a : list elem => length (strided stride a)) arrays')
    with (map (fun a : list elem => length (strided stride a)) arrays).
  rewrite EL, stripe_map.
  destruct (map (fun x => strided stride x) (stripe rank size arrays)) as [|b0 bs] eqn:EB.
  { apply map_eq_nil in EB. congruence. }
  rewrite <- EB.
  assert (ES : map (fun a => length (strided stride a)) (stripe rank size arrays)
               = map (@length elem) (map (fun x => strided stride x) (stripe rank size arrays)))
    by (rewrite map_map; reflexivity).
  rewrite ES, fill_from_zero, repeat_length, Nat.eqb_refl. reflexivity.
Qed.

Lemma find_all_saved_f : forall tag dt tail rows f idxs,
  save tag (Ra dt tail rows) = Some f -> (forall i, In i idxs -> i < length rows) ->
  find_all f (map (key tag (n_zeros (length rows))) idxs)
  = Some (map (node_of tag dt tail (n_zeros (length rows)) rows 0) idxs).
Proof.
  intros tag dt tail rows f idxs Hsave Hi. rewrite (save_ra_inv _ _ _ _ _ Hsave).
  apply find_all_saved; [exact Hi|]. intros j Hj. apply n_zeros_fits. exact Hj.
Qed.

(* load_h5_as_striped with one rank (the only world size that can be executed here): all rows,
   strided, and -- after the repair of D17 -- global lengths that are the strided lengths *)
Lemma h5_striped_world1 : forall tag dt tail rows f stride,
  save tag (Ra dt tail rows) = Some f -> (1 <= stride)%Z -> 2 <= length rows ->
  load_h5_as_striped 0 1 f stride
  = inr (map (fun r => length (strided stride r)) rows, concat (map (strided stride) rows)).
Proof.
  intros tag dt tail rows f stride Hsave Hs Hn. unfold load_h5_as_striped.
  assert (Hin : forall i, In i (seq 0 (length rows)) -> i < length rows)
    by (intros i Hi; apply in_seq in Hi; lia).
  rewrite (listing_is_row_order _ _ _ _ _ Hsave).
  rewrite (find_all_saved_f _ _ _ _ _ _ Hsave Hin).
  rewrite stripe_0_1.
  rewrite (load_subset_many _ _ _ _ _ _ _ Hsave Hs) by (try exact Hin; rewrite seq_length; exact Hn).
  rewrite map_map. unfold node_of. cbn [nrows].
  rewrite (map_nth_rows (strided stride)). f_equal. f_equal.
  rewrite <- (map_nth_rows (fun r => length (strided stride r)) rows).
  apply map_ext. intros i. rewrite Nat.sub_0_r. symmetry. apply strided_length. exact Hs.
Qed.

(* ------------------------------------------------------------------ load_as_concatenated, with mdtraj's
   md.load(stride=s) read as "the frames on disk, sliced [::s]" *)
Definition trj_of_disk (disk : list elem) (stride : Z) : trjfile :=
  mkTrj (length disk) stride false (strided stride disk).

Lemma lac_correct_disk : forall sched zero (disks : list (list elem * Z)),
  Permutation sched (seq 0 (length disks)) ->
  (forall d, In d disks -> (1 <= snd d)%Z) ->
  load_as_concatenated sched None zero (map (fun d => trj_of_disk (fst d) (snd d)) disks)
  = inr (map (fun d => ceil_len (length (fst d)) (snd d)) disks,
         concat (map (fun d => strided (snd d) (fst d)) disks)).
Proof.
  intros sched zero disks HP Hs.
  rewrite (lac_correct_gen sched None zero).
  - rewrite !map_map. f_equal. f_equal. unfold trj_of_disk. cbn [t_loaded].
    apply map_ext_in. intros d Hd. apply strided_length. apply Hs. exact Hd.
  - rewrite map_length. exact HP.
  - intros t Ht. apply in_map_iff in Ht. destruct Ht as [d [<- Hd]].
    unfold trj_of_disk, sounded. cbn [t_loaded t_frame_kw t_nframes t_stride].
    apply strided_length. apply Hs. exact Hd.
  - left. reflexivity.
Qed.

(* PyTables' listing does not depend on the order in which HDF5 holds (or save created) the nodes *)
Lemma listing_any_creation_order : forall tag n l,
  Permutation l (map (key tag (n_zeros n)) (seq 0 n)) ->
  sort_keys l = map (key tag (n_zeros n)) (seq 0 n).
Proof. intros tag n l HP. apply sort_keys_of_perm; [exact HP|apply keys_strongly_sorted]. Qed.

(* explicit interval form of "windows are disjoint": a later job starts where the earlier ones end *)
Lemma sum_firstn_le : forall l i j, i <= j -> sum_nat (firstn i l) <= sum_nat (firstn j l).
Proof.
  induction l as [|x l IH]; intros i j H.
  - rewrite !firstn_nil. lia.
  - destruct i as [|i]; [cbn [firstn sum_nat fold_right]; lia|].
    destruct j as [|j]; [lia|].
    change (firstn (S i) (x :: l)) with (x :: firstn i l).
    change (firstn (S j) (x :: l)) with (x :: firstn j l).
    change (sum_nat (x :: firstn i l)) with (x + sum_nat (firstn i l)).
    change (sum_nat (x :: firstn j l)) with (x + sum_nat (firstn j l)).
    specialize (IH i j). lia.
Qed.

Lemma sum_firstn_S : forall l i, i < length l -> sum_nat (firstn (S i) l) = sum_nat (firstn i l) + nth i l 0.
Proof.
  induction l as [|x l IH]; intros i H; cbn [length] in H; [lia|].
  destruct i as [|i]; [cbn [firstn sum_nat fold_right nth]; lia|].
  change (firstn (S (S i)) (x :: l)) with (x :: firstn (S i) l).
  change (firstn (S i) (x :: l)) with (x :: firstn i l).
  change (nth (S i) (x :: l) 0) with (nth i l 0).
  change (sum_nat (x :: firstn (S i) l)) with (x + sum_nat (firstn (S i) l)).
  change (sum_nat (x :: firstn i l)) with (x + sum_nat (firstn i l)).
  rewrite IH by lia. lia.
Qed.

Lemma map_seq_nth {A} : forall (g : nat -> A) n i d, i < n -> nth i (map g (seq 0 n)) d = g i.
Proof.
  intros g n i d H. rewrite (nth_indep _ d (g 0)) by (rewrite map_length, seq_length; exact H).
  rewrite (map_nth g), seq_nth by exact H. reflexivity.
Qed.

Lemma offsets_nth : forall lengths i, i < length lengths -> nth i (offsets lengths) 0 = sum_nat (firstn i lengths).
Proof. intros lengths i H. unfold offsets. apply (map_seq_nth (fun i => sum_nat (firstn i lengths))). exact H. Qed.

Lemma windows_disjoint : forall lengths i j,
  i < j -> j < length lengths ->
  nth i (offsets lengths) 0 + nth i lengths 0 <= nth j (offsets lengths) 0
  /\ nth j (offsets lengths) 0 + nth j lengths 0 <= sum_nat lengths.
Proof.
  intros lengths i j Hij Hj. rewrite !offsets_nth by lia. split.
  - rewrite <- sum_firstn_S by lia. apply sum_firstn_le. lia.
  - rewrite <- sum_firstn_S by lia. rewrite <- (firstn_all lengths) at 2. apply sum_firstn_le. lia.
Qed.
