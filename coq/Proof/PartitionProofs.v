(* C10 proofs *)
From Coq Require Import List ZArith QArith Bool Arith Lia Lqa.
From EV Require Import PySlice PySliceLemmas PartitionBase PartitionGen Cluster ClusterBase Partition.
Import ListNotations.
Open Scope Z_scope.

Definition nonneg (lens : list Z) : Prop := Forall (fun l => 0 <= l) lens.

Lemma zsum_nonneg lens : nonneg lens -> 0 <= zsum lens.
Proof. induction 1 as [|x l Hx Hl IH]; unfold zsum in *; cbn [fold_right]; lia. Qed.

Lemma zsum_app a b : zsum (a ++ b) = zsum a + zsum b.
Proof. induction a as [|x a IH]; unfold zsum in *; cbn [app fold_right]; lia. Qed.

Lemma nonneg_firstn t lens : nonneg lens -> nonneg (firstn t lens).
Proof.
  intros Hn. revert t. induction Hn as [|x l Hx Hl IH]; intros [|t]; cbn [firstn]; try constructor; auto.
  apply IH.
Qed.

(* ---------------------------------------------------------------- partition_indices *)
Lemma pi_inner_cons_lt l r i t : i < l -> pi_inner gen_pi_test gen_pi_upd (l :: r) i t = Some (t, i).
Proof.
  intros H. cbn [pi_inner]. assert (E : gen_pi_test l i = true) by (unfold gen_pi_test; apply Z.ltb_lt; exact H).
  rewrite E. reflexivity.
Qed.
Lemma pi_inner_cons_ge l r i t : l <= i ->
  pi_inner gen_pi_test gen_pi_upd (l :: r) i t = pi_inner gen_pi_test gen_pi_upd r (i - l) (t + 1).
Proof.
  intros H. cbn [pi_inner]. assert (E : gen_pi_test l i = false) by (unfold gen_pi_test; apply Z.ltb_ge; exact H).
  rewrite E. reflexivity.
Qed.

Lemma pi_inner_spec lens : forall i t0,
  nonneg lens -> 0 <= i < zsum lens ->
  exists t f, pi_inner gen_pi_test gen_pi_upd lens i t0 = Some (t0 + Z.of_nat t, f) /\
              (t < length lens)%nat /\ 0 <= f < nth t lens 0 /\ i = flat_of lens t f.
Proof.
  induction lens as [|l r IH]; intros i t0 Hn Hi; [cbn in Hi; lia|].
  inversion Hn as [|? ? Hl Hr]; subst.
  destruct (Z.lt_ge_cases i l) as [Hlt|Hge].
  - rewrite pi_inner_cons_lt by exact Hlt.
    exists 0%nat, i. cbn [nth length]. split; [f_equal; f_equal; lia|]. split; [lia|]. split; [lia|].
    unfold flat_of. cbn. lia.
  - rewrite pi_inner_cons_ge by exact Hge. cbn [zsum fold_right] in Hi.
    destruct (IH (i - l) (t0 + 1) Hr) as [t [f [E [Ht [Hf Hflat]]]]]; [unfold zsum; lia|].
    exists (S t), f. split; [rewrite E; f_equal; f_equal; lia|]. split; [cbn; lia|]. split; [exact Hf|].
    unfold flat_of in *. cbn [firstn zsum fold_right]. unfold zsum in Hflat. lia.
Qed.

(* an index beyond the data is silently dropped (observation, outside the property's domain) *)
Lemma pi_inner_out_of_range lens : forall i t0, nonneg lens -> zsum lens <= i ->
  pi_inner gen_pi_test gen_pi_upd lens i t0 = None.
Proof.
  induction lens as [|l r IH]; intros i t0 Hn Hi; [reflexivity|].
  inversion Hn as [|? ? Hl Hr]; subst. cbn [zsum fold_right] in *.
  pose proof (zsum_nonneg r Hr) as P. unfold zsum in P.
  rewrite pi_inner_cons_ge by lia. apply IH; [exact Hr|unfold zsum; lia].
Qed.

(* (t, f) is determined by the flat index *)
Lemma flat_of_inj lens : forall t t' f f', nonneg lens ->
  (t < length lens)%nat -> (t' < length lens)%nat -> 0 <= f < nth t lens 0 -> 0 <= f' < nth t' lens 0 ->
  flat_of lens t f = flat_of lens t' f' -> t = t' /\ f = f'.
Proof.
  induction lens as [|l r IH]; intros t t' f f' Hn Ht Ht' Hf Hf' E; [cbn in Ht; lia|].
  inversion Hn as [|? ? Hl Hr]; subst. unfold flat_of in *.
  destruct t as [|t]; destruct t' as [|t']; cbn [firstn zsum fold_right nth length] in *.
  - split; [reflexivity|lia].
  - pose proof (zsum_nonneg (firstn t' r) (nonneg_firstn t' r Hr)) as P. unfold zsum in P. lia.
  - pose proof (zsum_nonneg (firstn t r) (nonneg_firstn t r Hr)) as P. unfold zsum in P. lia.
  - destruct (IH t t' f f' Hr ltac:(lia) ltac:(lia) Hf Hf') as [-> ->]; [unfold zsum; lia|]. auto.
Qed.

Theorem partition_indices_spec lens i :
  nonneg lens -> 0 <= i < zsum lens ->
  exists t f, gen_partition_indices [i] lens = [(Z.of_nat t, f)] /\
              (t < length lens)%nat /\ 0 <= f < nth t lens 0 /\ flat_of lens t f = i.
Proof.
  intros Hn Hi. destruct (pi_inner_spec lens i 0 Hn Hi) as [t [f [E [Ht [Hf Hflat]]]]].
  exists t, f. unfold gen_partition_indices, pi_outer. cbn [flat_map]. rewrite E. cbn [app].
  repeat split; auto; lia.
Qed.

Theorem partition_indices_map lens indices :
  nonneg lens -> Forall (fun i => 0 <= i < zsum lens) indices ->
  length (gen_partition_indices indices lens) = length indices /\
  forall k, (k < length indices)%nat ->
    exists t f, nth k (gen_partition_indices indices lens) (0, 0) = (Z.of_nat t, f) /\
                (t < length lens)%nat /\ 0 <= f < nth t lens 0 /\ flat_of lens t f = nth k indices 0.
Proof.
  intros Hn. induction 1 as [|i indices Hi Hrest IH].
  - split; [reflexivity|]. intros k Hk. cbn in Hk. lia.
  - destruct (pi_inner_spec lens i 0 Hn Hi) as [t [f [E [Ht [Hf Hflat]]]]].
    destruct IH as [IHl IHk].
    unfold gen_partition_indices, pi_outer in *. cbn [flat_map]. rewrite E. cbn [app length].
    split; [f_equal; exact IHl|].
    intros [|k] Hk; cbn [nth].
    + exists t, f. repeat split; auto; lia.
    + apply IHk. cbn in Hk. lia.
Qed.

Lemma flat_of_range lens t f :
  nonneg lens -> (t < length lens)%nat -> 0 <= f < nth t lens 0 -> 0 <= flat_of lens t f < zsum lens.
Proof.
  revert t. induction lens as [|l r IH]; intros t Hn Ht Hf; [cbn in Ht; lia|].
  inversion Hn as [|? ? Hl Hr]; subst. unfold flat_of in *.
  destruct t as [|t]; cbn [firstn zsum fold_right nth length] in *.
  - pose proof (zsum_nonneg r Hr) as P. unfold zsum in P. lia.
  - specialize (IH t Hr ltac:(lia) Hf). unfold zsum in IH. lia.
Qed.

(* the reverse direction: the pair addressing a frame maps back from its flat index *)
Theorem partition_roundtrip lens t f :
  nonneg lens -> (t < length lens)%nat -> 0 <= f < nth t lens 0 ->
  gen_partition_indices [flat_of lens t f] lens = [(Z.of_nat t, f)].
Proof.
  intros Hn Ht Hf.
  pose proof (flat_of_range lens t f Hn Ht Hf) as Hi.
  destruct (partition_indices_spec lens _ Hn Hi) as [t' [f' [E [Ht' [Hf' Hflat]]]]].
  destruct (flat_of_inj lens t' t f' f Hn Ht' Ht Hf' Hf Hflat) as [-> ->]. exact E.
Qed.

(* ---------------------------------------------------------------- partition_list *)
Lemma firstn_snoc_nth {A} (d : A) : forall (l : list A) (m : nat),
  (m < length l)%nat -> firstn (S m) l = firstn m l ++ [nth m l d].
Proof.
  induction l as [|x l IH]; intros m H; [cbn in H; lia|].
  destruct m as [|m]; [reflexivity|]. cbn [firstn nth app]. f_equal. apply IH. cbn in H. lia.
Qed.

Lemma nth_skipn_add {A} (d : A) : forall (s k : nat) (l : list A), nth k (skipn s l) d = nth (s + k) l d.
Proof.
  induction s as [|s IH]; intros k l; [reflexivity|].
  destruct l as [|x l]; [cbn; destruct k; reflexivity|]. cbn [skipn Nat.add nth]. apply IH.
Qed.

Lemma skipn_add {A} : forall (b a : nat) (l : list A), skipn a (skipn b l) = skipn (b + a) l.
Proof.
  induction b as [|b IH]; intros a l; [reflexivity|].
  destruct l as [|x l]; [cbn; destruct a; reflexivity|]. cbn [skipn Nat.add]. apply IH.
Qed.

Lemma map_nth_firstn_skipn {A} (l : list A) (d : A) : forall (m s : nat),
  (s + m <= length l)%nat ->
  map (fun k => nth (s + k) l d) (seq 0 m) = firstn m (skipn s l).
Proof.
  induction m as [|m IH]; intros s H; [reflexivity|].
  rewrite seq_S, map_app. cbn [map]. rewrite IH by lia.
  assert (Hl : (m < length (skipn s l))%nat) by (rewrite skipn_length; lia).
  rewrite (firstn_snoc_nth d) by exact Hl. f_equal. f_equal. rewrite nth_skipn_add. reflexivity.
Qed.

Lemma slice_list_range {A} (l : list A) (s e : Z) :
  0 <= s <= e -> e <= Z.of_nat (length l) ->
  slice_list l (Some s) (Some e) None = firstn (Z.to_nat (e - s)) (skipn (Z.to_nat s) l).
Proof.
  intros Hs He. destruct l as [|d l'] eqn:El.
  - cbn in He. assert (s = 0) by lia. assert (e = 0) by lia. subst. reflexivity.
  - rewrite <- El in *.
    rewrite (slice_list_pos l d (Some s) (Some e) None s e).
    + cbn [step_of]. unfold range_len. cbn [Z.ltb Z.compare]. rewrite Z.div_1_r.
      replace (e - s + 1 - 1) with (e - s) by lia.
      rewrite <- (map_nth_firstn_skipn l d (Z.to_nat (e - s)) (Z.to_nat s)) by lia.
      apply map_ext_in. intros k Hk. apply in_seq in Hk. f_equal. lia.
    + cbn. lia.
    + unfold adjust, step_of. cbn [Z.ltb Z.compare].
      destruct (s <? 0) eqn:E1; [lia|]. destruct (e <? 0) eqn:E2; [lia|]. f_equal; lia.
    + lia.
    + lia.
Qed.

Lemma pl_loop_spec {A} (lens : list Z) : forall (l : list A) start,
  nonneg lens -> 0 <= start -> start + zsum lens = Z.of_nat (length l) ->
  concat (pl_loop gen_pl_stop gen_pl_next l lens start) = skipn (Z.to_nat start) l /\
  map (fun r => Z.of_nat (length r)) (pl_loop gen_pl_stop gen_pl_next l lens start) = lens.
Proof.
  induction lens as [|len r IH]; intros l start Hn Hs Hsum.
  - cbn [zsum fold_right] in Hsum. cbn [pl_loop concat map]. split; [|reflexivity].
    symmetry. apply skipn_all2. lia.
  - inversion Hn as [|? ? Hl Hr]; subst. cbn [zsum fold_right] in Hsum. cbn [pl_loop concat map].
    unfold gen_pl_stop, gen_pl_next. fold (@gen_pl_stop) (@gen_pl_next).
    pose proof (zsum_nonneg r Hr) as Hz. unfold zsum in Hz, Hsum.
    rewrite slice_list_range by lia.
    destruct (IH l (start + len) Hr ltac:(lia) ltac:(unfold zsum; lia)) as [IH1 IH2].
    change (fun start0 cur_len : Z => start0 + cur_len) with gen_pl_stop.
    change (fun _ stop : Z => stop) with gen_pl_next.
    rewrite IH1, IH2. replace (start + len - start) with len by lia. split.
    + replace (Z.to_nat (start + len)) with (Z.to_nat start + Z.to_nat len)%nat by lia.
      rewrite <- skipn_add. apply firstn_skipn.
    + f_equal. rewrite firstn_length, skipn_length. lia.
Qed.

Theorem partition_list_concat {A} (l : list A) lens :
  nonneg lens -> zsum lens = Z.of_nat (length l) ->
  exists rows, gen_partition_list l lens = Some rows /\ concat rows = l /\
               map (fun r => Z.of_nat (length r)) rows = lens.
Proof.
  intros Hn Hsum. unfold gen_partition_list. fold (zsum lens). rewrite Hsum, Z.eqb_refl. cbn [negb].
  eexists. split; [reflexivity|]. apply (pl_loop_spec lens l 0 Hn); lia.
Qed.

Theorem partition_list_rejects {A} (l : list A) lens :
  zsum lens <> Z.of_nat (length l) -> gen_partition_list l lens = None.
Proof.
  intros H. unfold gen_partition_list. fold (zsum lens).
  destruct (Z.eqb_spec (zsum lens) (Z.of_nat (length l))); [congruence|reflexivity].
Qed.

(* ---------------------------------------------------------------- find_cluster_centers *)
Lemma argmin_label_spec c l : forall best,
  (forall b, best = Some b -> lab b = c) ->
  match argmin_label c best l with
  | None => best = None /\ forall x, In x l -> lab x <> c
  | Some m => lab m = c /\ (best = Some m \/ In m l) /\
              (forall b, best = Some b -> (dist m <= dist b)%Q) /\
              (forall x, In x l -> lab x = c -> (dist m <= dist x)%Q)
  end.
Proof.
  induction l as [|x l IH]; intros best Hb; cbn [argmin_label].
  - destruct best as [b|].
    + split; [apply Hb; reflexivity|]. split; [left; reflexivity|]. split.
      * intros b' E. injection E as <-. lra.
      * intros y [].
    + split; [reflexivity|]. intros y [].
  - destruct (Nat.eqb_spec (lab x) c) as [El|Nl].
    + destruct best as [b|].
      * qlt_cases (dist x) (dist b) E.
        -- specialize (IH (Some x) ltac:(intros b' E'; injection E' as <-; exact El)).
           destruct (argmin_label c (Some x) l) as [m|]; [|destruct IH; discriminate].
           destruct IH as [H1 [H2 [H3 H4]]]. split; [exact H1|]. split; [|split].
           ++ right. destruct H2 as [H2|H2]; [injection H2 as <-; left; reflexivity|right; exact H2].
           ++ intros b' E'. injection E' as <-. specialize (H3 x eq_refl). lra.
           ++ intros y [<-|Hy] Hl; [apply H3; reflexivity|apply H4; assumption].
        -- specialize (IH (Some b) Hb).
           destruct (argmin_label c (Some b) l) as [m|]; [|destruct IH; discriminate].
           destruct IH as [H1 [H2 [H3 H4]]]. split; [exact H1|]. split; [|split].
           ++ destruct H2 as [H2|H2]; [left; exact H2|right; right; exact H2].
           ++ exact H3.
           ++ intros y [<-|Hy] Hl; [specialize (H3 b eq_refl); lra|apply H4; assumption].
      * specialize (IH (Some x) ltac:(intros b' E'; injection E' as <-; exact El)).
        destruct (argmin_label c (Some x) l) as [m|]; [|destruct IH; discriminate].
        destruct IH as [H1 [H2 [H3 H4]]]. split; [exact H1|]. split; [|split].
        -- right. destruct H2 as [H2|H2]; [injection H2 as <-; left; reflexivity|right; exact H2].
        -- intros b' E'. discriminate.
        -- intros y [<-|Hy] Hl; [apply H3; reflexivity|apply H4; assumption].
    + specialize (IH best Hb). destruct (argmin_label c best l) as [m|].
      * destruct IH as [H1 [H2 [H3 H4]]]. split; [exact H1|]. split; [|split].
        -- destruct H2 as [H2|H2]; [left; exact H2|right; right; exact H2].
        -- exact H3.
        -- intros y [<-|Hy] Hl; [congruence|apply H4; assumption].
      * destruct IH as [H1 H2]. split; [exact H1|]. intros y [<-|Hy]; [exact Nl|apply H2; exact Hy].
Qed.

(* per label present: a member frame of smallest distance *)
Theorem find_centers_min c l :
  match argmin_label c None l with
  | None => forall x, In x l -> lab x <> c
  | Some m => In m l /\ lab m = c /\ forall x, In x l -> lab x = c -> (dist m <= dist x)%Q
  end.
Proof.
  pose proof (argmin_label_spec c l None ltac:(intros b E; discriminate)) as H.
  destruct (argmin_label c None l) as [m|].
  - destruct H as [H1 [[H2|H2] [_ H4]]]; [discriminate|]. auto.
  - apply H.
Qed.

(* ---------------------------------------------------------------- compute_batches *)
Lemma cb_loop_concat bs lens : forall i cur_sz cur done,
  concat (cb_loop bs lens i cur_sz cur done) = concat done ++ cur ++ seq i (length lens).
Proof.
  induction lens as [|l r IH]; intros i cur_sz cur done; cbn [cb_loop length seq].
  - rewrite concat_app. cbn. rewrite !app_nil_r. reflexivity.
  - destruct (cur_sz + l <? bs).
    + rewrite IH. rewrite <- !app_assoc. reflexivity.
    + rewrite IH. rewrite concat_app. cbn [concat]. rewrite app_nil_r, <- !app_assoc. reflexivity.
Qed.

(* batches are consecutive: concatenated they are exactly the trajectory indices in input order *)
Theorem compute_batches_order lens bs : concat (compute_batches lens bs) = seq 0 (length lens).
Proof. unfold compute_batches. rewrite cb_loop_concat. reflexivity. Qed.
