(* C01: consequences of the consistency invariant that a user reads off the result:
   no cluster is empty, labels are exactly 0..k-1, k <= n. *)
From Coq Require Import List ZArith QArith Bool Arith Lia Lqa.
From EV Require Import Cluster ClusterBase ClusterInv ClusterTop.
Import ListNotations.

Section NonEmpty.
  Variable D : nat -> nat -> Q.

  (* every label 0..k-1 is carried by at least one frame: the centre of that cluster *)
  Theorem every_label_used n s : Inv D n s -> forall j, (j < length (fst s))%nat ->
    exists f, (f < n)%nat /\ f = ctr (fst s) j /\ lab (nth f (snd s) (mkfr 0 0 0)) = j /\
              dist (nth f (snd s) (mkfr 0 0 0)) == 0.
  Proof.
    intros HI j Hj. pose proof (inv_meaning D n s HI) as [Hlen [Hnd [Hlt Hf]]].
    assert (Hin : In (ctr (fst s) j) (fst s)) by (unfold ctr; apply nth_In; exact Hj).
    pose proof (Hlt _ Hin) as Hc. exists (ctr (fst s) j). split; [exact Hc|]. split; [reflexivity|].
    destruct (Hf _ Hc) as [_ [_ [_ [_ Hown]]]]. apply (Hown j Hj). reflexivity.
  Qed.

  (* hence there are never more clusters than frames *)
  Theorem k_le_n n s : Inv D n s -> (length (fst s) <= n)%nat.
  Proof.
    intros HI. pose proof (inv_meaning D n s HI) as [_ [Hnd [Hlt _]]].
    rewrite <- (seq_length n 0). apply NoDup_incl_length; [exact Hnd|].
    intros c Hc. apply in_seq. specialize (Hlt c Hc). lia.
  Qed.

  (* two different clusters have different centre frames *)
  Theorem centres_distinct n s : Inv D n s -> forall i j, (i < length (fst s))%nat -> (j < length (fst s))%nat ->
    ctr (fst s) i = ctr (fst s) j -> i = j.
  Proof.
    intros HI i j Hi Hj E. pose proof (inv_meaning D n s HI) as [_ [Hnd _]].
    unfold ctr in E. apply (proj1 (NoDup_nth (fst s) 0%nat) Hnd i j Hi Hj E).
  Qed.
End NonEmpty.
