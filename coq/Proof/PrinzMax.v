(* C12: the value each coordinate update stores is the coordinate-wise MAXIMUM of the log-likelihood
   (not merely a stationary point).  The coordinate log-likelihood is NOT concave in general
   (coordinate_loglik_not_concave); what holds is that its derivative is positive to the left of the
   stored value and negative to the right of it, which gives a strict global maximum on x > 0 by the
   mean value theorem. *)
From Coq Require Import List ZArith Reals Lra Lia Bool Arith.
From EV Require Import Prinz PrinzGen PrinzProofs.
Import ListNotations.
Open Scope R_scope.

(* ------------------------------------------------------------------ sign of the code's quadratic *)
Lemma quad_sign a b c w :
  0 < a -> c <= 0 -> let v := root a b c in 0 < v -> 0 < w ->
  (w < v -> a * w * w + b * w + c < 0) /\ (v < w -> 0 < a * w * w + b * w + c).
Proof.
  intros Ha Hc v Hv Hw. destruct (quad_root a b c Ha Hc) as [Hq _]. fold v in Hq.
  assert (H2 : 0 <= a * v + b).
  { destruct (Rle_or_lt 0 (a * v + b)) as [H | H]; [exact H | exfalso].
    assert (0 < v * - (a * v + b)) by (apply Rmult_lt_0_compat; lra).
    lra. }
  assert (H3 : 0 < a * (w + v) + b).
  { assert (0 < a * w) by (apply Rmult_lt_0_compat; assumption). lra. }
  assert (E : a * w * w + b * w + c = (w - v) * (a * (w + v) + b) + (a * v * v + b * v + c)) by ring.
  rewrite Hq in E. set (K := a * (w + v) + b) in *.
  split; intros H; rewrite E.
  - assert (0 < (v - w) * K) by (apply Rmult_lt_0_compat; lra). lra.
  - assert (0 < (w - v) * K) by (apply Rmult_lt_0_compat; lra). lra.
Qed.

Lemma pos_factor P D : 0 < P -> (0 < P * D -> 0 < D) /\ (P * D < 0 -> D < 0).
Proof.
  intros HP. split; intros H.
  - destruct (Rlt_or_le 0 D) as [|Hn]; [assumption | exfalso].
    assert (0 <= P * - D) by (apply Rmult_le_pos; lra). lra.
  - destruct (Rlt_or_le D 0) as [|Hn]; [assumption | exfalso].
    assert (0 <= P * D) by (apply Rmult_le_pos; lra). lra.
Qed.

(* ------------------------------------------------------------------ pairwise coordinate *)
Section OffDiag.
  Variables cij cji ci cj xi xj xij xji : R.
  Hypothesis Hs : 0 <= cij + cji.
  Hypothesis Hri : 0 <= xi - xij.
  Hypothesis Hrj : 0 <= xj - xij.
  Hypothesis Ha : qa cij cji ci cj > 0.
  Let ri := xi - xij.
  Let rj := xj - xij.
  Let v := fst (fst (fst (py_offdiag ROps cij cji ci cj xi xj xij xji))).

  Lemma offdiag_c_le0 : qc cij cji xi xj xij <= 0.
  Proof.
    unfold qc. assert (0 <= (cij + cji) * (xi - xij) * (xj - xij))
      by (apply Rmult_le_pos; [apply Rmult_le_pos|]; assumption). lra.
  Qed.

  Lemma offdiag_v_root : v = root (qa cij cji ci cj) (qb cij cji ci cj xi xj xij) (qc cij cji xi xj xij).
  Proof.
    unfold v. rewrite py_offdiag_spec by exact offdiag_c_le0. cbn [fst]. unfold newv.
    destruct (Req_EM_T (qa cij cji ci cj) 0); [lra | reflexivity].
  Qed.

  (* derivative_sign: the derivative of the coordinate log-likelihood is positive below the stored
     value and negative above it *)
  Lemma offdiag_derivative_sign w : 0 < v -> 0 < w ->
    (w < v -> 0 < dell_off (cij + cji) ci cj ri rj w) /\
    (v < w -> dell_off (cij + cji) ci cj ri rj w < 0).
  Proof.
    intros Hv Hw.
    pose proof (offdiag_quadratic_is_derivative cij cji ci cj xi xj xij w) as Hid. cbv zeta in Hid.
    fold ri rj in Hid.
    assert (H1 : 0 < ri + w) by (unfold ri; lra). assert (H2 : 0 < rj + w) by (unfold rj; lra).
    specialize (Hid (Rgt_not_eq _ _ Hw) (Rgt_not_eq _ _ H1) (Rgt_not_eq _ _ H2)).
    assert (HP : 0 < w * (ri + w) * (rj + w)) by (apply Rmult_lt_0_compat; [apply Rmult_lt_0_compat|]; assumption).
    rewrite offdiag_v_root in Hv |- *.
    destruct (quad_sign _ (qb cij cji ci cj xi xj xij) _ w Ha offdiag_c_le0 Hv Hw) as [Q1 Q2].
    set (P := w * (ri + w) * (rj + w)) in *. set (D := dell_off (cij + cji) ci cj ri rj w) in *.
    destruct (pos_factor P D HP) as [F1 F2].
    split; intros H.
    - apply F1. specialize (Q1 H). rewrite Hid in Q1. lra.
    - apply F2. specialize (Q2 H). rewrite Hid in Q2. lra.
  Qed.

  (* offdiag_is_coordinate_maximum: every other positive value of the coordinate x_ij = x_ji has a
     strictly smaller log-likelihood than the stored one *)
  Theorem offdiag_is_coordinate_maximum : 0 < v -> forall w, 0 < w -> w <> v ->
    ell_off (cij + cji) ci cj ri rj w < ell_off (cij + cji) ci cj ri rj v.
  Proof.
    intros Hv w Hw Hne.
    assert (Hder : forall a b, 0 < a -> forall c, a <= c <= b ->
              derivable_pt_lim (ell_off (cij + cji) ci cj ri rj) c (dell_off (cij + cji) ci cj ri rj c)).
    { intros a b Hapos c Hc. apply ell_off_derivative; unfold ri, rj; lra. }
    destruct (Rtotal_order w v) as [Hlt | [Heq | Hgt]]; [| contradiction |].
    - destruct (MVT_cor2 (ell_off (cij + cji) ci cj ri rj) (dell_off (cij + cji) ci cj ri rj) w v Hlt (Hder w v Hw))
        as [c [E [Hc1 Hc2]]].
      destruct (offdiag_derivative_sign c Hv ltac:(lra)) as [S1 _]. specialize (S1 Hc2).
      assert (0 < dell_off (cij + cji) ci cj ri rj c * (v - w)) by (apply Rmult_lt_0_compat; lra). lra.
    - destruct (MVT_cor2 (ell_off (cij + cji) ci cj ri rj) (dell_off (cij + cji) ci cj ri rj) v w Hgt (Hder v w Hv))
        as [c [E [Hc1 Hc2]]].
      destruct (offdiag_derivative_sign c Hv ltac:(lra)) as [_ S2]. specialize (S2 Hc1).
      assert (0 < - dell_off (cij + cji) ci cj ri rj c * (w - v)) by (apply Rmult_lt_0_compat; lra). lra.
  Qed.
End OffDiag.

(* ------------------------------------------------------------------ diagonal coordinate *)
Lemma dell_diag_factor cii ci r u w :
  u * (ci - cii) = cii * r -> 0 < w -> 0 < r + w ->
  dell_diag cii ci r w = (ci - cii) * (u - w) / (w * (r + w)).
Proof.
  intros He Hw Hr. unfold dell_diag.
  assert (E : (ci - cii) * (u - w) = cii * (r + w) - ci * w).
  { transitivity (u * (ci - cii) - (ci - cii) * w); [ring | rewrite He; ring]. }
  rewrite E. field. split; lra.
Qed.

Theorem diag_is_coordinate_maximum cii ci xi xii :
  0 <= cii -> 0 <= xi - xii -> 0 < ci - cii ->
  let r := xi - xii in
  let u := fst (py_diag ROps cii ci xi xii) in
  0 < u -> forall w, 0 < w -> w <> u -> ell_diag cii ci r w < ell_diag cii ci r u.
Proof.
  intros Hc Hr Hd r u Hu w Hw Hne.
  destruct (diag_is_stationary cii ci xi xii Hc Hr Hd) as [_ [He _]]. cbv zeta in He. fold r u in He.
  assert (Hsign : forall c, 0 < c -> (c < u -> 0 < dell_diag cii ci r c) /\ (u < c -> dell_diag cii ci r c < 0)).
  { intros c Hc0. assert (Hrc : 0 < r + c) by (unfold r; lra).
    rewrite (dell_diag_factor cii ci r u c He Hc0 Hrc).
    assert (HP : 0 < / (c * (r + c))) by (apply Rinv_0_lt_compat, Rmult_lt_0_compat; assumption).
    unfold Rdiv. split; intros H.
    - apply Rmult_lt_0_compat; [apply Rmult_lt_0_compat; lra | exact HP].
    - assert (0 < (ci - cii) * (c - u) * / (c * (r + c))) by (apply Rmult_lt_0_compat; [apply Rmult_lt_0_compat; lra | exact HP]).
      replace ((ci - cii) * (u - c) * / (c * (r + c))) with (- ((ci - cii) * (c - u) * / (c * (r + c)))) by ring. lra. }
  assert (Hder : forall a b, 0 < a -> forall c, a <= c <= b ->
            derivable_pt_lim (ell_diag cii ci r) c (dell_diag cii ci r c)).
  { intros a b Hapos c Hcc. apply ell_diag_derivative; unfold r; lra. }
  destruct (Rtotal_order w u) as [Hlt | [Heq | Hgt]]; [| contradiction |].
  - destruct (MVT_cor2 (ell_diag cii ci r) (dell_diag cii ci r) w u Hlt (Hder w u Hw)) as [c [E [Hc1 Hc2]]].
    destruct (Hsign c ltac:(lra)) as [S1 _]. specialize (S1 Hc2).
    assert (0 < dell_diag cii ci r c * (u - w)) by (apply Rmult_lt_0_compat; lra). lra.
  - destruct (MVT_cor2 (ell_diag cii ci r) (dell_diag cii ci r) u w Hgt (Hder u w Hu)) as [c [E [Hc1 Hc2]]].
    destruct (Hsign c ltac:(lra)) as [_ S2]. specialize (S2 Hc1).
    assert (0 < - dell_diag cii ci r c * (w - u)) by (apply Rmult_lt_0_compat; lra). lra.
Qed.

(* ------------------------------------------------------------------ why not "strictly concave":
   with c_ij + c_ji = 1, c_i = 100, c_j = 1 and one unit of other mass in each row, the derivative of the
   coordinate log-likelihood INCREASES from v = 1 to v = 3 (a = c_i + c_j - (c_ij + c_ji) = 100 > 0) *)
Lemma coordinate_loglik_not_concave :
  exists s ci cj ri rj v1 v2,
    0 < s /\ 0 < ci + cj - s /\ 0 < ri /\ 0 < rj /\ 0 < v1 < v2 /\
    dell_off s ci cj ri rj v1 < dell_off s ci cj ri rj v2.
Proof.
  exists 1, 100, 1, 1, 1, 1, 3. repeat split; try lra.
  unfold dell_off. replace (1 + 1) with 2 by ring. replace (1 + 3) with 4 by ring. lra.
Qed.
