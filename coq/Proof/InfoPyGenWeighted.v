(* Proof/InfoPyGenWeighted.v -- the translated text of weighted_mi (Gen/MutualInfoGen.v:
   gen_weighted_mi_core, gen_weighted_mi) computes the model's weighted tables and weighted_mi_R
   (Model/Info.v). *)
From Coq Require Import List ZArith QArith Qabs Qreals Bool Arith Reals Lia Lra.
From EV Require Import JointCounts Info InfoPyBase MutualInfoGen InfoProofs InfoPyGenMI.
Import ListNotations.
Local Open Scope nat_scope.

(* features is a T x F array: every frame has F = dim1 features entries *)
Definition rect_features (X : list (list Z)) : Prop := forall r, In r X -> length r = dim1 X.

(* ================================================================== small list / sum facts *)
Lemma qsum_cons x l : qsum (x :: l) = (x + qsum l)%Q.
Proof. reflexivity. Qed.

Lemma Rsum_cons x l : Rsum (x :: l) = (x + Rsum l)%R.
Proof. reflexivity. Qed.

Lemma hd_nth0 {A} (l : list (list A)) : hd [] l = nth 0 l [].
Proof. destruct l; reflexivity. Qed.

Lemma in_zrange u n : In u (zrange n) -> (0 <= u < n)%Z.
Proof.
  unfold zrange. intros H. apply in_map_iff in H. destruct H as (k & <- & Hk).
  apply in_seq in Hk. lia.
Qed.

Lemma nth_zrange_map {A} (g : Z -> A) (d : A) u m :
  (0 <= u < m)%Z -> nth (Z.to_nat u) (map g (zrange m)) d = g u.
Proof.
  intros Hu. unfold zrange. rewrite map_map.
  rewrite (nth_map_in _ _ _ 0%nat d) by (rewrite seq_length; lia).
  rewrite seq_nth by lia. simpl. rewrite Z2Nat.id by lia. reflexivity.
Qed.

Lemma Rsum_list_prod {A B} (f : A * B -> R) (la : list A) (lb : list B) :
  Rsum (map f (list_prod la lb)) = Rsum (map (fun u => Rsum (map (fun v => f (u, v)) lb)) la).
Proof.
  induction la as [|x la IH]; [reflexivity|].
  cbn [list_prod map]. rewrite map_app, Rsum_app, map_map, Rsum_cons, IH. reflexivity.
Qed.

Lemma Rmax_0_0 : Rmax 0 0 = 0%R.
Proof. unfold Rmax. destruct (Rle_dec 0 0); reflexivity. Qed.

Lemma nth2_mapmap_f0 (f : R -> R) (M : list (list R)) i j :
  f 0%R = 0%R -> nth j (nth i (map (map f) M) []) 0%R = f (nth j (nth i M []) 0%R).
Proof.
  intros Hf. rewrite nth_mapmap.
  transitivity (nth j (map f (nth i M [])) (f 0%R)); [rewrite Hf; reflexivity|apply map_nth].
Qed.

(* ------------------------------------------------------------------ shapes *)
Definition shape2 {A} (M : list (list A)) (r c : nat) : Prop :=
  length M = r /\ forall i, i < r -> length (nth i M []) = c.

Lemma shape2_zip22 {A B C} (f : A -> B -> C) M N r c :
  shape2 M r c -> shape2 N r c -> shape2 (zip2 (zip2 f) M N) r c.
Proof.
  intros [HM1 HM2] [HN1 HN2]. split.
  - rewrite zip2_length. lia.
  - intros i Hi. rewrite (nth_zip2 _ M N i [] [] []) by lia.
    rewrite zip2_length, HM2, HN2 by exact Hi. lia.
Qed.

Lemma shape2_mapmap {A B} (g : A -> B) M r c : shape2 M r c -> shape2 (map (map g) M) r c.
Proof.
  intros [HM1 HM2]. split.
  - rewrite map_length. exact HM1.
  - intros i Hi. rewrite nth_mapmap, map_length. apply HM2. exact Hi.
Qed.

Lemma shape2_nth2_zip2 {A B C} (f : A -> B -> C) M N r c i j dA dB dC :
  shape2 M r c -> shape2 N r c -> i < r -> j < c ->
  nth j (nth i (zip2 (zip2 f) M N) []) dC = f (nth j (nth i M []) dA) (nth j (nth i N []) dB).
Proof.
  intros [HM1 HM2] [HN1 HN2] Hi Hj. apply nth2_zip2; try lia.
  - rewrite HM2 by exact Hi. exact Hj.
  - rewrite HN2 by exact Hi. exact Hj.
Qed.

(* ================================================================== Q / R cell *)
Lemma Q2R_zero : Q2R 0 = 0%R.
Proof. unfold Q2R. simpl. lra. Qed.

Lemma Qeq_bool_compat0 p p' : (p == p')%Q -> Qeq_bool p 0 = Qeq_bool p' 0.
Proof.
  intros H. destruct (Qeq_bool p 0) eqn:E1, (Qeq_bool p' 0) eqn:E2; try reflexivity; exfalso.
  - apply Qeq_bool_iff in E1. apply Qeq_bool_neq in E2. apply E2. rewrite <- H. exact E1.
  - apply Qeq_bool_iff in E2. apply Qeq_bool_neq in E1. apply E1. rewrite H. exact E2.
Qed.

Lemma wmi_cellq_compat pj pj' px px' py py' :
  (pj == pj')%Q -> (px == px')%Q -> (py == py')%Q -> wmi_cellq pj px py = wmi_cellq pj' px' py'.
Proof.
  intros Hj Hx Hy. unfold wmi_cellq.
  assert (Hm : (px * py == px' * py')%Q) by (rewrite Hx, Hy; reflexivity).
  assert (Hd : (pj / (px * py) == pj' / (px' * py'))%Q) by (rewrite Hj, Hm; reflexivity).
  rewrite (Qeq_bool_compat0 _ _ Hm), (Qeq_bool_compat0 _ _ Hd).
  rewrite (Qeq_eqR _ _ Hj), (Qeq_eqR _ _ Hx), (Qeq_eqR _ _ Hy). reflexivity.
Qed.

(* one cell of the three masked ufuncs *)
Definition gcell (pj pm : Q) : R :=
  (Q2R pj * (fun a_ : Q => where_out (negb (Qeq_bool a_ 0)) (ln (Q2R a_)) (Q2R a_))
              (where_out (negb (Qeq_bool pm 0)) (pj / pm)%Q 0%Q))%R.

Lemma gcell_eq pj pm px py : (pm == px * py)%Q -> gcell pj pm = wmi_cellq pj px py.
Proof.
  intros Hm. unfold gcell, wmi_cellq. cbv beta. rewrite (Qeq_bool_compat0 _ _ Hm).
  destruct (Qeq_bool (px * py) 0) eqn:E1; cbn [negb where_out].
  - change (Qeq_bool 0 0) with true. cbn [negb where_out]. rewrite Q2R_zero. ring.
  - assert (Hd : (pj / pm == pj / (px * py))%Q) by (rewrite Hm; reflexivity).
    rewrite (Qeq_bool_compat0 _ _ Hd).
    destruct (Qeq_bool (pj / (px * py)) 0) eqn:E2; cbn [negb where_out].
    + apply Qeq_bool_iff in E2. rewrite (Qeq_eqR _ _ Hd), (Qeq_eqR _ _ E2), Q2R_zero. ring.
    + rewrite (Qeq_eqR _ _ Hd). rewrite Q2R_div by (apply Qeq_bool_neq; exact E1).
      rewrite Q2R_mult. reflexivity.
Qed.

(* ================================================================== marginals *)
Lemma marg_sum a u : forall X w,
  qsum (zip2 (fun v wt => (wt * ind (v =? u)%Z)%Q) (col_z X a) w) = wmarg X w a u.
Proof.
  unfold wmarg, col_z. induction X as [|x X IH]; intros [|wt w]; try reflexivity.
  cbn [map zip2 wsum]. rewrite qsum_cons, IH. reflexivity.
Qed.

(* the generated tables are the model's (up to Qeq): marginals and joints *)
Lemma gen_weighted_marginal : forall X w n a u, (a < dim1 X)%nat -> (0 <= u < n)%Z ->
  (nth (Z.to_nat u) (nth a (map (fun i => np_bincount_w (col_z X i) w n) (seq 0 (dim1 X))) []) 0%Q
   == wmarg X w a u)%Q.
Proof.
  intros X w n a u Ha Hu.
  rewrite (nth_map_in _ _ _ 0%nat []) by (rewrite seq_length; exact Ha).
  rewrite seq_nth by exact Ha. cbn [Nat.add]. unfold np_bincount_w.
  rewrite nth_zrange_map by lia. rewrite marg_sum. reflexivity.
Qed.

Definition PMg (X : list (list Z)) (w : list Q) (n : Z) : list (list Q) :=
  map (fun i => np_bincount_w (col_z X i) w n) (seq 0 (dim1 X)).

Lemma PMg_length X w n : length (PMg X w n) = dim1 X.
Proof. unfold PMg. rewrite map_length, seq_length. reflexivity. Qed.

Lemma colq_length X w n k : length (col_q (PMg X w n) k) = dim1 X.
Proof. unfold col_q. rewrite map_length. apply PMg_length. Qed.

Lemma colq_entry X w n c k : c < dim1 X -> (0 <= k < n)%Z ->
  (nth c (col_q (PMg X w n) k) 0%Q == wmarg X w c k)%Q.
Proof.
  intros Hc Hk. unfold col_q.
  rewrite (nth_map_in _ _ _ [] 0%Q) by (rewrite PMg_length; exact Hc).
  apply gen_weighted_marginal; assumption.
Qed.

(* products of the meshgrid pair *)
Definition PPMg (x y : list Q) : list (list Q) :=
  zip2 (zip2 Qmult) (meshgrid_xy0q x y) (meshgrid_xy1q x y).

Lemma mesh0_shape x y : shape2 (meshgrid_xy0q x y) (length y) (length x).
Proof.
  unfold meshgrid_xy0q. split; [apply map_length|]. intros i Hi.
  rewrite (nth_map_in _ y i 0%Q []) by exact Hi. reflexivity.
Qed.

Lemma mesh1_shape x y : shape2 (meshgrid_xy1q x y) (length y) (length x).
Proof.
  unfold meshgrid_xy1q. split; [apply map_length|]. intros i Hi.
  rewrite (nth_map_in _ y i 0%Q []) by exact Hi. apply map_length.
Qed.

Lemma ppm_shape x y : shape2 (PPMg x y) (length y) (length x).
Proof. apply shape2_zip22; [apply mesh0_shape|apply mesh1_shape]. Qed.

Lemma ppm_entry x y r c : r < length y -> c < length x ->
  nth c (nth r (PPMg x y) []) 0%Q = (nth c x 0 * nth r y 0)%Q.
Proof.
  intros Hr Hc. unfold PPMg.
  rewrite (shape2_nth2_zip2 Qmult _ _ _ _ r c 0%Q 0%Q 0%Q (mesh0_shape x y) (mesh1_shape x y) Hr Hc).
  unfold meshgrid_xy0q, meshgrid_xy1q.
  rewrite (nth_map_in _ y r 0%Q []) by exact Hr.
  rewrite (nth_map_in _ y r 0%Q []) by exact Hr.
  rewrite (nth_map_in _ x c 0%Q 0%Q) by exact Hc. reflexivity.
Qed.

(* ================================================================== joints *)
Definition OH (X : list (list Z)) (u : Z) : list (list bool) := map (map (fun a_ => (a_ =? u)%Z)) X.
Definition WOH (X : list (list Z)) (w : list Q) (u : Z) : list (list Q) :=
  zip2 (fun x_ y_ => map (fun a_ => (ind a_ * y_)%Q) x_) (OH X u) w.
Definition PJg (X : list (list Z)) (w : list Q) (u v : Z) : list (list Q) :=
  matmul_qb (transpose_q (WOH X w u)) (OH X v).

Lemma pj_sum a b u v : forall X w,
  (forall r, In r X -> a < length r /\ b < length r) ->
  (qsum (zip2 (fun q brow => (q * ind (nth b brow false))%Q)
              (map (fun row => nth a row 0%Q) (WOH X w u)) (OH X v))
   == wjoint X w a b u v)%Q.
Proof.
  unfold wjoint, WOH, OH. induction X as [|x X IH]; intros [|wt w] HR; try reflexivity.
  cbn [map zip2 wsum]. rewrite qsum_cons.
  destruct (HR x (or_introl eq_refl)) as [Ha Hb].
  rewrite IH by (intros r Hr; apply HR; right; exact Hr).
  rewrite map_map.
  rewrite (nth_map_in _ x a 0%Z 0%Q Ha). rewrite (nth_map_in _ x b 0%Z false Hb).
  destruct (nth a x 0 =? u)%Z, (nth b x 0 =? v)%Z; cbn [ind andb]; ring.
Qed.

Lemma dim1_WOH X w u : length w = length X -> dim1 (WOH X w u) = dim1 X.
Proof.
  unfold WOH, OH. destruct X as [|x X], w as [|wt w]; intros HL; try reflexivity; try discriminate HL.
  unfold dim1. cbn [map zip2 hd]. rewrite !map_length. reflexivity.
Qed.

Lemma pj_shape X w u v : length w = length X -> shape2 (PJg X w u v) (dim1 X) (dim1 X).
Proof.
  intros HL. unfold PJg, matmul_qb, transpose_q. split.
  - rewrite !map_length, seq_length. apply dim1_WOH. exact HL.
  - intros i Hi. rewrite (nth_map_in _ _ _ [] []) by (rewrite map_length, seq_length, dim1_WOH; assumption).
    rewrite map_length, seq_length. unfold OH. apply dim1_mapmap.
Qed.

Lemma pj_entry X w u v a b : rect_features X -> length w = length X -> a < dim1 X -> b < dim1 X ->
  (nth b (nth a (PJg X w u v) []) 0%Q == wjoint X w a b u v)%Q.
Proof.
  intros HR HL Ha Hb. unfold PJg, matmul_qb, transpose_q.
  rewrite (nth_map_in _ _ _ [] []) by (rewrite map_length, seq_length, dim1_WOH; assumption).
  rewrite (nth_map_in _ _ _ 0%nat 0%Q) by (rewrite seq_length; unfold OH; rewrite dim1_mapmap; exact Hb).
  rewrite seq_nth by (unfold OH; rewrite dim1_mapmap; exact Hb). cbn [Nat.add].
  rewrite (nth_map_in _ _ _ 0%nat []) by (rewrite seq_length, dim1_WOH; assumption).
  rewrite seq_nth by (rewrite dim1_WOH; assumption). cbn [Nat.add].
  apply pj_sum. intros r Hr. rewrite (HR r Hr). split; assumption.
Qed.

(* ================================================================== one (u, v) layer *)
Definition CellOf (pj ppm : list (list Q)) : list (list R) :=
  zip2 (zip2 (fun a_ b_ => (Q2R a_ * b_)%R)) pj
    (map (map (fun a_ => where_out (negb (Qeq_bool a_ 0)) (ln (Q2R a_)) (Q2R a_)))
      (zip2 (zip2 (fun a_ b_ => where_out (negb (Qeq_bool b_ 0)) (a_ / b_)%Q 0%Q)) pj ppm)).

Lemma cellof_shape pj ppm r c : shape2 pj r c -> shape2 ppm r c -> shape2 (CellOf pj ppm) r c.
Proof.
  intros H1 H2. unfold CellOf. apply shape2_zip22; [exact H1|].
  apply shape2_mapmap. apply shape2_zip22; assumption.
Qed.

Lemma cellof_entry pj ppm r c i j : shape2 pj r c -> shape2 ppm r c -> i < r -> j < c ->
  nth j (nth i (CellOf pj ppm) []) 0%R = gcell (nth j (nth i pj []) 0%Q) (nth j (nth i ppm []) 0%Q).
Proof.
  intros H1 H2 Hi Hj. unfold CellOf.
  assert (H3 := shape2_zip22 (fun a_ b_ => where_out (negb (Qeq_bool b_ 0)) (a_ / b_)%Q 0%Q) _ _ _ _ H1 H2).
  rewrite (shape2_nth2_zip2 _ _ _ r c i j 0%Q 0%R 0%R H1 (shape2_mapmap _ _ _ _ H3) Hi Hj).
  rewrite nth_mapmap.
  rewrite (nth_map_in _ _ j 0%Q 0%R) by (destruct H3 as [_ H3]; rewrite H3 by exact Hi; exact Hj).
  rewrite (shape2_nth2_zip2 _ _ _ r c i j 0%Q 0%Q 0%Q H1 H2 Hi Hj).
  reflexivity.
Qed.

Definition Layer (X : list (list Z)) (w : list Q) (n : Z) (ii : Z * Z) : list (list R) :=
  CellOf
    (matmul_qb (transpose_q (zip2 (fun x_ y_ => map (fun a_ => (ind a_ * y_)%Q) x_)
       (sel_last (map (fun u => map (map (fun a_ => (a_ =? u)%Z)) X) (zrange n)) (fst ii)) w))
       (sel_last (map (fun u => map (map (fun a_ => (a_ =? u)%Z)) X) (zrange n)) (snd ii)))
    (PPMg (col_q (PMg X w n) (snd ii)) (col_q (PMg X w n) (fst ii))).

Lemma core_unfold X w n :
  gen_weighted_mi_core X w n = sum_axis0_R (map (Layer X w n) (list_prod (zrange n) (zrange n))).
Proof.
  unfold gen_weighted_mi_core. cbv zeta.
  rewrite !map_map. cbn [fst snd].
  repeat (rewrite map_map || rewrite zip2_map_map).
  reflexivity.
Qed.

Lemma layer_facts X w n u v :
  rect_features X -> length w = length X -> (0 <= u < n)%Z -> (0 <= v < n)%Z ->
  shape2 (Layer X w n (u, v)) (dim1 X) (dim1 X) /\
  forall a b, a < dim1 X -> b < dim1 X ->
    nth b (nth a (Layer X w n (u, v)) []) 0%R
    = wmi_cellq (wjoint X w a b u v) (wmarg X w a u) (wmarg X w b v).
Proof.
  intros HR HL Hu Hv. unfold Layer. cbn [fst snd]. unfold sel_last.
  rewrite !nth_zrange_map by assumption.
  change (matmul_qb _ _) with (PJg X w u v).
  assert (HS1 := pj_shape X w u v HL).
  assert (HS2 : shape2 (PPMg (col_q (PMg X w n) v) (col_q (PMg X w n) u)) (dim1 X) (dim1 X)).
  { pose proof (ppm_shape (col_q (PMg X w n) v) (col_q (PMg X w n) u)) as HS.
    rewrite !colq_length in HS. exact HS. }
  split; [apply cellof_shape; assumption|].
  intros a b Ha Hb. rewrite (cellof_entry _ _ _ _ a b HS1 HS2 Ha Hb).
  rewrite ppm_entry by (rewrite colq_length; assumption).
  rewrite (gcell_eq _ _ (wmarg X w a u) (wmarg X w b v)).
  - apply wmi_cellq_compat; [apply pj_entry; assumption|reflexivity|reflexivity].
  - rewrite (colq_entry X w n b v Hb Hv), (colq_entry X w n a u Ha Hu). ring.
Qed.

Lemma sum_axis0_nth (L : list (list (list R))) r c :
  r < dim0 (hd [] L) -> c < dim1 (hd [] L) ->
  nth c (nth r (sum_axis0_R L) []) 0%R = Rsum (map (fun m => nth c (nth r m []) 0%R) L).
Proof.
  intros Hr Hc. unfold sum_axis0_R.
  rewrite (nth_map_in _ _ _ 0%nat []) by (rewrite seq_length; exact Hr).
  rewrite (nth_map_in _ _ _ 0%nat 0%R) by (rewrite seq_length; exact Hc).
  rewrite !seq_nth by assumption. reflexivity.
Qed.

(* entry (a, b) of the generated core, clipped at 0, is the model's weighted_mi_R *)
Theorem gen_weighted_mi_core_is_model : forall X w n a b,
  rect_features X -> length w = length X -> (a < dim1 X)%nat -> (b < dim1 X)%nat ->
  Rmax 0 (nth b (nth a (gen_weighted_mi_core X w n) []) 0%R) = weighted_mi_R X w n a b.
Proof.
  intros X w n a b HR HL Ha Hb. rewrite core_unfold. unfold weighted_mi_R. cbv zeta. f_equal.
  assert (HF : forall ii, In ii (list_prod (zrange n) (zrange n)) ->
     shape2 (Layer X w n ii) (dim1 X) (dim1 X) /\
     nth b (nth a (Layer X w n ii) []) 0%R
     = wmi_cellq (wjoint X w a b (fst ii) (snd ii)) (wmarg X w a (fst ii)) (wmarg X w b (snd ii))).
  { intros [u v] Hin. apply in_prod_iff in Hin. destruct Hin as [Hu Hv].
    apply in_zrange in Hu. apply in_zrange in Hv.
    destruct (layer_facts X w n u v HR HL Hu Hv) as [HS HE].
    split; [exact HS|]. apply HE; assumption. }
  assert (Hhd : zrange n = [] \/ exists p, In p (list_prod (zrange n) (zrange n)) /\
            hd [] (map (Layer X w n) (list_prod (zrange n) (zrange n))) = Layer X w n p).
  { destruct (zrange n) as [|z0 zs]; [left; reflexivity|right].
    exists (z0, z0). split; [left; reflexivity|reflexivity]. }
  destruct Hhd as [Hz|(p & Hp & Hhd)].
  - rewrite Hz. cbn. destruct a, b; reflexivity.
  - destruct (HF p Hp) as [[HS1 HS2] _].
    rewrite sum_axis0_nth.
    + rewrite map_map, Rsum_list_prod. f_equal.
      apply map_ext_in. intros u Hu. f_equal. apply map_ext_in. intros v Hv.
      assert (Hin : In (u, v) (list_prod (zrange n) (zrange n))) by (apply in_prod; assumption).
      exact (proj2 (HF (u, v) Hin)).
    + rewrite Hhd. unfold dim0. rewrite HS1. exact Ha.
    + rewrite Hhd. unfold dim1. rewrite hd_nth0, HS2 by lia. exact Hb.
Qed.

(* what the function rejects *)
Theorem gen_weighted_mi_accepts : forall X w nfs normalize out,
  gen_weighted_mi X w nfs normalize = Some out ->
  Forall (fun x => 0 <= x)%Q w /\ ~ (qsum w == 0)%Q /\ length w = length X.
Proof.
  intros X w nfs normalize out H. unfold gen_weighted_mi in H.
  destruct (np_all (map (fun a_ => Qle_bool 0 a_) w)) eqn:E1; cbn [negb] in H; [|discriminate H].
  destruct (Qeq_bool (qsum w) 0) eqn:E2; cbn [negb] in H; [discriminate H|].
  destruct (length w =? dim0 X) eqn:E3; cbn [negb] in H; [|discriminate H].
  split; [|split].
  - rewrite np_all_map in E1. apply Forall_forall. intros x Hx.
    apply Qle_bool_iff. exact (proj1 (forallb_forall _ _) E1 x Hx).
  - apply Qeq_bool_neq. exact E2.
  - apply Nat.eqb_eq in E3. exact E3.
Qed.

(* the whole function with given state counts, normalised weights, no channel-capacity normalisation *)
Theorem gen_weighted_mi_is_model : forall X w nfs n out a b,
  rect_features X -> zmax_list nfs = Some n -> Qeq_bool (qsum w) 1 = true ->
  gen_weighted_mi X w (Some nfs) false = Some out ->
  (a < dim1 X)%nat -> (b < dim1 X)%nat ->
  nth b (nth a out []) 0%R = weighted_mi_R X w n a b.
Proof.
  intros X w nfs n out a b HR Hn H1 H Ha Hb.
  destruct (gen_weighted_mi_accepts _ _ _ _ _ H) as (_ & _ & HL).
  unfold gen_weighted_mi in H.
  destruct (negb (np_all (map (fun a_ => Qle_bool 0 a_) w))); [discriminate H|].
  destruct (negb (negb (Qeq_bool (qsum w) 0))); [discriminate H|].
  destruct (negb (length w =? dim0 X)); [discriminate H|].
  rewrite H1 in H. cbn [negb obind] in H.
  destruct (negb (length nfs =? dim1 X)); [discriminate H|].
  rewrite Hn in H. cbn [obind] in H. injection H as <-.
  rewrite (nth2_mapmap_f0 (fun a_ => Rmax 0 a_)) by apply Rmax_0_0.
  apply gen_weighted_mi_core_is_model; assumption.
Qed.

Print Assumptions gen_weighted_marginal.
Print Assumptions gen_weighted_mi_core_is_model.
Print Assumptions gen_weighted_mi_is_model.
Print Assumptions gen_weighted_mi_accepts.
