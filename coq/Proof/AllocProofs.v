(* Proof/AllocProofs.v -- property C19, round 2: an allocation that does not initialise memory is
   harmless exactly when every cell is stored to before the buffer is read (write-before-read);
   the store patterns recognised by translator/sites.py cover every cell; identity-keyed result
   caches make results depend on the call history, the cache-free library does not. *)
From Coq Require Import List Bool Arith Lia.
From EV Require Import Alloc.
Import ListNotations.
Local Open Scope nat_scope.

(* ------------------------------------------------------------------ shapes *)
Lemma overlay_length : forall (A : Type) (src buf : list A), length (overlay src buf) = length buf.
Proof.
  intros A src; induction src as [|s src IH]; intros buf.
  - reflexivity.
  - destruct buf as [|b buf]; [reflexivity|]. cbn [overlay length]. f_equal. apply IH.
Qed.

Lemma write_slice_length : forall (A : Type) lo (src buf : list A),
  length (write_slice lo src buf) = length buf.
Proof.
  intros A lo; induction lo as [|lo IH]; intros src buf.
  - cbn [write_slice]. apply overlay_length.
  - destruct buf as [|b buf]; [reflexivity|]. cbn [write_slice length]. f_equal. apply IH.
Qed.

Lemma apply_wr_length : forall (A : Type) (w : wr A) buf, length (apply_wr w buf) = length buf.
Proof.
  intros A [v|lo src] buf; cbn [apply_wr].
  - apply map_length.
  - apply write_slice_length.
Qed.

(* stores never resize the buffer *)
Lemma run_length : forall (A : Type) (prog : list (wr A)) buf, length (run prog buf) = length buf.
Proof.
  intros A prog; induction prog as [|w prog IH]; intros buf.
  - reflexivity.
  - unfold run. cbn [fold_left]. fold (run prog (apply_wr w buf)). rewrite IH. apply apply_wr_length.
Qed.

Lemma run_cons : forall (A : Type) (w : wr A) prog buf, run (w :: prog) buf = run prog (apply_wr w buf).
Proof. reflexivity. Qed.

(* ------------------------------------------------------------------ agreement is an invariant *)
Lemma overlay_agree : forall (A : Type) (src : list A) m a b,
  agree_on m a b -> agree_on (overlay (map (fun _ => true) src) m) (overlay src a) (overlay src b).
Proof.
  intros A src; induction src as [|s src IH]; intros m a b H.
  - exact H.
  - destruct m as [|mi m]; destruct a as [|ai a]; destruct b as [|bi b]; cbn [agree_on] in H; try contradiction.
    + exact I.
    + destruct H as [_ H]. cbn [map overlay agree_on]. split; [reflexivity|]. apply IH. exact H.
Qed.

Lemma write_slice_agree : forall (A : Type) lo (src : list A) m a b,
  agree_on m a b ->
  agree_on (write_slice lo (map (fun _ => true) src) m) (write_slice lo src a) (write_slice lo src b).
Proof.
  intros A lo; induction lo as [|lo IH]; intros src m a b H.
  - cbn [write_slice]. apply overlay_agree. exact H.
  - destruct m as [|mi m]; destruct a as [|ai a]; destruct b as [|bi b]; cbn [agree_on] in H; try contradiction.
    + exact I.
    + destruct H as [H0 H]. cbn [write_slice agree_on]. split; [exact H0|]. apply IH. exact H.
Qed.

Lemma fill_agree : forall (A : Type) (v : A) (m : list bool) (a b : list A),
  agree_on m a b -> agree_on (map (fun _ => true) m) (map (fun _ => v) a) (map (fun _ => v) b).
Proof.
  intros A v m; induction m as [|mi m IH]; intros a b H;
    destruct a as [|ai a]; destruct b as [|bi b]; cbn [agree_on] in H; try contradiction.
  - exact I.
  - destruct H as [_ H]. cbn [map agree_on]. split; [reflexivity|]. apply IH. exact H.
Qed.

Lemma apply_agree : forall (A : Type) (w : wr A) m a b,
  agree_on m a b -> agree_on (apply_wr (mark_of w) m) (apply_wr w a) (apply_wr w b).
Proof.
  intros A [v|lo src] m a b H; cbn [mark_of apply_wr].
  - apply fill_agree. exact H.
  - apply write_slice_agree. exact H.
Qed.

Lemma run_agree : forall (A : Type) (prog : list (wr A)) m a b,
  agree_on m a b -> agree_on (run (map (@mark_of A) prog) m) (run prog a) (run prog b).
Proof.
  intros A prog; induction prog as [|w prog IH]; intros m a b H.
  - exact H.
  - cbn [map]. rewrite !run_cons. apply IH. apply apply_agree. exact H.
Qed.

Lemma agree_fresh : forall (A : Type) n (a b : list A),
  length a = n -> length b = n -> agree_on (repeat false n) a b.
Proof.
  intros A n; induction n as [|n IH]; intros a b Ha Hb;
    destruct a as [|ai a]; destruct b as [|bi b]; try discriminate.
  - exact I.
  - cbn [repeat agree_on]. split; [discriminate|]. apply IH; cbn [length] in *; lia.
Qed.

Lemma agree_all_true : forall (A : Type) m (a b : list A),
  agree_on m a b -> all_true m = true -> a = b.
Proof.
  intros A m; induction m as [|mi m IH]; intros a b H Hall;
    destruct a as [|ai a]; destruct b as [|bi b]; cbn [agree_on] in H; try contradiction.
  - reflexivity.
  - destruct H as [H0 H]. cbn [all_true forallb] in Hall. apply andb_true_iff in Hall.
    destruct Hall as [Hm Hr]. f_equal; [apply H0; exact Hm|]. apply IH; [exact H|exact Hr].
Qed.

(* WRITE-BEFORE-READ.  If the stores between an uninitialising allocation and the first read cover
   every cell, the buffer read afterwards is the same for all heap contents. *)
Theorem write_before_read : forall (A : Type) (prog : list (wr A)) n (junk1 junk2 : list A),
  length junk1 = n -> length junk2 = n -> all_written prog n = true ->
  run prog junk1 = run prog junk2.
Proof.
  intros A prog n j1 j2 H1 H2 Hall.
  apply (agree_all_true A (written prog n)); [|exact Hall].
  unfold written. apply run_agree. apply agree_fresh; assumption.
Qed.

(* ------------------------------------------------------------------ the converse *)
Lemma overlay_keeps : forall (A : Type) (src : list A) m j b,
  keeps m j b -> keeps (overlay (map (fun _ => true) src) m) j (overlay src b).
Proof.
  intros A src; induction src as [|s src IH]; intros m j b H.
  - exact H.
  - destruct m as [|mi m]; destruct j as [|ji j]; destruct b as [|bi b]; cbn [keeps] in H; try contradiction.
    + exact I.
    + destruct H as [_ H]. cbn [map overlay keeps]. split; [discriminate|]. apply IH. exact H.
Qed.

Lemma write_slice_keeps : forall (A : Type) lo (src : list A) m j b,
  keeps m j b -> keeps (write_slice lo (map (fun _ => true) src) m) j (write_slice lo src b).
Proof.
  intros A lo; induction lo as [|lo IH]; intros src m j b H.
  - cbn [write_slice]. apply overlay_keeps. exact H.
  - destruct m as [|mi m]; destruct j as [|ji j]; destruct b as [|bi b]; cbn [keeps] in H; try contradiction.
    + exact I.
    + destruct H as [H0 H]. cbn [write_slice keeps]. split; [exact H0|]. apply IH. exact H.
Qed.

Lemma fill_keeps : forall (A : Type) (v : A) (m : list bool) (j b : list A),
  keeps m j b -> keeps (map (fun _ => true) m) j (map (fun _ => v) b).
Proof.
  intros A v m; induction m as [|mi m IH]; intros j b H;
    destruct j as [|ji j]; destruct b as [|bi b]; cbn [keeps] in H; try contradiction.
  - exact I.
  - destruct H as [_ H]. cbn [map keeps]. split; [discriminate|]. apply IH. exact H.
Qed.

Lemma run_keeps : forall (A : Type) (prog : list (wr A)) m j b,
  keeps m j b -> keeps (run (map (@mark_of A) prog) m) j (run prog b).
Proof.
  intros A prog; induction prog as [|w prog IH]; intros m j b H.
  - exact H.
  - cbn [map]. rewrite !run_cons. apply IH. destruct w as [v|lo src]; cbn [mark_of apply_wr].
    + apply fill_keeps. exact H.
    + apply write_slice_keeps. exact H.
Qed.

Lemma keeps_fresh : forall (A : Type) (j : list A), keeps (repeat false (length j)) j j.
Proof.
  intros A j; induction j as [|x j IH]; [exact I|]. cbn [length repeat keeps]. split; [reflexivity|exact IH].
Qed.

Lemma keeps_const_eq : forall (A : Type) (b0 b1 : A) m n x y,
  b0 <> b1 -> keeps m (repeat b0 n) x -> keeps m (repeat b1 n) y -> x = y -> all_true m = true.
Proof.
  intros A b0 b1 m; induction m as [|mi m IH]; intros n x y Hne Hx Hy E.
  - reflexivity.
  - destruct n as [|n]; [cbn [repeat keeps] in Hx; contradiction|].
    destruct x as [|x0 x]; [cbn [repeat keeps] in Hx; contradiction|].
    destruct y as [|y0 y]; [cbn [repeat keeps] in Hy; contradiction|].
    cbn [repeat keeps] in Hx, Hy. destruct Hx as [Hx0 Hx]. destruct Hy as [Hy0 Hy].
    inversion E as [[E0 E1]]. cbn [all_true forallb]. apply andb_true_iff. split.
    + destruct mi; [reflexivity|]. exfalso. apply Hne.
      rewrite <- (Hx0 eq_refl), <- (Hy0 eq_refl). exact E0.
    + apply (IH n x y Hne Hx Hy E1).
Qed.

(* a cell nothing was stored to still holds what the allocator handed out *)
Theorem unwritten_cell_is_junk : forall (A : Type) (prog : list (wr A)) (junk : list A),
  keeps (written prog (length junk)) junk (run prog junk).
Proof. intros A prog junk. unfold written. apply run_keeps. apply keeps_fresh. Qed.

(* EXACT CHARACTERISATION.  For a carrier with at least two values, the buffer after the stores is
   the same for ALL heap contents if and only if every cell has been stored to. *)
Theorem write_before_read_iff : forall (A : Type) (b0 b1 : A) (prog : list (wr A)) n,
  b0 <> b1 ->
  ((forall junk1 junk2, length junk1 = n -> length junk2 = n -> run prog junk1 = run prog junk2)
   <-> all_written prog n = true).
Proof.
  intros A b0 b1 prog n Hne. split.
  - intros H. unfold all_written.
    apply (keeps_const_eq A b0 b1 (written prog n) n (run prog (repeat b0 n)) (run prog (repeat b1 n)) Hne).
    + pose proof (unwritten_cell_is_junk A prog (repeat b0 n)) as K. rewrite repeat_length in K. exact K.
    + pose proof (unwritten_cell_is_junk A prog (repeat b1 n)) as K. rewrite repeat_length in K. exact K.
    + apply H; apply repeat_length.
  - intros Hall j1 j2 H1 H2. apply (write_before_read A prog n j1 j2 H1 H2 Hall).
Qed.

(* ------------------------------------------------------------------ the recognised patterns cover *)
Lemma all_true_map_true : forall (X : Type) (l : list X), all_true (map (fun _ => true) l) = true.
Proof. intros X l; induction l as [|x l IH]; [reflexivity|]. cbn [map all_true forallb]. exact IH. Qed.

Lemma all_true_repeat : forall n, all_true (repeat true n) = true.
Proof. intros n; induction n as [|n IH]; [reflexivity|]. cbn [repeat all_true forallb]. exact IH. Qed.

(* a = np.empty(..); a.fill(v) *)
Lemma fill_covers : forall (A : Type) (v : A) n, all_written [WFill v] n = true.
Proof. intros A v n. unfold all_written, written. cbn [map mark_of run fold_left apply_wr]. apply all_true_map_true. Qed.

Lemma overlay_marks : forall (X : Type) (s : list X) r,
  overlay (map (fun _ => true) s) (repeat false (length s + r)) = repeat true (length s) ++ repeat false r.
Proof.
  intros X s; induction s as [|x s IH]; intros r.
  - reflexivity.
  - cbn [length Nat.add repeat map overlay app]. f_equal. apply IH.
Qed.

Lemma write_slice_skip : forall k (src tail : list bool),
  write_slice k src (repeat true k ++ tail) = repeat true k ++ overlay src tail.
Proof.
  intros k; induction k as [|k IH]; intros src tail.
  - reflexivity.
  - cbn [repeat app write_slice]. f_equal. apply IH.
Qed.

(* the marks after the running-cursor loop: a prefix of k stored cells grows by one segment per turn *)
Lemma tile_marks : forall (A : Type) (segs : list (list A)) k,
  run (map (@mark_of A) (tile_prog k segs)) (repeat true k ++ repeat false (length (concat segs)))
  = repeat true (k + length (concat segs)).
Proof.
  intros A segs; induction segs as [|s segs IH]; intros k.
  - cbn [concat length tile_prog map repeat]. rewrite app_nil_r, Nat.add_0_r. reflexivity.
  - cbn [concat tile_prog map mark_of]. rewrite run_cons. cbn [apply_wr].
    rewrite app_length, write_slice_skip, overlay_marks, app_assoc, <- repeat_app.
    rewrite IH. f_equal. lia.
Qed.

(* start = 0; for ..: end = start + len(seg); a[start:end] = seg; start = end; assert end == len(a) *)
Lemma tile_covers : forall (A : Type) (segs : list (list A)),
  all_written (tile_prog 0 segs) (length (concat segs)) = true.
Proof.
  intros A segs. unfold all_written, written.
  pose proof (tile_marks A segs 0) as H. cbn [repeat app] in H. rewrite H. apply all_true_repeat.
Qed.

(* a[:] = src / a[...] = src with src of the buffer's shape; a receive buffer filled by a message *)
Lemma full_assign_covers : forall (A : Type) (src : list A), all_written [WAll src] (length src) = true.
Proof.
  intros A src. pose proof (tile_covers A [src]) as H.
  cbn [tile_prog concat] in H. rewrite app_nil_r in H. exact H.
Qed.

Lemma enum_prog_tiles : forall (A : Type) (vals : list A) k,
  map (fun p => WIdx (fst p) (snd p)) (combine (seq k (length vals)) vals)
  = tile_prog k (map (fun v => [v]) vals).
Proof.
  intros A vals; induction vals as [|v vals IH]; intros k.
  - reflexivity.
  - cbn [length seq combine map tile_prog fst snd]. unfold WIdx at 1. f_equal.
    rewrite IH. f_equal. lia.
Qed.

Lemma concat_singletons_length : forall (A : Type) (vals : list A),
  length (concat (map (fun v => [v]) vals)) = length vals.
Proof. intros A vals; induction vals as [|v vals IH]; [reflexivity|]. cbn [map concat app length]. f_equal. exact IH. Qed.

(* a = np.empty(len(vals)); for i, v in enumerate(vals): a[i] = v *)
Lemma enum_covers : forall (A : Type) (vals : list A), all_written (enum_prog vals) (length vals) = true.
Proof.
  intros A vals. unfold enum_prog. rewrite enum_prog_tiles.
  rewrite <- (concat_singletons_length A vals). apply tile_covers.
Qed.

(* what the loops compute, not only that they cover: the buffer ends up holding the segments *)
Lemma overlay_app : forall (A : Type) (s rest : list A) buf,
  length buf = length s + length rest -> overlay s buf = s ++ skipn (length s) buf.
Proof.
  intros A s; induction s as [|x s IH]; intros rest buf H.
  - reflexivity.
  - destruct buf as [|b buf]; [discriminate|]. cbn [overlay length skipn app]. f_equal.
    apply (IH rest). cbn [length] in H. lia.
Qed.

Lemma write_slice_prefix : forall (A : Type) (pre : list A) src tail,
  write_slice (length pre) src (pre ++ tail) = pre ++ overlay src tail.
Proof.
  intros A pre; induction pre as [|p pre IH]; intros src tail.
  - reflexivity.
  - cbn [length app write_slice]. f_equal. apply IH.
Qed.

Lemma tile_run : forall (A : Type) (segs : list (list A)) (pre tail : list A),
  length tail = length (concat segs) ->
  run (tile_prog (length pre) segs) (pre ++ tail) = pre ++ concat segs.
Proof.
  intros A segs; induction segs as [|s segs IH]; intros pre tail H.
  - cbn [concat length] in H. destruct tail; [|discriminate]. reflexivity.
  - cbn [tile_prog concat]. rewrite run_cons. cbn [apply_wr]. cbn [concat] in H. rewrite app_length in H.
    rewrite write_slice_prefix, (overlay_app A s (concat segs) tail H), app_assoc.
    rewrite <- app_length. rewrite IH.
    + rewrite <- app_assoc. reflexivity.
    + rewrite skipn_length. lia.
Qed.

(* the tiled buffer IS the concatenation of the pieces (np.concatenate without the copy) *)
Theorem tile_result : forall (A : Type) (segs : list (list A)) (junk : list A),
  length junk = length (concat segs) -> run (tile_prog 0 segs) junk = concat segs.
Proof. intros A segs junk H. apply (tile_run A segs [] junk H). Qed.

(* a store that leaves one cell out: the result depends on the heap *)
Theorem partial_store_refuted : forall (A : Type) (b0 b1 v : A), b0 <> b1 ->
  exists (prog : list (wr A)) n junk1 junk2,
    length junk1 = n /\ length junk2 = n /\ all_written prog n = false /\ run prog junk1 <> run prog junk2.
Proof.
  intros A b0 b1 v Hne. exists [WSlice 1 [v]], 3, [b0; b0; b0], [b1; b1; b1].
  repeat split. cbn. intros E. inversion E. contradiction.
Qed.

(* ------------------------------------------------------------------ caches and call histories *)
(* the cache-free library: whatever was computed before, the result is a function of the contents *)
Theorem plain_history_independent : forall (A R : Type) (f : list A -> R) memo (h : list (obj A)) o,
  fst (call_plain f (after_history (call_plain f) memo h) o) = f (contents o).
Proof. reflexivity. Qed.

Theorem plain_probe_agrees : forall (A R : Type) (f : list A -> R) memo ident fresh a b,
  probe_overwrite (call_plain f) memo ident fresh a b = (f b, f b).
Proof. reflexivity. Qed.

(* a memo keyed on identity returns the stale result after an in-place overwrite: the probe's two
   values differ whenever the routine distinguishes the two contents *)
Theorem id_cache_stale : forall (A R : Type) (f : list A -> R) ident fresh a b,
  ident <> fresh -> f a <> f b ->
  probe_overwrite (call_id_cached f) [] ident fresh a b = (f a, f b) /\
  fst (probe_overwrite (call_id_cached f) [] ident fresh a b)
    <> snd (probe_overwrite (call_id_cached f) [] ident fresh a b).
Proof.
  intros A R f ident fresh a b Hid Hf.
  assert (E : probe_overwrite (call_id_cached f) [] ident fresh a b = (f a, f b)).
  { unfold probe_overwrite, call_id_cached. cbn [lookup oid contents snd fst].
    rewrite Nat.eqb_refl. cbn [snd fst lookup].
    destruct (Nat.eqb fresh ident) eqn:Efr.
    - apply Nat.eqb_eq in Efr. exfalso. apply Hid. symmetry. exact Efr.
    - reflexivity. }
  split; [exact E|]. rewrite E. exact Hf.
Qed.

(* hence: results depend on the history.  Same object, same contents b, two histories. *)
Theorem id_cache_history_dependent : forall (A R : Type) (f : list A -> R) ident a b,
  f a <> f b ->
  fst (call_id_cached f (after_history (call_id_cached f) [] [Obj ident a]) (Obj ident b))
  <> fst (call_id_cached f (after_history (call_id_cached f) [] []) (Obj ident b)).
Proof.
  intros A R f ident a b Hf. unfold call_id_cached.
  cbn [after_history lookup oid contents snd fst]. rewrite Nat.eqb_refl. exact Hf.
Qed.

(* a memo keyed on the contents is invisible: sound entries stay sound, results are f(contents) *)
Definition memo_sound (A R : Type) (f : list A -> R) (memo : list (list A * R)) : Prop :=
  Forall (fun p => snd p = f (fst p)) memo.
Arguments memo_sound {A R} f memo.

Lemma lookup_sound : forall (A R : Type) (eqb : list A -> list A -> bool) (f : list A -> R) memo k r,
  (forall x y, eqb x y = true -> x = y) -> memo_sound f memo -> lookup eqb k memo = Some r -> r = f k.
Proof.
  intros A R eqb f memo k r Heq Hs; induction Hs as [|[k' r'] memo Hp _ IH]; intros Hl.
  - discriminate.
  - cbn [lookup] in Hl. destruct (eqb k k') eqn:E.
    + inversion Hl; subst. apply Heq in E. subst k'. exact Hp.
    + apply IH. exact Hl.
Qed.

Lemma content_cached_step : forall (A R : Type) (eqb : list A -> list A -> bool) (f : list A -> R) memo o,
  (forall x y, eqb x y = true -> x = y) -> memo_sound f memo ->
  fst (call_content_cached eqb f memo o) = f (contents o) /\
  memo_sound f (snd (call_content_cached eqb f memo o)).
Proof.
  intros A R eqb f memo o Heq Hs. unfold call_content_cached.
  destruct (lookup eqb (contents o) memo) as [r|] eqn:E; cbn [fst snd].
  - split; [apply (lookup_sound A R eqb f memo (contents o) r Heq Hs E)|exact Hs].
  - split; [reflexivity|]. constructor; [reflexivity|exact Hs].
Qed.

Lemma content_history_sound : forall (A R : Type) (eqb : list A -> list A -> bool) (f : list A -> R) h memo,
  (forall x y, eqb x y = true -> x = y) -> memo_sound f memo ->
  memo_sound f (after_history (call_content_cached eqb f) memo h).
Proof.
  intros A R eqb f h; induction h as [|o h IH]; intros memo Heq Hs.
  - exact Hs.
  - cbn [after_history]. apply IH; [exact Heq|]. apply (content_cached_step A R eqb f memo o Heq Hs).
Qed.

Theorem content_cache_history_independent :
  forall (A R : Type) (eqb : list A -> list A -> bool) (f : list A -> R) (h : list (obj A)) o,
  (forall x y, eqb x y = true -> x = y) ->
  fst (call_content_cached eqb f (after_history (call_content_cached eqb f) [] h) o) = f (contents o).
Proof.
  intros A R eqb f h o Heq.
  apply content_cached_step; [exact Heq|]. apply content_history_sound; [exact Heq|constructor].
Qed.
