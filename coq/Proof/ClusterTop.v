(* Top-level statements for C01, C02, C09, C10 assembled from the invariant lemmas. *)
From Coq Require Import List ZArith QArith Bool Arith Lia Lqa.
From EV Require Import Cluster ClusterCase ClusterBase ClusterInv ClusterPam ClusterKC.
Import ListNotations.

(* ---- the matrix handed over by the harness meets the theorems' hypotheses when valid_matrix says so *)
Lemma valid_matrix_sound m n : valid_matrix m n = true ->
  (forall f, Dext m n f f == 0) /\ (forall c f, c <> f -> 0 < Dext m n c f).
Proof.
  intros H. unfold valid_matrix in H. rewrite forallb_forall in H.
  assert (Hin : forall c f, (c < n)%nat -> (f < n)%nat ->
            (if c =? f then Qeq_bool (Dm m c f) 0 else Qlt_b 0 (Dm m c f)) = true).
  { intros c f Hc Hf. specialize (H c ltac:(apply in_seq; lia)). rewrite forallb_forall in H.
    apply H. apply in_seq. lia. }
  split.
  - intros f. unfold Dext. destruct (f <? n) eqn:E; cbn [andb].
    + apply Nat.ltb_lt in E. specialize (Hin f f E E). rewrite Nat.eqb_refl in Hin.
      apply Qeq_bool_iff. exact Hin.
    + rewrite Nat.eqb_refl. reflexivity.
  - intros c f Hne. unfold Dext. destruct ((c <? n) && (f <? n)) eqn:E.
    + apply andb_prop in E. destruct E as [E1 E2]. apply Nat.ltb_lt in E1, E2.
      specialize (Hin c f E1 E2). destruct (Nat.eqb_spec c f); [congruence|].
      apply Qlt_b_true. exact Hin.
    + destruct (Nat.eqb_spec c f); [congruence|]. reflexivity.
Qed.

Section Top.
  Variable D : nat -> nat -> Q.
  Hypothesis D_self : forall f, D f f == 0.
  Hypothesis D_pos : forall c f, c <> f -> 0 < D c f.
  Notation Inv := (Inv D).

  (* Inv in the words of the property *)
  Theorem inv_meaning n s : Inv n s ->
    length (snd s) = n /\ NoDup (fst s) /\ (forall c, In c (fst s) -> (c < n)%nat) /\
    forall f, (f < n)%nat ->
      let x := nth f (snd s) (mkfr 0 0 0) in
      let k := length (fst s) in
      fid x = f /\ (lab x < k)%nat /\ dist x = D (ctr (fst s) (lab x)) f /\
      (forall j, (j < k)%nat -> ~ D (ctr (fst s) j) f < dist x) /\
      (forall j, (j < k)%nat -> ctr (fst s) j = f -> lab x = j /\ dist x == 0).
  Proof.
    intros [ND [Hlt [Hne [Hfid [Hfr Hce]]]]].
    assert (Hlen : length (snd s) = n) by (rewrite <- (map_length fid), Hfid, seq_length; reflexivity).
    split; [exact Hlen|]. split; [exact ND|]. split; [exact Hlt|].
    intros f Hf x k.
    assert (Hx : In x (snd s)) by (apply nth_In; lia).
    assert (Ef : fid x = f).
    { unfold x. rewrite <- (map_nth fid). rewrite Hfid.
      rewrite (nth_indep _ _ 0%nat) by (rewrite seq_length; lia). rewrite seq_nth by lia. reflexivity. }
    rewrite Forall_forall in Hfr, Hce. destruct (Hfr x Hx) as [Hl [Hd Hm]].
    rewrite Ef in *. repeat split.
    - exact Hl.
    - exact Hd.
    - intros j Hj C. specialize (Hm j Hj). lra.
    - apply (Hce x Hx j H). rewrite Ef. exact H0.
    - apply (Hce x Hx j H). rewrite Ef. exact H0.
  Qed.

  Definition ti_ok (ti : bool) : Prop := ti = true -> metric_sym D /\ metric_tri D.

  Theorem kcenters_cold_inv nclu cutoff ti n :
    ti_ok ti -> 0 <= cutoff -> (0 < n)%nat -> Inv n (kcenters_cold D nclu cutoff ti n).
  Proof.
    intros Hti Hc Hn. unfold kcenters_cold. apply kc_loop_inv; auto. apply kc_first_inv; auto.
  Qed.

  Definition init_ok (n : nat) (init : list nat) : Prop :=
    init <> [] /\ NoDup init /\ forall c, In c init -> (c < n)%nat.

  Theorem kcenters_warm_inv nclu cutoff ti init n :
    ti_ok ti -> 0 <= cutoff -> init_ok n init -> Inv n (kcenters_warm D nclu cutoff ti init n).
  Proof.
    intros Hti Hc [H1 [H2 H3]]. unfold kcenters_warm. apply kc_loop_inv; auto.
    apply nearest_state_inv; auto.
  Qed.

  Theorem hybrid_cold_inv nclu cutoff n sweeps :
    0 <= cutoff -> (0 < n)%nat ->
    sweeps_ok n (length (fst (kcenters_cold D nclu cutoff false n))) sweeps ->
    Inv n (hybrid_cold D nclu cutoff n sweeps).
  Proof.
    intros Hc Hn Hok. unfold hybrid_cold.
    apply (kmedoids_inv D D_self D_pos n sweeps); [|exact Hok].
    apply kcenters_cold_inv; auto. intros E; discriminate.
  Qed.

  (* ---- C02 *)
  Theorem cold_first_center nclu cutoff ti n :
    exists ext, fst (kcenters_cold D nclu cutoff ti n) = 0%nat :: ext.
  Proof.
    unfold kcenters_cold. destruct (steps_prefix D nclu cutoff ti _ _ (kc_loop_steps D nclu cutoff ti (S n) (kc_first D n))) as [ext E].
    exists ext. rewrite E. reflexivity.
  Qed.

  Theorem warm_centers_kept nclu cutoff ti init n :
    exists ext, fst (kcenters_warm D nclu cutoff ti init n) = init ++ ext.
  Proof.
    unfold kcenters_warm. destruct (steps_prefix D nclu cutoff ti _ _ (kc_loop_steps D nclu cutoff ti (S n) (nearest_state D init n))) as [ext E].
    exists ext. rewrite E. reflexivity.
  Qed.

  Theorem steps_inv nclu cutoff ti n s s' :
    ti_ok ti -> 0 <= cutoff -> steps D nclu cutoff ti s s' -> Inv n s -> Inv n s'.
  Proof.
    intros Hti Hc H. induction H as [s|s s' G H IH]; intros HI; [exact HI|].
    apply IH. apply (kc_iter_inv_ti D D_self D_pos n s nclu cutoff ti); assumption.
  Qed.

  Theorem cold_stops_exactly nclu cutoff ti n :
    ti_ok ti -> 0 <= cutoff -> (0 < n)%nat ->
    steps D nclu cutoff ti (kc_first D n) (kcenters_cold D nclu cutoff ti n) /\
    kc_guard nclu cutoff (kcenters_cold D nclu cutoff ti n) = false.
  Proof.
    intros Hti Hc Hn. split; [apply kc_loop_steps|].
    unfold kcenters_cold. apply (kc_loop_stops D D_self D_pos nclu cutoff ti Hti Hc (S n) n).
    - apply kc_first_inv; auto.
    - cbn. lia.
  Qed.

  Theorem warm_stops_exactly nclu cutoff ti init n :
    ti_ok ti -> 0 <= cutoff -> init_ok n init ->
    steps D nclu cutoff ti (nearest_state D init n) (kcenters_warm D nclu cutoff ti init n) /\
    kc_guard nclu cutoff (kcenters_warm D nclu cutoff ti init n) = false.
  Proof.
    intros Hti Hc [H1 [H2 H3]]. split; [apply kc_loop_steps|].
    unfold kcenters_warm. apply (kc_loop_stops D D_self D_pos nclu cutoff ti Hti Hc (S n) n).
    - apply nearest_state_inv; auto.
    - cbn. lia.
  Qed.

  (* what "guard false" means: the count is reached or the radius is no longer above the cutoff *)
  Lemma guard_false_meaning nclu cutoff s :
    kc_guard nclu cutoff s = false <->
    (exists k, nclu = Some k /\ (k <= length (fst s))%nat) \/ maxdist (snd s) <= cutoff.
  Proof.
    unfold kc_guard. rewrite andb_false_iff. split.
    - intros [H|H].
      + left. destruct nclu as [k|]; [|discriminate]. exists k. split; [reflexivity|]. apply Nat.ltb_ge. exact H.
      + right. apply Qlt_b_false. exact H.
    - intros [[k [-> H]]|H].
      + left. apply Nat.ltb_ge. exact H.
      + right. apply Qlt_b_false. exact H.
  Qed.

  Theorem ti_same_result_cold nclu cutoff n :
    metric_sym D -> metric_tri D -> 0 <= cutoff -> (0 < n)%nat ->
    kcenters_cold D nclu cutoff true n = kcenters_cold D nclu cutoff false n.
  Proof.
    intros Hs Ht Hc Hn. unfold kcenters_cold.
    apply (kc_loop_ti_equiv D D_self D_pos nclu cutoff Hs Ht Hc (S n) n). apply kc_first_inv; auto.
  Qed.

  Theorem ti_same_result_warm nclu cutoff init n :
    metric_sym D -> metric_tri D -> 0 <= cutoff -> init_ok n init ->
    kcenters_warm D nclu cutoff true init n = kcenters_warm D nclu cutoff false init n.
  Proof.
    intros Hs Ht Hc [H1 [H2 H3]]. unfold kcenters_warm.
    apply (kc_loop_ti_equiv D D_self D_pos nclu cutoff Hs Ht Hc (S n) n). apply nearest_state_inv; auto.
  Qed.

  Lemma spread_single s : length (fst s) = 1%nat -> spread D s.
  Proof. intros H i j Hi Hj Hij. lia. Qed.

  Theorem two_approx_cold nclu cutoff ti n Sc rho :
    metric_sym D -> metric_tri D -> 0 <= cutoff -> (0 < n)%nat ->
    let r := kcenters_cold D nclu cutoff ti n in
    (length Sc <= length (fst r))%nat -> covers D Sc rho n -> maxdist (snd r) <= (2#1) * rho.
  Proof.
    intros Hs Ht Hc Hn r. subst r.
    assert (E : kcenters_cold D nclu cutoff ti n = kcenters_cold D nclu cutoff false n)
      by (destruct ti; [apply ti_same_result_cold; auto|reflexivity]).
    rewrite E. intros HS Hcov.
    apply (two_approx D n _ Sc rho Hs Ht); auto.
    - apply kcenters_cold_inv; auto. intros C; discriminate.
    - unfold kcenters_cold. apply (kc_loop_spread D D_self D_pos nclu cutoff Hs Hc (S n) n).
      + apply kc_first_inv; auto.
      + apply spread_single. reflexivity.
  Qed.

  Theorem two_approx_one_init nclu cutoff ti c n Sc rho :
    metric_sym D -> metric_tri D -> 0 <= cutoff -> (c < n)%nat ->
    let r := kcenters_warm D nclu cutoff ti [c] n in
    (length Sc <= length (fst r))%nat -> covers D Sc rho n -> maxdist (snd r) <= (2#1) * rho.
  Proof.
    intros Hs Ht Hc Hn r. subst r.
    assert (Hi : init_ok n [c]).
    { split; [discriminate|]. split; [constructor; [intros []|constructor]|]. intros x [<-|[]]. exact Hn. }
    assert (E : kcenters_warm D nclu cutoff ti [c] n = kcenters_warm D nclu cutoff false [c] n)
      by (destruct ti; [apply ti_same_result_warm; auto|reflexivity]).
    rewrite E. intros HS Hcov.
    apply (two_approx D n _ Sc rho Hs Ht); auto.
    - apply kcenters_warm_inv; auto. intros C; discriminate.
    - unfold kcenters_warm. destruct Hi as [H1 [H2 H3]].
      apply (kc_loop_spread D D_self D_pos nclu cutoff Hs Hc (S n) n).
      + apply nearest_state_inv; auto.
      + apply spread_single. reflexivity.
  Qed.

  (* ---- C09 *)
  Theorem hybrid_le_kcenters nclu cutoff n sweeps :
    0 <= cutoff -> (0 < n)%nat ->
    sweeps_ok n (length (fst (kcenters_cold D nclu cutoff false n))) sweeps ->
    sumsq (snd (hybrid_cold D nclu cutoff n sweeps)) <= sumsq (snd (kcenters_cold D nclu cutoff false n)) /\
    length (fst (hybrid_cold D nclu cutoff n sweeps)) = length (fst (kcenters_cold D nclu cutoff false n)).
  Proof.
    intros Hc Hn Hok. unfold hybrid_cold.
    destruct (kmedoids_inv D D_self D_pos n sweeps (kcenters_cold D nclu cutoff false n)) as [_ [H2 H3]]; auto.
    apply kcenters_cold_inv; auto. intros E; discriminate.
  Qed.
End Top.

(* the code compares means of squared distances; with the same n > 0 that is comparing sums *)
Lemma mean_lt_iff_sum_lt (a b : Q) (n : positive) :
  a / inject_Z (Z.pos n) < b / inject_Z (Z.pos n) <-> a < b.
Proof.
  assert (H : 0 < inject_Z (Z.pos n)) by (unfold Qlt; cbn; lia).
  split; intros L.
  - apply (Qmult_lt_r _ _ (/ inject_Z (Z.pos n))); [apply Qinv_lt_0_compat; exact H|exact L].
  - apply (Qmult_lt_r _ _ (/ inject_Z (Z.pos n))); [apply Qinv_lt_0_compat; exact H|exact L].
Qed.
