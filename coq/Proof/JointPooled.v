(* C18: the pooled table of mi_matrix has the shape of a single table, and the concatenation of the
   pooled trajectories is itself an accepted input.  nat/Z only. *)
From Coq Require Import List ZArith Bool Arith Lia Permutation.
From EV Require Import JointCounts Info JointCountsProofs JointShape.
Import ListNotations.
Local Open Scope nat_scope.

Notation traj := (list (list Z) * list (list Z))%type (only parsing).

(* ------------------------------------------------------------------ shape of a sum of tables *)
Lemma map_zipw_inv {A B} (g : A -> B) (f : A -> A -> A) l1 :
  (forall x y, g x = g y -> g (f x y) = g x) ->
  forall l2, map g l1 = map g l2 -> map g (zipw f l1 l2) = map g l1.
Proof.
  intros H. induction l1 as [|x r IH]; intros [|y s] E; simpl in *; try discriminate; auto.
  inversion E as [[E1 E2]]. f_equal; [apply H; exact E1|apply IH; exact E2].
Qed.

Lemma shape4_add4 J1 J2 : shape4 J1 = shape4 J2 -> shape4 (add4 J1 J2) = shape4 J1.
Proof.
  unfold shape4, add4. apply map_zipw_inv. intros x y. apply map_zipw_inv. intros x' y'.
  apply map_zipw_inv. intros r s E. rewrite length_zipw, E. apply Nat.min_id.
Qed.

Lemma shape4_bincount X Y nx ny jc :
  matrix_bincount2d X Y nx ny = Some jc ->
  shape4 jc = shape4 (zeros4 (width X) (width Y) (Z.to_nat nx) (Z.to_nat ny)).
Proof. intros E. apply bincount_some in E. destruct E as (_ & _ & _ & ->). apply shape4_run. Qed.

(* what acceptance by the pooling loop says about every trajectory *)
Definition pooled_ok (X0 Y0 : list (list Z)) (nx ny : Z) (XY : traj) : Prop :=
  length (fst XY) = length (snd XY) /\ valid_side (fst XY) nx = true /\ valid_side (snd XY) ny = true /\
  width (fst XY) = width X0 /\ width (snd XY) = width Y0.

Lemma pool_from_inv X0 Y0 nx ny : forall rest acc J,
  shape4 acc = shape4 (zeros4 (width X0) (width Y0) (Z.to_nat nx) (Z.to_nat ny)) ->
  pool_from X0 Y0 acc rest nx ny = Some J ->
  shape4 J = shape4 (zeros4 (width X0) (width Y0) (Z.to_nat nx) (Z.to_nat ny)) /\
  Forall (pooled_ok X0 Y0 nx ny) rest.
Proof.
  induction rest as [|[X Y] rest IH]; intros acc J Hs E; simpl in E.
  - inversion E; subst. split; [exact Hs|constructor].
  - destruct (matrix_bincount2d X Y nx ny) as [jc|] eqn:Ejc; [|discriminate].
    destruct (same_shape X0 Y0 X Y) eqn:Es; [|discriminate].
    unfold same_shape in Es. apply andb_true_iff in Es. destruct Es as (Ex & Ey).
    apply Nat.eqb_eq in Ex. apply Nat.eqb_eq in Ey.
    pose proof (shape4_bincount _ _ _ _ _ Ejc) as Hjc. rewrite Ex, Ey in Hjc.
    destruct (IH (add4 acc jc) J) as (HJ & Hall).
    + rewrite shape4_add4; [exact Hs|]. rewrite Hs, Hjc. reflexivity.
    + exact E.
    + split; [exact HJ|]. constructor; [|exact Hall].
      apply bincount_some in Ejc. destruct Ejc as (Hl & Hvx & Hvy & _).
      unfold pooled_ok. simpl. auto.
Qed.

Lemma pooled_inv X0 Y0 rest nx ny J :
  pooled_counts ((X0, Y0) :: rest) nx ny = Some J ->
  shape4 J = shape4 (zeros4 (width X0) (width Y0) (Z.to_nat nx) (Z.to_nat ny)) /\
  Forall (pooled_ok X0 Y0 nx ny) ((X0, Y0) :: rest).
Proof.
  intros E. simpl in E. destruct (matrix_bincount2d X0 Y0 nx ny) as [jc|] eqn:Ejc; [|discriminate].
  destruct (pool_from_inv X0 Y0 nx ny rest jc J (shape4_bincount _ _ _ _ _ Ejc) E) as (HJ & Hall).
  split; [exact HJ|]. constructor; [|exact Hall].
  apply bincount_some in Ejc. destruct Ejc as (Hl & Hvx & Hvy & _). unfold pooled_ok. simpl. auto.
Qed.

(* the pooled table for feature pair (a, b) is rectangular n_x x n_y *)
Theorem pooled_table_shape X0 Y0 rest nx ny J a b :
  pooled_counts ((X0, Y0) :: rest) nx ny = Some J -> a < width X0 -> b < width Y0 ->
  length (sub2 J a b) = Z.to_nat nx /\ width2 (sub2 J a b) = Z.to_nat ny /\ rect2 (sub2 J a b) = true.
Proof.
  intros E Ha Hb. destruct (pooled_inv _ _ _ _ _ _ E) as (HJ & Hall).
  inversion Hall as [|? ? H0 _]; subst. destruct H0 as (_ & Hvx & _). simpl in Hvx.
  apply shape_of_lengths.
  - apply valid_side_pos in Hvx. lia.
  - rewrite sub2_lengths, HJ, <- sub2_lengths.
    unfold sub2, zeros4. rewrite (nth_repeat _ _ _ a Ha), (nth_repeat _ _ _ b Hb).
    unfold zeros2. rewrite map_repeat', repeat_length. reflexivity.
Qed.

(* ------------------------------------------------------------------ the concatenation is accepted *)
Lemma rect_row X r : rect X = true -> In r X -> length r = width X.
Proof. unfold rect. rewrite forallb_forall. intros H Hr. apply Nat.eqb_eq, H, Hr. Qed.

Lemma concat_lengths X0 Y0 nx ny (XYs : list traj) :
  Forall (pooled_ok X0 Y0 nx ny) XYs ->
  length (concat (map fst XYs)) = length (concat (map snd XYs)).
Proof.
  induction 1 as [|[X Y] r (Hl & _) _ IH]; simpl; [reflexivity|].
  simpl in Hl. rewrite !app_length. lia.
Qed.

Lemma pooled_ok_lengths X0 Y0 nx ny (XYs : list traj) :
  Forall (pooled_ok X0 Y0 nx ny) XYs -> Forall (fun XY => length (fst XY) = length (snd XY)) XYs.
Proof. apply Forall_impl. intros XY (Hl & _). exact Hl. Qed.

Lemma concat_side_valid (sel : traj -> list (list Z)) W n (XYs : list traj) :
  XYs <> [] ->
  Forall (fun XY => valid_side (sel XY) n = true /\ width (sel XY) = W) XYs ->
  valid_side (concat (map sel XYs)) n = true /\ width (concat (map sel XYs)) = W.
Proof.
  intros Hne Hall.
  assert (Hrows : forall r, In r (concat (map sel XYs)) -> length r = W).
  { intros r Hr. apply in_concat in Hr. destruct Hr as (X & HX & Hr).
    apply in_map_iff in HX. destruct HX as (XY & <- & HXY).
    rewrite Forall_forall in Hall. destruct (Hall XY HXY) as (Hv & Hw).
    apply valid_side_spec in Hv. destruct Hv as (Hrect & _). rewrite <- Hw. apply rect_row; assumption. }
  destruct XYs as [|XY0 rest]; [congruence|].
  pose proof (Forall_inv Hall) as (Hv0 & Hw0).
  pose proof (valid_side_nonempty _ _ Hv0) as Hpos.
  assert (Hw : width (concat (map sel (XY0 :: rest))) = W).
  { simpl. destruct (sel XY0) as [|r0 X'] eqn:E0; [simpl in Hpos; lia|]. simpl.
    apply Hrows. simpl. rewrite E0. left. reflexivity. }
  split; [|exact Hw].
  apply valid_side_spec. split; [|split].
  - unfold rect. apply forallb_forall. intros r Hr. apply Nat.eqb_eq. rewrite Hw. apply Hrows. exact Hr.
  - simpl. rewrite concat_app. apply valid_side_spec in Hv0. destruct Hv0 as (_ & Hne0 & _).
    destruct (concat (sel XY0)); [congruence|discriminate].
  - intros v Hv. apply in_concat in Hv. destruct Hv as (r & Hr & Hv).
    apply in_concat in Hr. destruct Hr as (X & HX & Hr).
    apply in_map_iff in HX. destruct HX as (XY & <- & HXY).
    rewrite Forall_forall in Hall. destruct (Hall XY HXY) as (Hvs & _).
    apply valid_side_spec in Hvs. destruct Hvs as (_ & _ & Hrange). apply Hrange.
    apply in_concat. exists r. split; assumption.
Qed.

(* the concatenated trajectories form an accepted input with the feature counts of the first one *)
Theorem pooled_concat_accepted X0 Y0 rest nx ny J :
  pooled_counts ((X0, Y0) :: rest) nx ny = Some J ->
  let XYs := (X0, Y0) :: rest in
  exists Jc, matrix_bincount2d (concat (map fst XYs)) (concat (map snd XYs)) nx ny = Some Jc /\
    width (concat (map fst XYs)) = width X0 /\ width (concat (map snd XYs)) = width Y0 /\
    Forall (fun XY => length (fst XY) = length (snd XY)) XYs.
Proof.
  intros E XYs. destruct (pooled_inv _ _ _ _ _ _ E) as (_ & Hall). fold XYs in Hall.
  destruct (concat_side_valid fst (width X0) nx XYs) as (Hvx & Hwx).
  { unfold XYs. discriminate. }
  { revert Hall. apply Forall_impl. intros XY (_ & Hv & _ & Hw & _). auto. }
  destruct (concat_side_valid snd (width Y0) ny XYs) as (Hvy & Hwy).
  { unfold XYs. discriminate. }
  { revert Hall. apply Forall_impl. intros XY (_ & _ & Hv & _ & Hw). auto. }
  pose proof (concat_lengths _ _ _ _ _ Hall) as Hlen.
  unfold matrix_bincount2d, matrix_bincount2d_sched.
  rewrite Hlen, Nat.eqb_refl, Hvx, Hvy. cbn [andb].
  eexists. split; [reflexivity|]. split; [exact Hwx|]. split; [exact Hwy|].
  apply (pooled_ok_lengths X0 Y0 nx ny). exact Hall.
Qed.

(* cell (u, v) of the pooled table, in table coordinates *)
Theorem pooled_table_cell X0 Y0 rest nx ny J a b u v :
  pooled_counts ((X0, Y0) :: rest) nx ny = Some J -> a < width X0 -> b < width Y0 ->
  u < Z.to_nat nx -> v < Z.to_nat ny ->
  get2 (sub2 J a b) u v =
  count_frames (concat (map fst ((X0, Y0) :: rest))) (concat (map snd ((X0, Y0) :: rest))) a b
               (Z.of_nat u) (Z.of_nat v).
Proof.
  intros E Ha Hb Hu Hv.
  destruct (pooled_concat_accepted _ _ _ _ _ _ E) as (_ & _ & _ & _ & Hlens).
  rewrite <- pooled_spec_concat by exact Hlens.
  rewrite <- (jc_pooled X0 Y0 rest nx ny J a b (Z.of_nat u) (Z.of_nat v) E Ha Hb) by lia.
  rewrite !Nat2Z.id. reflexivity.
Qed.
